(* Lemmas about Model/StatusHeap.v. *)
From Coq Require Import Strings.String Strings.Byte.
From Coq Require Import List Arith NArith ZArith Bool Lia.
From Verif Require Import Base.Bytes Model.StatusHeap.
Import ListNotations.
Local Open Scope N_scope.

(* ---------------------------------------------------------------- heap primitives *)
Lemma get_alloc_same h s : get (fst (alloc h s)) (next h) = Some s.
Proof. unfold get, alloc; cbn. now rewrite N.eqb_refl. Qed.

Lemma get_alloc_other h s a : a <> next h -> get (fst (alloc h s)) a = get h a.
Proof.
  intros H. unfold get, alloc; cbn.
  destruct (N.eqb_spec (next h) a); [congruence | reflexivity].
Qed.

Lemma next_alloc h s : next (fst (alloc h s)) = next h + 1.
Proof. reflexivity. Qed.

Lemma snd_alloc h s : snd (alloc h s) = next h.
Proof. reflexivity. Qed.

Lemma get_write_same h a s : get (write h a s) a = Some s.
Proof. unfold get, write; cbn. now rewrite N.eqb_refl. Qed.

Lemma get_write_other h a b s : a <> b -> get (write h b s) a = get h a.
Proof.
  intros H. unfold get, write; cbn.
  destruct (N.eqb_spec b a); [congruence | reflexivity].
Qed.

Lemma next_write h a s : next (write h a s) = next h.
Proof. reflexivity. Qed.

Lemma next_modify h a f : next (modify h a f) = next h.
Proof. unfold modify. destruct (get h a); reflexivity. Qed.

Lemma get_modify_other h a b f : a <> b -> get (modify h b f) a = get h a.
Proof.
  intros H. unfold modify. destruct (get h b); [now apply get_write_other | reflexivity].
Qed.

Lemma get_modify_same h a f : get (modify h a f) a = option_map f (get h a).
Proof.
  unfold modify. destruct (get h a) eqn:E; cbn.
  - apply get_write_same.
  - exact E.
Qed.

Lemma copy_addr h a nc : snd (copy h a nc) = next h.
Proof. unfold copy. destruct (get h a); reflexivity. Qed.

Lemma next_copy h a nc : next (fst (copy h a nc)) = next h + 1.
Proof. unfold copy. destruct (get h a); reflexivity. Qed.

Lemma get_copy_other h a nc b : b <> next h -> get (fst (copy h a nc)) b = get h b.
Proof. intros H. unfold copy. destruct (get h a); now apply get_alloc_other. Qed.

Lemma get_copy_same h a nc s :
  get h a = Some s ->
  get (fst (copy h a nc)) (next h)
  = Some (mkStatus (st_code s) (st_msg s) (match nc with Some c => Some c | None => st_cause s end)).
Proof. intros H. unfold copy. rewrite H. apply get_alloc_same. Qed.

(* ---------------------------------------------------------------- the table *)
Lemma init_cells_get t : forall base a,
  base <= a -> a < base + tlen t ->
  exists s, assoc_get (init_cells t base) a = Some s
            /\ nth_error t (N.to_nat (a - base)) = Some (fst (nth (N.to_nat (a - base)) t (([], []), zero_status)), s).
Proof.
  unfold tlen. induction t as [|[n s] r IH]; intros base a H1 H2; cbn [length] in H2.
  - lia.
  - cbn [init_cells assoc_get]. destruct (N.eqb_spec base a) as [->|Hne].
    + exists s. replace (a - a) with 0 by lia. cbn. auto.
    + destruct (IH (base + 1) a) as [s' [G1 G2]]; try lia.
      exists s'. split; [exact G1|].
      replace (N.to_nat (a - base)) with (S (N.to_nat (a - (base + 1)))) by lia.
      cbn [nth_error nth]. exact G2.
Qed.

Lemma init_get_some t a : a < tlen t -> exists s, get (hp (init t)) a = Some s.
Proof.
  intros H. destruct (init_cells_get t 0 a) as [s [G _]]; try lia.
  exists s. exact G.
Qed.

Lemma lookup_from_bound t n : forall base a, lookup_from t n base = Some a -> base <= a /\ a < base + tlen t.
Proof.
  unfold tlen. induction t as [|[m s] r IH]; intros base a H; cbn in H.
  - discriminate.
  - destruct (name_eqb m n).
    + inversion H; subst. cbn [length]. lia.
    + apply IH in H. cbn [length]. lia.
Qed.

Lemma lookup_bound t n a : lookup t n = Some a -> a < tlen t.
Proof. intros H. apply lookup_from_bound in H. lia. Qed.

(* ---------------------------------------------------------------- the frame relation *)
(* [R c st st']: the heap only grew, every old cell that is not the reusable input slot kept
   its content, the application's list of held statuses only grew, and the input slot is
   either the old one or a cell allocated since. *)
Definition R (c : config) (st st' : state) : Prop :=
  next (hp st) <= next (hp st')
  /\ (forall a, a < next (hp st) -> (reset_clears c = true \/ inslot st <> Some a) ->
        get (hp st') a = get (hp st) a)
  /\ (exists l, held st' = held st ++ l
        /\ forall a, In a l -> a < next (hp st'))
  /\ (forall s, inslot st' = Some s -> inslot st = Some s \/ (next (hp st) <= s /\ s < next (hp st'))).

Lemma R_intro c st st' l :
  next (hp st) <= next (hp st') ->
  (forall a, a < next (hp st) -> (reset_clears c = true \/ inslot st <> Some a) ->
     get (hp st') a = get (hp st) a) ->
  held st' = held st ++ l -> (forall a, In a l -> a < next (hp st')) ->
  (forall s, inslot st' = Some s -> inslot st = Some s \/ (next (hp st) <= s /\ s < next (hp st'))) ->
  R c st st'.
Proof. intros A B C D E. split; [exact A|]. split; [exact B|]. split; [|exact E]. exists l. auto. Qed.

Lemma R_refl c st : R c st st.
Proof.
  apply (R_intro c st st []); [lia | auto | now rewrite app_nil_r | intros ? [] | auto].
Qed.

Lemma R_trans c s1 s2 s3 : R c s1 s2 -> R c s2 s3 -> R c s1 s3.
Proof.
  intros (N1 & G1 & (l1 & H1 & B1) & S1) (N2 & G2 & (l2 & H2 & B2) & S2).
  apply (R_intro c s1 s3 (l1 ++ l2)).
  - lia.
  - intros a Ha Hc. rewrite G2; [apply G1; auto| lia |].
    destruct Hc as [Hc|Hc]; [now left|]. right. intros E.
    destruct (S1 _ E) as [E1 | [E1 _]]; [exact (Hc E1) | lia].
  - rewrite H2, H1. now rewrite app_assoc.
  - intros a Ha. apply in_app_or in Ha. destruct Ha as [Ha|Ha].
    + specialize (B1 _ Ha). lia.
    + apply B2; auto.
  - intros s Hs. destruct (S2 _ Hs) as [E | [E1 E2]].
    + destruct (S1 _ E) as [E' | [E1 E2]]; [now left | right; lia].
    + right. lia.
Qed.

Lemma R_with_heap_grow c st h :
  next (hp st) <= next h ->
  (forall a, a < next (hp st) -> get h a = get (hp st) a) ->
  R c st (with_heap st h).
Proof.
  intros Hn Hg. apply (R_intro c st (with_heap st h) []); cbn;
    [exact Hn | intros a Ha _; auto | now rewrite app_nil_r | intros ? [] | auto].
Qed.

Lemma R_alloc c st s : R c st (with_heap st (fst (alloc (hp st) s))).
Proof.
  apply R_with_heap_grow.
  - rewrite next_alloc. lia.
  - intros a Ha. apply get_alloc_other. lia.
Qed.

Lemma R_copy c st a nc : R c st (with_heap st (fst (copy (hp st) a nc))).
Proof.
  apply R_with_heap_grow.
  - rewrite next_copy. lia.
  - intros b Hb. apply get_copy_other. lia.
Qed.

Lemma R_hold c st p :
  (forall a, p = Some a -> a < next (hp st)) -> R c st (hold st p).
Proof.
  intros Hp. destruct p as [a|]; [|apply R_refl].
  unfold hold. apply (R_intro c st _ [a]); cbn; [lia | auto | reflexivity | | auto].
  intros b [<-|[]]. auto.
Qed.

Lemma R_unpack c st t : R c st (fst (unpack c st t)).
Proof.
  unfold unpack. destruct (reset_clears c) eqn:Hr.
  - cbn. apply (R_intro c st _ []); cbn; [lia | | now rewrite app_nil_r | intros ? [] | ].
    + intros a Ha _. apply get_alloc_other. lia.
    + intros s Hs. inversion Hs; subst. right. lia.
  - destruct (inslot st) as [a|] eqn:Hs; cbn.
    + apply (R_intro c st _ []); [cbn; lia | | cbn; now rewrite app_nil_r | intros ? [] | ].
      * intros b Hb [Hc|Hc]; [congruence|]. cbn [fst hp]. apply get_write_other.
        intros ->. now apply Hc.
      * cbn. intros s E. inversion E; subst. now left.
    + apply (R_intro c st _ []); cbn; [lia | | now rewrite app_nil_r | intros ? [] | ].
      * intros a Ha _. apply get_alloc_other. lia.
      * intros s E. inversion E; subst. right. lia.
Qed.

(* the input slot, when set, is an allocated cell above the table *)
Definition slot_ok (n : N) (st : state) : Prop :=
  forall s, inslot st = Some s -> n <= s /\ s < next (hp st).

Lemma unpack_addr c st t n :
  slot_ok n st -> n <= next (hp st) ->
  n <= snd (unpack c st t) /\ snd (unpack c st t) < next (hp (fst (unpack c st t)))
  /\ get (hp (fst (unpack c st t))) (snd (unpack c st t)) = Some t.
Proof.
  intros Hs Hn. unfold unpack. destruct (reset_clears c).
  - cbn. rewrite N.eqb_refl. repeat split; lia.
  - destruct (inslot st) as [a|] eqn:E; cbn.
    + destruct (Hs _ E). rewrite N.eqb_refl. repeat split; lia.
    + rewrite N.eqb_refl. repeat split; lia.
Qed.

Lemma slot_ok_R c n st st' : n <= next (hp st) -> slot_ok n st -> R c st st' -> slot_ok n st'.
Proof.
  intros Hn Hs (N1 & _ & _ & S1) s E. destruct (S1 _ E) as [E1 | [E1 E2]].
  - destruct (Hs _ E1). lia.
  - lia.
Qed.

Lemma over_wire_R c w st p n :
  slot_ok n st -> n <= next (hp st) -> R c st (fst (over_wire c w st p)).
Proof.
  intros Hs Hn. unfold over_wire.
  destruct (deref st p) as [s|]; [destruct (Z.eqb (st_code s) 0)|]; try apply R_unpack.
  destruct (unpack c st (wire_decode w s)) as [st1 a] eqn:E. cbn.
  pose proof (R_unpack c st (wire_decode w s)) as H.
  pose proof (unpack_addr c st (wire_decode w s) n Hs Hn) as (A1 & A2 & _).
  rewrite E in *. cbn in *.
  eapply R_trans; [exact H|].
  change (R c st1 (hold st1 (Some a))). apply R_hold. intros b Hb. inversion Hb; subst. exact A2.
Qed.

Lemma over_wire_obs c w st p n :
  slot_ok n st -> n <= next (hp st) ->
  snd (over_wire c w st p)
  = match deref st p with
    | Some s => if Z.eqb (st_code s) 0 then None else Some (wire_decode w s)
    | None => None
    end.
Proof.
  intros Hs Hn. unfold over_wire.
  destruct (deref st p) as [s|]; [destruct (Z.eqb (st_code s) 0)|]; try reflexivity.
  pose proof (unpack_addr c st (wire_decode w s) n Hs Hn) as (_ & _ & A3).
  destruct (unpack c st (wire_decode w s)) as [st1 a]. cbn in *. exact A3.
Qed.

(* ---------------------------------------------------------------- the two rewriting plugins *)
Definition bg_spec (c : config) (o : option status) : option status :=
  match o with
  | Some s => if conn_class s then Some (mkStatus (bg_code c) (bg_text c) (st_cause s)) else Some s
  | None => None
  end.

Lemma bad_gateway_safe c st p :
  proxy_inplace c = false ->
  (forall a, p = Some a -> a < next (hp st)) ->
  let r := bad_gateway c st p in
  R c st (fst r)
  /\ inslot (fst r) = inslot st
  /\ (forall a, snd r = Some a -> a < next (hp (fst r)))
  /\ deref (fst r) (snd r) = bg_spec c (deref st p).
Proof.
  intros Hc Hp. unfold bad_gateway. destruct p as [a|]; cbn.
  2:{ split; [apply R_refl | split; [reflexivity | split; [intros; discriminate | reflexivity]]]. }
  specialize (Hp a eq_refl).
  destruct (get (hp st) a) as [s|] eqn:G; cbn.
  2:{ rewrite ?G. split; [apply R_refl | split; [reflexivity | split; [|reflexivity]]].
      intros b Hb. inversion Hb; subst; auto. }
  destruct (conn_class s) eqn:Hk.
  2:{ cbn. rewrite ?G, ?Hk. split; [apply R_refl | split; [reflexivity | split; [|reflexivity]]].
      intros b Hb. inversion Hb; subst; auto. }
  rewrite Hc.
  pose proof (copy_addr (hp st) a None) as Ca.
  pose proof (next_copy (hp st) a None) as Cn.
  pose proof (get_copy_same (hp st) a None s G) as Cs.
  destruct (copy (hp st) a None) as [h1 b] eqn:E. cbn in Ca, Cn, Cs. subst b.
  cbn [fst snd]. split; [|split; [|split]].
  - apply R_with_heap_grow.
    + unfold set_msg, set_code. rewrite !next_modify. lia.
    + intros x Hx. unfold set_msg, set_code. rewrite !get_modify_other by lia.
      change h1 with (fst (h1, next (hp st))). rewrite <- E. apply get_copy_other. lia.
  - reflexivity.
  - intros x Hx. inversion Hx; subst. cbn. unfold set_msg, set_code. rewrite !next_modify. lia.
  - cbn. unfold set_msg, set_code. rewrite get_modify_same, get_modify_same, Cs. reflexivity.
Qed.

Definition fix_spec (s : status) (omsg : option bytes) (ocode : option Z) : status :=
  mkStatus (match ocode with Some k => k | None => st_code s end)
           (match omsg with Some m => m | None => st_msg s end)
           (st_cause s).

Lemma fix_status_safe c st a omsg ocode s :
  binder_inplace c = false ->
  a < next (hp st) -> get (hp st) a = Some s ->
  let r := fix_status c st a omsg ocode in
  R c st (fst r)
  /\ inslot (fst r) = inslot st
  /\ snd r < next (hp (fst r))
  /\ get (hp (fst r)) (snd r) = Some (fix_spec s omsg ocode).
Proof.
  intros Hc Ha G. unfold fix_status.
  assert (Hnone : omsg = None -> ocode = None ->
                  R c st st /\ inslot st = inslot st /\ a < next (hp st)
                  /\ get (hp st) a = Some (fix_spec s None None)).
  { intros _ _. split; [apply R_refl | split; [reflexivity | split; [exact Ha|]]].
    rewrite G. destruct s; reflexivity. }
  destruct omsg as [m|], ocode as [k|]; cbn zeta; try (now apply Hnone); rewrite Hc;
    pose proof (copy_addr (hp st) a None) as Ca;
    pose proof (next_copy (hp st) a None) as Cn;
    pose proof (get_copy_same (hp st) a None s G) as Cs;
    pose proof (fun x => get_copy_other (hp st) a None x) as Co;
    destruct (copy (hp st) a None) as [h1 b]; cbn in Ca, Cn, Cs, Co; subst b; cbn [fst snd];
    (split; [|split; [|split]]);
    try reflexivity;
    try (apply R_with_heap_grow;
         [ unfold set_msg, set_code; rewrite ?next_modify; lia
         | intros x Hx; unfold set_msg, set_code; rewrite ?get_modify_other by lia; apply Co; lia ]);
    try (cbn; unfold set_msg, set_code; rewrite ?next_modify; lia);
    cbn; unfold set_msg, set_code; rewrite ?get_modify_same, Cs; reflexivity.
Qed.

(* ---------------------------------------------------------------- good states *)
(* what every reachable state satisfies when the configuration is safe *)
Definition good (t : table) (st : state) : Prop :=
  tlen t <= next (hp st)
  /\ slot_ok (tlen t) st
  /\ (forall a, a < tlen t -> get (hp st) a = get (hp (init t)) a)
  /\ (forall a, In a (held st) -> a < next (hp st)).

Lemma good_init t : good t (init t).
Proof.
  unfold good, slot_ok; cbn. split; [lia|]. split; [discriminate|]. split; [auto|]. intros a [].
Qed.

Lemma good_R c t st st' : good t st -> R c st st' -> good t st'.
Proof.
  intros (G1 & G2 & G3 & G4) HR.
  pose proof (slot_ok_R c _ _ _ G1 G2 HR) as S'.
  destruct HR as (N1 & F1 & (l & H1 & B1) & S1).
  split; [lia|]. split; [exact S'|]. split.
  - intros a Ha. rewrite F1; [auto | lia |].
    right. intros E. destruct (G2 _ E). lia.
  - intros a Ha. rewrite H1 in Ha. apply in_app_or in Ha. destruct Ha as [Ha|Ha].
    + specialize (G4 _ Ha). lia.
    + apply B1; auto.
Qed.

Lemma sget_good t st n : good t st -> deref st (lookup t n) = deref (init t) (lookup t n).
Proof.
  intros (_ & _ & G3 & _). destruct (lookup t n) as [a|] eqn:E; cbn; [|reflexivity].
  apply G3. eapply lookup_bound; eauto.
Qed.

Lemma lookup_valid t st n a : good t st -> lookup t n = Some a -> a < next (hp st).
Proof. intros (G1 & _) H. apply lookup_bound in H. lia. Qed.

Lemma fwd_ptr_safe c t st f :
  good t st ->
  let r := fwd_ptr c t st f in
  R c st (fst r) /\ inslot (fst r) = inslot st
  /\ (forall a, snd r = Some a -> a < next (hp (fst r)))
  /\ deref (fst r) (snd r)
     = match f with FOk => None | FSent n => deref (init t) (lookup t n) | FObj s => Some s end.
Proof.
  intros G. destruct f as [|n|s]; cbn.
  - split; [apply R_refl | split; [reflexivity | split; [intros; discriminate | reflexivity]]].
  - split; [apply R_refl | split; [reflexivity | split]].
    + intros a Ha. eapply lookup_valid; eauto.
    + apply sget_good; auto.
  - split; [apply (R_alloc c st s) | split; [reflexivity | split]].
    + intros a Ha. inversion Ha; subst. lia.
    + now rewrite N.eqb_refl.
Qed.

(* ---------------------------------------------------------------- one step *)
Definition sget (t : table) (n : name) : option status := deref (init t) (lookup t n).

Definition wire_spec (w : wire) (o : option status) : option status :=
  match o with
  | Some s => if Z.eqb (st_code s) 0 then None else Some (wire_decode w s)
  | None => None
  end.

(* the triple an operation reports, as a function of the table alone *)
Definition obs_spec (c : config) (t : table) (e : event) : option status :=
  match e with
  | EOk | EOkWire | ESilent _ | EProxyPush _ | EInspect _ => None
  | EAppCustom _ ann => Some ann
  | EReturn n => sget t n
  | ECopy n cause =>
      option_map (fun s => mkStatus (st_code s) (st_msg s) (Some cause)) (sget t n)
  | ERemoteReturn w n => wire_spec w (sget t n)
  | ERemoteCopy w n cause =>
      wire_spec w (option_map (fun s => mkStatus (st_code s) (st_msg s) (Some cause)) (sget t n))
  | ERemoteFresh w s => wire_spec w (Some s)
  | EProxyCall f =>
      wire_spec WQuery (bg_spec c (match f with FOk => None | FSent n => sget t n | FObj s => Some s end))
  | EBinder shared errstat omsg ocode =>
      match (match shared with Some n => sget t n | None => Some errstat end) with
      | Some s => wire_spec WQuery (Some (fix_spec s omsg ocode))
      | None => None
      end
  end.

Lemma lookup_get_some t st n a :
  good t st -> lookup t n = Some a -> exists s, get (hp st) a = Some s /\ sget t n = Some s.
Proof.
  intros G H. pose proof (lookup_bound _ _ _ H) as Hb.
  destruct (init_get_some t a Hb) as [s Hs]. exists s.
  destruct G as (_ & _ & G3 & _). split; [rewrite G3; auto|].
  unfold sget. rewrite H. exact Hs.
Qed.

Lemma good_slot_next t st : good t st -> slot_ok (tlen t) st /\ tlen t <= next (hp st).
Proof. intros (A & B & _). auto. Qed.

Lemma step_safe c t st e :
  cfg_safe c = true -> good t st ->
  R c st (fst (step c t st e))
  /\ (is_inspect e = false -> snd (step c t st e) = obs_spec c t e).
Proof.
  intros Hsafe G. unfold cfg_safe in Hsafe. apply andb_prop in Hsafe as [Hsafe Hctor].
  apply andb_prop in Hsafe as [Hp Hb].
  apply negb_true_iff in Hp. apply negb_true_iff in Hb.
  destruct (good_slot_next _ _ G) as [Gs Gn].
  destruct e as [| |n|n cause|w n|w n cause|w s|n|f|f|shared errstat omsg ocode|base ann|i]; cbn [step is_inspect obs_spec].
  - split; [apply R_refl | reflexivity].
  - split; [eapply over_wire_R; eauto|]. intros _. erewrite over_wire_obs; eauto.
  - split.
    + apply R_hold. intros a Ha. eapply lookup_valid; eauto.
    + intros _. cbn. apply sget_good; auto.
  - destruct (lookup t n) as [a|] eqn:E.
    + destruct (lookup_get_some _ _ _ _ G E) as [s [Hs1 Hs2]].
      pose proof (copy_addr (hp st) a (Some cause)) as Ca.
      pose proof (next_copy (hp st) a (Some cause)) as Cn.
      pose proof (get_copy_same (hp st) a (Some cause) s Hs1) as Cs.
      pose proof (R_copy c st a (Some cause)) as Rc.
      destruct (copy (hp st) a (Some cause)) as [h b]. cbn in Ca, Cn, Cs, Rc. subst b. cbn [fst snd].
      split.
      * eapply R_trans; [exact Rc|]. apply R_hold. intros x Hx. inversion Hx; subst. cbn. lia.
      * intros _. rewrite Cs. unfold sget in *. rewrite Hs2. reflexivity.
    + cbn. split; [apply R_refl|]. intros _. unfold sget. now rewrite E.
  - split; [eapply over_wire_R; eauto|]. intros _.
    erewrite over_wire_obs; eauto. rewrite sget_good; auto.
  - destruct (lookup t n) as [a|] eqn:E.
    + destruct (lookup_get_some _ _ _ _ G E) as [s [Hs1 Hs2]].
      pose proof (copy_addr (hp st) a (Some cause)) as Ca.
      pose proof (next_copy (hp st) a (Some cause)) as Cn.
      pose proof (get_copy_same (hp st) a (Some cause) s Hs1) as Cs.
      pose proof (R_copy c st a (Some cause)) as Rc.
      destruct (copy (hp st) a (Some cause)) as [h b]. cbn in Ca, Cn, Cs, Rc. subst b.
      pose proof (good_R _ _ _ _ G Rc) as G1. destruct (good_slot_next _ _ G1) as [Gs1 Gn1].
      split.
      * eapply R_trans; [exact Rc|]. eapply over_wire_R; eauto.
      * intros _. erewrite over_wire_obs; eauto. cbn. rewrite Cs. rewrite Hs2. reflexivity.
    + cbn. split; [apply R_refl|]. intros _. unfold sget. now rewrite E.
  - pose proof (R_alloc c st s) as Ra.
    pose proof (get_alloc_same (hp st) s) as Gs'.
    destruct (alloc (hp st) s) as [h b] eqn:Ea. cbn in Ra, Gs'.
    assert (b = next (hp st)) by (unfold alloc in Ea; now inversion Ea). subst b.
    pose proof (good_R _ _ _ _ G Ra) as G1. destruct (good_slot_next _ _ G1) as [Gs1 Gn1].
    split.
    + eapply R_trans; [exact Ra|]. eapply over_wire_R; eauto.
    + intros _. erewrite over_wire_obs; eauto. cbn. rewrite Gs'. reflexivity.
  - split; [apply R_refl | reflexivity].
  - pose proof (fwd_ptr_safe c t st f G) as (R1 & S1 & V1 & D1).
    destruct (fwd_ptr c t st f) as [st1 p]. cbn [fst snd] in *.
    pose proof (bad_gateway_safe c st1 p Hp V1) as (R2 & S2 & V2 & D2).
    destruct (bad_gateway c st1 p) as [st2 q]. cbn [fst snd] in *.
    pose proof (good_R _ _ _ _ G R1) as G1. pose proof (good_R _ _ _ _ G1 R2) as G2.
    destruct (good_slot_next _ _ G2) as [Gs2 Gn2].
    split.
    + eapply R_trans; [exact R1|]. eapply R_trans; [exact R2|]. eapply over_wire_R; eauto.
    + intros _. erewrite over_wire_obs; eauto. rewrite D2, D1. reflexivity.
  - pose proof (fwd_ptr_safe c t st f G) as (R1 & S1 & V1 & D1).
    destruct (fwd_ptr c t st f) as [st1 p]. cbn [fst snd] in *.
    pose proof (bad_gateway_safe c st1 p Hp V1) as (R2 & S2 & V2 & D2).
    destruct (bad_gateway c st1 p) as [st2 q]. cbn [fst snd] in *.
    split; [eapply R_trans; eauto | reflexivity].
  - destruct shared as [n|].
    + destruct (lookup t n) as [a|] eqn:E.
      * destruct (lookup_get_some _ _ _ _ G E) as [s [Hs1 Hs2]].
        pose proof (fix_status_safe c st a omsg ocode s Hb (lookup_valid _ _ _ _ G E) Hs1) as (R2 & S2 & V2 & D2).
        destruct (fix_status c st a omsg ocode) as [st2 b]. cbn [fst snd] in *.
        pose proof (good_R _ _ _ _ G R2) as G2. destruct (good_slot_next _ _ G2) as [Gs2 Gn2].
        split.
        -- eapply R_trans; [exact R2|]. eapply over_wire_R; eauto.
        -- intros _. erewrite over_wire_obs; eauto. cbn. rewrite D2, Hs2. reflexivity.
      * cbn. split; [apply R_refl|]. intros _. unfold sget. now rewrite E.
    + pose proof (R_alloc c st errstat) as Ra.
      pose proof (get_alloc_same (hp st) errstat) as Gs'.
      destruct (alloc (hp st) errstat) as [h a] eqn:Ea. cbn in Ra, Gs'.
      assert (a = next (hp st)) by (unfold alloc in Ea; now inversion Ea). subst a.
      assert (Hn : next h = next (hp st) + 1) by (unfold alloc in Ea; now inversion Ea).
      assert (Va : next (hp st) < next (hp (with_heap st h))) by (cbn; lia).
      pose proof (fix_status_safe c (with_heap st h) (next (hp st)) omsg ocode errstat Hb Va Gs') as (R2 & S2 & V2 & D2).
      destruct (fix_status c (with_heap st h) (next (hp st)) omsg ocode) as [st2 b]. cbn [fst snd] in *.
      pose proof (good_R _ _ _ _ G Ra) as G1. pose proof (good_R _ _ _ _ G1 R2) as G2.
      destruct (good_slot_next _ _ G2) as [Gs2 Gn2].
      split.
      * eapply R_trans; [exact Ra|]. eapply R_trans; [exact R2|]. eapply over_wire_R; eauto.
      * intros _. erewrite over_wire_obs; eauto. cbn. rewrite D2. reflexivity.
  - rewrite Hctor. cbn [fst snd alloc].
    set (a := next (hp st)).
    set (h0 := {| cells := (a, base) :: cells (hp st); next := a + 1 |}).
    split.
    + eapply R_trans.
      * apply (R_with_heap_grow c st (write h0 a ann)).
        -- cbn. lia.
        -- intros x Hx. rewrite get_write_other by (subst a; lia).
           change h0 with (fst (alloc (hp st) base)). apply get_alloc_other. subst a. lia.
      * apply R_hold. intros x Hx. inversion Hx; subst. cbn. lia.
    + intros _. apply get_write_same.
  - split; [apply R_refl | discriminate].
Qed.

(* ---------------------------------------------------------------- histories *)
Lemma run_from_app c t st h1 h2 :
  run_from c t st (h1 ++ h2) = run_from c t (run_from c t st h1) h2.
Proof. revert st. induction h1; intros; cbn; auto. Qed.

Lemma run_from_safe c t h : forall st,
  cfg_safe c = true -> good t st -> R c st (run_from c t st h) /\ good t (run_from c t st h).
Proof.
  induction h as [|e r IH]; intros st Hs G; cbn.
  - split; [apply R_refl | exact G].
  - destruct (step_safe c t st e Hs G) as [R1 _].
    pose proof (good_R _ _ _ _ G R1) as G1.
    destruct (IH _ Hs G1) as [R2 G2]. split; [eapply R_trans; eauto | exact G2].
Qed.

Lemma run_good c t h : cfg_safe c = true -> good t (run c t h).
Proof. intros Hs. apply run_from_safe; auto. apply good_init. Qed.

(* every history leaves every predefined status as it was *)
Lemma sentinels_immutable_lemma c t h :
  cfg_safe c = true ->
  forall a, a < tlen t -> get (hp (run c t h)) a = get (hp (init t)) a.
Proof.
  intros Hs a Ha. destruct (run_good c t h Hs) as (_ & _ & G3 & _). auto.
Qed.

Lemma sentinels_by_name_lemma c t h n :
  cfg_safe c = true -> deref (run c t h) (lookup t n) = deref (init t) (lookup t n).
Proof. intros Hs. apply sget_good. now apply run_good. Qed.

(* the triple reported by any operation does not depend on the history *)
Lemma failure_history_independent_lemma c t h e :
  cfg_safe c = true -> is_inspect e = false ->
  snd (step c t (run c t h) e) = snd (step c t (init t) e).
Proof.
  intros Hs He.
  destruct (step_safe c t (run c t h) e Hs (run_good c t h Hs)) as [_ A].
  destruct (step_safe c t (init t) e Hs (good_init t)) as [_ B].
  rewrite A, B; auto.
Qed.

Lemma failure_spec_lemma c t h e :
  cfg_safe c = true -> is_inspect e = false ->
  snd (step c t (run c t h) e) = obs_spec c t e.
Proof.
  intros Hs He. destruct (step_safe c t (run c t h) e Hs (run_good c t h Hs)) as [_ A]. auto.
Qed.

(* a status handed to the application reads the same forever after *)
Lemma held_stable_lemma c t h1 h2 i a :
  cfg_safe c = true -> reset_clears c = true ->
  nth_error (held (run c t h1)) i = Some a ->
  nth_error (held (run c t (h1 ++ h2))) i = Some a
  /\ get (hp (run c t (h1 ++ h2))) a = get (hp (run c t h1)) a.
Proof.
  intros Hs Hr Hn. unfold run in *. rewrite run_from_app.
  set (s1 := run_from c t (init t) h1) in *.
  assert (G1 : good t s1) by (apply run_from_safe; auto; apply good_init).
  destruct (run_from_safe c t h2 s1 Hs G1) as [(N1 & F1 & (l & H1 & _) & _) _].
  split.
  - rewrite H1. rewrite nth_error_app1; auto. apply nth_error_Some. congruence.
  - apply F1; [|now left]. destruct G1 as (_ & _ & _ & G4). apply G4. eapply nth_error_In; eauto.
Qed.

(* ---------------------------------------------------------------- lifting of table checks *)
Lemma forallb_Forall {A} (f : A -> bool) l : forallb f l = true -> Forall (fun x => f x = true) l.
Proof. intros H. apply Forall_forall. now apply forallb_forall. Qed.

Lemma pkg_inplace_false_of_fresh dir sites :
  forallb (fun s => prov_fresh (site_prov s)) (filter (fun s => has_prefix dir (site_file s)) sites) = true ->
  pkg_inplace dir sites = false.
Proof.
  intros H. unfold pkg_inplace. apply not_true_iff_false. intros E.
  apply existsb_exists in E as [s [Hin Hs]]. apply andb_prop in Hs as [H1 H2].
  rewrite forallb_forall in H. specialize (H s).
  rewrite H in H2; [discriminate|]. apply filter_In. auto.
Qed.
