From Coq Require Import Strings.String Strings.Byte.
From Coq Require Import List Arith NArith ZArith Bool Lia.
From Verif Require Import Base.Bytes Base.Outcome Model.Numfmt.
Import ListNotations.
Local Open Scope N_scope.

Lemma lt36_in d : d < 36 -> In d (map N.of_nat (seq 0 36)).
Proof.
  intros H. apply in_map_iff. exists (N.to_nat d). split; [apply N2Nat.id|].
  apply in_seq. lia.
Qed.

Lemma digit_char_facts d : d < 36 ->
  char_digit (digit_char d) = Some d /\
  beqb (digit_char d) "-"%byte = false /\ beqb (digit_char d) "+"%byte = false.
Proof.
  intros H.
  assert (A : forallb (fun d =>
            match char_digit (digit_char d) with Some d' => d' =? d | None => false end
            && negb (beqb (digit_char d) "-"%byte) && negb (beqb (digit_char d) "+"%byte))
            (map N.of_nat (seq 0 36)) = true) by (vm_compute; reflexivity).
  rewrite forallb_forall in A. specialize (A d (lt36_in d H)).
  apply andb_true_iff in A as [A A3]. apply andb_true_iff in A as [A1 A2].
  apply negb_true_iff in A2, A3.
  destruct (char_digit (digit_char d)) as [d'|]; [|discriminate].
  apply N.eqb_eq in A1. subst d'. auto.
Qed.

Section Base.
  Variable b : N.
  Hypothesis b_lo : 2 <= b.
  Hypothesis b_hi : b <= 36.

  Lemma parse_digits_fuel f : forall n rest,
    n < 2 ^ N.of_nat f -> n <= 4294967295 ->
    parse_uint_loop b (digits_fuel f b n rest) 0 = parse_uint_loop b rest n.
  Proof.
    induction f as [|f IH]; intros n rest Hn Hmax.
    - cbn [N.of_nat] in Hn. rewrite N.pow_0_r in Hn. assert (n = 0) by lia. subst n. reflexivity.
    - cbn [digits_fuel]. destruct (n <? b) eqn:Hlt.
      + apply N.ltb_lt in Hlt. cbn [parse_uint_loop].
        destruct (digit_char_facts n) as (Hc & _ & _); [lia|]. rewrite Hc.
        replace (b <=? n) with false by (symmetry; apply N.leb_gt; lia).
        rewrite N.mul_0_l, N.add_0_l.
        replace (4294967295 <? n) with false by (symmetry; apply N.ltb_ge; lia).
        reflexivity.
      + apply N.ltb_ge in Hlt.
        assert (Hb0 : b <> 0) by lia.
        rewrite Nat2N.inj_succ, N.pow_succ_r' in Hn.
        assert (Hdiv : n / b < 2 ^ N.of_nat f).
        { apply N.div_lt_upper_bound; [exact Hb0|]. nia. }
        assert (Hdm : n / b <= 4294967295).
        { pose proof (N.div_le_upper_bound n b n Hb0). nia. }
        rewrite IH by assumption. cbn [parse_uint_loop].
        assert (Hm : n mod b < b) by (apply N.mod_lt; exact Hb0).
        destruct (digit_char_facts (n mod b)) as (Hc & _ & _); [lia|]. rewrite Hc.
        replace (b <=? n mod b) with false by (symmetry; apply N.leb_gt; lia).
        assert (E : n / b * b + n mod b = n).
        { rewrite (N.div_mod n b) at 3 by exact Hb0. lia. }
        rewrite E.
        replace (4294967295 <? n) with false by (symmetry; apply N.ltb_ge; lia).
        reflexivity.
  Qed.

  Lemma digits_fuel_head f : forall n rest,
    (f <> O \/ exists d t, d < 36 /\ rest = digit_char d :: t) ->
    exists d t, d < 36 /\ digits_fuel f b n rest = digit_char d :: t.
  Proof.
    induction f as [|f IH]; intros n rest H.
    - destruct H as [H|H]; [congruence | exact H].
    - cbn [digits_fuel]. destruct (n <? b) eqn:Hlt.
      + apply N.ltb_lt in Hlt. exists n, rest. split; [lia | reflexivity].
      + apply IH. right. exists (n mod b), rest. split; [|reflexivity].
        assert (n mod b < b) by (apply N.mod_lt; lia). lia.
  Qed.

  Lemma log2_fuel n : n < 2 ^ N.of_nat (S (N.to_nat (N.log2 n))).
  Proof.
    rewrite Nat2N.inj_succ, N2Nat.id.
    destruct (N.eq_dec n 0) as [->|Hn]; [cbn; lia|].
    apply N.log2_spec. lia.
  Qed.

  Lemma parse_uint_digits n : n <= 4294967295 -> parse_uint b (digits b n) = UVal n.
  Proof.
    intros Hmax. unfold digits.
    destruct (digits_fuel_head (S (N.to_nat (N.log2 n))) n []) as (d & t & Hd & E);
      [left; discriminate|].
    unfold parse_uint. rewrite E. rewrite <- E.
    rewrite parse_digits_fuel; [reflexivity | apply log2_fuel | exact Hmax].
  Qed.

  Lemma int_roundtrip z : int32_ok z = true -> parse_int b (format_int b z) = PVal z.
  Proof.
    unfold int32_ok. intros H. apply andb_true_iff in H as [Hlo Hhi].
    apply Z.leb_le in Hlo, Hhi. unfold format_int.
    destruct (z <? 0)%Z eqn:Hneg.
    - apply Z.ltb_lt in Hneg. unfold parse_int. rewrite beqb_refl. cbn [orb negb andb].
      rewrite parse_uint_digits by lia.
      replace (2147483648 <? Z.to_N (- z)) with false by (symmetry; apply N.ltb_ge; lia).
      rewrite Z2N.id by lia. f_equal. lia.
    - apply Z.ltb_ge in Hneg. unfold digits.
      destruct (digits_fuel_head (S (N.to_nat (N.log2 (Z.to_N z)))) (Z.to_N z) []) as (d & t & Hd & E);
        [left; discriminate|].
      unfold parse_int. rewrite E.
      destruct (digit_char_facts d Hd) as (_ & Hm & Hp). rewrite Hm, Hp. cbn [orb negb andb].
      rewrite <- E. fold (digits b (Z.to_N z)). rewrite parse_uint_digits by lia.
      replace (2147483648 <=? Z.to_N z) with false by (symmetry; apply N.leb_gt; lia).
      rewrite Z2N.id by lia. reflexivity.
  Qed.
End Base.

Theorem int10_roundtrip z : int32_ok z = true -> parse_int 10 (format_int 10 z) = PVal z.
Proof. apply int_roundtrip; lia. Qed.

Theorem int36_roundtrip z : int32_ok z = true -> parse_int 36 (format_int 36 z) = PVal z.
Proof. apply int_roundtrip; lia. Qed.

(* the decimal form of a number contains only digits and '-' (so it survives the scanner) *)
Lemma digit_char_plain d : d < 36 ->
  beqb (digit_char d) "&"%byte = false /\ beqb (digit_char d) "="%byte = false /\
  beqb (digit_char d) "%"%byte = false.
Proof.
  intros H.
  assert (A : forallb (fun d => negb (beqb (digit_char d) "&"%byte) && negb (beqb (digit_char d) "="%byte)
                                && negb (beqb (digit_char d) "%"%byte))
            (map N.of_nat (seq 0 36)) = true) by (vm_compute; reflexivity).
  rewrite forallb_forall in A. specialize (A d (lt36_in d H)).
  apply andb_true_iff in A as [A A3]. apply andb_true_iff in A as [A1 A2].
  apply negb_true_iff in A1, A2, A3. auto.
Qed.
