(* Lemmas about Model/StatusFlow.v (C04). *)
From Coq Require Import Strings.String Strings.Byte.
From Coq Require Import List Arith NArith ZArith Bool Lia.
From Verif Require Import Base.Bytes Model.Dispatch Model.StatusFlow Proofs.DispatchProofs.
Import ListNotations.
Local Open Scope Z_scope.

(* ---- server side: an OK reply means the handler ran and returned OK ---- *)
Definition handler_succeeded (f : frame) : Prop :=
  exists hs, f_handler f = HReturn hs /\ st_ok hs = true.

Lemma write_once_not_ok_reply f st q :
  st_ok st = false -> ~ In (Reply q None) (write_once eff_write f st).
Proof.
  intros Hs H. apply write_once_status in H. rewrite Hs in H. subst st. discriminate.
Qed.

Lemma reply_path_ok_reply f st q :
  In (Reply q None) (reply_path eff_write f st) -> st_ok st = true.
Proof.
  intros H. apply reply_path_status in H. destruct H as [H|[c H]]; [|discriminate].
  destruct (st_ok st) eqn:E; [reflexivity|]. subst st. discriminate.
Qed.

Lemma handle_call_ok_reply f stat h pc q :
  (st_ok stat = true -> h <> None) ->
  In (Reply q None) (handle_call eff_write f stat h pc) ->
  handler_succeeded f /\ exists k, In (Invoke k) (handle_call eff_write f stat h pc).
Proof.
  intros Hinv. unfold handle_call.
  destruct (negb pc).
  { intros H. exfalso. revert H. apply write_once_not_ok_reply.
    destruct (st_ok stat) eqn:E; [reflexivity | exact E]. }
  destruct (st_ok stat) eqn:Es.
  2:{ intros H. apply reply_path_ok_reply in H. congruence. }
  destruct (hook (f_verdict f SPostReadCallBody)) as [|s|c] eqn:Eh.
  - destruct h as [k|]; [|exfalso; apply Hinv; reflexivity].
    destruct (f_handler f) as [hs|c|c] eqn:Ehd; cbn; intros [H|H]; try discriminate.
    + apply reply_path_ok_reply in H. destruct (st_ok hs) eqn:E.
      * split; [exists hs; auto | exists k; left; reflexivity].
      * rewrite E in H. discriminate.
    + exfalso. revert H. apply write_once_not_ok_reply. reflexivity.
    + exfalso. revert H. apply write_once_not_ok_reply. reflexivity.
  - intros H. apply reply_path_ok_reply in H. cbn in H.
    apply hook_veto_code in Eh. congruence.
  - intros H. exfalso. revert H. apply write_once_not_ok_reply. reflexivity.
Qed.

Lemma bind_call_handler f stat h body :
  bind_with f SPostReadCallHeader SPreReadCallBody = Bound stat h body ->
  st_ok stat = true -> h <> None.
Proof.
  unfold bind_with.
  destruct (hook (f_verdict f SPostReadCallHeader)) as [|s|c] eqn:E1; try discriminate.
  - destruct (f_sm_empty f). { intros H; inversion H; subst. discriminate. }
    destruct (lookup (f_route f)). 2:{ intros H; inversion H; subst. discriminate. }
    destruct (hook (f_verdict f SPreReadCallBody)) as [|s2|c2] eqn:E2; try discriminate;
      intros H; inversion H; subst; discriminate.
  - intros H; inversion H; subst. cbn. apply hook_veto_code in E1. congruence.
Qed.

Lemma after_read_ok_reply f e stat h pc q :
  is_call f -> (e = None -> st_ok stat = true -> h <> None) ->
  In (Reply q None) (after_read eff_write true f e stat h pc) ->
  handler_succeeded f /\ exists k, In (Invoke k) (after_read eff_write true f e stat h pc).
Proof.
  intros Hc Hinv. unfold after_read.
  destruct (_ || _); [intros [H|[]]; discriminate|].
  assert (Hinv' : st_ok (match e with Some _ => Some (st_bad_message CLib) | None => stat end) = true
                  -> h <> None).
  { destruct e; [discriminate | exact (Hinv eq_refl)]. }
  unfold handle.
  destruct (f_spawn_failed f).
  - rewrite ?Hc. destruct (is_not_allowed _); [intros [H|[]]; discriminate|]. rewrite ?Hc.
    apply handle_call_ok_reply.
    assert (Hf : forall X, st_ok (if st_ok X then Some st_no_goroutine else X) = false).
    { intros X. destruct (st_ok X) eqn:E; [reflexivity | exact E]. }
    rewrite Hf. discriminate.
  - destruct (is_not_allowed _); [intros [H|[]]; discriminate|]. rewrite ?Hc.
    apply handle_call_ok_reply. exact Hinv'.
Qed.

Lemma dispatch_ok_reply f q :
  is_call f -> In (Reply q None) (dispatch_now f) ->
  handler_succeeded f /\ exists k, In (Invoke k) (dispatch_now f).
Proof.
  intros Hc. unfold dispatch_now, dispatch.
  destruct (f_verdict f SPreReadHeader); try (intros [H|[]]; discriminate).
  destruct (f_read f).
  - apply after_read_ok_reply; [exact Hc | intros H; discriminate].
  - destruct (binding f) as [|stat h body] eqn:Eb; [intros [H|[]]; discriminate|].
    apply after_read_ok_reply; [exact Hc|]. intros _.
    unfold binding in Eb. rewrite Hc in Eb. eapply bind_call_handler; exact Eb.
Qed.

(* a non-OK reply status really is non-OK *)
Lemma dispatch_some_reply_not_ok f q s :
  is_call f -> In (Reply q (Some s)) (dispatch_now f) -> st_code s <> 0.
Proof.
  intros Hc H. pose proof (reply_status_source_lemma f q (Some s) Hc H) as Hs.
  (* go through the shape: the only reply of a call is produced by write_once / reply_path *)
  clear Hs. revert H. unfold dispatch_now, dispatch.
  assert (Hwo : forall st, In (Reply q (Some s)) (write_once eff_write f st) -> st_code s <> 0).
  { intros st H. apply write_once_status in H. destruct (st_ok st) eqn:E; [discriminate|].
    subst st. cbn in E. apply Z.eqb_neq. exact E. }
  assert (Hrp : forall st, In (Reply q (Some s)) (reply_path eff_write f st) -> st_code s <> 0).
  { intros st H. apply reply_path_status in H. destruct H as [H|[c H]].
    - destruct (st_ok st) eqn:E; [discriminate|]. subst st. cbn in E. apply Z.eqb_neq. exact E.
    - inversion H. cbn. lia. }
  assert (Hhc : forall stat h pc, In (Reply q (Some s)) (handle_call eff_write f stat h pc) ->
                                  st_code s <> 0).
  { intros stat h pc. unfold handle_call. destruct (negb pc); [apply Hwo|].
    destruct (st_ok stat); [|apply Hrp].
    destruct (hook (f_verdict f SPostReadCallBody)); [|apply Hrp|apply Hwo].
    destruct h; [|apply Hrp].
    destruct (f_handler f); cbn; intros [H|H]; try discriminate; revert H; [apply Hrp|apply Hwo|apply Hwo]. }
  assert (Hh : forall stat h pc, In (Reply q (Some s)) (handle eff_write f stat h pc) -> st_code s <> 0).
  { intros stat h pc. unfold handle. destruct (is_not_allowed _); [intros [H|[]]; discriminate|].
    rewrite Hc. apply Hhc. }
  assert (Ha : forall e stat h pc, In (Reply q (Some s)) (after_read eff_write true f e stat h pc) ->
                                   st_code s <> 0).
  { intros e stat h pc. unfold after_read. destruct (_ || _); [intros [H|[]]; discriminate|].
    destruct (f_spawn_failed f); [rewrite Hc|]; apply Hh. }
  destruct (f_verdict f SPreReadHeader); try (intros [H|[]]; discriminate).
  destruct (f_read f); [apply Ha|].
  destruct (binding f); [intros [H|[]]; discriminate | apply Ha].
Qed.

(* ---- outcome_of on the shapes a CALL produces ---- *)
Lemma outcome_reply_in l st : outcome_of l = SReply st -> exists q, In (Reply q st) l.
Proof.
  unfold outcome_of. destruct (first_reply l) as [s|] eqn:E.
  - intros H; inversion H; subst. clear H.
    induction l as [|a l IH]; cbn in E; [discriminate|].
    destruct a; try (destruct (IH E) as [q Hq]; exists q; right; exact Hq).
    inversion E; subst. exists seq. left. reflexivity.
  - destruct (existsb is_disc l); discriminate.
Qed.

Lemma on_proto_call P f : is_call (on_proto P f) <-> is_call f.
Proof. unfold on_proto, is_call. destruct (p_err_packable P); cbn; tauto. Qed.

Lemma on_proto_handler P f : f_handler (on_proto P f) = f_handler f.
Proof. unfold on_proto. destruct (p_err_packable P); reflexivity. Qed.

Lemma server_ok_handler_ok P f :
  is_call f -> server_side P f = SReply None ->
  handler_succeeded f /\ exists k, In (Invoke k) (dispatch_now (on_proto P f)).
Proof.
  intros Hc H. unfold server_side in H. apply outcome_reply_in in H. destruct H as [q Hq].
  apply (on_proto_call P f) in Hc.
  destruct (dispatch_ok_reply _ _ Hc Hq) as [(hs & Hh & Hok) Hk].
  split; [|exact Hk]. exists hs. rewrite on_proto_handler in Hh. auto.
Qed.

Lemma server_some_not_ok P f s :
  is_call f -> server_side P f = SReply (Some s) -> st_code s <> 0.
Proof.
  intros Hc H. unfold server_side in H. apply outcome_reply_in in H. destruct H as [q Hq].
  apply (on_proto_call P f) in Hc. eapply dispatch_some_reply_not_ok; eassumption.
Qed.

(* ---- the caller ---- *)
Section Wire.
  Variable enc : status -> bytes.
  Variable dec : bytes -> status.
  Variable lim : status -> Prop.
  Hypothesis roundtrip : forall s, lim s -> dec (enc s) = s.

  Definition caller_passes (c : caller) : Prop :=
    hook (c_post_header c) = HookOk /\ hook (c_pre_body c) = HookOk.

  Definition no_pre_write_veto (c : caller) : Prop :=
    match c_pre_write c with Some s => st_code s = 0 | None => True end.

  Lemma call_view_sent fixed P f c rn :
    no_pre_write_veto c ->
    call_view enc dec fixed P f c rn =
    match server_side P f with
    | SReply st => caller_side fixed c (transport enc dec P st) (st_ok st && rn)
    | SDisconnected => Sees (Some st_conn_closed) false
    | SDropped => Hangs
    end.
  Proof.
    unfold no_pre_write_veto, call_view. destruct (c_pre_write c) as [s|]; [|reflexivity].
    intros ->. reflexivity.
  Qed.

  Lemma transport_some P s : p_has_status P = true -> lim s ->
    transport enc dec P (Some s) = Some s.
  Proof. intros Hp Hl. unfold transport. rewrite Hp, roundtrip by exact Hl. reflexivity. Qed.

  Lemma transport_none P : transport enc dec P None = None.
  Proof. unfold transport. destruct (p_has_status P); reflexivity. Qed.

  (* exact status: what the server put on the frame is what the caller sees *)
  Lemma caller_status_exact_lemma fixed P f c rn s :
    p_has_status P = true -> is_call f -> server_side P f = SReply (Some s) -> lim s ->
    no_pre_write_veto c -> caller_passes c ->
    call_view enc dec fixed P f c rn = Sees (Some s) false.
  Proof.
    intros Hp Hc Hs Hl Hv [H1 H2]. rewrite call_view_sent by exact Hv. rewrite Hs.
    rewrite transport_some by assumption.
    pose proof (server_some_not_ok P f s Hc Hs) as Hn. apply Z.eqb_neq in Hn.
    unfold caller_side. rewrite H1, H2. cbn [st_ok]. rewrite Hn. cbn [andb]. reflexivity.
  Qed.

  Lemma caller_disconnected_lemma fixed P f c rn :
    server_side P f = SDisconnected -> no_pre_write_veto c ->
    call_view enc dec fixed P f c rn = Sees (Some st_conn_closed) false.
  Proof. intros Hs Hv. rewrite call_view_sent by exact Hv. rewrite Hs. reflexivity. Qed.

  Lemma caller_dropped_lemma fixed P f c rn :
    server_side P f = SDropped -> no_pre_write_veto c ->
    call_view enc dec fixed P f c rn = Hangs.
  Proof. intros Hs Hv. rewrite call_view_sent by exact Hv. rewrite Hs. reflexivity. Qed.

  Lemma caller_pre_write_veto_lemma fixed P f c rn s :
    c_pre_write c = Some s -> st_code s <> 0 ->
    call_view enc dec fixed P f c rn = Sees (Some s) false.
  Proof.
    intros H Hn. unfold call_view. rewrite H. apply Z.eqb_neq in Hn. rewrite Hn. reflexivity.
  Qed.

  Lemma caller_reply_header_veto_lemma fixed c fs hb s :
    c_post_header c = VStat s -> st_code s <> 0 ->
    caller_side fixed c fs hb = Sees (Some s) false.
  Proof.
    intros H Hn. unfold caller_side. rewrite H. cbn [hook]. apply Z.eqb_neq in Hn. rewrite Hn.
    reflexivity.
  Qed.

  Lemma caller_reply_pre_body_veto_lemma fixed c fs hb s :
    hook (c_post_header c) = HookOk -> c_pre_body c = VStat s -> st_code s <> 0 ->
    caller_side fixed c fs hb = Sees (Some s) false.
  Proof.
    intros H1 H Hn. unfold caller_side. rewrite H1, H. cbn [hook]. apply Z.eqb_neq in Hn.
    rewrite Hn. reflexivity.
  Qed.

  (* OK reply, body cannot be decoded into the caller's result *)
  Lemma caller_decode_error_lemma c k :
    caller_passes c -> c_decode c = Some k ->
    caller_side true c None true = Sees (Some (st_bad_message CLib)) false.
  Proof.
    intros [H1 H2] Hd. unfold caller_side. rewrite H1, H2, Hd. destruct k; reflexivity.
  Qed.

  (* the main equivalence, caller side: OK is seen iff the frame said OK, nothing on the
     caller's side vetoed, and a carried body was decoded *)
  Lemma caller_side_ok_iff c fs hb :
    (exists d, caller_side true c fs hb = Sees None d) <->
    (caller_passes c /\ st_ok fs = true /\ (hb = true -> c_decode c = None) /\
     (forall s, hook (c_post_body c) <> HookVeto s)).
  Proof.
    unfold caller_side, caller_passes.
    destruct (hook (c_post_header c)) eqn:E1; destruct (hook (c_pre_body c)) eqn:E2;
      destruct hb; destruct (c_decode c) as [[|]|] eqn:Ed; destruct (st_ok fs) eqn:Ef;
      destruct (hook (c_post_body c)) eqn:E3; cbn;
      (split;
       [ intros [d H]; inversion H; subst; try (cbn in Ef; discriminate);
         repeat split; auto; try discriminate; try congruence
       | intros ((H1 & H2) & Hf & Hd & Hp); try discriminate;
         try (specialize (Hd eq_refl); discriminate);
         try (exfalso; eapply Hp; reflexivity); eauto ]).
  Qed.

  Lemma caller_ok_iff_lemma P f c rn :
    p_has_status P = true -> is_call f ->
    (forall s, server_side P f = SReply (Some s) -> lim s) ->
    ((exists d, call_view enc dec true P f c rn = Sees None d) <->
     (no_pre_write_veto c /\ server_side P f = SReply None /\ caller_passes c /\
      (rn = true -> c_decode c = None) /\ (forall s, hook (c_post_body c) <> HookVeto s))).
  Proof.
    intros Hp Hc Hl. split.
    - intros [d H].
      assert (Hv : no_pre_write_veto c).
      { unfold no_pre_write_veto. unfold call_view in H. destruct (c_pre_write c) as [s|]; [|exact I].
        destruct (st_code s =? 0) eqn:E; [apply Z.eqb_eq; exact E|].
        inversion H. }
      rewrite call_view_sent in H by exact Hv.
      destruct (server_side P f) as [st| |] eqn:Es; try discriminate.
      assert (Hex : exists d, caller_side true c (transport enc dec P st) (st_ok st && rn) = Sees None d)
        by eauto.
      apply caller_side_ok_iff in Hex. destruct Hex as (Hpass & Hok & Hd & Hpb).
      destruct st as [s|].
      + exfalso. rewrite transport_some in Hok by (auto using Hl).
        pose proof (server_some_not_ok P f s Hc Es) as Hn. cbn in Hok. apply Z.eqb_eq in Hok. lia.
      + repeat split; auto. apply Hpass. apply Hpass.
    - intros (Hv & Hs & Hpass & Hd & Hpb). rewrite call_view_sent by exact Hv. rewrite Hs.
      apply caller_side_ok_iff. rewrite transport_none. repeat split; auto; try apply Hpass.
  Qed.

  (* a protocol without a status field: whatever the server answered, the caller sees OK *)
  Lemma no_status_field_lemma fixed P f c rn st :
    p_has_status P = false -> server_side P f = SReply st ->
    no_pre_write_veto c -> caller_passes c -> (forall s, hook (c_post_body c) <> HookVeto s) ->
    (st_ok st = true -> rn = true -> c_decode c = None) ->
    exists d, call_view enc dec fixed P f c rn = Sees None d.
  Proof.
    intros Hp Hs Hv [H1 H2] Hpb Hd. rewrite call_view_sent by exact Hv. rewrite Hs.
    unfold transport. rewrite Hp. unfold caller_side. rewrite H1, H2. cbn [st_ok].
    destruct (st_ok st && rn) eqn:E.
    - apply andb_true_iff in E. destruct E as [E1 E2]. rewrite (Hd E1 E2).
      destruct (hook (c_post_body c)) eqn:Eh; eauto. exfalso. eapply Hpb; reflexivity.
    - destruct (hook (c_post_body c)) eqn:Eh; eauto. exfalso. eapply Hpb; reflexivity.
  Qed.
  (* compositions with C03's reply_status_rule *)
  Lemma unknown_route_seen_as_404_lemma fixed P f c rn e :
    lim st_not_found ->
    p_has_status P = true -> p_err_packable P = true ->
    normal_env f -> f_read f = RBody e -> passes (f_verdict f SPostReadCallHeader) ->
    f_sm_empty f = false -> f_route f = RNone ->
    no_pre_write_veto c -> caller_passes c ->
    call_view enc dec fixed P f c rn = Sees (Some st_not_found) false.
  Proof.
    intros Hl Hp Hk N Hr Hh Hm Hrt' Hv Hc.
    apply caller_status_exact_lemma; auto.
    - destruct N as [[Hcall _ _ _ _] _ _]. exact Hcall.
    - unfold server_side, on_proto. rewrite Hk.
      rewrite (rule_not_found_lemma f e N Hr Hh Hm Hrt'). reflexivity.
  Qed.

  Lemma handler_status_seen_exactly_lemma fixed P f c rn k hs :
    p_has_status P = true -> p_err_packable P = true ->
    normal_env f -> reaches_post_body f k -> passes (f_verdict f SPostReadCallBody) ->
    f_handler f = HReturn (Some hs) -> st_code hs <> 0 -> lim hs ->
    no_pre_write_veto c -> caller_passes c ->
    call_view enc dec fixed P f c rn = Sees (Some hs) false.
  Proof.
    intros Hp Hk N R Hpb Hh Hn Hl Hv Hc.
    apply caller_status_exact_lemma; auto.
    - destruct N as [[Hcall _ _ _ _] _ _]. exact Hcall.
    - unfold server_side, on_proto. rewrite Hk.
      rewrite (rule_handler_status_lemma f k hs N R Hpb Hh Hn). reflexivity.
  Qed.

  Lemma handler_panic_seen_as_500_lemma fixed P f c rn k pc :
    p_has_status P = true -> p_err_packable P = true ->
    normal_env f -> reaches_post_body f k -> passes (f_verdict f SPostReadCallBody) ->
    f_handler f = HPanic pc -> lim (st_internal pc) ->
    no_pre_write_veto c -> caller_passes c ->
    call_view enc dec fixed P f c rn = Sees (Some (st_internal pc)) false.
  Proof.
    intros Hp Hk N R Hpb Hh Hl Hv Hc.
    apply caller_status_exact_lemma; auto.
    - destruct N as [[Hcall _ _ _ _] _ _]. exact Hcall.
    - unfold server_side, on_proto. rewrite Hk.
      rewrite (rule_handler_panic_lemma f k pc N R Hpb Hh). reflexivity.
  Qed.
End Wire.
