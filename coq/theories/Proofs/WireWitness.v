(* Witness schedules for property C01: the counter-model without the write lock, the
   unguarded sequence-number wrap, and a non-trivial run that satisfies every hypothesis of
   the guarded theorems. *)
From Coq Require Import Strings.String Strings.Byte.
From Coq Require Import List Arith NArith ZArith Bool Lia.
From Verif Require Import Base.Bytes Base.Outcome Model.Quote Model.Args Model.Numfmt
  Model.StatusQuery Model.Xfer Model.Md5 Model.RawProto Model.Wire
  Proofs.XferProofs Proofs.RawProofs Proofs.WireProofs.
Import ListNotations.
Local Open Scope N_scope.

Lemma run_reach_any cfg evs : forall st st',
  reach_any cfg st -> run cfg st evs = Some st' -> reach_any cfg st'.
Proof.
  induction evs as [|ev r IH]; intros st st' Hr H; cbn in H.
  - inversion H; subst. exact Hr.
  - destruct (step cfg st ev) as [st1|] eqn:E; [|discriminate].
    apply (IH st1 st'); [|exact H]. eapply reach_any_step; eauto.
Qed.

(* ---- a decidable form of [sane] ---- *)
Definition wf_frameb (cfg : config) (x : frame_rec) : bool :=
  match pipe_append (cf_reg cfg) [] (fr_ids x) with
  | (p, None) =>
      int32_ok (m_seq (fr_msg x)) && int32_ok (st_code (m_status (fr_msg x))) &&
      (blen (m_method (fr_msg x)) <=? 255) &&
      (blen (status_encode (m_status (fr_msg x))) <=? 65535) &&
      (blen (args_encode (m_meta (fr_msg x))) <=? 65535) && args_ok (m_meta (fr_msg x)) &&
      match raw_pack (cf_lim cfg) p (fr_msg x) with
      | Ok f => bytes_eqb f (fr_bytes x)
      | _ => false
      end &&
      (blen (fr_bytes x) <? 4294967296)
  | _ => false
  end.

Definition windowb (e : ep) : bool :=
  forallb (fun kc : Z * callrec => e_count e - c_no (snd kc) + 1 <? 4294967296) (e_pending e).

Definition saneb (cfg : config) (st : state) : bool :=
  windowb (st_a st) && windowb (st_b st) &&
  forallb (wf_frameb cfg) (e_outbox (st_a st)) && forallb (wf_frameb cfg) (e_outbox (st_b st)).

Lemma wf_frameb_sound cfg x : wf_frameb cfg x = true -> Wire.wf_frame cfg x.
Proof.
  unfold wf_frameb, Wire.wf_frame.
  destruct (pipe_append (cf_reg cfg) [] (fr_ids x)) as [p [e|]]; [discriminate|].
  intros H.
  apply andb_true_iff in H as [H H8]. apply andb_true_iff in H as [H H7].
  apply andb_true_iff in H as [H H6]. apply andb_true_iff in H as [H H5].
  apply andb_true_iff in H as [H H4]. apply andb_true_iff in H as [H H3].
  apply andb_true_iff in H as [H1 H2].
  exists p. destruct (raw_pack (cf_lim cfg) p (fr_msg x)) as [f| |]; try discriminate.
  apply bytes_eqb_eq in H7. subst f.
  apply N.leb_le in H3, H4, H5. apply N.ltb_lt in H8.
  repeat split; assumption.
Qed.

Lemma pget_in p q c : pget p q = Some c -> In (q, c) p.
Proof.
  induction p as [|[k c'] r IH]; cbn; [discriminate|].
  destruct (Z.eqb k q) eqn:E.
  - apply Z.eqb_eq in E. intros H. inversion H; subst. left. reflexivity.
  - intros H. right. apply IH. exact H.
Qed.

Lemma saneb_sound cfg st : saneb cfg st = true -> sane cfg st.
Proof.
  unfold saneb. intros H. repeat (apply andb_true_iff in H as [H ?]).
  split.
  - intros s q c Hp. apply pget_in in Hp.
    assert (W : windowb (ep_of st s) = true) by (destruct s; assumption).
    unfold windowb in W. rewrite forallb_forall in W. specialize (W _ Hp). cbn in W.
    apply N.ltb_lt in W. exact W.
  - intros s. apply Forall_forall. intros x Hx. apply wf_frameb_sound.
    assert (F : forallb (wf_frameb cfg) (e_outbox (ep_of st s)) = true) by (destruct s; assumption).
    rewrite forallb_forall in F. apply F. exact Hx.
Qed.

Fixpoint run_sane (cfg : config) (st : state) (evs : list event) : option state :=
  match evs with
  | [] => Some st
  | ev :: r =>
      match step cfg st ev with
      | Some st' => if saneb cfg st' then run_sane cfg st' r else None
      | None => None
      end
  end.

Lemma run_sane_reach cfg evs : forall st st',
  reach cfg st -> run_sane cfg st evs = Some st' -> reach cfg st'.
Proof.
  induction evs as [|ev r IH]; intros st st' Hr H; cbn in H.
  - inversion H; subst. exact Hr.
  - destruct (step cfg st ev) as [st1|] eqn:E; [|discriminate].
    destruct (saneb cfg st1) eqn:S; [|discriminate].
    apply (IH st1 st'); [|exact H].
    eapply reach_step; eauto. apply saneb_sound. exact S.
Qed.

(* ---- concrete configurations ---- *)
Definition echo_handler (s : side) (method body : bytes) (meta : list kv) : bytes * list kv * status :=
  (str "re:" ++ body, (str "echo", method) :: meta, status_zero).

Definition reg_md5 : registry := [md5_filter md5 "m"%byte].
Definition cfg_locked : config := mkCfg true true reg_md5 1048576 echo_handler.
Definition cfg_nolock : config := mkCfg false true reg_md5 1048576 echo_handler.

Lemma reg_md5_inverts : forall g, In g reg_md5 -> inverts g.
Proof. intros g [<-|[]]. apply md5_inverts. apply md5_length. Qed.

Definition frame_at (st : state) (s : side) (i : nat) : bytes :=
  match nth_error (e_outbox (ep_of st s)) i with Some x => fr_bytes x | None => [] end.

(* ---- 1. without the write lock, interleaved chunks break frame sync ----
   two callers on A; the first writes all but the last 3 bytes of its frame, the second
   writes its whole frame, B's reader takes the announced number of bytes *)
Definition nolock_trace : list event :=
  let issue := [ECall SA (str "/m/one") (str "AAAAAAAAAAAA") [(str "k", str "1")] x73 [];
                ECall SA (str "/m/two") (str "BBBBBBBBBBBB") [(str "k", str "2")] x73 []] in
  match run cfg_nolock init issue with
  | Some st1 =>
      let f1 := frame_at st1 SA 1 in
      let f2 := frame_at st1 SA 0 in
      let k := (length f1 - 3)%nat in
      issue ++ [ELock SA 1 [firstn k f1; skipn k f1]; ELock SA 0 [f2];
                EWrite SA 1; EWrite SA 1; ERecv SB]
  | None => []
  end.

Lemma nolock_breaks_sync :
  exists st, reach_any cfg_nolock st /\
    exists h, In h (e_seen (ep_of st SB)) /\ h_push h = false /\
      forall c, In c (e_issued (ep_of st SA)) -> h_body h <> c_args c.
Proof.
  destruct (run cfg_nolock init nolock_trace) as [st|] eqn:E; [|vm_compute in E; discriminate].
  exists st. split; [eapply run_reach_any; [apply reach_any_init | exact E]|].
  vm_compute in E. inversion E; subst st. clear E.
  eexists. split; [left; reflexivity|]. split; [reflexivity|].
  intros c [<-|[<-|[]]]; vm_compute; discriminate.
Qed.

(* the same schedule is impossible with the lock: the second ELock is refused *)
Lemma locked_refuses_second_writer : run cfg_locked init nolock_trace = None.
Proof. vm_compute. reflexivity. Qed.

(* ---- 2. sequence-number wrap ---- *)
Definition bad_method : bytes := repeat x61 256.

Definition bump_ep (e : ep) (k : N) : ep :=
  mkEp (e_count e + k) (e_pending e) (e_outbox e) (e_lock e) (e_writers e) (e_unlocking e)
       (e_done e) (e_seen e) (e_issued e) (e_sent e) (e_broken e).
Definition bump (st : state) (s : side) (k : N) : state := with_ep st s (bump_ep (ep_of st s) k).

Lemma bad_push_step cfg st s :
  step cfg st (EPush s bad_method [] [] x73 []) = Some (bump st s 1).
Proof.
  cbn [step]. unfold pack_item.
  destruct (pipe_append (cf_reg cfg) [] []) as [p [e|]] eqn:Ep; [reflexivity|].
  unfold raw_pack, raw_header. cbn [m_method push_msg].
  replace (255 <? blen bad_method) with true by reflexivity. cbn [rbind]. reflexivity.
Qed.

Lemma bump_bump st s k : bump (bump st s k) s 1 = bump st s (N.succ k).
Proof.
  unfold bump. destruct s; cbn; unfold bump_ep; cbn; f_equal; f_equal; lia.
Qed.
Lemma bump_0 st s : bump st s 0 = st.
Proof.
  unfold bump, bump_ep. destruct s, st as [[] [] ? ?]; cbn; rewrite N.add_0_r; reflexivity.
Qed.

(* any number of pushes that fail to pack only use up sequence numbers *)
Lemma reach_any_bump cfg st s k : reach_any cfg st -> reach_any cfg (bump st s k).
Proof.
  intros Hr. induction k as [|k IH] using N.peano_ind.
  - rewrite bump_0. exact Hr.
  - rewrite <- bump_bump. eapply reach_any_step; [exact IH | apply bad_push_step].
Qed.

Definition wrap_first : list event := [ECall SA (str "/m/old") (str "old-args") [] x73 []].
Definition wrap_rest (st : state) : list event :=
  [ECall SA (str "/m/new") (str "new-args") [] x73 [];
   ELock SA 1 [frame_at st SA 0]; EWrite SA 0; EUnlock SA 0; ERecv SB].
Definition wrap_reply (st : state) : list event :=
  [ELock SB 0 [frame_at st SB 0]; EWrite SB 0; EUnlock SB 0; ERecv SA].

Definition wrap_final : option state :=
  match run cfg_locked init wrap_first with
  | Some st1 =>
      let st2 := bump st1 SA 4294967295 in
      match run cfg_locked st2 (wrap_rest st1) with
      | Some st3 => run cfg_locked st3 (wrap_reply st3)
      | None => None
      end
  | None => None
  end.

Lemma wrap_rebinds :
  exists st, reach_any cfg_locked st /\
    exists c stt b mt, In (c, RReply stt b mt) (e_done (ep_of st SA)) /\ st_code stt = 0%Z /\
      b <> fst (fst (cf_handler cfg_locked SB (c_method c) (c_args c) (c_meta c))).
Proof.
  destruct (run cfg_locked init wrap_first) as [st1|] eqn:E1; [|vm_compute in E1; discriminate].
  assert (R1 : reach_any cfg_locked st1) by (eapply run_reach_any; [apply reach_any_init | exact E1]).
  pose proof (reach_any_bump cfg_locked st1 SA 4294967295 R1) as R2.
  vm_compute in E1. inversion E1; subst st1. clear E1.
  match type of R2 with reach_any _ ?s2 =>
    destruct (run cfg_locked s2 (wrap_rest
      ltac:(match type of R1 with reach_any _ ?s1 => exact s1 end))) as [st3|] eqn:E3 end;
    [|vm_compute in E3; discriminate].
  assert (R3 : reach_any cfg_locked st3) by (eapply run_reach_any; [exact R2 | exact E3]).
  vm_compute in E3. inversion E3; subst st3. clear E3.
  match type of R3 with reach_any _ ?s3 =>
    destruct (run cfg_locked s3 (wrap_reply s3)) as [st4|] eqn:E4 end;
    [|vm_compute in E4; discriminate].
  assert (R4 : reach_any cfg_locked st4) by (eapply run_reach_any; [exact R3 | exact E4]).
  exists st4. split; [exact R4|].
  vm_compute in E4. inversion E4; subst st4. clear.
  do 4 eexists. split; [left; reflexivity|]. split; [reflexivity|]. vm_compute. discriminate.
Qed.

(* ---- 3. a run that meets every hypothesis: two concurrent calls and a push through the
        md5 pipe, replies delivered in the reverse order of the calls ---- *)
Definition good_prefix : list event :=
  [ECall SA (str "/m/one") (str "args-one") [(str "k", str "1")] x73 ["m"%byte];
   ECall SA (str "/m/two") (str "args-two") [(str "k", str "2")] x6a [];
   EPush SB (str "/p") (str "push-body") [(str "pk", str "pv")] x73 ["m"%byte]].

Definition whole (st : state) (s : side) (i : nat) : list bytes := [frame_at st s i].
Definition halves (st : state) (s : side) (i : nat) : list bytes :=
  let f := frame_at st s i in [firstn 9 f; skipn 9 f].

Definition good_final : option state :=
  match run_sane cfg_locked init good_prefix with
  | Some st1 =>
      match run_sane cfg_locked st1
              [ELock SA 1 (halves st1 SA 1); EWrite SA 0; ELock SB 0 (whole st1 SB 0);
               EWrite SB 0; EWrite SA 0; EUnlock SA 0; ELock SA 0 (whole st1 SA 0);
               EWrite SA 0; ERecv SB; ERecv SB; EUnlock SA 0; EUnlock SB 0; ERecv SA] with
      | Some st2 =>
          (* B's handlers hold replies for call one (index 1) and call two (index 0):
             the reply of call two goes first *)
          run_sane cfg_locked st2
            [ELock SB 0 (halves st2 SB 0); EWrite SB 0; EWrite SB 0; EUnlock SB 0;
             ELock SB 0 (whole st2 SB 1); EWrite SB 0; ERecv SA; EUnlock SB 0; ERecv SA]
      | None => None
      end
  | None => None
  end.

Lemma run_sane_app cfg a : forall st b,
  run_sane cfg st (a ++ b) =
  match run_sane cfg st a with Some st' => run_sane cfg st' b | None => None end.
Proof.
  induction a as [|ev r IH]; intros st b; cbn; [reflexivity|].
  destruct (step cfg st ev); [|reflexivity]. destruct (saneb cfg s); [apply IH | reflexivity].
Qed.

Lemma good_run_exists :
  exists st, reach cfg_locked st /\
    length (e_done (ep_of st SA)) = 2%nat /\
    length (e_seen (ep_of st SB)) = 2%nat /\ length (e_seen (ep_of st SA)) = 1%nat /\
    e_pending (ep_of st SA) = [] /\ queue st SA = [] /\ queue st SB = [].
Proof.
  destruct (run_sane cfg_locked init good_prefix) as [st1|] eqn:E1; [|vm_compute in E1; discriminate].
  assert (R1 : reach cfg_locked st1) by (eapply run_sane_reach; [apply reach_init | exact E1]).
  vm_compute in E1. inversion E1; subst st1. clear E1.
  match type of R1 with reach _ ?s1 =>
    destruct (run_sane cfg_locked s1
              [ELock SA 1 (halves s1 SA 1); EWrite SA 0; ELock SB 0 (whole s1 SB 0);
               EWrite SB 0; EWrite SA 0; EUnlock SA 0; ELock SA 0 (whole s1 SA 0);
               EWrite SA 0; ERecv SB; ERecv SB; EUnlock SA 0; EUnlock SB 0; ERecv SA]) as [st2|] eqn:E2 end;
    [|vm_compute in E2; discriminate].
  assert (R2 : reach cfg_locked st2) by (eapply run_sane_reach; [exact R1 | exact E2]).
  vm_compute in E2. inversion E2; subst st2. clear E2 R1.
  match type of R2 with reach _ ?s2 =>
    destruct (run_sane cfg_locked s2
            [ELock SB 0 (halves s2 SB 0); EWrite SB 0; EWrite SB 0; EUnlock SB 0;
             ELock SB 0 (whole s2 SB 1); EWrite SB 0; ERecv SA; EUnlock SB 0; ERecv SA]) as [st3|] eqn:E3 end;
    [|vm_compute in E3; discriminate].
  assert (R3 : reach cfg_locked st3) by (eapply run_sane_reach; [exact R2 | exact E3]).
  exists st3. split; [exact R3|].
  vm_compute in E3. inversion E3; subst st3. clear. vm_compute. repeat split; reflexivity.
Qed.

(* ---- 4. the single-write discipline without the lock: two goroutines are inside
        WriteMessage at the same time, each hands its frame over in one chunk ---- *)
Definition single_writeb (ev : event) : bool :=
  match ev with ELock _ _ chunks => Nat.eqb (length chunks) 1 | _ => true end.

Fixpoint run_sane1 (cfg : config) (st : state) (evs : list event) : option state :=
  match evs with
  | [] => Some st
  | ev :: r =>
      if single_writeb ev then
        match step cfg st ev with
        | Some st' => if saneb cfg st' then run_sane1 cfg st' r else None
        | None => None
        end
      else None
  end.

Lemma run_sane1_reach cfg evs : forall st st',
  reach1 cfg st -> run_sane1 cfg st evs = Some st' -> reach1 cfg st'.
Proof.
  induction evs as [|ev r IH]; intros st st' Hr H; cbn in H.
  - inversion H; subst. exact Hr.
  - destruct (single_writeb ev) eqn:B; [|discriminate].
    destruct (step cfg st ev) as [st1|] eqn:E; [|discriminate].
    destruct (saneb cfg st1) eqn:S; [|discriminate].
    apply (IH st1 st'); [|exact H].
    eapply reach1_step; eauto.
    + destruct ev; cbn in *; auto. apply Nat.eqb_eq. exact B.
    + apply saneb_sound. exact S.
Qed.

Lemma single_write_run_exists :
  exists st, reach1 cfg_nolock st /\
    length (e_done (ep_of st SA)) = 2%nat /\ length (e_seen (ep_of st SB)) = 2%nat /\
    e_pending (ep_of st SA) = [] /\ queue st SA = [] /\ queue st SB = [].
Proof.
  destruct (run_sane1 cfg_nolock init
              [ECall SA (str "/m/one") (str "args-one") [(str "k", str "1")] x73 ["m"%byte];
               ECall SA (str "/m/two") (str "args-two") [(str "k", str "2")] x6a []]) as [st1|] eqn:E1;
    [|vm_compute in E1; discriminate].
  assert (R1 : reach1 cfg_nolock st1) by (eapply run_sane1_reach; [apply reach1_init | exact E1]).
  vm_compute in E1. inversion E1; subst st1. clear E1.
  match type of R1 with reach1 _ ?s1 =>
    destruct (run_sane1 cfg_nolock s1
              [ELock SA 1 (whole s1 SA 1); ELock SA 0 (whole s1 SA 0); EWrite SA 0; EWrite SA 0;
               EUnlock SA 0; EUnlock SA 0; ERecv SB; ERecv SB]) as [st2|] eqn:E2 end;
    [|vm_compute in E2; discriminate].
  assert (R2 : reach1 cfg_nolock st2) by (eapply run_sane1_reach; [exact R1 | exact E2]).
  vm_compute in E2. inversion E2; subst st2. clear E2 R1.
  match type of R2 with reach1 _ ?s2 =>
    destruct (run_sane1 cfg_nolock s2
              [ELock SB 0 (whole s2 SB 0); ELock SB 0 (whole s2 SB 1); EWrite SB 1; EWrite SB 0;
               EUnlock SB 0; EUnlock SB 0; ERecv SA; ERecv SA]) as [st3|] eqn:E3 end;
    [|vm_compute in E3; discriminate].
  assert (R3 : reach1 cfg_nolock st3) by (eapply run_sane1_reach; [exact R2 | exact E3]).
  exists st3. split; [exact R3|].
  vm_compute in E3. inversion E3; subst st3. clear. vm_compute. repeat split; reflexivity.
Qed.

(* ---- 5. the call's own mutex released right after the Store (instead of when AsyncCall
        returns): the handler REFUSES the call, the reply is read and handled while the caller
        is still between its Write and its return, the caller then assigns the status of its
        successful write: the refused call is complete with an OK status ---- *)
Definition refusing_handler (s : side) (method body : bytes) (meta : list kv) : bytes * list kv * status :=
  if bytes_eqb method (str "/m/refuse")
  then ([], meta, mkStatus 403 (str "refused") None)
  else (str "re:" ++ body, meta, status_zero).

Definition cfg_early : config := mkCfg true false reg_md5 1048576 refusing_handler.
Definition cfg_held : config := mkCfg true true reg_md5 1048576 refusing_handler.

Definition early_trace : list event :=
  let issue := [ECall SA (str "/m/refuse") (str "please") [(str "k", str "1")] x73 []] in
  match run cfg_early init issue with
  | Some st1 =>
      let pre := issue ++ [ELock SA 0 [frame_at st1 SA 0]; EWrite SA 0; ERecv SB] in
      match run cfg_early init pre with
      | Some st2 =>
          pre ++ [ELock SB 0 [frame_at st2 SB 0]; EWrite SB 0; EUnlock SB 0;
                  ERecv SA;        (* the refusal completes the call ... *)
                  EUnlock SA 0]    (* ... and the returning caller overwrites its status *)
      | None => []
      end
  | None => []
  end.

Lemma early_unlock_overwrites :
  exists st, reach_any cfg_early st /\
    exists c stt b mt, In (c, RReply stt b mt) (e_done (ep_of st SA)) /\ st_code stt = 0%Z /\
      status_ok (snd (cf_handler cfg_early SB (c_method c) (c_args c) (c_meta c))) = false.
Proof.
  destruct (run cfg_early init early_trace) as [st|] eqn:E; [|vm_compute in E; discriminate].
  exists st. split; [eapply run_reach_any; [apply reach_any_init | exact E]|].
  vm_compute in E. inversion E; subst st. clear E.
  do 4 eexists. split; [left; reflexivity|]. split; reflexivity.
Qed.

(* with the mutex held until AsyncCall returns, the reply waits: that schedule is refused at
   [ERecv SA], and goes through when the caller returns first *)
Lemma held_mutex_blocks_reply : run cfg_held init early_trace = None.
Proof. vm_compute. reflexivity. Qed.

(* ---- 6. the sequence counter set back to 0 while a call is pending (a redial that
        re-initialised session.seq): from a state reached under ALL hypotheses, the next call
        gets the pending call's number, replaces it in the table and is completed by the
        pending call's reply ---- *)
Definition reset_run : option (state * list event * state) :=
  match run_sane cfg_locked init wrap_first with
  | Some st1 =>
      match run cfg_locked (reset_count st1 SA) (wrap_rest st1) with
      | Some st3 =>
          match run cfg_locked st3 (wrap_reply st3) with
          | Some st4 => Some (st1, wrap_rest st1 ++ wrap_reply st3, st4)
          | None => None
          end
      | None => None
      end
  | None => None
  end.

Lemma counter_reset_rebinds :
  exists st evs st', reach cfg_locked st /\ run cfg_locked (reset_count st SA) evs = Some st' /\
    exists c stt b mt, In (c, RReply stt b mt) (e_done (ep_of st' SA)) /\ st_code stt = 0%Z /\
      b <> fst (fst (cf_handler cfg_locked SB (c_method c) (c_args c) (c_meta c))).
Proof.
  destruct (run_sane cfg_locked init wrap_first) as [st1|] eqn:E1; [|vm_compute in E1; discriminate].
  assert (R1 : reach cfg_locked st1) by (eapply run_sane_reach; [apply reach_init | exact E1]).
  vm_compute in E1. inversion E1; subst st1. clear E1.
  match type of R1 with reach _ ?s1 =>
    destruct (run cfg_locked (reset_count s1 SA) (wrap_rest s1)) as [st3|] eqn:E3;
      [|vm_compute in E3; discriminate];
    vm_compute in E3; inversion E3; subst st3; clear E3;
    exists s1 end.
  match goal with |- exists evs st', _ /\ run _ (reset_count ?s1 SA) _ = _ /\ _ =>
    match constr:(run cfg_locked (reset_count s1 SA) (wrap_rest s1)) with ?r =>
      let r' := eval vm_compute in r in
      match r' with Some ?s3 => exists (wrap_rest s1 ++ wrap_reply s3) end end end.
  eexists. split; [exact R1|]. split; [vm_compute; reflexivity|].
  do 4 eexists. split; [left; reflexivity|]. split; [reflexivity|]. vm_compute. discriminate.
Qed.
