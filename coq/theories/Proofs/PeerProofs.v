(* The peer's session index: invariants over all histories (C07 index_exact). *)
From Coq Require Import Strings.String Strings.Byte.
From Coq Require Import List Arith NArith Bool Lia.
From Verif Require Import Model.Lifecycle Model.CallLife Model.Graceful Proofs.LifecycleProofs.
Import ListNotations.

(* ---- index operations ---- *)
Lemma idx_get_remove_eq ix id : idx_get (idx_remove ix id) id = None.
Proof.
  induction ix as [|[k n] r IH]; cbn; auto. destruct (N.eqb k id) eqn:E; auto. cbn. rewrite E. auto.
Qed.

Lemma idx_get_remove_ne ix id id' : id' <> id -> idx_get (idx_remove ix id) id' = idx_get ix id'.
Proof.
  intros Hne. induction ix as [|[k n] r IH]; cbn; auto. destruct (N.eqb k id) eqn:E.
  - apply N.eqb_eq in E. subst. destruct (N.eqb id id') eqn:E2; auto. apply N.eqb_eq in E2. congruence.
  - cbn. rewrite IH. reflexivity.
Qed.

Lemma idx_get_put_eq ix id n : idx_get (idx_put ix id n) id = Some n.
Proof. unfold idx_put. cbn. rewrite N.eqb_refl. reflexivity. Qed.

Lemma idx_get_put_ne ix id n id' : id' <> id -> idx_get (idx_put ix id n) id' = idx_get ix id'.
Proof.
  intros Hne. unfold idx_put. cbn. destruct (N.eqb id id') eqn:E.
  - apply N.eqb_eq in E. congruence.
  - apply idx_get_remove_ne. auto.
Qed.

(* ---- a session that may legitimately still be in the index ---- *)
Definition mbi (s : sess) : Prop :=
  st s = Ok \/ (st s = ActiveClosing /\ cl s = C1) \/ (st s = PassiveClosing /\ exists x, rd s = D2 x).

Lemma mbi_ctrl s s' : same_ctrl s s' -> mbi s -> mbi s'.
Proof.
  intros (E1 & _ & _ & E4 & E5 & _) H. unfold mbi in *. rewrite E1, E4, E5. exact H.
Qed.

Lemma sid_step s e s' fx : sstep s e = Some (s', fx) -> sid s' = sid s.
Proof.
  intros H. unfold sstep, sstep_cfg in H. destruct e.
  - destruct (conn s); inversion H; subst; reflexivity.
  - unfold noeff, frame_step in H. destruct (rd s); try discriminate.
    destruct f; inversion H; subst; reflexivity.
  - unfold noeff, close_call in H. destruct (cl s); try discriminate. inversion H; subst; reflexivity.
  - inversion H; subst; reflexivity.
  - inversion H; subst; reflexivity.
  - unfold closer_step, notify in H. destruct (cl s); try discriminate;
      try destruct (ctxWG s); try destruct (callWG s); try destruct (notified s);
      try (inversion H; subst; reflexivity).
    all: destruct (st s); inversion H; subst; reflexivity.
  - destruct (rd s) eqn:Erd; try (unfold reader_step in H; rewrite Erd in H; discriminate).
    all: try (destruct (reader_step_pre _ _ _ _ H) as ((_ & _ & _ & _ & _ & E) & _); [rewrite Erd; exact I|]; exact E).
    all: unfold reader_step, notify in H; rewrite Erd in H.
    + inversion H; subst; reflexivity.
    + destruct seen; cbn [fix_cas fixed] in H; try destruct (status_eqb (st s) _); inversion H; subst; reflexivity.
    + inversion H; subst; reflexivity.
    + destruct (ctxWG s); inversion H; subst; reflexivity.
    + destruct (all_visited (calls s)); inversion H; subst; reflexivity.
    + destruct seen; inversion H; subst; reflexivity.
    + inversion H; subst; reflexivity.
    + cbn in H. destruct (notified s); inversion H; subst; reflexivity.
    + destruct (all_visited (calls s)); inversion H; subst; reflexivity.
  - unfold noeff in H. destruct (visit_step s i) eqn:E; inversion H; subst. apply (visit_step_ctrl _ _ _ E).
  - unfold noeff in H. destruct (caller_step s i veto wr) eqn:E; inversion H; subst. apply (caller_step_ctrl _ _ _ _ _ E).
  - unfold noeff in H. destruct (reply_step s i) eqn:E; inversion H; subst. apply (reply_step_ctrl _ _ _ E).
  - unfold noeff in H. destruct (handler_step s j veto wr) eqn:E; inversion H; subst. apply (handler_step_ctrl _ _ _ _ _ E).
  - unfold noeff in H. destruct (hwait_step s j i) eqn:E; inversion H; subst. apply (hwait_step_ctrl _ _ _ _ E).
Qed.

Lemma mbi_step s e s' fx :
  stat_inv s -> sstep s e = Some (s', fx) -> mbi s ->
  match fx with FxNone => mbi s' | FxDel => st s' <> Ok end.
Proof.
  intros (Hc & Hr & _) H Hm. unfold sstep, sstep_cfg in H. destruct e.
  - destruct (conn s); inversion H; subst. eapply mbi_ctrl; [|exact Hm]. ctrl_tac.
  - unfold noeff, frame_step in H. destruct (rd s) eqn:Erd; try discriminate.
    unfold mbi in *. rewrite Erd in Hm.
    destruct f; inversion H; subst; cbn; (destruct Hm as [Hm|[Hm|(_ & x & Hm)]]; [auto|auto|discriminate]).
  - unfold noeff, close_call in H. destruct (cl s) eqn:Ecl; try discriminate. inversion H; subst.
    unfold mbi in *. rewrite Ecl in Hm. cbn.
    destruct Hm as [Hm|[(_ & Hm)|Hm]]; [auto|discriminate|auto].
  - inversion H; subst. eapply mbi_ctrl; [|exact Hm]. ctrl_tac.
  - inversion H; subst. eapply mbi_ctrl; [|exact Hm]. ctrl_tac.
  - (* closer *)
    unfold cl_ok in Hc. unfold closer_step, notify in H. unfold mbi in *.
    destruct (cl s) eqn:Ecl; try discriminate.
    + destruct (st s) eqn:Est; inversion H; subst; cbn; rewrite ?Est; auto;
        destruct Hm as [Hm|[(_ & Hm)|Hm]]; try discriminate; auto.
    + inversion H; subst; cbn. rewrite Hc. discriminate.
    + destruct (notified s); inversion H; subst; cbn;
        (destruct Hm as [Hm|[(_ & Hm)|Hm]]; [auto|discriminate|auto]).
    + destruct (ctxWG s); inversion H; subst; cbn;
        (destruct Hm as [Hm|[(_ & Hm)|Hm]]; [auto|discriminate|auto]).
    + destruct (callWG s); inversion H; subst; cbn;
        (destruct Hm as [Hm|[(_ & Hm)|Hm]]; [auto|discriminate|auto]).
    + inversion H; subst; cbn. exfalso.
      destruct Hm as [Hm|[(_ & Hm)|(Hm & _)]]; congruence.
    + inversion H; subst; cbn; (destruct Hm as [Hm|[(_ & Hm)|Hm]]; [auto|discriminate|auto]).
    + inversion H; subst; cbn; (destruct Hm as [Hm|[(_ & Hm)|Hm]]; [auto|discriminate|auto]).
  - (* reader *)
    destruct (rd s) eqn:Erd; try (unfold reader_step in H; rewrite Erd in H; discriminate).
    all: try (destruct (reader_step_pre _ _ _ _ H) as ((E1 & _ & _ & E4 & _) & Hp & _); [rewrite Erd; exact I|];
              assert (fx = FxNone) by
                (unfold reader_step in H; rewrite Erd in H;
                 repeat match type of H with
                        | context [match ?x with _ => _ end] => destruct x; try discriminate H
                        | context [if ?x then _ else _] => destruct x; try discriminate H
                        end; inversion H; reflexivity);
              subst fx; unfold mbi in *; rewrite E1, E4, Erd in *;
              destruct Hm as [Hm|[Hm|(_ & x0 & Hm)]]; [auto|auto|discriminate]).
    all: unfold rd_ok, seen_ok in Hr; rewrite Erd in Hr; unfold reader_step, notify in H; rewrite Erd in H; unfold mbi in *; rewrite Erd in Hm.
    + inversion H; subst; cbn. destruct Hm as [Hm|[Hm|(_ & x0 & Hm)]]; [auto|auto|discriminate].
    + destruct seen; cbn [fix_cas fixed] in H; try destruct (status_eqb (st s) _) eqn:Eq;
        inversion H; subst; cbn;
        try (destruct Hm as [Hm|[Hm|(_ & x0 & Hm)]]; [auto|auto|discriminate]);
        right; right; split; eauto.
    + inversion H; subst; cbn.
      destruct seen; cbn in Hr; try tauto; try (rewrite Hr; discriminate);
        destruct Hr as [Hr|Hr]; rewrite Hr; discriminate.
    + destruct (ctxWG s); inversion H; subst; cbn. destruct Hm as [Hm|[Hm|(_ & x0 & Hm)]]; [auto|auto|discriminate].
    + destruct (all_visited (calls s)); inversion H; subst; cbn. destruct Hm as [Hm|[Hm|(_ & x0 & Hm)]]; [auto|auto|discriminate].
    + destruct seen; inversion H; subst; cbn; (destruct Hm as [Hm|[Hm|(_ & x0 & Hm)]]; [auto|auto|discriminate]).
    + inversion H; subst; cbn. destruct Hm as [Hm|[Hm|(_ & x0 & Hm)]]; [auto|auto|discriminate].
    + exfalso. destruct Hm as [Hm|[(Hm & _)|(_ & x0 & Hm)]]; try congruence.
    + destruct (all_visited (calls s)); inversion H; subst; cbn. destruct Hm as [Hm|[Hm|(_ & x0 & Hm)]]; [auto|auto|discriminate].
  - unfold noeff in H. destruct (visit_step s i) eqn:E; inversion H; subst.
    eapply mbi_ctrl; [eapply visit_step_ctrl; eauto|exact Hm].
  - unfold noeff in H. destruct (caller_step s i veto wr) eqn:E; inversion H; subst.
    eapply mbi_ctrl; [eapply caller_step_ctrl; eauto|exact Hm].
  - unfold noeff in H. destruct (reply_step s i) eqn:E; inversion H; subst.
    eapply mbi_ctrl; [eapply reply_step_ctrl; eauto|exact Hm].
  - unfold noeff in H. destruct (handler_step s j veto wr) eqn:E; inversion H; subst.
    eapply mbi_ctrl; [eapply handler_step_ctrl; eauto|exact Hm].
  - unfold noeff in H. destruct (hwait_step s j i) eqn:E; inversion H; subst.
    eapply mbi_ctrl; [eapply hwait_step_ctrl; eauto|exact Hm].
Qed.



(* ---- Close() called from outside on some sessions ---- *)
Definition sc_rel (t0 t : sess) : Prop := t = t0 \/ (cl t0 = CIdle /\ t = set_cl t0 C0).

Lemma sc_rel_refl t : sc_rel t t.
Proof. left; reflexivity. Qed.

Lemma sc_rel_trans a b c : sc_rel a b -> sc_rel b c -> sc_rel a c.
Proof.
  intros [->|(H1 & ->)] [->|(H2 & ->)]; unfold sc_rel; auto; cbn in H2; discriminate.
Qed.

Lemma sc_rel_sinv t0 t : sc_rel t0 t -> sinv t0 -> sinv t.
Proof.
  intros [->|(H & ->)] Hi; auto.
  apply (sinv_step t0 EClose _ FxNone Hi). unfold sstep, sstep_cfg, noeff, close_call. rewrite H. reflexivity.
Qed.

Lemma sc_rel_sid t0 t : sc_rel t0 t -> sid t = sid t0.
Proof. intros [->|(H & ->)]; reflexivity. Qed.
Lemma sc_rel_st t0 t : sc_rel t0 t -> st t = st t0.
Proof. intros [->|(H & ->)]; reflexivity. Qed.

Lemma sc_rel_mbi t0 t : sc_rel t0 t -> mbi t0 -> mbi t.
Proof.
  intros [->|(H & ->)] Hm; auto. unfold mbi in *; cbn. rewrite H in Hm.
  destruct Hm as [Hm|[(_ & Hm)|Hm]]; [auto|discriminate|auto].
Qed.

Lemma sc_rel_c0 t0 t : sc_rel t0 t -> cl t0 = C0 -> cl t = C0.
Proof. intros [->|(H & ->)] Hc; auto; congruence. Qed.

Definition ss_rel (a b : list sess) : Prop := Forall2 sc_rel a b.

Lemma ss_rel_refl a : ss_rel a a.
Proof. induction a; constructor; auto. apply sc_rel_refl. Qed.

Lemma ss_rel_trans a b c : ss_rel a b -> ss_rel b c -> ss_rel a c.
Proof.
  intros H. revert c. induction H; intros c Hc; inversion Hc; subst; constructor.
  - eapply sc_rel_trans; eauto.
  - apply IHForall2; auto.
Qed.

Lemma ss_rel_nth a b k t : ss_rel a b -> nth_error b k = Some t ->
  exists t0, nth_error a k = Some t0 /\ sc_rel t0 t.
Proof.
  intros H. revert k. induction H; intros [|k] Hn; cbn in *; try discriminate.
  - inversion Hn; subst. eauto.
  - eauto.
Qed.

Lemma ss_rel_nth' a b k t0 : ss_rel a b -> nth_error a k = Some t0 ->
  exists t, nth_error b k = Some t /\ sc_rel t0 t.
Proof.
  intros H. revert k. induction H; intros [|k] Hn; cbn in *; try discriminate.
  - inversion Hn; subst. eauto.
  - eauto.
Qed.

Lemma ss_rel_upd a k t0 t : nth_error a k = Some t0 -> sc_rel t0 t -> ss_rel a (upd a k t).
Proof.
  revert k. induction a as [|x a IH]; intros [|k] Hn Hr; cbn in *; try discriminate.
  - inversion Hn; subst. constructor; auto. apply ss_rel_refl.
  - constructor; [apply sc_rel_refl|]. apply IH; auto.
Qed.

Lemma start_close_rel ss m : ss_rel ss (start_close ss m).
Proof.
  unfold start_close. destruct (nth_error ss m) as [s|] eqn:E; [|apply ss_rel_refl].
  destruct (cl s) eqn:Ec; try apply ss_rel_refl.
  eapply ss_rel_upd; eauto. right. auto.
Qed.

(* after start_close, a healthy session m has a Close pending *)
Lemma start_close_c0 ss m t : Forall sinv ss -> nth_error (start_close ss m) m = Some t -> st t = Ok -> cl t = C0.
Proof.
  intros Hs Hn Hok. unfold start_close in Hn.
  destruct (nth_error ss m) as [s|] eqn:E; [|congruence].
  destruct (cl s) eqn:Ec.
  - rewrite (nth_error_upd_eq _ _ _ _ E) in Hn. inversion Hn; subst. reflexivity.
  - congruence.
  - assert (s = t) by congruence. subst.
    destruct (Forall_nth _ _ _ _ Hs E) as ((Hc & _) & _). unfold cl_ok in Hc. rewrite Ec in Hc. congruence.
  - assert (s = t) by congruence. subst.
    destruct (Forall_nth _ _ _ _ Hs E) as ((Hc & _) & _). unfold cl_ok in Hc. rewrite Ec in Hc. congruence.
  - assert (s = t) by congruence. subst.
    destruct (Forall_nth _ _ _ _ Hs E) as ((Hc & _) & _). unfold cl_ok in Hc. rewrite Ec in Hc. congruence.
  - assert (s = t) by congruence. subst.
    destruct (Forall_nth _ _ _ _ Hs E) as ((Hc & _) & _). unfold cl_ok in Hc. rewrite Ec in Hc. congruence.
  - assert (s = t) by congruence. subst.
    destruct (Forall_nth _ _ _ _ Hs E) as ((Hc & _) & _). unfold cl_ok in Hc. rewrite Ec in Hc. congruence.
  - assert (s = t) by congruence. subst.
    destruct (Forall_nth _ _ _ _ Hs E) as ((Hc & _) & _). unfold cl_ok in Hc. rewrite Ec in Hc. congruence.
  - assert (s = t) by congruence. subst.
    destruct (Forall_nth _ _ _ _ Hs E) as ((Hc & _) & _). unfold cl_ok in Hc. rewrite Ec in Hc. congruence.
Qed.

(* ---- the peer invariant ---- *)
Record pinv (p : peer) : Prop := mkPinv {
  pi_s : Forall sinv (sessions p);
  pi_ix : forall id n, idx_get (pindex p) id = Some n ->
          exists s, nth_error (sessions p) n = Some s /\ sid s = id /\ mbi s;
  pi_ok : forall n s, nth_error (sessions p) n = Some s -> st s = Ok ->
          idx_get (pindex p) (sid s) = Some n \/ cl s = C0
}.

Lemma Forall_ss_rel a b : ss_rel a b -> Forall sinv a -> Forall sinv b.
Proof.
  intros H. induction H; intros Hf; inversion Hf; subst; constructor; auto.
  eapply sc_rel_sinv; eauto.
Qed.

(* replacing the sessions by Close()-related ones keeps the invariant *)
Lemma pinv_ss_rel ss ix ss' : pinv (mkPeer ss ix) -> ss_rel ss ss' -> pinv (mkPeer ss' ix).
Proof.
  intros [Hs Hix Hok] Hr. constructor; cbn in *.
  - eapply Forall_ss_rel; eauto.
  - intros id n Hg. destruct (Hix id n Hg) as (s & Hn & Hsid & Hm).
    destruct (ss_rel_nth' _ _ _ _ Hr Hn) as (t & Hn' & Hrel).
    exists t. repeat split; auto.
    + rewrite (sc_rel_sid _ _ Hrel). auto.
    + eapply sc_rel_mbi; eauto.
  - intros n t Hn Hst. destruct (ss_rel_nth _ _ _ _ Hr Hn) as (t0 & Hn0 & Hrel).
    rewrite (sc_rel_sid _ _ Hrel). rewrite (sc_rel_st _ _ Hrel) in Hst.
    destruct (Hok n t0 Hn0 Hst) as [H|H]; [left; auto|right; eapply sc_rel_c0; eauto].
Qed.



(* hub.set of session n under id (then dropping its old key, if it had another one) *)
Lemma hub_set_pinv ss ix n id old sn :
  Forall sinv ss -> nth_error ss n = Some sn -> sid sn = id -> mbi sn ->
  (forall x m, idx_get ix x = Some m -> m <> n -> exists s, nth_error ss m = Some s /\ sid s = x /\ mbi s) ->
  (forall m s, nth_error ss m = Some s -> m <> n -> st s = Ok -> idx_get ix (sid s) = Some m \/ cl s = C0) ->
  (forall x, idx_get ix x = Some n -> x = old) ->
  (old = id \/ idx_get ix old = Some n) ->
  let p1 := hub_set (mkPeer ss ix) n id in
  pinv (mkPeer (sessions p1) (if N.eqb old id then pindex p1 else idx_remove (pindex p1) old)).
Proof.
  intros Hs Hn Hsid Hmb Hb Hc Hd He p1.
  (* sessions after the displaced one's Close() *)
  assert (Hrel : ss_rel ss (sessions p1) /\ pindex p1 = idx_put ix id n /\
                 (forall m t, idx_get ix id = Some m -> m <> n -> nth_error (sessions p1) m = Some t -> st t = Ok -> cl t = C0)).
  { unfold p1, hub_set; cbn. destruct (idx_get ix id) as [m|] eqn:Eg.
    - destruct (Nat.eqb m n) eqn:Emn; cbn.
      + repeat split; [apply ss_rel_refl|]. intros m0 t X Hne. inversion X; subst. apply Nat.eqb_eq in Emn. congruence.
      + repeat split; [apply start_close_rel|]. intros m0 t X Hne Hnt Hst. inversion X; subst.
        eapply start_close_c0; eauto.
    - cbn. repeat split; [apply ss_rel_refl|]. intros; discriminate. }
  destruct Hrel as (Hrel & Eix & Hdis). rewrite Eix.
  assert (Hget : forall x, idx_get (if N.eqb old id then idx_put ix id n else idx_remove (idx_put ix id n) old) x =
                           if N.eqb x id then Some n else if N.eqb x old then None else idx_get ix x).
  { intros x. destruct (N.eqb old id) eqn:Eoi.
    - apply N.eqb_eq in Eoi. subst old. destruct (N.eqb x id) eqn:Ex.
      + apply N.eqb_eq in Ex. subst. apply idx_get_put_eq.
      + apply idx_get_put_ne. intros ->. rewrite N.eqb_refl in Ex. discriminate.
    - destruct (N.eqb x id) eqn:Ex.
      + apply N.eqb_eq in Ex. subst x. rewrite idx_get_remove_ne; [apply idx_get_put_eq|].
        intros ->. rewrite N.eqb_refl in Eoi. discriminate.
      + destruct (N.eqb x old) eqn:Exo.
        * apply N.eqb_eq in Exo. subst x. apply idx_get_remove_eq.
        * rewrite idx_get_remove_ne; [apply idx_get_put_ne|]; intros ->; rewrite N.eqb_refl in *; discriminate. }
  constructor; cbn.
  - eapply Forall_ss_rel; eauto.
  - intros x k Hg. rewrite Hget in Hg. destruct (N.eqb x id) eqn:Ex.
    + inversion Hg; subst k. apply N.eqb_eq in Ex. subst x.
      destruct (ss_rel_nth' _ _ _ _ Hrel Hn) as (t & Hn' & Hr).
      exists t. repeat split; auto; [rewrite (sc_rel_sid _ _ Hr); auto|eapply sc_rel_mbi; eauto].
    + destruct (N.eqb x old) eqn:Exo; [discriminate|].
      assert (k <> n). { intros ->. apply Hd in Hg. subst. rewrite N.eqb_refl in Exo. discriminate. }
      destruct (Hb x k Hg H) as (s & Hns & Hss & Hms).
      destruct (ss_rel_nth' _ _ _ _ Hrel Hns) as (t & Hn' & Hr).
      exists t. repeat split; auto; [rewrite (sc_rel_sid _ _ Hr); auto|eapply sc_rel_mbi; eauto].
  - intros k t Hk Hst. rewrite Hget.
    destruct (ss_rel_nth _ _ _ _ Hrel Hk) as (t0 & Hk0 & Hr).
    rewrite (sc_rel_sid _ _ Hr). rewrite (sc_rel_st _ _ Hr) in Hst.
    destruct (Nat.eq_dec k n) as [->|Hne].
    + assert (t0 = sn) by congruence. subst t0. rewrite Hsid, N.eqb_refl. left; reflexivity.
    + destruct (Hc k t0 Hk0 Hne Hst) as [Hi|Hi]; [|right; eapply sc_rel_c0; eauto].
      destruct (N.eqb (sid t0) id) eqn:Ex.
      * apply N.eqb_eq in Ex. rewrite Ex in Hi. right.
        eapply Hdis; eauto. rewrite (sc_rel_st _ _ Hr). auto.
      * destruct (N.eqb (sid t0) old) eqn:Exo; [|left; auto].
        apply N.eqb_eq in Exo. exfalso. destruct He as [He|He].
        -- subst old. rewrite Exo, N.eqb_refl in Ex. discriminate.
        -- rewrite Exo in Hi. congruence.
Qed.



Lemma sinv_fresh_ok id : sinv (mkSess Ok true true 0 0 0 0 [] [] RNone CIdle id true 0).
Proof.
  unfold sinv, stat_inv, ic_inv, cl_ok, rd_ok, nt_ok, hk_ok, est_ok, bound_ok; cbn.
  repeat split; auto; try discriminate; try constructor.
Qed.

Lemma sinv_fresh_rej id : sinv (set_cl (new_sess id) C0).
Proof.
  unfold sinv, stat_inv, ic_inv, cl_ok, rd_ok, nt_ok, hk_ok, est_ok, bound_ok; cbn.
  repeat split; auto; try discriminate; try constructor; intros; try congruence.
Qed.

Lemma sinv_fresh_dialrej id : sinv (set_sock (new_sess id) false).
Proof.
  unfold sinv, stat_inv, ic_inv, cl_ok, rd_ok, nt_ok, hk_ok, est_ok, bound_ok; cbn.
  repeat split; auto; try discriminate; try constructor; intros; try congruence.
Qed.

Lemma sinv_set_sid s id : sinv s -> sinv (set_sid s id).
Proof.
  intros ((A & B & C & D & E) & (F & G & H)).
  unfold sinv, stat_inv, ic_inv, cl_ok, rd_ok, nt_ok, hk_ok, est_ok, bound_ok in *; cbn.
  repeat split; auto; tauto.
Qed.

Lemma nth_error_snoc_new {A} (l : list A) x : nth_error (l ++ [x]) (length l) = Some x.
Proof. rewrite nth_error_app2; [|lia]. rewrite Nat.sub_diag. reflexivity. Qed.

Lemma nth_error_snoc_inv {A} (l : list A) x k y :
  nth_error (l ++ [x]) k = Some y -> k <> length l -> nth_error l k = Some y.
Proof.
  intros H Hne. destruct (Nat.lt_ge_cases k (length l)).
  - rewrite nth_error_app1 in H; auto.
  - assert (k > length l) by lia. rewrite nth_error_app2 in H; [|lia].
    destruct (k - length l) as [|d] eqn:E; [lia|]. cbn in H. destruct d; discriminate.
Qed.

(* adding a session that is not indexed and not healthy *)
Lemma pinv_add_dead p s : pinv p -> sinv s -> st s <> Ok -> pinv (mkPeer (sessions p ++ [s]) (pindex p)).
Proof.
  intros [Hs Hix Hok] Hi Hst. constructor; cbn.
  - apply Forall_snoc; auto.
  - intros id n Hg. destruct (Hix id n Hg) as (t & Hn & X). exists t. split; auto.
    apply nth_error_snoc_lt. auto.
  - intros n t Hn Ht. destruct (Nat.eq_dec n (length (sessions p))) as [->|Hne].
    + rewrite nth_error_snoc_new in Hn. inversion Hn; subst. congruence.
    + apply Hok; auto. eapply nth_error_snoc_inv; eauto.
Qed.

Lemma pinv_accept p id : pinv p ->
  pinv (hub_set (mkPeer (sessions p ++ [mkSess Ok true true 0 0 0 0 [] [] RNone CIdle id true 0]) (pindex p))
                (length (sessions p)) id).
Proof.
  intros [Hs Hix Hok].
  pose proof (hub_set_pinv (sessions p ++ [mkSess Ok true true 0 0 0 0 [] [] RNone CIdle id true 0]) (pindex p)
                (length (sessions p)) id id (mkSess Ok true true 0 0 0 0 [] [] RNone CIdle id true 0)) as L.
  cbn zeta in L. rewrite N.eqb_refl in L.
  match type of L with _ -> _ -> _ -> _ -> _ -> _ -> _ -> _ -> pinv ?q =>
    replace (hub_set _ _ _) with q; [|destruct (hub_set _ _ _); reflexivity] end.
  apply L.
  - apply Forall_snoc; auto. apply sinv_fresh_ok.
  - apply nth_error_snoc_new.
  - reflexivity.
  - left. reflexivity.
  - intros x m Hg Hne. destruct (Hix x m Hg) as (t & Hn & X). exists t. split; auto. apply nth_error_snoc_lt; auto.
  - intros m t Hn Hne Hst. apply Hok; auto. eapply nth_error_snoc_inv; eauto.
  - intros x Hg. destruct (Hix x _ Hg) as (t & Hn & _). exfalso.
    assert (length (sessions p) < length (sessions p)); [|lia]. apply nth_error_Some. congruence.
  - left. reflexivity.
Qed.



Lemma mbi_set_sid s id : mbi s -> mbi (set_sid s id).
Proof. unfold mbi; cbn; auto. Qed.

(* SetID of a session that is not the entry of its old id: only its id changes *)
Lemma pinv_setid_unindexed p n s id :
  pinv p -> nth_error (sessions p) n = Some s -> idx_get (pindex p) (sid s) <> Some n ->
  pinv (mkPeer (upd (sessions p) n (set_sid s id)) (pindex p)).
Proof.
  intros [Hs Hix Hok] Hn Hni. constructor; cbn.
  - apply Forall_upd; auto. apply sinv_set_sid. eapply Forall_nth; eauto.
  - intros x k Hg. destruct (Hix x k Hg) as (t & Hk & Hsid & Hm).
    assert (k <> n). { intros ->. assert (t = s) by congruence. subst. congruence. }
    exists t. rewrite nth_error_upd_ne; auto.
  - intros k t Hk Hst. destruct (Nat.eq_dec k n) as [->|Hne].
    + rewrite (nth_error_upd_eq _ _ _ _ Hn) in Hk. inversion Hk; subst. cbn in *.
      destruct (Hok n s Hn Hst) as [H|H]; [congruence|right; auto].
    + rewrite nth_error_upd_ne in Hk; auto.
Qed.

Lemma pinv_setid_indexed p n s id :
  pinv p -> nth_error (sessions p) n = Some s -> idx_get (pindex p) (sid s) = Some n ->
  N.eqb (sid s) id = false ->
  let p1 := hub_set (mkPeer (upd (sessions p) n (set_sid s id)) (pindex p)) n id in
  pinv (mkPeer (sessions p1) (idx_remove (pindex p1) (sid s))).
Proof.
  intros [Hs Hix Hok] Hn Hi Hne p1.
  pose proof (hub_set_pinv (upd (sessions p) n (set_sid s id)) (pindex p) n id (sid s) (set_sid s id)) as L.
  cbn zeta in L. rewrite Hne in L. apply L; clear L.
  - apply Forall_upd; auto. apply sinv_set_sid. eapply Forall_nth; eauto.
  - eapply nth_error_upd_eq; eauto.
  - reflexivity.
  - apply mbi_set_sid. destruct (Hix _ _ Hi) as (t & Ht & _ & Hm). congruence.
  - intros x m Hg Hmn. destruct (Hix x m Hg) as (t & Ht & X). exists t. rewrite nth_error_upd_ne; auto.
  - intros m t Ht Hmn Hst. rewrite nth_error_upd_ne in Ht; auto.
  - intros x Hg. destruct (Hix x n Hg) as (t & Ht & Hsid & _). congruence.
  - right. exact Hi.
Qed.

(* peer.Close *)
Lemma fold_start_close_rel (l : index) ss : ss_rel ss (fold_left (fun ss kn => start_close ss (snd kn)) l ss).
Proof.
  revert ss. induction l as [|kn l IH]; intros ss; cbn; [apply ss_rel_refl|].
  eapply ss_rel_trans; [apply start_close_rel|apply IH].
Qed.

(* one session steps *)
Lemma fxdel_cases s e s' : sstep s e = Some (s', FxDel) ->
  (cl s = C1 \/ exists x, rd s = D2 x) /\ st s' = st s.
Proof.
  intros H. unfold sstep, sstep_cfg in H. destruct e.
  - destruct (conn s); inversion H.
  - unfold noeff in H. destruct (frame_step s f); inversion H.
  - unfold noeff in H. destruct (close_call s); inversion H.
  - inversion H.
  - inversion H.
  - unfold closer_step, notify in H. destruct (cl s) eqn:Ecl; try discriminate.
    all: try (destruct (st s); inversion H; fail).
    all: try (destruct (ctxWG s); inversion H; fail).
    all: try (destruct (callWG s); inversion H; fail).
    all: try (destruct (notified s); inversion H; fail).
    all: try (inversion H; fail).
    inversion H; subst. split; [left; reflexivity|reflexivity].
  - destruct (rd s) eqn:Erd; try (unfold reader_step in H; rewrite Erd in H; discriminate).
    all: try (destruct (reader_step_pre _ _ _ _ H) as (_ & Hp & _); [rewrite Erd; exact I|];
              exfalso; unfold reader_step in H; rewrite Erd in H;
              repeat match type of H with
                     | context [match ?x with _ => _ end] => destruct x; try discriminate H
                     | context [if ?x then _ else _] => destruct x; try discriminate H
                     end; inversion H).
    all: unfold reader_step, notify in H; rewrite Erd in H.
    all: try (inversion H; fail).
    all: try (destruct seen; cbn [fix_cas fixed] in H; try destruct (status_eqb (st s) _); inversion H; fail).
    all: try (destruct (ctxWG s); inversion H; fail).
    all: try (destruct (all_visited (calls s)); inversion H; fail).
    all: try (cbn in H; destruct (notified s); inversion H; fail).
    inversion H; subst. split; [right; eauto|reflexivity].
  - unfold noeff in H. destruct (visit_step s i); inversion H.
  - unfold noeff in H. destruct (caller_step s i veto wr); inversion H.
  - unfold noeff in H. destruct (reply_step s i); inversion H.
  - unfold noeff in H. destruct (handler_step s j veto wr); inversion H.
  - unfold noeff in H. destruct (hwait_step s j i); inversion H.
Qed.

Lemma fxdel_not_ok s e s' : stat_inv s -> sstep s e = Some (s', FxDel) -> st s' <> Ok.
Proof.
  intros (Hc & Hr & _) H. destruct (fxdel_cases _ _ _ H) as ([E|(x & E)] & Est); rewrite Est.
  - unfold cl_ok in Hc. rewrite E in Hc. congruence.
  - unfold rd_ok, seen_ok in Hr. rewrite E in Hr. destruct x; try tauto; try congruence.
    destruct Hr; congruence.
Qed.

Lemma c0_kept s e s' fx : sstep s e = Some (s', fx) -> cl s = C0 -> st s' = Ok -> cl s' = C0.
Proof.
  intros H Hc Hst. pose proof (ok_not_entered _ _ _ _ H Hst) as Hst0.
  unfold sstep, sstep_cfg in H. destruct e.
  - destruct (conn s); inversion H; subst; auto.
  - unfold noeff, frame_step in H. destruct (rd s); try discriminate. destruct f; inversion H; subst; auto.
  - unfold noeff, close_call in H. rewrite Hc in H. discriminate.
  - inversion H; subst; auto.
  - inversion H; subst; auto.
  - unfold closer_step in H. rewrite Hc, Hst0 in H. inversion H; subst. cbn in Hst. discriminate.
  - destruct (rd s) eqn:Erd; try (unfold reader_step in H; rewrite Erd in H; discriminate).
    all: try (destruct (reader_step_pre _ _ _ _ H) as ((_ & _ & _ & E & _) & _); [rewrite Erd; exact I|]; congruence).
    all: unfold reader_step, notify in H; rewrite Erd in H;
      repeat match type of H with
             | context [match ?x with _ => _ end] => destruct x; try discriminate H
             | context [if ?x then _ else _] => destruct x; try discriminate H
             end; inversion H; subst; auto.
  - unfold noeff in H. destruct (visit_step s i) eqn:E; inversion H; subst.
    destruct (visit_step_ctrl _ _ _ E) as (_ & _ & _ & _ & X & _). congruence.
  - unfold noeff in H. destruct (caller_step s i veto wr) eqn:E; inversion H; subst.
    destruct (caller_step_ctrl _ _ _ _ _ E) as (_ & _ & _ & _ & X & _). congruence.
  - unfold noeff in H. destruct (reply_step s i) eqn:E; inversion H; subst.
    destruct (reply_step_ctrl _ _ _ E) as (_ & _ & _ & _ & X & _). congruence.
  - unfold noeff in H. destruct (handler_step s j veto wr) eqn:E; inversion H; subst.
    destruct (handler_step_ctrl _ _ _ _ _ E) as (_ & _ & _ & _ & X & _). congruence.
  - unfold noeff in H. destruct (hwait_step s j i) eqn:E; inversion H; subst.
    destruct (hwait_step_ctrl _ _ _ _ E) as (_ & _ & _ & _ & X & _). congruence.
Qed.

Lemma pinv_sess p n s e s' fx :
  pinv p -> nth_error (sessions p) n = Some s -> sstep s e = Some (s', fx) ->
  pinv (mkPeer (upd (sessions p) n s')
               (match fx with FxNone => pindex p | FxDel => hub_del fixed (pindex p) (sid s) n end)).
Proof.
  intros [Hs Hix Hok] Hn H.
  pose proof (Forall_nth _ _ _ _ Hs Hn) as Hsn.
  pose proof (sid_step _ _ _ _ H) as Hsid.
  constructor; cbn.
  - apply Forall_upd; auto. eapply sinv_step; eauto.
  - intros x k Hg. destruct fx.
    + destruct (Hix x k Hg) as (t & Hk & Hx & Hm). destruct (Nat.eq_dec k n) as [->|Hne].
      * assert (t = s) by congruence. subst t. exists s'. rewrite (nth_error_upd_eq _ _ _ _ Hn).
        repeat split; auto; [congruence|]. apply (mbi_step _ _ _ _ (proj1 Hsn) H Hm).
      * exists t. rewrite nth_error_upd_ne; auto.
    + unfold hub_del in Hg. cbn [fix_del fixed] in Hg.
      assert (Hk : idx_get (pindex p) x = Some k /\ k <> n).
      { destruct (idx_get (pindex p) (sid s)) as [m|] eqn:Em.
        - destruct (Nat.eqb m n) eqn:Emn.
          + apply Nat.eqb_eq in Emn. subst m.
            destruct (N.eq_dec x (sid s)) as [->|Hx]; [rewrite idx_get_remove_eq in Hg; discriminate|].
            rewrite idx_get_remove_ne in Hg; auto. split; auto. intros ->.
            destruct (Hix x n Hg) as (t & Ht & Hx' & _). congruence.
          + split; auto. intros ->. destruct (Hix x n Hg) as (t & Ht & Hx' & _).
            assert (t = s) by congruence. subst. rewrite Hg in Em. inversion Em; subst.
            rewrite Nat.eqb_refl in Emn. discriminate.
        - split; auto. intros ->. destruct (Hix x n Hg) as (t & Ht & Hx' & _).
          assert (t = s) by congruence. subst. congruence. }
      destruct Hk as (Hk & Hne). destruct (Hix x k Hk) as (t & Ht & X). exists t. rewrite nth_error_upd_ne; auto.
  - intros k t Hk Hst. destruct (Nat.eq_dec k n) as [->|Hne].
    + rewrite (nth_error_upd_eq _ _ _ _ Hn) in Hk. inversion Hk; subst t.
      destruct fx; [|exfalso; eapply fxdel_not_ok; eauto; apply Hsn].
      rewrite Hsid. destruct (Hok n s Hn (ok_not_entered _ _ _ _ H Hst)) as [Hi|Hi]; [left; auto|right].
      eapply c0_kept; eauto.
    + rewrite nth_error_upd_ne in Hk; auto. destruct (Hok k t Hk Hst) as [Hi|Hi]; [|right; auto]. left.
      destruct fx; auto. unfold hub_del. cbn [fix_del fixed].
      destruct (idx_get (pindex p) (sid s)) as [m|] eqn:Em; auto.
      destruct (Nat.eqb m n) eqn:Emn; auto. apply Nat.eqb_eq in Emn. subst m.
      rewrite idx_get_remove_ne; auto. intros E. rewrite E in Hi. congruence.
Qed.

Theorem pinv_step p e p' : pinv p -> pstep p e = Some p' -> pinv p'.
Proof.
  intros Hp H. unfold pstep, pstep_cfg in H. destruct e.
  - (* accept *) destruct ok.
    + inversion H; subst. apply pinv_accept; auto.
    + inversion H; subst. apply pinv_add_dead; auto; [apply sinv_fresh_rej|discriminate].
  - (* dial *) destruct ok.
    + inversion H; subst. apply pinv_accept; auto.
    + inversion H; subst. apply pinv_add_dead; auto; [apply sinv_fresh_dialrej|discriminate].
  - (* SetID *)
    destruct (nth_error (sessions p) n) as [s|] eqn:En; [|discriminate].
    destruct (N.eqb (sid s) id) eqn:Eid; [inversion H; subst; auto|].
    cbn [fix_del fixed] in H.
    destruct (idx_get (pindex p) (sid s)) as [m|] eqn:Em.
    + destruct (Nat.eqb m n) eqn:Emn.
      * apply Nat.eqb_eq in Emn. subst m. inversion H; subst. apply pinv_setid_indexed; auto.
      * inversion H; subst. apply pinv_setid_unindexed; auto. rewrite Em. intros X. inversion X; subst.
        rewrite Nat.eqb_refl in Emn. discriminate.
    + inversion H; subst. apply pinv_setid_unindexed; auto. rewrite Em. discriminate.
  - (* peer close *)
    inversion H; subst. destruct p as [ss ix]. cbn. eapply pinv_ss_rel; eauto. apply fold_start_close_rel.
  - destruct (nth_error (sessions p) n) as [s|] eqn:En; [|discriminate].
    fold sstep in H. destruct (sstep s e) as [[s' fx]|] eqn:Es; [|discriminate].
    pose proof (pinv_sess p n s e s' fx Hp En Es) as L.
    destruct fx; inversion H; subst; exact L.
Qed.

Lemma pinv0 : pinv peer0.
Proof. constructor; cbn; [constructor|discriminate|]. intros n s Hn. destruct n; discriminate. Qed.

Theorem prun_pinv es : forall p p', pinv p -> prun p es = Some p' -> pinv p'.
Proof.
  induction es as [|e r IH]; intros p p' Hp H; cbn in H.
  - inversion H; subst; auto.
  - unfold prun in H; cbn in H. fold pstep in H. destruct (pstep p e) as [p1|] eqn:E; [|discriminate].
    eapply IH; [eapply pinv_step; eauto|exact H].
Qed.

(* index_exact *)
Definition pquiescent (p : peer) : Prop := forall n s, nth_error (sessions p) n = Some s -> terminal s = true.

Theorem index_exact_lemma es p :
  prun peer0 es = Some p -> pquiescent p ->
  forall id n, idx_get (pindex p) id = Some n <->
               exists s, nth_error (sessions p) n = Some s /\ sid s = id /\ st s = Ok.
Proof.
  intros Hr Hq id n. pose proof (prun_pinv es _ _ pinv0 Hr) as [Hs Hix Hok]. split.
  - intros Hg. destruct (Hix id n Hg) as (s & Hn & Hsid & Hm). exists s. repeat split; auto.
    pose proof (Hq n s Hn) as T.
    destruct Hm as [Hm|[(Hm & Hc)|(Hm & x & Hrd)]]; auto; exfalso.
    + pose proof (terminal_closer s T) as X. unfold closer_step in X. rewrite Hc in X. discriminate.
    + pose proof (terminal_reader s T) as X. unfold reader_step in X. rewrite Hrd in X. discriminate.
  - intros (s & Hn & Hsid & Hst). destruct (Hok n s Hn Hst) as [H|H]; [congruence|exfalso].
    pose proof (terminal_closer s (Hq n s Hn)) as X. unfold closer_step in X. rewrite H, Hst in X. discriminate.
Qed.



Lemma hub_set_rel ss ix n id : ss_rel ss (sessions (hub_set (mkPeer ss ix) n id)).
Proof.
  unfold hub_set; cbn. destruct (idx_get ix id) as [m|]; [|apply ss_rel_refl].
  destruct (Nat.eqb m n); cbn; [apply ss_rel_refl|apply start_close_rel].
Qed.

(* what a peer event does to the status of an existing session *)
Lemma pstep_status p e p' n s :
  pinv p -> pstep p e = Some p' -> nth_error (sessions p) n = Some s ->
  exists s', nth_error (sessions p') n = Some s' /\
             (closed (st s) = true -> st s' = st s) /\ (st s' = Ok -> st s = Ok).
Proof.
  intros Hp H Hn. unfold pstep, pstep_cfg in H.
  assert (Rel : forall ss', ss_rel (sessions p) ss' ->
           exists s', nth_error ss' n = Some s' /\ (closed (st s) = true -> st s' = st s) /\ (st s' = Ok -> st s = Ok)).
  { intros ss' Hr. destruct (ss_rel_nth' _ _ _ _ Hr Hn) as (t & Ht & Hrel). exists t.
    rewrite (sc_rel_st _ _ Hrel). auto. }
  assert (Rel2 : forall x ss', ss_rel (sessions p ++ [x]) ss' ->
           exists s', nth_error ss' n = Some s' /\ (closed (st s) = true -> st s' = st s) /\ (st s' = Ok -> st s = Ok)).
  { intros x ss' Hr. destruct (ss_rel_nth' _ _ _ _ Hr (nth_error_snoc_lt _ x _ _ Hn)) as (t & Ht & Hrel). exists t.
    rewrite (sc_rel_st _ _ Hrel). auto. }
  destruct e.
  - destruct ok; inversion H; subst.
    + eapply Rel2. apply hub_set_rel.
    + cbn. eapply Rel2. apply ss_rel_refl.
  - destruct ok; inversion H; subst.
    + eapply Rel2. apply hub_set_rel.
    + cbn. eapply Rel2. apply ss_rel_refl.
  - destruct (nth_error (sessions p) n0) as [s0|] eqn:En; [|discriminate].
    destruct (N.eqb (sid s0) id); [inversion H; subst; exists s; auto|].
    cbn [fix_del fixed] in H.
    assert (Hu : exists t, nth_error (upd (sessions p) n0 (set_sid s0 id)) n = Some t /\ st t = st s).
    { destruct (Nat.eq_dec n0 n) as [->|Hne].
      - exists (set_sid s0 id). rewrite (nth_error_upd_eq _ _ _ _ En). split; auto. cbn. congruence.
      - exists s. rewrite nth_error_upd_ne; auto. }
    destruct Hu as (t & Ht & Est).
    assert (Rel3 : forall ss', ss_rel (upd (sessions p) n0 (set_sid s0 id)) ss' ->
           exists s', nth_error ss' n = Some s' /\ (closed (st s) = true -> st s' = st s) /\ (st s' = Ok -> st s = Ok)).
    { intros ss' Hr. destruct (ss_rel_nth' _ _ _ _ Hr Ht) as (t' & Ht' & Hrel). exists t'.
      rewrite (sc_rel_st _ _ Hrel), Est. auto. }
    destruct (idx_get (pindex p) (sid s0)) as [m|].
    + destruct (Nat.eqb m n0); inversion H; subst; cbn.
      * apply Rel3. apply hub_set_rel.
      * apply Rel3. apply ss_rel_refl.
    + inversion H; subst; cbn. apply Rel3. apply ss_rel_refl.
  - inversion H; subst; cbn. apply Rel. apply fold_start_close_rel.
  - destruct (nth_error (sessions p) n0) as [s0|] eqn:En; [|discriminate].
    fold sstep in H. destruct (sstep s0 e) as [[s1 fx]|] eqn:Es; [|discriminate].
    assert (sessions p' = upd (sessions p) n0 s1) by (destruct fx; inversion H; reflexivity).
    rewrite H0. destruct (Nat.eq_dec n0 n) as [->|Hne].
    + assert (s0 = s) by congruence. subst s0. exists s1. rewrite (nth_error_upd_eq _ _ _ _ En).
      split; auto. split.
      * intros Hc. eapply closed_absorbing_step; eauto.
        destruct Hp as [Hs _ _]. apply (Forall_nth _ _ _ _ Hs Hn).
      * eapply ok_not_entered; eauto.
    + exists s. rewrite nth_error_upd_ne; auto.
Qed.
