(* The invariant of Model/Wire.v is preserved by every step (property C01). *)
From Coq Require Import Strings.String Strings.Byte.
From Coq Require Import List Arith NArith ZArith Bool Lia Permutation.
From Verif Require Import Base.Bytes Base.Outcome Model.Quote Model.Args Model.Numfmt
  Model.StatusQuery Model.Xfer Model.RawProto Model.Wire
  Proofs.XferProofs Proofs.RawProofs Proofs.WireProofs Proofs.WireOnce.
Import ListNotations.
Local Open Scope N_scope.

Lemma pack_item_spec cfg ids m x : pack_item cfg ids m = Some x ->
  fr_msg x = m /\ fr_ids x = ids.
Proof.
  unfold pack_item. destruct (pipe_append _ _ _) as [p [e|]]; [discriminate|].
  destruct (raw_pack _ _ _); try discriminate. intros H. inversion H. auto.
Qed.

Lemma flight_cons_s es es' eo ws ws' wo x q :
  items es' ws' = x :: items es ws ->
  cnt (flight2 es' eo ws' wo) q = (cnt (kcall x) q + cnt (flight2 es eo ws wo) q)%nat.
Proof. intros E. unfold flight2. rewrite E. cbn [flat_map]. rewrite !cnt_app. lia. Qed.
Lemma flight_cons_o es eo eo' ws wo wo' x q :
  items eo' wo' = x :: items eo wo ->
  cnt (flight2 es eo' ws wo') q = (cnt (kreply x) q + cnt (flight2 es eo ws wo) q)%nat.
Proof. intros E. unfold flight2. rewrite E. cbn [flat_map]. rewrite !cnt_app. lia. Qed.
Lemma flight_perm es es' eo eo' ws ws' wo wo' q :
  Permutation (items es' ws') (items es ws) -> Permutation (items eo' wo') (items eo wo) ->
  cnt (flight2 es' eo' ws' wo') q = cnt (flight2 es eo ws wo) q.
Proof.
  intros P1 P2. unfold flight2. rewrite !cnt_app.
  rewrite (cnt_flat_perm kcall _ _ q P1), (cnt_flat_perm kreply _ _ q P2). reflexivity.
Qed.
Lemma flight_in_s es eo ws wo y :
  In y (items es ws) -> m_mtype (fr_msg y) = x01 ->
  (1 <= cnt (flight2 es eo ws wo) (m_seq (fr_msg y)))%nat.
Proof.
  intros Hy M. unfold flight2. rewrite cnt_app.
  pose proof (cnt_flat_in kcall _ y (m_seq (fr_msg y)) Hy) as H.
  rewrite (kcall_of _ M) in H. specialize (H (or_introl eq_refl)). lia.
Qed.
Lemma flight_in_o es eo ws wo y :
  In y (items eo wo) -> m_mtype (fr_msg y) = x02 ->
  (1 <= cnt (flight2 es eo ws wo) (m_seq (fr_msg y)))%nat.
Proof.
  intros Hy M. unfold flight2. rewrite cnt_app.
  pose proof (cnt_flat_in kreply _ y (m_seq (fr_msg y)) Hy) as H.
  rewrite (kreply_of _ M) in H. specialize (H (or_introl eq_refl)). lia.
Qed.

Section Generic.
  Variable cfg : config.
  Hypothesis Hinv : forall g, In g (cf_reg cfg) -> inverts g.
  (* the predicate tying a queue to the frames on it, and what the proofs below need of it *)
  Variable W : ep -> bytes -> list frame_rec -> Prop.
  Hypothesis W_same : forall e e' q wl,
    W e q wl -> e_lock e' = e_lock e -> e_writers e' = e_writers e ->
    e_unlocking e' = e_unlocking e -> W e' q wl.
  Hypothesis W_pop : forall e q x wl, W e q (x :: wl) ->
    Wire.wf_frame cfg x /\ exists t, q = fr_bytes x ++ t /\ W e t wl.
  Hypothesis W_empty : forall e q, W e q [] ->
    (forall r, raw_unpack (cf_reg cfg) (cf_lim cfg) q <> Ok r) /\ frame_complete (cf_lim cfg) q = false.

  Ltac open_inv st s HI ws wo Hw Hl Hwo Hlo :=
    destruct (InvW_at cfg W st s HI) as (ws & wo & ((Hw & Hl) & (Hwo & Hlo))).

  Ltac close_inv s ws wo :=
    apply (at_InvW cfg W _ s ws wo); unfold inv_atW;
    rewrite ?other_other, ?ep_with_ep_same, ?ep_with_ep_other, ?ep_with_queue,
            ?queue_with_ep, ?queue_with_queue_same, ?queue_with_queue_other.

  Lemma pres_callW st st' s method args meta codec ids :
    sane cfg st -> InvW cfg W st ->
    step cfg st (ECall s method args meta codec ids) = Some st' -> InvW cfg W st'.
  Proof.
    intros Hsane HI Hstep. open_inv st s HI ws wo Hw Hl Hwo Hlo.
    cbn [step] in Hstep.
    set (es := ep_of st s) in *. set (eo := ep_of st (other s)) in *.
    set (c := mkCall (e_count es + 1) (seq_of_count (e_count es + 1)) method args meta codec ids) in *.
    assert (Hfresh : cnt (flight2 es eo ws wo) (c_seq c) = O).
    { apply (fresh_not_in_flight cfg s es eo ws wo Hl Hlo).
      intros q c0 H. apply (proj1 Hsane s q c0 H). }
    assert (Hne_s : forall y, In y (items es ws) -> m_mtype (fr_msg y) = x01 ->
                              m_seq (fr_msg y) <> c_seq c).
    { intros y Hy M E. pose proof (flight_in_s es eo ws wo y Hy M) as H. rewrite E in H. lia. }
    assert (Hne_o : forall y, In y (items eo wo) -> m_mtype (fr_msg y) = x02 ->
                              m_seq (fr_msg y) <> c_seq c).
    { intros y Hy M E. pose proof (flight_in_o es eo ws wo y Hy M) as H. rewrite E in H. lia. }
    pose proof Hl as (Hc & Hp & Ho & Hd & Hs & Hb).
    destruct (pack_item cfg ids (msg_of_call c)) as [x|] eqn:Epack;
      inversion Hstep; subst st'; clear Hstep; close_inv s ws wo; fold es eo.
    - destruct (pack_item_spec _ _ _ _ Epack) as [Hx _].
      assert (Mx : m_mtype (fr_msg x) = x01) by (rewrite Hx; reflexivity).
      assert (Sx : m_seq (fr_msg x) = c_seq c) by (rewrite Hx; reflexivity).
      split; split.
      + apply (W_same es _ _ _ Hw); reflexivity.
      + eapply (link_same_gen cfg s es _ eo ws ws wo wo Hl).
        * intros q. rewrite (flight_cons_s es _ eo ws ws wo x q) by reflexivity.
          rewrite (kcall_of _ Mx), Sx.
          destruct (Z.eq_dec (c_seq c) q) as [<-|N].
          -- rewrite cnt_one, Hfresh. lia.
          -- rewrite (cnt_one_neq _ _ N). apply Hc.
        * intros q c0 H. cbn [e_pending e_count e_issued] in *.
          destruct (Z.eq_dec q (c_seq c)) as [->|N].
          -- rewrite pget_pset_same in H. inversion H; subst c0. cbn.
             repeat split; try reflexivity; try lia. left. reflexivity.
          -- rewrite pget_pset_other in H by exact N.
             destruct (Hp _ _ H) as (A1 & A2 & A3 & A4 & A5).
             repeat split; try assumption; [lia | right; exact A5].
        * intros y [<-|Hy].
          -- left. left. split; [exact Mx|]. exists c. cbn [e_pending e_issued].
             rewrite Sx, pget_pset_same. repeat split; [exact Hx | left; reflexivity].
          -- right. split; [exact Hy|]. intros M. cbn [e_pending].
             apply pget_pset_other. apply Hne_s; assumption.
        * intros a Ha. right. exact Ha.
        * intros a Ha. exact Ha.
        * intros cr Hcr. left. exact Hcr.
        * intros h Hh. left. exact Hh.
        * exact Hb.
      + exact Hwo.
      + eapply (link_other_gen cfg s es _ eo ws ws wo wo Hlo).
        * intros q. rewrite (flight_cons_o eo es _ wo ws ws x q) by reflexivity.
          rewrite kreply_not by (rewrite Mx; discriminate). cbn. apply (proj1 Hlo).
        * intros y Hy. split; [exact Hy|]. intros M. cbn [e_pending].
          apply pget_pset_other. apply Hne_o; assumption.
        * intros a Ha. right. exact Ha.
        * intros a Ha. exact Ha.
    - split; split.
      + apply (W_same es _ _ _ Hw); reflexivity.
      + eapply (link_same_gen cfg s es _ eo ws ws wo wo Hl).
        * intros q. exact (Hc q).
        * intros q c0 H. cbn [e_pending e_count e_issued] in *.
          apply pget_pdel_some in H as [N H].
          destruct (Hp _ _ H) as (A1 & A2 & A3 & A4 & A5).
          repeat split; try assumption; [lia | right; exact A5].
        * intros y Hy. right. split; [exact Hy|]. intros M. cbn [e_pending].
          apply pget_pdel_other. apply Hne_s; assumption.
        * intros a Ha. right. exact Ha.
        * intros a Ha. exact Ha.
        * intros cr [<-|Hcr]; [right|left; exact Hcr]. split; cbn; [left; reflexivity | exact I].
        * intros h Hh. left. exact Hh.
        * exact Hb.
      + exact Hwo.
      + eapply (link_other_gen cfg s es _ eo ws ws wo wo Hlo).
        * intros q. exact (proj1 Hlo q).
        * intros y Hy. split; [exact Hy|]. intros M. cbn [e_pending].
          apply pget_pdel_other. apply Hne_o; assumption.
        * intros a Ha. right. exact Ha.
        * intros a Ha. exact Ha.
  Qed.

  Lemma pend_ok_count e e' :
    pend_ok e -> e_pending e' = e_pending e -> e_count e <= e_count e' ->
    incl (e_issued e) (e_issued e') -> pend_ok e'.
  Proof.
    intros Hp E1 E2 E3 q c H. rewrite E1 in H.
    destruct (Hp _ _ H) as (A1 & A2 & A3 & A4 & A5).
    repeat split; try assumption; [lia | apply E3; exact A5].
  Qed.

  Lemma pres_pushW st st' s method args meta codec ids :
    InvW cfg W st -> step cfg st (EPush s method args meta codec ids) = Some st' -> InvW cfg W st'.
  Proof.
    intros HI Hstep. open_inv st s HI ws wo Hw Hl Hwo Hlo.
    cbn [step] in Hstep.
    set (es := ep_of st s) in *. set (eo := ep_of st (other s)) in *.
    pose proof Hl as (Hc & Hp & Ho & Hd & Hs & Hb).
    destruct (pack_item cfg ids (push_msg (seq_of_count (e_count es + 1)) method args meta codec))
      as [x|] eqn:Epack;
      inversion Hstep; subst st'; clear Hstep; close_inv s ws wo; fold es eo.
    - destruct (pack_item_spec _ _ _ _ Epack) as [Hx _].
      assert (Mx : m_mtype (fr_msg x) = x03) by (rewrite Hx; reflexivity).
      split; split.
      + apply (W_same es _ _ _ Hw); reflexivity.
      + eapply (link_same_gen cfg s es _ eo ws ws wo wo Hl).
        * intros q. rewrite (flight_cons_s es _ eo ws ws wo x q) by reflexivity.
          rewrite kcall_not by (rewrite Mx; discriminate). cbn. apply Hc.
        * apply (pend_ok_count es); [exact Hp | reflexivity | cbn; lia | apply incl_refl].
        * intros y [<-|Hy].
          -- left. right. right. split; [exact Mx|]. rewrite Hx. cbn. left. reflexivity.
          -- right. split; [exact Hy|]. intros _. reflexivity.
        * apply incl_refl.
        * intros a Ha; first [exact Ha | right; exact Ha].
        * intros cr Hcr. left. exact Hcr.
        * intros h Hh. left. exact Hh.
        * exact Hb.
      + exact Hwo.
      + eapply (link_other_gen cfg s es _ eo ws ws wo wo Hlo).
        * intros q. rewrite (flight_cons_o eo es _ wo ws ws x q) by reflexivity.
          rewrite kreply_not by (rewrite Mx; discriminate). cbn. apply (proj1 Hlo).
        * intros y Hy. split; [exact Hy|]. intros _. reflexivity.
        * apply incl_refl.
        * intros a Ha; first [exact Ha | right; exact Ha].
    - split; split.
      + apply (W_same es _ _ _ Hw); reflexivity.
      + eapply (link_same_gen cfg s es _ eo ws ws wo wo Hl).
        * intros q. exact (Hc q).
        * apply (pend_ok_count es); [exact Hp | reflexivity | cbn; lia | apply incl_refl].
        * intros y Hy. right. split; [exact Hy|]. intros _. reflexivity.
        * apply incl_refl.
        * intros a Ha; first [exact Ha | right; exact Ha].
        * intros cr Hcr. left. exact Hcr.
        * intros h Hh. left. exact Hh.
        * exact Hb.
      + exact Hwo.
      + eapply (link_other_gen cfg s es _ eo ws ws wo wo Hlo).
        * intros q. exact (proj1 Hlo q).
        * intros y Hy. split; [exact Hy|]. intros _. reflexivity.
        * apply incl_refl.
        * intros a Ha; first [exact Ha | right; exact Ha].
  Qed.

  Lemma link_perm_both s es es' eo ws ws' wo :
    link2 cfg s es eo ws wo -> link2 cfg (other s) eo es wo ws ->
    Permutation (items es' ws') (items es ws) ->
    e_pending es' = e_pending es -> e_count es' = e_count es -> e_issued es' = e_issued es ->
    e_sent es' = e_sent es -> e_done es' = e_done es -> e_seen es' = e_seen es ->
    e_broken es' = e_broken es ->
    link2 cfg s es' eo ws' wo /\ link2 cfg (other s) eo es' wo ws'.
  Proof.
    intros Hl Hlo P E1 E2 E3 E4 E5 E6 E7.
    pose proof Hl as (Hc & Hp & Ho & Hd & Hs & Hb). split.
    - apply (link_same_gen cfg s es es' eo ws ws' wo wo Hl).
      + intros q. rewrite (flight_perm es es' eo eo ws ws' wo wo q P (Permutation_refl _)). apply Hc.
      + apply (pend_ok_count es); [exact Hp | exact E1 | rewrite E2; lia | rewrite E3; apply incl_refl].
      + intros y Hy. right. split; [apply (Permutation_in _ P Hy)|]. intros _. rewrite E1. reflexivity.
      + rewrite E3. apply incl_refl.
      + rewrite E4. apply incl_refl.
      + intros cr Hcr. left. rewrite <- E5. exact Hcr.
      + intros h Hh. left. rewrite <- E6. exact Hh.
      + rewrite E7. exact Hb.
    - apply (link_other_gen cfg s es es' eo ws ws' wo wo Hlo).
      + intros q. rewrite (flight_perm eo eo es es' wo wo ws ws' q (Permutation_refl _) P).
        apply (proj1 Hlo).
      + intros y Hy. split; [exact Hy|]. intros _. rewrite E1. reflexivity.
      + rewrite E3. apply incl_refl.
      + rewrite E4. apply incl_refl.
  Qed.

  Lemma perm_move {A} (l1 l2 r : list A) x :
    Permutation ((l1 ++ l2) ++ x :: r) ((l1 ++ x :: l2) ++ r).
  Proof.
    rewrite <- !app_assoc. apply Permutation_app_head. cbn.
    symmetry. apply Permutation_middle.
  Qed.

  Lemma queue_with_queue_other' st s q : queue (with_queue st (other s) q) s = queue st s.
  Proof. destruct s; reflexivity. Qed.

  Lemma flight_pop_o es eo ws wo' x q :
    cnt (flight2 es eo ws (x :: wo')) q = (cnt (kreply x) q + cnt (flight2 es eo ws wo') q)%nat.
  Proof. unfold flight2. rewrite !cnt_app, cnt_items_cons. lia. Qed.
  Lemma flight_pop_s es eo ws' wo x q :
    cnt (flight2 es eo (x :: ws') wo) q = (cnt (kcall x) q + cnt (flight2 es eo ws' wo) q)%nat.
  Proof. unfold flight2. rewrite !cnt_app, cnt_items_cons. lia. Qed.

  Lemma concat_nonempty (rest : list bytes) :
    rest <> [] -> forallb nonempty rest = true -> concat rest <> [].
  Proof.
    destruct rest as [|c r]; [congruence|]. intros _ H. cbn in H.
    apply andb_true_iff in H as [H _]. destruct c; [discriminate|]. cbn. discriminate.
  Qed.

  Lemma unpack_head x t : Wire.wf_frame cfg x ->
    raw_unpack (cf_reg cfg) (cf_lim cfg) (fr_bytes x ++ t)
    = Ok (fr_msg x, fr_ids x, blen (fr_bytes x), t).
  Proof.
    intros (p & Hp & H1 & H2 & H3 & H4 & H5 & H6 & Hk & Hl).
    apply (raw_roundtrip_lemma (cf_reg cfg) (cf_lim cfg) (fr_ids x) p (fr_msg x) (fr_bytes x) t Hinv Hp);
      [unfold wf_msg; repeat split; assumption | exact Hk | exact Hl].
  Qed.

  Lemma pres_recvW st st' s :
    InvW cfg W st -> step cfg st (ERecv s) = Some st' -> InvW cfg W st'.
  Proof.
    intros HI Hstep. open_inv st s HI ws wo Hw Hl Hwo Hlo.
    cbn [step] in Hstep.
    set (es := ep_of st s) in *. set (eo := ep_of st (other s)) in *.
    pose proof Hl as (Hc & Hp & Ho & Hd & Hs & Hb). rewrite Hb in Hstep.
    destruct wo as [|x wo'].
    { destruct (W_empty _ _ Hwo) as [A B]. rewrite B in Hstep.
      destruct (raw_unpack (cf_reg cfg) (cf_lim cfg) (queue st (other s))) as [r| |] eqn:E;
        try discriminate. exfalso. apply (A r). reflexivity. }
    destruct (W_pop _ _ _ _ Hwo) as (Wx & t & Eq & Hwo').
    rewrite Eq, (unpack_head x t Wx) in Hstep.
    match type of Hstep with context [if ?b then None else _] => destruct b; [discriminate|] end.
    inversion Hstep; subst st'; clear Hstep.
    close_inv s ws wo'; fold es eo. rewrite queue_with_queue_other'.
    assert (Hxin : In x (items eo (x :: wo'))).
    { unfold items. rewrite !in_app_iff. right. right. left. reflexivity. }
    pose proof (proj1 (proj2 (proj2 Hlo)) x Hxin) as Hox.
    pose proof Hlo as (Hc' & Hp' & Ho' & Hd' & Hs' & Hb').
    assert (Hsub : forall y, In y (items eo wo') -> In y (items eo (x :: wo')))
      by (intros y; apply items_cons_in).
    destruct (out_ok_mtype cfg _ _ _ _ Hox) as [M|[M|M]].
    - (* CALL *)
      destruct (out_ok_call cfg _ _ _ _ Hox M) as (c & Hpc & Hm & Hic).
      unfold dispatch. rewrite M, (beqb_refl x01).
      set (out := cf_handler cfg s (m_method (fr_msg x)) (m_body (fr_msg x)) (m_meta (fr_msg x))).
      set (rm := reply_msg (m_seq (fr_msg x)) (m_codec (fr_msg x)) out).
      assert (Hseen : seen_ok eo (mkHin false (m_method (fr_msg x)) (m_body (fr_msg x)) (m_meta (fr_msg x)))).
      { unfold seen_ok. cbn [h_push]. exists c. split; [exact Hic|]. rewrite Hm. reflexivity. }
      destruct (pack_item cfg (fr_ids x) rm) as [y|] eqn:Epack.
      + destruct (pack_item_spec _ _ _ _ Epack) as [Hy _].
        assert (My : m_mtype (fr_msg y) = x02) by (rewrite Hy; apply reply_msg_mtype).
        assert (Sy : m_seq (fr_msg y) = m_seq (fr_msg x)) by (rewrite Hy; apply reply_msg_seq).
        split; split.
        * apply (W_same es _ _ _ Hw); reflexivity.
        * eapply (link_same_gen cfg s es _ eo ws ws (x :: wo') wo' Hl).
          -- intros q. rewrite (flight_cons_s es _ eo ws ws wo' y q) by reflexivity.
             rewrite kcall_not by (rewrite My; discriminate). cbn.
             specialize (Hc q). rewrite flight_pop_o in Hc. lia.
          -- exact Hp.
          -- intros z [<-|Hz].
             ++ left. right. left. split; [exact My|]. exists c. cbn [e_pending].
                rewrite Sy. split; [exact Hpc|]. rewrite Hy. unfold rm, out. rewrite Hm. reflexivity.
             ++ right. split; [exact Hz|]. intros _. reflexivity.
          -- apply incl_refl.
          -- apply incl_refl.
          -- intros cr Hcr. left. exact Hcr.
          -- intros h [<-|Hh]; [right; exact Hseen | left; exact Hh].
          -- exact Hb.
        * exact Hwo'.
        * eapply (link_other_gen cfg s es _ eo ws ws (x :: wo') wo' Hlo).
          -- intros q. rewrite (flight_cons_o eo es _ wo' ws ws y q) by reflexivity.
             specialize (Hc' q). rewrite flight_pop_s in Hc'.
             rewrite (kreply_of _ My), Sy. rewrite (kcall_of _ M) in Hc'. exact Hc'.
          -- intros z Hz. split; [apply Hsub; exact Hz|]. intros _. reflexivity.
          -- apply incl_refl.
          -- apply incl_refl.
      + split; split.
        * apply (W_same es _ _ _ Hw); reflexivity.
        * eapply (link_same_gen cfg s es _ eo ws ws (x :: wo') wo' Hl).
          -- intros q. specialize (Hc q). rewrite flight_pop_o in Hc.
             change (cnt (flight2 es eo ws wo') q <= 1)%nat. lia.
          -- exact Hp.
          -- intros z Hz. right. split; [exact Hz|]. intros _. reflexivity.
          -- apply incl_refl.
          -- apply incl_refl.
          -- intros cr Hcr. left. exact Hcr.
          -- intros h [<-|Hh]; [right; exact Hseen | left; exact Hh].
          -- exact Hb.
        * exact Hwo'.
        * eapply (link_other_gen cfg s es _ eo ws ws (x :: wo') wo' Hlo).
          -- intros q. specialize (Hc' q). rewrite flight_pop_s in Hc'.
             change (cnt (flight2 eo es wo' ws) q <= 1)%nat. lia.
          -- intros z Hz. split; [apply Hsub; exact Hz|]. intros _. reflexivity.
          -- apply incl_refl.
          -- apply incl_refl.
    - (* REPLY *)
      destruct (out_ok_reply cfg _ _ _ _ Hox M) as (c & Hpc & Hm).
      unfold dispatch. rewrite M.
      replace (beqb x02 x01) with false by reflexivity. rewrite (beqb_refl x02).
      fold es. rewrite Hpc.
      destruct (Hp _ _ Hpc) as (A1 & A2 & A3 & A4 & A5).
      assert (Hne_s : forall z, In z (items es ws) -> m_mtype (fr_msg z) = x01 ->
                                m_seq (fr_msg z) <> m_seq (fr_msg x)).
      { intros z Hz Mz E. specialize (Hc (m_seq (fr_msg x))). rewrite flight_pop_o in Hc.
        rewrite (kreply_of _ M), cnt_one in Hc.
        pose proof (flight_in_s es eo ws wo' z Hz Mz) as H. rewrite E in H. lia. }
      assert (Hne_o : forall z, In z (items eo wo') -> m_mtype (fr_msg z) = x02 ->
                                m_seq (fr_msg z) <> m_seq (fr_msg x)).
      { intros z Hz Mz E. specialize (Hc (m_seq (fr_msg x))). rewrite flight_pop_o in Hc.
        rewrite (kreply_of _ M), cnt_one in Hc.
        pose proof (flight_in_o es eo ws wo' z Hz Mz) as H. rewrite E in H. lia. }
      split; split.
      + apply (W_same es _ _ _ Hw); reflexivity.
      + eapply (link_same_gen cfg s es _ eo ws ws (x :: wo') wo' Hl).
        * intros q. specialize (Hc q). rewrite flight_pop_o in Hc.
          change (cnt (flight2 es eo ws wo') q <= 1)%nat. lia.
        * intros q c0 H. cbn [e_pending e_count e_issued] in *.
          apply pget_pdel_some in H as [N H]. apply (Hp _ _ H).
        * intros z Hz. right. split; [exact Hz|]. intros Mz. cbn [e_pending].
          apply pget_pdel_other. apply Hne_s; assumption.
        * apply incl_refl.
        * apply incl_refl.
        * intros cr [<-|Hcr]; [right|left; exact Hcr]. split; cbn [fst snd e_issued]; [exact A5|].
          rewrite A1. unfold res_of. rewrite <- Hm. reflexivity.
        * intros h Hh. left. exact Hh.
        * exact Hb.
      + exact Hwo'.
      + eapply (link_other_gen cfg s es _ eo ws ws (x :: wo') wo' Hlo).
        * intros q. specialize (Hc' q). rewrite flight_pop_s in Hc'.
          change (cnt (flight2 eo es wo' ws) q <= 1)%nat. lia.
        * intros z Hz. split; [apply Hsub; exact Hz|]. intros Mz. cbn [e_pending].
          apply pget_pdel_other. apply Hne_o; assumption.
        * apply incl_refl.
        * apply incl_refl.
    - (* PUSH *)
      pose proof (out_ok_push cfg _ _ _ _ Hox M) as Hsent.
      unfold dispatch. rewrite M.
      replace (beqb x03 x01) with false by reflexivity.
      replace (beqb x03 x02) with false by reflexivity. rewrite (beqb_refl x03).
      split; split.
      + apply (W_same es _ _ _ Hw); reflexivity.
      + eapply (link_same_gen cfg s es _ eo ws ws (x :: wo') wo' Hl).
        * intros q. specialize (Hc q). rewrite flight_pop_o in Hc.
          change (cnt (flight2 es eo ws wo') q <= 1)%nat. lia.
        * exact Hp.
        * intros z Hz. right. split; [exact Hz|]. intros _. reflexivity.
        * apply incl_refl.
        * apply incl_refl.
        * intros cr Hcr. left. exact Hcr.
        * intros h [<-|Hh]; [right; exact Hsent | left; exact Hh].
        * exact Hb.
      + exact Hwo'.
      + eapply (link_other_gen cfg s es _ eo ws ws (x :: wo') wo' Hlo).
        * intros q. specialize (Hc' q). rewrite flight_pop_s in Hc'.
          change (cnt (flight2 eo es wo' ws) q <= 1)%nat. lia.
        * intros z Hz. split; [apply Hsub; exact Hz|]. intros _. reflexivity.
        * apply incl_refl.
        * apply incl_refl.
  Qed.
End Generic.

Section Preserve.
  Variable cfg : config.
  Hypothesis Hlock : cf_lock cfg = true.
  Hypothesis Hinv : forall g, In g (cf_reg cfg) -> inverts g.

  Ltac open_inv st s HI ws wo Hw Hl Hwo Hlo :=
    destruct (Inv_at cfg st s HI) as (ws & wo & ((Hw & Hl) & (Hwo & Hlo))).

  Ltac close_inv s ws wo :=
    apply (at_Inv cfg _ s ws wo); unfold inv_at, inv_atW;
    rewrite ?other_other, ?ep_with_ep_same, ?ep_with_ep_other, ?ep_with_queue,
            ?queue_with_ep, ?queue_with_queue_same, ?queue_with_queue_other.

  Lemma wire_pop e q x wl : wire_inv cfg e q (x :: wl) ->
    Wire.wf_frame cfg x /\ exists t, q = fr_bytes x ++ t /\ wire_inv cfg e t wl.
  Proof.
    intros (Wf & Wl & Wn & Wm). inversion Wf as [|? ? Wx Wf']; subst. split; [exact Wx|].
    unfold wire_inv. destruct (e_writers e) as [|[[y wr] rest] [|? ?]]; [| |destruct Wm].
    - exists (concat (map fr_bytes wl)). cbn [map concat] in Wm. split; [exact Wm|].
      exact (conj Wf' (conj Wl (conj Wn eq_refl))).
    - destruct Wm as (Wq & Wr). cbn [map concat] in Wq. rewrite <- app_assoc in Wq.
      exists (concat (map fr_bytes wl) ++ wr). split; [exact Wq|].
      exact (conj Wf' (conj Wl (conj Wn (conj eq_refl Wr)))).
  Qed.

  Lemma wire_empty_waits e q : wire_inv cfg e q [] ->
    (forall r, raw_unpack (cf_reg cfg) (cf_lim cfg) q <> Ok r) /\ frame_complete (cf_lim cfg) q = false.
  Proof.
    intros (Wf & Wl & Wn & Wm).
    destruct (e_writers e) as [|[[y wr] rest] [|? ?]]; [| |destruct Wm].
    - cbn in Wm. subst q. apply empty_queue_waits.
    - destruct Wm as (Wq & Wr & Wne & Wall & Wx). cbn in Wq. subst q.
      apply (strict_prefix_waits cfg y wr (concat rest) Wx Wr). apply concat_nonempty; assumption.
  Qed.

  Lemma pres_call st st' s method args meta codec ids :
    sane cfg st -> Inv cfg st ->
    step cfg st (ECall s method args meta codec ids) = Some st' -> Inv cfg st'.
  Proof. exact (pres_callW cfg (wire_inv cfg) (wire_same cfg) st st' s method args meta codec ids). Qed.

  Lemma pres_push st st' s method args meta codec ids :
    Inv cfg st -> step cfg st (EPush s method args meta codec ids) = Some st' -> Inv cfg st'.
  Proof. exact (pres_pushW cfg (wire_inv cfg) (wire_same cfg) st st' s method args meta codec ids). Qed.

  Lemma pres_recv st st' s :
    Inv cfg st -> step cfg st (ERecv s) = Some st' -> Inv cfg st'.
  Proof.
    exact (pres_recvW cfg Hinv (wire_inv cfg) (wire_same cfg) wire_pop wire_empty_waits st st' s).
  Qed.

  Lemma pres_lock st st' s i chunks :
    sane cfg st -> Inv cfg st -> step cfg st (ELock s i chunks) = Some st' -> Inv cfg st'.
  Proof.
    intros Hsane HI Hstep. open_inv st s HI ws wo Hw Hl Hwo Hlo.
    cbn [step] in Hstep. rewrite Hlock in Hstep. cbn [andb] in Hstep.
    set (es := ep_of st s) in *. set (eo := ep_of st (other s)) in *.
    destruct (e_lock es) eqn:Elock; [discriminate|].
    destruct (take_nth i (e_outbox es)) as [[x rest]|] eqn:Et; [|discriminate].
    destruct (nonempty (concat chunks) && forallb nonempty chunks
              && bytes_eqb (concat chunks) (fr_bytes x)) eqn:Echk; [|discriminate].
    apply andb_true_iff in Echk as [Echk E3]. apply andb_true_iff in Echk as [E1 E2].
    apply bytes_eqb_eq in E3.
    destruct (take_nth_spec _ _ _ _ Et) as (l1 & l2 & Eo & Er).
    inversion Hstep; subst st'; clear Hstep; close_inv s ws wo; fold es eo.
    destruct Hw as (Wf & Wl & Wn & Wm). destruct (Wl Elock) as [Ww Wu].
    assert (Hwf : Wire.wf_frame cfg x).
    { pose proof (proj2 Hsane s) as F. fold es in F. rewrite Eo in F.
      apply Forall_app in F as [_ F]. inversion F; assumption. }
    assert (P : Permutation
       (items (mkEp (e_count es) (e_pending es) rest true ((x, [], chunks) :: e_writers es)
                    (e_unlocking es) (e_done es) (e_seen es) (e_issued es) (e_sent es) (e_broken es)) ws)
       (items es ws)).
    { unfold items. cbn [e_outbox e_writers map wfr fst]. rewrite Eo, Er.
      rewrite (app_assoc (l1 ++ x :: l2)). rewrite (app_assoc (l1 ++ l2)). apply Permutation_app_tail.
      apply (perm_move l1 l2 (map wfr (e_writers es)) x). }
    destruct (link_perm_both cfg s es _ eo ws ws wo Hl Hlo P) as [L1 L2]; try reflexivity.
    split; split; [|exact L1|exact Hwo|exact L2].
    unfold wire_inv. cbn [e_lock e_writers e_unlocking]. rewrite Ww in *. rewrite Wu.
    refine (conj Wf (conj _ (conj _ _))).
    - discriminate.
    - cbn. lia.
    - rewrite Wm, app_nil_r. repeat split; try assumption.
      intros ->. cbn in E1. discriminate.
  Qed.

  (* what the returning caller's status assignment needs: its call is still in the table *)
  Definition unlocking_pending (e : ep) : Prop :=
    forall c, In (Some c) (e_unlocking e) -> pget (e_pending e) (c_seq c) = Some c.

  Lemma unlock_done_same e k oc rest :
    unlocking_pending e -> once_inv e -> take_nth k (e_unlocking e) = Some (oc, rest) ->
    match oc with Some c => overwrite c (e_done e) | None => e_done e end = e_done e.
  Proof.
    intros HU Honce Et. destruct oc as [c|]; [|reflexivity].
    apply overwrite_pending; [exact Honce|]. apply HU.
    destruct (take_nth_spec _ _ _ _ Et) as (l1 & l2 & -> & _). apply in_app_iff. right. left. reflexivity.
  Qed.

  Lemma pres_unlock st st' s k :
    Inv cfg st -> unlocking_pending (ep_of st s) -> once_inv (ep_of st s) ->
    step cfg st (EUnlock s k) = Some st' -> Inv cfg st'.
  Proof.
    intros HI HU Honce Hstep. open_inv st s HI ws wo Hw Hl Hwo Hlo.
    cbn [step] in Hstep.
    set (es := ep_of st s) in *. set (eo := ep_of st (other s)) in *.
    destruct (take_nth k (e_unlocking es)) as [[oc rest]|] eqn:Et; [|discriminate].
    rewrite (unlock_done_same es k oc rest HU Honce Et) in Hstep.
    destruct (take_nth_spec _ _ _ _ Et) as (l1 & l2 & Eo & Er).
    inversion Hstep; subst st'; clear Hstep; close_inv s ws wo; fold es eo.
    destruct Hw as (Wf & Wl & Wn & Wm).
    assert (Ww : e_writers es = []).
    { destruct (e_writers es); [reflexivity|]. rewrite Eo, app_length in Wn. cbn in Wn. lia. }
    assert (Hr : rest = []).
    { rewrite Eo, Ww, app_length in Wn. cbn in Wn. destruct l1; destruct l2; cbn in *; try lia. subst rest. reflexivity. }
    destruct (link_perm_both cfg s es
      (mkEp (e_count es) (e_pending es) (e_outbox es) false (e_writers es) rest (e_done es)
            (e_seen es) (e_issued es) (e_sent es) (e_broken es)) eo ws ws wo Hl Hlo
      (Permutation_refl _)) as [L1 L2]; try reflexivity.
    split; split; [|exact L1|exact Hwo|exact L2].
    unfold wire_inv. cbn [e_lock e_writers e_unlocking]. rewrite Ww in *. rewrite Hr.
    refine (conj Wf (conj _ (conj _ Wm))); [auto | cbn; lia].
  Qed.

  Lemma pres_write st st' s j :
    Inv cfg st -> step cfg st (EWrite s j) = Some st' -> Inv cfg st'.
  Proof.
    intros HI Hstep. open_inv st s HI ws wo Hw Hl Hwo Hlo.
    cbn [step] in Hstep.
    set (es := ep_of st s) in *. set (eo := ep_of st (other s)) in *.
    destruct (take_nth j (e_writers es)) as [[[[x wr] [|c rest]] others]|] eqn:Et; try discriminate.
    destruct (take_nth_spec _ _ _ _ Et) as (l1 & l2 & Eo & Er).
    destruct Hw as (Wf & Wl & Wn & Wm).
    assert (l1 = [] /\ l2 = [] /\ e_unlocking es = []) as (-> & -> & Wu).
    { rewrite Eo in Wn. rewrite app_length in Wn. cbn in Wn.
      destruct l1; destruct l2; destruct (e_unlocking es); cbn in Wn; repeat split; try lia; reflexivity. }
    cbn [app] in Eo, Er. subst others. rewrite Eo in Wm.
    destruct Wm as (Wq & Wf1 & Wne & Wall & Wx).
    assert (Elk : e_lock es = true).
    { destruct (e_lock es) eqn:E; [reflexivity|]. destruct (Wl eq_refl) as [A _]. congruence. }
    destruct rest as [|c2 r2]; inversion Hstep; subst st'; clear Hstep.
    - (* last chunk: the frame is whole on the wire *)
      close_inv s (ws ++ [x]) wo; fold es eo.
      assert (P : Permutation
        (items (mkEp (e_count es) (e_pending es) (e_outbox es) (e_lock es) [] (caller_of es x :: e_unlocking es)
                     (e_done es) (e_seen es) (e_issued es) (e_sent es) (e_broken es)) (ws ++ [x]))
        (items es ws)).
      { unfold items. cbn [e_outbox e_writers map]. rewrite Eo. cbn [map wfr fst app].
        apply Permutation_app_head. symmetry. apply Permutation_cons_append. }
      destruct (link_perm_both cfg s es _ eo ws (ws ++ [x]) wo Hl Hlo P) as [L1 L2]; try reflexivity.
      split; split; [|exact L1|exact Hwo|exact L2].
      unfold wire_inv. cbn [e_lock e_writers e_unlocking].
      refine (conj _ (conj _ (conj _ _))).
      + apply Forall_app. split; [exact Wf | constructor; [exact Wx | constructor]].
      + rewrite Elk. discriminate.
      + rewrite Wu. cbn. lia.
      + rewrite map_app, concat_app. cbn [map concat]. rewrite app_nil_r.
        rewrite <- Wf1. cbn [concat]. rewrite app_nil_r. rewrite Wq, app_assoc. reflexivity.
    - close_inv s ws wo; fold es eo.
      assert (P : Permutation
        (items (mkEp (e_count es) (e_pending es) (e_outbox es) (e_lock es)
                     [(x, wr ++ c, c2 :: r2)] (e_unlocking es)
                     (e_done es) (e_seen es) (e_issued es) (e_sent es) (e_broken es)) ws)
        (items es ws)).
      { unfold items. cbn [e_outbox e_writers map]. rewrite Eo. apply Permutation_refl. }
      destruct (link_perm_both cfg s es _ eo ws ws wo Hl Hlo P) as [L1 L2]; try reflexivity.
      split; split; [|exact L1|exact Hwo|exact L2].
      unfold wire_inv. cbn [e_lock e_writers e_unlocking].
      refine (conj Wf (conj _ (conj _ _))).
      + rewrite Elk. discriminate.
      + rewrite Wu. cbn. lia.
      + cbn [forallb] in Wall. apply andb_true_iff in Wall as [_ Wall].
        repeat split; try assumption.
        * rewrite Wq, app_assoc. reflexivity.
        * rewrite <- Wf1. cbn [concat]. rewrite <- !app_assoc. reflexivity.
        * discriminate.
  Qed.

End Preserve.

(* ================================================================ without the lock, but
   with every frame handed to the connection in ONE Write *)
Section Single.
  Variable cfg : config.
  Hypothesis Hnolock : cf_lock cfg = false.
  Hypothesis Hinv : forall g, In g (cf_reg cfg) -> inverts g.

  (* the queue holds whole frames only; every goroutine inside WriteMessage still has its
     whole frame to write, as one chunk *)
  Definition wire1 (e : ep) (q : bytes) (wl : list frame_rec) : Prop :=
    Forall (Wire.wf_frame cfg) wl /\ q = concat (map fr_bytes wl) /\
    Forall (fun y : writer => snd (fst y) = [] /\ snd y = [fr_bytes (fst (fst y))] /\
                              Wire.wf_frame cfg (fst (fst y))) (e_writers e).

  Lemma wire1_same e e' q wl :
    wire1 e q wl -> e_lock e' = e_lock e -> e_writers e' = e_writers e ->
    e_unlocking e' = e_unlocking e -> wire1 e' q wl.
  Proof. unfold wire1. intros H _ -> _. exact H. Qed.

  Lemma wire1_pop e q x wl : wire1 e q (x :: wl) ->
    Wire.wf_frame cfg x /\ exists t, q = fr_bytes x ++ t /\ wire1 e t wl.
  Proof.
    intros (Wf & Wq & Ww). inversion Wf as [|? ? Wx Wf']; subst. split; [exact Wx|].
    exists (concat (map fr_bytes wl)). split; [reflexivity|]. exact (conj Wf' (conj eq_refl Ww)).
  Qed.

  Lemma wire1_empty e q : wire1 e q [] ->
    (forall r, raw_unpack (cf_reg cfg) (cf_lim cfg) q <> Ok r) /\ frame_complete (cf_lim cfg) q = false.
  Proof. intros (_ & -> & _). apply empty_queue_waits. Qed.

  Definition Inv1 := InvW cfg wire1.

  Ltac open_inv st s HI ws wo Hw Hl Hwo Hlo :=
    destruct (InvW_at cfg wire1 st s HI) as (ws & wo & ((Hw & Hl) & (Hwo & Hlo))).

  Ltac close_inv s ws wo :=
    apply (at_InvW cfg wire1 _ s ws wo); unfold inv_atW;
    rewrite ?other_other, ?ep_with_ep_same, ?ep_with_ep_other, ?ep_with_queue,
            ?queue_with_ep, ?queue_with_queue_same, ?queue_with_queue_other.

  Lemma pres1_lock st st' s i chunks :
    length chunks = 1%nat ->
    sane cfg st -> Inv1 st -> step cfg st (ELock s i chunks) = Some st' -> Inv1 st'.
  Proof.
    intros Hone Hsane HI Hstep. open_inv st s HI ws wo Hw Hl Hwo Hlo.
    cbn [step] in Hstep. rewrite Hnolock in Hstep. cbn [andb] in Hstep.
    set (es := ep_of st s) in *. set (eo := ep_of st (other s)) in *.
    destruct (take_nth i (e_outbox es)) as [[x rest]|] eqn:Et; [|discriminate].
    destruct (nonempty (concat chunks) && forallb nonempty chunks
              && bytes_eqb (concat chunks) (fr_bytes x)) eqn:Echk; [|discriminate].
    apply andb_true_iff in Echk as [_ E3]. apply bytes_eqb_eq in E3.
    destruct chunks as [|c [|? ?]]; try discriminate. cbn in E3. rewrite app_nil_r in E3. subst c.
    destruct (take_nth_spec _ _ _ _ Et) as (l1 & l2 & Eo & Er).
    inversion Hstep; subst st'; clear Hstep; close_inv s ws wo; fold es eo.
    destruct Hw as (Wf & Wq & Ww).
    assert (Hwf : Wire.wf_frame cfg x).
    { pose proof (proj2 Hsane s) as F. fold es in F. rewrite Eo in F.
      apply Forall_app in F as [_ F]. inversion F; assumption. }
    assert (P : Permutation
       (items (mkEp (e_count es) (e_pending es) rest false ((x, [], [fr_bytes x]) :: e_writers es)
                    (e_unlocking es) (e_done es) (e_seen es) (e_issued es) (e_sent es) (e_broken es)) ws)
       (items es ws)).
    { unfold items. cbn [e_outbox e_writers map wfr fst]. rewrite Eo, Er.
      rewrite (app_assoc (l1 ++ x :: l2)). rewrite (app_assoc (l1 ++ l2)). apply Permutation_app_tail.
      apply (perm_move l1 l2 (map wfr (e_writers es)) x). }
    destruct (link_perm_both cfg s es _ eo ws ws wo Hl Hlo P) as [L1 L2]; try reflexivity.
    split; split; [|exact L1|exact Hwo|exact L2].
    refine (conj Wf (conj Wq _)). cbn [e_writers]. constructor; [|exact Ww].
    cbn. auto.
  Qed.

  Lemma pres1_write st st' s j :
    Inv1 st -> step cfg st (EWrite s j) = Some st' -> Inv1 st'.
  Proof.
    intros HI Hstep. open_inv st s HI ws wo Hw Hl Hwo Hlo.
    cbn [step] in Hstep.
    set (es := ep_of st s) in *. set (eo := ep_of st (other s)) in *.
    destruct (take_nth j (e_writers es)) as [[[[x wr] [|c rest]] others]|] eqn:Et; try discriminate.
    destruct (take_nth_spec _ _ _ _ Et) as (l1 & l2 & Eo & Er).
    destruct Hw as (Wf & Wq & Ww).
    pose proof Ww as Ww0. rewrite Eo in Ww0. apply Forall_app in Ww0 as [W1 W2].
    inversion W2 as [|? ? Wy W2']; subst. cbn [fst snd] in Wy. destruct Wy as (Ewr & Ech & Wx).
    inversion Ech; subst. clear Ech.
    inversion Hstep; subst st'; clear Hstep.
    close_inv s (ws ++ [x]) wo; fold es eo.
    assert (P : Permutation
      (items (mkEp (e_count es) (e_pending es) (e_outbox es) (e_lock es) (l1 ++ l2) (caller_of es x :: e_unlocking es)
                   (e_done es) (e_seen es) (e_issued es) (e_sent es) (e_broken es)) (ws ++ [x]))
      (items es ws)).
    { unfold items. cbn [e_outbox e_writers]. rewrite Eo. rewrite !map_app. cbn [map wfr fst].
      apply Permutation_app_head. rewrite <- !app_assoc. apply Permutation_app_head.
      cbn [app]. rewrite app_assoc. symmetry. apply Permutation_cons_append. }
    destruct (link_perm_both cfg s es _ eo ws (ws ++ [x]) wo Hl Hlo P) as [L1 L2]; try reflexivity.
    split; split; [|exact L1|exact Hwo|exact L2].
    refine (conj _ (conj _ _)).
    - apply Forall_app. split; [exact Wf | constructor; [exact Wx | constructor]].
    - rewrite map_app, concat_app. cbn [map concat]. rewrite app_nil_r, Wq. reflexivity.
    - cbn [e_writers]. apply Forall_app. split; assumption.
  Qed.

  Lemma pres1_unlock st st' s k :
    Inv1 st -> unlocking_pending (ep_of st s) -> once_inv (ep_of st s) ->
    step cfg st (EUnlock s k) = Some st' -> Inv1 st'.
  Proof.
    intros HI HU Honce Hstep. open_inv st s HI ws wo Hw Hl Hwo Hlo.
    cbn [step] in Hstep.
    set (es := ep_of st s) in *. set (eo := ep_of st (other s)) in *.
    destruct (take_nth k (e_unlocking es)) as [[oc rest]|] eqn:Et; [|discriminate].
    rewrite (unlock_done_same es k oc rest HU Honce Et) in Hstep.
    inversion Hstep; subst st'; clear Hstep; close_inv s ws wo; fold es eo.
    destruct (link_perm_both cfg s es
      (mkEp (e_count es) (e_pending es) (e_outbox es) false (e_writers es) rest (e_done es)
            (e_seen es) (e_issued es) (e_sent es) (e_broken es)) eo ws ws wo Hl Hlo
      (Permutation_refl _)) as [L1 L2]; try reflexivity.
    split; split; [|exact L1|exact Hwo|exact L2].
    exact Hw.
  Qed.

  Lemma pres1_step st ev st' :
    single_write ev -> sane cfg st -> Inv1 st ->
    (forall s, unlocking_pending (ep_of st s)) -> (forall s, once_inv (ep_of st s)) ->
    step cfg st ev = Some st' -> Inv1 st'.
  Proof.
    intros Hs Hsane HI HU Honce Hstep. destruct ev.
    - exact (pres_callW cfg wire1 wire1_same st st' s method args meta codec ids Hsane HI Hstep).
    - exact (pres_pushW cfg wire1 wire1_same st st' s method args meta codec ids HI Hstep).
    - exact (pres1_lock st st' s i chunks Hs Hsane HI Hstep).
    - exact (pres1_write st st' s j HI Hstep).
    - exact (pres1_unlock st st' s k HI (HU s) (Honce s) Hstep).
    - exact (pres_recvW cfg Hinv wire1 wire1_same wire1_pop wire1_empty st st' s HI Hstep).
  Qed.
End Single.

(* ================================================================ the call's own mutex:
   while a caller is between its last Write and its return from AsyncCall, its call stays in
   the table (a reply for it waits in bindReply) *)
Section CallMutex.
  Variable cfg : config.
  Hypothesis Hcallmu : cf_callmu cfg = true.

  Lemma in_unlocking_same e e' :
    unlocking_pending e -> e_unlocking e' = e_unlocking e -> e_pending e' = e_pending e ->
    unlocking_pending e'.
  Proof. unfold unlocking_pending. intros H -> ->. exact H. Qed.

  Lemma presU st ev st' :
    sane cfg st -> (forall s, pend_ok (ep_of st s)) ->
    (forall s, unlocking_pending (ep_of st s)) ->
    step cfg st ev = Some st' -> forall s, unlocking_pending (ep_of st' s).
  Proof.
    intros Hsane Hp HU Hstep t.
    assert (K : forall (st0 : state) s0 e', (forall s, unlocking_pending (ep_of st0 s)) ->
                unlocking_pending e' -> unlocking_pending (ep_of (with_ep st0 s0 e') t)).
    { intros st0 s0 e' H0 He. destruct (side_cases s0 t) as [->| ->].
      - rewrite ep_with_ep_same. exact He.
      - rewrite ep_with_ep_other. apply H0. }
    assert (Q : forall s0 q s, unlocking_pending (ep_of (with_queue st s0 q) s))
      by (intros; rewrite ep_with_queue; apply HU).
    destruct ev as [s method args meta codec ids|s method args meta codec ids|s i chunks|s j|s k|s];
      cbn [step] in Hstep.
    - (* ECall: the new number is not the key of a call whose caller is still inside *)
      assert (Hne : forall c0, In (Some c0) (e_unlocking (ep_of st s)) ->
                c_seq c0 <> seq_of_count (e_count (ep_of st s) + 1)).
      { intros c0 Hin. pose proof (HU s c0 Hin) as G.
        destruct (Hp s _ _ G) as (_ & A2 & A3 & A4 & _).
        pose proof (proj1 Hsane s _ _ G) as W. rewrite A2.
        apply seq_of_count_window; lia. }
      destruct (pack_item cfg ids _); inversion Hstep; subst st'; apply K; auto;
        intros c0 Hin; cbn [e_pending e_unlocking c_seq] in *.
      + rewrite pget_pset_other by (apply Hne; exact Hin). apply (HU s). exact Hin.
      + rewrite pget_pdel_other by (apply Hne; exact Hin). apply (HU s). exact Hin.
    - destruct (pack_item cfg ids _); inversion Hstep; subst st'; apply K; auto;
        (eapply in_unlocking_same; [apply (HU s) | reflexivity | reflexivity]).
    - destruct (cf_lock cfg && e_lock (ep_of st s)); [discriminate|].
      destruct (take_nth i (e_outbox (ep_of st s))) as [[x rest]|]; [|discriminate].
      destruct (_ && _); inversion Hstep; subst st'; apply K; auto.
      eapply in_unlocking_same; [apply (HU s) | reflexivity | reflexivity].
    - destruct (take_nth j (e_writers (ep_of st s))) as [[[[x wr] [|c rest]] others]|]; try discriminate.
      destruct rest; inversion Hstep; subst st'; apply K; auto.
      + intros c0 [Heq|Hin]; cbn [e_pending e_unlocking] in *; [|apply (HU s); exact Hin].
        unfold caller_of in Heq. destruct (beqb _ x01); [|discriminate].
        destruct (Hp s _ _ Heq) as (A1 & _). rewrite A1. exact Heq.
      + eapply in_unlocking_same; [apply (HU s) | reflexivity | reflexivity].
    - destruct (take_nth k (e_unlocking (ep_of st s))) as [[oc rest]|] eqn:Et; [|discriminate].
      destruct (take_nth_spec _ _ _ _ Et) as (l1 & l2 & Eo & Er).
      inversion Hstep; subst st'; apply K; auto.
      intros c0 Hin. cbn [e_pending e_unlocking] in *. apply (HU s). rewrite Eo. subst rest.
      apply in_app_iff in Hin as [Hin|Hin]; apply in_app_iff; [left | right; right]; exact Hin.
    - destruct (e_broken (ep_of st s)); [discriminate|].
      destruct (raw_unpack _ _ _) as [[[[m ids] sz] rest]| |].
      + destruct (cf_callmu cfg && beqb (m_mtype m) x02 && caller_inside (ep_of st s) (m_seq m)) eqn:Eb;
          [discriminate|].
        inversion Hstep; subst st'. apply K; [apply Q|].
        unfold dispatch. destruct (beqb (m_mtype m) x01) eqn:E1.
        { eapply in_unlocking_same; [apply (HU s) | reflexivity | reflexivity]. }
        destruct (beqb (m_mtype m) x02) eqn:E2.
        { destruct (pget (e_pending (ep_of st s)) (m_seq m)) as [c'|] eqn:G; [|apply (HU s)].
          intros c0 Hin. cbn [e_pending e_unlocking] in *.
          pose proof (HU s c0 Hin) as G0.
          rewrite pget_pdel_other; [exact G0|]. intros Eq.
          rewrite Hcallmu in Eb. cbn [andb] in Eb. unfold caller_inside in Eb. rewrite G in Eb.
          rewrite Eq, G in G0. inversion G0; subst c'.
          assert (T : existsb (fun oc => match oc with Some c => N.eqb (c_no c) (c_no c0) | None => false end)
                              (e_unlocking (ep_of st s)) = true).
          { apply existsb_exists. exists (Some c0). split; [exact Hin | apply N.eqb_refl]. }
          rewrite T in Eb. discriminate. }
        destruct (beqb (m_mtype m) x03);
          (eapply in_unlocking_same; [apply (HU s) | reflexivity | reflexivity]).
      + destruct (frame_complete _ _); inversion Hstep; subst st'; apply K; auto.
        eapply in_unlocking_same; [apply (HU s) | reflexivity | reflexivity].
      + destruct (frame_complete _ _); inversion Hstep; subst st'; apply K; auto.
        eapply in_unlocking_same; [apply (HU s) | reflexivity | reflexivity].
  Qed.
End CallMutex.
