From Coq Require Import Strings.String Strings.Byte.
From Coq Require Import List Arith NArith ZArith Bool Lia.
From Verif Require Import Base.Bytes Base.Outcome Model.ReadLoop Model.SizedLoop
  Proofs.ReadLoopProofs.
Import ListNotations.
Local Open Scope N_scope.

Theorem sized_allocs_bounded lim s : Forall (fun a => a <= N.max 4 lim) (sized_allocs lim s).
Proof.
  unfold sized_allocs. destruct (ltake 4 s) as [[b4 r]|]; [|repeat constructor; lia].
  destruct (lim <? N_of_be b4) eqn:E; [repeat constructor; lia|].
  apply N.ltb_ge in E. destruct (N_of_be b4 =? 0); repeat constructor; lia.
Qed.

(* what is requested does not depend on anything behind the size field *)
Theorem sized_allocs_prefix lim b4 r1 r2 :
  length b4 = 4%nat -> sized_allocs lim (b4 ++ r1) = sized_allocs lim (b4 ++ r2).
Proof.
  intros H4. unfold sized_allocs, ltake, blen. rewrite !app_length, H4.
  assert (Hlt : forall n : nat, (N.of_nat (4 + n) <? 4) = false) by (intros n; apply N.ltb_ge; lia).
  rewrite !Hlt. change (N.to_nat 4) with 4%nat.
  rewrite <- H4, !firstn_app, !firstn_all, Nat.sub_diag. cbn [firstn]. reflexivity.
Qed.

Lemma sized_ok_consumes decode lim s c rest :
  sized_unpack_live decode lim s = LOk (c, rest) -> (length rest + 4 <= length s)%nat.
Proof.
  unfold sized_unpack_live.
  destruct (ltake 4 s) as [[b4 s1]|] eqn:E1; [|discriminate].
  apply ltake_length in E1 as [L1 _]. change (N.to_nat 4) with 4%nat in L1.
  destruct (lim <? N_of_be b4); [discriminate|].
  destruct (N_of_be b4 =? 0).
  - intros H; inversion H; subst. lia.
  - destruct (ltake (N_of_be b4) s1) as [[fr r]|] eqn:E2; [|discriminate].
    apply ltake_length in E2 as [L2 _]. intros H; inversion H; subst. lia.
Qed.

Theorem sized_reader_never_out_of_fuel decode lim : forall fuel s pre,
  (length s < fuel)%nat -> snd (sized_reader decode fuel lim s pre) <> OutOfFuel.
Proof.
  induction fuel as [|f IH]; intros s pre Hf; [lia|].
  cbn [sized_reader].
  destruct (sized_unpack_live decode lim s) as [[c rest]| | | |] eqn:E; cbn [snd]; try discriminate.
  apply sized_ok_consumes in E.
  destruct c as [mt|mt| |]; cbn [snd]; try discriminate;
    (destruct (supported mt); [apply IH; lia | cbn [snd]; discriminate]).
Qed.

(* no Ambiguous ending here: the frame is read whole before anything is sliced *)
Theorem sized_reader_endings decode lim fuel s pre :
  (length s < fuel)%nat ->
  let e := snd (sized_reader decode fuel lim s pre) in
  e = Blocked \/ e = Disconnected \/ e = Unsupported.
Proof.
  intros Hf. revert s pre Hf. induction fuel as [|f IH]; intros s pre Hf; [lia|].
  cbn [sized_reader].
  destruct (sized_unpack_live decode lim s) as [[c rest]| | | |] eqn:E; cbn [snd]; auto.
  apply sized_ok_consumes in E.
  destruct c as [mt|mt| |]; cbn [snd]; auto;
    (destruct (supported mt); [apply IH; lia | cbn [snd]; auto]).
Qed.

Theorem sized_oversize_disconnects decode lim s b4 rest :
  ltake 4 s = Some (b4, rest) -> lim < N_of_be b4 ->
  forall fuel pre, sized_reader decode (S fuel) lim s pre = (pre + 1, Disconnected).
Proof.
  intros Ht Hl fuel pre. cbn [sized_reader]. unfold sized_unpack_live. rewrite Ht.
  apply N.ltb_lt in Hl. rewrite Hl. reflexivity.
Qed.

Lemma ltake_app n x r : blen x = n -> ltake n (x ++ r) = Some (x, r).
Proof.
  intros H. unfold ltake, blen in *. rewrite app_length.
  assert (E : (N.of_nat (length x + length r) <? n) = false) by (apply N.ltb_ge; lia).
  rewrite E. assert (Hn : N.to_nat n = length x) by lia. rewrite Hn.
  rewrite firstn_app, firstn_all, Nat.sub_diag, skipn_app, skipn_all, Nat.sub_diag.
  cbn [firstn skipn]. rewrite app_nil_r. reflexivity.
Qed.

(* a complete frame within the limit is handled on its own: whatever bytes follow it (hostile
   or not) are seen only by the NEXT iteration, and whatever it decodes to - an error status,
   a panic - the bytes before it were handled without it *)
Theorem sized_frame_step decode lim b4 frame tail fuel pre :
  length b4 = 4%nat -> N_of_be b4 <= lim -> N_of_be b4 <> 0 -> blen frame = N_of_be b4 ->
  sized_reader decode (S fuel) lim (b4 ++ frame ++ tail) pre =
  match decode frame with
  | FOk mt | FErrCodec mt =>
      if supported mt then sized_reader decode fuel lim tail (pre + 1) else (pre + 1, Unsupported)
  | FErrNil | FPanic => (pre + 1, Disconnected)
  end.
Proof.
  intros H4 Hl Hz Hf. cbn [sized_reader]. unfold sized_unpack_live.
  rewrite (ltake_app 4 b4 (frame ++ tail)) by (unfold blen; lia).
  assert (E1 : (lim <? N_of_be b4) = false) by (apply N.ltb_ge; exact Hl). rewrite E1.
  assert (E2 : (N_of_be b4 =? 0) = false) by (apply N.eqb_neq; exact Hz). rewrite E2.
  rewrite (ltake_app (N_of_be b4) frame tail Hf). reflexivity.
Qed.

(* the loop consults the decoder on the frames of [sized_frames] only: two decoders that agree
   on those frames drive the loop identically *)
Theorem sized_reader_decoder_local d1 d2 lim : forall fuel s pre,
  Forall (fun fr => d1 fr = d2 fr) (sized_frames fuel lim s) ->
  sized_reader d1 fuel lim s pre = sized_reader d2 fuel lim s pre.
Proof.
  induction fuel as [|f IH]; intros s pre H; [reflexivity|].
  cbn [sized_reader sized_frames] in *. unfold sized_unpack_live.
  destruct (ltake 4 s) as [[b4 s1]|]; [|reflexivity].
  destruct (lim <? N_of_be b4); [reflexivity|].
  destruct (N_of_be b4 =? 0).
  - replace (supported "000"%byte) with false by reflexivity. reflexivity.
  - destruct (ltake (N_of_be b4) s1) as [[fr rest]|]; [|reflexivity].
    inversion H as [|x l Hx Hl]; subst. rewrite Hx.
    destruct (d2 fr) as [mt|mt| |]; try reflexivity;
      (destruct (supported mt); [apply IH; exact Hl | reflexivity]).
Qed.
