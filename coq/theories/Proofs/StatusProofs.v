From Coq Require Import Strings.String Strings.Byte.
From Coq Require Import List Arith NArith ZArith Bool Lia.
From Verif Require Import Base.Bytes Base.Outcome Model.Quote Model.Args Model.Numfmt
  Model.StatusQuery Proofs.QuoteProofs Proofs.ArgsProofs Proofs.NumfmtProofs.
Import ListNotations.
Local Open Scope N_scope.

Definition safe (c : byte) : bool :=
  negb (beqb c "&"%byte) && negb (beqb c "="%byte) && negb (beqb c "%"%byte) && negb (beqb c "+"%byte).

Lemma safe_parts c : safe c = true ->
  beqb c "&"%byte = false /\ beqb c "="%byte = false /\ beqb c "%"%byte = false /\ beqb c "+"%byte = false.
Proof.
  unfold safe. intros H. repeat (apply andb_true_iff in H as [H ?]).
  repeat match goal with Hn : negb _ = true |- _ => apply negb_true_iff in Hn end. auto.
Qed.

Lemma unquote_safe x : forallb safe x = true -> unquote x = Ok x.
Proof.
  induction x as [|c r IH]; [reflexivity|]. cbn [forallb]. intros H.
  apply andb_true_iff in H as [Hc Hr]. destruct (safe_parts c Hc) as (_ & _ & Hp & Hq).
  cbn [unquote]. rewrite Hp, Hq, IH by exact Hr. reflexivity.
Qed.

Lemma safe_noamp x : forallb safe x = true -> noamp x.
Proof.
  unfold noamp. induction x as [|c r IH]; [reflexivity|]. cbn [forallb]. intros H.
  apply andb_true_iff in H as [Hc Hr]. destruct (safe_parts c Hc) as (Ha & _).
  rewrite Ha. apply IH. exact Hr.
Qed.

Lemma safe_noeq x : forallb safe x = true -> noeq x.
Proof.
  unfold noeq. induction x as [|c r IH]; [reflexivity|]. cbn [forallb]. intros H.
  apply andb_true_iff in H as [Hc Hr]. destruct (safe_parts c Hc) as (_ & Ha & _).
  rewrite Ha. apply IH. exact Hr.
Qed.

Lemma digit_char_safe d : d < 36 -> safe (digit_char d) = true.
Proof.
  intros H. destruct (digit_char_plain d H) as (A & B & C).
  destruct (digit_char_facts d H) as (_ & _ & D). unfold safe. rewrite A, B, C, D. reflexivity.
Qed.

Lemma digits_fuel_safe f : forall n rest,
  forallb safe rest = true -> forallb safe (digits_fuel f 10 n rest) = true.
Proof.
  induction f as [|f IH]; intros n rest Hr; [exact Hr|].
  cbn [digits_fuel]. destruct (n <? 10) eqn:E.
  - apply N.ltb_lt in E. cbn [forallb]. rewrite digit_char_safe by lia. exact Hr.
  - apply IH. cbn [forallb]. rewrite digit_char_safe; [exact Hr|].
    assert (n mod 10 < 10) by (apply N.mod_lt; lia). lia.
Qed.

Lemma format_int_safe z : forallb safe (format_int 10 z) = true.
Proof.
  unfold format_int, digits. destruct (z <? 0)%Z; cbn [forallb];
    rewrite ?digits_fuel_safe by reflexivity; reflexivity.
Qed.

Lemma dec_seg_named (name v : bytes) :
  forallb safe name = true ->
  dec_seg (name ++ "="%byte :: quote v) = Ok (name, v).
Proof.
  intros Hn. unfold dec_seg. rewrite split_eq_found by (apply safe_noeq; exact Hn).
  cbn [rev app]. rewrite unquote_safe by exact Hn. cbn [rbind].
  rewrite quote_unquote. reflexivity.
Qed.

Lemma dec_seg_code z :
  dec_seg (str "code" ++ "="%byte :: format_int 10 z) = Ok (str "code", format_int 10 z).
Proof.
  unfold dec_seg. rewrite split_eq_found by (vm_compute; reflexivity).
  cbn [rev app]. rewrite unquote_safe by (vm_compute; reflexivity). cbn [rbind].
  rewrite unquote_safe by apply format_int_safe. reflexivity.
Qed.

Definition code_seg (s : status) : bytes := str "code" ++ "="%byte :: format_int 10 (st_code s).
Definition msg_seg (s : status) : bytes := str "msg" ++ "="%byte :: quote (st_msg s).
Definition cause_seg (c : bytes) : bytes := str "cause" ++ "="%byte :: quote c.

Lemma code_seg_noamp s : noamp (code_seg s).
Proof.
  unfold code_seg. apply noamp_app; [reflexivity|].
  change ("="%byte :: format_int 10 (st_code s)) with (["="%byte] ++ format_int 10 (st_code s)).
  apply noamp_app; [reflexivity | apply safe_noamp, format_int_safe].
Qed.

Lemma named_seg_noamp (name v : bytes) : noamp name -> noamp (name ++ "="%byte :: quote v).
Proof.
  intros Hn. apply noamp_app; [exact Hn|].
  change ("="%byte :: quote v) with (["="%byte] ++ quote v).
  apply noamp_app; [reflexivity | apply plain_noamp, quote_plain].
Qed.

Lemma seg_nonnil (name v : bytes) : is_nil (name ++ "="%byte :: v) = false.
Proof. destruct name; reflexivity. Qed.

Definition status_segs (s : status) : list bytes :=
  code_seg s ::
  (if is_nil (st_msg s) then [] else [msg_seg s]) ++
  (match st_cause s with None => [] | Some c => [cause_seg c] end).

Lemma str_code_eq x : str "code=" ++ x = str "code" ++ "="%byte :: x.
Proof. reflexivity. Qed.
Lemma str_msg_eq x : str "&msg=" ++ x = "&"%byte :: str "msg" ++ "="%byte :: x.
Proof. reflexivity. Qed.
Lemma str_cause_eq x : str "&cause=" ++ x = "&"%byte :: str "cause" ++ "="%byte :: x.
Proof. reflexivity. Qed.

Lemma status_encode_shape s :
  status_encode s =
  match is_nil (st_msg s), st_cause s with
  | true, None => code_seg s
  | true, Some c => code_seg s ++ "&"%byte :: cause_seg c
  | false, None => code_seg s ++ "&"%byte :: msg_seg s
  | false, Some c => code_seg s ++ "&"%byte :: (msg_seg s ++ "&"%byte :: cause_seg c)
  end.
Proof.
  unfold status_encode, code_seg, msg_seg, cause_seg.
  destruct (is_nil (st_msg s)); destruct (st_cause s) as [c|];
    rewrite ?app_nil_r, ?app_nil_l; reflexivity.
Qed.

Lemma status_encode_segments s :
  segments (status_encode s) [] = status_segs s.
Proof.
  rewrite status_encode_shape. unfold status_segs.
  destruct (is_nil (st_msg s)) eqn:Em; destruct (st_cause s) as [c|] eqn:Ec; cbn [app].
  - rewrite segments_amp by apply code_seg_noamp. cbn [rev app].
    rewrite segments_last by (apply named_seg_noamp; reflexivity). cbn [rev app].
    unfold cause_seg at 1. rewrite seg_nonnil. reflexivity.
  - rewrite segments_last by apply code_seg_noamp. cbn [rev app].
    unfold code_seg at 1. rewrite seg_nonnil. reflexivity.
  - rewrite segments_amp by apply code_seg_noamp. cbn [rev app].
    rewrite segments_amp by (apply named_seg_noamp; reflexivity). cbn [rev app].
    rewrite segments_last by (apply named_seg_noamp; reflexivity). cbn [rev app].
    unfold cause_seg at 1. rewrite seg_nonnil. reflexivity.
  - rewrite segments_amp by apply code_seg_noamp. cbn [rev app].
    rewrite segments_last by (apply named_seg_noamp; reflexivity). cbn [rev app].
    unfold msg_seg at 1. rewrite seg_nonnil. reflexivity.
Qed.

Theorem status_roundtrip s :
  int32_ok (st_code s) = true -> status_decode (status_encode s) = Ok s.
Proof.
  intros Hc. unfold status_decode.
  assert (Hne : exists c t, status_encode s = c :: t) by (unfold status_encode; cbn; eauto).
  destruct Hne as (c0 & t0 & Hne). rewrite Hne, <- Hne. clear c0 t0 Hne.
  rewrite status_encode_segments. unfold status_segs.
  assert (Hcode : code_of (format_int 10 (st_code s)) = st_code s).
  { unfold code_of. rewrite int10_roundtrip by exact Hc. reflexivity. }
  destruct s as [code msg cause]. cbn [st_code st_msg st_cause] in *.
  cbn [dec_segs_all]. unfold code_seg. cbn [st_code]. rewrite dec_seg_code. cbn [rbind].
  destruct msg as [|m0 msg]; destruct cause as [c|]; cbn [is_nil app dec_segs_all];
    unfold msg_seg, cause_seg; cbn [st_msg];
    rewrite ?dec_seg_named by (vm_compute; reflexivity); cbn [rbind];
    cbn [status_scan]; vm_compute bytes_eqb; cbn [negb andb orb st_code st_msg st_cause status_zero];
    rewrite ?Hcode; reflexivity.
Qed.
