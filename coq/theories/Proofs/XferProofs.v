From Coq Require Import Strings.String Strings.Byte.
From Coq Require Import List Arith NArith Bool Lia.
From Verif Require Import Base.Bytes Model.Xfer.
Import ListNotations.

Definition inverts (f : filter) : Prop :=
  forall x y, f_pack f x = Some y -> f_unpack f y = Some x.

Lemma pipe_roundtrip_lemma p :
  (forall f, In f p -> inverts f) ->
  forall d y, pipe_pack p d = Some y -> pipe_unpack p y = Some d.
Proof.
  induction p as [|f r IH]; intros Hinv d y Hp; cbn [pipe_pack pipe_unpack] in *.
  - congruence.
  - destruct (pipe_pack r d) as [d'|] eqn:E; [|discriminate].
    rewrite (Hinv f (or_introl eq_refl) _ _ Hp).
    apply IH; [|exact E]. intros g Hg. apply Hinv. right. exact Hg.
Qed.

Lemma pipe_pack_app p q d :
  pipe_pack (p ++ q) d =
  match pipe_pack q d with Some d' => pipe_pack p d' | None => None end.
Proof.
  induction p as [|f r IH]; cbn [app pipe_pack].
  - destruct (pipe_pack q d); reflexivity.
  - rewrite IH. destruct (pipe_pack q d); reflexivity.
Qed.

Lemma pipe_unpack_app p q d :
  pipe_unpack (p ++ q) d =
  match pipe_unpack p d with Some d' => pipe_unpack q d' | None => None end.
Proof.
  revert d; induction p as [|f r IH]; intros d; cbn [app pipe_unpack].
  - reflexivity.
  - destruct (f_unpack f d); [apply IH | reflexivity].
Qed.

(* ---- Append ---- *)
Lemma append_loop_ok reg ids : forall p p',
  pipe_append_loop reg p ids = (p', None) ->
  exists fs, p' = p ++ fs /\ map f_id fs = ids /\ Forall (fun f => reg_get reg (f_id f) = Some f) fs.
Proof.
  induction ids as [|id r IH]; intros p p' Hl; cbn [pipe_append_loop] in Hl.
  - inversion Hl; subst. exists []. rewrite app_nil_r. repeat split; constructor.
  - destruct (reg_get reg id) as [f|] eqn:E; [|discriminate].
    destruct (IH _ _ Hl) as (fs & -> & Hm & Hf).
    assert (Hid : f_id f = id).
    { clear -E. induction reg as [|g reg IHr]; cbn [reg_get] in E; [discriminate|].
      destruct (beqb (f_id g) id) eqn:B; [|auto].
      inversion E; subst. apply beqb_eq. exact B. }
    exists (f :: fs). rewrite <- app_assoc. repeat split.
    + cbn. congruence.
    + constructor; [rewrite Hid; exact E | exact Hf].
Qed.

Lemma append_loop_unknown reg ids : forall p,
  (exists id, In id ids /\ reg_get reg id = None) ->
  exists p' id', pipe_append_loop reg p ids = (p', Some (EUnknownId id')) /\ reg_get reg id' = None.
Proof.
  induction ids as [|id r IH]; intros p (u & Hin & Hu).
  - destruct Hin.
  - cbn [pipe_append_loop]. destruct (reg_get reg id) as [f|] eqn:E.
    + destruct Hin as [->|Hin]; [congruence|]. apply IH. exists u. split; assumption.
    + exists p, id. split; [reflexivity | exact E].
Qed.

Lemma append_unknown_refused reg p ids :
  (exists id, In id ids /\ reg_get reg id = None) ->
  exists p' id', pipe_append reg p ids = (p', Some (EUnknownId id')) /\ reg_get reg id' = None.
Proof.
  intros Hx. destruct (append_loop_unknown reg ids p Hx) as (p' & id' & Hl & Hn).
  exists p', id'. unfold pipe_append. rewrite Hl. split; [reflexivity | exact Hn].
Qed.

Lemma append_ok_ids reg ids p' :
  pipe_append reg [] ids = (p', None) ->
  pipe_ids p' = ids /\ length ids <= 255 /\ Forall (fun f => reg_get reg (f_id f) = Some f) p'.
Proof.
  unfold pipe_append. destruct (pipe_append_loop reg [] ids) as [q [e|]] eqn:E; [discriminate|].
  destruct (Nat.ltb 255 (length q)) eqn:L; [discriminate|].
  intros Hq; inversion Hq; subst q.
  destruct (append_loop_ok _ _ _ _ E) as (fs & -> & Hm & Hf). cbn [app] in *.
  apply Nat.ltb_ge in L. unfold pipe_ids. rewrite <- Hm at 2. rewrite <- Hm, map_length.
  repeat split; auto.
Qed.

Lemma append_too_long reg ids :
  255 < length ids -> exists p' e, pipe_append reg [] ids = (p', Some e).
Proof.
  intros Hlen. unfold pipe_append.
  destruct (pipe_append_loop reg [] ids) as [q [e|]] eqn:E.
  - eauto.
  - destruct (append_loop_ok _ _ _ _ E) as (fs & -> & Hm & _). cbn [app].
    assert (length fs = length ids) by (rewrite <- Hm, map_length; reflexivity).
    destruct (Nat.ltb 255 (length fs)) eqn:L; [eauto|].
    apply Nat.ltb_ge in L. lia.
Qed.

(* ---- single-position update ---- *)
Fixpoint set_nth (i : nat) (b : byte) (l : bytes) : bytes :=
  match l, i with
  | [], _ => []
  | _ :: r, O => b :: r
  | x :: r, S i' => x :: set_nth i' b r
  end.

Lemma set_nth_length i b l : length (set_nth i b l) = length l.
Proof. revert i; induction l as [|x r IH]; intros [|i]; cbn; auto. Qed.

Lemma set_nth_app_l i b a c : i < length a -> set_nth i b (a ++ c) = set_nth i b a ++ c.
Proof.
  revert i; induction a as [|x r IH]; intros [|i] Hi; cbn in *; try lia; auto.
  rewrite IH by lia. reflexivity.
Qed.

Lemma set_nth_app_r i b a c : length a <= i -> set_nth i b (a ++ c) = a ++ set_nth (i - length a) b c.
Proof.
  revert i; induction a as [|x r IH]; intros i Hi; cbn [app length] in *.
  - rewrite Nat.sub_0_r. reflexivity.
  - destruct i as [|i]; [lia|]. cbn. rewrite IH by lia. reflexivity.
Qed.

Lemma set_nth_neq i b l : i < length l -> b <> nth i l x00 -> set_nth i b l <> l.
Proof.
  revert i; induction l as [|x r IH]; intros [|i] Hi Hb; cbn in *; try lia.
  - congruence.
  - intros E. inversion E as [E']. revert E'. apply IH; [lia | exact Hb].
Qed.

(* ---- integrity filter ---- *)
Section Md5.
  Variable H : bytes -> bytes.
  Hypothesis H_len : forall x, length (H x) = 16.

  Lemma md5_accepts_iff_lemma y d : md5_unpack H y = Some d <-> y = d ++ H d.
  Proof.
    unfold md5_unpack. split.
    - destruct (Nat.ltb (length y) 16) eqn:L; [discriminate|]. apply Nat.ltb_ge in L.
      destruct (bytes_eqb _ _) eqn:E; [|discriminate].
      intros Hd; inversion Hd; subst d. apply bytes_eqb_eq in E. rewrite E.
      symmetry. apply firstn_skipn.
    - intros ->. rewrite app_length, H_len.
      replace (Nat.ltb (length d + 16) 16) with false by (symmetry; apply Nat.ltb_ge; lia).
      replace (length d + 16 - 16) with (length d) by lia.
      rewrite firstn_app, Nat.sub_diag, firstn_all, firstn_O, app_nil_r.
      rewrite skipn_app, Nat.sub_diag, skipn_all. cbn [skipn app].
      rewrite bytes_eqb_refl. reflexivity.
  Qed.

  Lemma md5_inverts id : inverts (md5_filter H id).
  Proof.
    intros x y Hp. cbn in *. unfold md5_pack in Hp. inversion Hp; subst.
    apply md5_accepts_iff_lemma. reflexivity.
  Qed.

  (* Any alteration confined to the 16-byte trailer is rejected, unconditionally. *)
  Lemma md5_rejects_altered_trailer_lemma d t :
    length t = 16 -> t <> H d -> md5_unpack H (d ++ t) = None.
  Proof.
    intros Ht Hne. destruct (md5_unpack H (d ++ t)) as [d'|] eqn:E; [|reflexivity].
    apply md5_accepts_iff_lemma in E.
    assert (length d = length d').
    { apply (f_equal (@length _)) in E. rewrite !app_length, Ht, H_len in E. lia. }
    apply app_eq_len in E; auto. destruct E as [-> E]. congruence.
  Qed.

  (* An altered content is accepted only if its digest equals the received trailer:
     the filter's detection power is exactly that of the (unkeyed) digest. *)
  Lemma md5_altered_content_lemma d d' t :
    length t = 16 -> length d' = length d -> d' <> d ->
    md5_unpack H (d' ++ t) <> None -> H d' = t.
  Proof.
    intros Ht Hl Hne Hacc. destruct (md5_unpack H (d' ++ t)) as [e|] eqn:E; [|congruence].
    apply md5_accepts_iff_lemma in E.
    assert (length d' = length e).
    { apply (f_equal (@length _)) in E. rewrite !app_length, Ht, H_len in E. lia. }
    apply app_eq_len in E; auto. destruct E as [-> E]. congruence.
  Qed.

  Lemma md5_same_length_alteration_lemma d y' :
    length y' = length d + 16 -> y' <> d ++ H d ->
    md5_unpack H y' = None \/ (exists d', y' = d' ++ H d' /\ d' <> d /\ length d' = length d).
  Proof.
    intros Hl Hne. destruct (md5_unpack H y') as [e|] eqn:E; [right|left; reflexivity].
    apply md5_accepts_iff_lemma in E. subst y'. exists e.
    rewrite app_length, H_len in Hl. repeat split; [|lia]. intros ->. congruence.
  Qed.

  (* Every single-byte corruption of a packed payload is rejected, or it hit the
     content part and the corrupted content is a digest collision. *)
  Lemma md5_single_byte_lemma d i b :
    i < length (d ++ H d) -> b <> nth i (d ++ H d) x00 ->
    md5_unpack H (set_nth i b (d ++ H d)) = None \/
    (i < length d /\ set_nth i b d <> d /\ H (set_nth i b d) = H d).
  Proof.
    intros Hi Hb. destruct (Nat.lt_ge_cases i (length d)) as [Hlt|Hge].
    - rewrite set_nth_app_l by exact Hlt.
      rewrite app_nth1 in Hb by exact Hlt.
      assert (Hne : set_nth i b d <> d) by (apply set_nth_neq; auto).
      destruct (md5_unpack H (set_nth i b d ++ H d)) as [e|] eqn:E; [right|left; reflexivity].
      repeat split; auto.
      apply (md5_altered_content_lemma d (set_nth i b d) (H d)); auto.
      + apply set_nth_length.
      + congruence.
    - left. rewrite set_nth_app_r by exact Hge.
      rewrite app_nth2 in Hb by exact Hge.
      rewrite app_length, H_len in Hi.
      apply md5_rejects_altered_trailer_lemma.
      + rewrite set_nth_length. apply H_len.
      + apply set_nth_neq; [rewrite H_len; lia | auto].
  Qed.
End Md5.

(* ---- slice aliasing of md5Hash.OnPack ---- *)
Lemma md5_pack_fresh_preserves H s : snd (md5_pack_slice_fresh H s) = s_arr s.
Proof. reflexivity. Qed.

Lemma md5_pack_fresh_value H s :
  slice_bytes (fst (md5_pack_slice_fresh H s)) = slice_bytes s ++ H (slice_bytes s).
Proof.
  unfold md5_pack_slice_fresh, slice_bytes at 1. cbn [fst s_len s_off s_arr skipn].
  apply firstn_all.
Qed.

Lemma reg_get_In reg id f : reg_get reg id = Some f -> In f reg.
Proof.
  induction reg as [|g r IH]; cbn [reg_get]; [discriminate|].
  destruct (beqb (f_id g) id); intros E; [inversion E; left; reflexivity | right; auto].
Qed.

Lemma registered_pipe_roundtrip reg ids p :
  (forall f, In f reg -> inverts f) ->
  pipe_append reg [] ids = (p, None) ->
  forall d y, pipe_pack p d = Some y -> pipe_unpack p y = Some d.
Proof.
  intros Hinv Ha. apply pipe_roundtrip_lemma.
  destruct (append_ok_ids _ _ _ Ha) as (_ & _ & Hf).
  intros f Hin. apply Hinv. rewrite Forall_forall in Hf.
  eapply reg_get_In. apply Hf. exact Hin.
Qed.

(* in-place append clobbers the caller's array whenever there is spare capacity *)
Lemma md5_pack_inplace_clobbers :
  exists H s, (forall x, length (H x) = 16) /\ snd (md5_pack_slice_inplace H s) <> s_arr s.
Proof.
  exists (fun _ => repeat xff 16), (mkSlice (repeat x00 36) 0 10 36).
  split; [reflexivity | vm_compute; discriminate].
Qed.

(* the reply pipe keeps the caller's pipe as its outer-most part, whatever the handler adds *)
Lemma append_loop_prefix reg ids : forall p,
  exists q, fst (pipe_append_loop reg p ids) = p ++ q.
Proof.
  induction ids as [|id r IH]; intros p; cbn [pipe_append_loop].
  - exists []. rewrite app_nil_r. reflexivity.
  - destruct (reg_get reg id) as [f|].
    + destruct (IH (p ++ [f])) as (q & Hq). exists (f :: q). rewrite Hq, <- app_assoc. reflexivity.
    + exists []. rewrite app_nil_r. reflexivity.
Qed.

Lemma reply_pipe_keeps_request reg req added :
  exists q, reply_pipe reg req added = req ++ q.
Proof.
  unfold reply_pipe, pipe_append.
  destruct (append_loop_prefix reg added req) as (q & Hq).
  destruct (pipe_append_loop reg req added) as [p' [e|]]; cbn [fst] in *.
  - exists q. exact Hq.
  - destruct (Nat.ltb 255 (length p')); cbn [fst]; exists q; exact Hq.
Qed.

Lemma reply_pipe_no_addition reg req : reply_pipe reg req [] = req.
Proof. unfold reply_pipe, pipe_append. cbn [pipe_append_loop]. destruct (Nat.ltb 255 (length req)); reflexivity. Qed.

(* ---- a sequence of calls on one connection ---- *)
Lemma exchange_learns_callers_pipe reg ids p :
  pipe_append reg [] ids = (p, None) -> exchange reg ids [] = Some (ids, ids).
Proof.
  intros Ha. unfold exchange. rewrite Ha, reply_pipe_no_addition.
  destruct (append_ok_ids _ _ _ Ha) as (Hids & _ & _). rewrite Hids, Ha, Hids. reflexivity.
Qed.

Lemma exchange_refuses_unregistered reg ids added :
  (exists id, In id ids /\ reg_get reg id = None) -> exchange reg ids added = None.
Proof.
  intros Hx. destruct (append_unknown_refused reg [] ids Hx) as (p' & id' & Ha & _).
  unfold exchange. rewrite Ha. reflexivity.
Qed.

Lemma conn_exchange_positionwise reg before c after :
  nth_error (conn_exchange reg (before ++ c :: after)) (length before) =
  Some (exchange reg (fst c) (snd c)).
Proof.
  unfold conn_exchange. rewrite nth_error_map, nth_error_app2, Nat.sub_diag by lia. reflexivity.
Qed.

(* ---- bounded unpacking: exact or refused, never truncated ---- *)
Lemma limit_filter_exact_or_refused lim f x y :
  inverts f -> f_pack (limit_filter lim f) x = Some y ->
  f_unpack (limit_filter lim f) y = if over_limit lim x then None else Some x.
Proof.
  intros Hi Hp. cbn [limit_filter f_pack f_unpack] in *. rewrite (Hi _ _ Hp). reflexivity.
Qed.

Lemma limit_filter_never_alters lim f d x :
  f_unpack (limit_filter lim f) d = Some x -> f_unpack f d = Some x /\ over_limit lim x = false.
Proof.
  cbn [limit_filter f_unpack]. destruct (f_unpack f d) as [z|]; [|discriminate].
  destruct (over_limit lim z) eqn:E; [discriminate|]. intros H; inversion H; subst. auto.
Qed.

Lemma limit_filter_no_limit f d : f_unpack (limit_filter 0 f) d = f_unpack f d.
Proof. cbn [limit_filter f_unpack]. destruct (f_unpack f d); reflexivity. Qed.
