(* Lemmas about Model/Plugins.v: the per-stage loop, plans and traces, the refresh closure
   chain, the configuration invariant linking containers to the specification, and the
   stage sequences of the message flows. *)
From Coq Require Import Strings.String Strings.Byte.
From Coq Require Import List Arith NArith ZArith Bool Lia Sorting.Sorted Sorting.Permutation.
From Verif Require Import Base.Bytes Model.Plugins.
Import ListNotations.

(* ------------------------------------------------------------------ run_stage *)

Definition ev (s : stage) (p : plugin) : event := (p_name p, s).
Definition impls (s : stage) (ps : list plugin) : list plugin := filter (fun p => p_impl p s) ps.

Lemma run_stage_In s ps e :
  In e (fst (run_stage s ps)) ->
  snd e = s /\ exists p, In p ps /\ p_name p = fst e /\ p_impl p s = true.
Proof.
  induction ps as [|p r IH]; cbn [run_stage]; [intros []|].
  destruct (p_impl p s) eqn:I.
  - destruct (Z.eqb (p_verdict p s) 0).
    + destruct (run_stage s r) as [t v] eqn:E. cbn [fst] in *. intros [<-|H].
      * split; [reflexivity|]. exists p. cbn. auto.
      * destruct (IH H) as (Hs & q & Hq & Hn & Hi). split; [exact Hs|]. exists q. cbn. auto.
    + cbn. intros [<-|[]]. split; [reflexivity|]. exists p. cbn. auto.
  - intros H. destruct (IH H) as (Hs & q & Hq & Hn & Hi). split; [exact Hs|]. exists q. cbn. auto.
Qed.

Lemma run_stage_nodup s ps :
  NoDup (map p_name ps) -> NoDup (fst (run_stage s ps)).
Proof.
  induction ps as [|p r IH]; cbn [run_stage map]; intros Hn; [constructor|].
  inversion Hn as [|? ? Hni Hr]; subst.
  destruct (p_impl p s) eqn:I; [|auto].
  destruct (Z.eqb (p_verdict p s) 0).
  - destruct (run_stage s r) as [t v] eqn:E. cbn [fst] in *. constructor; [|auto].
    intros Hin. apply Hni.
    assert (Hx : In (p_name p, s) (fst (run_stage s r))) by (rewrite E; exact Hin).
    destruct (run_stage_In _ _ _ Hx) as (_ & q & Hq & Hnm & _). cbn in Hnm.
    rewrite <- Hnm. apply in_map. exact Hq.
  - cbn. constructor; [intros []|constructor].
Qed.

(* Registration order: the hooks of a stage fire in list order over the plugins that
   implement it, up to and including the first refusal, and no further. *)
Lemma run_stage_all_ok s ps :
  (forall p, In p (impls s ps) -> p_verdict p s = 0%Z) ->
  run_stage s ps = (map (ev s) (impls s ps), 0%Z).
Proof.
  induction ps as [|p r IH]; cbn [run_stage impls filter]; intros H; [reflexivity|].
  fold (impls s r) in *. destruct (p_impl p s) eqn:I.
  - rewrite (H p (or_introl eq_refl)). cbn [Z.eqb]. rewrite IH.
    + reflexivity.
    + intros q Hq. apply H. right. exact Hq.
  - apply IH. exact H.
Qed.

Lemma run_stage_first_refusal s ps pre v post :
  impls s ps = pre ++ v :: post ->
  (forall p, In p pre -> p_verdict p s = 0%Z) -> p_verdict v s <> 0%Z ->
  run_stage s ps = (map (ev s) (pre ++ [v]), p_verdict v s).
Proof.
  revert pre. induction ps as [|p r IH]; cbn [run_stage impls filter]; intros pre E Hpre Hv.
  - destruct pre; discriminate.
  - fold (impls s r) in *. destruct (p_impl p s) eqn:I.
    + destruct pre as [|q pre]; cbn [app] in E; inversion E; subst.
      * apply Z.eqb_neq in Hv. rewrite Hv. reflexivity.
      * rewrite (Hpre q (or_introl eq_refl)). cbn [Z.eqb].
        rewrite (IH pre H1); [reflexivity| |exact Hv].
        intros x Hx. apply Hpre. right. exact Hx.
    + apply IH; assumption.
Qed.

Lemma run_stage_prefix s ps :
  exists rest, map (ev s) (impls s ps) = fst (run_stage s ps) ++ rest.
Proof.
  induction ps as [|p r [rest IH]]; cbn [run_stage impls filter].
  - exists []. reflexivity.
  - fold (impls s r) in *. destruct (p_impl p s).
    + destruct (Z.eqb (p_verdict p s) 0).
      * destruct (run_stage s r) as [t v]. cbn [fst map app] in *. exists rest. rewrite IH. reflexivity.
      * cbn [fst map app]. exists (map (ev s) (impls s r)). reflexivity.
    + exists rest. exact IH.
Qed.

Lemma verdict_zero_complete s ps :
  verdict_of s ps = 0%Z -> fst (run_stage s ps) = map (ev s) (impls s ps).
Proof.
  unfold verdict_of. induction ps as [|p r IH]; cbn [run_stage impls filter]; [reflexivity|].
  fold (impls s r) in *. destruct (p_impl p s); [|exact IH].
  destruct (Z.eqb (p_verdict p s) 0) eqn:Z0.
  - destruct (run_stage s r) as [t v]. cbn [fst snd map] in *. intros Hv. rewrite (IH Hv). reflexivity.
  - cbn [snd]. intros Hv. apply Z.eqb_neq in Z0. contradiction.
Qed.

(* a refusal reported by the loop is the verdict of a plugin on the list that implements
   the stage, and that plugin's hook is the last one that fired *)
Lemma verdict_nonzero_source s ps :
  verdict_of s ps <> 0%Z ->
  exists pre v, fst (run_stage s ps) = map (ev s) (pre ++ [v]) /\ In v ps /\ p_impl v s = true /\
                p_verdict v s = verdict_of s ps /\ (forall p, In p pre -> p_verdict p s = 0%Z).
Proof.
  unfold verdict_of. induction ps as [|p r IH]; cbn [run_stage]; [cbn; congruence|].
  destruct (p_impl p s) eqn:I.
  - destruct (Z.eqb (p_verdict p s) 0) eqn:Z0.
    + destruct (run_stage s r) as [t v] eqn:E. cbn [fst snd] in *. intros Hv.
      destruct (IH Hv) as (pre & x & Ht & Hx & Hi & Hvx & Hpre).
      exists (p :: pre), x. cbn [app map]. rewrite Ht. repeat split; auto.
      * right. exact Hx.
      * intros q [<-|Hq]; [apply Z.eqb_eq; exact Z0 | auto].
    + cbn [fst snd]. intros _. exists [], p. cbn. repeat split; auto. intros q [].
  - intros Hv. destruct (IH Hv) as (pre & x & Ht & Hx & Hi & Hvx & Hpre).
    exists pre, x. repeat split; auto. right. exact Hx.
Qed.

Lemma vetoes_true s ps : vetoes s ps = true <-> verdict_of s ps <> 0%Z.
Proof. unfold vetoes. rewrite negb_true_iff. apply Z.eqb_neq. Qed.
Lemma vetoes_false s ps : vetoes s ps = false <-> verdict_of s ps = 0%Z.
Proof. unfold vetoes. rewrite negb_false_iff. apply Z.eqb_eq. Qed.

(* ------------------------------------------------------------------ plans and traces *)

Lemma trace_of_app a b : trace_of (a ++ b) = trace_of a ++ trace_of b.
Proof. unfold trace_of. apply flat_map_app. Qed.

Lemma trace_In pl e :
  In e (trace_of pl) ->
  exists c, In (snd e, c) pl /\ exists p, In p c /\ p_name p = fst e /\ p_impl p (snd e) = true.
Proof.
  unfold trace_of. rewrite in_flat_map. intros ([s c] & Hin & He). cbn [fst snd] in He.
  destruct (run_stage_In _ _ _ He) as (Hs & p & Hp & Hn & Hi). subst s.
  exists c. split; [exact Hin|]. exists p. auto.
Qed.

Lemma nodup_app_disjoint {A} (a b : list A) :
  NoDup a -> NoDup b -> (forall x, In x a -> ~ In x b) -> NoDup (a ++ b).
Proof.
  induction a as [|x a IH]; cbn [app]; intros Ha Hb Hd; [exact Hb|].
  inversion Ha; subst. constructor.
  - rewrite in_app_iff. intros [H|H]; [contradiction|]. apply (Hd x); [left; reflexivity | exact H].
  - apply IH; auto. intros y Hy. apply Hd. right. exact Hy.
Qed.

Lemma trace_nodup pl :
  NoDup (map fst pl) -> (forall s c, In (s, c) pl -> NoDup (map p_name c)) ->
  NoDup (trace_of pl).
Proof.
  induction pl as [|[s c] r IH]; cbn [map fst]; intros Hn Hc; [constructor|].
  inversion Hn as [|? ? Hni Hr]; subst.
  change (trace_of ((s, c) :: r)) with (fst (run_stage s c) ++ trace_of r).
  apply nodup_app_disjoint.
  - apply run_stage_nodup, (Hc s c). left. reflexivity.
  - apply IH; [exact Hr | intros; apply (Hc s0 c0); right; assumption].
  - intros e He Hx. destruct (trace_In _ _ Hx) as (c' & Hin & _).
    destruct (run_stage_In _ _ _ He) as (Hs & _). apply Hni. rewrite <- Hs.
    change (snd e) with (fst (snd e, c')). apply in_map. exact Hin.
Qed.

(* ------------------------------------------------------------------ list update *)

Lemma upd_length {A} i (x : A) l : length (upd i x l) = length l.
Proof. revert i; induction l as [|a l IH]; intros [|i]; cbn; auto. Qed.

Lemma nth_upd_eq {A} i (x : A) l d : i < length l -> nth i (upd i x l) d = x.
Proof. revert i; induction l as [|a l IH]; intros [|i]; cbn; intros H; try lia; auto. apply IH. lia. Qed.

Lemma nth_upd_neq {A} i j (x : A) l d : i <> j -> nth j (upd i x l) d = nth j l d.
Proof.
  revert i j; induction l as [|a l IH]; intros [|i] [|j]; cbn; intros H; try congruence; auto.
Qed.

Lemma upd_app_last {A} (l : list A) c x : upd (length l) x (l ++ [c]) = l ++ [x].
Proof. induction l as [|a l IH]; cbn; [reflexivity | rewrite IH; reflexivity]. Qed.

Lemma nodupb_NoDup l : nodupb l = true -> NoDup l.
Proof.
  induction l as [|x r IH]; cbn [nodupb]; intros H; [constructor|].
  apply andb_true_iff in H as [H1 H2]. constructor; [|auto].
  intros Hin. apply negb_true_iff in H1.
  assert (existsb (N.eqb x) r = true); [|congruence].
  apply existsb_exists. exists x. split; [exact Hin | apply N.eqb_refl].
Qed.

Lemma NoDup_nodupb l : NoDup l -> nodupb l = true.
Proof.
  induction 1 as [|x r Hni Hr IH]; cbn [nodupb]; [reflexivity|].
  rewrite IH, andb_true_r. apply negb_true_iff.
  destruct (existsb (N.eqb x) r) eqn:E; [|reflexivity].
  apply existsb_exists in E as (y & Hy & Hxy). apply N.eqb_eq in Hxy. subst. contradiction.
Qed.

(* ------------------------------------------------------------------ refresh *)

Definition refreshed (l r : list plugin) (c : container) : container :=
  mkCont (c_middle c) (l ++ c_middle c ++ r) (c_kids c).

Lemma refreshed_idem l r c : refreshed l r (refreshed l r c) = refreshed l r c.
Proof. reflexivity. Qed.

Lemma refresh_some st i st' :
  refresh st i = Some st' ->
  st' = with_conts st (upd i (refreshed (s_left st) (s_right st) (get_cont st i)) (s_conts st)) /\
  NoDup (map p_name (s_left st ++ c_middle (get_cont st i) ++ s_right st)).
Proof.
  unfold refresh. destruct (nodupb _) eqn:E; [|discriminate].
  intros H. inversion H. split; [reflexivity | apply nodupb_NoDup; exact E].
Qed.

Lemma refresh_all_some ids : forall st st',
  refresh_all st ids = Some st' ->
  exists cs', st' = with_conts st cs' /\ length cs' = length (s_conts st) /\
    (forall j, In j ids -> j < length cs' ->
       nth j cs' dflt_cont = refreshed (s_left st) (s_right st) (nth j (s_conts st) dflt_cont) /\
       NoDup (map p_name (s_left st ++ c_middle (nth j (s_conts st) dflt_cont) ++ s_right st))) /\
    (forall j, ~ In j ids -> nth j cs' dflt_cont = nth j (s_conts st) dflt_cont).
Proof.
  induction ids as [|i r IH]; cbn [refresh_all]; intros st st' H.
  - inversion H; subst. exists (s_conts st'). destruct st'.
    split; [reflexivity|]. split; [reflexivity|]. split; [intros j []|reflexivity].
  - destruct (refresh st i) as [st1|] eqn:R; [|discriminate].
    destruct (refresh_some _ _ _ R) as (E1 & Hnd).
    destruct (IH _ _ H) as (cs' & E' & Hlen & Ha & Hb). subst st1. cbn in *.
    rewrite upd_length in Hlen.
    exists cs'. split; [exact E'|]. split; [exact Hlen|]. split.
    + intros j Hj Hlt.
      destruct (in_dec Nat.eq_dec j r) as [Hr|Hr].
      * destruct (Ha j Hr Hlt) as (Hx & Hy).
        destruct (Nat.eq_dec i j) as [->|Hne].
        -- rewrite nth_upd_eq in Hx, Hy by lia. unfold get_cont in *. split; [exact Hx | exact Hy].
        -- rewrite nth_upd_neq in Hx, Hy by exact Hne. split; [exact Hx | exact Hy].
      * destruct Hj as [->|Hj]; [|contradiction].
        rewrite (Hb j Hr). rewrite nth_upd_eq by lia. unfold get_cont in *. split; [reflexivity | exact Hnd].
    + intros j Hj. rewrite (Hb j); [|intros X; apply Hj; right; exact X].
      apply nth_upd_neq. intros ->. apply Hj. left. reflexivity.
Qed.

(* ------------------------------------------------------------------ the closure chain reaches every container *)

Definition parents_ok (cs : list container) : Prop :=
  forall i, 0 < i -> i < length cs -> exists p, p < i /\ In i (c_kids (nth p cs dflt_cont)).

Lemma tree_order_head f cs i : In i (tree_order f cs i).
Proof. destruct f; cbn; auto. Qed.

Lemma tree_order_mono f : forall cs i j, In j (tree_order f cs i) -> In j (tree_order (S f) cs i).
Proof.
  induction f as [|f IH]; intros cs i j H.
  - cbn in H. destruct H as [<-|[]]. apply tree_order_head.
  - cbn [tree_order] in H. destruct H as [<-|H]; [apply tree_order_head|].
    apply in_flat_map in H as (k & Hk & Hj).
    change (tree_order (S (S f)) cs i) with (i :: flat_map (tree_order (S f) cs) (c_kids (nth i cs dflt_cont))).
    right. apply in_flat_map. exists k. split; [exact Hk | apply IH; exact Hj].
Qed.

Lemma tree_order_mono_le f g cs i j : f <= g -> In j (tree_order f cs i) -> In j (tree_order g cs i).
Proof. induction 1 as [|g Hle IH]; auto. intros Hin. apply tree_order_mono. auto. Qed.

Lemma tree_order_child f : forall cs a j k,
  In j (tree_order f cs a) -> In k (c_kids (nth j cs dflt_cont)) -> In k (tree_order (S f) cs a).
Proof.
  induction f as [|f IH]; intros cs a j k Hj Hk.
  - cbn in Hj. destruct Hj as [<-|[]]. cbn. right. apply in_flat_map. exists k. split; [exact Hk | left; reflexivity].
  - cbn [tree_order] in Hj.
    change (tree_order (S (S f)) cs a) with (a :: flat_map (tree_order (S f) cs) (c_kids (nth a cs dflt_cont))).
    destruct Hj as [<-|Hj].
    + right. apply in_flat_map. exists k. split; [exact Hk | apply tree_order_head].
    + apply in_flat_map in Hj as (b & Hb & Hj). right. apply in_flat_map. exists b.
      split; [exact Hb | apply (IH cs b j k); assumption].
Qed.

Lemma reach_all cs : parents_ok cs -> forall i, i < length cs -> In i (tree_order i cs 0).
Proof.
  intros Hp i. induction i as [i IH] using lt_wf_ind. intros Hlt.
  destruct i as [|i]; [cbn; auto|].
  destruct (Hp (S i)) as (p & Hpi & Hk); [lia | exact Hlt|].
  assert (Hin : In p (tree_order i cs 0)).
  { apply (tree_order_mono_le p i); [lia|]. apply IH; lia. }
  apply (tree_order_child i cs 0 p (S i)); assumption.
Qed.

Lemma reach_all_len cs : parents_ok cs -> forall i, i < length cs -> In i (tree_order (length cs) cs 0).
Proof. intros Hp i Hi. apply (tree_order_mono_le i); [lia | apply reach_all; assumption]. Qed.

(* ------------------------------------------------------------------ cloneAndAppendMiddle *)

Lemma with_conts_twice st a b : with_conts (with_conts st a) b = with_conts st b.
Proof. reflexivity. Qed.

Lemma clone_some st parent ps st' n :
  clone st parent ps = Some (st', n) ->
  let p := get_cont st parent in
  let newc := mkCont (c_middle p ++ ps) (s_left st ++ (c_middle p ++ ps) ++ s_right st) [] in
  n = length (s_conts st) /\ parent < n /\
  st' = with_conts st (upd parent (mkCont (c_middle p) (c_flat p) (c_kids p ++ [n])) (s_conts st ++ [newc])) /\
  NoDup (map p_name (c_flat newc)).
Proof.
  unfold clone. destruct (Nat.ltb parent (length (s_conts st))) eqn:L; [|discriminate].
  apply Nat.ltb_lt in L.
  destruct (refresh _ _) as [st2|] eqn:R; [|discriminate].
  intros H. inversion H; subst n st'; clear H.
  destruct (refresh_some _ _ _ R) as (E & Hnd). cbn in E, Hnd.
  unfold get_cont in E, Hnd. cbn in E, Hnd.
  rewrite app_nth2, Nat.sub_diag in E, Hnd by lia. cbn in E, Hnd.
  rewrite upd_app_last in E. subst st2. cbn.
  unfold get_cont, set_cont. cbn. rewrite app_nth1 by lia.
  repeat split; auto.
Qed.

(* ------------------------------------------------------------------ configuration invariant *)

Definition fresh (st : pstate) : Prop :=
  forall j, j < length (s_conts st) ->
    c_flat (get_cont st j) = s_left st ++ c_middle (get_cont st j) ++ s_right st.

Definition hmid (st : pstate) (h : handler) : hview :=
  (h_id h, h_stat h, c_middle (get_cont st (h_cont h))).

Definition hrel (st : pstate) (h : handler) (e : kind * hview) : Prop :=
  fst e = h_kind h /\ snd e = hmid st h /\ h_cont h < length (s_conts st).

Definition orel (st : pstate) (oh : option handler) (oe : option hview) : Prop :=
  match oh, oe with
  | None, None => True
  | Some h, Some v => v = hmid st h /\ h_cont h < length (s_conts st)
  | _, _ => False
  end.

Record inv (st : pstate) (sp : spec) : Prop := mkInv {
  inv_left : s_left st = sp_left sp;
  inv_right : s_right st = sp_right sp;
  inv_len : 0 < length (s_conts st);
  inv_root : c_middle (get_cont st 0) = [];
  inv_routers : map (fun i => c_middle (get_cont st i)) (s_routers st) = sp_chains sp;
  inv_rrange : Forall (fun i => i < length (s_conts st)) (s_routers st);
  inv_handlers : Forall2 (hrel st) (s_handlers st) (sp_handlers sp);
  inv_uc : orel st (s_unk_call st) (sp_unk_call sp);
  inv_up : orel st (s_unk_push st) (sp_unk_push sp);
  inv_fresh : fresh st;
  inv_parents : parents_ok (s_conts st);
  inv_names : forall j, j < length (s_conts st) -> NoDup (map p_name (c_flat (get_cont st j)))
}.

(* [st'] keeps every existing container's middle list (it may have more containers) *)
Definition ext (st st' : pstate) : Prop :=
  length (s_conts st) <= length (s_conts st') /\
  forall j, j < length (s_conts st) -> c_middle (get_cont st' j) = c_middle (get_cont st j).

Lemma hrel_ext st st' h e : ext st st' -> hrel st h e -> hrel st' h e.
Proof.
  intros [Hl Hm] (H1 & H2 & H3). unfold hrel, hmid in *. repeat split; auto; [|lia].
  rewrite H2, Hm; auto.
Qed.

Lemma orel_ext st st' oh oe : ext st st' -> orel st oh oe -> orel st' oh oe.
Proof.
  intros [Hl Hm]. destruct oh, oe; cbn; auto. intros [-> H]. unfold hmid. rewrite Hm by exact H.
  split; [reflexivity | lia].
Qed.

Lemma routers_ext st st' rs :
  ext st st' -> Forall (fun i => i < length (s_conts st)) rs ->
  map (fun i => c_middle (get_cont st' i)) rs = map (fun i => c_middle (get_cont st i)) rs.
Proof.
  intros [Hl Hm] Hr. apply map_ext_in. intros i Hi. rewrite Forall_forall in Hr. apply Hm, Hr, Hi.
Qed.

Lemma inv_init : inv init_state spec_init.
Proof.
  constructor.
  - reflexivity.
  - reflexivity.
  - cbn. lia.
  - reflexivity.
  - reflexivity.
  - cbn. repeat constructor.
  - constructor.
  - exact I.
  - exact I.
  - intros j Hj. cbn in Hj. assert (j = 0) by lia. subst. reflexivity.
  - intros i H0 H1. cbn in H1. lia.
  - intros j Hj. cbn in Hj. assert (j = 0) by lia. subst. cbn. constructor.
Qed.

(* what a successful clone does to a state satisfying the invariant *)
Lemma clone_inv st sp parent ps st' n :
  inv st sp -> clone st parent ps = Some (st', n) ->
  n = length (s_conts st) /\ parent < n /\
  s_left st' = s_left st /\ s_right st' = s_right st /\ s_routers st' = s_routers st /\
  s_handlers st' = s_handlers st /\ s_unk_call st' = s_unk_call st /\ s_unk_push st' = s_unk_push st /\
  length (s_conts st') = S n /\ ext st st' /\
  c_middle (get_cont st' n) = c_middle (get_cont st parent) ++ ps /\
  fresh st' /\ parents_ok (s_conts st') /\
  (forall j, j < length (s_conts st') -> NoDup (map p_name (c_flat (get_cont st' j)))).
Proof.
  intros I C. destruct (clone_some _ _ _ _ _ C) as (Hn & Hp & E & Hnd). cbn zeta in *.
  set (p := get_cont st parent) in *.
  set (newc := mkCont (c_middle p ++ ps) (s_left st ++ (c_middle p ++ ps) ++ s_right st) []) in *.
  set (p' := mkCont (c_middle p) (c_flat p) (c_kids p ++ [n])) in *.
  assert (Hlen : length (s_conts st') = S n).
  { subst st'. cbn. rewrite upd_length, app_length. cbn. lia. }
  (* pointwise description of the new store *)
  assert (Hnth : forall j, get_cont st' j =
            if Nat.eqb j parent then p' else if Nat.eqb j n then newc else get_cont st j).
  { intros j. subst st'. unfold get_cont. cbn.
    destruct (Nat.eqb j parent) eqn:E1.
    - apply Nat.eqb_eq in E1. subst j. apply nth_upd_eq. rewrite app_length. cbn. lia.
    - apply Nat.eqb_neq in E1. rewrite nth_upd_neq by congruence.
      destruct (Nat.eqb j n) eqn:E2.
      + apply Nat.eqb_eq in E2. subst j. rewrite Hn, app_nth2, Nat.sub_diag by lia. reflexivity.
      + apply Nat.eqb_neq in E2. destruct (Nat.lt_ge_cases j n).
        * rewrite app_nth1 by lia. reflexivity.
        * rewrite !nth_overflow; [reflexivity | lia | rewrite app_length; cbn; lia]. }
  assert (Hmid : forall j, j < n -> c_middle (get_cont st' j) = c_middle (get_cont st j)).
  { intros j Hj. rewrite Hnth. destruct (Nat.eqb j parent) eqn:E1.
    - apply Nat.eqb_eq in E1. subst j. reflexivity.
    - destruct (Nat.eqb j n) eqn:E2; [apply Nat.eqb_eq in E2; lia | reflexivity]. }
  assert (Hfl : forall j, j < n -> c_flat (get_cont st' j) = c_flat (get_cont st j)).
  { intros j Hj. rewrite Hnth. destruct (Nat.eqb j parent) eqn:E1.
    - apply Nat.eqb_eq in E1. subst j. reflexivity.
    - destruct (Nat.eqb j n) eqn:E2; [apply Nat.eqb_eq in E2; lia | reflexivity]. }
  assert (Hnew : get_cont st' n = newc).
  { rewrite Hnth. replace (Nat.eqb n parent) with false by (symmetry; apply Nat.eqb_neq; lia).
    rewrite Nat.eqb_refl. reflexivity. }
  assert (HL : s_left st' = s_left st) by (subst st'; reflexivity).
  assert (HR : s_right st' = s_right st) by (subst st'; reflexivity).
  split; [exact Hn|]. split; [exact Hp|].
  split; [exact HL|]. split; [exact HR|].
  split; [subst st'; reflexivity|]. split; [subst st'; reflexivity|].
  split; [subst st'; reflexivity|]. split; [subst st'; reflexivity|].
  split; [exact Hlen|]. split; [split; [lia | intros j Hj; apply Hmid; lia]|].
  split; [rewrite Hnew; reflexivity|].
  split; [|split].
  - intros j Hj. rewrite Hlen in Hj. rewrite HL, HR.
    destruct (Nat.eq_dec j n) as [->|Hne].
    + rewrite Hnew. reflexivity.
    + rewrite Hmid, Hfl by lia. apply (inv_fresh _ _ I). lia.
  - intros i H0 Hi. rewrite Hlen in Hi.
    destruct (Nat.eq_dec i n) as [->|Hne].
    + exists parent. split; [exact Hp|]. fold (get_cont st' parent). rewrite Hnth, Nat.eqb_refl.
      cbn. apply in_or_app. right. left. reflexivity.
    + destruct (inv_parents _ _ I i H0) as (q & Hq & Hk); [lia|].
      exists q. split; [exact Hq|]. fold (get_cont st' q). fold (get_cont st q) in Hk. rewrite Hnth.
      destruct (Nat.eqb q parent) eqn:E1.
      * apply Nat.eqb_eq in E1. subst q. cbn. apply in_or_app. left. exact Hk.
      * destruct (Nat.eqb q n) eqn:E2; [apply Nat.eqb_eq in E2; lia | exact Hk].
  - intros j Hj. rewrite Hlen in Hj. destruct (Nat.eq_dec j n) as [->|Hne].
    + rewrite Hnew. exact Hnd.
    + rewrite Hfl by lia. apply (inv_names _ _ I). lia.
Qed.

Lemma Forall2_imp {A B} (P Q : A -> B -> Prop) l m :
  (forall a b, P a b -> Q a b) -> Forall2 P l m -> Forall2 Q l m.
Proof. intros H. induction 1; constructor; auto. Qed.

Lemma nth_map_error {A B} (f : A -> B) l i x d : nth_error l i = Some x -> nth i (map f l) d = f x.
Proof.
  revert i; induction l as [|a l IH]; intros [|i]; cbn; intros H; try discriminate.
  - inversion H. reflexivity.
  - apply IH. exact H.
Qed.

Lemma nth_error_range {A} (l : list A) i x P : nth_error l i = Some x -> Forall P l -> P x.
Proof. intros H F. rewrite Forall_forall in F. apply F. eapply nth_error_In. exact H. Qed.

(* rebuild of a cloned state with new routing tables *)
Lemma inv_after_clone st sp st1 n parent ps rs hs uc up sp' :
  inv st sp -> clone st parent ps = Some (st1, n) ->
  sp_left sp' = sp_left sp -> sp_right sp' = sp_right sp ->
  map (fun i => c_middle (get_cont st1 i)) rs = sp_chains sp' ->
  Forall (fun i => i < S n) rs ->
  Forall2 (hrel st1) hs (sp_handlers sp') ->
  orel st1 uc (sp_unk_call sp') -> orel st1 up (sp_unk_push sp') ->
  inv (mkSt (s_left st1) (s_right st1) (s_conts st1) rs hs uc up) sp'.
Proof.
  intros I C HL HR Hrs Hrr Hhs Huc Hup.
  destruct (clone_inv _ _ _ _ _ _ I C) as
    (Hn & Hp & EL & ER & _ & _ & _ & _ & Hlen & Hext & Hmid & Hfr & Hpar & Hnm).
  constructor; cbn [s_left s_right s_conts s_routers s_handlers s_unk_call s_unk_push].
  - rewrite EL, HL. apply (inv_left _ _ I).
  - rewrite ER, HR. apply (inv_right _ _ I).
  - lia.
  - destruct Hext as [_ Hm]. change (c_middle (get_cont st1 0) = []).
    rewrite Hm by apply (inv_len _ _ I). apply (inv_root _ _ I).
  - exact Hrs.
  - rewrite Hlen. exact Hrr.
  - exact Hhs.
  - exact Huc.
  - exact Hup.
  - exact Hfr.
  - exact Hpar.
  - exact Hnm.
Qed.

Lemma refresh_tree_some st st' :
  parents_ok (s_conts st) -> refresh_tree st 0 = Some st' ->
  exists cs', st' = with_conts st cs' /\ length cs' = length (s_conts st) /\
    forall j, j < length cs' ->
      nth j cs' dflt_cont = refreshed (s_left st) (s_right st) (nth j (s_conts st) dflt_cont) /\
      NoDup (map p_name (s_left st ++ c_middle (nth j (s_conts st) dflt_cont) ++ s_right st)).
Proof.
  intros Hp R. unfold refresh_tree in R.
  destruct (refresh_all_some _ _ _ R) as (cs' & E & Hl & Ha & _).
  exists cs'. split; [exact E|]. split; [exact Hl|].
  intros j Hj. apply Ha; [|exact Hj]. apply reach_all_len; [exact Hp | lia].
Qed.

(* AppendLeft / AppendRight: new left and right lists, every container refreshed *)
Lemma inv_after_append st sp l r st' sp' :
  inv st sp ->
  refresh_tree (mkSt l r (s_conts st) (s_routers st) (s_handlers st) (s_unk_call st) (s_unk_push st)) 0 = Some st' ->
  sp_left sp' = l -> sp_right sp' = r -> sp_chains sp' = sp_chains sp ->
  sp_handlers sp' = sp_handlers sp -> sp_unk_call sp' = sp_unk_call sp -> sp_unk_push sp' = sp_unk_push sp ->
  inv st' sp'.
Proof.
  intros I R HL HR HC HH HUC HUP.
  destruct (refresh_tree_some
              (mkSt l r (s_conts st) (s_routers st) (s_handlers st) (s_unk_call st) (s_unk_push st))
              st' (inv_parents _ _ I) R) as (cs' & E & Hlen & Hall). cbn in Hlen, Hall.
  assert (Hext : ext st st').
  { subst st'. split; cbn; [lia|]. intros j Hj. unfold get_cont. cbn.
    destruct (Hall j) as [Hx _]; [lia|]. rewrite Hx. reflexivity. }
  assert (Hkids : forall j, c_kids (nth j cs' dflt_cont) = c_kids (nth j (s_conts st) dflt_cont)).
  { intros j. destruct (Nat.lt_ge_cases j (length cs')) as [Hj|Hj].
    - destruct (Hall j Hj) as [Hx _]. rewrite Hx. reflexivity.
    - rewrite !nth_overflow by lia. reflexivity. }
  subst st'. constructor; cbn [with_conts s_left s_right s_conts s_routers s_handlers s_unk_call s_unk_push].
  - symmetry. exact HL.
  - symmetry. exact HR.
  - rewrite Hlen. apply (inv_len _ _ I).
  - destruct Hext as [_ Hm]. rewrite <- (inv_root _ _ I). apply (Hm 0). apply (inv_len _ _ I).
  - rewrite HC, <- (inv_routers _ _ I). apply (routers_ext st); [exact Hext | apply (inv_rrange _ _ I)].
  - rewrite Hlen. apply (inv_rrange _ _ I).
  - rewrite HH. eapply Forall2_imp; [|apply (inv_handlers _ _ I)]. intros a b. apply hrel_ext. exact Hext.
  - rewrite HUC. eapply orel_ext; [exact Hext | apply (inv_uc _ _ I)].
  - rewrite HUP. eapply orel_ext; [exact Hext | apply (inv_up _ _ I)].
  - intros j Hj. cbn in Hj. unfold get_cont. cbn. destruct (Hall j Hj) as [Hx _]. rewrite Hx. reflexivity.
  - intros i H0 Hi. rewrite Hlen in Hi. destruct (inv_parents _ _ I i H0 Hi) as (p & Hp & Hk).
    exists p. split; [exact Hp|]. rewrite Hkids. exact Hk.
  - intros j Hj. cbn in Hj. unfold get_cont. cbn. destruct (Hall j Hj) as [Hx Hnd]. rewrite Hx. exact Hnd.
Qed.

(* ------------------------------------------------------------------ Remove: list facts *)

Inductive subl {A} : list A -> list A -> Prop :=
| subl_nil : subl [] []
| subl_skip x l m : subl l m -> subl l (x :: m)
| subl_keep x l m : subl l m -> subl (x :: l) (x :: m).

Lemma subl_refl {A} (l : list A) : subl l l.
Proof. induction l as [|x l IH]; constructor; exact IH. Qed.

Lemma subl_app {A} (a a' b b' : list A) : subl a a' -> subl b b' -> subl (a ++ b) (a' ++ b').
Proof. intros Ha Hb. induction Ha as [|x l m _ IH|x l m _ IH]; cbn; [exact Hb | constructor; exact IH | constructor; exact IH]. Qed.

Lemma subl_In {A} (l m : list A) x : subl l m -> In x l -> In x m.
Proof.
  intros H. induction H as [|y l m _ IH|y l m _ IH]; cbn; [tauto | intros Hx; right; auto |].
  intros [->|Hx]; [left; reflexivity | right; auto].
Qed.

Lemma subl_NoDup {A} (l m : list A) : subl l m -> NoDup m -> NoDup l.
Proof.
  intros H. induction H as [|y l m Hs IH|y l m Hs IH]; intros Hn; [constructor | |]; inversion Hn; subst.
  - auto.
  - constructor; [|auto]. intros Hx. apply (subl_In _ _ _ Hs) in Hx. contradiction.
Qed.

Lemma subl_map {A B} (f : A -> B) (l m : list A) : subl l m -> subl (map f l) (map f m).
Proof. intros H. induction H as [|y l m _ IH|y l m _ IH]; cbn; constructor; exact IH. Qed.

Lemma remove_first_subl nm l : subl (remove_first nm l) l.
Proof.
  induction l as [|p r IH]; cbn [remove_first]; [constructor|].
  destruct (N.eqb (p_name p) nm); [constructor; apply subl_refl | constructor; exact IH].
Qed.

Lemma has_name_In nm l : has_name nm l = true <-> In nm (map p_name l).
Proof.
  unfold has_name. rewrite existsb_exists. split.
  - intros (p & Hp & E). apply N.eqb_eq in E. subst nm. apply in_map. exact Hp.
  - rewrite in_map_iff. intros (p & E & Hp). exists p. split; [exact Hp | apply N.eqb_eq; exact E].
Qed.

(* in a list with distinct names, cutting the first plugin of a name leaves none of that name *)
Lemma remove_first_gone nm l : NoDup (map p_name l) -> ~ In nm (map p_name (remove_first nm l)).
Proof.
  induction l as [|p r IH]; cbn [remove_first map]; [tauto|]. intros Hn. inversion Hn; subst.
  destruct (N.eqb (p_name p) nm) eqn:E.
  - apply N.eqb_eq in E. subst nm. assumption.
  - cbn [map]. intros [Hx|Hx]; [apply N.eqb_neq in E; contradiction | exact (IH H2 Hx)].
Qed.

Lemma mid_upd0_subl (cs : list container) nm f k j :
  subl (c_middle (nth j (upd 0 (mkCont (remove_first nm (c_middle (nth 0 cs dflt_cont))) f k) cs) dflt_cont))
       (c_middle (nth j cs dflt_cont)).
Proof.
  destruct j as [|j].
  - destruct cs as [|c cs]; cbn; [constructor | apply remove_first_subl].
  - rewrite nth_upd_neq by lia. apply subl_refl.
Qed.

Lemma upd_nth_same {A} (l : list A) d : 0 < length l -> upd 0 (nth 0 l d) l = l.
Proof. destruct l; cbn; [lia | reflexivity]. Qed.

(* the global container's own middle list is empty: cutting a name out of it changes nothing *)
Lemma remove_root_same st sp nm :
  inv st sp ->
  upd 0 (mkCont (remove_first nm (c_middle (get_cont st 0))) (c_flat (get_cont st 0)) (c_kids (get_cont st 0)))
      (s_conts st) = s_conts st.
Proof.
  intros I. pose proof (inv_root _ _ I) as Hr. pose proof (inv_len _ _ I) as Hl. unfold get_cont in *.
  destruct (nth 0 (s_conts st) dflt_cont) as [m f k] eqn:E0. cbn [c_middle c_flat c_kids] in *. subst m.
  cbn [remove_first]. rewrite <- E0. apply upd_nth_same. exact Hl.
Qed.

Lemma global_flat_inv st sp : inv st sp -> c_flat (get_cont st 0) = sp_left sp ++ sp_right sp.
Proof.
  intros I. rewrite (inv_fresh _ _ I 0 (inv_len _ _ I)), (inv_root _ _ I), (inv_left _ _ I), (inv_right _ _ I).
  reflexivity.
Qed.

Lemma step_inv st sp o st' : inv st sp -> step st o = Some st' -> inv st' (spec_step sp o).
Proof.
  intros I S. destruct o as [parent ps | k r hid hs ps | k hid hs ps | ps | ps | nm]; cbn [step] in S.
  - (* SubRoute *)
    destruct (nth_error (s_routers st) parent) as [pc|] eqn:Er; [|discriminate].
    destruct (clone st pc ps) as [[st1 n]|] eqn:C; [|discriminate]. inversion S; subst st'; clear S.
    destruct (clone_inv _ _ _ _ _ _ I C) as
      (Hn & Hp & EL & ER & ERo & EH & EUC & EUP & Hlen & Hext & Hmid & Hfr & Hpar & Hnm).
    eapply inv_after_clone; [exact I | exact C | reflexivity | reflexivity | | | | |]; cbn [spec_step sp_chains sp_handlers sp_unk_call sp_unk_push].
    + rewrite ERo, map_app. cbn [map]. rewrite Hmid.
      rewrite (routers_ext st st1) by (auto; apply (inv_rrange _ _ I)).
      rewrite (inv_routers _ _ I). f_equal. f_equal. f_equal.
      rewrite <- (inv_routers _ _ I). symmetry. apply (nth_map_error (fun i => c_middle (get_cont st i))). exact Er.
    + rewrite ERo. apply Forall_app. split; [|constructor; [lia|constructor]].
      eapply Forall_impl; [|apply (inv_rrange _ _ I)]. cbn. intros. lia.
    + rewrite EH. eapply Forall2_imp; [|apply (inv_handlers _ _ I)]. intros a b. apply hrel_ext. exact Hext.
    + rewrite EUC. eapply orel_ext; [exact Hext | apply (inv_uc _ _ I)].
    + rewrite EUP. eapply orel_ext; [exact Hext | apply (inv_up _ _ I)].
  - (* Route* *)
    destruct (nth_error (s_routers st) r) as [pc|] eqn:Er; [|discriminate].
    destruct (existsb (handler_is k hid) (s_handlers st)); [discriminate|].
    destruct (clone st pc ps) as [[st1 n]|] eqn:C; [|discriminate]. inversion S; subst st'; clear S.
    destruct (clone_inv _ _ _ _ _ _ I C) as
      (Hn & Hp & EL & ER & ERo & EH & EUC & EUP & Hlen & Hext & Hmid & Hfr & Hpar & Hnm).
    eapply inv_after_clone; [exact I | exact C | reflexivity | reflexivity | | | | |]; cbn [spec_step sp_chains sp_handlers sp_unk_call sp_unk_push].
    + rewrite ERo, (routers_ext st st1) by (auto; apply (inv_rrange _ _ I)). apply (inv_routers _ _ I).
    + rewrite ERo. eapply Forall_impl; [|apply (inv_rrange _ _ I)]. cbn. intros. lia.
    + rewrite EH. apply Forall2_app.
      * eapply Forall2_imp; [|apply (inv_handlers _ _ I)]. intros a b. apply hrel_ext. exact Hext.
      * constructor; [|constructor]. unfold hrel, hmid. cbn. rewrite Hmid. repeat split; [|lia].
        f_equal. f_equal. rewrite <- (inv_routers _ _ I). apply (nth_map_error (fun i => c_middle (get_cont st i))). exact Er.
    + rewrite EUC. eapply orel_ext; [exact Hext | apply (inv_uc _ _ I)].
    + rewrite EUP. eapply orel_ext; [exact Hext | apply (inv_up _ _ I)].
  - (* SetUnknownCall / SetUnknownPush *)
    destruct (clone st 0 ps) as [[st1 n]|] eqn:C; [|discriminate].
    destruct (clone_inv _ _ _ _ _ _ I C) as
      (Hn & Hp & EL & ER & ERo & EH & EUC & EUP & Hlen & Hext & Hmid & Hfr & Hpar & Hnm).
    rewrite (inv_root _ _ I) in Hmid. cbn [app] in Hmid.
    destruct k; inversion S; subst st'; clear S;
      (eapply inv_after_clone; [exact I | exact C | reflexivity | reflexivity | | | | |];
       cbn [spec_step sp_chains sp_handlers sp_unk_call sp_unk_push]).
    + rewrite ERo, (routers_ext st st1) by (auto; apply (inv_rrange _ _ I)). apply (inv_routers _ _ I).
    + rewrite ERo. eapply Forall_impl; [|apply (inv_rrange _ _ I)]. cbn. intros. lia.
    + rewrite EH. eapply Forall2_imp; [|apply (inv_handlers _ _ I)]. intros a b. apply hrel_ext. exact Hext.
    + cbn. unfold hmid. cbn. rewrite Hmid. split; [reflexivity | lia].
    + rewrite EUP. eapply orel_ext; [exact Hext | apply (inv_up _ _ I)].
    + rewrite ERo, (routers_ext st st1) by (auto; apply (inv_rrange _ _ I)). apply (inv_routers _ _ I).
    + rewrite ERo. eapply Forall_impl; [|apply (inv_rrange _ _ I)]. cbn. intros. lia.
    + rewrite EH. eapply Forall2_imp; [|apply (inv_handlers _ _ I)]. intros a b. apply hrel_ext. exact Hext.
    + rewrite EUC. eapply orel_ext; [exact Hext | apply (inv_uc _ _ I)].
    + cbn. unfold hmid. cbn. rewrite Hmid. split; [reflexivity | lia].
  - (* AppendLeft *)
    eapply inv_after_append; [exact I | exact S | | | | | |]; cbn [spec_step sp_left sp_right sp_chains sp_handlers sp_unk_call sp_unk_push];
      try reflexivity.
    + rewrite (inv_left _ _ I). reflexivity.
    + rewrite (inv_right _ _ I). reflexivity.
  - (* AppendRight *)
    eapply inv_after_append; [exact I | exact S | | | | | |]; cbn [spec_step sp_left sp_right sp_chains sp_handlers sp_unk_call sp_unk_push];
      try reflexivity.
    + rewrite (inv_left _ _ I). reflexivity.
    + rewrite (inv_right _ _ I). reflexivity.
  - (* Remove *)
    unfold remove_op in S. cbv zeta in S. rewrite (remove_root_same _ _ nm I) in S.
    rewrite (global_flat_inv _ _ I) in S. cbn [spec_step].
    destruct (has_name nm (sp_left sp ++ sp_right sp)) eqn:Hn.
    + eapply inv_after_append; [exact I | exact S | | | | | |]; cbn [sp_left sp_right sp_chains sp_handlers sp_unk_call sp_unk_push];
        try reflexivity.
      * rewrite (inv_left _ _ I). reflexivity.
      * rewrite (inv_right _ _ I). reflexivity.
    + inversion S; subst st'. exact I.
Qed.

Lemma run_from_inv ops : forall st sp st',
  inv st sp -> run_from st ops = Some st' -> inv st' (fold_left spec_step ops sp).
Proof.
  induction ops as [|o r IH]; cbn [run_from fold_left]; intros st sp st' I R.
  - inversion R; subst. exact I.
  - destruct (step st o) as [st1|] eqn:S; [|discriminate].
    eapply IH; [|exact R]. eapply step_inv; eassumption.
Qed.

Lemma run_inv ops st : run ops = Some st -> inv st (spec_of ops).
Proof. apply run_from_inv. apply inv_init. Qed.

(* ------------------------------------------------------------------ the containers implement the specification *)

Lemma global_flat_spec st sp : inv st sp -> global_flat st = spec_global sp.
Proof.
  intros I. unfold global_flat, spec_global.
  rewrite (inv_fresh _ _ I 0 (inv_len _ _ I)), (inv_root _ _ I), (inv_left _ _ I), (inv_right _ _ I).
  reflexivity.
Qed.

Lemma view_spec st sp h :
  inv st sp -> h_cont h < length (s_conts st) -> view st h = spec_wrap sp (hmid st h).
Proof.
  intros I Hh. unfold view, spec_wrap, hmid. cbn [fst snd].
  rewrite (inv_fresh _ _ I _ Hh), (inv_left _ _ I), (inv_right _ _ I). reflexivity.
Qed.

Lemma find_related st sp k hid hs es :
  inv st sp -> Forall2 (hrel st) hs es ->
  option_map (view st) (find (handler_is k hid) hs) =
  option_map (fun e => spec_wrap sp (snd e)) (find (spec_is k hid) es) /\
  (find (handler_is k hid) hs = None <-> find (spec_is k hid) es = None).
Proof.
  intros I. induction 1 as [|h e hs es (H1 & H2 & H3) _ IH]; cbn [find]; [split; [reflexivity | tauto]|].
  assert (E : handler_is k hid h = spec_is k hid e).
  { unfold handler_is, spec_is. rewrite H1, H2. reflexivity. }
  rewrite E. destruct (spec_is k hid e).
  - cbn [option_map]. rewrite H2, (view_spec _ _ _ I H3). split; [reflexivity|]. split; discriminate.
  - exact IH.
Qed.

Lemma orel_view st sp oh oe :
  inv st sp -> orel st oh oe -> option_map (view st) oh = option_map (spec_wrap sp) oe.
Proof.
  intros I. destruct oh as [h|], oe as [v|]; cbn; try tauto.
  intros [-> Hh]. rewrite (view_spec _ _ _ I Hh). reflexivity.
Qed.

Lemma lookup_spec st sp k hid :
  inv st sp -> option_map (view st) (lookup st k hid) = spec_lookup sp k hid.
Proof.
  intros I. unfold lookup, spec_lookup.
  destruct (find_related st sp k hid _ _ I (inv_handlers _ _ I)) as [Hv Hn].
  destruct (find (handler_is k hid) (s_handlers st)) as [h|] eqn:Fh;
    destruct (find (spec_is k hid) (sp_handlers sp)) as [e|] eqn:Fe; cbn [option_map] in *.
  - exact Hv.
  - destruct Hn as [_ Hn]. specialize (Hn eq_refl). discriminate.
  - destruct Hn as [Hn _]. specialize (Hn eq_refl). discriminate.
  - destruct k; [apply (orel_view _ _ _ _ I (inv_uc _ _ I)) | apply (orel_view _ _ _ _ I (inv_up _ _ I))].
Qed.

Lemma exchange_refines cli srv spc sps m :
  inv cli spc -> inv srv sps -> exchange cli srv m = spec_exchange spc sps m.
Proof.
  intros Ic Is. destruct m; cbn [exchange spec_exchange];
    rewrite (global_flat_spec _ _ Ic), (global_flat_spec _ _ Is), (lookup_spec _ _ _ _ Is); reflexivity.
Qed.

(* effective chain: every registered handler's flat list is left ++ groups ++ own ++ right *)
Lemma handlers_effective st sp :
  inv st sp ->
  Forall2 (fun h e => fst e = h_kind h /\ fst (snd e) = (h_id h, h_stat h) /\
                      c_flat (get_cont st (h_cont h)) = sp_left sp ++ snd (snd e) ++ sp_right sp)
          (s_handlers st) (sp_handlers sp).
Proof.
  intros I. eapply Forall2_imp; [|apply (inv_handlers _ _ I)].
  intros h e (H1 & H2 & H3). destruct e as [k v]. cbn [fst snd] in *. subst v. unfold hmid. cbn [fst snd].
  rewrite (inv_fresh _ _ I _ H3), (inv_left _ _ I), (inv_right _ _ I). auto.
Qed.

Lemma handler_flats_spec st sp : inv st sp -> handler_flats st = spec_handler_flats sp.
Proof.
  intros I. unfold handler_flats, spec_handler_flats.
  pose proof (handlers_effective _ _ I) as F.
  induction F as [|h e hs es (H1 & H2 & H3) _ IH]; cbn [map]; [reflexivity|].
  rewrite IH, H3. destruct e as [k [[i s] c]]. cbn in *. inversion H2. reflexivity.
Qed.

(* ------------------------------------------------------------------ message flows *)

Ltac flow_cases h :=
  unfold exchange_call, exchange_push, exchange_call_sr, exchange_push_sr, srv_call_f, srv_push_f,
    srv_call, srv_push, srv_call_nopool, srv_call_badreply, srv_push_nopool,
    vetoes, code_not_found, code_conn_closed, code_internal;
  cbn zeta;
  try (destruct h as [[[?hid ?hs] ?hc]|]);
  repeat match goal with
         | |- context [Z.eqb ?x 0] => let E := fresh "V" in destruct (Z.eqb x 0) eqn:E; cbn
         end;
  cbn.

Ltac rewrite_V :=
  repeat match goal with
         | H : Z.eqb ?x 0 = _, H' : context [negb (Z.eqb ?x 0)] |- _ => rewrite H in H'
         | H : Z.eqb ?x 0 = _ |- context [negb (Z.eqb ?x 0)] => rewrite H
         end.

Ltac forall_cases :=
  repeat (apply Forall_cons || apply Forall_nil); cbn [fst snd];
  first [reflexivity | exact I | left; reflexivity | right; eauto | eauto].

Definition stages_nodupb (l : list stage) : bool := nodupb (map stage_id l).

Lemma stage_id_inj a b : stage_id a = stage_id b -> a = b.
Proof. destruct a, b; cbn; intros H; try reflexivity; discriminate. Qed.

Lemma stages_nodupb_NoDup l : stages_nodupb l = true -> NoDup l.
Proof.
  unfold stages_nodupb. intros H. apply nodupb_NoDup in H.
  apply NoDup_map_inv in H. exact H.
Qed.

Fixpoint increasingb (l : list nat) : bool :=
  match l with
  | a :: (b :: _) as r => Nat.ltb a b && increasingb r
  | _ => true
  end.

Lemma increasingb_sorted l : increasingb l = true -> StronglySorted lt l.
Proof.
  induction l as [|a r IH]; [constructor|].
  intros H. assert (Hr : increasingb r = true).
  { destruct r; [reflexivity|]. cbn in H. apply andb_true_iff in H. apply H. }
  specialize (IH Hr). constructor; [exact IH|].
  destruct r as [|b r]; [constructor|].
  cbn in H. apply andb_true_iff in H as [H1 _]. apply Nat.ltb_lt in H1.
  inversion IH; subst. constructor; [exact H1|].
  eapply Forall_impl; [|eassumption]. cbn. intros. lia.
Qed.

Definition all_inb (l seq : list stage) : bool :=
  forallb (fun s => existsb (fun t => N.eqb (stage_id s) (stage_id t)) seq) l.

Lemma all_inb_In l seq : all_inb l seq = true -> Forall (fun s => In s seq) l.
Proof.
  unfold all_inb. rewrite forallb_forall, Forall_forall. intros H s Hs.
  specialize (H s Hs). apply existsb_exists in H as (t & Ht & E).
  apply N.eqb_eq, stage_id_inj in E. subst. exact Ht.
Qed.

Definition ranks (pl : plan) : list nat := map (fun sc => stage_rank (fst sc)) pl.

Lemma exchange_call_shape gc gs h :
  let r := exchange_call gc gs h in
  stages_nodupb (map fst (r_cli_prh r ++ r_cli r)) = true /\
  stages_nodupb (map fst (r_srv_prh r ++ r_srv r)) = true /\
  Forall (fun sc => snd sc = gc) (r_cli_prh r ++ r_cli r) /\
  Forall (fun sc => snd sc = gs \/ exists hid hs, h = Some (hid, hs, snd sc)) (r_srv_prh r ++ r_srv r) /\
  increasingb (ranks (r_cli r)) = true /\ increasingb (ranks (r_srv r)) = true /\
  all_inb (map fst (r_cli r)) seq_call_caller = true /\
  all_inb (map fst (r_srv r)) seq_call_callee = true /\
  all_inb (map fst (r_cli_prh r ++ r_srv_prh r)) [PreReadHeader] = true.
Proof. flow_cases h; repeat split; try reflexivity; forall_cases. Qed.

Lemma exchange_push_shape gc gs h :
  let r := exchange_push gc gs h in
  stages_nodupb (map fst (r_cli_prh r ++ r_cli r)) = true /\
  stages_nodupb (map fst (r_srv_prh r ++ r_srv r)) = true /\
  Forall (fun sc => snd sc = gc) (r_cli_prh r ++ r_cli r) /\
  Forall (fun sc => snd sc = gs \/ exists hid hs, h = Some (hid, hs, snd sc)) (r_srv_prh r ++ r_srv r) /\
  increasingb (ranks (r_cli r)) = true /\ increasingb (ranks (r_srv r)) = true /\
  all_inb (map fst (r_cli r)) seq_push_sender = true /\
  all_inb (map fst (r_srv r)) seq_push_receiver = true /\
  all_inb (map fst (r_cli_prh r ++ r_srv_prh r)) [PreReadHeader] = true.
Proof. flow_cases h; repeat split; try reflexivity; forall_cases. Qed.

(* which container is current at which stage: the global one up to and including the
   header stage, the matched handler's own for the body stages; the reply stages use the
   handler's once routing has happened, else the global one *)
Definition current_ok (gs : list plugin) (h : option hview) (sc : stage * list plugin) : Prop :=
  match fst sc with
  | PreReadHeader | PostReadCallHeader | PostReadPushHeader => snd sc = gs
  | PreReadCallBody | PostReadCallBody | PreReadPushBody | PostReadPushBody =>
      exists hid hs, h = Some (hid, hs, snd sc)
  | PreWriteReply | PostWriteReply =>
      (exists hid hs, h = Some (hid, hs, snd sc) /\ vetoes PostReadCallHeader gs = false) \/
      (snd sc = gs /\ (h = None \/ vetoes PostReadCallHeader gs = true))
  | _ => False
  end.

Lemma exchange_call_current gc gs h :
  let r := exchange_call gc gs h in Forall (current_ok gs h) (r_srv_prh r ++ r_srv r).
Proof.
  unfold current_ok. flow_cases h; repeat (apply Forall_cons || apply Forall_nil); cbn [fst snd];
    unfold vetoes;
    rewrite_V; cbn [negb];
    first [reflexivity | solve [eauto] | left; solve [eauto] | right; solve [eauto]].
Qed.

Lemma exchange_push_current gc gs h :
  let r := exchange_push gc gs h in Forall (current_ok gs h) (r_srv_prh r ++ r_srv r).
Proof.
  unfold current_ok. flow_cases h; repeat (apply Forall_cons || apply Forall_nil); cbn [fst snd];
    first [reflexivity | solve [eauto]].
Qed.

(* ---- refusals ---- *)

Ltac plan_member H :=
  cbn in H; repeat (destruct H as [H|H]; [inversion H; subst; clear H|]); try contradiction.

Lemma call_veto_blocks gc gs h :
  let r := exchange_call gc gs h in
  forall s c, In (s, c) (r_cli r ++ r_srv_prh r ++ r_srv r) ->
    pre_handler s = true -> vetoes s c = true -> r_invoked r = [].
Proof.
  flow_cases h; intros s c Hin Hp Hv; try reflexivity; exfalso;
    plan_member Hin; cbn in Hp; try discriminate; unfold vetoes in Hv;
    rewrite_V; discriminate.
Qed.

Lemma push_veto_blocks gc gs h :
  let r := exchange_push gc gs h in
  forall s c, In (s, c) (r_cli r ++ r_srv_prh r ++ r_srv r) ->
    pre_handler s = true -> vetoes s c = true -> r_invoked r = [].
Proof.
  flow_cases h; intros s c Hin Hp Hv; try reflexivity; exfalso;
    plan_member Hin; cbn in Hp; try discriminate; unfold vetoes in Hv;
    rewrite_V; discriminate.
Qed.

(* the handler runs at most once, and only the matched one *)
Lemma call_invoked gc gs h :
  let r := exchange_call gc gs h in
  r_invoked r = [] \/ exists hid hs hc, h = Some (hid, hs, hc) /\ r_invoked r = [hid] /\ r_written r = true.
Proof. flow_cases h; first [left; reflexivity | right; eauto 6]. Qed.

Lemma push_invoked gc gs h :
  let r := exchange_push gc gs h in
  r_invoked r = [] \/ exists hid hs hc, h = Some (hid, hs, hc) /\ r_invoked r = [hid] /\ r_written r = true.
Proof. flow_cases h; first [left; reflexivity | right; eauto 6]. Qed.

(* a refusal on the caller's own side is the status of the call *)
Lemma call_caller_veto_status gc gs h :
  let r := exchange_call gc gs h in
  forall s c, In (s, c) (r_cli r) -> caller_status_stage s = true -> vetoes s c = true ->
    r_status r = verdict_of s c /\ r_status r <> 0%Z.
Proof.
  flow_cases h; intros s c Hin Hp Hv; plan_member Hin; cbn in Hp; try discriminate;
    unfold vetoes in Hv;
    rewrite_V; try discriminate;
    (split; [reflexivity | apply Z.eqb_neq; first [assumption | apply negb_true_iff; assumption]]).
Qed.

Lemma push_caller_veto_status gc gs h :
  let r := exchange_push gc gs h in
  forall s c, In (s, c) (r_cli r) -> caller_status_stage s = true -> vetoes s c = true ->
    r_status r = verdict_of s c /\ r_status r <> 0%Z.
Proof.
  flow_cases h; intros s c Hin Hp Hv; plan_member Hin; cbn in Hp; try discriminate;
    unfold vetoes in Hv;
    rewrite_V; try discriminate;
    (split; [reflexivity | apply Z.eqb_neq; first [assumption | apply negb_true_iff; assumption]]).
Qed.

(* a refusal on the handling side before the handler reaches the caller, unless the caller's
   own reply hooks refuse (their status then takes its place) or tear the session down *)
Lemma call_callee_veto_status gc gs h :
  let r := exchange_call gc gs h in
  forall s c, In (s, c) (r_srv r) -> callee_status_stage s = true -> vetoes s c = true ->
    vetoes PreReadHeader gc = false -> vetoes PostReadReplyHeader gc = false ->
    vetoes PreReadReplyBody gc = false ->
    r_status r = verdict_of s c /\ r_status r <> 0%Z.
Proof.
  flow_cases h; intros s c Hin Hp Hv H1 H2 H3; plan_member Hin; cbn in Hp; try discriminate;
    unfold vetoes in Hv, H1, H2, H3;
    rewrite_V; try discriminate;
    (split; [reflexivity | apply Z.eqb_neq; first [assumption | apply negb_true_iff; assumption]]).
Qed.

(* pre-write refusal on the sending side: nothing is written *)
Lemma call_prewrite_veto gc gs h :
  vetoes PreWriteCall gc = true ->
  let r := exchange_call gc gs h in
  r_written r = false /\ r_srv_prh r = [] /\ r_srv r = [] /\ r_invoked r = [] /\
  r_cli r = [(PreWriteCall, gc)] /\ r_status r = verdict_of PreWriteCall gc /\ r_status r <> 0%Z.
Proof.
  intros Hv. unfold exchange_call, exchange_call_sr. rewrite Hv. cbn. repeat split.
  apply vetoes_true. exact Hv.
Qed.

Lemma push_prewrite_veto gc gs h :
  vetoes PreWritePush gc = true ->
  let r := exchange_push gc gs h in
  r_written r = false /\ r_srv_prh r = [] /\ r_srv r = [] /\ r_invoked r = [] /\
  r_cli r = [(PreWritePush, gc)] /\ r_status r = verdict_of PreWritePush gc /\ r_status r <> 0%Z.
Proof.
  intros Hv. unfold exchange_push, exchange_push_sr. rewrite Hv. cbn. repeat split.
  apply vetoes_true. exact Hv.
Qed.

Lemma call_written_iff gc gs h : r_written (exchange_call gc gs h) = negb (vetoes PreWriteCall gc).
Proof. unfold exchange_call, exchange_call_sr. destruct (vetoes PreWriteCall gc); [reflexivity|]. cbn. destruct (sr_out _); [|reflexivity|reflexivity].
  repeat match goal with |- context [if ?b then _ else _] => destruct b end; reflexivity. Qed.

Lemma push_written_iff gc gs h : r_written (exchange_push gc gs h) = negb (vetoes PreWritePush gc).
Proof. unfold exchange_push, exchange_push_sr. destruct (vetoes PreWritePush gc); reflexivity. Qed.

(* ------------------------------------------------------------------ traces follow plans *)

Definition ev_le (e1 e2 : event) : Prop := stage_rank (snd e1) <= stage_rank (snd e2).

Lemma SS_app {A} (R : A -> A -> Prop) a b :
  StronglySorted R a -> StronglySorted R b -> (forall x y, In x a -> In y b -> R x y) ->
  StronglySorted R (a ++ b).
Proof.
  induction a as [|x a IH]; cbn [app]; intros Ha Hb Hc; [exact Hb|].
  inversion Ha; subst. constructor.
  - apply IH; auto. intros; apply Hc; [right|]; assumption.
  - apply Forall_app. split; [assumption|]. apply Forall_forall. intros y Hy. apply Hc; [left; reflexivity | exact Hy].
Qed.

Lemma SS_block s (t : list event) : (forall e, In e t -> snd e = s) -> StronglySorted ev_le t.
Proof.
  induction t as [|e t IH]; intros H; constructor.
  - apply IH. intros; apply H; right; assumption.
  - apply Forall_forall. intros y Hy. unfold ev_le. rewrite (H e), (H y); [lia | right; exact Hy | left; reflexivity].
Qed.

Lemma trace_sorted pl : StronglySorted lt (ranks pl) -> StronglySorted ev_le (trace_of pl).
Proof.
  induction pl as [|[s c] r IH]; cbn [ranks map]; intros H; [constructor|].
  inversion H as [|? ? Hr Hall]; subst.
  change (trace_of ((s, c) :: r)) with (fst (run_stage s c) ++ trace_of r).
  apply SS_app.
  - apply (SS_block s). intros e He. apply (run_stage_In _ _ _ He).
  - apply IH. exact Hr.
  - intros x y Hx Hy. unfold ev_le. destruct (run_stage_In _ _ _ Hx) as [-> _].
    destruct (trace_In _ _ Hy) as (c' & Hin & _).
    rewrite Forall_forall in Hall. cbn [fst] in Hall.
    assert (stage_rank s < stage_rank (snd y)); [|lia].
    apply Hall. unfold ranks. apply (in_map (fun sc => stage_rank (fst sc))) in Hin. exact Hin.
Qed.

Lemma trace_stages pl seq :
  Forall (fun s => In s seq) (map fst pl) -> Forall (fun e : event => In (snd e) seq) (trace_of pl).
Proof.
  intros H. apply Forall_forall. intros e He. destruct (trace_In _ _ He) as (c & Hin & _).
  rewrite Forall_forall in H. apply H. apply (in_map fst) in Hin. exact Hin.
Qed.

(* ------------------------------------------------------------------ system level: any two configuration histories, any message *)

Definition lookup_view (srv : pstate) (m : msg) : option hview :=
  option_map (view srv) (lookup srv (msg_kind m) (msg_target m)).

Lemma exchange_unfold cli srv m :
  exchange cli srv m =
  match m with
  | MCall _ => exchange_call (global_flat cli) (global_flat srv) (lookup_view srv m)
  | MPush _ => exchange_push (global_flat cli) (global_flat srv) (lookup_view srv m)
  end.
Proof. destruct m; reflexivity. Qed.

Lemma global_names st sp : inv st sp -> NoDup (map p_name (global_flat st)).
Proof. intros I. apply (inv_names _ _ I). apply (inv_len _ _ I). Qed.

Lemma lookup_range st sp k hid h : inv st sp -> lookup st k hid = Some h -> h_cont h < length (s_conts st).
Proof.
  intros I. unfold lookup. destruct (find _ _) as [h'|] eqn:F.
  - intros E. inversion E; subst. apply find_some in F as [Hin _].
    pose proof (inv_handlers _ _ I) as F2.
    clear -Hin F2. induction F2 as [|a b l l' (_ & _ & H3) _ IH]; [destruct Hin|].
    destruct Hin as [<-|Hin]; auto.
  - pose proof (inv_uc _ _ I) as U1. pose proof (inv_up _ _ I) as U2.
    destruct k; intros E; [rewrite E in U1 | rewrite E in U2]; cbn in *.
    + destruct (sp_unk_call sp); [apply U1 | contradiction].
    + destruct (sp_unk_push sp); [apply U2 | contradiction].
Qed.

Lemma lookup_names st sp m hid hs hc :
  inv st sp -> lookup_view st m = Some (hid, hs, hc) -> NoDup (map p_name hc).
Proof.
  intros I. unfold lookup_view. destruct (lookup st _ _) as [h|] eqn:L; [|discriminate].
  cbn. unfold view. intros E. inversion E; subst. apply (inv_names _ _ I). eapply lookup_range; eassumption.
Qed.

Lemma hooks_once_lemma opsc opss cli srv m :
  run opsc = Some cli -> run opss = Some srv ->
  let r := exchange cli srv m in
  NoDup (trace_of (r_cli_prh r ++ r_cli r)) /\ NoDup (trace_of (r_srv_prh r ++ r_srv r)).
Proof.
  intros Rc Rs. pose proof (run_inv _ _ Rc) as Ic. pose proof (run_inv _ _ Rs) as Is.
  cbn zeta. rewrite exchange_unfold.
  assert (Hc := global_names _ _ Ic). assert (Hs := global_names _ _ Is).
  assert (Hh : forall hid hs hc, lookup_view srv m = Some (hid, hs, hc) -> NoDup (map p_name hc))
    by (intros; eapply lookup_names; eassumption).
  destruct m.
  - destruct (exchange_call_shape (global_flat cli) (global_flat srv) (lookup_view srv (MCall hid)))
      as (N1 & N2 & F1 & F2 & _). cbn zeta in *. split; apply trace_nodup.
    + apply stages_nodupb_NoDup. exact N1.
    + intros s c Hin. rewrite Forall_forall in F1. pose proof (F1 _ Hin) as E1. cbn [snd] in E1. rewrite E1. exact Hc.
    + apply stages_nodupb_NoDup. exact N2.
    + intros s c Hin. rewrite Forall_forall in F2. destruct (F2 _ Hin) as [E|(i & hs & E)]; cbn [snd] in E.
      * rewrite E. exact Hs.
      * eapply Hh. exact E.
  - destruct (exchange_push_shape (global_flat cli) (global_flat srv) (lookup_view srv (MPush hid)))
      as (N1 & N2 & F1 & F2 & _). cbn zeta in *. split; apply trace_nodup.
    + apply stages_nodupb_NoDup. exact N1.
    + intros s c Hin. rewrite Forall_forall in F1. pose proof (F1 _ Hin) as E1. cbn [snd] in E1. rewrite E1. exact Hc.
    + apply stages_nodupb_NoDup. exact N2.
    + intros s c Hin. rewrite Forall_forall in F2. destruct (F2 _ Hin) as [E|(i & hs & E)]; cbn [snd] in E.
      * rewrite E. exact Hs.
      * eapply Hh. exact E.
Qed.

Lemma hooks_stage_order_lemma cli srv m :
  let r := exchange cli srv m in
  StronglySorted ev_le (trace_of (r_cli r)) /\
  Forall (fun e : event => In (snd e) (caller_seq m)) (trace_of (r_cli r)) /\
  StronglySorted ev_le (trace_of (r_srv r)) /\
  Forall (fun e : event => In (snd e) (callee_seq m)) (trace_of (r_srv r)) /\
  Forall (fun e : event => snd e = PreReadHeader) (trace_of (r_cli_prh r ++ r_srv_prh r)).
Proof.
  cbn zeta. rewrite exchange_unfold. destruct m.
  - destruct (exchange_call_shape (global_flat cli) (global_flat srv) (lookup_view srv (MCall hid)))
      as (_ & _ & _ & _ & S1 & S2 & M1 & M2 & M3). cbn zeta in *.
    repeat split.
    + apply trace_sorted, increasingb_sorted, S1.
    + apply trace_stages, all_inb_In, M1.
    + apply trace_sorted, increasingb_sorted, S2.
    + apply trace_stages, all_inb_In, M2.
    + eapply Forall_impl; [|apply (trace_stages _ [PreReadHeader]), all_inb_In, M3].
      cbn. intros e [H|[]]. symmetry. exact H.
  - destruct (exchange_push_shape (global_flat cli) (global_flat srv) (lookup_view srv (MPush hid)))
      as (_ & _ & _ & _ & S1 & S2 & M1 & M2 & M3). cbn zeta in *.
    repeat split.
    + apply trace_sorted, increasingb_sorted, S1.
    + apply trace_stages, all_inb_In, M1.
    + apply trace_sorted, increasingb_sorted, S2.
    + apply trace_stages, all_inb_In, M2.
    + eapply Forall_impl; [|apply (trace_stages _ [PreReadHeader]), all_inb_In, M3].
      cbn. intros e [H|[]]. symmetry. exact H.
Qed.

(* the chain a matched handler's hooks walk, in terms of the configuration *)
Lemma spec_lookup_chain sp k hid v :
  spec_lookup sp k hid = Some v ->
  exists chain, snd v = sp_left sp ++ chain ++ sp_right sp /\
    ((exists hs, In (k, (fst (fst v), hs, chain)) (sp_handlers sp) /\ fst (fst v) = hid) \/
     (forall e, In e (sp_handlers sp) -> spec_is k hid e = false) /\
     exists hs, match k with KCall => sp_unk_call sp | KPush => sp_unk_push sp end = Some (fst (fst v), hs, chain)).
Proof.
  unfold spec_lookup. destruct (find (spec_is k hid) (sp_handlers sp)) as [[k' [[i hs] ch]]|] eqn:F.
  - intros E. inversion E; subst; clear E. apply find_some in F as [Hin Hm].
    unfold spec_is in Hm. cbn in Hm. apply andb_true_iff in Hm as [Hk Hi].
    apply N.eqb_eq in Hi. subst.
    assert (k' = k) by (destruct k', k; cbn in Hk; congruence). subst.
    exists ch. cbn. split; [reflexivity|]. left. exists hs. split; [exact Hin | reflexivity].
  - destruct (match k with KCall => sp_unk_call sp | KPush => sp_unk_push sp end) as [[[i hs] ch]|] eqn:U; [|discriminate].
    cbn. intros E. inversion E; subst; clear E. exists ch. cbn. split; [reflexivity|]. right.
    split; [intros e He; apply (find_none _ _ F e He) | exists hs; reflexivity].
Qed.

(* registration order and scope, stated on the configuration: every stage function that ran
   walked either the global chain left ++ right or the matched handler's chain
   left ++ groups ++ own ++ right, in list order, up to the first refusal *)
Lemma hooks_registration_order_lemma opsc opss cli srv m :
  run opsc = Some cli -> run opss = Some srv ->
  let r := exchange cli srv m in
  let spc := spec_of opsc in let sps := spec_of opss in
  (forall s c, In (s, c) (r_cli_prh r ++ r_cli r) -> c = sp_left spc ++ sp_right spc) /\
  (forall s c, In (s, c) (r_srv_prh r ++ r_srv r) ->
     c = sp_left sps ++ sp_right sps \/
     exists v, spec_lookup sps (msg_kind m) (msg_target m) = Some v /\ c = snd v) /\
  (forall s c, In (s, c) (r_cli_prh r ++ r_cli r ++ r_srv_prh r ++ r_srv r) ->
     exists rest, map (ev s) (impls s c) = fst (run_stage s c) ++ rest /\
                  (vetoes s c = false -> rest = [])).
Proof.
  intros Rc Rs. pose proof (run_inv _ _ Rc) as Ic. pose proof (run_inv _ _ Rs) as Is.
  cbn zeta. rewrite (exchange_refines _ _ _ _ m Ic Is).
  split; [|split].
  - intros s c Hin. destruct m; cbn [spec_exchange] in Hin.
    + destruct (exchange_call_shape (spec_global (spec_of opsc)) (spec_global (spec_of opss)) (spec_lookup (spec_of opss) KCall hid))
        as (_ & _ & F1 & _). cbn zeta in F1. rewrite Forall_forall in F1. apply (F1 _ Hin).
    + destruct (exchange_push_shape (spec_global (spec_of opsc)) (spec_global (spec_of opss)) (spec_lookup (spec_of opss) KPush hid))
        as (_ & _ & F1 & _). cbn zeta in F1. rewrite Forall_forall in F1. apply (F1 _ Hin).
  - intros s c Hin. destruct m; cbn [spec_exchange msg_kind msg_target] in *.
    + destruct (exchange_call_shape (spec_global (spec_of opsc)) (spec_global (spec_of opss)) (spec_lookup (spec_of opss) KCall hid))
        as (_ & _ & _ & F2 & _). cbn zeta in F2. rewrite Forall_forall in F2.
      destruct (F2 _ Hin) as [E|(i & hs & E)]; cbn [snd] in E; [left; exact E | right; eexists; split; [exact E | reflexivity]].
    + destruct (exchange_push_shape (spec_global (spec_of opsc)) (spec_global (spec_of opss)) (spec_lookup (spec_of opss) KPush hid))
        as (_ & _ & _ & F2 & _). cbn zeta in F2. rewrite Forall_forall in F2.
      destruct (F2 _ Hin) as [E|(i & hs & E)]; cbn [snd] in E; [left; exact E | right; eexists; split; [exact E | reflexivity]].
  - intros s c _. destruct (run_stage_prefix s c) as [rest E]. exists rest. split; [exact E|].
    intros Hv. apply vetoes_false, verdict_zero_complete in Hv. rewrite Hv in E.
    rewrite <- (app_nil_r (map (ev s) (impls s c))) in E at 1. apply app_inv_head in E. symmetry. exact E.
Qed.

Lemma hooks_scope_lemma opsc opss cli srv m :
  run opsc = Some cli -> run opss = Some srv ->
  let r := exchange cli srv m in let sps := spec_of opss in
  forall e, In e (trace_of (r_srv_prh r ++ r_srv r)) ->
    exists p, p_name p = fst e /\ p_impl p (snd e) = true /\
      (In p (sp_left sps ++ sp_right sps) \/
       exists v, spec_lookup sps (msg_kind m) (msg_target m) = Some v /\ In p (snd v)).
Proof.
  intros Rc Rs. cbn zeta. intros e He.
  destruct (trace_In _ _ He) as (c & Hin & p & Hp & Hn & Hi).
  destruct (hooks_registration_order_lemma _ _ _ _ m Rc Rs) as (_ & H2 & _). cbn zeta in H2.
  exists p. split; [exact Hn|]. split; [exact Hi|].
  destruct (H2 _ _ Hin) as [->|(v & Hv & ->)]; [left; exact Hp | right; exists v; auto].
Qed.

Lemma current_container_lemma cli srv m :
  let r := exchange cli srv m in
  Forall (current_ok (global_flat srv) (lookup_view srv m)) (r_srv_prh r ++ r_srv r).
Proof.
  cbn zeta. rewrite exchange_unfold. destruct m; [apply exchange_call_current | apply exchange_push_current].
Qed.

Lemma veto_blocks_handler_lemma cli srv m :
  let r := exchange cli srv m in
  (forall s c, In (s, c) (r_cli r ++ r_srv_prh r ++ r_srv r) ->
     pre_handler s = true -> vetoes s c = true -> r_invoked r = []) /\
  (r_invoked r = [] \/
   exists hid hs hc, lookup_view srv m = Some (hid, hs, hc) /\ r_invoked r = [hid] /\ r_written r = true).
Proof.
  cbn zeta. rewrite exchange_unfold. destruct m; split;
    first [apply call_veto_blocks | apply push_veto_blocks | apply call_invoked | apply push_invoked].
Qed.

Lemma veto_status_lemma cli srv m :
  let r := exchange cli srv m in
  (forall s c, In (s, c) (r_cli r) -> caller_status_stage s = true -> vetoes s c = true ->
     r_status r = verdict_of s c /\ r_status r <> 0%Z) /\
  (forall s c, In (s, c) (r_srv r) -> callee_status_stage s = true -> vetoes s c = true ->
     vetoes PreReadHeader (global_flat cli) = false ->
     vetoes PostReadReplyHeader (global_flat cli) = false ->
     vetoes PreReadReplyBody (global_flat cli) = false ->
     r_status r = verdict_of s c /\ r_status r <> 0%Z).
Proof.
  cbn zeta. rewrite exchange_unfold. destruct m; split;
    first [apply call_caller_veto_status | apply push_caller_veto_status | apply call_callee_veto_status | idtac].
  (* a PUSH has no callee stage that answers with a status *)
  intros s c Hin Hs. exfalso. revert s c Hin Hs.
  flow_cases (lookup_view srv (MPush hid)); intros s c Hin Hs; plan_member Hin; cbn in Hs; discriminate.
Qed.

Lemma prewrite_veto_lemma cli srv m :
  let r := exchange cli srv m in
  let pre := match m with MCall _ => PreWriteCall | MPush _ => PreWritePush end in
  (vetoes pre (global_flat cli) = true ->
     r_written r = false /\ r_srv_prh r = [] /\ r_srv r = [] /\ r_invoked r = [] /\
     r_cli r = [(pre, global_flat cli)] /\
     r_status r = verdict_of pre (global_flat cli) /\ r_status r <> 0%Z) /\
  r_written r = negb (vetoes pre (global_flat cli)).
Proof.
  cbn zeta. rewrite exchange_unfold. destruct m; split;
    first [apply call_prewrite_veto | apply push_prewrite_veto | apply call_written_iff | apply push_written_iff].
Qed.

(* [vetoes] is exactly "a hook of that stage on that chain fired and answered non-OK" *)
Lemma vetoes_iff_hook_refused s c :
  vetoes s c = true <->
  exists pre v, fst (run_stage s c) = map (ev s) (pre ++ [v]) /\ In v c /\ p_impl v s = true /\
                p_verdict v s <> 0%Z /\ p_verdict v s = verdict_of s c /\
                (forall p, In p pre -> p_verdict p s = 0%Z).
Proof.
  split.
  - intros H. apply vetoes_true in H. destruct (verdict_nonzero_source _ _ H) as (pre & v & H1 & H2 & H3 & H4 & H5).
    exists pre, v. repeat split; auto. congruence.
  - intros (pre & v & _ & _ & _ & Hn & He & _). apply vetoes_true. congruence.
Qed.

(* ------------------------------------------------------------------ the pinned tree: counterexamples *)

Definition plug (n : N) : plugin := mkPlugin n (fun _ => true) (fun _ => 0%Z).

(* one SubRoute, one handler under it, then a global appended on the right *)
Definition witness_stale : list op :=
  [OSub 0 [plug 1]; ORoute KCall 1 7 0%Z [plug 2]; ORight [plug 3]].

(* the probe of the design phase: three nested SubRoutes *)
Definition witness_stale_deep : list op :=
  [OSub 0 [plug 1]; OSub 1 [plug 2]; OSub 2 [plug 3]; ORoute KCall 3 7 0%Z [plug 4]; ORight [plug 5]].

(* two sibling handlers under a router whose middle slice has spare capacity *)
Definition witness_alias : list op :=
  [OSub 0 [plug 1; plug 2]; OSub 1 [plug 3];
   ORoute KCall 2 7 0%Z [plug 4]; ORoute KCall 2 8 0%Z [plug 5]; ORight [plug 6]].

Lemma prefix_stale_refuted :
  exists ops st, run_prefix false ops = Some st /\
    handler_flats_prefix st <> spec_handler_flats (spec_of ops) /\
    handler_flats_prefix st = [(7%N, [1%N; 2%N])] /\
    spec_handler_flats (spec_of ops) = [(7%N, [1%N; 2%N; 3%N])].
Proof. exists witness_stale. eexists. split; [vm_compute; reflexivity|]. vm_compute. repeat split; congruence. Qed.

Lemma prefix_stale_deep_refuted :
  exists st, run_prefix false witness_stale_deep = Some st /\
    handler_flats_prefix st = [(7%N, [1%N; 2%N; 3%N; 4%N])] /\
    spec_handler_flats (spec_of witness_stale_deep) = [(7%N, [1%N; 2%N; 3%N; 4%N; 5%N])].
Proof. eexists. split; [vm_compute; reflexivity|]. vm_compute. split; reflexivity. Qed.

(* with the tree refresh made recursive but the append left as pinned, the sibling's
   plugin 5 has replaced plugin 4 in handler 7's list *)
Lemma prefix_alias_refuted :
  exists ops st, run_prefix true ops = Some st /\
    handler_flats_prefix st <> spec_handler_flats (spec_of ops) /\
    handler_flats_prefix st = [(7%N, [1%N; 2%N; 3%N; 5%N; 6%N]); (8%N, [1%N; 2%N; 3%N; 5%N; 6%N])] /\
    spec_handler_flats (spec_of ops) = [(7%N, [1%N; 2%N; 3%N; 4%N; 6%N]); (8%N, [1%N; 2%N; 3%N; 5%N; 6%N])].
Proof. exists witness_alias. eexists. split; [vm_compute; reflexivity|]. vm_compute. repeat split; congruence. Qed.

(* the repaired model on the same histories *)
Lemma repaired_on_witnesses :
  (exists st, run witness_stale = Some st /\ handler_flats st = [(7%N, [1%N; 2%N; 3%N])]) /\
  (exists st, run witness_stale_deep = Some st /\ handler_flats st = [(7%N, [1%N; 2%N; 3%N; 4%N; 5%N])]) /\
  (exists st, run witness_alias = Some st /\
     handler_flats st = [(7%N, [1%N; 2%N; 3%N; 4%N; 6%N]); (8%N, [1%N; 2%N; 3%N; 5%N; 6%N])]).
Proof. repeat split; eexists; (split; [vm_compute; reflexivity | vm_compute; reflexivity]). Qed.

Lemma effective_chain_lemma ops st :
  run ops = Some st ->
  let sp := spec_of ops in
  global_flat st = sp_left sp ++ sp_right sp /\
  Forall2 (fun h e => fst e = h_kind h /\ fst (snd e) = (h_id h, h_stat h) /\
                      c_flat (get_cont st (h_cont h)) = sp_left sp ++ snd (snd e) ++ sp_right sp)
          (s_handlers st) (sp_handlers sp) /\
  option_map (view st) (s_unk_call st) = option_map (spec_wrap sp) (sp_unk_call sp) /\
  option_map (view st) (s_unk_push st) = option_map (spec_wrap sp) (sp_unk_push sp) /\
  handler_flats st = spec_handler_flats sp.
Proof.
  intros R. pose proof (run_inv _ _ R) as I. cbn zeta.
  split; [apply (global_flat_spec _ _ I)|].
  split; [apply (handlers_effective _ _ I)|].
  split; [apply (orel_view _ _ _ _ I (inv_uc _ _ I))|].
  split; [apply (orel_view _ _ _ _ I (inv_up _ _ I)) | apply (handler_flats_spec _ _ I)].
Qed.

Lemma exchange_refines_lemma opsc opss cli srv m :
  run opsc = Some cli -> run opss = Some srv ->
  exchange cli srv m = spec_exchange (spec_of opsc) (spec_of opss) m.
Proof. intros Rc Rs. apply exchange_refines; apply run_inv; assumption. Qed.

(* every chain a reachable state walks has pairwise distinct plugin names (refresh exits
   the process otherwise) *)
Lemma chains_distinct_lemma ops st :
  run ops = Some st ->
  forall j, j < length (s_conts st) -> NoDup (map p_name (c_flat (get_cont st j))).
Proof. intros R. apply (inv_names _ _ (run_inv _ _ R)). Qed.

(* ------------------------------------------------------------------ histories with distinct names never exit *)

Definition names (l : list plugin) : list N := map p_name l.
Definition chain_of (st : pstate) (j : nat) : list plugin :=
  s_left st ++ c_middle (get_cont st j) ++ s_right st.

Record ok (st : pstate) (used : list N) (nr : nat) (hs : list (kind * N)) : Prop := mkOk {
  ok_nr : length (s_routers st) = nr;
  ok_rr : Forall (fun i => i < length (s_conts st)) (s_routers st);
  ok_hs : forall k hid, existsb (handler_is k hid) (s_handlers st) = existsb (key_is k hid) hs;
  ok_len : 0 < length (s_conts st);
  ok_nd : forall j, NoDup (names (chain_of st j));
  ok_used : forall j n, In n (names (chain_of st j)) -> In n used
}.

Lemma refresh_all_total ids : forall st,
  (forall j, NoDup (names (chain_of st j))) -> exists st', refresh_all st ids = Some st'.
Proof.
  induction ids as [|i r IH]; intros st H; cbn [refresh_all]; [eauto|].
  unfold refresh. fold (chain_of st i). unfold names in H. rewrite (NoDup_nodupb _ (H i)).
  apply IH. intros j. unfold chain_of, get_cont, set_cont. cbn.
  destruct (Nat.eq_dec i j) as [->|Hne].
  - destruct (Nat.lt_ge_cases j (length (s_conts st))).
    + rewrite nth_upd_eq by assumption. cbn. apply (H j).
    + rewrite nth_overflow by (rewrite upd_length; lia).
      specialize (H j). unfold chain_of, get_cont in H. rewrite nth_overflow in H by lia. exact H.
  - rewrite nth_upd_neq by exact Hne. apply (H j).
Qed.

Lemma nodup_insert (l m r ps : list N) :
  NoDup (l ++ m ++ r) -> NoDup ps -> (forall n, In n ps -> ~ In n (l ++ m ++ r)) ->
  NoDup (l ++ (m ++ ps) ++ r).
Proof.
  intros H1 H2 H3.
  apply (Permutation_NoDup (l := ps ++ (l ++ m ++ r))).
  - rewrite <- app_assoc.
    transitivity (l ++ ps ++ m ++ r).
    + apply Permutation_app_swap_app.
    + apply Permutation_app_head. rewrite !app_assoc. apply Permutation_app_tail. apply Permutation_app_comm.
  - apply nodup_app_disjoint; assumption.
Qed.

Lemma nodup_front (ps x : list N) :
  NoDup x -> NoDup ps -> (forall n, In n ps -> ~ In n x) -> NoDup (ps ++ x).
Proof. intros. apply nodup_app_disjoint; assumption. Qed.

Lemma nodup_back (l m r ps : list N) :
  NoDup (l ++ m ++ r) -> NoDup ps -> (forall n, In n ps -> ~ In n (l ++ m ++ r)) ->
  NoDup (l ++ m ++ r ++ ps).
Proof.
  intros H1 H2 H3.
  replace (l ++ m ++ r ++ ps) with ((l ++ m ++ r) ++ ps) by (rewrite <- !app_assoc; reflexivity).
  apply (Permutation_NoDup (l := ps ++ (l ++ m ++ r))); [apply Permutation_app_comm|].
  apply nodup_app_disjoint; assumption.
Qed.

Lemma clone_nth st parent ps st' n :
  clone st parent ps = Some (st', n) ->
  n = length (s_conts st) /\ parent < n /\ length (s_conts st') = S n /\
  s_left st' = s_left st /\ s_right st' = s_right st /\
  s_routers st' = s_routers st /\ s_handlers st' = s_handlers st /\
  s_unk_call st' = s_unk_call st /\ s_unk_push st' = s_unk_push st /\
  forall j, c_middle (get_cont st' j) =
            if Nat.eqb j n then c_middle (get_cont st parent) ++ ps else c_middle (get_cont st j).
Proof.
  intros C. destruct (clone_some _ _ _ _ _ C) as (Hn & Hp & E & _). cbn zeta in E.
  split; [exact Hn|]. split; [exact Hp|].
  split; [subst st'; cbn; rewrite upd_length, app_length; cbn; lia|].
  split; [subst st'; reflexivity|]. split; [subst st'; reflexivity|].
  split; [subst st'; reflexivity|]. split; [subst st'; reflexivity|].
  split; [subst st'; reflexivity|]. split; [subst st'; reflexivity|].
  intros j. subst st'. unfold get_cont. cbn [with_conts s_conts].
  destruct (Nat.eq_dec j parent) as [->|Hne].
  - rewrite nth_upd_eq by (rewrite app_length; cbn; lia). cbn [c_middle].
    replace (Nat.eqb parent n) with false by (symmetry; apply Nat.eqb_neq; lia). reflexivity.
  - rewrite nth_upd_neq by congruence.
    destruct (Nat.eqb j n) eqn:E2.
    + apply Nat.eqb_eq in E2. subst j. rewrite Hn, app_nth2, Nat.sub_diag by lia. reflexivity.
    + apply Nat.eqb_neq in E2. destruct (Nat.lt_ge_cases j n).
      * rewrite app_nth1 by lia. reflexivity.
      * rewrite !nth_overflow; [reflexivity | lia | rewrite app_length; cbn; lia].
Qed.

Lemma clone_succeeds st parent ps :
  parent < length (s_conts st) ->
  NoDup (names (s_left st ++ (c_middle (get_cont st parent) ++ ps) ++ s_right st)) ->
  exists st' n, clone st parent ps = Some (st', n).
Proof.
  intros Hp Hchk. unfold clone. apply Nat.ltb_lt in Hp as Hp'. rewrite Hp'.
  unfold refresh. unfold get_cont in *. cbn [with_conts s_conts s_left s_right].
  rewrite app_nth2, Nat.sub_diag by lia. cbn [nth c_middle].
  unfold names in Hchk. rewrite (NoDup_nodupb _ Hchk). eauto.
Qed.

Lemma clone_total st used nr hs parent ps :
  ok st used nr hs -> parent < length (s_conts st) ->
  NoDup (names ps) -> (forall n, In n (names ps) -> ~ In n used) ->
  exists st' n, clone st parent ps = Some (st', n) /\ n = length (s_conts st) /\
    s_routers st' = s_routers st /\ s_handlers st' = s_handlers st /\
    length (s_conts st') = S n /\
    (forall j, NoDup (names (chain_of st' j))) /\
    (forall j m, In m (names (chain_of st' j)) -> In m (used ++ names ps)).
Proof.
  intros O Hp Hn Hf.
  assert (Hchk : NoDup (names (s_left st ++ (c_middle (get_cont st parent) ++ ps) ++ s_right st))).
  { unfold names. rewrite !map_app. apply nodup_insert.
    - rewrite <- !map_app. apply (ok_nd _ _ _ _ O parent).
    - exact Hn.
    - intros n Hin Hx. apply (Hf n Hin). apply (ok_used _ _ _ _ O parent). unfold names, chain_of.
      rewrite !map_app. exact Hx. }
  destruct (clone_succeeds _ _ _ Hp Hchk) as (st' & n & C).
  destruct (clone_nth _ _ _ _ _ C) as (En & _ & Hlen & EL & ER & ERo & EH & _ & _ & Hmid).
  exists st', n. split; [exact C|]. split; [exact En|]. split; [exact ERo|]. split; [exact EH|].
  split; [exact Hlen|]. split.
  - intros j. unfold chain_of. rewrite EL, ER, Hmid.
    destruct (Nat.eqb j n); [exact Hchk | apply (ok_nd _ _ _ _ O j)].
  - intros j m. unfold chain_of. rewrite EL, ER, Hmid. destruct (Nat.eqb j n).
    + unfold names. rewrite !map_app, !in_app_iff. intros [H|[[H|H]|H]].
      * left. apply (ok_used _ _ _ _ O parent). unfold names, chain_of. rewrite !map_app, !in_app_iff. auto.
      * left. apply (ok_used _ _ _ _ O parent). unfold names, chain_of. rewrite !map_app, !in_app_iff. auto.
      * right. exact H.
      * left. apply (ok_used _ _ _ _ O parent). unfold names, chain_of. rewrite !map_app, !in_app_iff. auto.
    + intros H. apply in_app_iff. left. apply (ok_used _ _ _ _ O j). exact H.
Qed.

Lemma refresh_all_mid ids st st' :
  refresh_all st ids = Some st' ->
  s_left st' = s_left st /\ s_right st' = s_right st /\ s_routers st' = s_routers st /\
  s_handlers st' = s_handlers st /\ length (s_conts st') = length (s_conts st) /\
  forall j, c_middle (get_cont st' j) = c_middle (get_cont st j).
Proof.
  intros R. destruct (refresh_all_some _ _ _ R) as (cs' & E & Hlen & Ha & Hb). subst st'.
  cbn [with_conts s_left s_right s_routers s_handlers s_conts]. repeat split; auto.
  intros j. unfold get_cont. cbn [with_conts s_conts].
  destruct (in_dec Nat.eq_dec j ids) as [Hi|Hi].
  - destruct (Nat.lt_ge_cases j (length cs')) as [Hj|Hj].
    + destruct (Ha j Hi Hj) as [Hx _]. rewrite Hx. reflexivity.
    + rewrite !nth_overflow by lia. reflexivity.
  - rewrite (Hb j Hi). reflexivity.
Qed.

Lemma nodup_app_l {A} (a b : list A) : NoDup (a ++ b) -> NoDup a.
Proof. induction a as [|x a IH]; cbn; intros H; [constructor|]. inversion H; subst. constructor; [|auto]. rewrite in_app_iff in *. tauto. Qed.
Lemma nodup_app_r {A} (a b : list A) : NoDup (a ++ b) -> NoDup b.
Proof. induction a as [|x a IH]; cbn; intros H; [exact H|]. inversion H; subst. auto. Qed.
Lemma nodup_app_disj {A} (a b : list A) x : NoDup (a ++ b) -> In x a -> ~ In x b.
Proof.
  induction a as [|y a IH]; cbn; intros H Hx; [destruct Hx|]. inversion H; subst.
  destruct Hx as [->|Hx]; [rewrite in_app_iff in *; tauto | auto].
Qed.

Lemma step_total st used nr hs o r :
  ok st used nr hs -> refs_ok nr hs (o :: r) = true ->
  NoDup (names (op_plugins o)) -> (forall n, In n (names (op_plugins o)) -> ~ In n used) ->
  exists st' nr' hs', step st o = Some st' /\ ok st' (used ++ names (op_plugins o)) nr' hs' /\
                      refs_ok nr' hs' r = true.
Proof.
  intros O Hr Hn Hf.
  destruct o as [parent ps | k rt hid hs0 ps | k hid hs0 ps | ps | ps | nm]; cbn [refs_ok op_plugins step] in *.
  - (* SubRoute *)
    apply andb_true_iff in Hr as [Hp Hr]. apply Nat.ltb_lt in Hp. rewrite <- (ok_nr _ _ _ _ O) in Hp.
    destruct (nth_error (s_routers st) parent) as [pc|] eqn:En; [|apply nth_error_None in En; lia].
    assert (Hpc : pc < length (s_conts st)) by (apply (nth_error_range _ _ _ (fun i => i < length (s_conts st)) En), (ok_rr _ _ _ _ O)).
    destruct (clone_total _ _ _ _ _ _ O Hpc Hn Hf) as (st1 & n & C & En' & ERo & EH & Hlen & Hnd & Hus).
    rewrite C. eexists _, (S nr), hs. split; [reflexivity|]. split; [|exact Hr].
    constructor; cbn [s_routers s_handlers s_conts s_left s_right].
    + rewrite ERo, app_length, (ok_nr _ _ _ _ O). cbn. lia.
    + rewrite ERo, Hlen. apply Forall_app. split; [|constructor; [lia | constructor]].
      eapply Forall_impl; [|apply (ok_rr _ _ _ _ O)]. cbn. intros. lia.
    + rewrite EH. apply (ok_hs _ _ _ _ O).
    + lia.
    + exact Hnd.
    + exact Hus.
  - (* Route* *)
    apply andb_true_iff in Hr as [Hr1 Hr]. apply andb_true_iff in Hr1 as [Hp Hk].
    apply Nat.ltb_lt in Hp. rewrite <- (ok_nr _ _ _ _ O) in Hp.
    destruct (nth_error (s_routers st) rt) as [pc|] eqn:En; [|apply nth_error_None in En; lia].
    assert (Hpc : pc < length (s_conts st)) by (apply (nth_error_range _ _ _ (fun i => i < length (s_conts st)) En), (ok_rr _ _ _ _ O)).
    rewrite (ok_hs _ _ _ _ O). apply negb_true_iff in Hk. rewrite Hk.
    destruct (clone_total _ _ _ _ _ _ O Hpc Hn Hf) as (st1 & n & C & En' & ERo & EH & Hlen & Hnd & Hus).
    rewrite C. eexists _, nr, (hs ++ [(k, hid)]). split; [reflexivity|]. split; [|exact Hr].
    constructor; cbn [s_routers s_handlers s_conts s_left s_right].
    + rewrite ERo. apply (ok_nr _ _ _ _ O).
    + rewrite ERo, Hlen. eapply Forall_impl; [|apply (ok_rr _ _ _ _ O)]. cbn. intros. lia.
    + intros k' hid'. rewrite EH, !existsb_app, (ok_hs _ _ _ _ O). reflexivity.
    + lia.
    + exact Hnd.
    + exact Hus.
  - (* SetUnknown* *)
    destruct (clone_total _ _ _ _ 0 _ O (ok_len _ _ _ _ O) Hn Hf) as (st1 & n & C & En' & ERo & EH & Hlen & Hnd & Hus).
    rewrite C. destruct k; (eexists _, nr, hs; split; [reflexivity|]; split; [|exact Hr];
      constructor; cbn [s_routers s_handlers s_conts s_left s_right];
      [ rewrite ERo; apply (ok_nr _ _ _ _ O)
      | rewrite ERo, Hlen; eapply Forall_impl; [|apply (ok_rr _ _ _ _ O)]; cbn; intros; lia
      | rewrite EH; apply (ok_hs _ _ _ _ O)
      | lia | exact Hnd | exact Hus ]).
  - (* AppendLeft *)
    set (st0 := mkSt (ps ++ s_left st) (s_right st) (s_conts st) (s_routers st) (s_handlers st) (s_unk_call st) (s_unk_push st)).
    assert (H0 : forall j, NoDup (names (chain_of st0 j))).
    { intros j. unfold chain_of, st0, get_cont. cbn. unfold names. rewrite <- app_assoc, map_app.
      apply nodup_front; [apply (ok_nd _ _ _ _ O j) | exact Hn |].
      intros n Hin Hx. apply (Hf n Hin). apply (ok_used _ _ _ _ O j). exact Hx. }
    unfold refresh_tree. destruct (refresh_all_total (tree_order (length (s_conts st0)) (s_conts st0) 0) st0 H0) as [st' R].
    fold st0. rewrite R. destruct (refresh_all_mid _ _ _ R) as (EL & ER & ERo & EH & Hlen & Hmid).
    eexists _, nr, hs. split; [reflexivity|]. split; [|exact Hr].
    constructor.
    + rewrite ERo. apply (ok_nr _ _ _ _ O).
    + rewrite ERo, Hlen. apply (ok_rr _ _ _ _ O).
    + rewrite EH. apply (ok_hs _ _ _ _ O).
    + rewrite Hlen. apply (ok_len _ _ _ _ O).
    + intros j. unfold chain_of. rewrite EL, ER, Hmid. apply (H0 j).
    + intros j n. unfold chain_of. rewrite EL, ER, Hmid. unfold st0, get_cont. cbn.
      unfold names. rewrite <- app_assoc, map_app, !in_app_iff. intros [H|H]; [right; exact H | left].
      apply (ok_used _ _ _ _ O j). exact H.
  - (* AppendRight *)
    set (st0 := mkSt (s_left st) (s_right st ++ ps) (s_conts st) (s_routers st) (s_handlers st) (s_unk_call st) (s_unk_push st)).
    assert (H0 : forall j, NoDup (names (chain_of st0 j))).
    { intros j. unfold chain_of, st0, get_cont. cbn. unfold names. rewrite !map_app.
      apply nodup_back; [| exact Hn |].
      - rewrite <- !map_app. apply (ok_nd _ _ _ _ O j).
      - intros n Hin Hx. apply (Hf n Hin). apply (ok_used _ _ _ _ O j). unfold names, chain_of. rewrite !map_app. exact Hx. }
    unfold refresh_tree. destruct (refresh_all_total (tree_order (length (s_conts st0)) (s_conts st0) 0) st0 H0) as [st' R].
    fold st0. rewrite R. destruct (refresh_all_mid _ _ _ R) as (EL & ER & ERo & EH & Hlen & Hmid).
    eexists _, nr, hs. split; [reflexivity|]. split; [|exact Hr].
    constructor.
    + rewrite ERo. apply (ok_nr _ _ _ _ O).
    + rewrite ERo, Hlen. apply (ok_rr _ _ _ _ O).
    + rewrite EH. apply (ok_hs _ _ _ _ O).
    + rewrite Hlen. apply (ok_len _ _ _ _ O).
    + intros j. unfold chain_of. rewrite EL, ER, Hmid. apply (H0 j).
    + intros j n. unfold chain_of. rewrite EL, ER, Hmid. unfold st0, get_cont. cbn.
      unfold names. rewrite !map_app, !in_app_iff. intros [H|[H|[H|H]]]; [left|left|left|right; exact H];
        apply (ok_used _ _ _ _ O j); unfold names, chain_of, get_cont; rewrite !map_app, !in_app_iff; auto.
  - (* Remove *)
    unfold remove_op. cbv zeta.
    destruct (has_name nm (c_flat (get_cont st 0))) eqn:Hh.
    2:{ exists st, nr, hs. split; [reflexivity|]. split; [|exact Hr]. cbn [names map]. rewrite app_nil_r. exact O. }
    set (c0' := mkCont (remove_first nm (c_middle (get_cont st 0))) (c_flat (get_cont st 0)) (c_kids (get_cont st 0))).
    set (st0 := mkSt (remove_first nm (s_left st)) (remove_first nm (s_right st)) (upd 0 c0' (s_conts st))
                     (s_routers st) (s_handlers st) (s_unk_call st) (s_unk_push st)).
    assert (Hsub : forall j, subl (names (chain_of st0 j)) (names (chain_of st j))).
    { intros j. unfold names, chain_of, st0. cbn [s_left s_right]. apply subl_map.
      apply subl_app; [apply remove_first_subl|]. apply subl_app; [|apply remove_first_subl].
      unfold get_cont, c0'. cbn [s_conts]. apply mid_upd0_subl. }
    assert (H0 : forall j, NoDup (names (chain_of st0 j))).
    { intros j. apply (subl_NoDup _ _ (Hsub j)). apply (ok_nd _ _ _ _ O j). }
    unfold refresh_tree. destruct (refresh_all_total (tree_order (length (s_conts st0)) (s_conts st0) 0) st0 H0) as [st' R].
    fold c0'. fold st0. rewrite R. destruct (refresh_all_mid _ _ _ R) as (EL & ER & ERo & EH & Hlen & Hmid).
    assert (Hl0 : length (s_conts st0) = length (s_conts st)) by (unfold st0; cbn [s_conts]; apply upd_length).
    eexists _, nr, hs. split; [reflexivity|]. split; [|exact Hr].
    constructor.
    + rewrite ERo. apply (ok_nr _ _ _ _ O).
    + rewrite ERo, Hlen, Hl0. apply (ok_rr _ _ _ _ O).
    + rewrite EH. apply (ok_hs _ _ _ _ O).
    + rewrite Hlen, Hl0. apply (ok_len _ _ _ _ O).
    + intros j. unfold chain_of. rewrite EL, ER, Hmid. apply (H0 j).
    + intros j n. unfold chain_of. rewrite EL, ER, Hmid. intros H. apply in_or_app. left.
      apply (ok_used _ _ _ _ O j). apply (subl_In _ _ _ (Hsub j)). exact H.
Qed.

Lemma run_from_total ops : forall st used nr hs,
  ok st used nr hs -> refs_ok nr hs ops = true ->
  NoDup (names (history_plugins ops)) ->
  (forall n, In n (names (history_plugins ops)) -> ~ In n used) ->
  exists st', run_from st ops = Some st'.
Proof.
  induction ops as [|o r IH]; intros st used nr hs O Hr Hn Hf; cbn [run_from]; [eauto|].
  unfold history_plugins in Hn, Hf. cbn [flat_map] in Hn, Hf. unfold names in Hn, Hf. rewrite map_app in Hn, Hf.
  destruct (step_total _ _ _ _ o r O Hr) as (st1 & nr' & hs' & S & O' & Hr').
  - apply (nodup_app_l _ _ Hn).
  - intros n Hin. apply Hf. apply in_app_iff. left. exact Hin.
  - rewrite S. apply (IH st1 _ nr' hs' O' Hr').
    + apply (nodup_app_r _ _ Hn).
    + intros n Hin Hx. apply in_app_iff in Hx as [Hx|Hx].
      * apply (Hf n); [apply in_app_iff; right; exact Hin | exact Hx].
      * apply (nodup_app_disj _ _ n Hn Hx). exact Hin.
Qed.

Lemma run_total ops :
  refs_ok 1 [] ops = true -> NoDup (map p_name (history_plugins ops)) -> exists st, run ops = Some st.
Proof.
  intros Hr Hn. apply (run_from_total ops init_state [] 1 []); auto.
  constructor.
  - reflexivity.
  - cbn. repeat constructor.
  - reflexivity.
  - cbn. lia.
  - intros j. destruct j as [|[|j]]; cbn; constructor.
  - intros j n. destruct j as [|[|j]]; cbn; tauto.
Qed.

(* ------------------------------------------------------------------ the sending side under redial *)

Lemma reentries_false pre gc n : reentries false pre gc n = [].
Proof. induction n as [|n IH]; cbn; [reflexivity | exact IH]. Qed.

Lemma send_retries_invisible pre post gc n final :
  send_flow false pre post gc n final = send_flow false pre post gc 0 final.
Proof. unfold send_flow. rewrite reentries_false. reflexivity. Qed.

Lemma send_prewrite_once pre post gc n final :
  let r := send_flow false pre post gc n final in
  (sd_plan r = [(pre, gc)] \/ sd_plan r = [(pre, gc); (post, gc)]) /\
  (pre <> post -> NoDup (map p_name gc) -> NoDup (trace_of (sd_plan r))) /\
  (sd_written r = true <-> vetoes pre gc = false /\ final = WOk).
Proof.
  cbn zeta. unfold send_flow. rewrite reentries_false.
  destruct (vetoes pre gc), final; cbn [sd_plan sd_written app]; (split; [auto|]); (split; [|intuition congruence]);
    intros Hne Hn; apply trace_nodup;
    try (repeat constructor; cbn; intuition congruence);
    intros s c Hin; cbn in Hin; intuition (try congruence); inversion H; subst; assumption.
Qed.

Lemma send_matches_exchange gc gs h n :
  sd_plan (send_flow false PreWritePush PostWritePush gc n WOk) = r_cli (exchange_push gc gs h) /\
  sd_status (send_flow false PreWritePush PostWritePush gc n WOk) = r_status (exchange_push gc gs h) /\
  exists rest, r_cli (exchange_call gc gs h) =
               sd_plan (send_flow false PreWriteCall PostWriteCall gc n WOk) ++ rest.
Proof.
  unfold send_flow, exchange_push, exchange_call, exchange_push_sr, exchange_call_sr. rewrite !reentries_false. cbn [app].
  destruct (vetoes PreWritePush gc); cbn; (split; [reflexivity|]); (split; [reflexivity|]);
    destruct (vetoes PreWriteCall gc); cbn; try (exists []; reflexivity);
    destruct (sr_out (srv_call gs h)); cbn;
    repeat match goal with |- context [if ?b then _ else _] => destruct b end; cbn; eexists; reflexivity.
Qed.

Lemma send_reenter_refuted :
  exists gc n, NoDup (map p_name gc) /\
    ~ NoDup (trace_of (sd_plan (send_flow true PreWritePush PostWritePush gc n WOk))) /\
    ~ NoDup (trace_of (sd_plan (send_flow true PreWriteCall PostWriteCall gc n WOk))).
Proof.
  exists [plug 1], 1. split; [repeat constructor; intros []|].
  split; vm_compute; intros H; inversion H as [|? ? Hni _]; apply Hni; left; reflexivity.
Qed.
