(* The theorems of property C01 over Model/Wire.v, derived from the invariant. *)
From Coq Require Import Strings.String Strings.Byte.
From Coq Require Import List Arith NArith ZArith Bool Lia Permutation.
From Verif Require Import Base.Bytes Base.Outcome Model.Quote Model.Args Model.Numfmt
  Model.StatusQuery Model.Xfer Model.RawProto Model.Wire
  Proofs.XferProofs Proofs.RawProofs Proofs.WireProofs Proofs.WireOnce Proofs.WireInv.
Import ListNotations.
Local Open Scope N_scope.

Lemma sane_init cfg : sane cfg init.
Proof.
  split.
  - intros s q c H. destruct s; discriminate.
  - intros s. destruct s; constructor.
Qed.

Lemma reach_sane cfg st : reach cfg st -> sane cfg st.
Proof. intros H. destruct H; [apply sane_init | assumption]. Qed.

(* ---- what the link invariant says about completed calls and handler inputs ---- *)
Lemma link_result_own cfg s es eo ws wo : link2 cfg s es eo ws wo ->
  forall c stt b mt, In (c, RReply stt b mt) (e_done es) ->
  In c (e_issued es) /\
  RReply stt b mt = res_of (reply_msg (c_seq c) (c_codec c)
                             (cf_handler cfg (other s) (c_method c) (c_args c) (c_meta c))) /\
  (st_code stt = 0%Z ->
     b = fst (fst (cf_handler cfg (other s) (c_method c) (c_args c) (c_meta c))) /\
     mt = snd (fst (cf_handler cfg (other s) (c_method c) (c_args c) (c_meta c)))).
Proof.
  intros Hl c stt b mt Hin.
  destruct Hl as (_ & _ & _ & Hd & _). destruct (Hd _ Hin) as [A B]. cbn [fst snd] in A, B.
  split; [exact A|]. split; [exact B|]. intros Hok.
  destruct (cf_handler cfg (other s) (c_method c) (c_args c) (c_meta c)) as [[rb rm] so].
  cbn [fst snd]. unfold reply_msg, res_of in B. destruct (status_ok so) eqn:E; cbn in B.
  - inversion B; subst. auto.
  - inversion B; subst. unfold status_ok in E. apply Z.eqb_neq in E. contradiction.
Qed.

Lemma link_no_foreign cfg s es eo ws wo : link2 cfg s es eo ws wo ->
  (forall c stt b mt, In (c, RReply stt b mt) (e_done es) -> st_code stt = 0%Z ->
     In c (e_issued es) /\
     b = fst (fst (cf_handler cfg (other s) (c_method c) (c_args c) (c_meta c))) /\
     mt = snd (fst (cf_handler cfg (other s) (c_method c) (c_args c) (c_meta c)))) /\
  (forall h, In h (e_seen es) ->
     if h_push h then In (h_method h, h_body h, h_meta h) (e_sent eo)
     else exists c, In c (e_issued eo) /\
                    h_method h = c_method c /\ h_body h = c_args c /\ h_meta h = c_meta c).
Proof.
  intros Hl. split.
  - intros c stt b mt Hin Hok.
    destruct (link_result_own cfg s es eo ws wo Hl c stt b mt Hin) as (A & _ & B).
    destruct (B Hok). auto.
  - intros h Hin. destruct Hl as (_ & _ & _ & _ & Hs & _). pose proof (Hs h Hin) as H.
    unfold seen_ok in H. destruct (h_push h); [exact H|]. destruct H as (c & A & ->). exists c. auto.
Qed.

(* a call whose handler answered with an error status is not completed OK *)
Lemma link_refused cfg s es eo ws wo : link2 cfg s es eo ws wo ->
  forall c stt b mt, In (c, RReply stt b mt) (e_done es) -> st_code stt = 0%Z ->
  status_ok (snd (cf_handler cfg (other s) (c_method c) (c_args c) (c_meta c))) = true.
Proof.
  intros Hl c stt b mt Hin Hok.
  destruct (link_result_own cfg s es eo ws wo Hl c stt b mt Hin) as (_ & B & _).
  destruct (cf_handler cfg (other s) (c_method c) (c_args c) (c_meta c)) as [[rb rm] so].
  cbn [snd]. unfold reply_msg, res_of in B. destruct (status_ok so) eqn:E; [reflexivity|].
  cbn in B. inversion B; subst. unfold status_ok in E. apply Z.eqb_neq in E. contradiction.
Qed.

Lemma reach_reach_any' cfg st : reach cfg st -> reach_any cfg st.
Proof. induction 1; [constructor | econstructor; eauto]. Qed.
Lemma reach1_reach_any cfg st : reach1 cfg st -> reach_any cfg st.
Proof. induction 1; [constructor | econstructor; eauto]. Qed.

Definition UU (st : state) : Prop := forall s, unlocking_pending (ep_of st s).
Lemma UU_init : UU init.
Proof. intros s c H. destruct s; destruct H. Qed.

Section Guarded.
  Variable cfg : config.
  Hypothesis Hlock : cf_lock cfg = true.
  Hypothesis Hinv : forall g, In g (cf_reg cfg) -> inverts g.
  Hypothesis Hcallmu : cf_callmu cfg = true.

  Lemma Inv_init : Inv cfg init.
  Proof.
    exists [], [].
    assert (W : wire_inv cfg ep0 [] []).
    { unfold wire_inv. cbn. repeat split; auto. }
    assert (L : forall s, link2 cfg s ep0 ep0 [] []).
    { intros s. refine (conj _ (conj _ (conj _ (conj _ (conj _ eq_refl))))).
      - intros q. cbn. lia.
      - intros q c H. discriminate.
      - intros x [].
      - intros cr [].
      - intros h []. }
    exact (conj (conj W (L SA)) (conj W (L SB))).
  Qed.

  Lemma Inv_pend st : Inv cfg st -> forall s, pend_ok (ep_of st s).
  Proof. intros HI s. destruct (Inv_at cfg st s HI) as (ws & wo & ((_ & Hl) & _)). apply Hl. Qed.

  Theorem reach_InvU st : reach cfg st -> Inv cfg st /\ UU st.
  Proof.
    induction 1 as [|st ev st' Hr [HI HU] Hs Hsane'].
    - split; [apply Inv_init | apply UU_init].
    - pose proof (reach_sane _ _ Hr) as Hsane.
      pose proof (reach_any_once cfg st (reach_reach_any' _ _ Hr)) as Honce.
      split.
      + destruct ev.
        * eapply pres_call; eauto.
        * eapply pres_push; eauto.
        * eapply pres_lock; eauto.
        * eapply pres_write; eauto.
        * eapply pres_unlock; eauto.
        * eapply pres_recv; eauto.
      + exact (presU cfg Hcallmu st ev st' Hsane (Inv_pend st HI) HU Hs).
  Qed.

  Theorem reach_Inv st : reach cfg st -> Inv cfg st.
  Proof. intros H. apply reach_InvU. exact H. Qed.

  (* ---- the status a reply gave a call is never overwritten by the returning caller ---- *)
  Theorem status_kept_lemma st : reach cfg st -> forall s k st',
    step cfg st (EUnlock s k) = Some st' -> e_done (ep_of st' s) = e_done (ep_of st s).
  Proof.
    intros Hr s k st' Hstep. cbn [step] in Hstep.
    destruct (take_nth k (e_unlocking (ep_of st s))) as [[oc rest]|] eqn:Et; [|discriminate].
    rewrite (unlock_done_same (ep_of st s) k oc rest (proj2 (reach_InvU st Hr) s)
               (reach_any_once cfg st (reach_reach_any' _ _ Hr) s) Et) in Hstep.
    inversion Hstep; subst st'. rewrite ep_with_ep_same. reflexivity.
  Qed.

  Theorem refused_never_ok_lemma st : reach cfg st -> forall s c stt b mt,
    In (c, RReply stt b mt) (e_done (ep_of st s)) -> st_code stt = 0%Z ->
    status_ok (snd (cf_handler cfg (other s) (c_method c) (c_args c) (c_meta c))) = true.
  Proof.
    intros Hr s. destruct (Inv_at cfg st s (reach_Inv st Hr)) as (ws & wo & ((_ & Hl) & _)).
    exact (link_refused cfg s _ _ ws wo Hl).
  Qed.

  (* ---- frames_atomic_on_wire ---- *)
  Theorem frames_atomic_lemma st : reach cfg st -> forall s,
    exists whole partial,
      Forall (Wire.wf_frame cfg) whole /\
      queue st s = concat (map fr_bytes whole) ++ partial /\
      (length (e_writers (ep_of st s)) <= 1)%nat /\
      ((partial = [] /\ e_writers (ep_of st s) = []) \/
       exists x rest, e_writers (ep_of st s) = [(x, partial, rest)] /\
                      partial ++ concat rest = fr_bytes x /\ concat rest <> []).
  Proof.
    intros Hr s. destruct (Inv_at cfg st s (reach_Inv st Hr)) as (ws & wo & ((Hw & _) & _)).
    destruct Hw as (Wf & Wl & Wn & Wm). exists ws.
    destruct (e_writers (ep_of st s)) as [|[[x wr] rest] [|? ?]]; [| |destruct Wm].
    - exists []. rewrite app_nil_r. repeat split; auto.
    - destruct Wm as (Wq & Wr & Wne & Wall & Wx). exists wr. repeat split; auto.
      right. exists x, rest. repeat split; auto. apply concat_nonempty; assumption.
  Qed.

  (* ---- the reader never loses frame sync, and what it decodes is the oldest frame ---- *)
  Theorem reader_in_sync_lemma st : reach cfg st -> forall s, e_broken (ep_of st s) = false.
  Proof.
    intros Hr s. destruct (Inv_at cfg st s (reach_Inv st Hr)) as (ws & wo & ((_ & Hl) & _)).
    apply Hl.
  Qed.

  (* ---- sequence numbers of pending calls ---- *)
  Theorem pending_seq_lemma st : reach cfg st -> forall s q c,
    pget (e_pending (ep_of st s)) q = Some c ->
    c_seq c = q /\ q = seq_of_count (c_no c) /\ In c (e_issued (ep_of st s)) /\
    q <> seq_of_count (e_count (ep_of st s) + 1).
  Proof.
    intros Hr s q c H. destruct (Inv_at cfg st s (reach_Inv st Hr)) as (ws & wo & ((_ & Hl) & _)).
    destruct Hl as (_ & Hp & _). destruct (Hp _ _ H) as (A1 & A2 & A3 & A4 & A5).
    repeat split; auto.
    pose proof (proj1 (reach_sane _ _ Hr) s q c H) as W.
    rewrite A2. apply seq_of_count_window; lia.
  Qed.

  (* the Store of a new call never replaces a pending entry *)
  Theorem store_fresh_lemma st : reach cfg st -> forall s,
    pget (e_pending (ep_of st s)) (seq_of_count (e_count (ep_of st s) + 1)) = None.
  Proof.
    intros Hr s.
    destruct (pget (e_pending (ep_of st s)) (seq_of_count (e_count (ep_of st s) + 1))) as [c|] eqn:E;
      [|reflexivity].
    destruct (pending_seq_lemma st Hr s _ c E) as (_ & _ & _ & N). congruence.
  Qed.

  (* ---- reply_binds_issuer ---- *)
  Theorem reply_binds_lemma st : reach cfg st -> forall s m ids sz rest,
    raw_unpack (cf_reg cfg) (cf_lim cfg) (queue st (other s)) = Ok (m, ids, sz, rest) ->
    m_mtype m = x02 ->
    exists c, pget (e_pending (ep_of st s)) (m_seq m) = Some c /\
              In c (e_issued (ep_of st s)) /\ c_seq c = m_seq m /\
              m = reply_msg (c_seq c) (c_codec c)
                    (cf_handler cfg (other s) (c_method c) (c_args c) (c_meta c)).
  Proof.
    intros Hr s m ids sz rest U M.
    destruct (Inv_at cfg st s (reach_Inv st Hr)) as (ws & wo & ((_ & Hl) & (Hwo & Hlo))).
    destruct wo as [|x wo'].
    { destruct (wire_empty_waits cfg _ _ Hwo) as [A _]. exfalso. apply (A _ U). }
    destruct (wire_pop cfg _ _ _ _ Hwo) as (Wx & t & Eq & _).
    rewrite Eq, (unpack_head cfg Hinv x t Wx) in U. inversion U; subst. clear U.
    assert (Hxin : In x (items (ep_of st (other s)) (x :: wo'))).
    { unfold items. rewrite !in_app_iff. right. right. left. reflexivity. }
    pose proof (proj1 (proj2 (proj2 Hlo)) x Hxin) as Hox.
    destruct (out_ok_reply cfg _ _ _ _ Hox M) as (c & Hpc & Hm).
    destruct Hl as (_ & Hp & _). destruct (Hp _ _ Hpc) as (A1 & _ & _ & _ & A5).
    exists c. repeat split; auto. rewrite A1. exact Hm.
  Qed.

  (* ---- result_is_own_handler_output ---- *)
  Theorem result_own_lemma st : reach cfg st -> forall s c stt b mt,
    In (c, RReply stt b mt) (e_done (ep_of st s)) ->
    In c (e_issued (ep_of st s)) /\
    RReply stt b mt = res_of (reply_msg (c_seq c) (c_codec c)
                               (cf_handler cfg (other s) (c_method c) (c_args c) (c_meta c))) /\
    (st_code stt = 0%Z ->
       b = fst (fst (cf_handler cfg (other s) (c_method c) (c_args c) (c_meta c))) /\
       mt = snd (fst (cf_handler cfg (other s) (c_method c) (c_args c) (c_meta c)))).
  Proof.
    intros Hr s c stt b mt Hin.
    destruct (Inv_at cfg st s (reach_Inv st Hr)) as (ws & wo & ((_ & Hl) & _)).
    destruct Hl as (_ & _ & _ & Hd & _). destruct (Hd _ Hin) as [A B]. cbn [fst snd] in A, B.
    split; [exact A|]. split; [exact B|]. intros Hok.
    destruct (cf_handler cfg (other s) (c_method c) (c_args c) (c_meta c)) as [[rb rm] so].
    cbn [fst snd]. unfold reply_msg, res_of in B. destruct (status_ok so) eqn:E; cbn in B.
    - inversion B; subst. auto.
    - inversion B; subst. unfold status_ok in E. apply Z.eqb_neq in E. contradiction.
  Qed.

  (* ---- handler_sees_sender_bytes ---- *)
  Theorem handler_input_lemma st : reach cfg st -> forall s h,
    In h (e_seen (ep_of st s)) ->
    if h_push h then In (h_method h, h_body h, h_meta h) (e_sent (ep_of st (other s)))
    else exists c, In c (e_issued (ep_of st (other s))) /\
                   h = mkHin false (c_method c) (c_args c) (c_meta c).
  Proof.
    intros Hr s h Hin.
    destruct (Inv_at cfg st s (reach_Inv st Hr)) as (ws & wo & ((_ & Hl) & _)).
    destruct Hl as (_ & _ & _ & _ & Hs & _). exact (Hs h Hin).
  Qed.

  (* ---- no_foreign_byte ---- *)
  Theorem no_foreign_byte_lemma st : reach cfg st -> forall s,
    (forall c stt b mt, In (c, RReply stt b mt) (e_done (ep_of st s)) -> st_code stt = 0%Z ->
       In c (e_issued (ep_of st s)) /\
       b = fst (fst (cf_handler cfg (other s) (c_method c) (c_args c) (c_meta c))) /\
       mt = snd (fst (cf_handler cfg (other s) (c_method c) (c_args c) (c_meta c)))) /\
    (forall h, In h (e_seen (ep_of st s)) ->
       if h_push h then In (h_method h, h_body h, h_meta h) (e_sent (ep_of st (other s)))
       else exists c, In c (e_issued (ep_of st (other s))) /\
                      h_method h = c_method c /\ h_body h = c_args c /\ h_meta h = c_meta c).
  Proof.
    intros Hr s. split.
    - intros c stt b mt Hin Hok. destruct (result_own_lemma st Hr s c stt b mt Hin) as (A & _ & B).
      destruct (B Hok). auto.
    - intros h Hin. pose proof (handler_input_lemma st Hr s h Hin) as H.
      destruct (h_push h); [exact H|]. destruct H as (c & A & ->). exists c. auto.
  Qed.

  (* ---- when nobody is inside WriteMessage the whole queue decodes, frame by frame, to
          exactly the messages written and not yet read, in order (C05's stream theorem) ---- *)
  Theorem queue_decodes_lemma st : reach cfg st -> forall s,
    e_writers (ep_of st s) = [] ->
    exists whole : list frame_rec,
      queue st s = concat (map fr_bytes whole) /\
      raw_decode_all (S (length whole)) (cf_reg cfg) (cf_lim cfg) (queue st s)
      = (map (fun '(ids, m, f) => (m, ids, blen f)) whole, Ok tt).
  Proof.
    intros Hr s Hw.
    destruct (frames_atomic_lemma st Hr s) as (whole & partial & Wf & Eq & _ & [[-> _]|(x & rest & E & _)]);
      [|rewrite Hw in E; discriminate].
    exists whole. rewrite app_nil_r in Eq. split; [exact Eq|]. rewrite Eq.
    apply (raw_stream_lemma (cf_reg cfg) (cf_lim cfg) Hinv whole (S (length whole))); [|apply Nat.lt_succ_diag_r].
    apply Forall_forall. intros [[ids m] f] Hin. rewrite Forall_forall in Wf.
    exact (wf_frame_raw cfg _ (Wf _ Hin)).
  Qed.
End Guarded.

(* ================================================================ no lock, one Write per frame *)
Lemma reach1_sane cfg st : reach1 cfg st -> sane cfg st.
Proof. intros H. destruct H; [apply sane_init | assumption]. Qed.

Section SingleWrite.
  Variable cfg : config.
  Hypothesis Hnolock : cf_lock cfg = false.
  Hypothesis Hinv : forall g, In g (cf_reg cfg) -> inverts g.
  Hypothesis Hcallmu : cf_callmu cfg = true.

  Lemma Inv1_init : Inv1 cfg init.
  Proof.
    exists [], [].
    assert (W : wire1 cfg ep0 [] []) by (repeat split; constructor).
    assert (L : forall s, link2 cfg s ep0 ep0 [] []).
    { intros s. refine (conj _ (conj _ (conj _ (conj _ (conj _ eq_refl))))).
      - intros q. cbn. lia.
      - intros q c H. discriminate.
      - intros x [].
      - intros cr [].
      - intros h []. }
    exact (conj (conj W (L SA)) (conj W (L SB))).
  Qed.

  Lemma Inv1_pend st : Inv1 cfg st -> forall s, pend_ok (ep_of st s).
  Proof.
    intros HI s. destruct (InvW_at cfg (wire1 cfg) st s HI) as (ws & wo & ((_ & Hl) & _)). apply Hl.
  Qed.

  Theorem reach1_Inv1U st : reach1 cfg st -> Inv1 cfg st /\ UU st.
  Proof.
    induction 1 as [|st ev st' Hr [HI HU] Hs Hstep Hsane'].
    - split; [apply Inv1_init | apply UU_init].
    - pose proof (reach1_sane _ _ Hr) as Hsane.
      pose proof (reach_any_once cfg st (reach1_reach_any _ _ Hr)) as Honce.
      split.
      + exact (pres1_step cfg Hnolock Hinv st ev st' Hs Hsane HI HU Honce Hstep).
      + exact (presU cfg Hcallmu st ev st' Hsane (Inv1_pend st HI) HU Hstep).
  Qed.

  Theorem reach1_Inv1 st : reach1 cfg st -> Inv1 cfg st.
  Proof. intros H. apply reach1_Inv1U. exact H. Qed.

  (* the queue is always whole frames: a partial frame is never on the wire *)
  Theorem single_write_whole_lemma st : reach1 cfg st -> forall s,
    exists whole, Forall (Wire.wf_frame cfg) whole /\ queue st s = concat (map fr_bytes whole).
  Proof.
    intros Hr s. destruct (InvW_at cfg (wire1 cfg) st s (reach1_Inv1 st Hr)) as (ws & wo & ((Hw & _) & _)).
    destruct Hw as (Wf & Wq & _). exists ws. auto.
  Qed.

  Theorem single_write_no_foreign_lemma st : reach1 cfg st -> forall s,
    e_broken (ep_of st s) = false /\
    (forall c stt b mt, In (c, RReply stt b mt) (e_done (ep_of st s)) -> st_code stt = 0%Z ->
       In c (e_issued (ep_of st s)) /\
       b = fst (fst (cf_handler cfg (other s) (c_method c) (c_args c) (c_meta c))) /\
       mt = snd (fst (cf_handler cfg (other s) (c_method c) (c_args c) (c_meta c)))) /\
    (forall h, In h (e_seen (ep_of st s)) ->
       if h_push h then In (h_method h, h_body h, h_meta h) (e_sent (ep_of st (other s)))
       else exists c, In c (e_issued (ep_of st (other s))) /\
                      h_method h = c_method c /\ h_body h = c_args c /\ h_meta h = c_meta c).
  Proof.
    intros Hr s. destruct (InvW_at cfg (wire1 cfg) st s (reach1_Inv1 st Hr)) as (ws & wo & ((_ & Hl) & _)).
    split; [apply Hl|]. exact (link_no_foreign cfg s _ _ ws wo Hl).
  Qed.
End SingleWrite.
