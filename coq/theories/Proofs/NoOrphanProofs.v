(* Reader / call-binding link invariants (C02 no_orphan). *)
From Coq Require Import Strings.String Strings.Byte.
From Coq Require Import List Arith NArith Bool Lia.
From Verif Require Import Model.Lifecycle Model.CallLife Model.Graceful Proofs.LifecycleProofs Proofs.PeerProofs Proofs.C07Lemmas Proofs.CallLifeProofs Proofs.GracefulProofs.
Import ListNotations.

Definition bound_to (r : rpc) (j : nat) (d : dres) : Prop := r = R3 (XBound j d) \/ r = R4 (XBound j d).

Definition rd_young (r : rpc) : bool :=   (* the reader has not entered readDisconnected past D1 *)
  match r with RNone | R0 | R2 | RLook _ _ | RLock _ _ | R3 _ | R4 _ | D0 | D1 _ => true | _ => false end.

Definition rl_inv (s : sess) : Prop :=
  (forall j c d, nth_error (calls s) j = Some c -> c_h c = HBound d -> bound_to (rd s) j d) /\
  match rd s with
  | RLock i _ => exists c, nth_error (calls s) i = Some c
  | R4 XErr0 => False
  | D1 seen => passive seen = false /\ (closed seen = true -> st s = seen)
  | RDone => st s <> Ok
  | _ => True
  end /\
  (rd_young (rd s) = true -> passive (st s) = false).

Lemma rl_calls_same s s' :
  calls s' = calls s -> rd s' = rd s -> st s' = st s -> rl_inv s -> rl_inv s'.
Proof. intros E1 E2 E3 H. unfold rl_inv in *. rewrite E1, E2, E3. exact H. Qed.

(* updating a call without touching its reply side *)
Lemma rl_upd_keep s s' i c c' :
  nth_error (calls s) i = Some c -> calls s' = upd (calls s) i c' -> c_h c' = c_h c ->
  rd s' = rd s -> st s' = st s -> rl_inv s -> rl_inv s'.
Proof.
  intros Hn Ec Eh Er Es (A1 & A2 & A3). unfold rl_inv. rewrite Ec, Er, Es. repeat split; auto.
  - intros j c0 d Hj Hh. destruct (Nat.eq_dec i j) as [->|Hne].
    + rewrite (nth_error_upd_eq _ _ _ _ Hn) in Hj. inversion Hj; subst. apply (A1 j c d Hn). congruence.
    + rewrite nth_error_upd_ne in Hj; auto. eapply A1; eauto.
  - destruct (rd s); auto. destruct A2 as (c0 & Hc0). destruct (Nat.eq_dec i i0) as [->|Hne].
    + exists c'. eapply nth_error_upd_eq; eauto.
    + exists c0. rewrite nth_error_upd_ne; auto.
Qed.

Lemma caller_step_rl s i v w s' : rl_inv s -> caller_step s i v w = Some s' -> rl_inv s'.
Proof.
  intros Hi H. pose proof (caller_step_ctrl _ _ _ _ _ H) as (E1 & _ & _ & E4 & _).
  unfold caller_step in H. destruct (nth_error (calls s) i) as [c|] eqn:En; [|discriminate].
  destruct (c_a c); try discriminate;
    repeat match type of H with
           | context [if ?x then _ else _] => destruct x; try discriminate H
           | context [match ?x with _ => _ end] => destruct x; try discriminate H
           end; inversion H; subst; clear H;
    (eapply (rl_upd_keep s _ i c); [exact En|reflexivity|reflexivity|exact E4|exact E1|exact Hi]).
Qed.

Lemma visit_step_rl s i s' : rl_inv s -> visit_step s i = Some s' -> rl_inv s'.
Proof.
  intros Hi H. pose proof (visit_step_ctrl _ _ _ H) as (E1 & _ & _ & E4 & _).
  unfold visit_step in H. destruct (rd_cancel (rd s)) eqn:Erc; [|discriminate]. unfold visit_body in H.
  destruct (nth_error (calls s) i) as [c|] eqn:En; [|discriminate].
  destruct (c_tab c && negb (c_vis c) && mu_free c); [|discriminate].
  destruct (negb (c_rep c) && cstat_ok (c_stat c)); inversion H; subst; clear H;
    (eapply (rl_upd_keep s _ i c); [exact En|reflexivity|reflexivity|cbn; reflexivity|exact E1|exact Hi]).
Qed.

(* the reply side moves only from H0/H1, never to or from HBound *)
Lemma reply_step_rl s i s' : rl_inv s -> reply_step s i = Some s' -> rl_inv s'.
Proof.
  intros (A1 & A2 & A3) H. pose proof (reply_step_ctrl _ _ _ H) as (E1 & _ & _ & E4 & _).
  unfold reply_step in H. destruct (nth_error (calls s) i) as [c|] eqn:En; [|discriminate].
  assert (G : forall c', (forall d, c_h c' <> HBound d) -> (forall d, c_h c <> HBound d) ->
              calls s' = upd (calls s) i c' -> rl_inv s').
  { intros c' Hc' Hc Ec. unfold rl_inv. rewrite Ec, E4, E1. repeat split; auto.
    - intros j c0 d Hj Hh. destruct (Nat.eq_dec i j) as [->|Hne].
      + rewrite (nth_error_upd_eq _ _ _ _ En) in Hj. inversion Hj; subst. exfalso. eapply Hc'; eauto.
      + rewrite nth_error_upd_ne in Hj; auto. eapply A1; eauto.
    - destruct (rd s); auto. destruct A2 as (c0 & Hc0). destruct (Nat.eq_dec i i0) as [->|Hne].
      + exists c'. eapply nth_error_upd_eq; eauto.
      + exists c0. rewrite nth_error_upd_ne; auto. }
  destruct (c_h c) eqn:Eh; try discriminate; inversion H; subst; clear H;
    (eapply G; [| |reflexivity]; cbn; intros; congruence).
Qed.

Lemma reader_step_rl s b s' fx :
  stat_inv s -> calls_ok s -> rl_inv s -> reader_step fixed s b = Some (s', fx) -> rl_inv s'.
Proof.
  intros (Hc & Hr & _) Hco (A1 & A2 & A3) H. unfold reader_step in H.
  destruct (rd s) eqn:Erd; try discriminate.
  - (* the read loop starts *)
    destruct (estab s); [|discriminate]. cbn [fix_acc fixed] in H.
    inversion H; subst; unfold rl_inv, bound_to in *; cbn; repeat split; auto;
      intros j c d Hj Hh; destruct (A1 j c d Hj Hh); discriminate.
  - (* R0 *)
    destruct (goon (st s)) eqn:Eg; inversion H; subst; unfold rl_inv, bound_to in *; cbn; repeat split; auto;
      intros j c d Hj Hh; destruct (A1 j c d Hj Hh); discriminate.
  - (* RLook *)
    destruct (nth_error (calls s) i) as [c|] eqn:En; [destruct (c_tab c)|]; inversion H; subst;
      unfold rl_inv, bound_to in *; cbn; repeat split; eauto;
      intros j c0 d0 Hj Hh; destruct (A1 j c0 d0 Hj Hh); discriminate.
  - (* RLock *)
    destruct (nth_error (calls s) i) as [c|] eqn:En; [|discriminate].
    destruct (mu_free c) eqn:Em; [|discriminate].
    unfold mu_free in Em. destruct (c_a c) eqn:Ea; try discriminate. destruct (c_h c) eqn:Eh; try discriminate.
    assert (Hnone : forall j c0 d0, nth_error (calls s) j = Some c0 -> c_h c0 = HBound d0 -> False).
    { intros j c0 d0 Hj Hh. destruct (A1 j c0 d0 Hj Hh); discriminate. }
    cbn [fix_dup fixed andb] in H.
    destruct (c_dones c =? 0) eqn:Ed; cbn [negb] in H.
    + destruct d; cbn [fix_abort fixed] in H; inversion H; subst; clear H;
        unfold rl_inv, bound_to, abort_call, done_call; cbn; repeat split; auto;
        try (intros j c0 d0 Hj Hh; destruct (Nat.eq_dec i j) as [->|Hne];
             [rewrite (nth_error_upd_eq _ _ _ _ En) in Hj; inversion Hj; subst; cbn in Hh;
              try (inversion Hh; subst; auto; fail); try destruct (cstat_ok (c_stat c)); cbn in Hh; try discriminate
             |rewrite nth_error_upd_ne in Hj; auto; exfalso; eapply Hnone; eauto]).
    + inversion H; subst; clear H. unfold rl_inv, bound_to; cbn; repeat split; auto.
      intros j c0 d0 Hj Hh. exfalso; eapply Hnone; eauto.
  - (* R3 *)
    destruct (early s x) eqn:Ee.
    + destruct x.
      * inversion H; subst; unfold rl_inv, bound_to in *; cbn; repeat split; auto.
        intros j c d Hj Hh; destruct (A1 j c d Hj Hh); discriminate.
      * inversion H; subst; unfold rl_inv, bound_to in *; cbn; repeat split; auto.
        intros j c d Hj Hh; destruct (A1 j c d Hj Hh); discriminate.
      * destruct (nth_error (calls s) i) as [c|] eqn:En; [|discriminate].
        cbn [fix_abort fixed] in H. inversion H; subst; clear H.
        unfold rl_inv, bound_to, abort_call, done_call; cbn; repeat split; auto.
        intros j c0 d0 Hj Hh. destruct (Nat.eq_dec i j) as [->|Hne].
        -- rewrite (nth_error_upd_eq _ _ _ _ En) in Hj. inversion Hj; subst. cbn in Hh.
           destruct (cstat_ok (c_stat c)); cbn in Hh; discriminate.
        -- rewrite nth_error_upd_ne in Hj; auto. destruct (A1 j c0 d0 Hj Hh) as [X|X]; inversion X; congruence.
    + inversion H; subst; clear H. unfold rl_inv, bound_to in *; cbn; repeat split; auto.
      * intros j c d Hj Hh. destruct (A1 j c d Hj Hh) as [X|X]; inversion X; subst; auto.
      * destruct x; auto. cbn in Ee. discriminate.
  - (* R4 *)
    destruct x; try discriminate.
    + destruct b; [|destruct k]; inversion H; subst; clear H; unfold rl_inv, bound_to in *; cbn; repeat split; auto;
        intros j c d Hj Hh; destruct (A1 j c d Hj Hh); discriminate.
    + destruct (nth_error (calls s) i) as [c|] eqn:En; [|discriminate].
      destruct b; cbn [fix_abort fixed] in H; inversion H; subst; clear H;
        unfold rl_inv, bound_to, done_call in *; cbn; repeat split; auto;
        intros j c0 d0 Hj Hh; (destruct (Nat.eq_dec i j) as [->|Hne];
          [rewrite (nth_error_upd_eq _ _ _ _ En) in Hj; inversion Hj; subst; cbn in Hh; discriminate
          |rewrite nth_error_upd_ne in Hj; auto; destruct (A1 j c0 d0 Hj Hh) as [X|X]; inversion X; congruence]).
  - (* D0 *)
    inversion H; subst; clear H. unfold rl_inv, bound_to in *; cbn; repeat split; auto.
    intros j c d Hj Hh; destruct (A1 j c d Hj Hh); discriminate.
  - (* D1 *)
    destruct A2 as (Hps & Hcs).
    assert (Hnone : forall j c0 d0, nth_error (calls s) j = Some c0 -> c_h c0 = HBound d0 -> False).
    { intros j c0 d0 Hj Hh. destruct (A1 j c0 d0 Hj Hh); discriminate. }
    destruct seen; cbn [fix_cas fixed] in H; cbn in Hps; try discriminate;
      try (destruct (status_eqb (st s) _) eqn:Eq); inversion H; subst; clear H;
      unfold rl_inv, bound_to; cbn; repeat split; auto;
      try (intros j c d Hj Hh; exfalso; eapply Hnone; eauto);
      try discriminate; try (intros X; discriminate X).
    all: try (rewrite Hcs by reflexivity; discriminate).
  - inversion H; subst; clear H. unfold rl_inv, bound_to in *; cbn; repeat split; auto; try discriminate.
    intros j c d Hj Hh; destruct (A1 j c d Hj Hh); discriminate.
  - destruct (ctxWG s); inversion H; subst; clear H. unfold rl_inv, bound_to in *; cbn; repeat split; auto; try discriminate.
    intros j c d Hj Hh; destruct (A1 j c d Hj Hh); discriminate.
  - destruct (all_visited (calls s)); inversion H; subst; clear H. unfold rl_inv, bound_to in *; cbn; repeat split; auto; try discriminate.
    intros j c d Hj Hh; destruct (A1 j c d Hj Hh); discriminate.
  - unfold rd_ok, seen_ok in Hr. rewrite Erd in Hr.
    destruct seen; inversion H; subst; clear H; unfold rl_inv, bound_to in *; cbn; repeat split; auto; try discriminate;
      try (intros j c d Hj Hh; destruct (A1 j c d Hj Hh); discriminate).
    destruct Hr as [X|X]; rewrite X; discriminate.
  - inversion H; subst; clear H. unfold rl_inv, bound_to in *; cbn; repeat split; auto; try discriminate.
    intros j c d Hj Hh; destruct (A1 j c d Hj Hh); discriminate.
  - inversion H; subst; clear H. unfold rl_inv, bound_to, notify in *; cbn.
    destruct (notified s); cbn; repeat split; auto; try discriminate;
      intros j c d Hj Hh; destruct (A1 j c d Hj Hh); discriminate.
  - destruct (all_visited (calls s)); inversion H; subst; clear H. unfold rl_inv, bound_to in *; cbn; repeat split; auto; try discriminate.
    intros j c d Hj Hh; destruct (A1 j c d Hj Hh); discriminate.
Qed.

Lemma rl_inv_step s e s' fx : stat_inv s -> calls_ok s -> rl_inv s -> sstep s e = Some (s', fx) -> rl_inv s'.
Proof.
  intros Hsi Hco Hi H. unfold sstep, sstep_cfg in H. destruct e.
  - destruct (conn s); inversion H; subst. eapply rl_calls_same; eauto.
  - (* frame *)
    unfold noeff, frame_step in H. destruct (rd s) eqn:Erd; try discriminate.
    destruct Hi as (A1 & A2 & A3). rewrite Erd in *.
    destruct f; inversion H; subst; unfold rl_inv, bound_to in *; cbn; repeat split; auto;
      intros j c0 d0 Hj Hh; destruct (A1 j c0 d0 Hj Hh); discriminate.
  - unfold noeff, close_call in H. destruct (cl s); try discriminate. inversion H; subst.
    eapply rl_calls_same; eauto.
  - (* issue *)
    inversion H; subst. destruct Hi as (A1 & A2 & A3). unfold rl_inv, issue; cbn. repeat split; auto.
    + intros j c d Hj Hh. destruct (Nat.eq_dec j (length (calls s))) as [->|Hne].
      * rewrite nth_error_snoc_new in Hj. inversion Hj; subst. cbn in Hh. discriminate.
      * eapply A1; eauto. eapply nth_error_snoc_inv; eauto.
    + destruct (rd s); auto. destruct A2 as (c0 & Hc0). exists c0. apply nth_error_snoc_lt; auto.
  - inversion H; subst. eapply rl_calls_same; eauto.
  - (* closer: status moves to active-closing / active-closed only *)
    destruct Hsi as (Hc & _). unfold cl_ok in Hc.
    destruct Hi as (A1 & A2 & A3).
    unfold closer_step, notify in H. destruct (cl s) eqn:Ecl; try discriminate.
    all: try (destruct (ctxWG s); inversion H; subst; unfold rl_inv; cbn; auto; fail).
    all: try (destruct (callWG s); inversion H; subst; unfold rl_inv; cbn; auto; fail).
    all: try (destruct (notified s); inversion H; subst; unfold rl_inv; cbn; auto; fail).
    all: try (inversion H; subst; unfold rl_inv; cbn; auto; fail).
    + destruct (st s) eqn:Est; inversion H; subst; unfold rl_inv in *; cbn; rewrite ?Est in *; repeat split; auto;
        destruct (rd s); cbn in *; auto; try discriminate;
        destruct A2 as (X1 & X2); split; auto; intros Y; rewrite <- (X2 Y) in Y; discriminate.
    + inversion H; subst; unfold rl_inv in *; cbn; repeat split; auto;
        destruct (rd s); cbn in *; auto; try discriminate.
      destruct A2 as (X1 & X2); split; auto. intros Y. rewrite (X2 Y) in Hc. rewrite Hc in Y. discriminate.
  - eapply reader_step_rl; eauto.
  - unfold noeff in H. destruct (visit_step s i) eqn:E; inversion H; subst. eapply visit_step_rl; eauto.
  - unfold noeff in H. destruct (caller_step s i veto wr) eqn:E; inversion H; subst. eapply caller_step_rl; eauto.
  - unfold noeff in H. destruct (reply_step s i) eqn:E; inversion H; subst. eapply reply_step_rl; eauto.
  - unfold noeff in H. destruct (handler_step s j veto wr) as [s0|] eqn:E; inversion H; subst s0 fx; clear H.
    destruct (handler_step_ctrl _ _ _ _ _ E) as (E1 & _ & _ & E4 & _).
    assert (Ec : calls s' = calls s).
    { unfold handler_step in E. destruct (nth_error (hctxs s) j) as [h|]; [|discriminate]. cbv zeta in E.
      destruct (k_pc h); try discriminate;
        repeat match type of E with
               | context [match ?x with _ => _ end] => destruct x; try discriminate E
               | context [if ?x then _ else _] => destruct x; try discriminate E
               end; inversion E; reflexivity. }
    eapply rl_calls_same; eauto.
  - unfold noeff in H. destruct (hwait_step s j i) as [s0|] eqn:E; inversion H; subst s0 fx; clear H.
    destruct (hwait_step_ctrl _ _ _ _ E) as (E1 & _ & _ & E4 & _).
    assert (Ec : calls s' = calls s).
    { unfold hwait_step in E. destruct (nth_error (hctxs s) j) as [h|]; [|discriminate]. cbv zeta in E.
      destruct (k_pc h); try discriminate;
        repeat match type of E with
               | context [match ?x with _ => _ end] => destruct x; try discriminate E
               | context [if ?x then _ else _] => destruct x; try discriminate E
               end; inversion E; reflexivity. }
    eapply rl_calls_same; eauto.
Qed.



(* ---- the socket is closed by the time a closing procedure is through ---- *)
Definition sk_inv (s : sess) : Prop :=
  (st s = PassiveClosed -> sock s = false) /\
  (st s = ActiveClosed -> cl s = C6 \/ sock s = false) /\
  (rd s = D8 -> sock s = false).

Lemma sk_same s s' : st s' = st s -> cl s' = cl s -> rd s' = rd s -> sock s' = sock s -> sk_inv s -> sk_inv s'.
Proof. intros E1 E2 E3 E4 H. unfold sk_inv in *. rewrite E1, E2, E3, E4. exact H. Qed.

Lemma sk_inv_step s e s' fx : stat_inv s -> sk_inv s -> sstep s e = Some (s', fx) -> sk_inv s'.
Proof.
  intros (Hc & Hr & _) (S1 & S2 & S3) H. unfold sstep, sstep_cfg in H. destruct e.
  - destruct (conn s); inversion H; subst. unfold sk_inv; cbn; auto.
  - unfold noeff, frame_step in H. destruct (rd s) eqn:Erd; try discriminate.
    destruct f; inversion H; subst; unfold sk_inv; cbn; repeat split; auto; discriminate.
  - unfold noeff, close_call in H. destruct (cl s) eqn:Ecl; try discriminate. inversion H; subst.
    unfold sk_inv; cbn. repeat split; auto. intros X. destruct (S2 X) as [Y|Y]; [congruence|auto].
  - inversion H; subst. unfold sk_inv; cbn; auto.
  - inversion H; subst. unfold sk_inv; cbn; auto.
  - unfold cl_ok in Hc. unfold closer_step, notify in H. destruct (cl s) eqn:Ecl; try discriminate.
    + destruct (st s) eqn:Est; inversion H; subst; unfold sk_inv; cbn; rewrite ?Est in *; repeat split; auto;
        try discriminate; intros X; destruct (S2 X) as [Y|Y]; [discriminate|auto].
    + inversion H; subst; unfold sk_inv; cbn; repeat split; auto. intros X. congruence.
    + destruct (notified s); inversion H; subst; unfold sk_inv; cbn; repeat split; auto; intros X; congruence.
    + destruct (ctxWG s); inversion H; subst; unfold sk_inv; cbn; repeat split; auto; intros X; congruence.
    + destruct (callWG s); inversion H; subst; unfold sk_inv; cbn; repeat split; auto; intros X; congruence.
    + inversion H; subst; unfold sk_inv; cbn; repeat split; auto. discriminate.
    + inversion H; subst; unfold sk_inv; cbn; repeat split; auto.
    + inversion H; subst; unfold sk_inv; cbn; repeat split; auto. intros X. destruct (S2 X) as [Y|Y]; [discriminate|auto].
  - destruct (rd s) eqn:Erd; try (unfold reader_step in H; rewrite Erd in H; discriminate).
    all: try (destruct (reader_step_pre _ _ _ _ H) as ((E1 & _ & _ & E4 & _) & Hp & _); [rewrite Erd; exact I|];
              destruct (reader_pre_shape _ _ _ _ H) as (Es & _); [rewrite Erd; exact I|];
              unfold sk_inv; rewrite E1, E4, Es; repeat split; auto;
              intros X; rewrite X in Hp; cbn in Hp; discriminate).
    all: unfold rd_ok, seen_ok in Hr; rewrite Erd in Hr; unfold reader_step, notify in H; rewrite Erd in H.
    + inversion H; subst; unfold sk_inv; cbn; repeat split; auto; discriminate.
    + destruct seen; cbn [fix_cas fixed] in H; try destruct (status_eqb (st s) _) eqn:Eq;
        inversion H; subst; unfold sk_inv; cbn; repeat split; auto; try discriminate.
    + inversion H; subst; unfold sk_inv; cbn; repeat split; auto; discriminate.
    + destruct (ctxWG s); inversion H; subst; unfold sk_inv; cbn; repeat split; auto; discriminate.
    + destruct (all_visited (calls s)); inversion H; subst; unfold sk_inv; cbn; repeat split; auto; discriminate.
    + destruct seen; inversion H; subst; unfold sk_inv; cbn; repeat split; auto; discriminate.
    + inversion H; subst; unfold sk_inv; cbn; repeat split; auto.
    + inversion H; subst; unfold sk_inv; cbn. destruct (notified s); cbn; repeat split; auto; try discriminate.
    + destruct (all_visited (calls s)); inversion H; subst; unfold sk_inv; cbn; repeat split; auto; discriminate.
  - unfold noeff in H. destruct (visit_step s i) as [s0|] eqn:E; inversion H; subst s0 fx; clear H.
    destruct (visit_step_ctrl _ _ _ E) as (E1 & _ & _ & E4 & E5 & _).
    assert (Es : sock s' = sock s).
    { unfold visit_step in E. destruct (rd_cancel (rd s)) eqn:Erc; [|discriminate]. unfold visit_body in E.
      destruct (nth_error (calls s) i) as [c|]; [|discriminate].
      destruct (c_tab c && negb (c_vis c) && mu_free c); [|discriminate].
      destruct (negb (c_rep c) && cstat_ok (c_stat c)); inversion E; reflexivity. }
    apply (sk_same s s' E1 E5 E4 Es). repeat split; assumption.
  - unfold noeff in H. destruct (caller_step s i veto wr) as [s0|] eqn:E; inversion H; subst s0 fx; clear H.
    destruct (caller_step_ctrl _ _ _ _ _ E) as (E1 & _ & _ & E4 & E5 & _).
    assert (Es : sock s' = sock s).
    { unfold caller_step in E. destruct (nth_error (calls s) i) as [c|]; [|discriminate].
      destruct (c_a c); try discriminate;
        repeat match type of E with
               | context [match ?x with _ => _ end] => destruct x; try discriminate E
               | context [if ?x then _ else _] => destruct x; try discriminate E
               end; inversion E; reflexivity. }
    apply (sk_same s s' E1 E5 E4 Es). repeat split; assumption.
  - unfold noeff in H. destruct (reply_step s i) as [s0|] eqn:E; inversion H; subst s0 fx; clear H.
    destruct (reply_step_ctrl _ _ _ E) as (E1 & _ & _ & E4 & E5 & _).
    assert (Es : sock s' = sock s).
    { unfold reply_step in E. destruct (nth_error (calls s) i) as [c|]; [|discriminate].
      destruct (c_h c); try discriminate; inversion E; reflexivity. }
    apply (sk_same s s' E1 E5 E4 Es). repeat split; assumption.
  - unfold noeff in H. destruct (handler_step s j veto wr) as [s0|] eqn:E; inversion H; subst s0 fx; clear H.
    destruct (handler_step_ctrl _ _ _ _ _ E) as (E1 & _ & _ & E4 & E5 & _).
    assert (Es : sock s' = sock s).
    { unfold handler_step in E. destruct (nth_error (hctxs s) j) as [h|]; [|discriminate]. cbv zeta in E.
      destruct (k_pc h); try discriminate;
        repeat match type of E with
               | context [match ?x with _ => _ end] => destruct x; try discriminate E
               | context [if ?x then _ else _] => destruct x; try discriminate E
               end; inversion E; reflexivity. }
    apply (sk_same s s' E1 E5 E4 Es). repeat split; assumption.
  - unfold noeff in H. destruct (hwait_step s j i) as [s0|] eqn:E; inversion H; subst s0 fx; clear H.
    destruct (hwait_step_ctrl _ _ _ _ E) as (E1 & _ & _ & E4 & E5 & _).
    assert (Es : sock s' = sock s).
    { unfold hwait_step in E. destruct (nth_error (hctxs s) j) as [h|]; [|discriminate]. cbv zeta in E.
      destruct (k_pc h); try discriminate;
        repeat match type of E with
               | context [match ?x with _ => _ end] => destruct x; try discriminate E
               | context [if ?x then _ else _] => destruct x; try discriminate E
               end; inversion E; reflexivity. }
    apply (sk_same s s' E1 E5 E4 Es). repeat split; assumption.
Qed.

(* ---- once the session can no longer admit a call write, every call still in the table
        is before its own status check ---- *)
Definition young (c : call) : Prop := c_tab c = true -> c_a c = A1 \/ c_a c = A2.

Definition postb (s : sess) : bool :=
  match rd s with D3 _ | D4 _ | D5 _ | D6 | D8 | RDone => true | RNone => negb (estab s) | _ => false end
  || match cl s with C5 | C6 | C7 => true | _ => false end
  || closed (st s).

Definition yg_inv (s : sess) : Prop := postb s = true -> Forall young (calls s).

Lemma post_not_ok s : stat_inv s -> rl_inv s -> postb s = true -> st s <> Ok.
Proof.
  intros (Hc & Hr & _ & _ & (He1 & _)) (_ & A2 & _) H. unfold postb in H. unfold cl_ok in Hc. unfold rd_ok, seen_ok in Hr.
  intros E. rewrite E in *. cbn in H. rewrite orb_false_r in H. apply orb_true_iff in H. destruct H as [H|H].
  - destruct (rd s); try discriminate; try (destruct seen; try tauto; try discriminate; destruct Hr; discriminate);
      try discriminate Hr; try (apply A2; reflexivity).
    rewrite (He1 eq_refl) in H. discriminate.
  - destruct (cl s); try discriminate; discriminate Hc.
Qed.

Lemma not_tab_young c : c_tab c = false -> young c.
Proof. intros H X. congruence. Qed.

Lemma yg_same s s' : calls s' = calls s -> postb s' = postb s -> yg_inv s -> yg_inv s'.
Proof. intros E1 E2 H. unfold yg_inv in *. rewrite E1, E2. exact H. Qed.

Lemma caller_step_yg s i v w s' :
  stat_inv s -> rl_inv s -> yg_inv s -> caller_step s i v w = Some s' -> yg_inv s'.
Proof.
  intros Hsi Hrl Hy H. pose proof (caller_step_ctrl _ _ _ _ _ H) as (E1 & _ & _ & E4 & E5 & E6 & _).
  assert (Ep : postb s' = postb s) by (unfold postb; rewrite E1, E4, E5, E6; reflexivity).
  unfold yg_inv. rewrite Ep. intros P. specialize (Hy P).
  pose proof (post_not_ok s Hsi Hrl P) as Hnok.
  unfold caller_step in H. destruct (nth_error (calls s) i) as [c|] eqn:En; [|discriminate].
  pose proof (Forall_nth _ _ _ _ Hy En) as Yc. unfold young in Yc.
  destruct (c_a c) eqn:Ea; try discriminate.
  - destruct v; inversion H; subst; cbn; apply Forall_upd; auto.
    + apply not_tab_young; reflexivity.
    + unfold young; cbn. auto.
  - destruct (admits (st s) false) eqn:Ead.
    + exfalso. destruct (st s); cbn in Ead; try discriminate. congruence.
    + inversion H; subst; cbn; apply Forall_upd; auto. apply not_tab_young; reflexivity.
  - destruct (wr_ok s w); [|discriminate].
    assert (Ht : c_tab c = false).
    { destruct (c_tab c); auto. destruct (Yc eq_refl); discriminate. }
    destruct w; inversion H; subst; cbn; apply Forall_upd; auto; apply not_tab_young; cbn; auto.
  - assert (Ht : c_tab c = false).
    { destruct (c_tab c); auto. destruct (Yc eq_refl); discriminate. }
    inversion H; subst; cbn; apply Forall_upd; auto; apply not_tab_young; cbn; auto.
Qed.

Lemma reply_step_yg s i s' : calls_ok s -> yg_inv s -> reply_step s i = Some s' -> yg_inv s'.
Proof.
  intros Hco Hy H. pose proof (reply_step_ctrl _ _ _ H) as (E1 & _ & _ & E4 & E5 & E6 & _).
  assert (Ep : postb s' = postb s) by (unfold postb; rewrite E1, E4, E5, E6; reflexivity).
  unfold yg_inv. rewrite Ep. intros P. specialize (Hy P).
  unfold reply_step in H. destruct (nth_error (calls s) i) as [c|] eqn:En; [|discriminate].
  pose proof (Forall_nth _ _ _ _ Hy En) as Yc. pose proof (Forall_nth _ _ _ _ Hco En) as Cc.
  destruct (c_h c) eqn:Eh; try discriminate; inversion H; subst; cbn; apply Forall_upd; auto;
    try (apply not_tab_young; reflexivity).
Qed.

Lemma visit_step_yg s i s' : yg_inv s -> visit_step s i = Some s' -> yg_inv s'.
Proof.
  intros Hy H. pose proof (visit_step_ctrl _ _ _ H) as (E1 & _ & _ & E4 & E5 & E6 & _).
  assert (Ep : postb s' = postb s) by (unfold postb; rewrite E1, E4, E5, E6; reflexivity).
  unfold yg_inv. rewrite Ep. intros P. specialize (Hy P).
  unfold visit_step in H. destruct (rd_cancel (rd s)) eqn:Erc; [|discriminate]. unfold visit_body in H.
  destruct (nth_error (calls s) i) as [c|] eqn:En; [|discriminate].
  destruct (c_tab c && negb (c_vis c) && mu_free c) eqn:Ec; [|discriminate].
  destruct (negb (c_rep c) && cstat_ok (c_stat c)); inversion H; subst; cbn; apply Forall_upd; auto.
  - apply not_tab_young; reflexivity.
  - pose proof (Forall_nth _ _ _ _ Hy En) as Yc. unfold young in *; cbn. exact Yc.
Qed.

Lemma undone_zero_young l : Forall call_ok l -> cnt undone l = 0 -> Forall young l.
Proof.
  intros Hc H. apply cnt_zero in H. rewrite Forall_forall in *. intros c Hin.
  specialize (Hc c Hin). specialize (H c Hin). unfold undone in H. apply Nat.eqb_neq in H.
  apply not_tab_young. destruct (c_tab c) eqn:Et; auto. exfalso. apply H.
  unfold call_ok in Hc. destruct Hc as (_ & _ & (Ht & _) & _). auto.
Qed.

Lemma all_visited_young l : Forall call_ok l -> all_visited l = true -> Forall young l.
Proof.
  intros Hc H. unfold all_visited in H. rewrite forallb_forall in H. rewrite Forall_forall in *.
  intros c Hin. specialize (Hc c Hin). specialize (H c Hin). apply not_tab_young.
  destruct (c_tab c) eqn:Et; auto. cbn in H. unfold call_ok in Hc.
  destruct Hc as (_ & _ & _ & _ & _ & _ & Hv & _). rewrite (Hv H) in Et. discriminate.
Qed.

Lemma closer_step_yg s s' fx :
  stat_inv s -> calls_ok s -> wg_ok s -> yg_inv s -> closer_step s = Some (s', fx) -> yg_inv s'.
Proof.
  intros (Hc & _) Hco (_ & Hw) Hy H. unfold cl_ok in Hc.
  unfold closer_step, notify in H. destruct (cl s) eqn:Ecl; try discriminate.
  - destruct (st s) eqn:Est; inversion H; subst; unfold yg_inv, postb in *; cbn; rewrite ?Ecl, ?Est in *; cbn in *; auto.
  - inversion H; subst; unfold yg_inv, postb in *; cbn; rewrite ?Ecl in *; auto.
  - destruct (notified s); inversion H; subst; unfold yg_inv, postb in *; cbn; rewrite ?Ecl in *; auto.
  - destruct (ctxWG s); inversion H; subst; unfold yg_inv, postb in *; cbn; rewrite ?Ecl in *; auto.
  - (* C4: no call is open *)
    destruct (callWG s) eqn:Ew; inversion H; subst. unfold yg_inv. intros _. cbn.
    apply undone_zero_young; auto; lia.
  - inversion H; subst; unfold yg_inv, postb in *; cbn; rewrite ?Ecl in *; cbn in *. intros _. apply Hy.
    rewrite orb_true_r. reflexivity.
  - inversion H; subst; unfold yg_inv, postb in *; cbn; rewrite ?Ecl in *; cbn in *. intros _. apply Hy.
    rewrite orb_true_r. reflexivity.
  - inversion H; subst; unfold yg_inv, postb in *; cbn; rewrite ?Ecl, ?Hc in *; cbn in *. intros _. apply Hy.
    rewrite orb_true_r. reflexivity.
Qed.

Definition rd_postb (r : rpc) : bool := match r with D3 _ | D4 _ | D5 _ | D6 | D8 | RDone => true | _ => false end.

Lemma reader_pre_target s b s' fx :
  reader_step fixed s b = Some (s', fx) ->
  match rd s with RNone | R0 | RLook _ _ | RLock _ _ | R3 _ | R4 _ => True | _ => False end ->
  rd_postb (rd s') = false.
Proof.
  unfold reader_step. destruct (rd s) eqn:Erd; try tauto; intros H _.
  - destruct (estab s); [|discriminate]. cbn [fix_acc fixed] in H. inversion H; subst; reflexivity.
  - destruct (goon (st s)); inversion H; subst; reflexivity.
  - destruct (nth_error (calls s) i) as [c|]; [destruct (c_tab c)|]; inversion H; subst; reflexivity.
  - destruct (nth_error (calls s) i) as [c|]; [|discriminate].
    destruct (mu_free c); [|discriminate].
    destruct (fix_dup fixed && negb (c_dones c =? 0)); [inversion H; subst; reflexivity|].
    destruct d; cbn [fix_abort fixed] in H; inversion H; subst; reflexivity.
  - destruct (early s x).
    + destruct x; try (inversion H; subst; reflexivity).
      destruct (nth_error (calls s) i) as [c|]; [|discriminate].
      cbn [fix_abort fixed] in H; inversion H; subst; reflexivity.
    + inversion H; subst; reflexivity.
  - destruct x; try discriminate.
    + destruct b; [|destruct k]; inversion H; subst; reflexivity.
    + destruct (nth_error (calls s) i) as [c|]; [|discriminate].
      destruct b; cbn [fix_abort fixed] in H; inversion H; subst; reflexivity.
Qed.

Lemma reader_step_yg s b s' fx :
  stat_inv s -> calls_ok s -> rl_inv s -> bound_ok s -> yg_inv s -> reader_step fixed s b = Some (s', fx) -> yg_inv s'.
Proof.
  intros Hsi Hco Hrl Hb Hy H.
  destruct (rd s) eqn:Erd; try (unfold reader_step in H; rewrite Erd in H; discriminate).
  (* read loop: the postb of a read-loop state comes from closeLocked or a closed status only *)
  all: try (destruct (reader_step_pre _ _ _ _ H) as ((E1 & _ & _ & E4 & _) & Hp & Hn); [rewrite Erd; exact I|];
            pose proof (reader_pre_target _ _ _ _ H) as Htg; rewrite Erd in Htg; specialize (Htg I);
            assert (Ep : postb s' = true -> postb s = true);
            [ unfold postb; rewrite E1, E4; destruct (rd s'); cbn in Htg; try discriminate Htg;
              try (exfalso; apply Hn; reflexivity); cbn;
              intros X; apply orb_true_iff in X; destruct X as [X|X]; rewrite X; rewrite ?orb_true_r; reflexivity |];
            unfold yg_inv; intros P; specialize (Hy (Ep P));
            pose proof (post_not_ok s Hsi Hrl (Ep P)) as Hnok).
  - unfold reader_step in H. rewrite Erd in H. destruct (estab s); [|discriminate].
    cbn [fix_acc fixed] in H. inversion H; subst; exact Hy.
  - (* R0 *) unfold reader_step in H. rewrite Erd in H. destruct (goon (st s)); inversion H; subst; exact Hy.
  - unfold reader_step in H. rewrite Erd in H.
    destruct (nth_error (calls s) i) as [c|]; [destruct (c_tab c)|]; inversion H; subst; exact Hy.
  - (* RLock *)
    unfold reader_step in H. rewrite Erd in H.
    destruct (nth_error (calls s) i) as [c|] eqn:En; [|discriminate].
    pose proof (Forall_nth _ _ _ _ Hy En) as Yc. pose proof (Forall_nth _ _ _ _ Hco En) as Cc.
    destruct (mu_free c) eqn:Em; [|discriminate].
    unfold mu_free in Em. destruct (c_a c) eqn:Ea; try discriminate. destruct (c_h c) eqn:Eh; try discriminate.
    cbn [fix_dup fixed andb] in H. destruct (c_dones c =? 0) eqn:Ed; cbn [negb] in H; [|inversion H; subst; exact Hy].
    exfalso. apply Nat.eqb_eq in Ed. unfold call_ok in Cc. destruct Cc as (_ & _ & (_ & Ht) & _).
    destruct (Yc (Ht Ed)); congruence.
  - (* R3 *)
    unfold reader_step in H. rewrite Erd in H. destruct (early s x).
    + destruct x; try (inversion H; subst; exact Hy).
      destruct (nth_error (calls s) i) as [c|] eqn:En; [|discriminate].
      cbn [fix_abort fixed] in H. inversion H; subst. cbn. apply Forall_upd; auto. apply not_tab_young; reflexivity.
    + inversion H; subst; exact Hy.
  - (* R4 *)
    unfold reader_step in H. rewrite Erd in H. destruct x; try discriminate.
    + destruct b; [|destruct k]; inversion H; subst; exact Hy.
    + destruct (nth_error (calls s) i) as [c|] eqn:En; [|discriminate].
      pose proof (Forall_nth _ _ _ _ Hy En) as Yc.
      destruct b; cbn [fix_abort fixed] in H; inversion H; subst; cbn; apply Forall_upd; auto;
        try (apply not_tab_young; reflexivity); try (unfold young in *; cbn; exact Yc).
  - (* D0 *) unfold reader_step in H. rewrite Erd in H. inversion H; subst.
    unfold yg_inv, postb in *; cbn. rewrite Erd in Hy. exact Hy.
  - (* D1 *)
    destruct Hrl as (_ & A2 & _). rewrite Erd in A2. destruct A2 as (Hps & Hcs).
    unfold reader_step in H. rewrite Erd in H.
    destruct seen; cbn [fix_cas fixed] in H; cbn in Hps; try discriminate;
      try (destruct (status_eqb (st s) _) eqn:Eq); inversion H; subst;
      unfold yg_inv, postb in *; cbn; rewrite ?Erd in Hy; cbn in Hy; try exact Hy.
    all: intros P; apply Hy.
    all: try (rewrite (Hcs eq_refl); cbn; rewrite orb_true_r; reflexivity).
    all: cbn in P; rewrite ?orb_false_r in P; rewrite P; reflexivity.
  - unfold reader_step in H. rewrite Erd in H. inversion H; subst.
    unfold yg_inv, postb in *; cbn. rewrite Erd in Hy. exact Hy.
  - unfold reader_step in H. rewrite Erd in H. destruct (ctxWG s); inversion H; subst.
    unfold yg_inv, postb in *; cbn. rewrite Erd in Hy. exact Hy.
  - (* D4 -> D5: the cancel loop is through, nothing is left in the table *)
    unfold reader_step in H. rewrite Erd in H. destruct (all_visited (calls s)) eqn:Ev; inversion H; subst.
    unfold yg_inv. intros _. cbn. apply all_visited_young; auto.
  - unfold reader_step in H. rewrite Erd in H.
    destruct seen; inversion H; subst; unfold yg_inv, postb in *; cbn; rewrite Erd in Hy; cbn in Hy; intros _; apply Hy; reflexivity.
  - unfold reader_step in H. rewrite Erd in H. inversion H; subst.
    unfold yg_inv, postb in *; cbn; rewrite Erd in Hy; cbn in Hy; intros _; apply Hy; reflexivity.
  - unfold reader_step, notify in H. rewrite Erd in H. inversion H; subst.
    unfold yg_inv, postb in *; cbn; rewrite Erd in Hy; cbn in Hy. destruct (notified s); cbn; intros _; apply Hy; reflexivity.
  - (* DC -> D3: the first cancel loop is through, nothing is left in the table *)
    unfold reader_step in H. rewrite Erd in H. destruct (all_visited (calls s)) eqn:Ev; inversion H; subst.
    unfold yg_inv. intros _. cbn. apply all_visited_young; auto.
Qed.

Lemma yg_inv_step s e s' fx :
  stat_inv s -> calls_ok s -> wg_ok s -> rl_inv s -> bound_ok s -> yg_inv s -> sstep s e = Some (s', fx) -> yg_inv s'.
Proof.
  intros Hsi Hco Hw Hrl Hb Hy H. unfold sstep, sstep_cfg in H. destruct e.
  - destruct (conn s); inversion H; subst. apply (yg_same s); auto.
  - unfold noeff, frame_step in H. destruct (rd s) eqn:Erd; try discriminate.
    destruct f; inversion H; subst; (apply (yg_same s); [reflexivity| |exact Hy]); unfold postb; cbn; rewrite Erd; reflexivity.
  - unfold noeff, close_call in H. destruct (cl s) eqn:Ecl; try discriminate. inversion H; subst.
    apply (yg_same s); [reflexivity| |exact Hy]. unfold postb; cbn; rewrite Ecl; reflexivity.
  - (* issue *) inversion H; subst. unfold yg_inv, issue in *. cbn. intros P. apply Forall_snoc; [apply Hy; exact P|].
    unfold young; cbn. auto.
  - inversion H; subst. apply (yg_same s); auto.
  - eapply closer_step_yg; eauto.
  - eapply reader_step_yg; eauto.
  - unfold noeff in H. destruct (visit_step s i) eqn:E; inversion H; subst. eapply visit_step_yg; eauto.
  - unfold noeff in H. destruct (caller_step s i veto wr) eqn:E; inversion H; subst. eapply caller_step_yg; eauto.
  - unfold noeff in H. destruct (reply_step s i) eqn:E; inversion H; subst. eapply reply_step_yg; eauto.
  - unfold noeff in H. destruct (handler_step s j veto wr) as [s0|] eqn:E; inversion H; subst s0 fx; clear H.
    destruct (handler_step_ctrl _ _ _ _ _ E) as (E1 & _ & _ & E4 & E5 & E6 & _).
    assert (Ec : calls s' = calls s).
    { unfold handler_step in E. destruct (nth_error (hctxs s) j) as [h|]; [|discriminate]. cbv zeta in E.
      destruct (k_pc h); try discriminate;
        repeat match type of E with
               | context [match ?x with _ => _ end] => destruct x; try discriminate E
               | context [if ?x then _ else _] => destruct x; try discriminate E
               end; inversion E; reflexivity. }
    apply (yg_same s); [exact Ec| |exact Hy]. unfold postb. rewrite E1, E4, E5, E6. reflexivity.
  - unfold noeff in H. destruct (hwait_step s j i) as [s0|] eqn:E; inversion H; subst s0 fx; clear H.
    destruct (hwait_step_ctrl _ _ _ _ E) as (E1 & _ & _ & E4 & E5 & E6 & _).
    assert (Ec : calls s' = calls s).
    { unfold hwait_step in E. destruct (nth_error (hctxs s) j) as [h|]; [|discriminate]. cbv zeta in E.
      destruct (k_pc h); try discriminate;
        repeat match type of E with
               | context [match ?x with _ => _ end] => destruct x; try discriminate E
               | context [if ?x then _ else _] => destruct x; try discriminate E
               end; inversion E; reflexivity. }
    apply (yg_same s); [exact Ec| |exact Hy]. unfold postb. rewrite E1, E4, E5, E6. reflexivity.
Qed.

(* the six closure properties of c8_inv used by the lifting lemma *)
Lemma reach_c8_base_ok id : c8_inv (mkSess Ok true true 0 0 0 0 [] [] RNone CIdle id true 0).
Proof.
  unfold c8_inv, calls_ok, wg_ok, g_inv, past_ctx_wait; cbn.
  repeat split; auto; try constructor; try discriminate; try tauto; try (intros [[]|X]; discriminate).
Qed.
Lemma reach_c8_base_rej id : c8_inv (set_cl (new_sess id) C0).
Proof.
  unfold c8_inv, calls_ok, wg_ok, g_inv, past_ctx_wait; cbn.
  repeat split; auto; try constructor; try discriminate; try tauto; try (intros [[]|X]; discriminate).
Qed.
Lemma reach_c8_base_dialrej id : c8_inv (set_sock (new_sess id) false).
Proof.
  unfold c8_inv, calls_ok, wg_ok, g_inv, past_ctx_wait; cbn.
  repeat split; auto; try constructor; try discriminate; try tauto; try (intros [[]|X]; discriminate).
Qed.
Lemma c8_set_sid s id : c8_inv s -> c8_inv (set_sid s id).
Proof.
  intros (A & (B1 & B2) & C). unfold c8_inv. split; [exact A|]. split; [split; [exact B1|exact B2]|].
  eapply g_inv_same; [| | | | | |exact C]; reflexivity.
Qed.
Lemma c8_set_cl s : c8_inv s -> cl s = CIdle -> c8_inv (set_cl s C0).
Proof.
  intros (A & (B1 & B2) & (G1 & G2 & G3 & G4 & G5)) Hcl. unfold c8_inv.
  split; [exact A|]. split; [split; [exact B1|exact B2]|].
  unfold g_inv, past_ctx_wait in *; cbn. rewrite Hcl in G1. repeat split; auto; tauto.
Qed.
Lemma c8_step s e s' fx : sinv s -> c8_inv s -> sstep s e = Some (s', fx) -> c8_inv s'.
Proof.
  intros (Hsi & Hic) (A & B & C) H. unfold c8_inv. split; [|split].
  - eapply calls_ok_step; eauto. apply Hic.
  - eapply wg_ok_step; eauto. apply Hic.
  - eapply g_inv_step; eauto.
Qed.

(* ---- everything together ---- *)
Definition no_inv (s : sess) : Prop := rl_inv s /\ sk_inv s /\ yg_inv s.

Definition c8n (s : sess) : Prop := c8_inv s /\ no_inv s.

Lemma c8n_base_ok id : c8n (mkSess Ok true true 0 0 0 0 [] [] RNone CIdle id true 0).
Proof.
  split; [apply (reach_c8_base_ok id)|].
  unfold no_inv, rl_inv, sk_inv, yg_inv, postb, bound_to; cbn. repeat split; auto; try discriminate.
  intros j c d Hj. destruct j; discriminate.
Qed.
Lemma c8n_base_rej id : c8n (set_cl (new_sess id) C0).
Proof.
  split; [apply (reach_c8_base_rej id)|].
  unfold no_inv, rl_inv, sk_inv, yg_inv, postb, bound_to; cbn. repeat split; auto; try discriminate.
  intros j c d Hj. destruct j; discriminate.
Qed.
Lemma c8n_base_dialrej id : c8n (set_sock (new_sess id) false).
Proof.
  split; [apply (reach_c8_base_dialrej id)|].
  unfold no_inv, rl_inv, sk_inv, yg_inv, postb, bound_to; cbn. repeat split; auto; try discriminate.
  intros j c d Hj. destruct j; discriminate.
Qed.
Lemma c8n_set_sid s0 id : c8n s0 -> c8n (set_sid s0 id).
Proof.
  intros (A & (B & C & D)). split; [apply c8_set_sid; exact A|].
  unfold no_inv. split; [apply (rl_calls_same s0); auto|]. split; [apply (sk_same s0); auto|apply (yg_same s0); auto].
Qed.
Lemma c8n_set_cl s0 : c8n s0 -> cl s0 = CIdle -> c8n (set_cl s0 C0).
Proof.
  intros (A & (B & C & D)) Hcl. split; [apply c8_set_cl; auto|].
  unfold no_inv. split; [apply (rl_calls_same s0); auto|]. split.
  - destruct C as (C1 & C2 & C3). unfold sk_inv; cbn. repeat split; auto.
    intros X. destruct (C2 X) as [Y|Y]; [congruence|auto].
  - apply (yg_same s0); [reflexivity| |exact D]. unfold postb; cbn. rewrite Hcl. reflexivity.
Qed.
Lemma c8n_step s0 e s1 fx : sinv s0 -> c8n s0 -> sstep s0 e = Some (s1, fx) -> c8n s1.
Proof.
  intros Hsi ((A1 & A2 & A3) & (B & C & D)) H. split.
  - apply (c8_step s0 e s1 fx Hsi (conj A1 (conj A2 A3)) H).
  - destruct Hsi as (Hs & Hic). unfold no_inv. split; [|split].
    + eapply rl_inv_step; eauto.
    + eapply sk_inv_step; eauto.
    + eapply yg_inv_step; eauto. apply Hic.
Qed.

Lemma reach_no_inv s : reach_sess s -> c8_inv s /\ no_inv s.
Proof.
  apply (lift_reach c8n); [apply c8n_base_ok|apply c8n_base_rej|apply c8n_base_dialrej|apply c8n_set_sid|apply c8n_set_cl|apply c8n_step].
Qed.



Lemma cnt_all_false {A} (f : A -> bool) l : (forall x, In x l -> f x = false) -> cnt f l = 0.
Proof.
  induction l as [|a l IH]; cbn; auto. intros H. rewrite (H a (or_introl eq_refl)). rewrite IH; auto.
Qed.

Lemma forallb_false_nth {A} (f : A -> bool) l : forallb f l = false -> exists j x, nth_error l j = Some x /\ f x = false.
Proof.
  induction l as [|a l IH]; cbn; [discriminate|]. destruct (f a) eqn:E; cbn.
  - intros H. destruct (IH H) as (j & x & Hj & Hx). exists (S j), x. auto.
  - intros _. exists 0, a. auto.
Qed.

(* in a terminal state nobody holds any call's mutex *)
Lemma terminal_free s j c :
  calls_ok s -> rl_inv s -> bound_ok s -> terminal s = true -> nth_error (calls s) j = Some c ->
  c_a c = ADone /\ c_h c = HNone.
Proof.
  intros Hco (A1 & _) Hb T Hn. split.
  - pose proof (terminal_caller s j c T Hn) as X. unfold caller_step in X. rewrite Hn in X. rewrite wr_choice_ok in X.
    destruct (c_a c); auto; try discriminate.
    + destruct (admits (st s) false); discriminate.
    + destruct (wr_choice s); discriminate.
  - pose proof (terminal_reply s j c T Hn) as X. unfold reply_step in X. rewrite Hn in X.
    pose proof (Forall_nth _ _ _ _ Hco Hn) as Cc.
    destruct (c_h c) eqn:Eh; auto; try discriminate.
    + exfalso. pose proof (terminal_reader s T) as Y. unfold reader_step in Y.
      destruct (A1 j c d Hn Eh) as [E|E]; rewrite E in Y.
      * destruct (early s (XBound j d)); [rewrite Hn in Y|]; discriminate.
      * rewrite Hn in Y. discriminate.
    + unfold call_ok in Cc. rewrite Eh in Cc. tauto.
Qed.

Theorem no_orphan_lemma s :
  reach_sess s -> terminal s = true ->
  (conn s = false \/ sock s = false \/ closed (st s) = true) ->
  forall i c, nth_error (calls s) i = Some c -> c_dones c = 1.
Proof.
  intros Hr T Hgone i c Hn.
  destruct (reach_no_inv s Hr) as ((Hco & Hw & Hg) & (Hrl & Hsk & Hy)).
  destruct (reach_sinv s Hr) as (Hsi & (_ & _ & Hb)).
  pose proof (Forall_nth _ _ _ _ Hco Hn) as Cc.
  destruct (c_dones c) as [|[|n]] eqn:Ed; auto; [|unfold call_ok in Cc; lia].
  exfalso.
  assert (Htab : c_tab c = true) by (unfold call_ok in Cc; apply Cc; auto).
  destruct (terminal_free s i c Hco Hrl Hb T Hn) as (Ha & Hh).
  assert (Hfree : forall j c', nth_error (calls s) j = Some c' -> mu_free c' = true).
  { intros j c' Hj. destruct (terminal_free s j c' Hco Hrl Hb T Hj) as (X1 & X2). unfold mu_free. rewrite X1, X2. reflexivity. }
  (* a state from which no call write can be admitted any more leaves only young calls in the table *)
  assert (Hpost : postb s = false).
  { destruct (postb s) eqn:P; auto. pose proof (Forall_nth _ _ _ _ (Hy P) Hn Htab) as [X|X]; congruence. }
  pose proof (terminal_reader s T) as R. pose proof (terminal_closer s T) as C.
  unfold postb in Hpost. apply orb_false_iff in Hpost. destruct Hpost as (Hpost & Hclosed).
  apply orb_false_iff in Hpost. destruct Hpost as (Hprd & Hpcl).
  (* the socket is closed if the status is *)
  assert (Hsock : conn s = false \/ sock s = false).
  { destruct Hgone as [X|[X|X]]; auto. rewrite X in Hclosed. discriminate. }
  unfold reader_step in R. pose proof Hrl as (A1 & A2 & A3).
  destruct (rd s) eqn:Erd; try discriminate.
  - (* the read loop has not been started yet: it is about to be *)
    apply negb_false_iff in Hprd. rewrite Hprd in R. cbn [fix_acc fixed] in R. discriminate.
  - destruct (goon (st s)); discriminate.
  - (* R2: the read error is pending *)
    pose proof (terminal_event s (EFrame FrErr) T) as X. unfold sstep, sstep_cfg, noeff, frame_step in X. rewrite Erd in X.
    assert (Y : Some (set_rd s (R3 XErr0), FxNone) = None); [|discriminate]. apply X.
    + unfold cand. cbn. auto.
    + unfold internal. destruct Hsock as [Z|Z]; rewrite Z; cbn; auto. rewrite orb_true_r. reflexivity.
  - destruct (nth_error (calls s) i0) as [c0|]; [destruct (c_tab c0)|]; discriminate.
  - (* RLock *)
    destruct A2 as (c0 & Hc0). rewrite Hc0 in R. rewrite (Hfree _ _ Hc0) in R.
    destruct (fix_dup fixed && negb (c_dones c0 =? 0)); [discriminate|]. destruct d; discriminate.
  - (* R3 *)
    destruct (early s x).
    + destruct x; try discriminate. unfold bound_ok in Hb. rewrite Erd in Hb. destruct Hb as (c0 & Hc0 & _).
      rewrite Hc0 in R. discriminate.
    + discriminate.
  - (* R4 *)
    destruct x; try tauto.
    + discriminate.
    + unfold bound_ok in Hb. rewrite Erd in Hb. destruct Hb as (c0 & Hc0 & _). rewrite Hc0 in R. discriminate.
  - destruct seen; cbn [fix_cas fixed] in R; try destruct (status_eqb (st s) _); discriminate.
  - (* DC: the first cancel loop is not blocked (past it, in D3 and D4, the table holds only
       calls before their status check: excluded above) *)
    destruct (all_visited (calls s)) eqn:Ev; [discriminate|].
    unfold all_visited in Ev. destruct (forallb_false_nth _ _ Ev) as (j & c0 & Hj & Hc0).
    pose proof (terminal_visit s j c0 T Hj) as V. unfold visit_step in V. rewrite Erd in V. cbn [rd_cancel] in V.
    unfold visit_body in V. rewrite Hj in V.
    apply orb_false_iff in Hc0. destruct Hc0 as (Ht & Hv). apply negb_false_iff in Ht.
    rewrite Ht, Hv, (Hfree _ _ Hj) in V. cbn in V.
    destruct (negb (c_rep c0) && cstat_ok (c_stat c0)); discriminate.
Qed.



(* no handler is left waiting for a call of its own session *)
Lemma handlers_finish_lemma s :
  reach_sess s -> terminal s = true ->
  (conn s = false \/ sock s = false \/ closed (st s) = true) ->
  forall j h, nth_error (hctxs s) j = Some h -> k_pc h = KDone.
Proof.
  intros Hr T Hg j h Hj. destruct (terminal_hctx_done s j h T Hj) as [X|(i & c & X & Hc & Hd)]; auto.
  pose proof (no_orphan_lemma s Hr T Hg i c Hc). lia.
Qed.

(* ---- cancel loop only after the handler wait (before 33a3798) ---- *)
Definition cfg_nopre : cfg := mkCfg true true true true true false.

(* an incoming CALL whose handler issues a call on the same session and waits for its
   completion; then the connection is lost *)
Definition wait_history : list sevent :=
  [EFrame FrCall; EReader true; EReader true; EReader true;   (* handler context counted, reader back in ReadMessage *)
   EHandler 0 false WOk;                                      (* the user handler runs *)
   EIssue; EHWait 0 0] ++ repeat (ECaller 0 false WOk) 4 ++   (* it calls, the request goes out, it waits *)
  [EConnLost; EFrame FrErr; EReader true; EReader true; EReader true].   (* read error; status, index *)

Lemma cancel_after_wait_refuted_lemma :
  exists s c h, srun_cfg cfg_nopre live_session (wait_history ++ [EReader true]) = Some s /\
                terminal_cfg cfg_nopre s = true /\ conn s = false /\ rd s = D3 Ok /\ ctxWG s = 1 /\
                nth_error (calls s) 0 = Some c /\ c_dones c = 0 /\ c_tab c = true /\
                nth_error (hctxs s) 0 = Some h /\ k_pc h = K1w 0.
Proof. eexists; eexists; eexists. split; [vm_compute; reflexivity|]. vm_compute. repeat split; auto. Qed.

Lemma wait_fixed :
  exists s c h, srun live_session (wait_history ++ [EReader true; EVisit 0; EReader true]
                                   ++ repeat (EHandler 0 false WOk) 4 ++ repeat (EReader true) 5) = Some s /\
                terminal s = true /\ rd s = RDone /\ st s = PassiveClosed /\
                nth_error (calls s) 0 = Some c /\ c_dones c = 1 /\ c_stat c = StConnClosed /\
                nth_error (hctxs s) 0 = Some h /\ k_pc h = KDone.
Proof. eexists; eexists; eexists. split; [vm_compute; reflexivity|]. vm_compute. repeat split; auto. Qed.

(* ---- a written call ends with a connection error only after the connection was lost ---- *)
Definition rd_exited (r : rpc) : bool :=
  match r with D0 | D1 _ | D2 _ | DC _ | D3 _ | D4 _ | D5 _ | D6 | D8 | RDone => true | _ => false end.

Definition lost_evidence (s : sess) : Prop := passive (st s) = true \/ rd_exited (rd s) = true.

Definition cc_ok (s : sess) (c : call) : Prop :=
  (c_a c = A1 \/ c_a c = A2 -> c_wrote c = false) /\
  (c_stat c = StConnClosed -> c_dones c <> 0) /\
  (c_dones c = 1 -> c_stat c = StConnClosed -> c_wrote c = true -> lost_evidence s).

Definition cc_inv (s : sess) : Prop := Forall (cc_ok s) (calls s).

Lemma cc_ok_mono s s' c : (lost_evidence s -> lost_evidence s') -> cc_ok s c -> cc_ok s' c.
Proof. unfold cc_ok. intuition. Qed.

Lemma rd_exited_step s e s' fx : sstep s e = Some (s', fx) -> rd_exited (rd s) = true -> rd_exited (rd s') = true.
Proof.
  intros H Hx. unfold sstep, sstep_cfg in H. destruct e.
  - destruct (conn s); inversion H; subst; auto.
  - unfold noeff, frame_step in H. destruct (rd s); try discriminate.
  - unfold noeff, close_call in H. destruct (cl s); try discriminate. inversion H; subst; auto.
  - inversion H; subst; auto.
  - inversion H; subst; auto.
  - unfold closer_step, notify in H. destruct (cl s); try discriminate;
      try destruct (ctxWG s); try destruct (callWG s); try destruct (notified s);
      try (inversion H; subst; auto; fail).
    all: destruct (st s); inversion H; subst; auto.
  - unfold reader_step, notify in H. destruct (rd s) eqn:Erd; try discriminate.
    + inversion H; subst; reflexivity.
    + destruct seen; cbn [fix_cas fixed] in H; try destruct (status_eqb (st s) _); inversion H; subst; reflexivity.
    + inversion H; subst; reflexivity.
    + destruct (ctxWG s); inversion H; subst; reflexivity.
    + destruct (all_visited (calls s)); inversion H; subst; reflexivity.
    + destruct seen; inversion H; subst; reflexivity.
    + inversion H; subst; reflexivity.
    + cbn in H. destruct (notified s); inversion H; subst; reflexivity.
    + destruct (all_visited (calls s)); inversion H; subst; reflexivity.
  - unfold noeff in H. destruct (visit_step s i) eqn:E; inversion H; subst.
    destruct (visit_step_ctrl _ _ _ E) as (_ & _ & _ & E4 & _). rewrite E4; auto.
  - unfold noeff in H. destruct (caller_step s i veto wr) eqn:E; inversion H; subst.
    destruct (caller_step_ctrl _ _ _ _ _ E) as (_ & _ & _ & E4 & _). rewrite E4; auto.
  - unfold noeff in H. destruct (reply_step s i) eqn:E; inversion H; subst.
    destruct (reply_step_ctrl _ _ _ E) as (_ & _ & _ & E4 & _). rewrite E4; auto.
  - unfold noeff in H. destruct (handler_step s j veto wr) eqn:E; inversion H; subst.
    destruct (handler_step_ctrl _ _ _ _ _ E) as (_ & _ & _ & E4 & _). rewrite E4; auto.
  - unfold noeff in H. destruct (hwait_step s j i) eqn:E; inversion H; subst.
    destruct (hwait_step_ctrl _ _ _ _ E) as (_ & _ & _ & E4 & _). rewrite E4; auto.
Qed.

Lemma lost_evidence_step s e s' fx : stat_inv s -> sstep s e = Some (s', fx) -> lost_evidence s -> lost_evidence s'.
Proof.
  intros Hsi H [P|P]; [left; eapply passive_mono; eauto|right; eapply rd_exited_step; eauto].
Qed.

Lemma cc_all_mono s s' : (lost_evidence s -> lost_evidence s') -> calls s' = calls s -> cc_inv s -> cc_inv s'.
Proof.
  intros Hm Ec H. unfold cc_inv in *. rewrite Ec. eapply Forall_impl; [|exact H]. intros c. apply cc_ok_mono; auto.
Qed.

Lemma cc_upd s s' i c' :
  (lost_evidence s -> lost_evidence s') -> calls s' = upd (calls s) i c' -> cc_ok s' c' -> cc_inv s -> cc_inv s'.
Proof.
  intros Hm Ec Hc H. unfold cc_inv in *. rewrite Ec. apply Forall_upd; auto.
  eapply Forall_impl; [|exact H]. intros c. apply cc_ok_mono; auto.
Qed.

Lemma cc_inv_step s e s' fx :
  stat_inv s -> c8_inv s -> no_inv s -> bound_ok s -> cc_inv s -> sstep s e = Some (s', fx) -> cc_inv s'.
Proof.
  intros Hsi (Hco & Hw & Hg) (Hrl & Hsk & Hy) Hb Hcc H.
  pose proof (lost_evidence_step s e s' fx Hsi H) as Hm.
  unfold sstep, sstep_cfg in H. destruct e.
  - destruct (conn s); inversion H; subst. apply (cc_all_mono s); auto.
  - unfold noeff, frame_step in H. destruct (rd s); try discriminate.
    destruct f; inversion H; subst; apply (cc_all_mono s); auto.
  - unfold noeff, close_call in H. destruct (cl s); try discriminate. inversion H; subst. apply (cc_all_mono s); auto.
  - (* issue *) inversion H; subst. unfold cc_inv, issue in *; cbn. apply Forall_snoc.
    + eapply Forall_impl; [|exact Hcc]. intros c. apply cc_ok_mono; auto.
    + unfold cc_ok; cbn. repeat split; auto; discriminate.
  - inversion H; subst. apply (cc_all_mono s); auto.
  - (* closer *)
    assert (Ec : calls s' = calls s).
    { unfold closer_step, notify in H. destruct (cl s); try discriminate;
        try destruct (ctxWG s); try destruct (callWG s); try destruct (notified s);
        try (inversion H; subst; reflexivity). all: destruct (st s); inversion H; subst; reflexivity. }
    apply (cc_all_mono s); auto.
  - (* reader *)
    unfold reader_step in H. destruct (rd s) eqn:Erd; try discriminate.
    + destruct (estab s); [|discriminate]. cbn [fix_acc fixed] in H.
      inversion H; subst; (apply (cc_all_mono _ _ Hm); [reflexivity|exact Hcc]).
    + destruct (goon (st s)); inversion H; subst; (apply (cc_all_mono _ _ Hm); [reflexivity|exact Hcc]).
    + destruct (nth_error (calls s) i) as [c|]; [destruct (c_tab c)|]; inversion H; subst; (apply (cc_all_mono _ _ Hm); [reflexivity|exact Hcc]).
    + destruct (nth_error (calls s) i) as [c|] eqn:En; [|discriminate].
      pose proof (Forall_nth _ _ _ _ Hcc En) as (K1 & K2 & K3).
      destruct (mu_free c) eqn:Em; [|discriminate].
      cbn [fix_dup fixed andb] in H. destruct (c_dones c =? 0) eqn:Ed; cbn [negb] in H;
        [|inversion H; subst; (apply (cc_all_mono _ _ Hm); [reflexivity|exact Hcc])].
      apply Nat.eqb_eq in Ed.
      assert (Hnc : c_stat c <> StConnClosed) by (intros X; apply (K2 X); exact Ed).
      destruct d; cbn [fix_abort fixed] in H; inversion H; subst;
        (eapply (cc_upd _ _ i); [exact Hm|reflexivity| |exact Hcc]);
        unfold cc_ok, abort_call; cbn; try destruct (cstat_ok (c_stat c)) eqn:Es; cbn;
        repeat split; auto; try discriminate; try (intros; congruence); try lia;
        try (intros X; exfalso; apply Hnc; exact X).
    + destruct (early s x).
      * destruct x; try (inversion H; subst; (apply (cc_all_mono _ _ Hm); [reflexivity|exact Hcc])).
        destruct (nth_error (calls s) i) as [c|] eqn:En; [|discriminate].
        pose proof (Forall_nth _ _ _ _ Hcc En) as (K1 & K2 & K3).
        cbn [fix_abort fixed] in H. inversion H; subst.
        (eapply (cc_upd _ _ i); [exact Hm|reflexivity| |exact Hcc]).
        unfold cc_ok, abort_call, lost_evidence; cbn. destruct (cstat_ok (c_stat c)) eqn:Es; cbn;
          repeat split; auto; try discriminate; try lia.
      * inversion H; subst; (apply (cc_all_mono _ _ Hm); [reflexivity|exact Hcc]).
    + destruct x; try discriminate.
      * destruct spawn_ok; [|destruct k]; inversion H; subst; (apply (cc_all_mono _ _ Hm); [reflexivity|exact Hcc]).
      * destruct (nth_error (calls s) i) as [c|] eqn:En; [|discriminate].
        pose proof (Forall_nth _ _ _ _ Hcc En) as (K1 & K2 & K3).
        pose proof (Forall_nth _ _ _ _ Hco En) as Cc.
        unfold bound_ok in Hb. rewrite Erd in Hb. destruct Hb as (c0 & Hc0 & Hh0).
        assert (c0 = c) by congruence. subst c0.
        unfold call_ok in Cc. rewrite Hh0 in Cc. destruct Cc as (_ & _ & _ & (Hd & _) & _).
        assert (Hnc : c_stat c <> StConnClosed) by (intros X; apply (K2 X); exact Hd).
        destruct spawn_ok; cbn [fix_abort fixed] in H; inversion H; subst;
          (eapply (cc_upd _ _ i); [exact Hm|reflexivity| |exact Hcc]);
          unfold cc_ok, reply_stat; cbn; try destruct (cstat_ok (c_stat c)) eqn:Es; cbn;
          repeat split; auto; try discriminate; try lia;
          try (intros X; exfalso; apply Hnc; exact X);
          try (intros _ X; exfalso; apply Hnc; exact X);
          try (destruct d; intros; discriminate).
    + inversion H; subst; (apply (cc_all_mono _ _ Hm); [reflexivity|exact Hcc]).
    + destruct seen; cbn [fix_cas fixed] in H; try destruct (status_eqb (st s) _); inversion H; subst;
        (apply (cc_all_mono _ _ Hm); [reflexivity|exact Hcc]).
    + inversion H; subst; (apply (cc_all_mono _ _ Hm); [reflexivity|exact Hcc]).
    + destruct (ctxWG s); inversion H; subst; (apply (cc_all_mono _ _ Hm); [reflexivity|exact Hcc]).
    + destruct (all_visited (calls s)); inversion H; subst; (apply (cc_all_mono _ _ Hm); [reflexivity|exact Hcc]).
    + destruct seen; inversion H; subst; (apply (cc_all_mono _ _ Hm); [reflexivity|exact Hcc]).
    + inversion H; subst; (apply (cc_all_mono _ _ Hm); [reflexivity|exact Hcc]).
    + inversion H; subst. apply (cc_all_mono _ _ Hm); [|exact Hcc]. unfold notify; cbn. destruct (notified s); reflexivity.
    + destruct (all_visited (calls s)); inversion H; subst; (apply (cc_all_mono _ _ Hm); [reflexivity|exact Hcc]).
  - (* visit: the cancel loop runs inside readDisconnected *)
    unfold noeff in H. destruct (visit_step s i) as [s0|] eqn:E; inversion H; subst s0 fx; clear H.
    unfold visit_step in E. destruct (rd_cancel (rd s)) eqn:Erc; [|discriminate]. unfold visit_body in E.
    destruct (nth_error (calls s) i) as [c|] eqn:En; [|discriminate].
    pose proof (Forall_nth _ _ _ _ Hcc En) as (K1 & K2 & K3).
    assert (Hex : rd_exited (rd s) = true) by (destruct (rd s); try discriminate Erc; reflexivity).
    destruct (c_tab c && negb (c_vis c) && mu_free c); [|discriminate].
    destruct (negb (c_rep c) && cstat_ok (c_stat c)); inversion E; subst;
      (eapply (cc_upd _ _ i); [exact Hm|reflexivity| |exact Hcc]);
      unfold cc_ok, lost_evidence; cbn; rewrite ?Hex; repeat split; auto; try discriminate; try lia.
  - (* caller *)
    unfold noeff in H. destruct (caller_step s i veto wr) as [s0|] eqn:E; inversion H; subst s0 fx; clear H.
    unfold caller_step in E. destruct (nth_error (calls s) i) as [c|] eqn:En; [|discriminate].
    pose proof (Forall_nth _ _ _ _ Hcc En) as (K1 & K2 & K3).
    pose proof (Forall_nth _ _ _ _ Hco En) as Cc.
    destruct (c_a c) eqn:Ea; try discriminate.
    + destruct veto; inversion E; subst; (eapply (cc_upd _ _ i); [exact Hm|reflexivity| |exact Hcc]);
        unfold cc_ok; cbn; repeat split; auto; try discriminate; try (intros; congruence).
    + destruct (admits (st s) false); inversion E; subst; (eapply (cc_upd _ _ i); [exact Hm|reflexivity| |exact Hcc]);
        unfold cc_ok; cbn; repeat split; auto; try discriminate; try (intros; congruence); try lia.
      intros _ _ X. rewrite K1 in X; auto; discriminate.
    + destruct (wr_ok s wr) eqn:Ew; [|discriminate].
      assert (Hd0 : c_dones c = 0) by (unfold call_ok in Cc; rewrite Ea in Cc; intuition).
      assert (Hnc : c_stat c <> StConnClosed) by (intros X; apply (K2 X); exact Hd0).
      assert (Hyoung : postb s = true -> False).
      { intros P. pose proof (Forall_nth _ _ _ _ (Hy P) En) as Yc.
        assert (Ht : c_tab c = true) by (unfold call_ok in Cc; apply Cc; exact Hd0).
        destruct (Yc Ht); congruence. }
      destruct wr; inversion E; subst; (eapply (cc_upd _ _ i); [exact Hm|reflexivity| |exact Hcc]);
        unfold cc_ok; cbn; (split; [intros [X|X]; discriminate|split]).
      * exact K2.
      * intros X; rewrite Hd0 in X; discriminate.
      * intros _ X; discriminate.
      * (* the socket was closed under the caller: only the disconnect path can have done it *)
        intros _ _ _. unfold wr_ok in Ew. destruct (sock s) eqn:Es; [discriminate|].
        destruct Hg as (_ & G2 & _). destruct (G2 Es) as [P|[P|P]].
        -- left. unfold fail_call, done_call; cbn. exact P.
        -- exfalso. apply Hyoung. unfold postb. rewrite P. cbn. rewrite orb_true_r. reflexivity.
        -- exfalso. apply Hyoung. unfold postb. destruct Hsi as (_ & _ & _ & _ & (_ & He2 & _)).
           destruct (rd s); try (rewrite He2 in P by discriminate; discriminate). rewrite P. reflexivity.
      * intros X; discriminate.
      * intros _ X; discriminate.
    + inversion E; subst; (eapply (cc_upd _ _ i); [exact Hm|reflexivity| |exact Hcc]).
      unfold cc_ok; cbn; repeat split; auto; intros [X|X]; discriminate.
  - (* reply handler *)
    unfold noeff in H. destruct (reply_step s i) as [s0|] eqn:E; inversion H; subst s0 fx; clear H.
    unfold reply_step in E. destruct (nth_error (calls s) i) as [c|] eqn:En; [|discriminate].
    pose proof (Forall_nth _ _ _ _ Hcc En) as (K1 & K2 & K3).
    pose proof (Forall_nth _ _ _ _ Hco En) as Cc.
    destruct (c_h c) eqn:Eh; try discriminate;
      (assert (Hd0 : c_dones c = 0) by (unfold call_ok in Cc; rewrite Eh in Cc; intuition));
      (assert (Hnc : c_stat c <> StConnClosed) by (intros X; apply (K2 X); exact Hd0));
      inversion E; subst; (eapply (cc_upd _ _ i); [exact Hm|reflexivity| |exact Hcc]);
      unfold cc_ok, reply_stat; cbn; try destruct (cstat_ok (c_stat c)) eqn:Es; cbn;
      repeat split; auto; try discriminate; try lia;
      try (intros X; exfalso; apply Hnc; exact X);
      try (intros _ X; exfalso; apply Hnc; exact X);
      try (destruct d; intros; discriminate).
  - unfold noeff in H. destruct (handler_step s j veto wr) as [s0|] eqn:E; inversion H; subst s0 fx; clear H.
    apply (cc_all_mono s); auto.
    unfold handler_step in E. destruct (nth_error (hctxs s) j) as [h|]; [|discriminate]. cbv zeta in E.
    destruct (k_pc h); try discriminate;
      repeat match type of E with
             | context [match ?x with _ => _ end] => destruct x; try discriminate E
             | context [if ?x then _ else _] => destruct x; try discriminate E
             end; inversion E; reflexivity.
  - unfold noeff in H. destruct (hwait_step s j i) as [s0|] eqn:E; inversion H; subst s0 fx; clear H.
    apply (cc_all_mono s); auto.
    unfold hwait_step in E. destruct (nth_error (hctxs s) j) as [h|]; [|discriminate]. cbv zeta in E.
    destruct (k_pc h); try discriminate;
      repeat match type of E with
             | context [match ?x with _ => _ end] => destruct x; try discriminate E
             | context [if ?x then _ else _] => destruct x; try discriminate E
             end; inversion E; reflexivity.
Qed.

Lemma reach_cc s : reach_sess s -> c8n s /\ cc_inv s.
Proof.
  apply (lift_reach (fun s => c8n s /\ cc_inv s)).
  - intros id. split; [apply c8n_base_ok|constructor].
  - intros id. split; [apply c8n_base_rej|constructor].
  - intros id. split; [apply c8n_base_dialrej|constructor].
  - intros s0 id (A & B). split; [apply c8n_set_sid; exact A|]. apply (cc_all_mono s0); auto.
  - intros s0 (A & B) Hcl. split; [apply c8n_set_cl; auto|]. apply (cc_all_mono s0); auto.
  - intros s0 e s1 fx Hsi (A & B) H. split; [eapply c8n_step; eauto|].
    destruct A as (A1 & A2). destruct Hsi as (Hs & (Hx1 & Hx2 & Hb)). eapply cc_inv_step; eauto.
Qed.

(* C08 own_calls_get_reply_or_conn_error *)
Lemma own_calls_lemma s i c :
  reach_sess s -> nth_error (calls s) i = Some c -> c_dones c = 1 -> c_wrote c = true ->
  (c_stat c = StConnClosed -> lost_evidence s) /\ (c_stat c = StOk -> c_rep c = true).
Proof.
  intros H Hn Hd Hw. destruct (reach_cc s H) as (((Hco & _) & _) & Hcc).
  pose proof (Forall_nth _ _ _ _ Hcc Hn) as (_ & _ & K3).
  pose proof (Forall_nth _ _ _ _ Hco Hn) as Cc. split; [auto|].
  unfold call_ok in Cc. intuition.
Qed.
