(* Lemmas about Model/HttpFrame.v: the repository's line reader and header loop on the text
   Pack writes, under the contract on the header lines net/http produces. *)
From Coq Require Import Strings.String Strings.Byte.
From Coq Require Import List Arith NArith ZArith Bool Lia.
From Verif Require Import Base.Bytes Base.Outcome Model.Quote Model.Args Model.Numfmt
  Model.StatusQuery Model.Xfer Model.RawProto Model.FrameStream Model.JsonFrame Model.HttpFrame
  Proofs.QuoteProofs Proofs.ArgsProofs Proofs.NumfmtProofs Proofs.StatusProofs
  Proofs.XferProofs Proofs.RawProofs Proofs.JsonProofs.
Import ListNotations.
Local Open Scope N_scope.

Definition nolf (x : bytes) : bool := forallb (fun c => negb (beqb c LF)) x.
Definition nocolon (x : bytes) : bool := forallb (fun c => negb (beqb c ":"%byte)) x.
Definition nospace (x : bytes) : bool := forallb (fun c => negb (beqb c " "%byte)) x.

(* ---- readLine ---- *)
Lemma read_line_crlf lim (x : bytes) : forall acc n rest,
  nolf x = true -> n + blen x + 2 <= lim ->
  read_line lim (x ++ CR :: LF :: rest) acc n = Ok (rev acc ++ x, rest).
Proof.
  induction x as [|c x IH]; intros acc n rest Hx Hl.
  - change (blen []) with 0 in Hl. cbn [app read_line].
    replace (lim <? n + 1) with false by (symmetry; apply N.ltb_ge; lia).
    change (beqb CR LF) with false. cbn iota.
    replace (lim <? n + 1 + 1) with false by (symmetry; apply N.ltb_ge; lia).
    rewrite beqb_refl. rewrite beqb_refl. rewrite frev_rev, app_nil_r. reflexivity.
  - unfold nolf in Hx. cbn [forallb] in Hx. apply andb_true_iff in Hx as [Hc Hx].
    apply negb_true_iff in Hc. rewrite blen_cons in Hl.
    cbn [app read_line].
    replace (lim <? n + 1) with false by (symmetry; apply N.ltb_ge; lia).
    rewrite Hc. rewrite IH by (try exact Hx; lia).
    cbn [rev]. rewrite <- app_assoc. reflexivity.
Qed.

Lemma split1_app sep (k : bytes) : forall acc v,
  forallb (fun c => negb (beqb c sep)) k = true ->
  split1 sep (k ++ sep :: v) acc = Some (rev acc ++ k, v).
Proof.
  induction k as [|c k IH]; intros acc v Hk.
  - cbn [app split1]. rewrite beqb_refl, frev_rev, app_nil_r. reflexivity.
  - cbn [forallb] in Hk. apply andb_true_iff in Hk as [Hc Hk]. apply negb_true_iff in Hc.
    cbn [app split1]. rewrite Hc, IH by exact Hk. cbn [rev]. rewrite <- app_assoc. reflexivity.
Qed.

(* a value without white space at either end *)
Definition clean (v : bytes) : Prop := ltrim v = v /\ ltrim (rev v) = rev v.

Lemma trim_clean v : clean v -> trim (" "%byte :: v) = v.
Proof.
  intros [H1 H2]. unfold trim. cbn [ltrim]. change (is_sp " "%byte) with true. cbn iota.
  rewrite H1, !frev_rev, H2, rev_involutive. reflexivity.
Qed.

Lemma trim_sp v : trim (" "%byte :: v) = trim v.
Proof. reflexivity. Qed.

(* ---- the header loop on serialised lines ---- *)
Definition bump (st : hstate) (n : N) : hstate :=
  mkHs (hs_codec st) (hs_bodysize st) (hs_pipe st) (hs_seq st) (hs_mtype st) (hs_meta st) (hs_size st + n).

Definition line_len (p : bytes * bytes) : N := blen (fst p) + 2 + blen (snd p).

Definition line_wf (lim : N) (p : bytes * bytes) : Prop :=
  nolf (fst p) = true /\ nocolon (fst p) = true /\ nolf (snd p) = true /\ line_len p + 2 <= lim.

Section Loop.
  Variable by_name : bytes -> option hfilter.
  Variable lim : N.

  Fixpoint hfold (L : list (bytes * bytes)) (st : hstate) : res hstate :=
    match L with
    | [] => Ok st
    | p :: r =>
        let st1 := bump st (line_len p) in
        if over lim (hs_size st1) then Err
        else st2 <- hstep by_name lim st1 (fst p) (trim (snd p)) ;; hfold r st2
    end.

  Lemma ser_lines_cons k v L :
    ser_lines ((k, v) :: L) = k ++ ":"%byte :: " "%byte :: v ++ CR :: LF :: ser_lines L.
  Proof.
    unfold ser_lines. cbn [flat_map]. rewrite <- !app_assoc. reflexivity.
  Qed.

  Lemma headers_parse L : forall fuel st rest,
    Forall (line_wf lim) L -> (length L < fuel)%nat -> 2 <= lim ->
    http_headers by_name fuel lim (ser_lines L ++ CR :: LF :: rest) st
    = (st' <- hfold L st ;;
       if over lim (hs_size st' + 0) then Err else Ok (bump st' 0, rest)).
  Proof.
    induction L as [|[k v] L IH]; intros fuel st rest Hwf Hfuel Hlim.
    - destruct fuel; [cbn [length] in Hfuel; lia|].
      cbn [ser_lines flat_map app http_headers hfold rbind].
      assert (E : read_line lim (CR :: LF :: rest) [] 0 = Ok ([], rest)).
      { apply (read_line_crlf lim [] [] 0 rest); [reflexivity | change (blen []) with 0; lia]. }
      rewrite E. cbn [rbind]. change (blen []) with 0. reflexivity.
    - destruct fuel; [cbn [length] in Hfuel; lia|]. cbn [length] in Hfuel.
      inversion Hwf as [|? ? (Hk1 & Hk2 & Hv & Hlen) Hrest]; subst. cbn [fst snd] in *.
      unfold line_len in Hlen. cbn [fst snd] in Hlen.
      rewrite ser_lines_cons. cbn [http_headers].
      assert (Hline : nolf (k ++ ":"%byte :: " "%byte :: v) = true).
      { unfold nolf in *. rewrite forallb_app. rewrite Hk1. cbn [forallb andb].
        change (negb (beqb ":"%byte LF)) with true. change (negb (beqb " "%byte LF)) with true.
        cbn [andb]. exact Hv. }
      replace (k ++ ":"%byte :: " "%byte :: v ++ CR :: LF :: ser_lines L ++ CR :: LF :: rest)
        with ((k ++ ":"%byte :: " "%byte :: v) ++ CR :: LF :: (ser_lines L ++ CR :: LF :: rest))
        by (rewrite <- !app_assoc; reflexivity).
      replace ((k ++ ":"%byte :: " "%byte :: v ++ CR :: LF :: ser_lines L) ++ CR :: LF :: rest)
        with ((k ++ ":"%byte :: " "%byte :: v) ++ CR :: LF :: (ser_lines L ++ CR :: LF :: rest))
        by (rewrite <- !app_assoc; cbn [app]; rewrite <- !app_assoc; reflexivity).
      assert (Hbl : blen (k ++ ":"%byte :: " "%byte :: v) = blen k + 2 + blen v).
      { rewrite blen_app, !blen_cons. lia. }
      rewrite read_line_crlf by (try exact Hline; rewrite Hbl; lia).
      cbn [rev app rbind]. rewrite Hbl.
      cbn [hfold]. unfold line_len. cbn [fst snd]. unfold bump at 1. cbn [hs_size].
      destruct (over lim (hs_size st + (blen k + 2 + blen v))) eqn:Eo; [reflexivity|].
      destruct (k ++ ":"%byte :: " "%byte :: v) as [|c0 l0] eqn:El.
      { apply app_eq_nil in El as [_ El]. discriminate. }
      rewrite <- El. rewrite split1_app by exact Hk2. cbn [rev app]. rewrite trim_sp.
      unfold bump. cbn [hs_codec hs_bodysize hs_pipe hs_seq hs_mtype hs_meta hs_size].
      destruct (hstep by_name lim _ k (trim v)) as [st2| |]; cbn [rbind]; try reflexivity.
      apply IH; auto. lia.
  Qed.
End Loop.

(* ---- what the header loop computes, as pure folds ---- *)
Definition lines_for (L : list (bytes * bytes)) (K : bytes) : list bytes :=
  map snd (List.filter (fun p => bytes_eqb (fst p) K) L).

Definition clen_add (v : bytes) : N :=
  match atoi v with Some n => if (0 <? n)%Z then Z.to_N n else 0 | None => 0 end.

Section Pure.
  Variable by_name : bytes -> option hfilter.

  Definition pstep (st : hstate) (k v : bytes) : hstate :=
    if bytes_eqb k K_ctype then
      mkHs (body_codec v) (hs_bodysize st) (hs_pipe st) (hs_seq st) (hs_mtype st) (hs_meta st) (hs_size st)
    else if bytes_eqb k K_clen then
      mkHs (hs_codec st) (match atoi v with Some n => n | None => hs_bodysize st end) (hs_pipe st)
           (hs_seq st) (hs_mtype st) (hs_meta st) (hs_size st + clen_add v)
    else if bytes_eqb k K_xenc then
      mkHs (hs_codec st) (hs_bodysize st)
           (match by_name v with Some f => hs_pipe st ++ [f] | None => hs_pipe st end)
           (hs_seq st) (hs_mtype st) (hs_meta st) (hs_size st)
    else if bytes_eqb k K_seq then
      mkHs (hs_codec st) (hs_bodysize st) (hs_pipe st)
           (match atoi v with Some n => wrap32 n | None => hs_seq st end) (hs_mtype st) (hs_meta st) (hs_size st)
    else if bytes_eqb k K_mtype then
      mkHs (hs_codec st) (hs_bodysize st) (hs_pipe st) (hs_seq st)
           (match atoi v with Some n => wrap8 n | None => hs_mtype st end) (hs_meta st) (hs_size st)
    else mkHs (hs_codec st) (hs_bodysize st) (hs_pipe st) (hs_seq st) (hs_mtype st)
              (set_kv (hs_meta st) k v) (hs_size st).

  Fixpoint pfold (L : list (bytes * bytes)) (st : hstate) : hstate :=
    match L with
    | [] => st
    | p :: r => pfold r (pstep (bump st (line_len p)) (fst p) (trim (snd p)))
    end.

  (* a line the loop accepts *)
  Definition step_ok (p : bytes * bytes) : Prop :=
    (bytes_eqb (fst p) K_clen = true -> exists n, atoi (trim (snd p)) = Some n) /\
    (bytes_eqb (fst p) K_xenc = true -> exists f, by_name (trim (snd p)) = Some f) /\
    (bytes_eqb (fst p) K_seq = true -> exists n, atoi (trim (snd p)) = Some n) /\
    (bytes_eqb (fst p) K_mtype = true -> exists n, atoi (trim (snd p)) = Some n).

  Lemma pfold_size_mono L : forall st, hs_size st <= hs_size (pfold L st).
  Proof.
    induction L as [|p L IH]; intros st; [cbn; lia|]. cbn [pfold].
    eapply N.le_trans; [|apply IH]. unfold pstep, bump.
    repeat match goal with |- context [if ?b then _ else _] => destruct b end;
      cbn [hs_size]; lia.
  Qed.

  Lemma hfold_pfold lim L : forall st,
    Forall step_ok L -> hs_size (pfold L st) <= lim ->
    hfold by_name lim L st = Ok (pfold L st).
  Proof.
    induction L as [|p L IH]; intros st Hok Hsz; [reflexivity|].
    inversion Hok as [|? ? (O1 & O2 & O3 & O4) Hrest]; subst.
    cbn [hfold pfold] in *.
    set (st1 := bump st (line_len p)) in *.
    pose proof (pfold_size_mono L (pstep st1 (fst p) (trim (snd p)))) as Hm.
    assert (Hs1 : hs_size st1 <= hs_size (pstep st1 (fst p) (trim (snd p)))).
    { unfold pstep. repeat match goal with |- context [if ?b then _ else _] => destruct b end;
        cbn [hs_size]; lia. }
    unfold over. replace (lim <? hs_size st1) with false by (symmetry; apply N.ltb_ge; lia).
    assert (E : hstep by_name lim st1 (fst p) (trim (snd p)) = Ok (pstep st1 (fst p) (trim (snd p)))).
    { unfold hstep, pstep in *.
      destruct (bytes_eqb (fst p) K_ctype); [reflexivity|].
      destruct (bytes_eqb (fst p) K_clen) eqn:E2.
      - destruct (O1 eq_refl) as (n & Hn). rewrite Hn in *. unfold clen_add in *. rewrite Hn in *.
        cbn [hs_size] in *. destruct (0 <? n)%Z eqn:Ep.
        + unfold over.
          replace (lim <? Z.to_N n) with false by (symmetry; apply N.ltb_ge; lia).
          replace (lim <? hs_size st1 + Z.to_N n) with false by (symmetry; apply N.ltb_ge; lia).
          reflexivity.
        + rewrite N.add_0_r. reflexivity.
      - destruct (bytes_eqb (fst p) K_xenc) eqn:E3.
        + destruct (O2 eq_refl) as (f & Hf). rewrite Hf. reflexivity.
        + destruct (bytes_eqb (fst p) K_seq) eqn:E4.
          * destruct (O3 eq_refl) as (n & Hn). rewrite Hn. reflexivity.
          * destruct (bytes_eqb (fst p) K_mtype) eqn:E5; [|reflexivity].
            destruct (O4 eq_refl) as (n & Hn). rewrite Hn. reflexivity. }
    rewrite E. cbn [rbind]. apply IH; assumption.
  Qed.

  (* ---- projections: what a key's lines make of a field ---- *)
  Definition proj {A} (K : bytes) (f : bytes -> A -> A) (L : list (bytes * bytes)) (a0 : A) : A :=
    fold_left (fun a p => if bytes_eqb (fst p) K then f (trim (snd p)) a else a) L a0.

  Lemma proj_none {A} K (f : bytes -> A -> A) L a0 : lines_for L K = [] -> proj K f L a0 = a0.
  Proof.
    revert a0. induction L as [|p L IH]; intros a0 H; [reflexivity|].
    unfold lines_for in H. cbn [List.filter] in H. unfold proj. cbn [fold_left].
    destruct (bytes_eqb (fst p) K); [discriminate|]. apply IH. exact H.
  Qed.

  Lemma proj_single {A} K (f : bytes -> A -> A) L a0 v :
    lines_for L K = [v] -> proj K f L a0 = f (trim v) a0.
  Proof.
    revert a0. induction L as [|p L IH]; intros a0 H; [discriminate|].
    unfold lines_for in H. cbn [List.filter] in H. unfold proj. cbn [fold_left].
    destruct (bytes_eqb (fst p) K).
    - cbn [map] in H. inversion H as [[Hv Hr]]. apply (proj_none K f L). exact Hr.
    - apply IH. exact H.
  Qed.

  Ltac keycases k :=
    unfold pstep;
    destruct (bytes_eqb k K_ctype) eqn:?E1;
      [apply bytes_eqb_eq in E1; subst k|
    destruct (bytes_eqb k K_clen) eqn:?E2;
      [apply bytes_eqb_eq in E2; subst k|
    destruct (bytes_eqb k K_xenc) eqn:?E3;
      [apply bytes_eqb_eq in E3; subst k|
    destruct (bytes_eqb k K_seq) eqn:?E4;
      [apply bytes_eqb_eq in E4; subst k|
    destruct (bytes_eqb k K_mtype) eqn:?E5;
      [apply bytes_eqb_eq in E5; subst k|]]]]].

  Lemma pfold_codec L : forall st,
    hs_codec (pfold L st) = proj K_ctype (fun v _ => body_codec v) L (hs_codec st).
  Proof.
    induction L as [|[k v] L IH]; intros st; [reflexivity|]. cbn [pfold]. rewrite IH.
    unfold proj at 2. cbn [fold_left fst snd]. fold (proj K_ctype (fun v _ => body_codec v) L).
    f_equal. keycases k; cbn [hs_codec bump]; try reflexivity;
      try (rewrite E1; reflexivity).
  Qed.

  Lemma pfold_seq L : forall st,
    hs_seq (pfold L st)
    = proj K_seq (fun v old => match atoi v with Some n => wrap32 n | None => old end) L (hs_seq st).
  Proof.
    induction L as [|[k v] L IH]; intros st; [reflexivity|]. cbn [pfold]. rewrite IH.
    unfold proj at 2. cbn [fold_left fst snd].
    fold (proj K_seq (fun v old => match atoi v with Some n => wrap32 n | None => old end) L).
    f_equal. keycases k; cbn [hs_seq bump]; try reflexivity; try (rewrite E4; reflexivity).
  Qed.

  Lemma pfold_mtype L : forall st,
    hs_mtype (pfold L st)
    = proj K_mtype (fun v old => match atoi v with Some n => wrap8 n | None => old end) L (hs_mtype st).
  Proof.
    induction L as [|[k v] L IH]; intros st; [reflexivity|]. cbn [pfold]. rewrite IH.
    unfold proj at 2. cbn [fold_left fst snd].
    fold (proj K_mtype (fun v old => match atoi v with Some n => wrap8 n | None => old end) L).
    f_equal. keycases k; cbn [hs_mtype bump]; try reflexivity; try (rewrite E5; reflexivity).
  Qed.

  Lemma pfold_bodysize L : forall st,
    hs_bodysize (pfold L st)
    = proj K_clen (fun v old => match atoi v with Some n => n | None => old end) L (hs_bodysize st).
  Proof.
    induction L as [|[k v] L IH]; intros st; [reflexivity|]. cbn [pfold]. rewrite IH.
    unfold proj at 2. cbn [fold_left fst snd].
    fold (proj K_clen (fun v old => match atoi v with Some n => n | None => old end) L).
    f_equal. keycases k; cbn [hs_bodysize bump]; try reflexivity; try (rewrite E2; reflexivity).
  Qed.

  Lemma pfold_pipe L : forall st,
    hs_pipe (pfold L st)
    = proj K_xenc (fun v old => match by_name v with Some f => old ++ [f] | None => old end) L (hs_pipe st).
  Proof.
    induction L as [|[k v] L IH]; intros st; [reflexivity|]. cbn [pfold]. rewrite IH.
    unfold proj at 2. cbn [fold_left fst snd].
    fold (proj K_xenc (fun v old => match by_name v with Some f => old ++ [f] | None => old end) L).
    f_equal. keycases k; cbn [hs_pipe bump]; try reflexivity; try (rewrite E3; reflexivity).
  Qed.
End Pure.

(* ---- strconv.Atoi on what strconv.FormatInt / Itoa wrote ---- *)
Lemma dec_digits_loop (s : bytes) : forall acc v,
  parse_uint_loop 10 s acc = UVal v -> dec_digits s (Z.of_N acc) = Some (Z.of_N v).
Proof.
  induction s as [|c s IH]; intros acc v H; cbn [parse_uint_loop dec_digits] in *.
  - inversion H. reflexivity.
  - unfold char_digit in H.
    destruct ((48 <=? b2n c) && (b2n c <=? 57)) eqn:E1.
    + destruct (10 <=? b2n c - 48) eqn:E2; [discriminate|].
      destruct (4294967295 <? acc * 10 + (b2n c - 48)) eqn:E3; [discriminate|].
      apply IH in H. rewrite <- H. f_equal. lia.
    + destruct ((97 <=? b2n c) && (b2n c <=? 122)) eqn:E4.
      * apply andb_true_iff in E4 as [A B]. apply N.leb_le in A.
        replace (10 <=? b2n c - 87) with true in H by (symmetry; apply N.leb_le; lia). discriminate.
      * destruct ((65 <=? b2n c) && (b2n c <=? 90)) eqn:E5; [|discriminate].
        apply andb_true_iff in E5 as [A B]. apply N.leb_le in A.
        replace (10 <=? b2n c - 55) with true in H by (symmetry; apply N.leb_le; lia). discriminate.
Qed.

Lemma atoi_digits n : n <= 4294967295 -> atoi (digits 10 n) = Some (Z.of_N n).
Proof.
  intros Hn. assert (B1 : 2 <= 10) by lia. assert (B2 : 10 <= 36) by lia.
  pose proof (parse_uint_digits 10 B1 B2 n Hn) as Hp.
  unfold digits in *.
  destruct (digits_fuel_head 10 B1 B2 (S (N.to_nat (N.log2 n))) n []) as (d & t & Hd & E);
    [left; discriminate|].
  destruct (digit_char_facts d Hd) as (_ & Hm & Hpl).
  unfold atoi. rewrite E, Hm, Hpl. rewrite <- E.
  unfold parse_uint in Hp. rewrite E in Hp. rewrite <- E in Hp.
  apply dec_digits_loop in Hp. change (Z.of_N 0) with 0%Z in Hp. rewrite E at 1. rewrite <- E.
  rewrite Hp.
  replace ((-9223372036854775808 <=? Z.of_N n) && (Z.of_N n <=? 9223372036854775807))%Z with true
    by (symmetry; apply andb_true_iff; split; apply Z.leb_le; lia).
  reflexivity.
Qed.

Lemma atoi_format z : (-4294967295 <= z <= 4294967295)%Z -> atoi (format_int 10 z) = Some z.
Proof.
  intros Hz. unfold format_int. destruct (z <? 0)%Z eqn:E.
  - apply Z.ltb_lt in E.
    pose proof (atoi_digits (Z.to_N (- z)) ltac:(lia)) as H.
    unfold atoi in *. rewrite beqb_refl.
    assert (B1 : 2 <= 10) by lia. assert (B2 : 10 <= 36) by lia.
    unfold digits in *.
    destruct (digits_fuel_head 10 B1 B2 (S (N.to_nat (N.log2 (Z.to_N (- z))))) (Z.to_N (- z)) [])
      as (d & t & Hd & Ed); [left; discriminate|].
    destruct (digit_char_facts d Hd) as (_ & Hm & Hpl).
    rewrite Ed in *. rewrite Hm, Hpl in H.
    destruct (dec_digits (digit_char d :: t) 0) as [v|]; [|discriminate].
    destruct ((-9223372036854775808 <=? v) && (v <=? 9223372036854775807))%Z eqn:Er; [|discriminate].
    inversion H; subst v. rewrite Z2N.id by lia.
    replace ((-9223372036854775808 <=? - - z) && (- - z <=? 9223372036854775807))%Z with true
      by (symmetry; apply andb_true_iff; split; apply Z.leb_le; lia).
    f_equal. lia.
  - apply Z.ltb_ge in E. rewrite atoi_digits by lia. rewrite Z2N.id by lia. reflexivity.
Qed.

(* ---- values without surrounding white space ---- *)
Definition nosp (c : byte) : bool := negb (is_sp c).

Lemma nosp_clean v : forallb nosp v = true -> clean v.
Proof.
  intros H. split.
  - destruct v as [|c r]; [reflexivity|]. cbn [forallb] in H. apply andb_true_iff in H as [Hc _].
    unfold nosp in Hc. apply negb_true_iff in Hc. cbn [ltrim]. rewrite Hc. reflexivity.
  - assert (Hr : forallb nosp (rev v) = true).
    { apply forallb_forall. intros x Hx. apply in_rev in Hx. rewrite forallb_forall in H. auto. }
    destruct (rev v) as [|c r]; [reflexivity|]. cbn [forallb] in Hr. apply andb_true_iff in Hr as [Hc _].
    unfold nosp in Hc. apply negb_true_iff in Hc. cbn [ltrim]. rewrite Hc. reflexivity.
Qed.

Lemma format_int_clean z : clean (format_int 10 z).
Proof. apply nosp_clean. apply format_int_class; [apply lt16_cases; reflexivity | reflexivity]. Qed.

Lemma trim_of_clean v : clean v -> trim v = v.
Proof. intros [H1 H2]. unfold trim. rewrite H1, !frev_rev, H2, rev_involutive. reflexivity. Qed.

(* the five codecs with a content type of their own *)
Definition codec_mapped (c : byte) : bool :=
  existsb (beqb c) [ "p"%byte; "j"%byte; "f"%byte; "s"%byte; "x"%byte ].

Lemma codec_mapped_facts c def :
  codec_mapped c = true ->
  clean (content_type c def) /\ body_codec (content_type c def) = c /\ nolf (content_type c def) = true.
Proof.
  unfold codec_mapped. cbn [existsb]. intros H.
  repeat (apply orb_true_iff in H as [H|H]; [apply beqb_eq in H; subst c; repeat split; reflexivity|]).
  discriminate.
Qed.

Lemma lines_for_in L K p :
  In p L -> bytes_eqb (fst p) K = true -> In (snd p) (lines_for L K).
Proof.
  intros Hin Hk. unfold lines_for. apply in_map. apply filter_In. split; assumption.
Qed.

Lemma ser_lines_length L : (length L <= length (ser_lines L))%nat.
Proof.
  induction L as [|[k v] L IH]; [cbn; lia|]. rewrite ser_lines_cons.
  rewrite app_length. cbn [length]. rewrite app_length. cbn [length]. lia.
Qed.

(* ---- one frame ---- *)
Section HttpRound.
  Variable hdr_write : list hop -> list (bytes * bytes).
  Variable url_parse : bytes -> option (bytes * bytes * bytes).
  Variable st_json : status -> bytes.
  Variable st_unjson : bytes -> res status.
  Variable by_name : bytes -> option hfilter.

  (* contract on the lines net/http wrote: well-formed lines, each protocol header exactly
     once with the value Pack set (X-Content-Encoding: once per filter of the pipe) *)
  Definition hdr_contract (lim : N) (L : list (bytes * bytes)) (seq : Z) (mt : byte)
             (ctype : bytes) (clen : N) (xenc : list bytes) : Prop :=
    Forall (line_wf lim) L /\
    lines_for L K_seq = [format_int 10 seq] /\
    lines_for L K_mtype = [format_int 10 (byte_z mt)] /\
    lines_for L K_ctype = [ctype] /\
    lines_for L K_clen = [format_int 10 (Z.of_N clen)] /\
    lines_for L K_xenc = xenc.

  (* the pipes httproto supports: none, or one gzip filter the name lookup finds again *)
  Definition pipe_ok (p : list hfilter) : Prop :=
    p = [] \/
    exists g, p = [g] /\ hf_gzip g = true /\ by_name (hf_name g) = Some g /\ clean (hf_name g) /\
              (forall d y, f_pack (hf_filter g) d = Some y -> f_unpack (hf_filter g) y = Some d /\ y <> []).

  Definition packed_body (p : list hfilter) (body body' : bytes) : Prop :=
    match p with
    | [] => body' = body
    | g :: _ => f_pack (hf_filter g) body = Some body'
    end.

  Lemma http_rest_ok lim L p seq mt ctype body body' rest st0 :
    hdr_contract lim L seq mt ctype (blen body') (map hf_name p) ->
    pipe_ok p -> packed_body p body body' -> clean ctype ->
    (-4294967295 <= seq <= 4294967295)%Z -> blen body' <= 4294967295 ->
    hs_pipe st0 = [] -> hs_size (pfold by_name L st0) <= lim -> 2 <= lim ->
    let st := pfold by_name L st0 in
    http_rest by_name lim (ser_lines L ++ CR :: LF :: body' ++ rest) st0 = Ok (bump st 0, body, rest) /\
    hs_seq st = wrap32 seq /\ hs_mtype st = mt /\ hs_codec st = body_codec ctype /\ hs_pipe st = p.
  Proof.
    intros (Hwf & Hseq & Hmt & Hct & Hcl & Hxe) Hp Hbody Hcc Hsr Hbl Hp0 Hsz Hlim st.
    assert (Tseq := trim_of_clean _ (format_int_clean seq)).
    assert (Tmt := trim_of_clean _ (format_int_clean (byte_z mt))).
    assert (Tcl := trim_of_clean _ (format_int_clean (Z.of_N (blen body')))).
    assert (Tct := trim_of_clean _ Hcc).
    assert (Aseq := atoi_format seq Hsr).
    assert (Amt : atoi (format_int 10 (byte_z mt)) = Some (byte_z mt)).
    { apply atoi_format. unfold byte_z. pose proof (b2n_lt mt). lia. }
    assert (Acl : atoi (format_int 10 (Z.of_N (blen body'))) = Some (Z.of_N (blen body'))).
    { apply atoi_format. lia. }
    (* every line is accepted *)
    assert (Hok : Forall (step_ok by_name) L).
    { apply Forall_forall. intros q Hq. repeat split; intros Hk.
      - pose proof (lines_for_in L K_clen q Hq Hk) as Hi. rewrite Hcl in Hi.
        destruct Hi as [<-|[]]. rewrite Tcl. eauto.
      - pose proof (lines_for_in L K_xenc q Hq Hk) as Hi. rewrite Hxe in Hi.
        destruct Hp as [->|(g & -> & _ & Hn & Hc & _)]; [destruct Hi|].
        destruct Hi as [<-|[]]. rewrite (trim_of_clean _ Hc). eauto.
      - pose proof (lines_for_in L K_seq q Hq Hk) as Hi. rewrite Hseq in Hi.
        destruct Hi as [<-|[]]. rewrite Tseq. eauto.
      - pose proof (lines_for_in L K_mtype q Hq Hk) as Hi. rewrite Hmt in Hi.
        destruct Hi as [<-|[]]. rewrite Tmt. eauto. }
    (* the fields *)
    assert (Fseq : hs_seq st = wrap32 seq).
    { unfold st. rewrite pfold_seq, (proj_single _ _ _ _ _ Hseq), Tseq, Aseq. reflexivity. }
    assert (Fmt : hs_mtype st = mt).
    { unfold st. rewrite pfold_mtype, (proj_single _ _ _ _ _ Hmt), Tmt, Amt. apply wrap8_byte_z. }
    assert (Fct : hs_codec st = body_codec ctype).
    { unfold st. rewrite pfold_codec, (proj_single _ _ _ _ _ Hct), Tct. reflexivity. }
    assert (Fbs : hs_bodysize st = Z.of_N (blen body')).
    { unfold st. rewrite pfold_bodysize, (proj_single _ _ _ _ _ Hcl), Tcl, Acl. reflexivity. }
    assert (Fp : hs_pipe st = p).
    { unfold st. rewrite pfold_pipe. destruct Hp as [->|(g & -> & _ & Hn & Hc & _)].
      - rewrite proj_none by exact Hxe. exact Hp0.
      - rewrite (proj_single _ _ _ _ _ Hxe), (trim_of_clean _ Hc), Hn, Hp0. reflexivity. }
    split; [|auto].
    unfold http_rest.
    rewrite headers_parse; [| exact Hwf | | exact Hlim].
    2:{ pose proof (ser_lines_length L). rewrite app_length. lia. }
    rewrite (hfold_pfold by_name lim L st0 Hok Hsz). cbn [rbind]. fold st.
    unfold over. rewrite N.add_0_r.
    replace (lim <? hs_size st) with false by (symmetry; apply N.ltb_ge; exact Hsz).
    cbn [rbind]. change (hs_bodysize (bump st 0)) with (hs_bodysize st).
    change (hs_pipe (bump st 0)) with (hs_pipe st). rewrite Fbs.
    destruct (Z.of_N (blen body') <=? 0)%Z eqn:Ez.
    - apply Z.leb_le in Ez. assert (Eb : body' = []) by (destruct body'; [reflexivity | rewrite blen_cons in Ez; lia]).
      subst body'. cbn [app].
      assert (body = []).
      { destruct Hp as [->|(g & -> & _ & _ & _ & Hinv)]; cbn [packed_body] in Hbody; [congruence|].
        destruct (Hinv _ _ Hbody) as [_ Hne]. congruence. }
      subst body. reflexivity.
    - rewrite N2Z.id. rewrite take_app by reflexivity. cbn [rbind]. rewrite Fp.
      unfold hpipe_unpack.
      destruct Hp as [->|(g & -> & _ & _ & _ & Hinv)]; cbn [packed_body map pipe_unpack] in *.
      + subst body'. reflexivity.
      + destruct (Hinv _ _ Hbody) as [Hu _]. rewrite Hu. reflexivity.
  Qed.
End HttpRound.

Section HttpTop.
  Variable hdr_write : list hop -> list (bytes * bytes).
  Variable url_parse : bytes -> option (bytes * bytes * bytes).
  Variable st_json : status -> bytes.
  Variable st_unjson : bytes -> res status.
  Variable by_name : bytes -> option hfilter.

  Lemma http_pipe_ok p body :
    pipe_ok by_name p ->
    forall body' ops0, http_pipe p body [] = Some (body', ops0) -> packed_body p body body'.
  Proof.
    intros [->|(g & -> & Hg & _)] body' ops0 H; cbn [http_pipe packed_body] in *.
    - inversion H. reflexivity.
    - rewrite Hg in H. destruct (f_pack (hf_filter g) body); [|discriminate]. inversion H. reflexivity.
  Qed.

  (* URL.EscapedPath of the parsed service method *)
  Variable url_esc : bytes -> bytes.

  Definition first_req (m : msg) : bytes := str "POST " ++ url_esc (m_method m) ++ str " HTTP/1.1".

  (* supported field set of a request: call / auth-call; a service method that net/url parses
     to the path [path] without query and host, whose escaped form (what EscapedPath returns:
     no blank, no line feed) parses back to the same path - for a method that is its own path
     (no percent escapes) [path] is the method itself; a codec with a content type of its own,
     status OK (a request carries none) *)
  Definition req_ok (m : msg) (path : bytes) : Prop :=
    (b2n (m_mtype m) = 1 \/ b2n (m_mtype m) = 4) /\
    url_parse (m_method m) = Some (path, [], []) /\
    url_parse (url_esc (m_method m)) = Some (path, [], []) /\
    nospace (url_esc (m_method m)) = true /\ nolf (url_esc (m_method m)) = true /\
    codec_mapped (m_codec m) = true /\ int32_ok (m_seq m) = true /\ m_status m = status_zero.

  Theorem http_request_roundtrip_lemma lim p m path f size rest :
    req_ok m path -> pipe_ok by_name p ->
    http_pack hdr_write url_parse url_esc st_json lim p m = Ok (f, size) ->
    (forall body' ops0, http_pipe p (m_body m) [] = Some (body', ops0) ->
       let L := hdr_write (ops_request ops0 m [] (blen body')) in
       hdr_contract lim L (m_seq m) (m_mtype m)
                    (content_type (m_codec m) (str "text/plain;charset=utf-8")) (blen body') (map hf_name p)
       /\ blen body' <= 4294967295
       /\ hs_size (pfold by_name L (mkHs x00 0 [] 0 x01 [] 0)) <= lim) ->
    blen (first_req m) + 2 <= lim ->
    exists L body',
      f = first_req m ++ crlf ++ ser_lines L ++ crlf ++ body' /\
      let st := pfold by_name L (mkHs x00 0 [] 0 x01 [] 0) in
      http_unpack url_parse st_unjson by_name lim (f ++ rest)
      = Ok (mkMsg (m_seq m) (m_mtype m) path status_zero (hs_meta st) (m_codec m) (m_body m),
            pipe_ids_h p, final_size lim (hs_size st + 0 + blen (first_req m)), rest).
  Proof.
    intros (Hmt & Hurl & Hurl2 & Hns & Hnl & Hcm & Hseq & Hst) Hp Hpack Hc Hfl.
    unfold http_pack in Hpack.
    destruct (http_pipe p (m_body m) []) as [[body' ops0]|] eqn:Hpipe; [|discriminate].
    replace ((b2n (m_mtype m) =? 1) || (b2n (m_mtype m) =? 4)) with true in Hpack
      by (symmetry; destruct Hmt as [-> | ->]; reflexivity).
    rewrite Hurl in Hpack. cbv zeta in Hpack.
    apply Ok_inj in Hpack. apply pair_equal_spec in Hpack as [Ef _].
    destruct (Hc body' ops0 eq_refl) as (Hcon & Hbl & Hsz). cbv zeta in Hcon, Hsz.
    set (L := hdr_write (ops_request ops0 m [] (blen body'))) in *.
    set (E := url_esc (m_method m)) in *.
    exists L, body'. split.
    { rewrite <- Ef. unfold first_req, crlf. fold E. cbn [str app]. rewrite <- ?app_assoc. reflexivity. }
    cbv zeta. set (st0 := mkHs x00 0 [] 0 x01 [] 0) in *.
    destruct (codec_mapped_facts (m_codec m) (str "text/plain;charset=utf-8") Hcm) as (Hcl & Hbc & _).
    assert (Hs32 : (-4294967295 <= m_seq m <= 4294967295)%Z).
    { unfold int32_ok in Hseq. apply andb_true_iff in Hseq as [A B]. apply Z.leb_le in A, B. lia. }
    destruct (http_rest_ok by_name lim L p (m_seq m) (m_mtype m) _ (m_body m) body' rest st0
                Hcon Hp (http_pipe_ok p (m_body m) Hp body' ops0 Hpipe) Hcl Hs32 Hbl eq_refl Hsz ltac:(unfold first_req in Hfl; fold E in Hfl; rewrite blen_app in Hfl; lia))
      as (Hrest & Fseq & Fmt & Fct & Fp).
    (* the first line *)
    assert (Ef' : f ++ rest = str "POST " ++ (E ++ str " HTTP/1.1") ++ CR :: LF ::
                               (ser_lines L ++ CR :: LF :: body' ++ rest)).
    { rewrite <- Ef. rewrite <- !app_assoc. reflexivity. }
    unfold http_unpack. rewrite Ef'.
    rewrite take_app by reflexivity. cbn [rbind].
    assert (Hnl1 : nolf (E ++ str " HTTP/1.1") = true).
    { unfold nolf in *. rewrite forallb_app, Hnl. reflexivity. }
    rewrite read_line_crlf.
    2: exact Hnl1.
    2:{ unfold first_req in Hfl. fold E in Hfl. rewrite !blen_app in *. change (blen (str "POST ")) with 5 in Hfl. lia. }
    cbn [rev app rbind].
    change (bytes_eqb (str "POST ") (str "HTTP/")) with false. cbn iota.
    change (str "POST " ++ E ++ str " HTTP/1.1")
      with (str "POST" ++ " "%byte :: (E ++ str " HTTP/1.1")).
    rewrite split1_app by reflexivity. cbn [rev app].
    change (E ++ str " HTTP/1.1") with (E ++ " "%byte :: str "HTTP/1.1").
    rewrite split1_app by exact Hns. cbn [rev app].
    rewrite Hurl2. cbn [rbind].
    fold st0. rewrite Hrest. cbn [rbind].
    change (hs_seq (bump ?s 0)) with (hs_seq s). 
    unfold bump. cbn [hs_seq hs_mtype hs_meta hs_codec hs_pipe hs_size].
    rewrite Fseq, Fmt, Fct, Fp, Hbc, wrap32_id by exact Hseq.
    unfold first_req. reflexivity.
  Qed.

  (* the request line as the reader splits it: the target is what stands between the first and
     the second blank *)
  Definition line_target (first : bytes) : option bytes :=
    match split1 " "%byte first [] with
    | Some (_, r1) => match split1 " "%byte r1 [] with Some (t, _) => Some t | None => None end
    | None => None
    end.

  (* supported field set of a reply with status OK *)
  Definition resp_ok (m : msg) : Prop :=
    (b2n (m_mtype m) = 2 \/ b2n (m_mtype m) = 5) /\
    m_method m = [] /\ codec_mapped (m_codec m) = true /\ int32_ok (m_seq m) = true /\
    m_status m = status_zero.

  Definition first_ok : bytes := str "HTTP/1.1 200 OK".

  Theorem http_response_roundtrip_lemma lim p m f size rest :
    resp_ok m -> pipe_ok by_name p ->
    http_pack hdr_write url_parse url_esc st_json lim p m = Ok (f, size) ->
    (forall body' ops0, http_pipe p (m_body m) [] = Some (body', ops0) ->
       let L := hdr_write (ops_response ops0 m (content_type (m_codec m) (str "text/plain")) (blen body')) in
       hdr_contract lim L (m_seq m) (m_mtype m)
                    (content_type (m_codec m) (str "text/plain")) (blen body') (map hf_name p)
       /\ blen body' <= 4294967295
       /\ hs_size (pfold by_name L (hs0 x02)) <= lim) ->
    17 <= lim ->
    exists L body',
      f = first_ok ++ crlf ++ ser_lines L ++ crlf ++ body' /\
      let st := pfold by_name L (hs0 x02) in
      http_unpack url_parse st_unjson by_name lim (f ++ rest)
      = Ok (mkMsg (m_seq m) (m_mtype m) [] status_zero (hs_meta st) (m_codec m) (m_body m),
            pipe_ids_h p, final_size lim (hs_size st + 0 + blen first_ok), rest).
  Proof.
    intros (Hmt & Hmeth & Hcm & Hseq & Hst) Hp Hpack Hc Hfl.
    unfold http_pack in Hpack.
    destruct (http_pipe p (m_body m) []) as [[body' ops0]|] eqn:Hpipe; [|discriminate].
    replace ((b2n (m_mtype m) =? 1) || (b2n (m_mtype m) =? 4)) with false in Hpack
      by (symmetry; destruct Hmt as [-> | ->]; reflexivity).
    replace ((b2n (m_mtype m) =? 2) || (b2n (m_mtype m) =? 5)) with true in Hpack
      by (symmetry; destruct Hmt as [-> | ->]; reflexivity).
    rewrite Hst in Hpack. change (status_ok status_zero) with true in Hpack. cbv zeta in Hpack.
    apply Ok_inj in Hpack. apply pair_equal_spec in Hpack as [Ef _].
    destruct (Hc body' ops0 eq_refl) as (Hcon & Hbl & Hsz). cbv zeta in Hcon, Hsz.
    set (L := hdr_write (ops_response ops0 m (content_type (m_codec m) (str "text/plain")) (blen body'))) in *.
    exists L, body'. split.
    { rewrite <- Ef. unfold first_ok, crlf. cbn [str app]. rewrite <- ?app_assoc. reflexivity. }
    cbv zeta. set (st0 := hs0 x02) in *.
    destruct (codec_mapped_facts (m_codec m) (str "text/plain") Hcm) as (Hcl & Hbc & _).
    assert (Hs32 : (-4294967295 <= m_seq m <= 4294967295)%Z).
    { unfold int32_ok in Hseq. apply andb_true_iff in Hseq as [A B]. apply Z.leb_le in A, B. lia. }
    destruct (http_rest_ok by_name lim L p (m_seq m) (m_mtype m) _ (m_body m) body' rest st0
                Hcon Hp (http_pipe_ok p (m_body m) Hp body' ops0 Hpipe) Hcl Hs32 Hbl eq_refl Hsz ltac:(lia))
      as (Hrest & Fseq & Fmt & Fct & Fp).
    assert (Ef' : f ++ rest = str "HTTP/" ++ str "1.1 200 OK" ++ CR :: LF ::
                               (ser_lines L ++ CR :: LF :: body' ++ rest)).
    { rewrite <- Ef. rewrite <- !app_assoc. reflexivity. }
    unfold http_unpack. rewrite Ef'.
    rewrite take_app by reflexivity. cbn [rbind].
    rewrite read_line_crlf by (try reflexivity; change (blen (str "1.1 200 OK")) with 10; lia).
    cbn [rev app rbind].
    change (bytes_eqb (str "HTTP/") (str "HTTP/")) with true. cbn iota.
    change (str "HTTP/" ++ str "1.1 200 OK") with (str "HTTP/1.1" ++ " "%byte :: str "200 OK").
    rewrite split1_app by reflexivity. cbn [rev app].
    change (bytes_eqb (str "200 OK") (str "200 OK")) with true. cbn [negb andb].
    fold st0. rewrite Hrest. cbn [rbind].
    unfold bump. cbn [hs_seq hs_mtype hs_meta hs_codec hs_pipe hs_size].
    rewrite Fseq, Fmt, Fct, Fp, Hbc, wrap32_id by exact Hseq. reflexivity.
  Qed.
End HttpTop.

(* ---- streams ---- *)
Section HttpStream.
  Variable url_parse : bytes -> option (bytes * bytes * bytes).
  Variable st_unjson : bytes -> res status.
  Variable by_name : bytes -> option hfilter.

  (* a frame that unpacks to the observation [o] whatever follows it (what the round-trip
     theorems establish for every guarded request and reply) *)
  Definition hframe_ok (lim : N) (x : bytes * (msg * list byte * N)) : Prop :=
    fst x <> [] /\
    forall rest, http_unpack url_parse st_unjson by_name lim (fst x ++ rest)
                 = Ok (fst (fst (snd x)), snd (fst (snd x)), snd (snd x), rest).

  Theorem http_stream_lemma lim (xs : list (bytes * (msg * list byte * N))) fuel :
    Forall (hframe_ok lim) xs -> (length xs < fuel)%nat ->
    decode_all fuel (fun s => retuple (http_unpack url_parse st_unjson by_name lim s)) (concat (map fst xs))
    = (map snd xs, Ok tt).
  Proof.
    intros Hwf Hfuel. apply (decode_all_frames _ fst snd); [|exact Hfuel].
    intros [f [[m ids] size]] Hin. rewrite Forall_forall in Hwf. destruct (Hwf _ Hin) as [Hne Hu].
    cbn [fst snd] in *. split; [exact Hne|]. intros rest. rewrite Hu. reflexivity.
  Qed.

  Theorem http_size_alone_lemma lim pre1 pre2 x d :
    Forall (hframe_ok lim) pre1 -> Forall (hframe_ok lim) pre2 -> hframe_ok lim x ->
    let dec pre := fst (decode_all (S (S (length pre)))
                          (fun s => retuple (http_unpack url_parse st_unjson by_name lim s))
                          (concat (map fst (pre ++ [x])))) in
    last (dec pre1) d = last (dec pre2) d /\ last (dec pre1) d = snd x.
  Proof.
    intros H1 H2 Hx dec.
    assert (E : forall pre, Forall (hframe_ok lim) pre -> last (dec pre) d = snd x).
    { intros pre Hpre. unfold dec. rewrite http_stream_lemma.
      - cbn [fst]. rewrite map_app. cbn [map]. rewrite last_last. reflexivity.
      - apply Forall_app. split; [exact Hpre | constructor; [exact Hx | constructor]].
      - rewrite app_length. cbn [length]. lia. }
    rewrite (E pre1 H1), (E pre2 H2). split; reflexivity.
  Qed.
End HttpStream.

(* outside the supported field set: a service method with a space is cut at the space *)
Theorem http_method_unguarded_refuted :
  exists target, split1 " "%byte (target ++ " "%byte :: str "HTTP/1.1") [] <> Some (target, str "HTTP/1.1").
Proof. exists (str "/a b"). vm_compute. intros H. discriminate H. Qed.

(* a codec without a content type of its own comes back as another codec *)
Theorem http_codec_unguarded_refuted :
  exists c, body_codec (content_type c (str "text/plain;charset=utf-8")) <> c.
Proof. exists "t"%byte. vm_compute. intros H. discriminate H. Qed.

(* before the repair packRequest wrote the decoded path (u.Path) raw into the request line: a
   path with a blank is cut at the blank by the reader's split of the line, whatever the url
   library does afterwards *)
Theorem http_raw_path_prefix_refuted :
  exists path, nolf path = true /\
    line_target (str "POST " ++ path ++ str " HTTP/1.1") = Some (str "/a") /\ str "/a" <> path.
Proof.
  exists (str "/a b"). split; [reflexivity|]. split; [vm_compute; reflexivity | discriminate].
Qed.
