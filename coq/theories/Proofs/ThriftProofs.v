(* Lemmas about Model/ThriftFrame.v under the framing contract of the THeader protocol. *)
From Coq Require Import Strings.String Strings.Byte.
From Coq Require Import List Arith NArith ZArith Bool Lia.
From Verif Require Import Base.Bytes Base.Outcome Model.Quote Model.Args Model.Numfmt
  Model.StatusQuery Model.Xfer Model.RawProto Model.FrameStream Model.ThriftFrame
  Proofs.QuoteProofs Proofs.ArgsProofs Proofs.NumfmtProofs Proofs.StatusProofs
  Proofs.XferProofs Proofs.RawProofs Proofs.JsonProofs.
Import ListNotations.
Local Open Scope N_scope.

(* supported field set of both thrift protocols: the thrift message types (CALL, REPLY,
   ONEWAY = erpc call, reply, push), int32 sequence number and status code, metadata without
   an empty/empty pair *)
Definition thrift_ok (m : msg) : bool :=
  int32_ok (m_seq m) && int32_ok (st_code (m_status m)) && args_ok (m_meta m)
  && (1 <=? b2n (m_mtype m)) && (b2n (m_mtype m) <=? 3).

(* thrift-binary: the codec id travels as string(rune(id)) and is read back as its first byte *)
Definition bin_ok (m : msg) : bool := thrift_ok m && (b2n (m_codec m) <? 128).
(* thrift-struct: thrift codec only *)
Definition struct_ok (m : msg) : bool := thrift_ok m && beqb (m_codec m) codec_t.

Lemma mtype_roundtrip mt : (1 <=? b2n mt) && (b2n mt <=? 3) = true -> mtype_of (ttype_of mt) = Some mt.
Proof. destruct mt; intros H; try discriminate H; reflexivity. Qed.

Lemma rune_head c : (b2n c <? 128) = true -> match rune_string c with [] => x00 | c' :: _ => c' end = c.
Proof. intros H. unfold rune_string. rewrite H. reflexivity. Qed.

Lemma consumed_app (f rest : bytes) : blen f < 4294967296 -> consumed (f ++ rest) rest = blen f.
Proof.
  intros H. unfold consumed. rewrite blen_app.
  replace (blen f + blen rest - blen rest) with (blen f) by lia. apply N.mod_small. exact H.
Qed.

Section ThriftProofs.
  Variable th_frame : thdr -> bytes.
  Variable th_read : bytes -> res (thdr * bytes).
  Hypothesis framing : forall x rest, th_read (th_frame x ++ rest) = Ok (x, rest).
  Hypothesis frame_nonnil : forall x, th_frame x <> [].

  Lemma size_check_ok lim f f' size :
    size_check lim f = PackOk f' size -> blen f < 4294967296 ->
    f' = f /\ size = blen f /\ (lim <? blen f) = false.
  Proof.
    unfold size_check. intros H Hl. rewrite N.mod_small in H by exact Hl.
    destruct (lim <? blen f) eqn:E; [discriminate|]. inversion H. auto.
  Qed.

  Theorem bin_roundtrip_lemma reg lim ids p m f size rest :
    (forall g, In g reg -> inverts g) ->
    pipe_append reg [] ids = (p, None) ->
    bin_ok m = true ->
    bin_pack th_frame lim p m = PackOk f size ->
    blen f < 4294967296 ->
    bin_unpack th_read reg lim (f ++ rest) = Ok (m, ids, size, rest) /\ size = blen f.
  Proof.
    intros Hinv Hp Hok Hpack Hlen.
    destruct (append_ok_ids _ _ _ Hp) as (Hids & _ & _).
    unfold bin_ok, thrift_ok in Hok.
    apply andb_true_iff in Hok as [H Hcodec]. apply andb_true_iff in H as [H Hm2].
    apply andb_true_iff in H as [H Hm1]. apply andb_true_iff in H as [H Hmeta].
    apply andb_true_iff in H as [Hseq Hcode].
    unfold bin_pack in Hpack. destruct (pipe_pack p (m_body m)) as [body|] eqn:Hpp; [|discriminate].
    assert (Hf : f = th_frame (bin_thdr p m body) /\ size = blen f /\ (lim <? blen f) = false).
    { unfold size_check in Hpack.
      destruct (lim <? blen (th_frame (bin_thdr p m body)) mod 4294967296) eqn:E; [discriminate|].
      inversion Hpack; subst f. rewrite N.mod_small in * by exact Hlen. auto. }
    destruct Hf as (Ef & Es & Elim). split; [|exact Es].
    unfold bin_unpack. rewrite Ef at 1. rewrite framing. cbn [rbind].
    cbn [bin_thdr th_type th_struct th_headers th_seq th_method th_body].
    rewrite mtype_roundtrip by (rewrite Hm1, Hm2; reflexivity). cbn [of_option rbind].
    change (hget _ H_status) with (status_encode (m_status m)).
    change (hget _ H_meta) with (args_encode (m_meta m)).
    change (hget _ H_codec) with (rune_string (m_codec m)).
    change (hget _ H_xfer) with (pipe_ids p).
    rewrite status_roundtrip by exact Hcode. cbn [rbind].
    rewrite args_roundtrip by exact Hmeta. cbn [rbind].
    rewrite rune_head by exact Hcodec. rewrite Hids, Hp.
    rewrite (registered_pipe_roundtrip reg ids p Hinv Hp _ _ Hpp). cbn [of_option rbind].
    rewrite consumed_app by exact Hlen. rewrite Elim, Hids, Es, msg_eta. reflexivity.
  Qed.

  Theorem struct_roundtrip_lemma lim m f size rest :
    struct_ok m = true ->
    struct_pack th_frame lim [] m = PackOk f size ->
    blen f < 4294967296 ->
    struct_unpack th_read lim (f ++ rest) = Ok (m, [], size, rest) /\ size = blen f.
  Proof.
    intros Hok Hpack Hlen.
    unfold struct_ok, thrift_ok in Hok.
    apply andb_true_iff in Hok as [H Hcodec]. apply andb_true_iff in H as [H Hm2].
    apply andb_true_iff in H as [H Hm1]. apply andb_true_iff in H as [H Hmeta].
    apply andb_true_iff in H as [Hseq Hcode].
    unfold struct_pack in Hpack. rewrite Hcodec, orb_true_r in Hpack.
    assert (Hf : f = th_frame (struct_thdr m) /\ size = blen f /\ (lim <? blen f) = false).
    { unfold size_check in Hpack.
      destruct (lim <? blen (th_frame (struct_thdr m)) mod 4294967296) eqn:E; [discriminate|].
      inversion Hpack; subst f. rewrite N.mod_small in * by exact Hlen. auto. }
    destruct Hf as (Ef & Es & Elim). split; [|exact Es].
    unfold struct_unpack. rewrite Ef at 1. rewrite framing. cbn [rbind].
    cbn [struct_thdr th_type th_struct th_headers th_seq th_method th_body negb].
    rewrite mtype_roundtrip by (rewrite Hm1, Hm2; reflexivity). cbn [of_option rbind].
    change (hget _ H_status) with (status_encode (m_status m)).
    change (hget _ H_meta) with (args_encode (m_meta m)).
    rewrite status_roundtrip by exact Hcode. cbn [rbind].
    rewrite args_roundtrip by exact Hmeta. cbn [rbind].
    rewrite consumed_app by exact Hlen. rewrite Elim, Es.
    apply beqb_eq in Hcodec. rewrite <- Hcodec, msg_eta. reflexivity.
  Qed.

  (* ---- streams: every frame reports its own length ---- *)
  Definition wf_binframe reg lim (x : list byte * msg * bytes) : Prop :=
    let '(ids, m, f) := x in
    exists p size, pipe_append reg [] ids = (p, None) /\ bin_ok m = true /\
                   bin_pack th_frame lim p m = PackOk f size /\ blen f < 4294967296.

  Lemma size_check_nonnil lim x f size : size_check lim (th_frame x) = PackOk f size -> f <> [].
  Proof.
    unfold size_check. destruct (lim <? _); [discriminate|]. intros H. inversion H. apply frame_nonnil.
  Qed.

  Theorem bin_stream_lemma reg lim :
    (forall g, In g reg -> inverts g) ->
    forall (xs : list (list byte * msg * bytes)) fuel,
    Forall (wf_binframe reg lim) xs ->
    (length xs < fuel)%nat ->
    decode_all fuel (fun s => retuple (bin_unpack th_read reg lim s)) (concat (map snd xs))
    = (map (fun '(ids, m, f) => (m, ids, blen f)) xs, Ok tt).
  Proof.
    intros Hinv xs fuel Hwf Hfuel.
    apply (decode_all_frames _ snd (fun '(ids, m, f) => (m, ids, blen f))); [|exact Hfuel].
    intros [[ids m] f] Hin. rewrite Forall_forall in Hwf. specialize (Hwf _ Hin).
    destruct Hwf as (p & size & Hp & Hok & Hpack & Hlen). cbn [snd]. split.
    - unfold bin_pack in Hpack. destruct (pipe_pack p (m_body m)); [|discriminate].
      eapply size_check_nonnil. exact Hpack.
    - intros rest.
      destruct (bin_roundtrip_lemma reg lim ids p m f size rest Hinv Hp Hok Hpack Hlen) as [Hu Hs].
      rewrite Hu. cbn [retuple]. rewrite Hs. reflexivity.
  Qed.

  Definition wf_structframe lim (x : msg * bytes) : Prop :=
    let '(m, f) := x in
    exists size, struct_ok m = true /\ struct_pack th_frame lim [] m = PackOk f size /\ blen f < 4294967296.

  Theorem struct_stream_lemma lim :
    forall (xs : list (msg * bytes)) fuel,
    Forall (wf_structframe lim) xs ->
    (length xs < fuel)%nat ->
    decode_all fuel (fun s => retuple (struct_unpack th_read lim s)) (concat (map snd xs))
    = (map (fun '(m, f) => (m, [], blen f)) xs, Ok tt).
  Proof.
    intros xs fuel Hwf Hfuel.
    apply (decode_all_frames _ snd (fun '(m, f) => (m, @nil byte, blen f))); [|exact Hfuel].
    intros [m f] Hin. rewrite Forall_forall in Hwf. specialize (Hwf _ Hin).
    destruct Hwf as (size & Hok & Hpack & Hlen). cbn [snd]. split.
    - unfold struct_pack in Hpack. destruct (_ || _); [|discriminate].
      eapply size_check_nonnil. exact Hpack.
    - intros rest.
      destruct (struct_roundtrip_lemma lim m f size rest Hok Hpack Hlen) as [Hu Hs].
      rewrite Hu. cbn [retuple]. rewrite Hs. reflexivity.
  Qed.

  Theorem bin_size_alone_lemma reg lim :
    (forall g, In g reg -> inverts g) ->
    forall pre1 pre2 x d,
    Forall (wf_binframe reg lim) pre1 -> Forall (wf_binframe reg lim) pre2 -> wf_binframe reg lim x ->
    let dec pre := fst (decode_all (S (S (length pre))) (fun s => retuple (bin_unpack th_read reg lim s))
                                   (concat (map snd (pre ++ [x])))) in
    last (dec pre1) d = last (dec pre2) d /\
    last (dec pre1) d = (let '(ids, m, f) := x in (m, ids, blen f)).
  Proof.
    intros Hinv pre1 pre2 x d H1 H2 Hx dec.
    assert (E : forall pre, Forall (wf_binframe reg lim) pre ->
                last (dec pre) d = (let '(ids, m, f) := x in (m, ids, blen f))).
    { intros pre Hpre. unfold dec. rewrite (bin_stream_lemma reg lim Hinv).
      - cbn [fst]. rewrite map_app. cbn [map]. rewrite last_last. reflexivity.
      - apply Forall_app. split; [exact Hpre | constructor; [exact Hx | constructor]].
      - rewrite app_length. cbn [length]. lia. }
    rewrite (E pre1 H1), (E pre2 H2). split; reflexivity.
  Qed.

  (* before 809631b: with a transport that reads ahead whatever is available, the size
     reported for a frame depends on what follows it *)
  Theorem size_readahead_refuted x :
    exists ahead rest1 rest2,
      bin_unpack_size_prefix th_read ahead (th_frame x ++ rest1)
      <> bin_unpack_size_prefix th_read ahead (th_frame x ++ rest2).
  Proof.
    exists (fun r => blen r), [], [x00]. unfold bin_unpack_size_prefix.
    rewrite !framing. cbn [rbind]. intros H. apply Ok_inj in H.
    change (blen []) with 0 in H. change (blen [x00]) with 1 in H.
    unfold consumed in H. rewrite !blen_app in H. change (blen []) with 0 in H. change (blen [x00]) with 1 in H.
    replace (blen (th_frame x) + 0 - 0) with (blen (th_frame x)) in H by lia.
    replace (blen (th_frame x) + 1 - 1) with (blen (th_frame x)) in H by lia. lia.
  Qed.
End ThriftProofs.

(* outside the guard of thrift-binary: a codec id >= 0x80 comes back as the first byte of its
   two-byte UTF-8 form *)
Theorem bin_codec_unguarded_refuted :
  exists c, match rune_string c with [] => x00 | c' :: _ => c' end <> c.
Proof. exists xe9. vm_compute. discriminate. Qed.

(* outside the guard: the auth message types are sent as thrift type 0 and read back as PUSH *)
Theorem thrift_mtype_unguarded_refuted : exists mt, mtype_of (ttype_of mt) <> Some mt.
Proof. exists x04. vm_compute. discriminate. Qed.

(* before 31634c9 (write counter zeroed by Unpack): three identical frames of 98 bytes were
   reported as 98, 196, 294 *)
Theorem size_cumulative_refuted :
  exists frames, nth 1 (sizes_cumulative 0 frames) 0 <> blen (nth 1 frames []).
Proof. exists [[x00]; [x00]]. vm_compute. discriminate. Qed.

(* ---- the shared counters under full-duplex use ---- *)
Lemma crun_rd_only l : forall c1 c2,
  forallb is_rd l = true -> c_read c1 = c_read c2 -> c_read (crun c1 l) = c_read (crun c2 l).
Proof.
  unfold crun. induction l as [|e l IH]; intros c1 c2 H E; [exact E|].
  cbn [forallb] in H. apply andb_true_iff in H as [He Hl]. cbn [fold_left].
  apply IH; [exact Hl|]. destruct e; try discriminate He; cbn [cstep c_read]; congruence.
Qed.

Lemma filter_rd_all evs : forallb is_rd (List.filter is_rd evs) = true.
Proof.
  induction evs as [|e evs IH]; [reflexivity|]. cbn [List.filter].
  destruct (is_rd e) eqn:E; [cbn [forallb]; rewrite E; exact IH | exact IH].
Qed.

(* what the writing side does between the reads does not reach the read counter *)
Lemma crun_read_proj evs : forall c,
  forallb (fun e => is_rd e || is_wr e) evs = true ->
  c_read (crun c evs) = c_read (crun c (List.filter is_rd evs)).
Proof.
  induction evs as [|e evs IH]; intros c H; [reflexivity|].
  cbn [forallb] in H. apply andb_true_iff in H as [He Hr].
  cbn [List.filter]. destruct (is_rd e) eqn:Er.
  - unfold crun in *. cbn [fold_left]. apply IH. exact Hr.
  - cbn [orb] in He. unfold crun at 1. cbn [fold_left]. fold (crun (cstep c e) evs).
    rewrite IH by exact Hr. apply crun_rd_only; [apply filter_rd_all|].
    destruct e; try discriminate He; try discriminate Er; reflexivity.
Qed.

Lemma crun_reads reads : forall c, c_read (crun c (map EvRead reads)) = c_read c + sumN reads.
Proof.
  unfold crun. induction reads as [|n r IH]; intros c; cbn [map fold_left sumN]; [lia|].
  rewrite IH. cbn [cstep c_read]. lia.
Qed.

(* Size() of a received frame on a connection that sends at the same time: any interleaving
   of Pack's counter events with Unpack's leaves the read counter at the bytes of the frame *)
Theorem duplex_size_lemma evs reads c :
  forallb (fun e => is_rd e || is_wr e) evs = true ->
  List.filter is_rd evs = unpack_events reads ->
  c_read (crun c evs) = sumN reads.
Proof.
  intros Hok Hrd. rewrite crun_read_proj by exact Hok. rewrite Hrd.
  unfold unpack_events, crun. cbn [fold_left]. fold (crun (cstep c EvZeroR) (map EvRead reads)).
  rewrite crun_reads. reflexivity.
Qed.

(* symmetric: the size Pack reports is not disturbed by the reading side *)
Lemma crun_wr_only l : forall c1 c2,
  forallb is_wr l = true -> c_written c1 = c_written c2 -> c_written (crun c1 l) = c_written (crun c2 l).
Proof.
  unfold crun. induction l as [|e l IH]; intros c1 c2 H E; [exact E|].
  cbn [forallb] in H. apply andb_true_iff in H as [He Hl]. cbn [fold_left].
  apply IH; [exact Hl|]. destruct e; try discriminate He; cbn [cstep c_written]; congruence.
Qed.

Lemma filter_wr_all evs : forallb is_wr (List.filter is_wr evs) = true.
Proof.
  induction evs as [|e evs IH]; [reflexivity|]. cbn [List.filter].
  destruct (is_wr e) eqn:E; [cbn [forallb]; rewrite E; exact IH | exact IH].
Qed.

Theorem duplex_pack_size_lemma evs len c :
  forallb (fun e => is_rd e || is_wr e) evs = true ->
  List.filter is_wr evs = pack_events len ->
  c_written (crun c evs) = len.
Proof.
  intros Hok Hwr.
  assert (P : forall evs c, forallb (fun e => is_rd e || is_wr e) evs = true ->
              c_written (crun c evs) = c_written (crun c (List.filter is_wr evs))).
  { clear. induction evs as [|e evs IH]; intros c H; [reflexivity|].
    cbn [forallb] in H. apply andb_true_iff in H as [He Hr].
    cbn [List.filter]. destruct (is_wr e) eqn:Ew.
    - unfold crun in *. cbn [fold_left]. apply IH. exact Hr.
    - rewrite orb_false_r in He. unfold crun at 1. cbn [fold_left]. fold (crun (cstep c e) evs).
      rewrite IH by exact Hr. apply crun_wr_only; [apply filter_wr_all|].
      destruct e; try discriminate He; try discriminate Ew; reflexivity. }
  rewrite P by exact Hok. rewrite Hwr. reflexivity.
Qed.

(* a Pack that zeroes the whole shared counter (ReadWriteCounter.Zero) between two reads of
   an inbound frame makes the received size depend on the connection's own sends *)
Theorem duplex_zero_both_refuted :
  exists (evs : list cev) (reads : list N),
    (List.filter is_rd evs = unpack_events reads) /\
    (c_read (crun (mkCtr 0 0) evs) <> sumN reads).
Proof.
  exists [EvZeroR; EvRead 216; EvZeroBoth; EvWrite 50; EvRead 216], [216; 216].
  split; [reflexivity|]. vm_compute. discriminate.
Qed.

(* ---- both directions on one protocol object: the reset sites ---- *)
Lemma xrun_writes s ws : forall c rest,
  xrun s c (map XWrite ws ++ rest) = xrun s (mkCtr (c_read c) (c_written c + sumN ws)) rest.
Proof.
  induction ws as [|n ws IH]; intros c rest; cbn [map app sumN].
  - rewrite N.add_0_r. destruct c; reflexivity.
  - cbn [xrun xstep app cstep]. rewrite IH. cbn [c_read c_written].
    rewrite N.add_assoc. reflexivity.
Qed.

Lemma xrun_reads s rs : forall c rest,
  xrun s c (map XRead rs ++ rest) = xrun s (mkCtr (c_read c + sumN rs) (c_written c)) rest.
Proof.
  induction rs as [|n rs IH]; intros c rest; cbn [map app sumN].
  - rewrite N.add_0_r. destruct c; reflexivity.
  - cbn [xrun xstep app cstep]. rewrite IH. cbn [c_read c_written].
    rewrite N.add_assoc. reflexivity.
Qed.

(* whole Packs one after the other, from any counter state: each reports its own bytes *)
Lemma xrun_seq_packs s : pack_zero s <> ZR -> forall pf c,
  List.filter is_opacked (xrun s c (concat (map pack_trace pf)))
  = map (fun ws => OPacked (u32 (sumN ws))) pf.
Proof.
  intros Hz. induction pf as [|ws pf IH]; intros c; [reflexivity|].
  cbn [map concat]. unfold pack_trace at 1. cbn [app]. rewrite <- app_assoc.
  cbn [xrun xstep app]. rewrite xrun_writes. cbn [app xrun xstep List.filter is_opacked c_written c_read].
  rewrite IH. f_equal. f_equal. f_equal.
  destruct (pack_zero s); [contradiction Hz; reflexivity| |]; cbn [zev cstep c_written]; reflexivity.
Qed.

Lemma xrun_seq_unpacks s : unpack_zero s <> ZW -> forall uf c,
  List.filter is_ounpacked (xrun s c (concat (map unpack_trace uf)))
  = map (fun rs => OUnpacked (u32 (sumN rs))) uf.
Proof.
  intros Hz. induction uf as [|rs uf IH]; intros c; [reflexivity|].
  cbn [map concat]. unfold unpack_trace at 1. cbn [app]. rewrite <- app_assoc.
  cbn [xrun xstep app]. rewrite xrun_reads. cbn [app xrun xstep List.filter is_ounpacked is_opacked negb c_written c_read].
  rewrite IH. f_equal. f_equal. f_equal.
  destruct (unpack_zero s); [|contradiction Hz; reflexivity|]; cbn [zev cstep c_read]; reflexivity.
Qed.

(* when Unpack's reset site zeroes the read counter only, nothing the unpacking goroutine
   does reaches a size reported by Pack: the interleaved run reports what the Packs alone do *)
Lemma xrun_pack_proj s : unpack_zero s = ZR -> forall evs c1 c2,
  c_written c1 = c_written c2 ->
  List.filter is_opacked (xrun s c1 evs) = List.filter is_opacked (xrun s c2 (List.filter pside evs)).
Proof.
  intros Hz. induction evs as [|e evs IH]; intros c1 c2 H; [reflexivity|].
  cbn [List.filter]. destruct e; cbn [pside xrun xstep app].
  - apply IH. destruct (pack_zero s); cbn [zev cstep c_written]; congruence.
  - apply IH. cbn [cstep c_written]. congruence.
  - cbn [List.filter is_opacked]. rewrite H. f_equal. apply IH. exact H.
  - apply IH. rewrite Hz. cbn [zev cstep c_written]. exact H.
  - apply IH. cbn [cstep c_written]. exact H.
  - cbn [List.filter is_opacked]. apply IH. exact H.
Qed.

Lemma xrun_unpack_proj s : pack_zero s = ZW -> forall evs c1 c2,
  c_read c1 = c_read c2 ->
  List.filter is_ounpacked (xrun s c1 evs) = List.filter is_ounpacked (xrun s c2 (List.filter uside evs)).
Proof.
  intros Hz. induction evs as [|e evs IH]; intros c1 c2 H; [reflexivity|].
  cbn [List.filter]. destruct e; cbn [uside pside negb xrun xstep app].
  - apply IH. rewrite Hz. cbn [zev cstep c_read]. exact H.
  - apply IH. cbn [cstep c_read]. exact H.
  - cbn [List.filter is_ounpacked is_opacked negb]. apply IH. exact H.
  - apply IH. destruct (unpack_zero s); cbn [zev cstep c_read]; congruence.
  - apply IH. cbn [cstep c_read]. congruence.
  - cbn [List.filter is_ounpacked is_opacked negb]. rewrite H. f_equal. apply IH. exact H.
Qed.

Theorem sites_sizes_own s : pack_zero s = ZW -> unpack_zero s = ZR -> sizes_own s.
Proof.
  intros Hp Hu evs c pf uf Hpf Huf. split.
  - rewrite (xrun_pack_proj s Hu evs c c eq_refl), Hpf.
    apply xrun_seq_packs. rewrite Hp. discriminate.
  - rewrite (xrun_unpack_proj s Hp evs c c eq_refl), Huf.
    apply xrun_seq_unpacks. rewrite Hu. discriminate.
Qed.

(* one execution on which every other choice of the two reset sites reports a wrong size:
   Pack1 = writes 4, 72; Unpack1 = reads 3, 5 beginning between the two writes of Pack1;
   Pack2 = write 1, beginning between the two reads of Unpack1; Unpack2 = read 2 *)
Definition cross_witness : list xev :=
  [XPackBegin; XWrite 4; XUnpackBegin; XRead 3; XWrite 72; XPackEnd;
   XPackBegin; XRead 5; XWrite 1; XPackEnd; XUnpackEnd; XUnpackBegin; XRead 2; XUnpackEnd].

Theorem sites_sizes_own_iff s : sizes_own s <-> (pack_zero s = ZW /\ unpack_zero s = ZR).
Proof.
  split.
  - intros H.
    specialize (H cross_witness (mkCtr 7 9) [[4; 72]; [1]] [[3; 5]; [2]] eq_refl eq_refl).
    destruct s as [p u]. destruct p, u; vm_compute in H; destruct H as [H1 H2];
      try discriminate H1; try discriminate H2; split; reflexivity.
  - intros [Hp Hu]. apply sites_sizes_own; assumption.
Qed.

(* the two shared-zero variants, each with the size it reports *)
Theorem unpack_zero_both_refuted :
  exists evs c,
    List.filter pside evs = pack_trace [4; 72] /\ List.filter uside evs = unpack_trace [76] /\
    List.filter is_opacked (xrun (mkSites ZW ZB) c evs) = [OPacked 72].
Proof.
  exists [XPackBegin; XWrite 4; XUnpackBegin; XWrite 72; XPackEnd; XRead 76; XUnpackEnd], (mkCtr 0 0).
  repeat split; reflexivity.
Qed.

Theorem pack_zero_both_refuted :
  exists evs c,
    List.filter pside evs = pack_trace [50] /\ List.filter uside evs = unpack_trace [216; 216] /\
    List.filter is_ounpacked (xrun (mkSites ZB ZR) c evs) = [OUnpacked 216].
Proof.
  exists [XUnpackBegin; XRead 216; XPackBegin; XWrite 50; XPackEnd; XRead 216; XUnpackEnd], (mkCtr 0 0).
  repeat split; reflexivity.
Qed.
