(* Lemmas about Model/Wire.v (property C01). *)
From Coq Require Import Strings.String Strings.Byte.
From Coq Require Import List Arith NArith ZArith Bool Lia.
From Verif Require Import Base.Bytes Base.Outcome Model.Quote Model.Args Model.Numfmt
  Model.StatusQuery Model.Xfer Model.RawProto Model.Wire
  Proofs.XferProofs Proofs.RawProofs.
Import ListNotations.
Local Open Scope N_scope.

(* ---------------------------------------------------------------- state accessors *)
Lemma other_other s : other (other s) = s.
Proof. destruct s; reflexivity. Qed.
Lemma other_neq s : other s <> s.
Proof. destruct s; discriminate. Qed.
Lemma side_cases s t : t = s \/ t = other s.
Proof. destruct s, t; auto. Qed.

Lemma ep_with_ep_same st s e : ep_of (with_ep st s e) s = e.
Proof. destruct s; reflexivity. Qed.
Lemma ep_with_ep_other st s e : ep_of (with_ep st s e) (other s) = ep_of st (other s).
Proof. destruct s; reflexivity. Qed.
Lemma ep_with_queue st s q t : ep_of (with_queue st s q) t = ep_of st t.
Proof. destruct s, t; reflexivity. Qed.
Lemma queue_with_ep st s e t : queue (with_ep st s e) t = queue st t.
Proof. destruct s, t; reflexivity. Qed.
Lemma queue_with_queue_same st s q : queue (with_queue st s q) s = q.
Proof. destruct s; reflexivity. Qed.
Lemma queue_with_queue_other st s q : queue (with_queue st s q) (other s) = queue st (other s).
Proof. destruct s; reflexivity. Qed.

(* ---------------------------------------------------------------- take_nth *)
Lemma take_nth_spec {A} i : forall (l : list A) x r,
  take_nth i l = Some (x, r) -> exists l1 l2, l = l1 ++ x :: l2 /\ r = l1 ++ l2.
Proof.
  induction i as [|i IH]; intros [|y l] x r H; cbn in H; try discriminate.
  - inversion H; subst. exists [], r. auto.
  - destruct (take_nth i l) as [[z r']|] eqn:E; [|discriminate].
    inversion H; subst. destruct (IH _ _ _ E) as (l1 & l2 & -> & ->).
    exists (y :: l1), l2. auto.
Qed.

(* ---------------------------------------------------------------- callCmdMap *)
Lemma pget_pdel_same p q : pget (pdel p q) q = None.
Proof.
  induction p as [|[k c] r IH]; cbn; [reflexivity|].
  destruct (Z.eqb k q) eqn:E; [exact IH|]. cbn. rewrite E. exact IH.
Qed.
Lemma pget_pdel_other p q q' : q' <> q -> pget (pdel p q) q' = pget p q'.
Proof.
  intros Hn. induction p as [|[k c] r IH]; cbn; [reflexivity|].
  destruct (Z.eqb k q) eqn:E.
  - apply Z.eqb_eq in E. subst k.
    destruct (Z.eqb q q') eqn:E'; [apply Z.eqb_eq in E'; congruence | exact IH].
  - cbn. rewrite IH. reflexivity.
Qed.
Lemma pget_pdel_some p q q' c : pget (pdel p q) q' = Some c -> q' <> q /\ pget p q' = Some c.
Proof.
  intros H. destruct (Z.eq_dec q' q) as [->|Hn].
  - rewrite pget_pdel_same in H. discriminate.
  - rewrite pget_pdel_other in H by exact Hn. auto.
Qed.
Lemma pget_pset_same p q c : pget (pset p q c) q = Some c.
Proof. unfold pset. cbn. rewrite Z.eqb_refl. reflexivity. Qed.
Lemma pget_pset_other p q c q' : q' <> q -> pget (pset p q c) q' = pget p q'.
Proof.
  intros Hn. unfold pset. cbn.
  destruct (Z.eqb q q') eqn:E; [apply Z.eqb_eq in E; congruence|].
  apply pget_pdel_other. exact Hn.
Qed.

(* ---------------------------------------------------------------- int32 sequence numbers *)
Lemma seq_of_count_int32 n : int32_ok (seq_of_count n) = true.
Proof.
  unfold seq_of_count, int32_ok.
  assert (H : n mod 4294967296 < 4294967296) by (apply N.mod_lt; lia).
  generalize dependent (n mod 4294967296). intros r H.
  destruct (N.ltb_spec r 2147483648);
    apply andb_true_iff; split; apply Z.leb_le; lia.
Qed.

Lemma seq_of_count_window n1 n2 :
  n1 < n2 -> n2 - n1 < 4294967296 -> seq_of_count n1 <> seq_of_count n2.
Proof.
  intros Hlt Hw E.
  assert (M : n1 mod 4294967296 = n2 mod 4294967296).
  { unfold seq_of_count in E.
    assert (H1 : n1 mod 4294967296 < 4294967296) by (apply N.mod_lt; lia).
    assert (H2 : n2 mod 4294967296 < 4294967296) by (apply N.mod_lt; lia).
    generalize dependent (n1 mod 4294967296). intros r1 E H1.
    generalize dependent (n2 mod 4294967296). intros r2 E H2.
    destruct (N.ltb_spec r1 2147483648); destruct (N.ltb_spec r2 2147483648); lia. }
  pose proof (N.div_mod n1 4294967296) as D1. pose proof (N.div_mod n2 4294967296) as D2.
  assert (K : 4294967296 <> 0) by lia. specialize (D1 K). specialize (D2 K).
  rewrite M in D1. lia.
Qed.

(* AddInt32: the next value of the counter is the wrapped successor *)
Lemma seq_of_count_succ n : seq_of_count (n + 1) = int32_wrap (seq_of_count n + 1).
Proof.
  unfold seq_of_count, int32_wrap.
  assert (K : 4294967296 <> 0) by lia.
  pose proof (N.div_mod n 4294967296 K) as D.
  assert (H : n mod 4294967296 < 4294967296) by (apply N.mod_lt; lia).
  set (d := n / 4294967296) in *. set (r := n mod 4294967296) in *.
  assert (R : (n + 1) mod 4294967296 = if r =? 4294967295 then 0 else r + 1).
  { destruct (N.eqb_spec r 4294967295) as [E|E].
    - replace (n + 1) with (0 + (d + 1) * 4294967296) by lia. rewrite N.mod_add by lia. reflexivity.
    - replace (n + 1) with ((r + 1) + d * 4294967296) by lia. rewrite N.mod_add by lia.
      apply N.mod_small. lia. }
  rewrite R. clear R D.
  destruct (N.eqb_spec r 4294967295) as [E|E].
  - subst r. rewrite E. cbn. reflexivity.
  - destruct (N.ltb_spec r 2147483648) as [L|L].
    + destruct (N.ltb_spec (r + 1) 2147483648) as [L'|L'].
      * rewrite Z.mod_small by lia. lia.
      * assert (r = 2147483647) by lia. subst r. rewrite H0. cbn. reflexivity.
    + destruct (N.ltb_spec (r + 1) 2147483648) as [L'|L']; [lia|].
      replace (Z.of_N r - 4294967296 + 1 + 2147483648)%Z with (Z.of_N r + 1 - 2147483648)%Z by lia.
      rewrite Z.mod_small by lia. lia.
Qed.

(* ---------------------------------------------------------------- frames and prefixes *)
Lemma take_ok n s x r : take n s = Ok (x, r) -> s = x ++ r /\ blen x = n.
Proof.
  unfold take. destruct (N.ltb_spec (blen s) n) as [L|L]; [discriminate|].
  intros H. inversion H; subst. split.
  - symmetry. apply firstn_skipn.
  - unfold blen in *. rewrite firstn_length. lia.
Qed.

(* what a successful Unpack consumed: exactly [size] bytes, announced in the first four *)
Lemma raw_unpack_consumes reg lim s m ids size rest :
  raw_unpack reg lim s = Ok (m, ids, size, rest) ->
  blen s = size + blen rest /\ 4 <= blen s /\ size = N_of_be (firstn 4 s).
Proof.
  unfold raw_unpack. intros H.
  destruct (take 4 s) as [[b4 s1]| |] eqn:T4; cbn [rbind] in H; try discriminate.
  apply take_ok in T4 as [E4 L4].
  destruct (lim <? N_of_be b4); [discriminate|].
  destruct (N.ltb_spec (N_of_be b4) 4) as [|G4]; [discriminate|].
  destruct (take 1 s1) as [[xb s2]| |] eqn:T1; cbn [rbind] in H; try discriminate.
  apply take_ok in T1 as [E1 L1].
  set (xl := match xb with [x] => b2n x | _ => 0 end) in *.
  destruct (N.ltb_spec (N_of_be b4 - 4) (1 + xl)) as [|Gx]; [discriminate|].
  destruct (take xl s2) as [[ids' s3]| |] eqn:Tx; cbn [rbind] in H; try discriminate.
  apply take_ok in Tx as [Ex Lx].
  destruct (pipe_append reg [] ids') as [p [e|]]; [discriminate|].
  destruct (take (N_of_be b4 - 4 - 1 - xl) s3) as [[payload s4]| |] eqn:Tp; cbn [rbind] in H;
    try discriminate.
  apply take_ok in Tp as [Ep Lp].
  destruct (pipe_unpack p payload); cbn [of_option rbind] in H; [|discriminate].
  destruct (raw_parse b); cbn [rbind] in H; try discriminate.
  inversion H; subst. clear H.
  assert (F4 : firstn 4 (b4 ++ xb ++ ids ++ payload ++ rest) = b4).
  { replace 4%nat with (length b4) by (unfold blen in L4; lia). apply firstn_len_app. }
  rewrite F4. rewrite !blen_app. repeat split; lia.
Qed.

Lemma wf_frame_raw cfg x :
  Wire.wf_frame cfg x -> RawProofs.wf_frame (cf_reg cfg) (cf_lim cfg) (fr_ids x, fr_msg x, fr_bytes x).
Proof.
  intros (p & Hp & H1 & H2 & H3 & H4 & H5 & H6 & Hk & Hl).
  exists p. unfold wf_msg. repeat split; assumption.
Qed.

(* a packed frame starts with its own length and fits the limit *)
Lemma raw_pack_shape lim p m f :
  raw_pack lim p m = Ok f -> blen f < 4294967296 ->
  exists tl, f = be_of_N 4 (blen f) ++ tl /\ blen f <= lim /\ 5 <= blen f.
Proof.
  unfold raw_pack. intros H Hl.
  destruct (raw_header m) as [h| |]; cbn [rbind] in H; try discriminate.
  destruct (pipe_pack p _) as [payload|]; cbn [of_option rbind] in H; [|discriminate].
  set (size := (4 + 1 + blen (pipe_ids p) + blen payload) mod 4294967296) in H.
  destruct (N.ltb_spec lim size) as [|G]; [discriminate|].
  apply Ok_inj in H.
  assert (Hf : blen f = 4 + 1 + blen (pipe_ids p) + blen payload).
  { rewrite <- H. rewrite blen_app, (be_of_N_blen 4), blen_cons, blen_app. lia. }
  assert (Hs : size = blen f).
  { unfold size. rewrite <- Hf. apply N.mod_small. exact Hl. }
  rewrite <- Hs. exists (n2b (blen (pipe_ids p)) :: pipe_ids p ++ payload).
  repeat split; [symmetry; exact H | exact G | lia].
Qed.

(* a strict prefix of a frame is not a complete frame: the reader keeps waiting *)
Lemma strict_prefix_waits cfg x wr t :
  Wire.wf_frame cfg x -> wr ++ t = fr_bytes x -> t <> [] ->
  (forall r, raw_unpack (cf_reg cfg) (cf_lim cfg) wr <> Ok r) /\
  frame_complete (cf_lim cfg) wr = false.
Proof.
  intros (p & Hp & _ & _ & _ & _ & _ & _ & Hk & Hl) E Ht.
  destruct (raw_pack_shape _ _ _ _ Hk Hl) as (tl & Ef & Hlim & H5).
  assert (Lt : blen wr < blen (fr_bytes x)).
  { rewrite <- E, blen_app. destruct t; [congruence|]. rewrite blen_cons. lia. }
  assert (F4 : 4 <= blen wr -> N_of_be (firstn 4 wr) = blen (fr_bytes x)).
  { intros G.
    assert (firstn 4 wr = firstn 4 (fr_bytes x)).
    { rewrite <- E. rewrite firstn_app.
      replace (4 - length wr)%nat with O by (unfold blen in G; lia).
      cbn [firstn]. rewrite app_nil_r. reflexivity. }
    rewrite H. clear H. remember (blen (fr_bytes x)) as L eqn:EL. rewrite Ef.
    replace 4%nat with (length (be_of_N 4 L)) at 1 by apply be_of_N_length.
    rewrite firstn_len_app. apply N_of_be_of_N. exact Hl. }
  split.
  - intros [[[m ids] size] rest] U.
    apply raw_unpack_consumes in U as (A & B & C). rewrite (F4 B) in C. lia.
  - unfold frame_complete. destruct (N.leb_spec 4 (blen wr)) as [G|G]; [|reflexivity].
    cbn [andb]. rewrite (F4 G).
    destruct (N.ltb_spec (cf_lim cfg) (blen (fr_bytes x))); [lia|].
    destruct (N.leb_spec (blen (fr_bytes x)) (blen wr)); [lia|]. reflexivity.
Qed.

Lemma empty_queue_waits cfg :
  (forall r, raw_unpack (cf_reg cfg) (cf_lim cfg) [] <> Ok r) /\ frame_complete (cf_lim cfg) [] = false.
Proof. split; [intros r; cbn; discriminate | reflexivity]. Qed.

(* ================================================================ the invariant *)
From Coq Require Import Permutation.

Definition wfr (y : writer) : frame_rec := fst (fst y).
Definition items (e : ep) (w : list frame_rec) : list frame_rec :=
  e_outbox e ++ map wfr (e_writers e) ++ w.
Definition kcall (x : frame_rec) : list Z :=
  if beqb (m_mtype (fr_msg x)) x01 then [m_seq (fr_msg x)] else [].
Definition kreply (x : frame_rec) : list Z :=
  if beqb (m_mtype (fr_msg x)) x02 then [m_seq (fr_msg x)] else [].
(* sequence numbers of the calls of [es] that are somewhere between Store and completion:
   CALL frames on their way out of [es], REPLY frames on their way back from [eo] *)
Definition flight2 (es eo : ep) (ws wo : list frame_rec) : list Z :=
  flat_map kcall (items es ws) ++ flat_map kreply (items eo wo).
Definition cnt (l : list Z) (q : Z) : nat := count_occ Z.eq_dec l q.
Definition res_of (m : msg) : result := RReply (m_status m) (m_body m) (m_meta m).

Lemma cnt_app l1 l2 q : cnt (l1 ++ l2) q = (cnt l1 q + cnt l2 q)%nat.
Proof. apply count_occ_app. Qed.
Lemma cnt_nil q : cnt [] q = O.
Proof. reflexivity. Qed.
Lemma cnt_one q : cnt [q] q = 1%nat.
Proof. unfold cnt. cbn. destruct (Z.eq_dec q q); congruence. Qed.
Lemma cnt_in l q : In q l <-> (1 <= cnt l q)%nat.
Proof. unfold cnt. rewrite (count_occ_In Z.eq_dec). lia. Qed.
Lemma cnt_flat_in {A} (k : A -> list Z) l y q :
  In y l -> In q (k y) -> (1 <= cnt (flat_map k l) q)%nat.
Proof. intros H1 H2. apply cnt_in. apply in_flat_map. exists y. auto. Qed.
Lemma cnt_flat_perm {A} (k : A -> list Z) l l' q :
  Permutation l l' -> cnt (flat_map k l) q = cnt (flat_map k l') q.
Proof.
  intros P. unfold cnt. apply (Permutation_count_occ Z.eq_dec). apply Permutation_flat_map. exact P.
Qed.

Lemma items_cons_perm e x w : Permutation (items e (x :: w)) (x :: items e w).
Proof.
  unfold items. rewrite !app_assoc. symmetry. apply Permutation_middle.
Qed.
Lemma cnt_items_cons k e x w q :
  cnt (flat_map k (items e (x :: w))) q = (cnt (k x) q + cnt (flat_map k (items e w)) q)%nat.
Proof.
  rewrite (cnt_flat_perm k _ _ q (items_cons_perm e x w)). cbn [flat_map]. apply cnt_app.
Qed.
Lemma items_cons_in e x w z : In z (items e w) -> In z (items e (x :: w)).
Proof. unfold items. rewrite !in_app_iff. cbn. tauto. Qed.
Lemma items_cons_inv e x w z : In z (items e (x :: w)) -> z = x \/ In z (items e w).
Proof. unfold items. rewrite !in_app_iff. cbn. intuition. Qed.

Lemma kcall_in x q : In q (kcall x) -> m_mtype (fr_msg x) = x01 /\ q = m_seq (fr_msg x).
Proof.
  unfold kcall. destruct (beqb _ x01) eqn:E; [|intros []].
  apply beqb_eq in E. intros [<-|[]]. auto.
Qed.
Lemma kreply_in x q : In q (kreply x) -> m_mtype (fr_msg x) = x02 /\ q = m_seq (fr_msg x).
Proof.
  unfold kreply. destruct (beqb _ x02) eqn:E; [|intros []].
  apply beqb_eq in E. intros [<-|[]]. auto.
Qed.
Lemma kcall_of x : m_mtype (fr_msg x) = x01 -> kcall x = [m_seq (fr_msg x)].
Proof. intros E. unfold kcall. rewrite E. reflexivity. Qed.
Lemma kreply_of x : m_mtype (fr_msg x) = x02 -> kreply x = [m_seq (fr_msg x)].
Proof. intros E. unfold kreply. rewrite E. reflexivity. Qed.
Lemma kcall_not x : m_mtype (fr_msg x) <> x01 -> kcall x = [].
Proof. intros E. unfold kcall. apply beqb_neq in E. rewrite E. reflexivity. Qed.
Lemma kreply_not x : m_mtype (fr_msg x) <> x02 -> kreply x = [].
Proof. intros E. unfold kreply. apply beqb_neq in E. rewrite E. reflexivity. Qed.

Lemma reply_msg_mtype q cd out : m_mtype (reply_msg q cd out) = x02.
Proof. destruct out as [[rb rm] st]. unfold reply_msg. destruct (status_ok st); reflexivity. Qed.
Lemma reply_msg_seq q cd out : m_seq (reply_msg q cd out) = q.
Proof. destruct out as [[rb rm] st]. unfold reply_msg. destruct (status_ok st); reflexivity. Qed.

Section Locked.
  Variable cfg : config.
  Hypothesis Hlock : cf_lock cfg = true.
  Hypothesis Hinv : forall g, In g (cf_reg cfg) -> inverts g.

  (* a frame sent by endpoint [es] (side [s]); [eo] is the peer *)
  Definition out_ok (s : side) (es eo : ep) (x : frame_rec) : Prop :=
    let m := fr_msg x in
    (m_mtype m = x01 /\ exists c, pget (e_pending es) (m_seq m) = Some c /\
        m = msg_of_call c /\ In c (e_issued es))
    \/ (m_mtype m = x02 /\ exists c, pget (e_pending eo) (m_seq m) = Some c /\
        m = reply_msg (m_seq m) (c_codec c) (cf_handler cfg s (c_method c) (c_args c) (c_meta c)))
    \/ (m_mtype m = x03 /\ In (m_method m, m_body m, m_meta m) (e_sent es)).

  Definition pend_ok (e : ep) : Prop :=
    forall q c, pget (e_pending e) q = Some c ->
      c_seq c = q /\ q = seq_of_count (c_no c) /\ 1 <= c_no c /\ c_no c <= e_count e /\
      In c (e_issued e).

  Definition done_ok (s : side) (es : ep) (cr : callrec * result) : Prop :=
    In (fst cr) (e_issued es) /\
    match snd cr with
    | RReply _ _ _ =>
        snd cr = res_of (reply_msg (c_seq (fst cr)) (c_codec (fst cr))
                   (cf_handler cfg (other s) (c_method (fst cr)) (c_args (fst cr)) (c_meta (fst cr))))
    | RLocalErr => True
    end.

  Definition seen_ok (eo : ep) (h : hin) : Prop :=
    if h_push h then In (h_method h, h_body h, h_meta h) (e_sent eo)
    else exists c, In c (e_issued eo) /\ h = mkHin false (c_method c) (c_args c) (c_meta c).

  Definition link2 (s : side) (es eo : ep) (ws wo : list frame_rec) : Prop :=
    (forall q, (cnt (flight2 es eo ws wo) q <= 1)%nat) /\
    pend_ok es /\
    (forall x, In x (items es ws) -> out_ok s es eo x) /\
    (forall cr, In cr (e_done es) -> done_ok s es cr) /\
    (forall h, In h (e_seen es) -> seen_ok eo h) /\
    e_broken es = false.

  Definition wire_inv (e : ep) (q : bytes) (wl : list frame_rec) : Prop :=
    Forall (Wire.wf_frame cfg) wl /\
    (e_lock e = false -> e_writers e = [] /\ e_unlocking e = []) /\
    (length (e_writers e) + length (e_unlocking e) <= 1)%nat /\
    match e_writers e with
    | [] => q = concat (map fr_bytes wl)
    | [(x, wr, rest)] =>
        q = concat (map fr_bytes wl) ++ wr /\ wr ++ concat rest = fr_bytes x /\
        rest <> [] /\ forallb nonempty rest = true /\ Wire.wf_frame cfg x
    | _ => False
    end.

  (* the invariant, parametric in the predicate that ties a queue to the frames on it *)
  Definition inv_atW (W : ep -> bytes -> list frame_rec -> Prop)
             (st : state) (s : side) (ws wo : list frame_rec) : Prop :=
    (W (ep_of st s) (queue st s) ws /\
     link2 s (ep_of st s) (ep_of st (other s)) ws wo) /\
    (W (ep_of st (other s)) (queue st (other s)) wo /\
     link2 (other s) (ep_of st (other s)) (ep_of st s) wo ws).

  Definition InvW W (st : state) : Prop := exists wa wb, inv_atW W st SA wa wb.

  Lemma inv_atW_swap W st s ws wo : inv_atW W st s ws wo -> inv_atW W st (other s) wo ws.
  Proof. unfold inv_atW. rewrite other_other. tauto. Qed.

  Lemma InvW_at W st s : InvW W st -> exists ws wo, inv_atW W st s ws wo.
  Proof.
    intros (wa & wb & H). destruct s; [eauto|]. exists wb, wa. apply (inv_atW_swap W _ SA). exact H.
  Qed.
  Lemma at_InvW W st s ws wo : inv_atW W st s ws wo -> InvW W st.
  Proof.
    intros H. destruct s; [exists ws, wo; exact H|]. exists wo, ws. apply (inv_atW_swap W _ SB). exact H.
  Qed.

  Definition inv_at := inv_atW wire_inv.
  Definition Inv := InvW wire_inv.
  Definition Inv_at st s : Inv st -> exists ws wo, inv_at st s ws wo := InvW_at wire_inv st s.
  Definition at_Inv st s ws wo : inv_at st s ws wo -> Inv st := at_InvW wire_inv st s ws wo.

  (* ---- consequences used in several cases ---- *)
  Lemma out_ok_call s es eo x : out_ok s es eo x -> m_mtype (fr_msg x) = x01 ->
    exists c, pget (e_pending es) (m_seq (fr_msg x)) = Some c /\ fr_msg x = msg_of_call c /\
              In c (e_issued es).
  Proof. intros [[_ H]|[[E _]|[E _]]] M; [exact H| |]; rewrite M in E; discriminate. Qed.
  Lemma out_ok_reply s es eo x : out_ok s es eo x -> m_mtype (fr_msg x) = x02 ->
    exists c, pget (e_pending eo) (m_seq (fr_msg x)) = Some c /\
      fr_msg x = reply_msg (m_seq (fr_msg x)) (c_codec c)
                   (cf_handler cfg s (c_method c) (c_args c) (c_meta c)).
  Proof. intros [[E _]|[[_ H]|[E _]]] M; [|exact H|]; rewrite M in E; discriminate. Qed.
  Lemma out_ok_push s es eo x : out_ok s es eo x -> m_mtype (fr_msg x) = x03 ->
    In (m_method (fr_msg x), m_body (fr_msg x), m_meta (fr_msg x)) (e_sent es).
  Proof. intros [[E _]|[[E _]|[_ H]]] M; [| |exact H]; rewrite M in E; discriminate. Qed.
  Lemma out_ok_mtype s es eo x : out_ok s es eo x ->
    m_mtype (fr_msg x) = x01 \/ m_mtype (fr_msg x) = x02 \/ m_mtype (fr_msg x) = x03.
  Proof. intros [[E _]|[[E _]|[E _]]]; auto. Qed.

  (* every sequence number in flight is the key of a pending call of [es] *)
  Lemma flight_pending s es eo ws wo q :
    link2 s es eo ws wo -> link2 (other s) eo es wo ws ->
    In q (flight2 es eo ws wo) -> exists c, pget (e_pending es) q = Some c.
  Proof.
    intros (_ & _ & Ho & _) (_ & _ & Ho' & _) Hin.
    unfold flight2 in Hin. apply in_app_iff in Hin as [Hin|Hin];
      apply in_flat_map in Hin as (y & Hy & Hq).
    - apply kcall_in in Hq as [M ->].
      destruct (out_ok_call _ _ _ _ (Ho y Hy) M) as (c & Hc & _). eauto.
    - apply kreply_in in Hq as [M ->].
      destruct (out_ok_reply _ _ _ _ (Ho' y Hy) M) as (c & Hc & _). eauto.
  Qed.

  (* the number given to a new call is not in flight (window hypothesis) *)
  Lemma fresh_not_in_flight s es eo ws wo :
    link2 s es eo ws wo -> link2 (other s) eo es wo ws ->
    (forall q c, pget (e_pending es) q = Some c -> e_count es - c_no c + 1 < 4294967296) ->
    cnt (flight2 es eo ws wo) (seq_of_count (e_count es + 1)) = O.
  Proof.
    intros L L' W.
    destruct (cnt (flight2 es eo ws wo) (seq_of_count (e_count es + 1))) eqn:E; [reflexivity|].
    exfalso.
    assert (Hin : In (seq_of_count (e_count es + 1)) (flight2 es eo ws wo)) by (apply cnt_in; lia).
    destruct (flight_pending _ _ _ _ _ _ L L' Hin) as (c & Hc).
    destruct L as (_ & Hp & _). destruct (Hp _ _ Hc) as (_ & Hs & H1 & H2 & _).
    specialize (W _ _ Hc).
    apply (seq_of_count_window (c_no c) (e_count es + 1)); [lia | lia | congruence].
  Qed.

  Lemma cnt_one_neq a q : a <> q -> cnt [a] q = O.
  Proof. intros N. unfold cnt. cbn. destruct (Z.eq_dec a q); congruence. Qed.
  Lemma cnt_one_le a q : (cnt [a] q <= 1)%nat.
  Proof. unfold cnt. cbn. destruct (Z.eq_dec a q); lia. Qed.

  (* ---- two general preservation lemmas ---- *)
  Lemma link_same_gen s es es' eo ws ws' wo wo' :
    link2 s es eo ws wo ->
    (forall q, (cnt (flight2 es' eo ws' wo') q <= 1)%nat) ->
    pend_ok es' ->
    (forall x, In x (items es' ws') ->
       out_ok s es' eo x \/
       (In x (items es ws) /\
        (m_mtype (fr_msg x) = x01 ->
         pget (e_pending es') (m_seq (fr_msg x)) = pget (e_pending es) (m_seq (fr_msg x))))) ->
    incl (e_issued es) (e_issued es') -> incl (e_sent es) (e_sent es') ->
    (forall cr, In cr (e_done es') -> In cr (e_done es) \/ done_ok s es' cr) ->
    (forall h, In h (e_seen es') -> In h (e_seen es) \/ seen_ok eo h) ->
    e_broken es' = false ->
    link2 s es' eo ws' wo'.
  Proof.
    intros (Hc & Hp & Ho & Hd & Hs & Hb) Hc' Hp' Hit Hi Hse Hd' Hs' Hb'.
    refine (conj Hc' (conj Hp' (conj _ (conj _ (conj _ Hb'))))).
    - intros x Hx. destruct (Hit x Hx) as [H|[Hold Hpg]]; [exact H|].
      destruct (Ho x Hold) as [[M (c & H1 & H2 & H3)]|[[M H]|[M H]]].
      + left. split; [exact M|]. exists c. rewrite (Hpg M). auto.
      + right. left. auto.
      + right. right. auto.
    - intros cr Hcr. destruct (Hd' cr Hcr) as [H|H]; [|exact H].
      destruct (Hd cr H) as [A B]. split; [apply Hi; exact A | exact B].
    - intros h Hh. destruct (Hs' h Hh) as [H|H]; [apply Hs; exact H | exact H].
  Qed.

  Lemma link_other_gen s es es' eo ws ws' wo wo' :
    link2 (other s) eo es wo ws ->
    (forall q, (cnt (flight2 eo es' wo' ws') q <= 1)%nat) ->
    (forall y, In y (items eo wo') -> In y (items eo wo) /\
       (m_mtype (fr_msg y) = x02 ->
        pget (e_pending es') (m_seq (fr_msg y)) = pget (e_pending es) (m_seq (fr_msg y)))) ->
    incl (e_issued es) (e_issued es') -> incl (e_sent es) (e_sent es') ->
    link2 (other s) eo es' wo' ws'.
  Proof.
    intros (Hc & Hp & Ho & Hd & Hs & Hb) Hc' Hit Hi Hse.
    refine (conj Hc' (conj Hp (conj _ (conj Hd (conj _ Hb))))).
    - intros y Hy. destruct (Hit y Hy) as [Hold Hpg].
      destruct (Ho y Hold) as [[M H]|[[M (c & H1 & H2)]|[M H]]].
      + left. auto.
      + right. left. split; [exact M|]. exists c. rewrite (Hpg M). auto.
      + right. right. auto.
    - intros h Hh. specialize (Hs h Hh). unfold seen_ok in *. destruct (h_push h).
      + apply Hse. exact Hs.
      + destruct Hs as (c & A & B). exists c. split; [apply Hi; exact A | exact B].
  Qed.

  (* wire_inv does not look at the outbox or the histories *)
  Lemma wire_same e e' q wl :
    wire_inv e q wl -> e_lock e' = e_lock e -> e_writers e' = e_writers e ->
    e_unlocking e' = e_unlocking e -> wire_inv e' q wl.
  Proof. unfold wire_inv. intros H -> -> ->. exact H. Qed.
End Locked.
