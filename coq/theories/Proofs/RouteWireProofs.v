(* Lemmas about Model/RouteWire.v: which names every wire protocol carries unchanged, what
   the json pair strconv.Quote / gjson.unescape does to the others, what httproto's double
   url.Parse does, and the composition with the router's lookup. *)
From Coq Require Import Strings.String Strings.Byte.
From Coq Require Import List Arith NArith Bool Lia.
From Verif Require Import Base.Bytes Model.Mapper Model.Router Model.RouteWire
  Proofs.RouterProofs.
Import ListNotations.

(* ------------------------------------------------------------------ byte facts (sweeps) *)

Definition json_ok (b : byte) : bool := negb (json_bad b).

(* the shape of strconv.Quote's output for one byte, as gjson reads it: closed sweeps *)
Definition quote_reads_back (b : byte) : bool :=
  match go_quote_byte b with
  | [x] => beqb x b && negb (b2n x <? 32)%N && negb (beqb x c_bsl)
  | [s; e] => beqb s c_bsl && match gj_escape e with Some d => beqb d b | None => false end
  | _ => false
  end.
Definition quote_ends_string (b : byte) : bool :=
  match go_quote_byte b with
  | s :: e :: _ => beqb s c_bsl && match gj_escape e with Some _ => false | None => true end
                   && negb (beqb e "u"%byte)
  | _ => false
  end.

Lemma quote_reads_back_ok b :
  is_ascii b = true -> json_bad b = false -> quote_reads_back b = true.
Proof. destruct b; vm_compute; intros H1 H2; try discriminate H1; try discriminate H2; reflexivity. Qed.

Lemma quote_ends_string_bad b :
  is_ascii b = true -> json_bad b = true -> quote_ends_string b = true.
Proof. destruct b; vm_compute; intros H1 H2; try discriminate H1; try discriminate H2; reflexivity. Qed.

Lemma quote_byte_ok b rest :
  is_ascii b = true -> json_bad b = false ->
  gjson_unescape (go_quote_byte b ++ rest) = b :: gjson_unescape rest.
Proof.
  intros H1 H2. pose proof (quote_reads_back_ok b H1 H2) as H. unfold quote_reads_back in H.
  destruct (go_quote_byte b) as [|x [|e [|? ?]]]; try discriminate H.
  - apply andb_true_iff in H. destruct H as [H Hb]. apply andb_true_iff in H. destruct H as [Hx Hc].
    apply beqb_eq in Hx. subst x. apply negb_true_iff in Hb. apply negb_true_iff in Hc.
    cbn [app gjson_unescape]. rewrite Hc, Hb. reflexivity.
  - apply andb_true_iff in H. destruct H as [Hx Hd]. apply beqb_eq in Hx. subst x.
    cbn [app gjson_unescape]. change (b2n c_bsl <? 32)%N with false. rewrite beqb_refl.
    destruct (gj_escape e) as [d|]; [|discriminate Hd]. apply beqb_eq in Hd. subst d. reflexivity.
Qed.

Lemma quote_byte_bad b rest :
  is_ascii b = true -> json_bad b = true ->
  gjson_unescape (go_quote_byte b ++ rest) = [].
Proof.
  intros H1 H2. pose proof (quote_ends_string_bad b H1 H2) as H. unfold quote_ends_string in H.
  destruct (go_quote_byte b) as [|x [|e tl]]; try discriminate H.
  apply andb_true_iff in H. destruct H as [H Hu]. apply andb_true_iff in H. destruct H as [Hx Hd].
  apply beqb_eq in Hx. subst x. apply negb_true_iff in Hu.
  cbn [app gjson_unescape]. change (b2n c_bsl <? 32)%N with false. rewrite beqb_refl.
  destruct (gj_escape e); [discriminate Hd|]. rewrite Hu. reflexivity.
Qed.

(* escapeBody, then gjson: every byte comes back *)
Definition body_reads_back (b : byte) : bool :=
  match escape_body_byte b with
  | [x] => beqb x b && negb (b2n x <? 32)%N && negb (beqb x c_bsl)
  | [s; e] => beqb s c_bsl && match gj_escape e with Some d => beqb d b | None => false end
  | [s; u; h1; h2; h3; h4] =>
      beqb s c_bsl && match gj_escape u with Some _ => false | None => true end && beqb u "u"%byte
      && (gj_rune h1 h2 h3 h4 <? 128)%N && beqb (n2b (gj_rune h1 h2 h3 h4)) b
  | _ => false
  end.

Lemma body_reads_back_all b : body_reads_back b = true.
Proof. destruct b; vm_compute; reflexivity. Qed.

Lemma escape_body_byte_ok b rest :
  gjson_unescape (escape_body_byte b ++ rest) = b :: gjson_unescape rest.
Proof.
  pose proof (body_reads_back_all b) as H. unfold body_reads_back in H.
  destruct (escape_body_byte b) as [|x [|e [|h1 [|h2 [|h3 [|h4 [|? ?]]]]]]]; try discriminate H.
  - apply andb_true_iff in H. destruct H as [H Hb]. apply andb_true_iff in H. destruct H as [Hx Hc].
    apply beqb_eq in Hx. subst x. apply negb_true_iff in Hb. apply negb_true_iff in Hc.
    cbn [app gjson_unescape]. rewrite Hc, Hb. reflexivity.
  - apply andb_true_iff in H. destruct H as [Hx Hd]. apply beqb_eq in Hx. subst x.
    cbn [app gjson_unescape]. change (b2n c_bsl <? 32)%N with false. rewrite beqb_refl.
    destruct (gj_escape e) as [d|]; [|discriminate Hd]. apply beqb_eq in Hd. subst d. reflexivity.
  - repeat (apply andb_true_iff in H; let X := fresh in destruct H as [H X]).
    apply beqb_eq in H. subst x.
    cbn [app gjson_unescape]. change (b2n c_bsl <? 32)%N with false. rewrite beqb_refl.
    destruct (gj_escape e); [discriminate|].
    match goal with X : beqb e _ = true |- _ => rewrite X end.
    match goal with X : (gj_rune _ _ _ _ <? 128)%N = true |- _ => rewrite X end.
    match goal with X : beqb (n2b _) b = true |- _ => apply beqb_eq in X; rewrite X end.
    reflexivity.
Qed.

Lemma json_wire_identity n : gjson_unescape (escape_body n) = n.
Proof.
  induction n as [|b r IH]; [reflexivity|].
  change (escape_body (b :: r)) with (escape_body_byte b ++ escape_body r).
  rewrite escape_body_byte_ok, IH. reflexivity.
Qed.

Lemma wire_json_exact n : wire_json n = WSeen n.
Proof. unfold wire_json. rewrite json_wire_identity. reflexivity. Qed.

(* what a plain byte is not *)
Definition url_inert (b : byte) : bool :=
  is_ascii b && negb (json_bad b) && negb (is_ctl b)
  && negb (beqb b c_pct) && negb (beqb b c_qm) && negb (beqb b c_hash) && negb (beqb b c_colon)
  && negb (beqb b c_sp) && negb (beqb b c_star) && negb (beqb b c_lf) && negb (beqb b "+"%byte).

Lemma plain_byte_inert b : wire_plain_byte b = true -> url_inert b = true.
Proof. destruct b; vm_compute; intros H; try discriminate H; reflexivity. Qed.

(* ------------------------------------------------------------------ json *)

Lemma go_quote_cons b r : go_quote (b :: r) = go_quote_byte b ++ go_quote r.
Proof. reflexivity. Qed.

Lemma json_wire_take_while n :
  ascii_only n = true -> gjson_unescape (go_quote n) = take_while json_ok n.
Proof.
  induction n as [|b r IH]; intros H; [reflexivity|].
  cbn [ascii_only forallb] in H. apply andb_true_iff in H. destruct H as [Hb Hr].
  rewrite go_quote_cons. cbn [take_while]. unfold json_ok at 1.
  destruct (json_bad b) eqn:B; cbn [negb].
  - apply quote_byte_bad; assumption.
  - rewrite quote_byte_ok by assumption. f_equal. apply IH. exact Hr.
Qed.

Lemma take_while_all f n : forallb f n = true -> take_while f n = n.
Proof.
  induction n as [|b r IH]; intros H; [reflexivity|].
  cbn [forallb] in H. apply andb_true_iff in H. destruct H as [Hb Hr].
  cbn [take_while]. rewrite Hb. f_equal. apply IH. exact Hr.
Qed.

Lemma take_while_prefix f n : exists t, n = take_while f n ++ t.
Proof.
  induction n as [|b r [t IH]]; [exists []; reflexivity|].
  cbn [take_while]. destruct (f b).
  - exists t. cbn [app]. f_equal. exact IH.
  - exists (b :: r). reflexivity.
Qed.

Lemma wire_json_prefix_eq n :
  ascii_only n = true -> wire_json_prefix n = WSeen (take_while json_ok n).
Proof. intros H. unfold wire_json_prefix. rewrite H, json_wire_take_while by exact H. reflexivity. Qed.

(* ------------------------------------------------------------------ lists of inert bytes *)

Lemma forallb_imp {A} (f g : A -> bool) l :
  (forall x, f x = true -> g x = true) -> forallb f l = true -> forallb g l = true.
Proof.
  intros Hfg. induction l as [|x r IH]; intros H; [reflexivity|].
  cbn [forallb] in *. apply andb_true_iff in H. destruct H as [Hx Hr].
  rewrite (Hfg _ Hx), (IH Hr). reflexivity.
Qed.

Lemma cut_at_absent c s :
  forallb (fun b => negb (beqb b c)) s = true -> cut_at c s = (s, [], false).
Proof.
  induction s as [|x r IH]; intros H; [reflexivity|].
  cbn [forallb] in H. apply andb_true_iff in H. destruct H as [Hx Hr].
  cbn [cut_at]. apply negb_true_iff in Hx. rewrite Hx, (IH Hr). reflexivity.
Qed.

Lemma existsb_absent (f : byte -> bool) s :
  forallb (fun b => negb (f b)) s = true -> existsb f s = false.
Proof.
  induction s as [|x r IH]; intros H; [reflexivity|].
  cbn [forallb] in H. apply andb_true_iff in H. destruct H as [Hx Hr].
  cbn [existsb]. apply negb_true_iff in Hx. rewrite Hx, (IH Hr). reflexivity.
Qed.

Lemma last_byte_absent c s :
  forallb (fun b => negb (beqb b c)) s = true -> last_byte_is c s = false.
Proof.
  induction s as [|x r IH]; intros H; [reflexivity|].
  cbn [forallb] in H. apply andb_true_iff in H. destruct H as [Hx Hr].
  destruct r as [|y r'].
  - cbn [last_byte_is]. apply negb_true_iff in Hx. exact Hx.
  - change (last_byte_is c (x :: y :: r')) with (last_byte_is c (y :: r')). apply IH. exact Hr.
Qed.

Lemma url_unescape_no_pct s :
  forallb (fun b => negb (beqb b c_pct)) s = true -> url_unescape s = Some s.
Proof.
  induction s as [|x r IH]; intros H; [reflexivity|].
  cbn [forallb] in H. apply andb_true_iff in H. destruct H as [Hx Hr].
  cbn [url_unescape]. apply negb_true_iff in Hx. rewrite Hx, (IH Hr). reflexivity.
Qed.

Lemma existsb_cut_prefix (f : byte -> bool) c s :
  existsb f s = false -> existsb f (fst (fst (cut_at c s))) = false.
Proof.
  induction s as [|x r IH]; intros H; [reflexivity|].
  cbn [existsb] in H. apply orb_false_iff in H. destruct H as [Hx Hr].
  cbn [cut_at]. destruct (beqb x c); [reflexivity|].
  specialize (IH Hr). destruct (cut_at c r) as [[a b] fl]. cbn [fst existsb] in *.
  rewrite Hx. cbn [orb]. exact IH.
Qed.

(* url.getScheme finds no scheme when there is no ':' before the first byte that cannot be
   part of one *)
Lemma get_scheme_no_colon s : forall first acc whole tail,
  forallb (fun b => negb (beqb b c_colon)) s = true ->
  (match tail with
   | [] => True
   | t :: _ => is_letter t = false /\ is_scheme_tail t = false /\ beqb t c_colon = false
   end) ->
  get_scheme_loop (s ++ tail) first acc whole = SchOk [] whole.
Proof.
  induction s as [|c r IH]; intros first acc whole tail H Ht.
  - cbn [app]. destruct tail as [|t tl]; [reflexivity|].
    destruct Ht as (L & T & C). cbn [get_scheme_loop]. rewrite L, T, C. reflexivity.
  - cbn [forallb] in H. apply andb_true_iff in H. destruct H as [Hc Hr].
    apply negb_true_iff in Hc.
    cbn [app get_scheme_loop].
    destruct (is_letter c); [apply IH; assumption|].
    destruct (is_scheme_tail c).
    + destruct first; [reflexivity|apply IH; assumption].
    + rewrite Hc. reflexivity.
Qed.

Lemma starts_with_slash_cons p : starts_with [c_sl] p = match p with c :: _ => beqb c c_sl | [] => false end.
Proof.
  destruct p as [|c r]; [reflexivity|].
  unfold starts_with. cbn [length firstn bytes_eqb].
  destruct (beqb c c_sl); reflexivity.
Qed.

(* ------------------------------------------------------------------ url.Parse on inert text *)

Definition inert (s : bytes) : bool := forallb url_inert s.

Lemma inert_not (c : byte) s :
  (forall b, url_inert b = true -> beqb b c = false) ->
  inert s = true -> forallb (fun b => negb (beqb b c)) s = true.
Proof.
  intros Hc. apply forallb_imp. intros b Hb. rewrite (Hc b Hb). reflexivity.
Qed.

Ltac inert_byte := let b := fresh "b" in intros b; destruct b; vm_compute; intros H; try discriminate H; reflexivity.

Lemma inert_pct b : url_inert b = true -> beqb b c_pct = false. Proof. revert b. inert_byte. Qed.
Lemma inert_qm b : url_inert b = true -> beqb b c_qm = false. Proof. revert b. inert_byte. Qed.
Lemma inert_hash b : url_inert b = true -> beqb b c_hash = false. Proof. revert b. inert_byte. Qed.
Lemma inert_colon b : url_inert b = true -> beqb b c_colon = false. Proof. revert b. inert_byte. Qed.
Lemma inert_sp b : url_inert b = true -> beqb b c_sp = false. Proof. revert b. inert_byte. Qed.
Lemma inert_lf b : url_inert b = true -> beqb b c_lf = false. Proof. revert b. inert_byte. Qed.
Lemma inert_star b : url_inert b = true -> beqb b c_star = false. Proof. revert b. inert_byte. Qed.
Lemma inert_ctl b : url_inert b = true -> is_ctl b = false. Proof. revert b. inert_byte. Qed.
Lemma inert_ascii b : url_inert b = true -> is_ascii b = true. Proof. revert b. inert_byte. Qed.
Lemma inert_json b : url_inert b = true -> json_ok b = true. Proof. revert b. inert_byte. Qed.

Lemma inert_not_star s : inert s = true -> bytes_eqb s [c_star] = false.
Proof.
  destruct s as [|c [|d r]]; intros H; try reflexivity.
  - cbn [inert forallb] in H. apply andb_true_iff in H. destruct H as [Hc _].
    cbn [bytes_eqb]. change (Byte.eqb c c_star) with (beqb c c_star).
    rewrite (inert_star _ Hc). reflexivity.
  - cbn [bytes_eqb]. apply andb_false_r.
Qed.

(* a text without URI syntax and without a leading "//" parses to itself *)
Lemma url_parse_inert s :
  inert s = true -> starts_with [c_sl; c_sl] s = false -> url_parse s = UOk s [].
Proof.
  intros Hi Hs. unfold url_parse.
  rewrite (cut_at_absent c_hash s (inert_not _ _ inert_hash Hi)).
  cbn [url_unescape].
  assert (Hctl : has_ctl s = false).
  { apply existsb_absent. revert Hi. apply forallb_imp. intros b Hb. rewrite (inert_ctl _ Hb). reflexivity. }
  rewrite Hctl, (inert_not_star _ Hi).
  assert (Hg : get_scheme s = SchOk [] s).
  { unfold get_scheme. rewrite <- (app_nil_r s) at 1.
    apply get_scheme_no_colon; [exact (inert_not _ _ inert_colon Hi)|exact I]. }
  rewrite Hg.
  rewrite (last_byte_absent c_qm s (inert_not _ _ inert_qm Hi)). cbn [andb].
  rewrite (cut_at_absent c_qm s (inert_not _ _ inert_qm Hi)).
  cbn [negb andb].
  assert (Hcol : existsb (beqb c_colon) (fst (fst (cut_at c_sl s))) = false).
  { apply existsb_cut_prefix. apply existsb_absent. revert Hi. apply forallb_imp.
    intros b Hb. pose proof (inert_colon _ Hb) as Hc. apply beqb_neq in Hc.
    apply negb_true_iff. apply beqb_neq. intros E. apply Hc. symmetry. exact E. }
  rewrite Hcol, Hs. rewrite andb_false_r. cbn [andb].
  rewrite (url_unescape_no_pct s (inert_not _ _ inert_pct Hi)). reflexivity.
Qed.

(* ------------------------------------------------------------------ httproto *)

Lemma url_parse_x_inert s :
  inert s = true -> starts_with [c_sl; c_sl] s = false -> url_parse_x s = XOk s (Some s) [].
Proof.
  intros Hi Hs. unfold url_parse_x.
  rewrite (cut_at_absent c_hash s (inert_not _ _ inert_hash Hi)).
  cbn [url_unescape].
  assert (Hctl : has_ctl s = false).
  { apply existsb_absent. revert Hi. apply forallb_imp. intros b Hb. rewrite (inert_ctl _ Hb). reflexivity. }
  rewrite Hctl, (inert_not_star _ Hi).
  assert (Hg : get_scheme s = SchOk [] s).
  { unfold get_scheme. rewrite <- (app_nil_r s) at 1.
    apply get_scheme_no_colon; [exact (inert_not _ _ inert_colon Hi)|exact I]. }
  rewrite Hg.
  rewrite (last_byte_absent c_qm s (inert_not _ _ inert_qm Hi)). cbn [andb].
  rewrite (cut_at_absent c_qm s (inert_not _ _ inert_qm Hi)).
  cbn [negb andb].
  assert (Hcol : existsb (beqb c_colon) (fst (fst (cut_at c_sl s))) = false).
  { apply existsb_cut_prefix. apply existsb_absent. revert Hi. apply forallb_imp.
    intros b Hb. pose proof (inert_colon _ Hb) as Hc. apply beqb_neq in Hc.
    apply negb_true_iff. apply beqb_neq. intros E. apply Hc. symmetry. exact E. }
  rewrite Hcol, Hs. rewrite andb_false_r. cbn [andb].
  rewrite (url_unescape_no_pct s (inert_not _ _ inert_pct Hi)). reflexivity.
Qed.

(* url.Parse and its variant that also keeps the raw path agree *)
Lemma url_parse_x_spec raw :
  url_parse raw = match url_parse_x raw with
                  | XErr => UErr | XAuthority => UAuthority | XOk p _ q => UOk p q
                  end.
Proof.
  unfold url_parse, url_parse_x.
  destruct (cut_at c_hash raw) as [[u frag] f].
  destruct (has_ctl u); [reflexivity|].
  destruct (bytes_eqb u [c_star]); [destruct (url_unescape frag); reflexivity|].
  destruct (get_scheme u) as [|scheme rest0]; [reflexivity|].
  destruct (last_byte_is c_qm rest0 && Nat.eqb (count_byte c_qm rest0) 1).
  - repeat match goal with |- context [if ?c then _ else _] => destruct c; try reflexivity end;
      destruct (url_unescape (removelast rest0)); try reflexivity; destruct (url_unescape frag); reflexivity.
  - destruct (cut_at c_qm rest0) as [[a b] fl].
    repeat match goal with |- context [if ?c then _ else _] => destruct c; try reflexivity end;
      destruct (url_unescape a); try reflexivity; destruct (url_unescape frag); reflexivity.
Qed.

Lemma first_field_no_space s :
  forallb (fun b => negb (beqb b c_sp)) s = true -> first_field s = s.
Proof. intros H. unfold first_field. rewrite (cut_at_absent c_sp s H). reflexivity. Qed.

Lemma inert_ascii_only s : inert s = true -> ascii_only s = true.
Proof. apply forallb_imp. exact inert_ascii. Qed.

Lemma plain_byte_no_escape b : wire_plain_byte b = true -> path_should_escape b = false.
Proof. destruct b; vm_compute; intros H; try discriminate H; reflexivity. Qed.

Lemma path_escape_plain s : forallb wire_plain_byte s = true -> path_escape s = s.
Proof.
  induction s as [|b r IH]; intros H; [reflexivity|].
  cbn [forallb] in H. apply andb_true_iff in H. destruct H as [Hb Hr].
  change (path_escape (b :: r)) with (path_escape_byte b ++ path_escape r).
  unfold path_escape_byte. rewrite (plain_byte_no_escape b Hb), (IH Hr). reflexivity.
Qed.

Lemma plain_inert n : forallb wire_plain_byte n = true -> inert n = true.
Proof. apply forallb_imp. exact plain_byte_inert. Qed.

Lemma escaped_path_plain s : forallb wire_plain_byte s = true -> escaped_path s (Some s) = s.
Proof.
  intros H. unfold escaped_path. rewrite (path_escape_plain s H), bytes_eqb_refl.
  rewrite (inert_not_star s (plain_inert s H)). reflexivity.
Qed.

Lemma wire_http_plain s :
  forallb wire_plain_byte s = true -> starts_with [c_sl; c_sl] s = false -> wire_http s = WSeen s.
Proof.
  intros Hp Hs. pose proof (plain_inert s Hp) as Hi. unfold wire_http, wire_http_gen.
  rewrite (inert_ascii_only _ Hi). cbn [negb].
  rewrite (url_parse_x_inert s Hi Hs). cbv beta iota.
  pose proof (escaped_path_plain s Hp) as Ee. unfold bytes in *. rewrite Ee.
  assert (Hlf : existsb (beqb c_lf) s = false).
  { apply existsb_absent. revert Hi. apply forallb_imp. intros b Hb.
    pose proof (inert_lf _ Hb) as Hc. apply beqb_neq in Hc.
    apply negb_true_iff. apply beqb_neq. intros E. apply Hc. symmetry. exact E. }
  rewrite Hlf.
  rewrite (first_field_no_space s (inert_not _ _ inert_sp Hi)).
  rewrite (url_parse_inert s Hi Hs). reflexivity.
Qed.

(* the general statement: the name is read as a URI reference; when its (unescaped) path
   holds nothing that would have to be escaped in a request line and does not read as a
   scheme or an authority, the serving peer sees exactly that path.  The query is written
   raw; it must not bring a control byte or a '#' into the line. *)
Definition target_safe_byte (b : byte) : bool :=
  negb (is_ctl b) && negb (beqb b c_sp) && negb (beqb b c_qm) && negb (beqb b c_hash)
  && negb (beqb b c_pct) && negb (beqb b c_colon).
Definition target_safe (p : bytes) : bool :=
  forallb target_safe_byte p && negb (starts_with [c_sl; c_sl] p).
Definition query_safe (q : bytes) : bool :=
  forallb (fun b => negb (is_ctl b) && negb (beqb b c_hash)) q.

Lemma safe_not (c : byte) s :
  (forall b, target_safe_byte b = true -> beqb b c = false) ->
  forallb target_safe_byte s = true -> forallb (fun b => negb (beqb b c)) s = true.
Proof. intros Hc. apply forallb_imp. intros b Hb. rewrite (Hc b Hb). reflexivity. Qed.

Lemma tsb_split b : target_safe_byte b = true ->
  is_ctl b = false /\ beqb b c_sp = false /\ beqb b c_qm = false /\ beqb b c_hash = false
  /\ beqb b c_pct = false /\ beqb b c_colon = false.
Proof.
  unfold target_safe_byte.
  destruct (is_ctl b), (beqb b c_sp), (beqb b c_qm), (beqb b c_hash), (beqb b c_pct), (beqb b c_colon);
    cbn; intros H; try discriminate H; repeat split; reflexivity.
Qed.

Lemma cut_at_app_hit c a b :
  forallb (fun x => negb (beqb x c)) a = true -> cut_at c (a ++ c :: b) = (a, b, true).
Proof.
  induction a as [|x r IH]; intros H.
  - cbn [app cut_at]. rewrite beqb_refl. reflexivity.
  - cbn [forallb] in H. apply andb_true_iff in H. destruct H as [Hx Hr].
    apply negb_true_iff in Hx. cbn [app cut_at]. rewrite Hx, (IH Hr). reflexivity.
Qed.

Lemma cut_at_fst_app c a b :
  forallb (fun x => negb (beqb x c)) a = true ->
  fst (fst (cut_at c (a ++ b))) = a ++ fst (fst (cut_at c b)).
Proof.
  induction a as [|x r IH]; intros H; [reflexivity|].
  cbn [forallb] in H. apply andb_true_iff in H. destruct H as [Hx Hr].
  apply negb_true_iff in Hx. cbn [app cut_at]. rewrite Hx.
  specialize (IH Hr). destruct (cut_at c (r ++ b)) as [[a1 b1] f1]. cbn [fst] in *.
  rewrite IH. reflexivity.
Qed.

Lemma forallb_cut_fst (f : byte -> bool) c s :
  forallb f s = true -> forallb f (fst (fst (cut_at c s))) = true.
Proof.
  induction s as [|x r IH]; intros H; [reflexivity|].
  cbn [forallb] in H. apply andb_true_iff in H. destruct H as [Hx Hr].
  cbn [cut_at]. destruct (beqb x c); [reflexivity|].
  specialize (IH Hr). destruct (cut_at c r) as [[a b] fl]. cbn [fst forallb] in *.
  rewrite Hx, IH. reflexivity.
Qed.

Lemma last_byte_skip c y z r : last_byte_is c (y :: z :: r) = last_byte_is c (z :: r).
Proof. reflexivity. Qed.

Lemma last_byte_app_cons c a x b : last_byte_is c (a ++ x :: b) = last_byte_is c (x :: b).
Proof.
  induction a as [|y r IH]; [reflexivity|].
  cbn [app]. destruct r as [|z r'].
  - cbn [app]. apply last_byte_skip.
  - cbn [app] in *. rewrite last_byte_skip. exact IH.
Qed.

Lemma count_byte_absent c s :
  forallb (fun x => negb (beqb x c)) s = true -> count_byte c s = O.
Proof.
  induction s as [|x r IH]; intros H; [reflexivity|].
  cbn [forallb] in H. apply andb_true_iff in H. destruct H as [Hx Hr].
  apply negb_true_iff in Hx. cbn [count_byte]. rewrite Hx. apply IH. exact Hr.
Qed.

Lemma count_byte_app c a b : count_byte c (a ++ b) = (count_byte c a + count_byte c b)%nat.
Proof.
  induction a as [|x r IH]; [reflexivity|].
  cbn [app count_byte]. destruct (beqb x c); rewrite IH; reflexivity.
Qed.

Lemma removelast_app_one {A} (a : list A) x : removelast (a ++ [x]) = a.
Proof. rewrite removelast_app by discriminate. cbn. apply app_nil_r. Qed.

Lemma last_byte_snoc c a : last_byte_is c (a ++ [c]) = true.
Proof.
  destruct a as [|x r]; [cbn; apply beqb_refl|].
  change ((x :: r) ++ [c]) with ([] ++ x :: (r ++ [c])).
  revert x. induction r as [|y r IH]; intros x.
  - cbn. apply beqb_refl.
  - cbn [app]. change (last_byte_is c (x :: y :: r ++ [c])) with (last_byte_is c (y :: r ++ [c])).
    apply (IH y).
Qed.

Lemma count_zero_last c s : count_byte c s = O -> last_byte_is c s = false.
Proof.
  induction s as [|x r IH]; intros H; [reflexivity|].
  cbn [count_byte] in H. destruct (beqb x c) eqn:E; [discriminate|].
  destruct r as [|y r']; [cbn [last_byte_is]; exact E|].
  change (last_byte_is c (x :: y :: r')) with (last_byte_is c (y :: r')). apply IH. exact H.
Qed.

Section SecondParse.
  (* local names only; the section has no assumptions *)
  Let nil_scheme (s : bytes) : bool := match s with [] => true | _ => false end.

  Lemma url_parse_tail p qq :
    forallb target_safe_byte p = true -> starts_with [c_sl; c_sl] p = false ->
    (if negb (starts_with [c_sl] p) && negb (nil_scheme [])
     then UOk [] qq
     else if negb (starts_with [c_sl] p) && existsb (beqb c_colon) (fst (fst (cut_at c_sl p))) then UErr
     else if starts_with [c_sl; c_sl] p && (negb (nil_scheme []) || negb (starts_with [c_sl; c_sl; c_sl] p)) then UAuthority
     else match url_unescape p with None => UErr | Some p0 => UOk p0 qq end) = UOk p qq.
  Proof.
    intros Hb Hs. cbn [nil_scheme negb]. rewrite andb_false_r.
    assert (Hcol : forallb (fun b => negb (beqb b c_colon)) p = true)
      by (apply safe_not; [intros b H; apply tsb_split in H; tauto|exact Hb]).
    assert (Hpct : forallb (fun b => negb (beqb b c_pct)) p = true)
      by (apply safe_not; [intros b H; apply tsb_split in H; tauto|exact Hb]).
    assert (Hc2 : existsb (beqb c_colon) (fst (fst (cut_at c_sl p))) = false).
    { apply existsb_cut_prefix. apply existsb_absent. revert Hcol. apply forallb_imp.
      intros b H. apply negb_true_iff in H. apply beqb_neq in H.
      apply negb_true_iff. apply beqb_neq. intros E. apply H. symmetry. exact E. }
    rewrite Hc2, andb_false_r, Hs. cbn [andb]. rewrite (url_unescape_no_pct p Hpct). reflexivity.
  Qed.
End SecondParse.

(* the second url.Parse, no query written *)
Lemma url_parse_safe_path p : target_safe p = true -> url_parse p = UOk p [].
Proof.
  intros Hp. unfold target_safe in Hp. apply andb_true_iff in Hp. destruct Hp as [Hb Hs].
  apply negb_true_iff in Hs.
  assert (Hno : forall c, (forall b, target_safe_byte b = true -> beqb b c = false) ->
                forallb (fun b => negb (beqb b c)) p = true) by (intros; apply safe_not; assumption).
  assert (Hhash : forallb (fun b => negb (beqb b c_hash)) p = true) by (apply Hno; intros b H; apply tsb_split in H; tauto).
  assert (Hqm : forallb (fun b => negb (beqb b c_qm)) p = true) by (apply Hno; intros b H; apply tsb_split in H; tauto).
  assert (Hcol : forallb (fun b => negb (beqb b c_colon)) p = true) by (apply Hno; intros b H; apply tsb_split in H; tauto).
  assert (Hctl : forallb (fun b => negb (is_ctl b)) p = true).
  { revert Hb. apply forallb_imp. intros b H. apply tsb_split in H. destruct H as [H _]. rewrite H. reflexivity. }
  unfold url_parse.
  rewrite (cut_at_absent c_hash p Hhash). cbn [url_unescape].
  rewrite (existsb_absent is_ctl p Hctl : has_ctl p = false).
  destruct (bytes_eqb p [c_star]) eqn:St.
  - apply bytes_eqb_eq in St. subst p. reflexivity.
  - assert (Hg : get_scheme p = SchOk [] p).
    { unfold get_scheme. rewrite <- (app_nil_r p) at 1. apply get_scheme_no_colon; [exact Hcol|exact I]. }
    rewrite Hg, (last_byte_absent c_qm p Hqm). cbn [andb].
    rewrite (cut_at_absent c_qm p Hqm). exact (url_parse_tail p [] Hb Hs).
Qed.

(* the second url.Parse, a query written after the path *)
Lemma url_parse_safe_target p q :
  target_safe p = true -> query_safe q = true ->
  exists q', url_parse (p ++ c_qm :: q) = UOk p q'.
Proof.
  intros Hp Hq. unfold target_safe in Hp. apply andb_true_iff in Hp. destruct Hp as [Hb Hs].
  apply negb_true_iff in Hs.
  assert (Hno : forall c, (forall b, target_safe_byte b = true -> beqb b c = false) ->
                forallb (fun b => negb (beqb b c)) p = true) by (intros; apply safe_not; assumption).
  assert (Hhash : forallb (fun b => negb (beqb b c_hash)) p = true) by (apply Hno; intros b H; apply tsb_split in H; tauto).
  assert (Hqm : forallb (fun b => negb (beqb b c_qm)) p = true) by (apply Hno; intros b H; apply tsb_split in H; tauto).
  assert (Hcol : forallb (fun b => negb (beqb b c_colon)) p = true) by (apply Hno; intros b H; apply tsb_split in H; tauto).
  assert (Hctl : forallb (fun b => negb (is_ctl b)) p = true).
  { revert Hb. apply forallb_imp. intros b H. apply tsb_split in H. destruct H as [H _]. rewrite H. reflexivity. }
  assert (Hqhash : forallb (fun b => negb (beqb b c_hash)) q = true).
  { revert Hq. apply forallb_imp. intros b H. apply andb_true_iff in H. tauto. }
  assert (Hqctl : forallb (fun b => negb (is_ctl b)) q = true).
  { revert Hq. apply forallb_imp. intros b H. apply andb_true_iff in H. tauto. }
  set (t := p ++ c_qm :: q).
  assert (Hth : forallb (fun b => negb (beqb b c_hash)) t = true).
  { unfold t. rewrite forallb_app, Hhash. cbn [forallb andb]. change (negb (beqb c_qm c_hash)) with true. exact Hqhash. }
  assert (Htc : has_ctl t = false).
  { apply existsb_absent. unfold t. rewrite forallb_app, Hctl. cbn [forallb andb].
    change (negb (is_ctl c_qm)) with true. exact Hqctl. }
  assert (Hg : get_scheme t = SchOk [] t).
  { unfold get_scheme, t. apply get_scheme_no_colon; [exact Hcol|]. repeat split; reflexivity. }
  assert (Hstar : bytes_eqb t [c_star] = false).
  { unfold t. destruct p as [|x [|y r]]; cbn [app bytes_eqb]; try reflexivity.
    - destruct q; cbn [bytes_eqb]; apply andb_false_r.
    - apply andb_false_r. }
  unfold url_parse. rewrite (cut_at_absent c_hash t Hth). cbn [url_unescape].
  rewrite Htc, Hstar, Hg.
  destruct (last_byte_is c_qm t && Nat.eqb (count_byte c_qm t) 1) eqn:FQ.
  - (* only one '?', and it is the last byte: the query is empty *)
    apply andb_true_iff in FQ. destruct FQ as [L Cnt]. apply Nat.eqb_eq in Cnt.
    unfold t in Cnt. rewrite count_byte_app, (count_byte_absent c_qm p Hqm) in Cnt.
    cbn [count_byte plus] in Cnt. rewrite beqb_refl in Cnt. injection Cnt as Cnt.
    destruct q as [|q0 qr].
    + exists []. unfold t. rewrite (removelast_app_one p c_qm). exact (url_parse_tail p [] Hb Hs).
    + exfalso. unfold t in L. rewrite last_byte_app_cons in L.
      change (last_byte_is c_qm (c_qm :: q0 :: qr)) with (last_byte_is c_qm (q0 :: qr)) in L.
      rewrite (count_zero_last c_qm (q0 :: qr) Cnt) in L. discriminate.
  - unfold t at 1. rewrite (cut_at_app_hit c_qm p q Hqm).
    exists q. exact (url_parse_tail p q Hb Hs).
Qed.

Lemma first_field_app a b :
  forallb (fun x => negb (beqb x c_sp)) a = true -> first_field (a ++ b) = a ++ first_field b.
Proof. intros H. unfold first_field. apply cut_at_fst_app. exact H. Qed.

Lemma first_field_cons x b : beqb x c_sp = false -> first_field (x :: b) = x :: first_field b.
Proof. intros H. apply (first_field_app [x] b). cbn [forallb]. rewrite H. reflexivity. Qed.

(* httproto carries the URI path of the caller's string, when what packRequest writes for
   it ([written p rp]) is that path itself and the path is safe; used for the code before the
   repair ([written] = the path) and after it (EscapedPath, when it leaves the path as it is) *)
Lemma wire_http_gen_uri_path written n p rp q :
  ascii_only n = true -> url_parse_x n = XOk p rp q -> written p rp = p ->
  target_safe p = true -> query_safe q = true ->
  wire_http_gen written (fun x => x) n = WSeen p.
Proof.
  intros Ha Hu He Hp Hq. unfold wire_http_gen. rewrite Ha, Hu. cbv beta iota. unfold bytes in *. rewrite He. cbn [negb].
  pose proof Hp as Hp'. unfold target_safe in Hp'. apply andb_true_iff in Hp'. destruct Hp' as [Hb _].
  assert (Hsp : forallb (fun b => negb (beqb b c_sp)) p = true)
    by (apply safe_not; [intros b H; apply tsb_split in H; tauto|exact Hb]).
  assert (Hplf : forallb (fun b => negb (beqb c_lf b)) p = true).
  { revert Hb. apply forallb_imp. intros b H. apply tsb_split in H. destruct H as [H _].
    apply negb_true_iff. apply beqb_neq. intros E. subst b. discriminate H. }
  assert (Hqlf : forallb (fun b => negb (beqb c_lf b)) q = true).
  { revert Hq. apply forallb_imp. intros b H. apply andb_true_iff in H. destruct H as [H _].
    apply negb_true_iff in H. apply negb_true_iff. apply beqb_neq. intros E. subst b. discriminate H. }
  destruct q as [|q0 qr].
  - rewrite (existsb_absent (beqb c_lf) p Hplf).
    rewrite (first_field_no_space p Hsp), (url_parse_safe_path p Hp). reflexivity.
  - assert (Hlf : existsb (beqb c_lf) (p ++ c_qm :: q0 :: qr) = false).
    { apply existsb_absent. rewrite forallb_app, Hplf. cbn [forallb andb] in *.
      change (negb (beqb c_lf c_qm)) with true. exact Hqlf. }
    rewrite Hlf, (first_field_app p _ Hsp), (first_field_cons c_qm (q0 :: qr) eq_refl).
    assert (Hq' : query_safe (first_field (q0 :: qr)) = true) by (apply forallb_cut_fst; exact Hq).
    destruct (url_parse_safe_target p (first_field (q0 :: qr)) Hp Hq') as [q' E].
    rewrite E. reflexivity.
Qed.

(* ------------------------------------------------------------------ all protocols *)

Lemma wire_plain_split n :
  wire_plain n = true ->
  forallb wire_plain_byte n = true /\ (length n <=? 255)%nat = true /\ starts_with [c_sl; c_sl] n = false.
Proof.
  unfold wire_plain. intros H. apply andb_true_iff in H. destruct H as [H S].
  apply andb_true_iff in H. destruct H as [P L]. apply negb_true_iff in S. tauto.
Qed.

(* every shipped protocol carries a plain name unchanged (httproto: as a CALL) *)
Lemma wire_plain_exact p s n :
  wire_plain n = true -> (p = PHttp -> s = CALL) -> wire p s n = WSeen n.
Proof.
  intros H Hs. destruct (wire_plain_split n H) as (P & L & S).
  pose proof (plain_inert n P) as I.
  destruct p; cbn [wire].
  - rewrite L. reflexivity.
  - apply wire_json_exact.
  - rewrite (inert_ascii_only n I). reflexivity.
  - reflexivity.
  - rewrite (Hs eq_refl). apply wire_http_plain; assumption.
  - apply wire_json_exact.
  - reflexivity.
Qed.

(* outside httproto the name that arrives is the name asked for, whatever its bytes *)
Lemma wire_seen_same p s n n' :
  p <> PHttp -> wire p s n = WSeen n' -> n' = n.
Proof.
  intros Hp H.
  destruct p; cbn [wire] in H; try (exfalso; apply Hp; reflexivity).
  - destruct (length n <=? 255)%nat; [|discriminate]. injection H as H. symmetry. exact H.
  - rewrite wire_json_exact in H. injection H as H. symmetry. exact H.
  - destruct (ascii_only n); [|discriminate]. injection H as H. symmetry. exact H.
  - injection H as H. symmetry. exact H.
  - rewrite wire_json_exact in H. injection H as H. symmetry. exact H.
  - injection H as H. symmetry. exact H.
Qed.

Lemma wire_http_push_refused n : wire PHttp PUSH n = WRefused.
Proof. reflexivity. Qed.

(* ------------------------------------------------------------------ wire, then lookup *)

(* a plain name, asked for over any protocol, runs exactly the handler registered under it *)
Lemma dispatch_wire_plain_exact k ops r lg p s n h :
  run k init ops = Ok (r, lg) ->
  wire_plain n = true -> (p = PHttp -> s = CALL) -> n <> [] ->
  (dispatch_wire p r s n = WDispatched (DRun h false) <-> In (s, h, n) (returned_log k ops)).
Proof.
  intros H P Hs Hn. unfold dispatch_wire. rewrite (wire_plain_exact p s n P Hs).
  rewrite <- (dispatch_exact_lemma k ops r lg H s n h Hn).
  split; intros E; [injection E as E; exact E|rewrite E; reflexivity].
Qed.

(* whatever was asked for: a registered handler runs only when the name that ARRIVED is one
   its registration returned *)
Lemma dispatch_wire_only_under k ops r lg p s n h :
  run k init ops = Ok (r, lg) ->
  dispatch_wire p r s n = WDispatched (DRun h false) ->
  exists n', wire p s n = WSeen n' /\ In (s, h, n') (returned_log k ops).
Proof.
  intros H D. unfold dispatch_wire in D. destruct (wire p s n) as [n'| | |] eqn:W; try discriminate D.
  exists n'. split; [reflexivity|]. injection D as D.
  assert (Hn : n' <> []) by (intros E; subst n'; discriminate D).
  apply (dispatch_exact_lemma k ops r lg H s n' h Hn). exact D.
Qed.

(* every protocol but httproto: the name that arrives is the name asked for, whatever its
   bytes - the handler runs only under a name its registration returned *)
Lemma dispatch_wire_transparent k ops r lg p s n h :
  run k init ops = Ok (r, lg) ->
  p <> PHttp ->
  dispatch_wire p r s n = WDispatched (DRun h false) -> In (s, h, n) (returned_log k ops).
Proof.
  intros H P1 D. destruct (dispatch_wire_only_under k ops r lg p s n h H D) as (n' & W & I).
  rewrite <- (wire_seen_same p s n n' P1 W). exact I.
Qed.

(* nothing arrives: nothing runs *)
Lemma dispatch_wire_not_delivered p r s n :
  wire p s n = WRefused \/ wire p s n = WBroken -> dispatch_wire p r s n = WNotDelivered.
Proof. unfold dispatch_wire. intros [E|E]; rewrite E; reflexivity. Qed.

(* ------------------------------------------------------------------ witnesses *)

Definition wx_ops : list op := [OReg CALL [] (IFunc (str "Test") (str "h"))].

Ltac not_in_log := let h' := fresh in let E := fresh in
  intros h' E; vm_compute in E; destruct E as [E|[]]; discriminate E.

(* json BEFORE the repair: a control byte after a registered name was cut off with everything
   behind it; now the name arrives whole and is Not Found *)
Lemma json_name_truncated_prefix :
  exists ops r lg h n,
    run MHTTP init ops = Ok (r, lg) /\ ascii_only n = true /\
    (forall h', ~ In (CALL, h', n) (returned_log MHTTP ops)) /\
    dispatch r CALL n = DNotFound /\
    dispatch_wire_prefix PJson r CALL n = WDispatched (DRun h false) /\
    dispatch_wire_prefix PWsJson r CALL n = WDispatched (DRun h false) /\
    dispatch_wire PJson r CALL n = WDispatched DNotFound /\
    dispatch_wire PWsJson r CALL n = WDispatched DNotFound.
Proof.
  exists wx_ops. eexists. eexists. exists (str "h"). exists (str "/test" ++ [x00]).
  split; [vm_compute; reflexivity|]. split; [vm_compute; reflexivity|].
  split; [not_in_log|]. repeat split; vm_compute; reflexivity.
Qed.

(* httproto BEFORE the repair: the path was written unescaped, so an escaped '?' (or '#',
   blank, '%') in the name asked for became a delimiter on the way; now the path arrives *)
Lemma http_target_not_escaped_prefix :
  exists ops r lg h n path q,
    run MHTTP init ops = Ok (r, lg) /\ ascii_only n = true /\ url_parse n = UOk path q /\
    (forall h', ~ In (CALL, h', path) (returned_log MHTTP ops)) /\
    dispatch r CALL path = DNotFound /\
    dispatch_wire_prefix PHttp r CALL n = WDispatched (DRun h false) /\
    wire PHttp CALL n = WSeen path /\ dispatch_wire PHttp r CALL n = WDispatched DNotFound.
Proof.
  exists wx_ops. eexists. eexists. exists (str "h"). exists (str "/test%3fx"). exists (str "/test?x"). exists [].
  split; [vm_compute; reflexivity|]. split; [vm_compute; reflexivity|].
  split; [vm_compute; reflexivity|].
  split; [not_in_log|]. repeat split; vm_compute; reflexivity.
Qed.

(* ... and a decoded '%' that no longer starts an escape ended the session *)
Lemma http_target_breaks_session_prefix :
  url_parse (str "/test%25") = UOk (str "/test%") [] /\
  wire_prefix PHttp CALL (str "/test%25") = WBroken /\
  wire PHttp CALL (str "/test%25") = WSeen (str "/test%").
Proof. repeat split; vm_compute; reflexivity. Qed.

(* the inputs recorded with the finding, on the repaired code: the URI path arrives *)
Lemma http_repaired_inputs :
  Forall (fun np => url_parse (fst np) = UOk (snd np) [] /\ wire PHttp CALL (fst np) = WSeen (snd np))
    [(str "/test%3fx", str "/test?x"); (str "/test%23x", str "/test#x"); (str "/test%20x", str "/test x");
     (str "/%2574est", str "/%74est"); (str "/test%25", str "/test%"); (str "/test x", str "/test x");
     (str "/test%0d%0aX-Y: z", str "/test" ++ [n2b 13; n2b 10] ++ str "X-Y: z")].
Proof. repeat constructor; vm_compute; reflexivity. Qed.

(* what is left (finding http-target-not-escaped, narrowed): when the caller's raw path is not
   a valid encoding, EscapedPath falls back to the default escaping of the path, which leaves
   a ':' in a rootless first segment (and a leading "//") raw; the receiver reads a scheme
   (an authority).  "a%3ab c" asks for the path "a:b c"; the empty name is looked up. *)
Lemma http_escaped_path_residue :
  url_parse (str "a%3ab c") = UOk (str "a:b c") [] /\
  wire PHttp CALL (str "a%3ab c") = WSeen [] /\
  (forall r, dispatch_wire PHttp r CALL (str "a%3ab c") = WDispatched DBadMessage) /\
  wire PHttp CALL (str "a%3ab") = WSeen (str "a:b") /\
  wire PHttp CALL (str "%2f/a b") = WOutside.
Proof. repeat split; vm_compute; reflexivity. Qed.

(* a receiver that cleans the path it read: names no registration returned run the handler *)
Definition dispatch_wire_cleaning (r : router) (n : bytes) : wire_dispatch :=
  match wire_http_cleaning n with
  | WSeen n' => WDispatched (dispatch r CALL n')
  | WRefused | WBroken => WNotDelivered
  | WOutside => WUnmodelled
  end.

Lemma http_cleaning_receiver_refuted :
  exists ops r lg h,
    run MHTTP init ops = Ok (r, lg) /\
    Forall (fun n => wire_plain n = true /\
                     (forall h', ~ In (CALL, h', n) (returned_log MHTTP ops)) /\
                     dispatch_wire PHttp r CALL n = WDispatched DNotFound /\
                     dispatch_wire_cleaning r n = WDispatched (DRun h false))
           [str "/test/"; str "/./test"; str "/x/../test"; str "/test/."].
Proof.
  exists wx_ops. eexists. eexists. exists (str "h").
  split; [vm_compute; reflexivity|].
  repeat constructor; try (vm_compute; reflexivity); not_in_log.
Qed.

(* "//test" is plain but for the leading "//": the guard of wire_plain is needed (the name
   reads as an authority) *)
Lemma http_double_slash_outside :
  wire PHttp CALL (str "//test") = WOutside /\ wire PRaw CALL (str "//test") = WSeen (str "//test").
Proof. split; vm_compute; reflexivity. Qed.

(* satisfiability of the hypotheses of wire_http_uri_path: the README's request *)
Lemma http_uri_example :
  let n := str "/home/test?peer_id=110" in
  ascii_only n = true /\ url_parse n = UOk (str "/home/test") (str "peer_id=110") /\
  target_safe (str "/home/test") = true /\ query_safe (str "peer_id=110") = true /\
  wire PHttp CALL n = WSeen (str "/home/test") /\
  wire PHttp CALL (str "http://localhost:9090/home/test?peer_id=110") = WOutside.
Proof. repeat split; vm_compute; reflexivity. Qed.

(* ------------------------------------------------------------------ names the HTTP mapper returns are plain *)
From Verif Require Import Proofs.MapperProofs.

Lemma to_lower_aus b : is_alnum_us_sl b = true -> is_alnum_us_sl (to_lower b) = true.
Proof. destruct b; vm_compute; intros H; try discriminate H; reflexivity. Qed.

Lemma aus_in s c : plain_prefix s = true -> In c s -> is_alnum_us_sl c = true.
Proof. unfold plain_prefix. rewrite forallb_forall. intros H I. exact (H c I). Qed.

Lemma tsm_http_aus name c :
  plain_prefix name = true -> In c (to_service_methods name c_sl true) -> is_alnum_us_sl c = true.
Proof.
  intros Hn H. unfold to_service_methods in H.
  apply (replace2_chars _ _ _ _ _ (le_n _)) in H. destruct H as [H|[H|[]]]; [|subst c; reflexivity].
  apply (replace2_chars _ _ _ _ _ (le_n _)) in H. destruct H as [H|[H|[]]]; [|subst c; reflexivity].
  unfold snake_string in H. apply in_map_iff in H. destruct H as (d & Hd & Hin). subst c.
  apply to_lower_aus. apply snake_loop_chars in Hin. destruct Hin as [Hin|Hin]; [|subst d; reflexivity].
  apply tsm_loop_chars in Hin. destruct Hin as [Hin|[[]|Hin]]; [exact (aus_in _ _ Hn Hin)|subst d; reflexivity].
Qed.

Lemma join_with_chars sep l c :
  In c (join_with sep l) -> c = sep \/ exists seg, In seg l /\ In c seg.
Proof.
  induction l as [|x r IH]; intros H; [destruct H|].
  destruct r as [|y r'].
  - cbn [join_with] in H. right. exists x. split; [left; reflexivity|exact H].
  - change (join_with sep (x :: y :: r')) with (x ++ sep :: join_with sep (y :: r')) in H.
    apply in_app_iff in H. destruct H as [H|[H|H]].
    + right. exists x. split; [left; reflexivity|exact H].
    + left. symmetry. exact H.
    + destruct (IH H) as [E|(seg & Hs & Hc)]; [left; exact E|].
      right. exists seg. split; [right; exact Hs|exact Hc].
Qed.

Lemma http_mapper_aus prefix name :
  plain_prefix prefix = true -> plain_prefix name = true ->
  plain_prefix (http_mapper prefix name) = true.
Proof.
  intros Hp Hn.
  rewrite (http_mapper_plain prefix name (plain_prefix_no_dot _ Hp) (plain_prefix_no_dot _ Hn)).
  unfold plain_prefix. apply forallb_forall. intros c [Hc|Hc]; [subst c; reflexivity|].
  apply join_with_chars in Hc. destruct Hc as [Hc|(seg & Hs & Hc)]; [subst c; reflexivity|].
  apply filter_In in Hs. destruct Hs as [Hs _].
  destruct (split_on_chars _ _ _ _ _ Hs Hc) as [[]|H].
  apply in_app_iff in H. destruct H as [H|[H|H]].
  - exact (aus_in _ _ Hp H).
  - subst c. reflexivity.
  - exact (tsm_http_aus name c Hn H).
Qed.

Lemma http_mapper_single_slash prefix name :
  starts_with [c_sl; c_sl] (http_mapper prefix name) = false.
Proof.
  destruct (http_mapper_segments prefix name) as [E G]. rewrite E.
  pose proof (http_segments_no_slash prefix name) as NS.
  destruct (http_segments prefix name) as [|s1 rest]; [reflexivity|].
  inversion G as [|? ? G1 _]; subst. inversion NS as [|? ? N1 _]; subst.
  destruct s1 as [|c t]; [destruct G1 as [G1 _]; contradiction|].
  assert (Hc : beqb c c_sl = false).
  { apply beqb_neq. intros X. subst c. apply N1. left. reflexivity. }
  assert (Hgoal : forall tl, starts_with [c_sl; c_sl] (c_sl :: c :: tl) = false).
  { intros tl. unfold starts_with. cbn [length firstn bytes_eqb].
    change (Byte.eqb c c_sl) with (beqb c c_sl). rewrite Hc. rewrite andb_false_r. reflexivity. }
  destruct rest as [|s2 rest']; cbn [join_with app]; apply Hgoal.
Qed.

Definition plain_item (it : item) : bool :=
  match it with
  | IStruct sn ms => plain_prefix sn && forallb (fun mh => plain_prefix (fst mh)) ms
  | IFunc f _ => plain_prefix f
  end.
Definition plain_op (o : op) : bool :=
  match o with
  | OReg _ g it => forallb plain_prefix g && plain_item it
  | OSetUnknown _ _ _ => true
  end.

Lemma group_prefix_aus g : forallb plain_prefix g = true -> plain_prefix (group_prefix MHTTP g) = true.
Proof.
  unfold group_prefix. cbn [mapper].
  assert (H0 : plain_prefix (http_mapper [] []) = true) by (vm_compute; reflexivity).
  revert H0. generalize (http_mapper [] []). induction g as [|x r IH]; intros p0 H0 H; [exact H0|].
  cbn [forallb] in H. apply andb_true_iff in H. destruct H as [Hx Hr].
  cbn [fold_left]. apply IH; [apply http_mapper_aus; assumption|exact Hr].
Qed.

Lemma http_handler_names_plain g it n h :
  forallb plain_prefix g = true -> plain_item it = true ->
  In (n, h) (handlers_of MHTTP (group_prefix MHTTP g) it) ->
  plain_prefix n = true /\ starts_with [c_sl; c_sl] n = false.
Proof.
  intros Hg Hit Hin. pose proof (group_prefix_aus g Hg) as Hp.
  destruct it as [sn ms|f x]; cbn [handlers_of plain_item mapper] in *.
  - apply andb_true_iff in Hit. destruct Hit as [Hsn Hms].
    apply in_map_iff in Hin. destruct Hin as (mh & E & Hmh). inversion E; subst.
    rewrite forallb_forall in Hms. split; [|apply http_mapper_single_slash].
    apply http_mapper_aus; [apply http_mapper_aus; assumption|exact (Hms mh Hmh)].
  - destruct Hin as [E|[]]. inversion E; subst.
    split; [apply http_mapper_aus; assumption|apply http_mapper_single_slash].
Qed.

Lemma aus_wire_plain_byte b : is_alnum_us_sl b = true -> wire_plain_byte b = true.
Proof. unfold wire_plain_byte. intros H. rewrite H. reflexivity. Qed.

(* every name the default (HTTP) mapper returns for identifiers and group names over
   [A-Za-z0-9_/], requested over any wire protocol, runs its handler *)
Lemma http_returned_names_reachable_over_wire ops r lg p s n h :
  run MHTTP init ops = Ok (r, lg) -> forallb plain_op ops = true ->
  In (s, h, n) (returned_log MHTTP ops) -> (length n <= 255)%nat -> (p = PHttp -> s = CALL) ->
  wire p s n = WSeen n /\ dispatch_wire p r s n = WDispatched (DRun h false).
Proof.
  intros H Hops Hin Hlen Hs.
  pose proof (http_names_nonempty ops s h n Hin) as Hne.
  pose proof Hin as Hin'. apply in_returned_log in Hin'. destruct Hin' as (g & it & Ho & Hh).
  rewrite forallb_forall in Hops. specialize (Hops _ Ho). cbn [plain_op] in Hops.
  apply andb_true_iff in Hops. destruct Hops as [Hg Hit].
  destruct (http_handler_names_plain g it n h Hg Hit Hh) as [Hp Hss].
  assert (W : wire_plain n = true).
  { unfold wire_plain. rewrite Hss. cbn [negb]. rewrite andb_true_r. apply andb_true_iff. split.
    - revert Hp. apply forallb_imp. exact aus_wire_plain_byte.
    - apply Nat.leb_le. exact Hlen. }
  split; [exact (wire_plain_exact p s n W Hs)|].
  apply (dispatch_wire_plain_exact MHTTP ops r lg p s n h H W Hs Hne). exact Hin.
Qed.
