(* Round-trip lemmas for the strconv model: parse (format x) = x within the type's range. *)
From Coq Require Import Strings.String Strings.Byte.
From Coq Require Import List Arith NArith ZArith Bool Lia.
From Coq Require Import Decimal DecimalN DecimalPos.
From Verif Require Import Base.Bytes Model.Strconv.
Import ListNotations.

Lemma uint_of_bytes_of_uint d : uint_of_bytes (bytes_of_uint d) = Some d.
Proof.
  induction d; cbn [bytes_of_uint uint_of_bytes]; try reflexivity;
    rewrite IHd; reflexivity.
Qed.

Lemma to_uint_nonnil n : N.to_uint n <> Nil.
Proof.
  destruct n as [|p]; cbn [N.to_uint].
  - discriminate.
  - apply Unsigned.to_uint_nonnil.
Qed.

(* a non-empty digit string starts with a digit, in particular not with a sign *)
Lemma bytes_of_uint_head d :
  d <> Nil -> exists b r, bytes_of_uint d = b :: r /\ beqb b "-"%byte = false /\ beqb b "+"%byte = false.
Proof.
  destruct d; intros H; try congruence; cbn [bytes_of_uint]; eexists; eexists; repeat split.
Qed.

Lemma format_uint_head n :
  exists b r, format_uint n = b :: r /\ beqb b "-"%byte = false /\ beqb b "+"%byte = false.
Proof. apply bytes_of_uint_head, to_uint_nonnil. Qed.

Lemma parse_digits_format n : parse_digits (format_uint n) = Some n.
Proof.
  unfold parse_digits. destruct (format_uint_head n) as (b & r & E & _).
  rewrite E, <- E. unfold format_uint. rewrite uint_of_bytes_of_uint. cbn [option_map].
  rewrite DecimalN.Unsigned.of_to. reflexivity.
Qed.

Lemma parse_uint_format bitsz n : (n < 2 ^ bitsz)%N -> parse_uint bitsz (format_uint n) = Some n.
Proof.
  intros H. unfold parse_uint. rewrite parse_digits_format.
  apply N.ltb_lt in H. rewrite H. reflexivity.
Qed.

Lemma parse_int_format bitsz z :
  (- Z.of_N (2 ^ (bitsz - 1)) <= z < Z.of_N (2 ^ (bitsz - 1)))%Z ->
  parse_int bitsz (format_int z) = Some z.
Proof.
  intros [Hlo Hhi]. unfold format_int. destruct (z <? 0)%Z eqn:Hz.
  - apply Z.ltb_lt in Hz. cbn [parse_int]. rewrite beqb_refl. rewrite parse_digits_format.
    replace (Z.to_N (- z) <=? 2 ^ (bitsz - 1))%N with true by (symmetry; apply N.leb_le; lia).
    f_equal. lia.
  - apply Z.ltb_ge in Hz. destruct (format_uint_head (Z.to_N z)) as (b & r & E & Hm & Hp).
    rewrite E. cbn [parse_int]. rewrite Hm, Hp, <- E, parse_digits_format.
    replace (Z.to_N z <? 2 ^ (bitsz - 1))%N with true by (symmetry; apply N.ltb_lt; lia).
    f_equal. lia.
Qed.

Lemma parse_bool_format b : parse_bool (format_bool b) = Some b.
Proof. destruct b; vm_compute; reflexivity. Qed.

(* ---- widths ---- *)
Lemma int_in_range_spec w z :
  int_in_range w z = true <-> (- Z.of_N (2 ^ (bits w - 1)) <= z < Z.of_N (2 ^ (bits w - 1)))%Z.
Proof.
  unfold int_in_range. rewrite andb_true_iff, Z.leb_le, Z.ltb_lt. reflexivity.
Qed.

Lemma uint_in_range_spec w n : uint_in_range w n = true <-> (n < 2 ^ bits w)%N.
Proof. unfold uint_in_range. apply N.ltb_lt. Qed.

Lemma pow_bits_le w : (2 ^ (bits w - 1) <= 2 ^ (64 - 1))%N /\ (2 ^ bits w <= 2 ^ 64)%N.
Proof. destruct w; vm_compute; split; discriminate. Qed.

Lemma int_in_range_64 w z :
  int_in_range w z = true -> (- Z.of_N (2 ^ (64 - 1)) <= z < Z.of_N (2 ^ (64 - 1)))%Z.
Proof.
  rewrite int_in_range_spec. destruct (pow_bits_le w) as [H _]. lia.
Qed.

Lemma uint_in_range_64 w n : uint_in_range w n = true -> (n < 2 ^ 64)%N.
Proof.
  rewrite uint_in_range_spec. destruct (pow_bits_le w) as [_ H]. lia.
Qed.

Lemma pow_bits_double w : (2 ^ bits w = 2 * 2 ^ (bits w - 1))%N.
Proof. destruct w; vm_compute; reflexivity. Qed.

(* SetInt/SetUint do not alter a value that already fits the field *)
Lemma wrap_int_id w z : int_in_range w z = true -> wrap_int w z = z.
Proof.
  rewrite int_in_range_spec. intros H. unfold wrap_int. rewrite pow_bits_double.
  set (h := (2 ^ (bits w - 1))%N) in *.
  rewrite Z.mod_small by lia. lia.
Qed.

Lemma wrap_uint_id w n : uint_in_range w n = true -> wrap_uint w n = n.
Proof.
  rewrite uint_in_range_spec. intros H. unfold wrap_uint. apply N.mod_small. exact H.
Qed.

(* the stored value is always within the field's range, whatever was parsed *)
Lemma wrap_int_range w z : int_in_range w (wrap_int w z) = true.
Proof.
  rewrite int_in_range_spec. unfold wrap_int. rewrite pow_bits_double.
  set (h := (2 ^ (bits w - 1))%N).
  assert (0 < Z.of_N h)%Z.
  { subst h. destruct w; vm_compute; reflexivity. }
  pose proof (Z.mod_pos_bound (z + Z.of_N h) (Z.of_N (2 * h))). lia.
Qed.

Lemma wrap_uint_range w n : uint_in_range w (wrap_uint w n) = true.
Proof.
  rewrite uint_in_range_spec. unfold wrap_uint. apply N.mod_lt.
  destruct w; vm_compute; discriminate.
Qed.
