(* Lemmas about the hook runners and the peer histories with hook outcomes (Model/AcceptHooks.v). *)
From Coq Require Import Strings.String Strings.Byte.
From Coq Require Import List Arith NArith ZArith Bool Lia.
From Verif Require Import Model.Lifecycle Model.CallLife Model.Graceful Model.AcceptHooks
  Proofs.LifecycleProofs Proofs.PeerProofs Proofs.C07Lemmas.
Import ListNotations.

(* ---- the runner ---- *)
Lemma run_hooks_verdict pc outs : pc <> 0%Z -> verdict true pc outs = forallb hout_ok outs.
Proof.
  intros Hpc. unfold verdict, hooks_code. induction outs as [|o r IH]; [reflexivity|].
  cbn [run_hooks forallb]. destruct o as [|c|].
  - destruct (run_hooks true pc r) as [c n]. cbn in *. exact IH.
  - cbn [hout_ok]. destruct (Z.eqb c 0) eqn:E.
    + destruct (run_hooks true pc r) as [c' n]. cbn in *. exact IH.
    + cbn. exact E.
  - cbn. apply Z.eqb_neq. exact Hpc.
Qed.

Lemma verdict_iff pc outs : pc <> 0%Z ->
  (verdict true pc outs = true <-> Forall (fun o => hout_ok o = true) outs).
Proof.
  intros Hpc. rewrite (run_hooks_verdict pc outs Hpc). rewrite forallb_forall, Forall_forall. tauto.
Qed.

(* every plugin is called when all of them agree *)
Lemma ran_all pc outs : forallb hout_ok outs = true -> hooks_ran true pc outs = length outs.
Proof.
  unfold hooks_ran. induction outs as [|o r IH]; [reflexivity|]. cbn [forallb run_hooks length].
  intros H. apply andb_prop in H. destruct H as (Ho & Hr). specialize (IH Hr). destruct o as [|c|]; cbn in Ho.
  - destruct (run_hooks true pc r) as [c n]. cbn in *. congruence.
  - rewrite Ho. destruct (run_hooks true pc r) as [c' n]. cbn in *. congruence.
  - discriminate.
Qed.

(* the first plugin that does not agree decides: nothing after it is called, and its status
   (the recover()'s status for a panic) is what the runner returns *)
Lemma first_failure pc outs : forallb hout_ok outs = false ->
  exists pre o post, outs = pre ++ o :: post /\ forallb hout_ok pre = true /\ hout_ok o = false /\
    hooks_ran true pc outs = S (length pre) /\
    hooks_code true pc outs = match o with HkStat c => c | _ => pc end.
Proof.
  unfold hooks_ran, hooks_code. induction outs as [|o r IH]; [discriminate|]. cbn [forallb].
  destruct (hout_ok o) eqn:Eo; cbn [andb]; intros H.
  - destruct (IH H) as (pre & o' & post & E & Hp & Ho & Hn & Hc). exists (o :: pre), o', post.
    subst r. cbn [app forallb length run_hooks]. rewrite Eo, Hp. repeat split; auto.
    + destruct o as [|c|]; cbn in Eo; try discriminate; try rewrite Eo;
        destruct (run_hooks true pc (pre ++ o' :: post)) as [c' n]; cbn in *; congruence.
    + destruct o as [|c|]; cbn in Eo; try discriminate; try rewrite Eo;
        destruct (run_hooks true pc (pre ++ o' :: post)) as [c' n]; cbn in *; congruence.
  - exists [], o, r. cbn [app forallb length run_hooks]. repeat split; auto.
    + destruct o as [|c|]; cbn in Eo; try discriminate; [rewrite Eo|]; reflexivity.
    + destruct o as [|c|]; cbn in Eo; try discriminate; [rewrite Eo|]; reflexivity.
Qed.

Lemma ran_prefix_ok pc outs : pc <> 0%Z -> verdict true pc outs = true ->
  firstn (hooks_ran true pc outs) outs = outs /\ forallb hout_ok outs = true.
Proof.
  intros Hpc H. rewrite (run_hooks_verdict pc outs Hpc) in H. split; auto.
  rewrite (ran_all pc outs H). apply firstn_all.
Qed.

(* ---- the ghost [estab] of a session is fixed at its creation ---- *)
Lemma estab_step s e s' fx : sstep s e = Some (s', fx) -> estab s' = estab s.
Proof.
  intros H. unfold sstep, sstep_cfg in H. destruct e.
  - destruct (conn s); inversion H; subst; reflexivity.
  - unfold noeff, frame_step in H. destruct (rd s); try discriminate.
    destruct f; inversion H; subst; reflexivity.
  - unfold noeff, close_call in H. destruct (cl s); try discriminate. inversion H; subst; reflexivity.
  - inversion H; subst; reflexivity.
  - inversion H; subst; reflexivity.
  - unfold closer_step, notify in H. destruct (cl s); try discriminate;
      try destruct (ctxWG s); try destruct (callWG s); try destruct (notified s);
      try (inversion H; subst; reflexivity).
    all: destruct (st s); inversion H; subst; reflexivity.
  - destruct (rd s) eqn:Erd; try (unfold reader_step in H; rewrite Erd in H; discriminate).
    all: try (destruct (reader_step_pre _ _ _ _ H) as ((_ & _ & _ & _ & E & _) & _); [rewrite Erd; exact I|]; exact E).
    all: unfold reader_step, notify in H; rewrite Erd in H.
    + inversion H; subst; reflexivity.
    + destruct seen; cbn [fix_cas fixed] in H; try destruct (status_eqb (st s) _); inversion H; subst; reflexivity.
    + inversion H; subst; reflexivity.
    + destruct (ctxWG s); inversion H; subst; reflexivity.
    + destruct (all_visited (calls s)); inversion H; subst; reflexivity.
    + destruct seen; inversion H; subst; reflexivity.
    + inversion H; subst; reflexivity.
    + cbn in H. destruct (notified s); inversion H; subst; reflexivity.
    + destruct (all_visited (calls s)); inversion H; subst; reflexivity.
  - unfold noeff in H. destruct (visit_step s i) eqn:E; inversion H; subst. apply (visit_step_ctrl _ _ _ E).
  - unfold noeff in H. destruct (caller_step s i veto wr) eqn:E; inversion H; subst. apply (caller_step_ctrl _ _ _ _ _ E).
  - unfold noeff in H. destruct (reply_step s i) eqn:E; inversion H; subst. apply (reply_step_ctrl _ _ _ E).
  - unfold noeff in H. destruct (handler_step s j veto wr) eqn:E; inversion H; subst. apply (handler_step_ctrl _ _ _ _ _ E).
  - unfold noeff in H. destruct (hwait_step s j i) eqn:E; inversion H; subst. apply (hwait_step_ctrl _ _ _ _ E).
Qed.

(* lists of sessions that agree, position by position, on [estab] *)
Definition erel (a b : list sess) : Prop := Forall2 (fun x y => estab y = estab x) a b.

Lemma erel_refl a : erel a a.
Proof. induction a; constructor; auto. Qed.

Lemma erel_trans a b c : erel a b -> erel b c -> erel a c.
Proof.
  intros H. revert c. induction H; intros c Hc; inversion Hc; subst; constructor.
  - congruence.
  - apply IHForall2. assumption.
Qed.

Lemma erel_nth a b n x : erel a b -> nth_error a n = Some x ->
  exists y, nth_error b n = Some y /\ estab y = estab x.
Proof.
  intros H. revert n. induction H; intros n Hn; destruct n; cbn in *; try discriminate.
  - inversion Hn; subst. eauto.
  - apply IHForall2. assumption.
Qed.

Lemma erel_length a b : erel a b -> length b = length a.
Proof. intros H. induction H; cbn; congruence. Qed.

Lemma ss_rel_erel a b : ss_rel a b -> erel a b.
Proof.
  intros H. induction H; constructor; auto.
  destruct H as [->|(_ & ->)]; reflexivity.
Qed.

Lemma erel_upd a n x y : nth_error a n = Some x -> estab y = estab x -> erel a (upd a n y).
Proof.
  revert n. induction a as [|z r IH]; intros n Hn He; destruct n; cbn in *; try discriminate.
  - inversion Hn; subst. constructor; [assumption|apply erel_refl].
  - constructor; [reflexivity|]. apply IH; assumption.
Qed.

(* what a peer event does to the list of sessions, as far as [estab] goes *)
Lemma pstep_sessions p e p' : pstep p e = Some p' ->
  match e with
  | PAccept _ ok | PDial _ ok => exists x, estab x = ok /\ erel (sessions p ++ [x]) (sessions p')
  | _ => erel (sessions p) (sessions p')
  end.
Proof.
  intros H. unfold pstep, pstep_cfg in H. destruct e.
  - destruct ok; inversion H; subst; clear H.
    + eexists. split; [|apply ss_rel_erel, hub_set_rel]. reflexivity.
    + eexists. split; [|apply erel_refl]. reflexivity.
  - destruct ok; inversion H; subst; clear H.
    + eexists. split; [|apply ss_rel_erel, hub_set_rel]. reflexivity.
    + eexists. split; [|apply erel_refl]. reflexivity.
  - destruct (nth_error (sessions p) n) as [s0|] eqn:En; [|discriminate].
    destruct (N.eqb (sid s0) id); [inversion H; subst; apply erel_refl|].
    cbn [fix_del fixed] in H.
    assert (U : erel (sessions p) (upd (sessions p) n (set_sid s0 id))) by (eapply erel_upd; eauto).
    destruct (idx_get (pindex p) (sid s0)) as [m|].
    + destruct (Nat.eqb m n); inversion H; subst; cbn; auto.
      eapply erel_trans; [exact U|]. apply ss_rel_erel, hub_set_rel.
    + inversion H; subst; cbn; auto.
  - inversion H; subst; cbn. apply ss_rel_erel, fold_start_close_rel.
  - destruct (nth_error (sessions p) n) as [s0|] eqn:En; [|discriminate].
    fold sstep in H. destruct (sstep s0 e) as [[s1 fx]|] eqn:Es; [|discriminate].
    assert (sessions p' = upd (sessions p) n s1) by (destruct fx; inversion H; reflexivity).
    rewrite H0. eapply erel_upd; eauto. eapply estab_step; eauto.
Qed.

(* ---- every index entry belongs to a session whose hooks succeeded ---- *)
Definition ixe (p : peer) : Prop :=
  forall id n, idx_get (pindex p) id = Some n ->
  exists s, nth_error (sessions p) n = Some s /\ estab s = true.

Lemma ixe_erel ss ss' ix : ixe (mkPeer ss ix) -> erel ss ss' -> ixe (mkPeer ss' ix).
Proof.
  intros Hi Hr id n Hg. destruct (Hi id n Hg) as (s & Hn & He). cbn in *.
  destruct (erel_nth _ _ _ _ Hr Hn) as (y & Hy & Ey). exists y. split; auto. congruence.
Qed.

Lemma ixe_snoc ss ix x : ixe (mkPeer ss ix) -> ixe (mkPeer (ss ++ [x]) ix).
Proof.
  intros Hi id n Hg. destruct (Hi id n Hg) as (s & Hn & He). cbn in *. exists s. split; auto.
  apply nth_error_snoc_lt. assumption.
Qed.

Lemma hub_set_index p n id : pindex (hub_set p n id) = idx_put (pindex p) id n.
Proof.
  unfold hub_set. destruct (idx_get (pindex p) id) as [m|]; [destruct (Nat.eqb m n)|]; reflexivity.
Qed.

Lemma ixe_put ss ix id n s : ixe (mkPeer ss ix) -> nth_error ss n = Some s -> estab s = true ->
  ixe (mkPeer ss (idx_put ix id n)).
Proof.
  intros Hi Hn He id' n' Hg. cbn [pindex sessions] in *. destruct (N.eq_dec id' id) as [->|Hne].
  - rewrite idx_get_put_eq in Hg. inversion Hg; subst. eauto.
  - rewrite idx_get_put_ne in Hg by assumption. apply (Hi id' n' Hg).
Qed.

Lemma ixe_remove ss ix id : ixe (mkPeer ss ix) -> ixe (mkPeer ss (idx_remove ix id)).
Proof.
  intros Hi id' n' Hg. cbn [pindex sessions] in *. destruct (N.eq_dec id' id) as [->|Hne].
  - rewrite idx_get_remove_eq in Hg. discriminate.
  - rewrite idx_get_remove_ne in Hg by assumption. apply (Hi id' n' Hg).
Qed.

Lemma ixe_hub_set ss ix n id s : ixe (mkPeer ss ix) -> nth_error ss n = Some s -> estab s = true ->
  ixe (hub_set (mkPeer ss ix) n id).
Proof.
  intros Hi Hn He.
  pose proof (hub_set_index (mkPeer ss ix) n id) as Ei. cbn [pindex] in Ei.
  pose proof (hub_set_rel ss ix n id) as Hr.
  destruct (hub_set (mkPeer ss ix) n id) as [ss2 ix2]. cbn [pindex sessions] in *. subst ix2.
  eapply ixe_erel; [|apply ss_rel_erel; exact Hr]. eapply ixe_put; eauto.
Qed.

Lemma ixe_step p e p' : ixe p -> pstep p e = Some p' -> ixe p'.
Proof.
  intros Hi H. destruct p as [ss ix]. unfold pstep, pstep_cfg in H. cbn [sessions pindex] in H. destruct e.
  - destruct ok; inversion H; subst; clear H.
    + eapply ixe_hub_set; [apply ixe_snoc; exact Hi|apply nth_error_snoc_new|reflexivity].
    + apply ixe_snoc. exact Hi.
  - destruct ok; inversion H; subst; clear H.
    + eapply ixe_hub_set; [apply ixe_snoc; exact Hi|apply nth_error_snoc_new|reflexivity].
    + apply ixe_snoc. exact Hi.
  - destruct (nth_error ss n) as [s0|] eqn:En; [|discriminate].
    destruct (N.eqb (sid s0) id); [inversion H; subst; exact Hi|].
    cbn [fix_del fixed] in H.
    assert (U : ixe (mkPeer (upd ss n (set_sid s0 id)) ix)).
    { eapply ixe_erel; [exact Hi|]. eapply erel_upd; eauto. }
    destruct (idx_get ix (sid s0)) as [m|] eqn:Eg.
    + destruct (Nat.eqb m n) eqn:Em; inversion H; subst; clear H; [|exact U].
      apply Nat.eqb_eq in Em. subst m. destruct (Hi _ _ Eg) as (t & Ht & Et). cbn in Ht.
      assert (t = s0) by congruence. subst t.
      pose proof (ixe_hub_set (upd ss n (set_sid s0 id)) ix n id (set_sid s0 id) U
                    (nth_error_upd_eq _ _ _ _ En) Et) as X.
      destruct (hub_set (mkPeer (upd ss n (set_sid s0 id)) ix) n id) as [ss2 ix2]. cbn. apply ixe_remove. exact X.
    + inversion H; subst. exact U.
  - inversion H; subst; clear H. eapply ixe_erel; [exact Hi|]. apply ss_rel_erel, fold_start_close_rel.
  - destruct (nth_error ss n) as [s0|] eqn:En; [|discriminate].
    fold sstep in H. destruct (sstep s0 e) as [[s1 fx]|] eqn:Es; [|discriminate].
    assert (U : ixe (mkPeer (upd ss n s1) ix)).
    { eapply ixe_erel; [exact Hi|]. eapply erel_upd; eauto. eapply estab_step; eauto. }
    destruct fx; inversion H; subst; clear H; [exact U|].
    unfold hub_del. cbn [fix_del fixed]. destruct (idx_get ix (sid s0)) as [m|]; [|exact U].
    destruct (Nat.eqb m n); [|exact U]. apply ixe_remove. exact U.
Qed.

(* ---- histories with hook outcomes ---- *)
Definition lower (e : hevent) : pevent :=
  match e with
  | HAccept id outs => PAccept id (verdict true code_accept_panic outs)
  | HDial id outs => PDial id (verdict true code_dial_panic outs)
  | HOther e => e
  end.

Lemma hstep_lower h e h' : hstep h e = Some h' -> pstep (hp h) (lower e) = Some (hp h').
Proof.
  unfold hstep, hstep_cfg. destruct e; cbn [lower].
  - destruct (pstep (hp h) _) as [p|]; [|discriminate]. intros H; inversion H; reflexivity.
  - destruct (pstep (hp h) _) as [p|]; [|discriminate]. intros H; inversion H; reflexivity.
  - destruct (is_create e); [discriminate|]. destruct (pstep (hp h) e) as [p|]; [|discriminate].
    intros H; inversion H; reflexivity.
Qed.

Lemma hrun_lower es : forall h h', hrun h es = Some h' -> prun (hp h) (map lower es) = Some (hp h').
Proof.
  induction es as [|e r IH]; intros h h' H; cbn in *.
  - inversion H; reflexivity.
  - fold hstep in H. destruct (hstep h e) as [h1|] eqn:E; [|discriminate].
    unfold prun in *. cbn. fold pstep. rewrite (hstep_lower _ _ _ E). apply IH. exact H.
Qed.

(* the log has one entry per session; a session whose hooks succeeded has a log without a
   failure; the index holds only such sessions *)
Definition hinv (h : hpeer) : Prop :=
  length (hlog h) = length (sessions (hp h)) /\
  (forall n s, nth_error (sessions (hp h)) n = Some s -> estab s = true ->
     exists outs, nth_error (hlog h) n = Some outs /\ forallb hout_ok outs = true) /\
  ixe (hp h).

Lemma hinv0 : hinv hpeer0.
Proof.
  split; [reflexivity|]. split.
  - intros n s Hn. destruct n; discriminate.
  - intros id n Hg. discriminate.
Qed.

Lemma code_accept_nz : code_accept_panic <> 0%Z. Proof. discriminate. Qed.
Lemma code_dial_nz : code_dial_panic <> 0%Z. Proof. discriminate. Qed.

Lemma hinv_create (h : hpeer) p' ok (ran : list hout) :
  hinv h ->
  (exists x, estab x = ok /\ erel (sessions (hp h) ++ [x]) (sessions p')) ->
  ixe p' -> (ok = true -> forallb hout_ok ran = true) ->
  hinv (mkHpeer p' (hlog h ++ [ran])).
Proof.
  intros (Hl & Hs & _) (x & Ex & Hr) Hi Hok. split; [|split]; cbn [hp hlog]; auto.
  - rewrite (erel_length _ _ Hr). rewrite !app_length. cbn. lia.
  - intros n s Hn He.
    assert (Hlt : n < length (sessions (hp h) ++ [x])).
    { rewrite <- (erel_length _ _ Hr). apply nth_error_Some. congruence. }
    rewrite app_length in Hlt. cbn in Hlt.
    destruct (Nat.eq_dec n (length (sessions (hp h)))) as [->|Hne].
    + destruct (erel_nth _ _ _ _ Hr (nth_error_snoc_new (sessions (hp h)) x)) as (y & Hy & Ey).
      assert (y = s) by congruence. subst y.
      exists ran. split.
      * rewrite <- Hl. apply nth_error_snoc_new.
      * apply Hok. congruence.
    + assert (Hlt' : n < length (sessions (hp h))) by lia.
      destruct (nth_error (sessions (hp h)) n) as [t|] eqn:Et; [|apply nth_error_None in Et; lia].
      destruct (erel_nth _ _ _ _ Hr (nth_error_snoc_lt _ x _ _ Et)) as (y & Hy & Ey).
      assert (y = s) by congruence. subst y.
      destruct (Hs n t Et) as (outs & Ho & Hf); [congruence|].
      exists outs. split; auto. rewrite nth_error_app1; auto. apply nth_error_Some. congruence.
Qed.

Lemma hinv_step h e h' : hinv h -> hstep h e = Some h' -> hinv h'.
Proof.
  intros Hh H. pose proof (hstep_lower _ _ _ H) as Hp. pose proof Hh as (Hl & Hs & Hi).
  pose proof (ixe_step _ _ _ Hi Hp) as Hi'. pose proof (pstep_sessions _ _ _ Hp) as Hr.
  unfold hstep, hstep_cfg in H. destruct e; cbn [lower] in *.
  - destruct (pstep (hp h) _) as [p|]; [|discriminate]. inversion H; subst; clear H. cbn [hp] in *.
    clear Hp. apply hinv_create with (ok := verdict true code_accept_panic outs); auto.
    intros V. apply (ran_prefix_ok _ _ code_accept_nz) in V. destruct V as (-> & V). exact V.
  - destruct (pstep (hp h) _) as [p|]; [|discriminate]. inversion H; subst; clear H. cbn [hp] in *.
    clear Hp. apply hinv_create with (ok := verdict true code_dial_panic outs); auto.
    intros V. apply (ran_prefix_ok _ _ code_dial_nz) in V. destruct V as (-> & V). exact V.
  - destruct (is_create e) eqn:Ec; [discriminate|].
    destruct (pstep (hp h) e) as [p|]; [|discriminate]. inversion H; subst; clear H. cbn [hp hlog] in *.
    inversion Hp; subst.
    assert (R : erel (sessions (hp h)) (sessions p)) by (destruct e; try discriminate; exact Hr).
    split; [|split]; cbn [hp hlog]; auto.
    + rewrite (erel_length _ _ R). exact Hl.
    + intros n s Hn He.
      assert (Hlt : n < length (sessions (hp h))).
      { rewrite <- (erel_length _ _ R). apply nth_error_Some. congruence. }
      destruct (nth_error (sessions (hp h)) n) as [t|] eqn:Et; [|apply nth_error_None in Et; lia].
      destruct (erel_nth _ _ _ _ R Et) as (y & Hy & Ey). assert (y = s) by congruence. subst y.
      apply (Hs n t Et). congruence.
Qed.

Lemma hrun_hinv es : forall h h', hinv h -> hrun h es = Some h' -> hinv h'.
Proof.
  induction es as [|e r IH]; intros h h' Hh H; cbn in H.
  - inversion H; subst; exact Hh.
  - fold hstep in H. destruct (hstep h e) as [h1|] eqn:E; [|discriminate].
    eapply IH; [eapply hinv_step; eauto|exact H].
Qed.

(* A session that is healthy, or whose read loop exists (it handles messages), or that is in
   the index under its id, has had every one of its accept / dial plugins called, and every one
   of them returned an OK status: none returned a non-OK status, none panicked. *)
Lemma live_only_if_every_hook_ok_lemma es h n s :
  hrun hpeer0 es = Some h -> nth_error (sessions (hp h)) n = Some s ->
  st s = Ok \/ rd s <> RNone \/ idx_get (pindex (hp h)) (sid s) = Some n ->
  exists outs, nth_error (hlog h) n = Some outs /\ Forall (fun o => hout_ok o = true) outs.
Proof.
  intros Hr Hn Hc. destruct (hrun_hinv es _ _ hinv0 Hr) as (_ & Hs & Hi).
  assert (Rs : reach_sess s).
  { exists (map lower es), (hp h), n. split; auto. apply (hrun_lower es hpeer0 h Hr). }
  destruct (healthy_only_after_hooks_lemma s Rs) as (A & B).
  assert (He : estab s = true).
  { destruct Hc as [Hc|[Hc|Hc]]; auto.
    destruct (Hi _ _ Hc) as (t & Ht & Et). congruence. }
  destruct (Hs n s Hn He) as (outs & Ho & Hf). exists outs. split; auto.
  apply Forall_forall. apply forallb_forall. exact Hf.
Qed.

(* the log of a session is the prefix of its plugins that were called *)
Lemma log_is_what_ran h id outs h' :
  hstep h (HAccept id outs) = Some h' ->
  nth_error (hlog h') (length (hlog h)) = Some (firstn (hooks_ran true code_accept_panic outs) outs).
Proof.
  unfold hstep, hstep_cfg. destruct (pstep (hp h) _); [|discriminate]. intros H; inversion H; subst; cbn.
  apply nth_error_snoc_new.
Qed.

(* ---- the runner whose recover() does not reach the result ---- *)
Definition panic_accept_history : list hevent :=
  [HAccept 1%N [HkOk; HkPanic; HkOk]; HOther (PSess 0 (EReader true))].

Lemma unnamed_result_refuted_lemma :
  exists h s, hrun_cfg false hpeer0 panic_accept_history = Some h /\
              nth_error (sessions (hp h)) 0 = Some s /\ st s = Ok /\ rd s = R0 /\
              idx_get (pindex (hp h)) 1%N = Some 0 /\
              nth_error (hlog h) 0 = Some [HkOk; HkPanic].
Proof. vm_compute. eexists. eexists. repeat split. Qed.

Lemma panic_accept_refused :
  exists h s, hrun hpeer0 panic_accept_history = None /\
              hrun hpeer0 (firstn 1 panic_accept_history) = Some h /\
              nth_error (sessions (hp h)) 0 = Some s /\ st s = Preparing /\ cl s = C0 /\ rd s = RNone /\
              pindex (hp h) = [] /\ nth_error (hlog h) 0 = Some [HkOk; HkPanic].
Proof. vm_compute. eexists. eexists. repeat split. Qed.

Lemma ok_accept_established :
  exists h s, hrun hpeer0 [HAccept 1%N [HkOk; HkStat 0; HkOk]; HOther (PSess 0 (EReader true))] = Some h /\
              nth_error (sessions (hp h)) 0 = Some s /\ st s = Ok /\ rd s = R0 /\
              idx_get (pindex (hp h)) 1%N = Some 0 /\ nth_error (hlog h) 0 = Some [HkOk; HkStat 0; HkOk].
Proof. vm_compute. eexists. eexists. repeat split. Qed.
