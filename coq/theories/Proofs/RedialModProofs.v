(* Model.RedialMod: PostDial plugins that call Session.ModifySocket inside the redial machine. *)
From Coq Require Import Strings.String Strings.Byte.
From Coq Require Import List Arith NArith ZArith Bool Lia.
From Verif Require Import Model.Redial Model.RedialMod Proofs.RedialProofs.
Import ListNotations.

Definition reachable_m (cfg : modcfg) (n : Z) (uid : bool) (p : list verdict) (d : verdict) (s : st) : Prop :=
  exists evs, s = run_m cfg (init_m cfg n uid p d) evs.

Lemma run_m_snoc cfg s evs e : run_m cfg s (evs ++ [e]) = step_m cfg (run_m cfg s evs) e.
Proof. unfold run_m. rewrite fold_left_app. reflexivity. Qed.

Lemma set_id_same s : set_id s (id s) = s.
Proof. destruct s; reflexivity. Qed.

Lemma set_lock_same s : set_lock s (lock s) = s.
Proof. destruct s; reflexivity. Qed.

(* as coded, ModifySocket touches nothing of the state but the captured connections of
   callers (Model.RedialMod.restamp) *)
Lemma view_modify cfg s : m_inherit cfg = true -> view_of (modify cfg s) = view_of s.
Proof.
  intros H. unfold modify, modify_id. rewrite H. destruct (resets (m_kind cfg)); [|reflexivity].
  rewrite set_id_same. reflexivity.
Qed.

Lemma modify_fields cfg s :
  m_inherit cfg = true ->
  lock (modify cfg s) = lock s /\ id (modify cfg s) = id s /\ index (modify cfg s) = index s /\
  okrounds (modify cfg s) = okrounds s /\ conn (modify cfg s) = conn s.
Proof.
  intros H. unfold modify, modify_id. rewrite H. destruct (resets (m_kind cfg)); [|auto].
  rewrite set_id_same. auto.
Qed.

Lemma lock_round_return s o b : lock (round_return s o b) = None.
Proof. exact (f_equal v_lock (view_round_return s o b)). Qed.

Lemma clear_ipeq_unlocked s : lock s = None -> clear_ipeq s = s.
Proof. intros L. unfold clear_ipeq. rewrite L. reflexivity. Qed.

Lemma init_m_inherit cfg n uid p d : m_inherit cfg = true -> init_m cfg n uid p d = init n uid p d.
Proof.
  intros Hi. unfold init_m. destruct uid; [reflexivity|].
  unfold modify_id. rewrite Hi. destruct (resets (m_kind cfg)); reflexivity.
Qed.

(* ---- the invariant of Proofs.RedialProofs holds for the machine with the plugin: with a
   user-assigned id for every kind of replacement, with an address-derived id for
   replacements that keep the addresses ---- *)
Lemma clear_ipeq_locked_uid s r :
  lock s = Some r -> r_pc r = RdLocked -> id s = IdUser -> clear_ipeq (round_step s) = round_step s.
Proof.
  intros L P I. unfold round_step. rewrite L, P.
  destruct (negb (Nat.eqb (r_old r) (conn s))).
  - apply clear_ipeq_unlocked. apply lock_round_return.
  - destruct (cas_redialing (status_ s)).
    + rewrite I. reflexivity.
    + apply clear_ipeq_unlocked. apply lock_round_return.
Qed.

Lemma Inv_round_m cfg uid s :
  m_inherit cfg = true -> (uid = true \/ renames (m_kind cfg) = false) ->
  Inv uid (view_of s) -> Inv uid (view_of (round_step_m cfg s)).
Proof.
  intros Hi Hu HI. unfold round_step_m.
  destruct (lock s) as [r|] eqn:L; [|exact HI].
  destruct (r_pc r) eqn:P.
  - destruct (renames (m_kind cfg)) eqn:Hr; [|apply Inv_round; exact HI].
    destruct Hu as [->|Hu]; [|discriminate].
    rewrite (clear_ipeq_locked_uid s r L P); [apply Inv_round; exact HI|].
    destruct HI as (_ & _ & _ & _ & _ & _ & _ & [H|[_ (r0 & v & L0 & P0)]]); [exact H|].
    unfold view_of in L0; cbn in L0. rewrite L in L0. inversion L0; subst r0. congruence.
  - apply Inv_round; exact HI.
  - destruct (m_first cfg); [rewrite view_modify by exact Hi|]; apply Inv_round; exact HI.
  - destruct v; try (apply Inv_round; exact HI);
      (destruct (m_first cfg); [apply Inv_round; exact HI|]);
      apply Inv_round; rewrite view_modify by exact Hi; exact HI.
Qed.

Lemma Inv_step_m cfg uid s e :
  m_inherit cfg = true -> (uid = true \/ renames (m_kind cfg) = false) ->
  Inv uid (view_of s) -> Inv uid (view_of (step_m cfg s e)).
Proof.
  intros Hi Hu HI. destruct e; try exact (Inv_step uid s _ HI).
  apply Inv_round_m; assumption.
Qed.

Lemma Inv_reachable_m cfg n uid p d s :
  m_inherit cfg = true -> (uid = true \/ renames (m_kind cfg) = false) ->
  reachable_m cfg n uid p d s -> Inv uid (view_of s).
Proof.
  intros Hi Hu [evs ->]. rewrite init_m_inherit by exact Hi.
  induction evs as [|e evs IH] using rev_ind; [apply Inv_init|].
  rewrite run_m_snoc. apply Inv_step_m; assumption.
Qed.

Lemma budget_modify cfg s : budget (modify cfg s) = budget s.
Proof. unfold modify. destruct (resets (m_kind cfg)); reflexivity. Qed.

Lemma budget_clear_ipeq s : budget (clear_ipeq s) = budget s.
Proof. unfold clear_ipeq. destruct (lock s) as [r|]; [destruct (r_pc r)|]; reflexivity. Qed.

Lemma budget_step_m cfg s e : budget (step_m cfg s e) = budget s.
Proof.
  destruct e; try exact (budget_step s _).
  cbn [step_m]. unfold round_step_m. pose proof (budget_step s EvRound) as B. cbn [step] in B.
  destruct (lock s) as [r|]; [|reflexivity].
  destruct (r_pc r).
  - destruct (renames (m_kind cfg)); rewrite ?budget_clear_ipeq; exact B.
  - exact B.
  - destruct (m_first cfg); rewrite ?budget_modify; exact B.
  - destruct v; try exact B; (destruct (m_first cfg); [exact B|]);
      rewrite (budget_step (modify cfg s) EvRound : budget (round_step (modify cfg s)) = _); apply budget_modify.
Qed.

Lemma budget_reachable_m cfg n uid p d s : reachable_m cfg n uid p d s -> budget s = n.
Proof.
  intros [evs ->]. induction evs as [|e evs IH] using rev_ind.
  - unfold init_m. destruct uid; reflexivity.
  - rewrite run_m_snoc, budget_step_m. exact IH.
Qed.

(* the consequences of the invariant, as Properties/C13.v states them for the plain machine *)
Lemma invariants_with_modify_hooks cfg n uid p d s :
  m_inherit cfg = true -> (uid = true \/ renames (m_kind cfg) = false) ->
  reachable_m cfg n uid p d s ->
  (* status by phase *)
  match lock s with
  | None => status_unlocked (status_ s)
  | Some r => match r_pc r with
              | RdLocked => status_unlocked (status_ s)
              | RdDial | RdReset _ => status_dialing (status_ s)
              | RdHook _ => status_hooking (status_ s)
              end
  end /\
  (* hooks re-run with isRedial = true; accepting runs = successful redials (+ the one in progress) *)
  (Forall (fun h => fst h = true) (hooks s) /\
   length (filter (fun h => accepts (snd h)) (hooks s)) = okrounds s + hook_pending (lock s) /\
   okrounds s = length (filter (fun x => snd x) (rounds s))) /\
  (* at most 1+n dial attempts per round *)
  ((0 <= n)%Z -> Forall (fun x => (Z.of_nat (fst x) <= 1 + n)%Z) (rounds s) /\
                 (forall r, lock s = Some r -> (Z.of_nat (r_att r) <= 1 + n)%Z \/ r_pc r = RdLocked)) /\
  (* closeLocked inside the closure never runs its body *)
  wedged s = false /\
  (* the id: the user's / the current connection's local address whenever the session is Ok *)
  (status_ s = SOk -> if uid then id s = IdUser else id s = IdAddr (conn s)).
Proof.
  intros Hi Hu R. pose proof (budget_reachable_m _ _ _ _ _ _ R) as B.
  destruct (Inv_reachable_m cfg n uid p d s Hi Hu R) as (Hw & Hs & Ha & Hh1 & Hh2 & Hh3 & Hi1 & Hi2).
  unfold view_of in *; cbn [v_wedged v_status v_budget v_lock v_rounds v_hooks v_ok v_id v_conn] in *.
  repeat split; auto.
  - rewrite B in Ha. destruct (Ha H) as [_ Hr]. eapply Forall_impl; [|exact Hr]. cbn beta. intros; lia.
  - intros r L. rewrite B in Ha. destruct (Ha H) as [Hl _]. rewrite L in Hl. destruct (r_pc r); auto; left; lia.
  - intros Hok. destruct Hi2 as [Hid|[_ (r & v & L & P)]]; [exact Hid|].
    rewrite L, P in Hs. exfalso. rewrite Hok in Hs. st_solve.
Qed.

Lemma user_id_kept_with_modify_hooks cfg n p d s :
  m_inherit cfg = true -> reachable_m cfg n true p d s -> status_ s = SOk -> id s = IdUser.
Proof.
  intros Hi R Hok.
  exact (proj2 (proj2 (proj2 (proj2 (invariants_with_modify_hooks cfg n true p d s Hi (or_introl eq_refl) R)))) Hok).
Qed.

(* replacements that do nothing (no plugin, or (nil, nil)) leave the machine as it is *)
Lemma step_m_no_replacement cfg s e : resets (m_kind cfg) = false -> step_m cfg s e = step s e.
Proof.
  intros Hr. destruct e; try reflexivity. cbn [step_m step]. unfold round_step_m, modify. rewrite Hr.
  assert (Hn : renames (m_kind cfg) = false) by (destruct (m_kind cfg); try reflexivity; discriminate).
  rewrite Hn.
  destruct (lock s) as [r|] eqn:L; [|unfold round_step; rewrite L; reflexivity].
  destruct (r_pc r); try reflexivity.
  - destruct (m_first cfg); reflexivity.
  - destruct v; try reflexivity; destruct (m_first cfg); reflexivity.
Qed.

(* ---- the step that completes a redial round ---- *)
Lemma index_set_rpc s i p : index (set_rpc s i p) = index s.
Proof. unfold set_rpc. destruct (nth_error (readers s) i) as [[c q]|]; reflexivity. Qed.
Lemma index_set_cpc s k p : index (set_cpc s k p) = index s.
Proof. unfold set_cpc. destruct (nth_error (calls s) k); reflexivity. Qed.
Lemma index_round_return s o b : index (round_return s o b) = index (set_lock s None).
Proof. unfold round_return. destruct o; [apply index_set_rpc | apply index_set_cpc]. Qed.

Lemma idmem_idadd i l : idmem i (idadd i l) = true.
Proof.
  unfold idadd. destruct (idmem i l) eqn:E; [exact E|].
  unfold idmem. rewrite existsb_app. cbn. destruct i; cbn; rewrite ?Nat.eqb_refl, ?orb_true_r; reflexivity.
Qed.

Lemma finish_ok_facts s r :
  let s' := finish_ok s r in
  status_ s' = SOk /\ id s' = id s /\ idmem (id s) (index s') = true /\
  okrounds s' = S (okrounds s) /\ lock s' = None.
Proof.
  cbn zeta. unfold finish_ok.
  match goal with |- context [round_return ?x _ _] => set (s1 := x) end.
  pose proof (view_round_return s1 (r_owner r) true) as V.
  repeat split.
  - exact (f_equal v_status V).
  - exact (f_equal v_id V).
  - rewrite index_round_return. subst s1. cbn. apply idmem_idadd.
  - exact (f_equal v_ok V).
  - exact (f_equal v_lock V).
Qed.

Lemma successful_round_keeps_user_id cfg n p d s r v :
  m_inherit cfg = true -> reachable_m cfg n true p d s ->
  lock s = Some r -> r_pc r = RdHook v -> accepts v = true ->
  let s' := step_m cfg s EvRound in
  status_ s' = SOk /\ id s' = IdUser /\ idmem IdUser (index s') = true /\
  okrounds s' = S (okrounds s) /\ lock s' = None.
Proof.
  intros Hi R L P A. cbn zeta.
  pose proof (Inv_reachable_m cfg n true p d s Hi (or_introl eq_refl) R) as HI.
  assert (I : id s = IdUser).
  { destruct HI as (_ & _ & _ & _ & _ & _ & _ & [H|[_ (r0 & v0 & L0 & P0)]]); [exact H|].
    unfold view_of in L0; cbn in L0. rewrite L in L0. inversion L0; subst r0. congruence. }
  cbn [step_m]. unfold round_step_m. rewrite L, P.
  set (s1 := if m_first cfg then s else modify cfg s).
  assert (F : lock s1 = lock s /\ id s1 = id s /\ index s1 = index s /\ okrounds s1 = okrounds s /\ conn s1 = conn s)
    by (subst s1; destruct (m_first cfg); [auto | apply modify_fields; exact Hi]).
  destruct F as (F1 & F2 & F3 & F4 & F5).
  assert (E : match v with VJ => round_step s | _ => round_step s1 end = finish_ok s1 r).
  { destruct v; try discriminate; unfold round_step; rewrite F1, L, P; reflexivity. }
  rewrite E. destruct (finish_ok_facts s1 r) as (G1 & G2 & G3 & G4 & G5).
  rewrite F2, I in G2, G3. rewrite F4 in G4. auto.
Qed.

(* ---- the late-reading variant: the user's id is gone after the first redial ---- *)
Definition cfg_late := mkMod MWrap true false.
Definition w_late : list ev :=
  [EvCut; EvReader 0; EvReader 0; EvReader 0; EvReader 0; EvReader 0; EvReader 0; EvReader 0;
   EvAcquire (OwR 0); EvRound; EvRound; EvRound; EvRound].

Lemma w_late_lemma :
  let s := run_m cfg_late (init_m cfg_late 3 true [] VA) w_late in
  status_ s = SOk /\ rounds s = [(1, true)] /\ hooks s = [(true, VA)] /\ quiescent s = true /\
  id s = IdNone /\ index s = [IdNone] /\ idmem IdUser (index s) = false.
Proof. vm_compute. repeat split; reflexivity. Qed.

(* the same schedule with ModifySocket as coded *)
Lemma w_head_lemma :
  let cfg := mkMod MWrap true true in
  let s := run_m cfg (init_m cfg 3 true [] VA) w_late in
  status_ s = SOk /\ rounds s = [(1, true)] /\ quiescent s = true /\ id s = IdUser /\ index s = [IdUser].
Proof. vm_compute. repeat split; reflexivity. Qed.

(* ---- renamed addresses and an address-derived id: the id of the first dial stays ---- *)
Definition InvRen (s : st) : Prop :=
  (forall r, lock s = Some r -> r_pc r <> RdLocked -> r_oid r = IdAddr 0 /\ r_ipeq r = false) /\
  (id s = IdAddr 0 \/ (id s = IdNone /\ at_reset (lock s))).

Definition vInvRen (v : view) : Prop :=
  (forall r, v_lock v = Some r -> r_pc r <> RdLocked -> r_oid r = IdAddr 0 /\ r_ipeq r = false) /\
  (v_id v = IdAddr 0 \/ (v_id v = IdNone /\ at_reset (v_lock v))).

Lemma InvRen_view s : InvRen s <-> vInvRen (view_of s).
Proof. reflexivity. Qed.

Lemma vInvRen_status v x : vInvRen v -> vInvRen (vstatus v x).
Proof. intros H. exact H. Qed.

Lemma id_finish_fail s r : id (finish_fail s r) = id s /\ lock (finish_fail s r) = None.
Proof.
  unfold finish_fail.
  match goal with |- context [round_return ?x _ _] => set (s3 := x) end.
  pose proof (view_round_return s3 (r_owner r) false) as V.
  split; [|exact (f_equal v_lock V)].
  assert (A : id (round_return s3 (r_owner r) false) = id s3) by exact (f_equal v_id V).
  rewrite A. subst s3. cbn.
  destruct (status_ s) eqn:E; cbn; rewrite ?E; cbn; try reflexivity;
    match goal with |- context [match ?x with SRedialing => _ | _ => _ end] => destruct x end; reflexivity.
Qed.

Lemma InvRen_after_failed s r :
  (id s = IdAddr 0) -> r_oid r = IdAddr 0 -> r_ipeq r = false ->
  InvRen (after_failed_attempt s r).
Proof.
  intros I O Q. unfold after_failed_attempt. destruct (Z.eqb (r_left r) 0).
  - destruct (id_finish_fail s r) as [A B]. split.
    + intros r0 L. rewrite B in L. discriminate.
    + left. rewrite A. exact I.
  - split.
    + intros r0 L _. cbn in L. inversion L; subst. cbn. auto.
    + left. exact I.
Qed.

Lemma InvRen_modify cfg s : m_inherit cfg = true -> InvRen s -> InvRen (modify cfg s).
Proof.
  intros Hi H. destruct (modify_fields cfg s Hi) as (M1 & M2 & _). unfold InvRen. rewrite M1, M2. exact H.
Qed.

Lemma InvRen_hook s r v :
  InvRen s -> lock s = Some r -> r_pc r = RdHook v -> InvRen (round_step s).
Proof.
  intros [H1 H2] L P.
  assert (I : id s = IdAddr 0).
  { destruct H2 as [H2|[_ (r0 & v0 & L0 & P0)]]; [exact H2|]. rewrite L in L0. inversion L0; subst r0. congruence. }
  destruct (H1 r L) as [O Q]; [congruence|].
  unfold round_step. rewrite L, P.
  destruct v; try (destruct (finish_ok_facts s r) as (_ & F2 & _ & _ & F5);
                   split; [intros r0 L0; rewrite F5 in L0; discriminate | left; rewrite F2; exact I]).
  apply InvRen_after_failed; auto.
Qed.

Lemma InvRen_round cfg s :
  m_inherit cfg = true -> renames (m_kind cfg) = true -> InvRen s -> InvRen (round_step_m cfg s).
Proof.
  intros Hi Hr HI. unfold round_step_m. destruct (lock s) as [r|] eqn:L; [|exact HI].
  pose proof HI as HI0. destruct HI as [H1 H2]. rewrite L in H1, H2.
  destruct (r_pc r) eqn:P.
  - (* RdLocked *)
    rewrite Hr.
    assert (I : id s = IdAddr 0).
    { destruct H2 as [H2|[_ (r0 & v & L0 & P0)]]; [exact H2|]. inversion L0; subst r0. congruence. }
    unfold round_step. rewrite L, P.
    assert (Hret : forall b, InvRen (clear_ipeq (round_return s (r_owner r) b))).
    { intros b. rewrite clear_ipeq_unlocked by apply lock_round_return. split.
      - intros r0 L0. rewrite lock_round_return in L0. discriminate.
      - left. assert (A : id (round_return s (r_owner r) b) = id s) by exact (f_equal v_id (view_round_return s (r_owner r) b)).
        rewrite A. exact I. }
    destruct (negb (Nat.eqb (r_old r) (conn s))); [apply Hret|].
    destruct (cas_redialing (status_ s)); [|apply Hret].
    unfold clear_ipeq. cbn. split.
    + intros r0 L0 _. inversion L0; subst. cbn. auto.
    + left. exact I.
  - (* RdDial *)
    assert (I : id s = IdAddr 0).
    { destruct H2 as [H2|[_ (r0 & v & L0 & P0)]]; [exact H2|]. inversion L0; subst r0. congruence. }
    destruct (H1 r eq_refl) as [O Q]; [congruence|].
    unfold round_step. rewrite L, P. unfold next_verdict.
    assert (Hf : forall s1, id s1 = IdAddr 0 ->
               InvRen (after_failed_attempt s1 (mkRound (r_owner r) (r_old r) RdDial (r_oid r) (r_ipeq r) (r_occ r) (r_left r) (S (r_att r))))).
    { intros s1 I1. apply InvRen_after_failed; auto. }
    destruct (plan s) as [|v pl]; [destruct (pdef s)|destruct v]; cbn; try (apply Hf; exact I);
      (split; [intros r0 L0 _; inversion L0; subst; cbn; auto
              | right; split; [reflexivity | eexists; eexists; split; reflexivity]]).
  - (* RdReset *)
    destruct (H1 r eq_refl) as [O Q]; [congruence|].
    assert (E : InvRen (round_step s)).
    { unfold round_step. rewrite L, P. rewrite Q. split.
      + intros r0 L0 _. cbn in L0. inversion L0; subst. cbn. auto.
      + left. cbn. exact O. }
    destruct (m_first cfg); [apply InvRen_modify; assumption | exact E].
  - (* RdHook *)
    assert (Hs : InvRen (round_step s)) by exact (InvRen_hook s r v HI0 L P).
    assert (Hm : InvRen (round_step (modify cfg s))).
    { destruct (modify_fields cfg s Hi) as (M1 & _).
      apply (InvRen_hook (modify cfg s) r v); [apply InvRen_modify; assumption | rewrite M1; exact L | exact P]. }
    destruct v; try exact Hs; destruct (m_first cfg); assumption.
Qed.

Lemma InvRen_step cfg s e :
  m_inherit cfg = true -> renames (m_kind cfg) = true -> InvRen s -> InvRen (step_m cfg s e).
Proof.
  intros Hi Hr H. destruct e; cbn [step_m step].
  - exact H.
  - apply InvRen_view. destruct (reader_step_view s i) as (x & E & _). rewrite E. exact H.
  - apply InvRen_view. rewrite caller_step_view. exact H.
  - apply InvRen_view. destruct (acquire_view s o) as [E|[L [c E]]]; rewrite E; [exact H|].
    destruct H as [H1 H2]. split; cbn.
    + intros r L0 Hp. inversion L0; subst. cbn in Hp. congruence.
    + destruct H2 as [H2|[_ (r0 & v & L0 & _)]]; [left; exact H2|]. rewrite L in L0. discriminate.
  - apply InvRen_round; assumption.
  - apply InvRen_view. rewrite reply_step_view. exact H.
  - apply InvRen_view. change (vInvRen (view_of (step s (EvCancel i k)))). rewrite cancel_view. exact H.
  - exact H.
  - exact H.
  - exact H.
Qed.

Lemma renamed_address_id_kept cfg n p d s :
  m_inherit cfg = true -> renames (m_kind cfg) = true -> reachable_m cfg n false p d s ->
  id s = IdAddr 0 \/ (id s = IdNone /\ at_reset (lock s)).
Proof.
  intros Hi Hr [evs ->]. rewrite init_m_inherit by exact Hi.
  assert (H : InvRen (run_m cfg (init n false p d) evs)); [|exact (proj2 H)].
  induction evs as [|e evs IH] using rev_ind.
  - split; [intros r L; discriminate | left; reflexivity].
  - rewrite run_m_snoc. apply InvRen_step; assumption.
Qed.
