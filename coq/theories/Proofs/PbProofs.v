(* Lemmas about Model/PbFrame.v and Model/WsFrames.v: varints, the proto3 encoding of the two
   payload messages against their decoders, pbproto frames and streams, the protobuf
   sub-protocol of the websocket mixer, the websocket layer around a sub-protocol. *)
From Coq Require Import Strings.String Strings.Byte.
From Coq Require Import List Arith NArith ZArith Bool Lia.
From Verif Require Import Base.Bytes Base.Val Base.Outcome Model.Quote Model.Args Model.Numfmt
  Model.StatusQuery Model.Xfer Model.RawProto Model.FrameStream Model.JsonFrame Model.PbFrame
  Model.WsFrames
  Proofs.QuoteProofs Proofs.ArgsProofs Proofs.NumfmtProofs Proofs.StatusProofs
  Proofs.XferProofs Proofs.RawProofs Proofs.JsonProofs.
Import ListNotations.
Local Open Scope N_scope.

(* ---- varints ---- *)
Lemma pow2_7k k : 2 ^ (7 * (k + 1)) = 128 * 2 ^ (7 * k).
Proof. replace (7 * (k + 1)) with (7 + 7 * k) by lia. rewrite N.pow_add_r. reflexivity. Qed.

Lemma varint_fuel_S f n :
  varint_fuel (S f) n = if n <? 128 then [n2b n] else n2b (128 + n mod 128) :: varint_fuel f (n / 128).
Proof. reflexivity. Qed.

Lemma read_varint_at_cons strict f k c r acc :
  read_varint_at strict (S f) k (c :: r) acc =
  if b2n c <? 128 then
    if strict && (k =? 9) && (1 <? b2n c) then Err
    else Ok ((acc + (b2n c mod 128) * 2 ^ (7 * k)) mod 18446744073709551616, r)
  else read_varint_at strict f (k + 1) r (acc + (b2n c mod 128) * 2 ^ (7 * k)).
Proof. reflexivity. Qed.

Lemma read_varint_at_enc strict f : forall k n acc rest,
  N.of_nat (S f) + k = 10 -> n < 2 * 128 ^ N.of_nat f ->
  read_varint_at strict (S f) k (varint_fuel (S f) n ++ rest) acc
  = Ok ((acc + n * 2 ^ (7 * k)) mod 18446744073709551616, rest).
Proof.
  induction f as [|f IH]; intros k n acc rest Hk Hn.
  - assert (k = 9) by lia. subst k. change (2 * 128 ^ N.of_nat 0) with 2 in Hn.
    assert (Hn2 : n < 128) by lia.
    rewrite varint_fuel_S. replace (n <? 128) with true by (symmetry; apply N.ltb_lt; exact Hn2).
    cbn [app]. rewrite read_varint_at_cons. rewrite b2n_n2b by lia.
    replace (n <? 128) with true by (symmetry; apply N.ltb_lt; exact Hn2).
    replace (1 <? n) with false by (symmetry; apply N.ltb_ge; lia).
    rewrite andb_false_r. rewrite (N.mod_small n 128) by exact Hn2. reflexivity.
  - rewrite varint_fuel_S. destruct (n <? 128) eqn:E.
    + apply N.ltb_lt in E. cbn [app]. rewrite read_varint_at_cons. rewrite b2n_n2b by lia.
      replace (n <? 128) with true by (symmetry; apply N.ltb_lt; exact E).
      replace (k =? 9) with false by (symmetry; apply N.eqb_neq; lia).
      rewrite andb_false_r. cbn [andb]. rewrite (N.mod_small n 128) by exact E. reflexivity.
    + apply N.ltb_ge in E.
      pose proof (N.div_mod n 128) as Hdm.
      assert (Hm : n mod 128 < 128) by (apply N.mod_lt; lia).
      assert (Hq : n / 128 < 2 * 128 ^ N.of_nat f).
      { rewrite Nat2N.inj_succ, N.pow_succ_r' in Hn. apply N.div_lt_upper_bound; lia. }
      remember (n mod 128) as r eqn:Er. remember (n / 128) as q eqn:Eq.
      cbn [app]. rewrite read_varint_at_cons. rewrite b2n_n2b by lia.
      replace (128 + r <? 128) with false by (symmetry; apply N.ltb_ge; lia).
      replace ((128 + r) mod 128) with r.
      2:{ rewrite N.add_comm. replace 128 with (1 * 128) at 1 by lia.
          rewrite N.mod_add by lia. rewrite N.mod_small by exact Hm. reflexivity. }
      rewrite IH by (try exact Hq; lia).
      rewrite pow2_7k. rewrite Hdm by lia.
      assert (EE : forall P, acc + r * P + q * (128 * P) = acc + (128 * q + r) * P) by (intros; ring).
      rewrite EE. reflexivity.
Qed.

Lemma read_varint_enc strict n rest :
  n < 18446744073709551616 -> read_varint strict (varint n ++ rest) = Ok (n, rest).
Proof.
  intros Hn. unfold read_varint, varint.
  rewrite (read_varint_at_enc strict 9 0 n 0 rest) by (cbn; lia).
  rewrite N.mul_0_r, N.pow_0_r, N.mul_1_r, N.add_0_l, N.mod_small by exact Hn. reflexivity.
Qed.

Lemma read_varint_tag strict t s : b2n t < 128 -> read_varint strict (t :: s) = Ok (b2n t, s).
Proof.
  intros Ht. unfold read_varint. cbn [read_varint_at].
  replace (b2n t <? 128) with true by (symmetry; apply N.ltb_lt; exact Ht).
  change (0 =? 9) with false. rewrite andb_false_r. cbn [andb].
  rewrite N.mul_0_r, N.pow_0_r, N.mul_1_r, N.add_0_l, (N.mod_small (b2n t) 128) by exact Ht.
  rewrite N.mod_small by lia. reflexivity.
Qed.

Lemma i32_u64 z : int32_ok z = true -> i32_of_u64 (u64_of_z z) = z.
Proof.
  unfold int32_ok, i32_of_u64, u64_of_z, wrap32. intros H. apply andb_true_iff in H as [H1 H2].
  apply Z.leb_le in H1, H2.
  rewrite Z2N.id by (apply Z.mod_pos_bound; lia).
  destruct (Z.ltb_spec z 0).
  - replace (z mod 18446744073709551616)%Z with (z + 18446744073709551616)%Z
      by (apply Z.mod_unique with (q := (-1)%Z); [left; lia | lia]).
    replace (z + 18446744073709551616 + 2147483648)%Z
      with (z + 2147483648 + 4294967296 * 4294967296)%Z by lia.
    rewrite Z_mod_plus_full, Z.mod_small by lia. lia.
  - rewrite (Z.mod_small z) by lia. rewrite Z.mod_small by lia. lia.
Qed.

Lemma u64_of_z_lt z : u64_of_z z < 18446744073709551616.
Proof.
  unfold u64_of_z. pose proof (Z.mod_pos_bound z 18446744073709551616 eq_refl). lia.
Qed.

Lemma cut_err_app (x r : bytes) : cut_err (blen x) (x ++ r) = Ok (x, r).
Proof.
  unfold cut_err. rewrite blen_app.
  replace (blen x + blen r <? blen x) with false by (symmetry; apply N.ltb_ge; lia).
  unfold blen. rewrite Nat2N.id, firstn_len_app, skipn_len_app. reflexivity.
Qed.

(* ---- one field of the written message against the decoder ---- *)
Section Fields.
  Variable strict : bool.
  Variable skip_group : bytes -> res bytes.
  Variable schema : N -> option slot.

  Lemma fnum_small n : 1 <= n -> n <= 15 ->
    let fz := if strict then Z.of_N n else wrap32 (Z.of_N n) in
    fz = Z.of_N n /\ ((fz <=? 0)%Z || (strict && (536870911 <? fz)%Z)) = false.
  Proof.
    intros H1 H2. assert (E : wrap32 (Z.of_N n) = Z.of_N n).
    { apply wrap32_id. unfold int32_ok. apply andb_true_iff. split; apply Z.leb_le; lia. }
    cbv zeta. destruct strict; rewrite ?E; (split; [reflexivity|]);
      apply orb_false_iff; split; try (apply Z.leb_gt; lia); cbn [andb]; try reflexivity.
    apply Z.ltb_ge. lia.
  Qed.

  Lemma step_var t sl z f rest st :
    b2n t < 128 -> b2n t mod 8 = 0 -> 1 <= b2n t / 8 ->
    schema (b2n t / 8) = Some sl -> is_var sl = true ->
    int32_ok z = true -> z <> 0%Z ->
    pb_fields strict skip_group schema (S f) (vfield t z ++ rest) st
    = pb_fields strict skip_group schema f rest (set_var sl (u64_of_z z) st).
  Proof.
    intros Ht Hw Hf1 Hs Hv Hz Hnz. unfold vfield.
    replace (z =? 0)%Z with false by (symmetry; apply Z.eqb_neq; exact Hnz).
    cbn [app pb_fields]. rewrite read_varint_tag by exact Ht. cbn [rbind].
    assert (Hf2 : b2n t / 8 <= 15) by (apply N.lt_succ_r; apply N.div_lt_upper_bound; lia).
    destruct (fnum_small (b2n t / 8) Hf1 Hf2) as [E1 E2]. cbv zeta in E1, E2.
    rewrite E2, E1, N2Z.id, Hs, Hv, Hw. cbn [N.eqb].
    rewrite read_varint_enc by apply u64_of_z_lt. cbn [rbind]. reflexivity.
  Qed.

  Lemma step_len t sl b f rest st :
    b2n t < 128 -> b2n t mod 8 = 2 -> 1 <= b2n t / 8 ->
    schema (b2n t / 8) = Some sl -> is_var sl = false ->
    (sl = SMethod -> strict = true -> utf8_valid b = true) ->
    b <> [] -> blen b < 18446744073709551616 ->
    pb_fields strict skip_group schema (S f) (bfield t b ++ rest) st
    = pb_fields strict skip_group schema f rest (set_len sl b st).
  Proof.
    intros Ht Hw Hf1 Hs Hv Hu Hne Hlen. unfold bfield. destruct b as [|b0 b']; [congruence|].
    remember (b0 :: b') as b eqn:Eb.
    cbn [app pb_fields]. rewrite read_varint_tag by exact Ht. cbn [rbind].
    assert (Hf2 : b2n t / 8 <= 15) by (apply N.lt_succ_r; apply N.div_lt_upper_bound; lia).
    destruct (fnum_small (b2n t / 8) Hf1 Hf2) as [E1 E2]. cbv zeta in E1, E2.
    rewrite E2, E1, N2Z.id, Hs, Hv, Hw. cbn [N.eqb Pos.eqb].
    rewrite <- app_assoc. rewrite read_varint_enc by exact Hlen. cbn [rbind].
    rewrite cut_err_app. cbn [rbind].
    destruct sl; try reflexivity.
    destruct strict eqn:Es; [|reflexivity]. rewrite Hu by reflexivity. reflexivity.
  Qed.

  (* a field that may be absent from the wire (default value) *)
  Lemma opt_step (fld rest : bytes) st st' fuel :
    (fld = [] /\ st' = st) \/
    (fld <> [] /\ forall f, pb_fields strict skip_group schema (S f) (fld ++ rest) st
                            = pb_fields strict skip_group schema f rest st') ->
    (length (fld ++ rest) < fuel)%nat ->
    exists fuel', (length rest < fuel')%nat /\
                  pb_fields strict skip_group schema fuel (fld ++ rest) st
                  = pb_fields strict skip_group schema fuel' rest st'.
  Proof.
    intros [[-> ->] | [Hne Hstep]] Hlen.
    - exists fuel. split; [exact Hlen | reflexivity].
    - destruct fuel as [|fuel]; [lia|]. exists fuel. split; [|apply Hstep].
      rewrite app_length in Hlen. destruct fld; [congruence|]. cbn [length] in Hlen. lia.
  Qed.

  Lemma var_case t sl z rest st st' :
    b2n t < 128 -> b2n t mod 8 = 0 -> 1 <= b2n t / 8 ->
    schema (b2n t / 8) = Some sl -> is_var sl = true -> int32_ok z = true ->
    st' = set_var sl (u64_of_z z) st -> (z = 0%Z -> st' = st) ->
    (vfield t z = [] /\ st' = st) \/
    (vfield t z <> [] /\ forall f, pb_fields strict skip_group schema (S f) (vfield t z ++ rest) st
                                   = pb_fields strict skip_group schema f rest st').
  Proof.
    intros Ht Hw Hf Hs Hv Hz -> H0. destruct (Z.eq_dec z 0) as [E|E].
    - left. split; [subst z; reflexivity | apply H0; exact E].
    - right. split.
      + unfold vfield. replace (z =? 0)%Z with false by (symmetry; apply Z.eqb_neq; exact E). discriminate.
      + intros f. apply step_var; assumption.
  Qed.

  Lemma len_case t sl b rest st st' :
    b2n t < 128 -> b2n t mod 8 = 2 -> 1 <= b2n t / 8 ->
    schema (b2n t / 8) = Some sl -> is_var sl = false ->
    (sl = SMethod -> strict = true -> utf8_valid b = true) ->
    blen b < 18446744073709551616 ->
    st' = set_len sl b st -> (b = [] -> st' = st) ->
    (bfield t b = [] /\ st' = st) \/
    (bfield t b <> [] /\ forall f, pb_fields strict skip_group schema (S f) (bfield t b ++ rest) st
                                   = pb_fields strict skip_group schema f rest st').
  Proof.
    intros Ht Hw Hf Hs Hv Hu Hl -> H0. destruct b as [|b0 b'].
    - left. split; [reflexivity | apply H0; reflexivity].
    - right. split; [discriminate|]. intros f. apply step_len; try assumption. discriminate.
  Qed.
End Fields.

(* ---- guards ---- *)
(* pbproto: int32 sequence number and status code, a service method that is valid UTF-8
   (proto3 string), metadata without a pair whose key and value are both empty *)
Definition pb_ok (m : msg) : bool :=
  int32_ok (m_seq m) && int32_ok (st_code (m_status m)) && utf8_valid (m_method m)
  && args_ok (m_meta m).

(* pbSubProto: the frame has no status field (status OK only); any service method bytes *)
Definition wspb_ok (m : msg) : bool :=
  int32_ok (m_seq m) && args_ok (m_meta m) &&
  (st_code (m_status m) =? 0)%Z && is_nil (st_msg (m_status m))
  && match st_cause (m_status m) with None => true | Some _ => false end.

Definition len_ok (m : msg) (body ids : bytes) : Prop :=
  blen (m_method m) < 18446744073709551616 /\
  blen (status_encode (m_status m)) < 18446744073709551616 /\
  blen (args_encode (m_meta m)) < 18446744073709551616 /\
  blen body < 18446744073709551616 /\ blen ids < 18446744073709551616.

Ltac field_step H :=
  match goal with
  | |- context [pb_fields ?s ?g ?sc ?fuel (?fld ++ ?rest) ?st] =>
      let fu := fresh "fuel" in let Hl := fresh "Hl" in let E := fresh "E" in
      destruct (opt_step s g sc fld rest st _ fuel H) as (fu & Hl & E);
      [ assumption | rewrite E; clear E ]
  end.

Section PbDecode.
  Variable skip_group : bytes -> res bytes.

  Lemma pb_decode_payload m :
    pb_ok m = true -> len_ok m (m_body m) [] ->
    pb_decode true skip_group schema_pb (pb_payload m)
    = Ok (mkPbraw (m_seq m) (byte_z (m_mtype m)) (m_method m) (status_encode (m_status m))
                  (args_encode (m_meta m)) (byte_z (m_codec m)) (m_body m) []).
  Proof.
    unfold pb_ok. intros H (L1 & L2 & L3 & L4 & _).
    apply andb_true_iff in H as [H Hmeta]. apply andb_true_iff in H as [H Hutf].
    apply andb_true_iff in H as [Hseq Hcode].
    unfold pb_decode. set (fuel0 := S (length (pb_payload m))).
    assert (Hl0 : (length (pb_payload m) < fuel0)%nat) by (unfold fuel0; lia).
    clearbody fuel0. unfold pb_payload in *. unfold pbraw0.
    pose proof (i32_u64 _ Hseq) as Iseq.
    pose proof (i32_u64 _ (byte_z_ok (m_mtype m))) as Imt.
    pose proof (i32_u64 _ (byte_z_ok (m_codec m))) as Icd.
    (* seq *)
    assert (S1 := var_case true skip_group schema_pb x08 SSeq (m_seq m)
      (vfield x10 (byte_z (m_mtype m)) ++ bfield x1a (m_method m) ++ bfield x22 (status_encode (m_status m))
       ++ bfield x2a (args_encode (m_meta m)) ++ vfield x30 (byte_z (m_codec m)) ++ bfield x3a (m_body m))
      (mkPbraw 0 0 [] [] [] 0 [] []) (mkPbraw (m_seq m) 0 [] [] [] 0 [] [])
      ltac:(reflexivity) ltac:(reflexivity) ltac:(vm_compute; discriminate) ltac:(reflexivity)
      ltac:(reflexivity) Hseq ltac:(cbn [set_var pr_seq pr_mtype pr_method pr_status pr_meta pr_codec pr_body pr_xfer]; rewrite Iseq; reflexivity)
      ltac:(intros ->; reflexivity)).
    field_step S1. clear S1.
    assert (S2 := var_case true skip_group schema_pb x10 SMtype (byte_z (m_mtype m))
      (bfield x1a (m_method m) ++ bfield x22 (status_encode (m_status m))
       ++ bfield x2a (args_encode (m_meta m)) ++ vfield x30 (byte_z (m_codec m)) ++ bfield x3a (m_body m))
      (mkPbraw (m_seq m) 0 [] [] [] 0 [] []) (mkPbraw (m_seq m) (byte_z (m_mtype m)) [] [] [] 0 [] [])
      ltac:(reflexivity) ltac:(reflexivity) ltac:(vm_compute; discriminate) ltac:(reflexivity)
      ltac:(reflexivity) (byte_z_ok _) ltac:(cbn [set_var pr_seq pr_mtype pr_method pr_status pr_meta pr_codec pr_body pr_xfer]; rewrite Imt; reflexivity)
      ltac:(intros ->; reflexivity)).
    field_step S2. clear S2.
    assert (S3 := len_case true skip_group schema_pb x1a SMethod (m_method m)
      (bfield x22 (status_encode (m_status m))
       ++ bfield x2a (args_encode (m_meta m)) ++ vfield x30 (byte_z (m_codec m)) ++ bfield x3a (m_body m))
      (mkPbraw (m_seq m) (byte_z (m_mtype m)) [] [] [] 0 [] [])
      (mkPbraw (m_seq m) (byte_z (m_mtype m)) (m_method m) [] [] 0 [] [])
      ltac:(reflexivity) ltac:(reflexivity) ltac:(vm_compute; discriminate) ltac:(reflexivity)
      ltac:(reflexivity) ltac:(intros _ _; exact Hutf) L1 ltac:(reflexivity) ltac:(intros ->; reflexivity)).
    field_step S3. clear S3.
    assert (S4 := len_case true skip_group schema_pb x22 SStatus (status_encode (m_status m))
      (bfield x2a (args_encode (m_meta m)) ++ vfield x30 (byte_z (m_codec m)) ++ bfield x3a (m_body m))
      (mkPbraw (m_seq m) (byte_z (m_mtype m)) (m_method m) [] [] 0 [] [])
      (mkPbraw (m_seq m) (byte_z (m_mtype m)) (m_method m) (status_encode (m_status m)) [] 0 [] [])
      ltac:(reflexivity) ltac:(reflexivity) ltac:(vm_compute; discriminate) ltac:(reflexivity)
      ltac:(reflexivity) ltac:(discriminate) L2 ltac:(reflexivity) ltac:(intros ->; reflexivity)).
    field_step S4. clear S4.
    assert (S5 := len_case true skip_group schema_pb x2a SMeta (args_encode (m_meta m))
      (vfield x30 (byte_z (m_codec m)) ++ bfield x3a (m_body m))
      (mkPbraw (m_seq m) (byte_z (m_mtype m)) (m_method m) (status_encode (m_status m)) [] 0 [] [])
      (mkPbraw (m_seq m) (byte_z (m_mtype m)) (m_method m) (status_encode (m_status m)) (args_encode (m_meta m)) 0 [] [])
      ltac:(reflexivity) ltac:(reflexivity) ltac:(vm_compute; discriminate) ltac:(reflexivity)
      ltac:(reflexivity) ltac:(discriminate) L3 ltac:(reflexivity) ltac:(intros ->; reflexivity)).
    field_step S5. clear S5.
    assert (S6 := var_case true skip_group schema_pb x30 SCodec (byte_z (m_codec m))
      (bfield x3a (m_body m))
      (mkPbraw (m_seq m) (byte_z (m_mtype m)) (m_method m) (status_encode (m_status m)) (args_encode (m_meta m)) 0 [] [])
      (mkPbraw (m_seq m) (byte_z (m_mtype m)) (m_method m) (status_encode (m_status m)) (args_encode (m_meta m)) (byte_z (m_codec m)) [] [])
      ltac:(reflexivity) ltac:(reflexivity) ltac:(vm_compute; discriminate) ltac:(reflexivity)
      ltac:(reflexivity) (byte_z_ok _) ltac:(cbn [set_var pr_seq pr_mtype pr_method pr_status pr_meta pr_codec pr_body pr_xfer]; rewrite Icd; reflexivity)
      ltac:(intros ->; reflexivity)).
    field_step S6. clear S6.
    rewrite <- (app_nil_r (bfield x3a (m_body m))) in *.
    assert (S7 := len_case true skip_group schema_pb x3a SBody (m_body m) []
      (mkPbraw (m_seq m) (byte_z (m_mtype m)) (m_method m) (status_encode (m_status m)) (args_encode (m_meta m)) (byte_z (m_codec m)) [] [])
      (mkPbraw (m_seq m) (byte_z (m_mtype m)) (m_method m) (status_encode (m_status m)) (args_encode (m_meta m)) (byte_z (m_codec m)) (m_body m) [])
      ltac:(reflexivity) ltac:(reflexivity) ltac:(vm_compute; discriminate) ltac:(reflexivity)
      ltac:(reflexivity) ltac:(discriminate) L4 ltac:(reflexivity) ltac:(intros ->; reflexivity)).
    field_step S7. clear S7.
    destruct fuel6; [cbn [length] in *; lia|]. reflexivity.
  Qed.
End PbDecode.

Section WsPbDecode.
  Variable skip_group : bytes -> res bytes.

  Lemma wspb_decode_payload m body ids :
    int32_ok (m_seq m) = true -> len_ok m body ids ->
    pb_decode false skip_group schema_wspb (wspb_payload ids m body)
    = Ok (mkPbraw (m_seq m) (byte_z (m_mtype m)) (m_method m) [] (args_encode (m_meta m))
                  (byte_z (m_codec m)) body ids).
  Proof.
    intros Hseq (L1 & _ & L3 & L4 & L5).
    unfold pb_decode. set (fuel0 := S (length (wspb_payload ids m body))).
    assert (Hl0 : (length (wspb_payload ids m body) < fuel0)%nat) by (unfold fuel0; lia).
    clearbody fuel0. unfold wspb_payload in *. unfold pbraw0.
    pose proof (i32_u64 _ Hseq) as Iseq.
    pose proof (i32_u64 _ (byte_z_ok (m_mtype m))) as Imt.
    pose proof (i32_u64 _ (byte_z_ok (m_codec m))) as Icd.
    assert (S1 := var_case false skip_group schema_wspb x08 SSeq (m_seq m)
      (vfield x10 (byte_z (m_mtype m)) ++ bfield x1a (m_method m)
       ++ bfield x22 (args_encode (m_meta m)) ++ vfield x28 (byte_z (m_codec m))
       ++ bfield x32 body ++ bfield x3a ids)
      (mkPbraw 0 0 [] [] [] 0 [] []) (mkPbraw (m_seq m) 0 [] [] [] 0 [] [])
      ltac:(reflexivity) ltac:(reflexivity) ltac:(vm_compute; discriminate) ltac:(reflexivity)
      ltac:(reflexivity) Hseq ltac:(cbn [set_var pr_seq pr_mtype pr_method pr_status pr_meta pr_codec pr_body pr_xfer]; rewrite Iseq; reflexivity)
      ltac:(intros ->; reflexivity)).
    field_step S1. clear S1.
    assert (S2 := var_case false skip_group schema_wspb x10 SMtype (byte_z (m_mtype m))
      (bfield x1a (m_method m)
       ++ bfield x22 (args_encode (m_meta m)) ++ vfield x28 (byte_z (m_codec m))
       ++ bfield x32 body ++ bfield x3a ids)
      (mkPbraw (m_seq m) 0 [] [] [] 0 [] []) (mkPbraw (m_seq m) (byte_z (m_mtype m)) [] [] [] 0 [] [])
      ltac:(reflexivity) ltac:(reflexivity) ltac:(vm_compute; discriminate) ltac:(reflexivity)
      ltac:(reflexivity) (byte_z_ok _) ltac:(cbn [set_var pr_seq pr_mtype pr_method pr_status pr_meta pr_codec pr_body pr_xfer]; rewrite Imt; reflexivity)
      ltac:(intros ->; reflexivity)).
    field_step S2. clear S2.
    assert (S3 := len_case false skip_group schema_wspb x1a SMethod (m_method m)
      (bfield x22 (args_encode (m_meta m)) ++ vfield x28 (byte_z (m_codec m))
       ++ bfield x32 body ++ bfield x3a ids)
      (mkPbraw (m_seq m) (byte_z (m_mtype m)) [] [] [] 0 [] [])
      (mkPbraw (m_seq m) (byte_z (m_mtype m)) (m_method m) [] [] 0 [] [])
      ltac:(reflexivity) ltac:(reflexivity) ltac:(vm_compute; discriminate) ltac:(reflexivity)
      ltac:(reflexivity) ltac:(discriminate) L1 ltac:(reflexivity) ltac:(intros ->; reflexivity)).
    field_step S3. clear S3.
    assert (S5 := len_case false skip_group schema_wspb x22 SMeta (args_encode (m_meta m))
      (vfield x28 (byte_z (m_codec m)) ++ bfield x32 body ++ bfield x3a ids)
      (mkPbraw (m_seq m) (byte_z (m_mtype m)) (m_method m) [] [] 0 [] [])
      (mkPbraw (m_seq m) (byte_z (m_mtype m)) (m_method m) [] (args_encode (m_meta m)) 0 [] [])
      ltac:(reflexivity) ltac:(reflexivity) ltac:(vm_compute; discriminate) ltac:(reflexivity)
      ltac:(reflexivity) ltac:(discriminate) L3 ltac:(reflexivity) ltac:(intros ->; reflexivity)).
    field_step S5. clear S5.
    assert (S6 := var_case false skip_group schema_wspb x28 SCodec (byte_z (m_codec m))
      (bfield x32 body ++ bfield x3a ids)
      (mkPbraw (m_seq m) (byte_z (m_mtype m)) (m_method m) [] (args_encode (m_meta m)) 0 [] [])
      (mkPbraw (m_seq m) (byte_z (m_mtype m)) (m_method m) [] (args_encode (m_meta m)) (byte_z (m_codec m)) [] [])
      ltac:(reflexivity) ltac:(reflexivity) ltac:(vm_compute; discriminate) ltac:(reflexivity)
      ltac:(reflexivity) (byte_z_ok _) ltac:(cbn [set_var pr_seq pr_mtype pr_method pr_status pr_meta pr_codec pr_body pr_xfer]; rewrite Icd; reflexivity)
      ltac:(intros ->; reflexivity)).
    field_step S6. clear S6.
    assert (S7 := len_case false skip_group schema_wspb x32 SBody body (bfield x3a ids)
      (mkPbraw (m_seq m) (byte_z (m_mtype m)) (m_method m) [] (args_encode (m_meta m)) (byte_z (m_codec m)) [] [])
      (mkPbraw (m_seq m) (byte_z (m_mtype m)) (m_method m) [] (args_encode (m_meta m)) (byte_z (m_codec m)) body [])
      ltac:(reflexivity) ltac:(reflexivity) ltac:(vm_compute; discriminate) ltac:(reflexivity)
      ltac:(reflexivity) ltac:(discriminate) L4 ltac:(reflexivity) ltac:(intros ->; reflexivity)).
    field_step S7. clear S7.
    rewrite <- (app_nil_r (bfield x3a ids)) in *.
    assert (S8 := len_case false skip_group schema_wspb x3a SXfer ids []
      (mkPbraw (m_seq m) (byte_z (m_mtype m)) (m_method m) [] (args_encode (m_meta m)) (byte_z (m_codec m)) body [])
      (mkPbraw (m_seq m) (byte_z (m_mtype m)) (m_method m) [] (args_encode (m_meta m)) (byte_z (m_codec m)) body ids)
      ltac:(reflexivity) ltac:(reflexivity) ltac:(vm_compute; discriminate) ltac:(reflexivity)
      ltac:(reflexivity) ltac:(discriminate) L5 ltac:(reflexivity) ltac:(intros ->; reflexivity)).
    field_step S8. clear S8.
    destruct fuel6; [cbn [length] in *; lia|]. reflexivity.
  Qed.
End WsPbDecode.

(* ---- pbproto: frames and streams ---- *)
Section PbProtoProofs.
  Variable skip_group : bytes -> res bytes.

  Lemma pb_parse_ok m :
    pb_ok m = true -> len_ok m (m_body m) [] ->
    pb_parse skip_group (pb_payload m) = Ok m.
  Proof.
    intros Hok Hlen. unfold pb_parse. rewrite pb_decode_payload by assumption. cbn [rbind pr_body].
    unfold pb_ok in Hok. apply andb_true_iff in Hok as [H Hmeta]. apply andb_true_iff in H as [H Hutf].
    apply andb_true_iff in H as [Hseq Hcode].
    unfold msg_of_pbraw. cbn [pr_seq pr_mtype pr_method pr_status pr_meta pr_codec].
    rewrite status_roundtrip by exact Hcode. cbn [rbind].
    rewrite args_roundtrip by exact Hmeta. cbn [rbind].
    rewrite !wrap8_byte_z, msg_eta. reflexivity.
  Qed.

  Theorem pb_roundtrip_lemma reg lim ids p m f size rest :
    (forall g, In g reg -> inverts g) ->
    pipe_append reg [] ids = (p, None) ->
    pb_ok m = true -> len_ok m (m_body m) [] ->
    pb_pack lim p m = Ok (f, size) ->
    blen f < 4294967296 ->
    pb_unpack skip_group reg lim (f ++ rest) = Ok (m, ids, size, rest) /\ 4 + size = blen f.
  Proof.
    intros Hinv Hp Hok Hlen Hpack Hf. unfold pb_unpack, pb_pack in *.
    destruct (negb (utf8_valid (m_method m))); [discriminate|].
    eapply pfx_roundtrip; eauto using pb_parse_ok.
  Qed.

  Definition wf_pbframe reg lim (x : list byte * msg * bytes) : Prop :=
    let '(ids, m, f) := x in
    exists p size, pipe_append reg [] ids = (p, None) /\ pb_ok m = true /\ len_ok m (m_body m) [] /\
                   pb_pack lim p m = Ok (f, size) /\ blen f < 4294967296.

  Theorem pb_stream_lemma reg lim :
    (forall g, In g reg -> inverts g) ->
    forall (xs : list (list byte * msg * bytes)) fuel,
    Forall (wf_pbframe reg lim) xs ->
    (length xs < fuel)%nat ->
    decode_all fuel (fun s => retuple (pb_unpack skip_group reg lim s)) (concat (map snd xs))
    = (map (fun '(ids, m, f) => (m, ids, blen f - 4)) xs, Ok tt).
  Proof.
    intros Hinv xs fuel Hwf Hfuel. unfold pb_unpack.
    apply (pfx_stream (pb_parse skip_group) pb_payload (fun m => m) reg lim Hinv xs fuel); [|exact Hfuel].
    eapply Forall_impl; [|exact Hwf]. intros [[ids m] f] (p & size & Hp & Hok & Hl & Hpack & Hf).
    exists p, size. unfold pb_pack in Hpack. destruct (negb (utf8_valid (m_method m))); [discriminate|].
    repeat split; auto using pb_parse_ok.
  Qed.

  Theorem pb_size_alone_lemma reg lim :
    (forall g, In g reg -> inverts g) ->
    forall pre1 pre2 x d,
    Forall (wf_pbframe reg lim) pre1 -> Forall (wf_pbframe reg lim) pre2 -> wf_pbframe reg lim x ->
    let dec pre := fst (decode_all (S (S (length pre))) (fun s => retuple (pb_unpack skip_group reg lim s))
                                   (concat (map snd (pre ++ [x])))) in
    last (dec pre1) d = last (dec pre2) d /\
    last (dec pre1) d = (let '(ids, m, f) := x in (m, ids, blen f - 4)).
  Proof.
    intros Hinv pre1 pre2 x d H1 H2 Hx dec.
    assert (E : forall pre, Forall (wf_pbframe reg lim) pre ->
                last (dec pre) d = (let '(ids, m, f) := x in (m, ids, blen f - 4))).
    { intros pre Hpre. unfold dec. rewrite (pb_stream_lemma reg lim Hinv).
      - cbn [fst]. rewrite map_app. cbn [map]. rewrite last_last. reflexivity.
      - apply Forall_app. split; [exact Hpre | constructor; [exact Hx | constructor]].
      - rewrite app_length. cbn [length]. lia. }
    rewrite (E pre1 H1), (E pre2 H2). split; reflexivity.
  Qed.
End PbProtoProofs.

Theorem pb_method_unguarded_refuted :
  exists m, int32_ok (m_seq m) = true /\ pb_pack 1000 [] m = Err.
Proof. exists (mkMsg 1 x01 [xff] status_zero [] x6a []). split; reflexivity. Qed.

(* ---- websocket protobuf sub-protocol ---- *)
Section WsPbProofs.
  Variable skip_group : bytes -> res bytes.

  Theorem wspb_roundtrip_lemma reg lim ids p m b size :
    (forall g, In g reg -> inverts g) ->
    pipe_append reg [] ids = (p, None) ->
    wspb_ok m = true ->
    (forall body, pipe_pack p (m_body m) = Some body -> len_ok m body ids) ->
    wspb_pack lim p m = Ok (b, size) ->
    wspb_unpack skip_group reg lim b = Ok (m, ids, size) /\ size = sub_size lim b.
  Proof.
    intros Hinv Hp Hok Hlen Hpack.
    destruct (append_ok_ids _ _ _ Hp) as (Hids & _ & _).
    unfold wspb_pack in Hpack.
    destruct (pipe_pack p (m_body m)) as [body|] eqn:Hpp; cbn [of_option rbind] in Hpack; [|discriminate].
    apply Ok_inj in Hpack. apply pair_equal_spec in Hpack as [Eb Es].
    rewrite Hids in Eb, Es. subst b size. split; [|reflexivity].
    unfold wspb_ok in Hok. apply andb_true_iff in Hok as [H Hcause]. apply andb_true_iff in H as [H Hmsg].
    apply andb_true_iff in H as [H Hcode]. apply andb_true_iff in H as [Hseq Hmeta].
    unfold wspb_unpack. rewrite wspb_decode_payload by auto. cbn [rbind pr_xfer pr_body pr_meta pr_seq pr_mtype pr_method pr_codec].
    rewrite (append_each_err_ok reg ids p Hp). cbn [of_option rbind].
    rewrite (registered_pipe_roundtrip reg ids p Hinv Hp _ _ Hpp). cbn [of_option rbind].
    rewrite args_roundtrip by exact Hmeta. cbn [rbind].
    rewrite !wrap8_byte_z, Hids.
    assert (Est : status_zero = m_status m).
    { destruct (m_status m) as [c ms ca]. cbn [st_code st_msg st_cause] in *.
      apply Z.eqb_eq in Hcode. subst c. destruct ms; [|discriminate]. destruct ca; [discriminate|]. reflexivity. }
    rewrite Est, msg_eta. reflexivity.
  Qed.

  Lemma wspb_size_own reg lim b m ids size :
    wspb_unpack skip_group reg lim b = Ok (m, ids, size) -> size = sub_size lim b.
  Proof.
    unfold wspb_unpack. destruct (pb_decode _ _ _ _); cbn [rbind]; try discriminate.
    destruct (append_each_err _ _ _); cbn [of_option rbind]; [|discriminate].
    destruct (pipe_unpack _ _); cbn [of_option rbind]; [|discriminate].
    destruct (args_parse _); cbn [rbind]; try discriminate.
    intros H. apply Ok_inj in H. congruence.
  Qed.
End WsPbProofs.

(* the frame has no status member: a message with a status does not come back *)
Theorem wspb_status_unguarded_refuted skip_group :
  exists m b size, wspb_pack 1000 [] m = Ok (b, size) /\
                   wspb_unpack skip_group [] 1000 b <> Ok (m, [], size).
Proof.
  exists (mkMsg 1 x02 (str "/a") (mkStatus 404 (str "nf") None) [] x6a (str "x")).
  eexists. eexists. split; [vm_compute; reflexivity|]. vm_compute. intros H. discriminate H.
Qed.

(* ---- the websocket protocol around a sub-protocol ---- *)
Section WsLayer.
  Variable ws_frame : bytes -> bytes.
  Variable ws_unframe : bytes -> res (bytes * bytes).
  Hypothesis framing : forall b rest, ws_unframe (ws_frame b ++ rest) = Ok (b, rest).
  Hypothesis frame_nonnil : forall b, ws_frame b <> [].
  Variable sub : bytes -> res (msg * list byte * N).

  Theorem ws_roundtrip_lemma b m ids size rest :
    sub b = Ok (m, ids, size) ->
    ws_unpack ws_unframe sub (ws_frame b ++ rest) = Ok (m, ids, size, rest).
  Proof. intros H. unfold ws_unpack. rewrite framing. cbn [rbind]. rewrite H. reflexivity. Qed.

  Theorem ws_stream_lemma (xs : list (bytes * (msg * list byte * N))) fuel :
    Forall (fun x => sub (fst x) = Ok (snd x)) xs ->
    (length xs < fuel)%nat ->
    decode_all fuel (fun s => retuple (ws_unpack ws_unframe sub s))
               (concat (map (fun x => ws_frame (fst x)) xs))
    = (map snd xs, Ok tt).
  Proof.
    intros Hwf Hfuel.
    apply (decode_all_frames _ (fun x => ws_frame (fst x)) snd); [|exact Hfuel].
    intros [b [[m ids] size]] Hin. rewrite Forall_forall in Hwf. specialize (Hwf _ Hin).
    cbn [fst snd] in *. split; [apply frame_nonnil|]. intros rest.
    rewrite (ws_roundtrip_lemma b m ids size rest Hwf). reflexivity.
  Qed.
End WsLayer.
