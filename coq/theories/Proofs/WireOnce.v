(* A call completes at most once (property C01): an invariant of every step sequence of
   Model/Wire.v, with or without the hypotheses of the guarded theorems. *)
From Coq Require Import Strings.String Strings.Byte.
From Coq Require Import List Arith NArith ZArith Bool Lia.
From Verif Require Import Base.Bytes Base.Outcome Model.Quote Model.Args Model.Numfmt
  Model.StatusQuery Model.Xfer Model.RawProto Model.Wire Proofs.WireProofs.
Import ListNotations.
Local Open Scope N_scope.

Definition nos (e : ep) : list N :=
  map (fun cr : callrec * result => c_no (fst cr)) (e_done e) ++
  map (fun kc : Z * callrec => c_no (snd kc)) (e_pending e).

Definition once_inv (e : ep) : Prop :=
  NoDup (nos e) /\ (forall n, In n (nos e) -> n <= e_count e).

Lemma pdel_incl p q x : In x (pdel p q) -> In x p.
Proof.
  induction p as [|[k c] r IH]; cbn; [tauto|].
  destruct (Z.eqb k q); cbn; intuition.
Qed.

Lemma pdel_nos_nodup p q :
  NoDup (map (fun kc : Z * callrec => c_no (snd kc)) p) ->
  NoDup (map (fun kc : Z * callrec => c_no (snd kc)) (pdel p q)).
Proof.
  induction p as [|[k c] r IH]; cbn; intros H; [constructor|].
  inversion H as [|? ? Hn Hr]; subst.
  destruct (Z.eqb k q); [apply IH; exact Hr|].
  cbn. constructor; [|apply IH; exact Hr].
  intros Hin. apply Hn. apply in_map_iff in Hin as ([k' c'] & E & Hin').
  apply in_map_iff. exists (k', c'). split; [exact E | eapply pdel_incl; eauto].
Qed.

Lemma pdel_nos_in p q n :
  In n (map (fun kc : Z * callrec => c_no (snd kc)) (pdel p q)) ->
  In n (map (fun kc : Z * callrec => c_no (snd kc)) p).
Proof.
  intros H. apply in_map_iff in H as (x & E & Hin). apply in_map_iff.
  exists x. split; [exact E | eapply pdel_incl; eauto].
Qed.

(* the entry found under q is gone after the delete, also as an allocation number *)
Lemma pdel_nos_removed p q c :
  NoDup (map (fun kc : Z * callrec => c_no (snd kc)) p) ->
  pget p q = Some c ->
  ~ In (c_no c) (map (fun kc : Z * callrec => c_no (snd kc)) (pdel p q)).
Proof.
  induction p as [|[k c'] r IH]; cbn; intros H G; [discriminate|].
  inversion H as [|? ? Hn Hr]; subst.
  destruct (Z.eqb k q) eqn:E.
  - inversion G; subst c'. intros Hin. apply Hn. eapply pdel_nos_in; eauto.
  - cbn. intros [Heq|Hin].
    + apply Hn. rewrite Heq. apply in_map_iff. exists (q, c). split; [reflexivity|].
      clear -G. induction r as [|[k2 c2] r IHr]; cbn in G; [discriminate|].
      destruct (Z.eqb k2 q) eqn:E2.
      * apply Z.eqb_eq in E2. inversion G; subst. left. reflexivity.
      * right. apply IHr. exact G.
    + exact (IH Hr G Hin).
Qed.

Lemma NoDup_app_iff {A} (l1 l2 : list A) :
  NoDup (l1 ++ l2) <-> NoDup l1 /\ NoDup l2 /\ (forall x, In x l1 -> ~ In x l2).
Proof.
  induction l1 as [|a l1 IH]; cbn.
  - split; [intros H; repeat split; [constructor | exact H | tauto] | tauto].
  - split.
    + intros H. inversion H as [|? ? Hn Hr]; subst. apply IH in Hr as (H1 & H2 & H3).
      repeat split.
      * constructor; [|exact H1]. intros Hin. apply Hn. apply in_app_iff. auto.
      * exact H2.
      * intros x [<-|Hx] Hin; [apply Hn; apply in_app_iff; auto | exact (H3 x Hx Hin)].
    + intros (H1 & H2 & H3). inversion H1 as [|? ? Hn Hr]; subst. constructor.
      * intros Hin. apply in_app_iff in Hin as [Hin|Hin]; [auto | exact (H3 a (or_introl eq_refl) Hin)].
      * apply IH. repeat split; auto.
Qed.

Lemma once_ep0 : once_inv ep0.
Proof. split; [constructor | intros n []]. Qed.

(* the endpoint changes of one step, one lemma per shape *)
Definition done_nos (d : list (callrec * result)) : list N :=
  map (fun cr : callrec * result => c_no (fst cr)) d.

Lemma once_same_nos e e' :
  once_inv e -> done_nos (e_done e') = done_nos (e_done e) -> e_pending e' = e_pending e ->
  e_count e <= e_count e' -> once_inv e'.
Proof.
  intros [H1 H2] Ed Ep Ec. unfold once_inv, nos, done_nos in *. rewrite Ed, Ep. split; [exact H1|].
  intros n Hn. specialize (H2 n Hn). lia.
Qed.

Lemma once_same e e' :
  once_inv e -> e_done e' = e_done e -> e_pending e' = e_pending e -> e_count e <= e_count e' ->
  once_inv e'.
Proof. intros H Ed. apply once_same_nos; [exact H | rewrite Ed; reflexivity]. Qed.

(* the status assignment of a returning caller keeps the calls of the history *)
Lemma overwrite_nos c d : done_nos (overwrite c d) = done_nos d.
Proof.
  unfold done_nos, overwrite. rewrite map_map. apply map_ext. intros cr.
  destruct (N.eqb (c_no (fst cr)) (c_no c)); reflexivity.
Qed.

(* ... and changes nothing at all when the call is still in the table *)
Lemma overwrite_pending e c :
  once_inv e -> pget (e_pending e) (c_seq c) = Some c -> overwrite c (e_done e) = e_done e.
Proof.
  intros [H1 _] G. unfold nos in H1.
  assert (Cin : In (c_no c) (map (fun kc : Z * callrec => c_no (snd kc)) (e_pending e))).
  { clear -G. induction (e_pending e) as [|[k2 c2] r IHr]; cbn in G; [discriminate|].
    destruct (Z.eqb k2 (c_seq c)); [inversion G; subst; left; reflexivity | right; apply IHr; exact G]. }
  assert (Hno : forall cr, In cr (e_done e) -> N.eqb (c_no (fst cr)) (c_no c) = false).
  { intros cr Hin. apply N.eqb_neq. intros E.
    revert H1. generalize (e_pending e) Cin. intros p Cin' H1.
    assert (Din : In (c_no c) (map (fun cr : callrec * result => c_no (fst cr)) (e_done e))).
    { apply in_map_iff. exists cr. auto. }
    clear -H1 Din Cin'. induction (map (fun cr : callrec * result => c_no (fst cr)) (e_done e)) as [|a l IH].
    - destruct Din.
    - cbn in H1. inversion H1 as [|? ? Hn Hr]; subst. destruct Din as [->|Din].
      + apply Hn. apply in_app_iff. right. exact Cin'.
      + exact (IH Hr Din). }
  unfold overwrite. rewrite <- (map_id (e_done e)) at 2. apply map_ext_in.
  intros cr Hin. rewrite (Hno cr Hin). reflexivity.
Qed.

Lemma once_store e e' c :
  once_inv e -> c_no c = e_count e + 1 -> e_count e' = e_count e + 1 ->
  e_done e' = e_done e -> e_pending e' = pset (e_pending e) (c_seq c) c -> once_inv e'.
Proof.
  intros [H1 H2] En Ec Ed Ep. unfold once_inv, nos in *. rewrite Ed, Ep, Ec. unfold pset. cbn [map snd].
  apply NoDup_app_iff in H1 as (D1 & D2 & D3). split.
  - apply NoDup_app_iff. repeat split.
    + exact D1.
    + constructor; [|apply pdel_nos_nodup; exact D2].
      intros Hin. apply pdel_nos_in in Hin.
      assert (c_no c <= e_count e) by (apply H2; apply in_app_iff; auto). lia.
    + intros x Hx [Heq|Hin].
      * assert (x <= e_count e) by (apply H2; apply in_app_iff; auto). lia.
      * apply (D3 x Hx). eapply pdel_nos_in; eauto.
  - intros n Hn. apply in_app_iff in Hn as [Hn|[Hn|Hn]].
    + assert (n <= e_count e) by (apply H2; apply in_app_iff; auto). lia.
    + lia.
    + apply pdel_nos_in in Hn. assert (n <= e_count e) by (apply H2; apply in_app_iff; auto). lia.
Qed.

Lemma once_localerr e e' c r :
  once_inv e -> c_no c = e_count e + 1 -> e_count e' = e_count e + 1 ->
  e_done e' = (c, r) :: e_done e -> e_pending e' = pdel (e_pending e) (c_seq c) -> once_inv e'.
Proof.
  intros [H1 H2] En Ec Ed Ep. unfold once_inv, nos in *. rewrite Ed, Ep, Ec. cbn [map fst].
  apply NoDup_app_iff in H1 as (D1 & D2 & D3). split.
  - apply NoDup_app_iff. repeat split.
    + constructor; [|exact D1]. intros Hin.
      assert (c_no c <= e_count e) by (apply H2; apply in_app_iff; auto). lia.
    + apply pdel_nos_nodup. exact D2.
    + intros x [Heq|Hx] Hin.
      * apply pdel_nos_in in Hin.
        assert (x <= e_count e) by (apply H2; apply in_app_iff; auto). lia.
      * apply (D3 x Hx). eapply pdel_nos_in; eauto.
  - intros n Hn. apply in_app_iff in Hn as [[Hn|Hn]|Hn].
    + lia.
    + assert (n <= e_count e) by (apply H2; apply in_app_iff; auto). lia.
    + apply pdel_nos_in in Hn. assert (n <= e_count e) by (apply H2; apply in_app_iff; auto). lia.
Qed.

Lemma once_complete e e' q c r :
  once_inv e -> pget (e_pending e) q = Some c -> e_count e' = e_count e ->
  e_done e' = (c, r) :: e_done e -> e_pending e' = pdel (e_pending e) q -> once_inv e'.
Proof.
  intros [H1 H2] G Ec Ed Ep. unfold once_inv, nos in *. rewrite Ed, Ep, Ec. cbn [map fst].
  apply NoDup_app_iff in H1 as (D1 & D2 & D3).
  assert (Cin : In (c_no c) (map (fun kc : Z * callrec => c_no (snd kc)) (e_pending e))).
  { clear -G. induction (e_pending e) as [|[k2 c2] r IHr]; cbn in G; [discriminate|].
    destruct (Z.eqb k2 q); [inversion G; subst; left; reflexivity | right; apply IHr; exact G]. }
  split.
  - apply NoDup_app_iff. repeat split.
    + constructor; [|exact D1]. intros Hin. exact (D3 _ Hin Cin).
    + apply pdel_nos_nodup. exact D2.
    + intros x [Heq|Hx] Hin.
      * subst x. exact (pdel_nos_removed _ _ _ D2 G Hin).
      * apply (D3 x Hx). eapply pdel_nos_in; eauto.
  - intros n Hn. apply in_app_iff in Hn as [[Hn|Hn]|Hn].
    + subst n. apply H2. apply in_app_iff. auto.
    + apply H2. apply in_app_iff. auto.
    + apply pdel_nos_in in Hn. apply H2. apply in_app_iff. auto.
Qed.

Lemma once_dispatch cfg s e m ids : once_inv e -> once_inv (dispatch cfg s e m ids).
Proof.
  intros H. unfold dispatch.
  destruct (beqb (m_mtype m) x01).
  { eapply once_same; [exact H | reflexivity | reflexivity | cbn; lia]. }
  destruct (beqb (m_mtype m) x02).
  { destruct (pget (e_pending e) (m_seq m)) as [c|] eqn:G; [|exact H].
    eapply (once_complete e _ (m_seq m) c); [exact H | exact G | reflexivity | reflexivity | reflexivity]. }
  destruct (beqb (m_mtype m) x03);
    (eapply once_same; [exact H | reflexivity | reflexivity | cbn; lia]).
Qed.

Theorem step_once cfg st ev st' :
  (forall s, once_inv (ep_of st s)) -> step cfg st ev = Some st' ->
  forall s, once_inv (ep_of st' s).
Proof.
  intros H Hstep t.
  assert (K : forall (st0 : state) s0 e', (forall s, once_inv (ep_of st0 s)) -> once_inv e' ->
              once_inv (ep_of (with_ep st0 s0 e') t)).
  { intros st0 s0 e' H0 He. destruct (side_cases s0 t) as [->| ->].
    - rewrite ep_with_ep_same. exact He.
    - rewrite ep_with_ep_other. apply H0. }
  assert (Q : forall s0 q s, once_inv (ep_of (with_queue st s0 q) s))
    by (intros; rewrite ep_with_queue; apply H).
  destruct ev as [s method args meta codec ids|s method args meta codec ids|s i chunks|s j|s k|s];
    cbn [step] in Hstep.
  - set (c := mkCall (e_count (ep_of st s) + 1) (seq_of_count (e_count (ep_of st s) + 1)) method args meta codec ids) in *.
    destruct (pack_item cfg ids (msg_of_call c)); inversion Hstep; subst st'; apply K; auto.
    + eapply (once_store (ep_of st s) _ c); [apply H | reflexivity | reflexivity | reflexivity | reflexivity].
    + eapply (once_localerr (ep_of st s) _ c); [apply H | reflexivity | reflexivity | reflexivity | reflexivity].
  - destruct (pack_item cfg ids _); inversion Hstep; subst st'; apply K; auto;
      (eapply once_same; [apply H | reflexivity | reflexivity | cbn; lia]).
  - destruct (cf_lock cfg && e_lock (ep_of st s)); [discriminate|].
    destruct (take_nth i (e_outbox (ep_of st s))) as [[x rest]|]; [|discriminate].
    destruct (_ && _); inversion Hstep; subst st'; apply K; auto.
    eapply once_same; [apply H | reflexivity | reflexivity | cbn; lia].
  - destruct (take_nth j (e_writers (ep_of st s))) as [[[[x wr] [|c rest]] others]|]; try discriminate.
    destruct rest; inversion Hstep; subst st'; apply K; auto;
      (eapply once_same; [apply H | reflexivity | reflexivity | cbn; lia]).
  - destruct (take_nth k (e_unlocking (ep_of st s))) as [[oc rest]|]; inversion Hstep; subst st'; apply K; auto.
    eapply once_same_nos; [apply H | | reflexivity | cbn; lia].
    cbn [e_done]. destruct oc; [apply overwrite_nos | reflexivity].
  - destruct (e_broken (ep_of st s)); [discriminate|].
    destruct (raw_unpack _ _ _) as [[[[m ids] sz] rest]| |].
    + destruct (cf_callmu cfg && beqb (m_mtype m) x02 && caller_inside (ep_of st s) (m_seq m));
        [discriminate|].
      inversion Hstep; subst st'. apply K; [apply Q|]. apply once_dispatch. apply H.
    + destruct (frame_complete _ _); inversion Hstep; subst st'; apply K; auto.
      eapply once_same; [apply H | reflexivity | reflexivity | cbn; lia].
    + destruct (frame_complete _ _); inversion Hstep; subst st'; apply K; auto.
      eapply once_same; [apply H | reflexivity | reflexivity | cbn; lia].
Qed.

Theorem reach_any_once cfg st : reach_any cfg st -> forall s, once_inv (ep_of st s).
Proof.
  induction 1 as [|st ev st' Hr IH Hs].
  - intros s. destruct s; apply once_ep0.
  - eapply step_once; eauto.
Qed.

Lemma reach_reach_any cfg st : reach cfg st -> reach_any cfg st.
Proof. induction 1; [constructor | econstructor; eauto]. Qed.

(* every call is completed at most once: the allocation numbers in the completion history are
   pairwise distinct, and a completed call is no longer in the table *)
Theorem completes_once_lemma cfg st : reach_any cfg st -> forall s,
  NoDup (map (fun cr : callrec * result => c_no (fst cr)) (e_done (ep_of st s))) /\
  (forall cr q c, In cr (e_done (ep_of st s)) -> pget (e_pending (ep_of st s)) q = Some c ->
     c_no c <> c_no (fst cr)).
Proof.
  intros Hr s. destruct (reach_any_once cfg st Hr s) as [H _]. unfold nos in H.
  apply NoDup_app_iff in H as (D1 & _ & D3). split; [exact D1|].
  intros cr q c Hin G E. apply (D3 (c_no (fst cr))).
  - apply in_map_iff. exists cr. auto.
  - rewrite <- E. clear -G. induction (e_pending (ep_of st s)) as [|[k2 c2] r IHr]; cbn in G; [discriminate|].
    destruct (Z.eqb k2 q); [inversion G; subst; left; reflexivity | right; apply IHr; exact G].
Qed.

(* ---- no step of the system ever sets the sequence counter back (a redial keeps it) ---- *)
Lemma dispatch_count cfg s e m ids : e_count (dispatch cfg s e m ids) = e_count e.
Proof.
  unfold dispatch. destruct (beqb (m_mtype m) x01); [reflexivity|].
  destruct (beqb (m_mtype m) x02); [destruct (pget _ _); reflexivity|].
  destruct (beqb (m_mtype m) x03); reflexivity.
Qed.

Theorem step_count_mono cfg st ev st' :
  step cfg st ev = Some st' -> forall s, e_count (ep_of st s) <= e_count (ep_of st' s).
Proof.
  intros Hstep t.
  assert (K : forall (st0 : state) s0 e', (forall s, e_count (ep_of st s) <= e_count (ep_of st0 s)) ->
              e_count (ep_of st s0) <= e_count e' ->
              e_count (ep_of st t) <= e_count (ep_of (with_ep st0 s0 e') t)).
  { intros st0 s0 e' H0 He. destruct (side_cases s0 t) as [->| ->].
    - rewrite ep_with_ep_same. exact He.
    - rewrite ep_with_ep_other. apply H0. }
  assert (R : forall s, e_count (ep_of st s) <= e_count (ep_of st s)) by (intros; lia).
  assert (Q : forall s0 q s, e_count (ep_of st s) <= e_count (ep_of (with_queue st s0 q) s))
    by (intros; rewrite ep_with_queue; lia).
  destruct ev as [s method args meta codec ids|s method args meta codec ids|s i chunks|s j|s k|s];
    cbn [step] in Hstep.
  - destruct (pack_item cfg ids _); inversion Hstep; subst st'; apply K; auto; cbn; lia.
  - destruct (pack_item cfg ids _); inversion Hstep; subst st'; apply K; auto; cbn; lia.
  - destruct (cf_lock cfg && e_lock (ep_of st s)); [discriminate|].
    destruct (take_nth i (e_outbox (ep_of st s))) as [[x rest]|]; [|discriminate].
    destruct (_ && _); inversion Hstep; subst st'; apply K; auto; cbn; lia.
  - destruct (take_nth j (e_writers (ep_of st s))) as [[[[x wr] [|c rest]] others]|]; try discriminate.
    destruct rest; inversion Hstep; subst st'; apply K; auto; cbn; lia.
  - destruct (take_nth k (e_unlocking (ep_of st s))) as [[oc rest]|]; inversion Hstep; subst st'.
    apply K; auto; cbn; lia.
  - destruct (e_broken (ep_of st s)); [discriminate|].
    destruct (raw_unpack _ _ _) as [[[[m ids] sz] rest]| |].
    + destruct (cf_callmu cfg && beqb (m_mtype m) x02 && caller_inside (ep_of st s) (m_seq m));
        [discriminate|].
      inversion Hstep; subst st'. apply K; [apply Q|]. rewrite dispatch_count. lia.
    + destruct (frame_complete _ _); inversion Hstep; subst st'; apply K; auto; cbn; lia.
    + destruct (frame_complete _ _); inversion Hstep; subst st'; apply K; auto; cbn; lia.
Qed.
