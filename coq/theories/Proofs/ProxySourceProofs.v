(* The facts the translator reads off plugin/proxy/proxy.go select the variant of
   Model/Proxy.v that the theorems of Properties/C19.v are about. *)
From Coq Require Import Strings.String Strings.Byte.
From Coq Require Import List Arith NArith ZArith Bool Lia.
From Verif Require Import Base.Bytes Model.Proxy Generated.C19Proxy.
Import ListNotations.

Lemma source_variant_lemma :
  mkVariant src_forward_codec src_nil_guard src_copy_status src_set_real_ip = fixed /\
  src_real_ip_is_remote_addr = true /\
  src_single_forward = true /\ src_request_meta_add = true /\ src_reply_meta_set = true /\
  forall s, conn_class s =
            negb (Z.eqb (st_code s) 0) && Z.ltb src_class_above (st_code s)
            && Z.ltb (st_code s) src_class_below.
Proof.
  split; [vm_compute; reflexivity|]. split; [vm_compute; reflexivity|].
  split; [vm_compute; reflexivity|]. split; [vm_compute; reflexivity|].
  split; [vm_compute; reflexivity|].
  intros s. reflexivity.
Qed.
