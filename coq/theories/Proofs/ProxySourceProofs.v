(* The facts the translator reads off plugin/proxy/proxy.go select the variant of
   Model/Proxy.v that the theorems of Properties/C19.v are about. *)
From Coq Require Import Strings.String Strings.Byte.
From Coq Require Import List Arith NArith ZArith Bool Lia.
From Verif Require Import Base.Bytes Model.Proxy Generated.C19Proxy Generated.C19Session
  Proofs.ProxyProofs Proofs.ProxyRedialProofs.
Import ListNotations.

Lemma source_variant_lemma :
  mkVariant src_forward_codec src_nil_guard src_copy_status src_set_real_ip = fixed /\
  src_real_ip_is_remote_addr = true /\
  src_single_forward = true /\ src_request_meta_add = true /\ src_reply_meta_set = true /\
  forall s, conn_class s =
            negb (Z.eqb (st_code s) 0) && Z.ltb src_class_above (st_code s)
            && Z.ltb (st_code s) src_class_below.
Proof.
  split; [vm_compute; reflexivity|]. split; [vm_compute; reflexivity|].
  split; [vm_compute; reflexivity|]. split; [vm_compute; reflexivity|].
  split; [vm_compute; reflexivity|].
  intros s. reflexivity.
Qed.

(* session.go session.Call issues the call again iff it has more than one AsyncCall call
   site, or one below a branch / loop / goto *)
Definition src_call_reissues : bool :=
  negb (Nat.eqb src_call_async_sites 1) || src_call_async_nested.

Lemma source_call_lemma :
  src_call_reissues = false /\ src_write_retry_guarded = true /\
  forall h cl ft be pa frq,
    client_call src_call_reissues h cl ft be pa frq
    = session_forwarder be pa (fault_failure cl ft) frq.
Proof.
  split; [vm_compute; reflexivity|]. split; [vm_compute; reflexivity|].
  intros. change src_call_reissues with false. apply client_call_refines.
Qed.
