(* Lemmas about the two fault paths of the handling side (Model/Plugins.v: FNoPool, FBadReply). *)
From Coq Require Import Strings.String Strings.Byte.
From Coq Require Import List Arith NArith ZArith Bool Lia Sorting.Sorted Sorting.Permutation.
From Verif Require Import Base.Bytes Model.Plugins Proofs.PluginsProofs.
Import ListNotations.

(* ------------------------------------------------------------------ fault paths: no goroutine, unwritable reply *)

Definition call_f (f : fault) (gc gs : list plugin) (h : option hview) : msg_result :=
  exchange_call_sr gc (srv_call_f f gs h).
Definition push_f (f : fault) (gc gs : list plugin) (h : option hview) : msg_result :=
  exchange_push_sr gc (srv_push_f f gs h).

Lemma call_f_shape f gc gs h :
  let r := call_f f gc gs h in
  stages_nodupb (map fst (r_cli_prh r ++ r_cli r)) = true /\
  stages_nodupb (map fst (r_srv_prh r ++ r_srv r)) = true /\
  Forall (fun sc => snd sc = gc) (r_cli_prh r ++ r_cli r) /\
  Forall (fun sc => snd sc = gs \/ exists hid hs, h = Some (hid, hs, snd sc)) (r_srv_prh r ++ r_srv r) /\
  increasingb (ranks (r_cli r)) = true /\ increasingb (ranks (r_srv r)) = true /\
  all_inb (map fst (r_cli r)) seq_call_caller = true /\
  all_inb (map fst (r_srv r)) seq_call_callee = true.
Proof. unfold call_f. destruct f; flow_cases h; repeat split; try reflexivity; forall_cases. Qed.

Lemma push_f_shape f gc gs h :
  let r := push_f f gc gs h in
  stages_nodupb (map fst (r_cli_prh r ++ r_cli r)) = true /\
  stages_nodupb (map fst (r_srv_prh r ++ r_srv r)) = true /\
  Forall (fun sc => snd sc = gc) (r_cli_prh r ++ r_cli r) /\
  Forall (fun sc => snd sc = gs \/ exists hid hs, h = Some (hid, hs, snd sc)) (r_srv_prh r ++ r_srv r) /\
  increasingb (ranks (r_cli r)) = true /\ increasingb (ranks (r_srv r)) = true /\
  all_inb (map fst (r_cli r)) seq_push_sender = true /\
  all_inb (map fst (r_srv r)) seq_push_receiver = true.
Proof. unfold push_f. destruct f; flow_cases h; repeat split; try reflexivity; forall_cases. Qed.

Lemma call_f_veto_blocks f gc gs h :
  let r := call_f f gc gs h in
  (forall s c, In (s, c) (r_cli r ++ r_srv_prh r ++ r_srv r) ->
     pre_handler s = true -> vetoes s c = true -> r_invoked r = []) /\
  (f = FNoPool -> r_invoked r = []) /\
  (r_invoked r = [] \/ exists hid hs hc, h = Some (hid, hs, hc) /\ r_invoked r = [hid] /\ r_written r = true).
Proof.
  unfold call_f. destruct f; flow_cases h; (split; [|split]); try (intros; discriminate); try reflexivity;
    try (first [left; reflexivity | right; eauto 6]);
    intros s c Hin Hp Hv; try reflexivity; exfalso;
    plan_member Hin; cbn in Hp; try discriminate; unfold vetoes in Hv; rewrite_V; discriminate.
Qed.

Lemma push_f_veto_blocks f gc gs h :
  let r := push_f f gc gs h in
  (forall s c, In (s, c) (r_cli r ++ r_srv_prh r ++ r_srv r) ->
     pre_handler s = true -> vetoes s c = true -> r_invoked r = []) /\
  (f = FNoPool -> r_invoked r = []) /\
  (r_invoked r = [] \/ exists hid hs hc, h = Some (hid, hs, hc) /\ r_invoked r = [hid] /\ r_written r = true).
Proof.
  unfold push_f. destruct f; flow_cases h; (split; [|split]); try (intros; discriminate); try reflexivity;
    try (first [left; reflexivity | right; eauto 6]);
    intros s c Hin Hp Hv; try reflexivity; exfalso;
    plan_member Hin; cbn in Hp; try discriminate; unfold vetoes in Hv; rewrite_V; discriminate.
Qed.

(* the status a refusing hook answered is what the caller receives, also when no goroutine
   is available (the refusal wins over "no goroutine") and when the reply is unwritable *)
Lemma call_f_veto_status f gc gs h :
  let r := call_f f gc gs h in
  (forall s c, In (s, c) (r_cli r) -> caller_status_stage s = true -> vetoes s c = true ->
     r_status r = verdict_of s c /\ r_status r <> 0%Z) /\
  (forall s c, In (s, c) (r_srv r) -> callee_status_stage s = true -> vetoes s c = true ->
     vetoes PreReadHeader gc = false -> vetoes PostReadReplyHeader gc = false ->
     vetoes PreReadReplyBody gc = false ->
     r_status r = verdict_of s c /\ r_status r <> 0%Z).
Proof.
  unfold call_f. destruct f; flow_cases h; split.
  all: try (intros s c Hin Hp Hv; plan_member Hin; cbn in Hp; try discriminate;
            unfold vetoes in Hv; rewrite_V; try discriminate;
            (split; [reflexivity | apply Z.eqb_neq; first [assumption | apply negb_true_iff; assumption]])).
  all: intros s c Hin Hp Hv H1 H2 H3; plan_member Hin; cbn in Hp; try discriminate;
       unfold vetoes in Hv, H1, H2, H3; rewrite_V; try discriminate;
       (split; [reflexivity | apply Z.eqb_neq; first [assumption | apply negb_true_iff; assumption]]).
Qed.

(* what the handling side answers when no goroutine is available *)
Lemma nopool_status g h :
  vetoes PreReadHeader g = false ->
  sr_invoked (srv_call_nopool g h) = [] /\
  sr_out (srv_call_nopool g h) =
    SReplied (if vetoes PostReadCallHeader g then verdict_of PostReadCallHeader g
              else match h with
                   | None => code_not_found
                   | Some (_, _, hc) => if vetoes PreReadCallBody hc then verdict_of PreReadCallBody hc
                                        else code_internal
                   end).
Proof.
  intros H. unfold srv_call_nopool. rewrite H.
  destruct (vetoes PostReadCallHeader g); [split; reflexivity|].
  destruct h as [[[hid hs] hc]|]; [|split; reflexivity].
  destruct (vetoes PreReadCallBody hc); split; reflexivity.
Qed.

(* the unwritable-reply path: the handler ran, one PreWriteReply, no PostWriteReply, 500 *)
Lemma badreply_path g hid hc :
  vetoes PreReadHeader g = false -> vetoes PostReadCallHeader g = false ->
  vetoes PreReadCallBody hc = false -> vetoes PostReadCallBody hc = false ->
  srv_call_badreply g (Some (hid, 0%Z, hc)) =
  mkSrv [(PreReadHeader, g)]
        [(PostReadCallHeader, g); (PreReadCallBody, hc); (PostReadCallBody, hc); (PreWriteReply, hc)]
        [hid] (SReplied code_internal).
Proof. intros H1 H2 H3 H4. unfold srv_call_badreply. rewrite H1, H2, H3, H4. reflexivity. Qed.

Lemma fault_variants_refuted :
  (exists g h v, vetoes PreReadHeader g = false /\ vetoes PostReadCallHeader g = true /\
     verdict_of PostReadCallHeader g = v /\ v <> code_internal /\
     sr_out (srv_call_nopool g h) = SReplied v /\
     sr_out (srv_call_nopool_overwrite g h) = SReplied code_internal) /\
  (exists g h, NoDup (map p_name g) /\
     ~ NoDup (map fst (sr_plan (srv_call_badreply_again g h))) /\
     ~ NoDup (trace_of (sr_plan (srv_call_badreply_again g h)))).
Proof.
  split.
  - exists [mkPlugin 1 (fun _ => true) (fun s => match s with PostReadCallHeader => 4001%Z | _ => 0%Z end)],
           None, 4001%Z. vm_compute. repeat split; congruence.
  - exists [plug 1], (Some (7%N, 0%Z, [plug 1])). split; [repeat constructor; intros []|].
    split; vm_compute; intros H;
      repeat match goal with H : NoDup (_ :: _) |- _ => inversion H; clear H; subst end;
      match goal with H : ~ In _ _ |- _ => apply H; cbn; tauto end.
Qed.

(* system level *)
Lemma exchange_f_none cli srv m : exchange_f FNone cli srv m = exchange cli srv m.
Proof. destruct m; reflexivity. Qed.

Lemma exchange_f_unfold f cli srv m :
  exchange_f f cli srv m =
  match m with
  | MCall _ => call_f f (global_flat cli) (global_flat srv) (lookup_view srv m)
  | MPush _ => push_f f (global_flat cli) (global_flat srv) (lookup_view srv m)
  end.
Proof. destruct m; reflexivity. Qed.

Lemma exchange_f_refines_lemma f opsc opss cli srv m :
  run opsc = Some cli -> run opss = Some srv ->
  exchange_f f cli srv m = spec_exchange_f f (spec_of opsc) (spec_of opss) m.
Proof.
  intros Rc Rs. pose proof (run_inv _ _ Rc) as Ic. pose proof (run_inv _ _ Rs) as Is.
  destruct m; cbn [exchange_f spec_exchange_f];
    rewrite (global_flat_spec _ _ Ic), (global_flat_spec _ _ Is), (lookup_spec _ _ _ _ Is); reflexivity.
Qed.

Lemma fault_hooks_once_lemma f opsc opss cli srv m :
  run opsc = Some cli -> run opss = Some srv ->
  let r := exchange_f f cli srv m in
  NoDup (map fst (r_cli_prh r ++ r_cli r)) /\ NoDup (map fst (r_srv_prh r ++ r_srv r)) /\
  NoDup (trace_of (r_cli_prh r ++ r_cli r)) /\ NoDup (trace_of (r_srv_prh r ++ r_srv r)) /\
  StronglySorted ev_le (trace_of (r_cli r)) /\ StronglySorted ev_le (trace_of (r_srv r)).
Proof.
  intros Rc Rs. pose proof (run_inv _ _ Rc) as Ic. pose proof (run_inv _ _ Rs) as Is.
  cbn zeta. rewrite exchange_f_unfold.
  assert (Hc := global_names _ _ Ic). assert (Hs := global_names _ _ Is).
  assert (Hh : forall hid hs hc, lookup_view srv m = Some (hid, hs, hc) -> NoDup (map p_name hc))
    by (intros; eapply lookup_names; eassumption).
  assert (Gen : forall r : msg_result,
    stages_nodupb (map fst (r_cli_prh r ++ r_cli r)) = true ->
    stages_nodupb (map fst (r_srv_prh r ++ r_srv r)) = true ->
    Forall (fun sc => snd sc = global_flat cli) (r_cli_prh r ++ r_cli r) ->
    Forall (fun sc => snd sc = global_flat srv \/ exists hid hs, lookup_view srv m = Some (hid, hs, snd sc)) (r_srv_prh r ++ r_srv r) ->
    increasingb (ranks (r_cli r)) = true -> increasingb (ranks (r_srv r)) = true ->
    NoDup (map fst (r_cli_prh r ++ r_cli r)) /\ NoDup (map fst (r_srv_prh r ++ r_srv r)) /\
    NoDup (trace_of (r_cli_prh r ++ r_cli r)) /\ NoDup (trace_of (r_srv_prh r ++ r_srv r)) /\
    StronglySorted ev_le (trace_of (r_cli r)) /\ StronglySorted ev_le (trace_of (r_srv r))).
  { intros r N1 N2 F1 F2 S1 S2.
    apply stages_nodupb_NoDup in N1. apply stages_nodupb_NoDup in N2.
    split; [exact N1|]. split; [exact N2|]. split; [|split; [|split]].
    - apply trace_nodup; [exact N1|]. intros s c Hin. rewrite Forall_forall in F1.
      pose proof (F1 _ Hin) as E1. cbn [snd] in E1. rewrite E1. exact Hc.
    - apply trace_nodup; [exact N2|]. intros s c Hin. rewrite Forall_forall in F2.
      destruct (F2 _ Hin) as [E|(i & hs & E)]; cbn [snd] in E; [rewrite E; exact Hs | eapply Hh; exact E].
    - apply trace_sorted, increasingb_sorted, S1.
    - apply trace_sorted, increasingb_sorted, S2. }
  destruct m.
  - destruct (call_f_shape f (global_flat cli) (global_flat srv) (lookup_view srv (MCall hid)))
      as (N1 & N2 & F1 & F2 & S1 & S2 & _). cbn zeta in *. exact (Gen _ N1 N2 F1 F2 S1 S2).
  - destruct (push_f_shape f (global_flat cli) (global_flat srv) (lookup_view srv (MPush hid)))
      as (N1 & N2 & F1 & F2 & S1 & S2 & _). cbn zeta in *. exact (Gen _ N1 N2 F1 F2 S1 S2).
Qed.

Lemma fault_veto_lemma f cli srv m :
  let r := exchange_f f cli srv m in
  (forall s c, In (s, c) (r_cli r ++ r_srv_prh r ++ r_srv r) ->
     pre_handler s = true -> vetoes s c = true -> r_invoked r = []) /\
  (f = FNoPool -> r_invoked r = []) /\
  (r_invoked r = [] \/
   exists hid hs hc, lookup_view srv m = Some (hid, hs, hc) /\ r_invoked r = [hid] /\ r_written r = true) /\
  (forall s c, In (s, c) (r_srv r) -> callee_status_stage s = true -> vetoes s c = true ->
     vetoes PreReadHeader (global_flat cli) = false ->
     vetoes PostReadReplyHeader (global_flat cli) = false ->
     vetoes PreReadReplyBody (global_flat cli) = false ->
     r_status r = verdict_of s c /\ r_status r <> 0%Z).
Proof.
  cbn zeta. rewrite exchange_f_unfold. destruct m.
  - destruct (call_f_veto_blocks f (global_flat cli) (global_flat srv) (lookup_view srv (MCall hid))) as (A & B & C).
    destruct (call_f_veto_status f (global_flat cli) (global_flat srv) (lookup_view srv (MCall hid))) as (_ & D).
    split; [exact A|]. split; [exact B|]. split; [exact C | exact D].
  - destruct (push_f_veto_blocks f (global_flat cli) (global_flat srv) (lookup_view srv (MPush hid))) as (A & B & C).
    split; [exact A|]. split; [exact B|]. split; [exact C|].
    intros s c Hin Hs. exfalso. revert s c Hin Hs. unfold push_f.
    destruct f; flow_cases (lookup_view srv (MPush hid)); intros s c Hin Hs; plan_member Hin; cbn in Hs; discriminate.
Qed.
