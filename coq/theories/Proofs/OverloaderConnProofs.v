(* Invariant of the whole-plugin model Model/OverloaderConn.v over EVERY history of
   Update / connect / hook-step / later-verdict / close / redial / retry / duplicate
   disconnect events (every state reachable by orun false from the empty plugin), and the
   refutations of the release-to-current-limiter variant (orun true). *)
From Coq Require Import Strings.String Strings.Byte.
From Coq Require Import List Arith NArith ZArith Bool Lia.
From Verif Require Import Base.Bytes Model.Threads Model.ConnLimiter Model.OverloaderConn
  Proofs.ThreadsProofs Proofs.ConnLimiterProofs.
Import ListNotations.
Local Open Scope Z_scope.

(* ---- list facts ---- *)
Lemma length_upd_lt {A : Type} (d : A) : forall i v l, (i < length l)%nat -> length (upd d i v l) = length l.
Proof.
  induction i as [|i IH]; intros v [|x r] H; cbn in *; try lia.
  rewrite IH by lia. reflexivity.
Qed.

Lemma getn_app_lt {A : Type} (d : A) i l x : (i < length l)%nat -> getn d i (l ++ [x]) = getn d i l.
Proof. intros H. unfold getn. apply app_nth1. exact H. Qed.

Lemma getn_app_len {A : Type} (d : A) l x : getn d (length l) (l ++ [x]) = x.
Proof. unfold getn. rewrite app_nth2 by lia. rewrite Nat.sub_diag. reflexivity. Qed.

(* ---- what the per-instance invariant gives ---- *)
Lemma inv_facts s : inv s ->
  c_now (l_c s) = sumz now_of (l_ss s) /\ c_tmp (l_c s) = sumz tmp_of (l_ss s) /\
  0 <= c_now (l_c s) /\ 0 <= c_tmp (l_c s) /\
  admitted s <= c_now (l_c s) /\ admitted s <= l_hw s /\
  (c_tmp (l_c s) <= c_lim (l_c s) -> admitted s <= c_lim (l_c s)).
Proof.
  intros Hi.
  pose proof (inv_now s Hi) as Hn. pose proof (inv_tmp s Hi) as Ht.
  pose proof (inv_k s Hi (l_hw s) (Z.le_refl _)) as Hk.
  pose proof (wait_nonneg (l_hw s) (l_ss s)).
  pose proof (sumz_le sess is_live pass_of live_le_pass (l_ss s)).
  pose proof (sumz_le sess is_live now_of live_le_now (l_ss s)).
  pose proof (sumz_nonneg sess now_of now_of_nonneg (l_ss s)).
  pose proof (sumz_nonneg sess tmp_of tmp_of_nonneg (l_ss s)).
  pose proof (pass_wait_le_tmp (c_lim (l_c s)) (l_ss s)).
  pose proof (wait_nonneg (c_lim (l_c s)) (l_ss s)).
  unfold admitted. repeat split; try lia.
Qed.

Lemma inv_quiescent s : inv s -> quiescent s ->
  c_now (l_c s) = admitted s + leaked s /\ c_tmp (l_c s) = admitted s + leaked s.
Proof.
  intros Hi Hq. rewrite (inv_now s Hi), (inv_tmp s Hi).
  unfold admitted, leaked. rewrite <- sumz_plus.
  split; apply sumz_ext_Forall; unfold quiescent in Hq;
    (eapply Forall_impl; [|exact Hq]); intros y Hy; cbn beta in *;
    unfold now_of, tmp_of, is_live, is_leaked; destruct (s_pc y); try discriminate; reflexivity.
Qed.

(* ---- the invariant of the plugin ---- *)
Record oinv (st : ostate) : Prop := mkOI {
  oi_inv : Forall inv (o_gens st);
  oi_cur : match o_cur st with
           | None => o_cfg st <= 0
           | Some g => (g < length (o_gens st))%nat /\ 0 < o_cfg st /\
                       c_lim (l_c (inst st g)) = o_cfg st
           end;
  oi_where : forall k g, getn HNone k (o_where st) = HInst g -> (g < length (o_gens st))%nat
}.

Lemma oinv_empty : oinv oempty.
Proof.
  constructor; cbn.
  - constructor.
  - lia.
  - intros k g H. destruct k; discriminate H.
Qed.

Lemma lev_of_not_update e k le : lev_of e = Some (k, le) ->
  forall s s', lstep true s le = Some s' -> c_lim (l_c s') = c_lim (l_c s).
Proof.
  intros H s s' Hst. pose proof (lstep_lim _ _ _ _ Hst) as Hl.
  destruct e; cbn in H; inversion H; subst; exact Hl.
Qed.

(* an event of instance g that is not a limit store: the plugin-level facts survive *)
Lemma oinv_set_inst st g s' :
  oinv st -> (g < length (o_gens st))%nat -> inv s' -> c_lim (l_c s') = c_lim (l_c (inst st g)) ->
  oinv (set_inst st g s').
Proof.
  intros [Hi Hc Hw] Hg Hs' Hl. constructor; cbn [set_inst o_gens o_cur o_cfg o_where o_free].
  - apply Forall_upd; [exact inv_ldef | exact Hs' | exact Hi].
  - destruct (o_cur st) as [c|]; [|exact Hc]. destruct Hc as (Hlt & Hpos & Hlim).
    rewrite length_upd_lt by exact Hg. split; [exact Hlt|]. split; [exact Hpos|].
    unfold inst, set_inst in *. cbn [o_gens o_cfg] in *.
    destruct (Nat.eq_dec g c) as [->|Hne].
    + rewrite getn_upd_same. lia.
    + rewrite getn_upd_other by exact Hne. exact Hlim.
  - intros k g' H. rewrite length_upd_lt by exact Hg. exact (Hw k g' H).
Qed.

Lemma ostep_inv st e st' : oinv st -> ostep false st e = Some st' -> oinv st'.
Proof.
  intros Hinv Hst. pose proof Hinv as [Hi Hc Hw].
  destruct e as [n | k sd ok | k | k ok | k | k | k | k]; cbn [ostep lev_of] in Hst.
  - (* OUpdate *)
    unfold o_update in Hst. destruct (n <=? 0) eqn:En.
    + apply Z.leb_le in En. inversion Hst; subst; clear Hst. constructor; cbn; [exact Hi | exact En | exact Hw].
    + apply Z.leb_gt in En. destruct (o_cur st) as [g|] eqn:Ecur.
      * destruct Hc as (Hlt & Hpos & Hlim).
        destruct (o_cfg st =? n) eqn:Ecfg; [inversion Hst; subst; exact Hinv|].
        destruct (lstep true (inst st g) (EUpdate n)) as [s'|] eqn:El; [|discriminate].
        inversion Hst; subst; clear Hst.
        pose proof (lstep_lim _ _ _ _ El) as Hl. cbn beta iota in Hl.
        constructor; cbn [o_gens o_cur o_cfg o_where].
        -- apply Forall_upd; [exact inv_ldef | | exact Hi].
           eapply lstep_inv; [|exact El]. exact (Forall_getn lstate ldef inv inv_ldef _ Hi g).
        -- rewrite length_upd_lt by exact Hlt. split; [exact Hlt|]. split; [lia|].
           unfold inst; cbn [o_gens]. rewrite getn_upd_same. exact Hl.
        -- intros k g' H. rewrite length_upd_lt by exact Hlt. exact (Hw k g' H).
      * inversion Hst; subst; clear Hst. constructor; cbn [o_gens o_cur o_cfg o_where].
        -- apply Forall_app. split; [exact Hi | constructor; [apply inv_init; lia | constructor]].
        -- rewrite app_length; cbn [length]. split; [lia|]. split; [lia|].
           unfold inst; cbn [o_gens]. rewrite getn_app_len. reflexivity.
        -- intros k g' H. rewrite app_length; cbn. pose proof (Hw k g' H). lia.
  - (* OConnect *)
    destruct (getn HNone k (o_where st)) eqn:Ew; try discriminate.
    destruct (o_cur st) as [g|] eqn:Ecur.
    + destruct Hc as (Hlt & Hpos & Hlim).
      destruct (lstep true (inst st g) (EConnect k sd ok)) as [s'|] eqn:El; [|discriminate].
      inversion Hst; subst; clear Hst.
      pose proof (lstep_lim _ _ _ _ El) as Hl. cbn beta iota in Hl.
      constructor; cbn [o_gens o_cur o_cfg o_where].
      * apply Forall_upd; [exact inv_ldef | | exact Hi].
        eapply lstep_inv; [|exact El]. exact (Forall_getn lstate ldef inv inv_ldef _ Hi g).
      * rewrite length_upd_lt by exact Hlt. split; [exact Hlt|]. split; [exact Hpos|].
        unfold inst; cbn [o_gens]. rewrite getn_upd_same. rewrite Hl. exact Hlim.
      * intros k' g' H. rewrite length_upd_lt by exact Hlt.
        destruct (Nat.eq_dec k k') as [->|Hne].
        -- rewrite getn_upd_same in H. inversion H; subst. exact Hlt.
        -- rewrite getn_upd_other in H by exact Hne. exact (Hw k' g' H).
    + inversion Hst; subst; clear Hst. constructor; cbn [o_gens o_cur o_cfg o_where].
      * exact Hi.
      * exact Hc.
      * intros k' g' H. destruct (Nat.eq_dec k k') as [->|Hne].
        -- rewrite getn_upd_same in H. discriminate.
        -- rewrite getn_upd_other in H by exact Hne. exact (Hw k' g' H).
  - (* OStep *)
    destruct (getn HNone k (o_where st)) as [|g|] eqn:Ew; try discriminate.
    cbn [andb] in Hst.
    destruct (lstep true (inst st g) (EStep k)) as [s'|] eqn:El; [|discriminate].
    inversion Hst; subst; clear Hst.
    apply oinv_set_inst; [exact Hinv | exact (Hw k g Ew) | |].
    + eapply lstep_inv; [|exact El]. exact (Forall_getn lstate ldef inv inv_ldef _ Hi g).
    + pose proof (lstep_lim _ _ _ _ El) as Hl. exact Hl.
  - (* OLater *)
    destruct (getn HNone k (o_where st)) as [|g|] eqn:Ew; try discriminate.
    + cbn [andb] in Hst.
      destruct (lstep true (inst st g) (ELater k ok)) as [s'|] eqn:El; [|discriminate].
      inversion Hst; subst; clear Hst.
      apply oinv_set_inst; [exact Hinv | exact (Hw k g Ew) | |].
      * eapply lstep_inv; [|exact El]. exact (Forall_getn lstate ldef inv inv_ldef _ Hi g).
      * exact (lstep_lim _ _ _ _ El).
    + unfold o_free_step in Hst. destruct (getn NIdle k (o_free st)); try discriminate.
      inversion Hst; subst. constructor; cbn; assumption.
  - (* OClose *)
    destruct (getn HNone k (o_where st)) as [|g|] eqn:Ew; try discriminate.
    + cbn [andb] in Hst.
      destruct (lstep true (inst st g) (EClose k)) as [s'|] eqn:El; [|discriminate].
      inversion Hst; subst; clear Hst.
      apply oinv_set_inst; [exact Hinv | exact (Hw k g Ew) | |].
      * eapply lstep_inv; [|exact El]. exact (Forall_getn lstate ldef inv inv_ldef _ Hi g).
      * exact (lstep_lim _ _ _ _ El).
    + unfold o_free_step in Hst. destruct (getn NIdle k (o_free st)); try discriminate.
      inversion Hst; subst. constructor; cbn; assumption.
  - (* ORedial *)
    destruct (getn HNone k (o_where st)) as [|g|] eqn:Ew; try discriminate.
    + cbn [andb] in Hst.
      destruct (lstep true (inst st g) (ERedial k)) as [s'|] eqn:El; [|discriminate].
      inversion Hst; subst; clear Hst.
      apply oinv_set_inst; [exact Hinv | exact (Hw k g Ew) | |].
      * eapply lstep_inv; [|exact El]. exact (Forall_getn lstate ldef inv inv_ldef _ Hi g).
      * exact (lstep_lim _ _ _ _ El).
    + unfold o_free_step in Hst. destruct (getn NIdle k (o_free st)); try discriminate.
      inversion Hst; subst. exact Hinv.
  - (* ORetry *)
    destruct (getn HNone k (o_where st)) as [|g|] eqn:Ew; try discriminate.
    cbn [andb] in Hst.
      destruct (lstep true (inst st g) (ERetry k)) as [s'|] eqn:El; [|discriminate].
      inversion Hst; subst; clear Hst.
      apply oinv_set_inst; [exact Hinv | exact (Hw k g Ew) | |].
      * eapply lstep_inv; [|exact El]. exact (Forall_getn lstate ldef inv inv_ldef _ Hi g).
      * exact (lstep_lim _ _ _ _ El).
  - (* ODup *)
    destruct (getn HNone k (o_where st)) as [|g|] eqn:Ew; try discriminate.
    + cbn [andb] in Hst.
      destruct (lstep true (inst st g) (EDupDisc k)) as [s'|] eqn:El; [|discriminate].
      inversion Hst; subst; clear Hst.
      apply oinv_set_inst; [exact Hinv | exact (Hw k g Ew) | |].
      * eapply lstep_inv; [|exact El]. exact (Forall_getn lstate ldef inv inv_ldef _ Hi g).
      * exact (lstep_lim _ _ _ _ El).
    + unfold o_free_step in Hst. destruct (getn NIdle k (o_free st)); try discriminate.
      inversion Hst; subst. exact Hinv.
Qed.

Lemma orun_inv tr : forall st st', oinv st -> orun false st tr = Some st' -> oinv st'.
Proof.
  induction tr as [|e r IH]; intros st st' H Hr; cbn [orun] in Hr.
  - inversion Hr; subst. exact H.
  - destruct (ostep false st e) as [st1|] eqn:E; [|discriminate].
    eapply IH; [eapply ostep_inv; eassumption | exact Hr].
Qed.

(* reachable: any history from the plugin as New builds it (no limiter; New's own
   Update(initial config) is the first event of the history, if any) *)
Definition oreach (st : ostate) : Prop := exists tr, orun false oempty tr = Some st.

Lemma oreach_inv st : oreach st -> oinv st.
Proof. intros (tr & Hr). eapply orun_inv; [exact oinv_empty | exact Hr]. Qed.

(* every limiter instance that ever existed, current or replaced, after any history *)
Lemma update_history_every_instance st g : oreach st ->
  let s := inst st g in
  c_now (l_c s) = sumz now_of (l_ss s) /\ c_tmp (l_c s) = sumz tmp_of (l_ss s) /\
  0 <= c_now (l_c s) /\ 0 <= c_tmp (l_c s) /\
  admitted s <= c_now (l_c s) /\ admitted s <= l_hw s /\
  (c_tmp (l_c s) <= c_lim (l_c s) -> admitted s <= c_lim (l_c s)).
Proof.
  intros Hr s. apply inv_facts. unfold s, inst.
  apply Forall_getn; [exact inv_ldef | exact (oi_inv st (oreach_inv st Hr))].
Qed.

Lemma update_history_instance_quiescent st g : oreach st ->
  let s := inst st g in
  quiescent s ->
  c_now (l_c s) = admitted s + leaked s /\ c_tmp (l_c s) = admitted s + leaked s.
Proof.
  intros Hr s. apply inv_quiescent. unfold s, inst.
  apply Forall_getn; [exact inv_ldef | exact (oi_inv st (oreach_inv st Hr))].
Qed.

(* the pointer and the stored configuration agree: a limiter exists exactly when the
   configured MaxConn is positive, and its limit IS the configured MaxConn *)
Lemma limit_is_configured st : oreach st ->
  match o_cur st with
  | None => o_cfg st <= 0
  | Some g => (g < length (o_gens st))%nat /\ 0 < o_cfg st /\ c_lim (l_c (inst st g)) = o_cfg st
  end.
Proof. intros Hr. exact (oi_cur st (oreach_inv st Hr)). Qed.

(* ---- a session is in the books of ONE instance: the one whose pointer its hook read ---- *)
Lemma renorm_ss t : l_ss (renorm t) = l_ss t.
Proof. unfold renorm. destruct (_ <=? _); reflexivity. Qed.

Definition lev_sess (e : lev) : option nat :=
  match e with
  | EConnect i _ _ | EStep i | ELater i _ | EClose i | ERedial i | ERetry i | EDupDisc i => Some i
  | EUpdate _ => None
  end.

(* an event of one session leaves every other session of the instance alone *)
Lemma lstep_other b s e s' j : lstep b s e = Some s' -> lev_sess e <> Some j ->
  getn sess0 j (l_ss s') = getn sess0 j (l_ss s).
Proof.
  intros E Hne. destruct e; cbn [lstep] in E; cbn [lev_sess] in Hne;
    repeat match type of E with
           | context [match ?u with _ => _ end] => destruct u eqn:?; try discriminate
           end;
    inversion E; subst; unfold lset; rewrite ?renorm_ss; cbn [l_ss]; try reflexivity;
    try (apply getn_upd_other; congruence).
Qed.

Definition belongs (st : ostate) : Prop :=
  forall g k, s_pc (getn sess0 k (l_ss (inst st g))) <> LIdle -> getn HNone k (o_where st) = HInst g.

Lemma idle_ldef k : s_pc (getn sess0 k (l_ss ldef)) = LIdle.
Proof. cbn. destruct k; reflexivity. Qed.

Lemma belongs_empty : belongs oempty.
Proof.
  intros g k H. exfalso. apply H. unfold inst, oempty; cbn [o_gens]. rewrite getn_nil. apply idle_ldef.
Qed.

Lemma lev_of_sess e k le : lev_of e = Some (k, le) -> lev_sess le = Some k.
Proof. destruct e; cbn; intros H; inversion H; subst; reflexivity. Qed.

(* the event of session k of instance g: the books of the other sessions and of the other
   instances are untouched, and k is recorded for g *)
Lemma belongs_set_inst st g k le s' :
  belongs st -> getn HNone k (o_where st) = HInst g -> lev_sess le = Some k ->
  lstep true (inst st g) le = Some s' -> belongs (set_inst st g s').
Proof.
  intros Hb Ew Hk El g1 k1 H. unfold inst, set_inst in H. cbn [o_gens] in H. cbn [set_inst o_where].
  destruct (Nat.eq_dec g g1) as [<-|Hg].
  - rewrite getn_upd_same in H. destruct (Nat.eq_dec k k1) as [<-|Hk1]; [exact Ew|].
    rewrite (lstep_other _ _ _ _ k1 El) in H by (rewrite Hk; congruence). exact (Hb g k1 H).
  - rewrite getn_upd_other in H by exact Hg. exact (Hb g1 k1 H).
Qed.

Lemma ostep_belongs st e st' : oinv st -> belongs st -> ostep false st e = Some st' -> belongs st'.
Proof.
  intros Hinv Hb Hst. pose proof Hinv as [Hi Hc Hw].
  destruct e as [n | k sd ok | k | k ok | k | k | k | k]; cbn [ostep lev_of] in Hst.
  - (* OUpdate *)
    unfold o_update in Hst. destruct (n <=? 0).
    + inversion Hst; subst. exact Hb.
    + destruct (o_cur st) as [g|] eqn:Ecur.
      * destruct (o_cfg st =? n); [inversion Hst; subst; exact Hb|].
        destruct (lstep true (inst st g) (EUpdate n)) as [s'|] eqn:El; [|discriminate].
        inversion Hst; subst; clear Hst. intros g1 k1 H. unfold inst in H. cbn [o_gens o_where] in *.
        destruct (Nat.eq_dec g g1) as [<-|Hg].
        -- rewrite getn_upd_same in H.
           rewrite (lstep_other _ _ _ _ k1 El) in H by (cbn; discriminate). exact (Hb g k1 H).
        -- rewrite getn_upd_other in H by exact Hg. exact (Hb g1 k1 H).
      * inversion Hst; subst; clear Hst. intros g1 k1 H. unfold inst in H. cbn [o_gens o_where] in *.
        destruct (lt_eq_lt_dec g1 (length (o_gens st))) as [[Hlt|Heq]|Hgt].
        -- rewrite getn_app_lt in H by exact Hlt. exact (Hb g1 k1 H).
        -- subst g1. rewrite getn_app_len in H. exfalso. apply H. cbn. destruct k1; reflexivity.
        -- exfalso. apply H.
           assert (Hov : getn ldef g1 (o_gens st ++ [linit n]) = ldef).
           { unfold getn. apply nth_overflow. rewrite app_length; cbn [length]; lia. }
           rewrite Hov. apply idle_ldef.
  - (* OConnect *)
    destruct (getn HNone k (o_where st)) eqn:Ew; try discriminate.
    destruct (o_cur st) as [g|] eqn:Ecur.
    + destruct (lstep true (inst st g) (EConnect k sd ok)) as [s'|] eqn:El; [|discriminate].
      inversion Hst; subst; clear Hst. intros g1 k1 H. unfold inst in H. cbn [o_gens o_where] in *.
      destruct (Nat.eq_dec g g1) as [<-|Hg].
      * rewrite getn_upd_same in H. destruct (Nat.eq_dec k k1) as [<-|Hk1]; [apply getn_upd_same|].
        rewrite getn_upd_other by exact Hk1.
        rewrite (lstep_other _ _ _ _ k1 El) in H by (cbn; congruence). exact (Hb g k1 H).
      * rewrite getn_upd_other in H by exact Hg. pose proof (Hb g1 k1 H) as Hold.
        destruct (Nat.eq_dec k k1) as [<-|Hk1]; [congruence|].
        rewrite getn_upd_other by exact Hk1. exact Hold.
    + inversion Hst; subst; clear Hst. intros g1 k1 H. unfold inst in H. cbn [o_gens o_where] in *.
      pose proof (Hb g1 k1 H) as Hold.
      destruct (Nat.eq_dec k k1) as [<-|Hk1]; [congruence|].
      rewrite getn_upd_other by exact Hk1. exact Hold.
  - destruct (getn HNone k (o_where st)) as [|g|] eqn:Ew; try discriminate. cbn [andb] in Hst.
    destruct (lstep true (inst st g) (EStep k)) as [s'|] eqn:El; [|discriminate].
    inversion Hst; subst. eapply belongs_set_inst; try eassumption. reflexivity.
  - destruct (getn HNone k (o_where st)) as [|g|] eqn:Ew; try discriminate.
    + cbn [andb] in Hst.
      destruct (lstep true (inst st g) (ELater k ok)) as [s'|] eqn:El; [|discriminate].
      inversion Hst; subst. eapply belongs_set_inst; try eassumption. reflexivity.
    + unfold o_free_step in Hst. destruct (getn NIdle k (o_free st)); try discriminate.
      inversion Hst; subst. exact Hb.
  - destruct (getn HNone k (o_where st)) as [|g|] eqn:Ew; try discriminate.
    + cbn [andb] in Hst.
      destruct (lstep true (inst st g) (EClose k)) as [s'|] eqn:El; [|discriminate].
      inversion Hst; subst. eapply belongs_set_inst; try eassumption. reflexivity.
    + unfold o_free_step in Hst. destruct (getn NIdle k (o_free st)); try discriminate.
      inversion Hst; subst. exact Hb.
  - destruct (getn HNone k (o_where st)) as [|g|] eqn:Ew; try discriminate.
    + cbn [andb] in Hst.
      destruct (lstep true (inst st g) (ERedial k)) as [s'|] eqn:El; [|discriminate].
      inversion Hst; subst. eapply belongs_set_inst; try eassumption. reflexivity.
    + unfold o_free_step in Hst. destruct (getn NIdle k (o_free st)); try discriminate.
      inversion Hst; subst. exact Hb.
  - destruct (getn HNone k (o_where st)) as [|g|] eqn:Ew; try discriminate. cbn [andb] in Hst.
    destruct (lstep true (inst st g) (ERetry k)) as [s'|] eqn:El; [|discriminate].
    inversion Hst; subst. eapply belongs_set_inst; try eassumption. reflexivity.
  - destruct (getn HNone k (o_where st)) as [|g|] eqn:Ew; try discriminate.
    + cbn [andb] in Hst.
      destruct (lstep true (inst st g) (EDupDisc k)) as [s'|] eqn:El; [|discriminate].
      inversion Hst; subst. eapply belongs_set_inst; try eassumption. reflexivity.
    + unfold o_free_step in Hst. destruct (getn NIdle k (o_free st)); try discriminate.
      inversion Hst; subst. exact Hb.
Qed.

Lemma orun_belongs tr : forall st st', oinv st -> belongs st -> orun false st tr = Some st' -> belongs st'.
Proof.
  induction tr as [|e r IH]; intros st st' Hi Hb Hr; cbn [orun] in Hr.
  - inversion Hr; subst. exact Hb.
  - destruct (ostep false st e) as [st1|] eqn:E; [|discriminate].
    apply (IH st1 st'); [eapply ostep_inv; eassumption | eapply ostep_belongs; eassumption | exact Hr].
Qed.

(* sessions remember the instance that admitted them: whatever Updates happened since, a
   session that appears in the books of instance g (took a ticket, holds a slot, is live,
   is being released ...) is recorded for g - hence for no other instance *)
Lemma session_belongs_to_one_instance st g k : oreach st ->
  s_pc (getn sess0 k (l_ss (inst st g))) <> LIdle ->
  getn HNone k (o_where st) = HInst g /\
  forall g', g' <> g -> s_pc (getn sess0 k (l_ss (inst st g'))) = LIdle.
Proof.
  intros (tr & Hr) H.
  pose proof (orun_belongs tr oempty st oinv_empty belongs_empty Hr) as Hb.
  split; [exact (Hb g k H)|]. intros g' Hne.
  destruct (s_pc (getn sess0 k (l_ss (inst st g')))) eqn:E; try reflexivity;
    (assert (Hn : s_pc (getn sess0 k (l_ss (inst st g'))) <> LIdle) by (rewrite E; discriminate);
     pose proof (Hb g' k Hn) as H1; pose proof (Hb g k H) as H2; congruence).
Qed.

(* ---- histories that never remove the limiter: ONE instance, which counts everybody ---- *)
Record single (st : ostate) : Prop := mkSg {
  sg_cur : o_cur st = Some 0%nat;
  sg_len : length (o_gens st) = 1%nat;
  sg_where : forall k, getn HNone k (o_where st) = HNone \/ getn HNone k (o_where st) = HInst 0;
  sg_free : o_free st = []
}.

Lemma single_set_inst st s' : single st -> single (set_inst st 0 s').
Proof.
  intros [Hc Hl Hw Hf]. constructor; cbn [set_inst o_gens o_cur o_where o_free]; try assumption.
  rewrite length_upd_lt by lia. exact Hl.
Qed.

Ltac len1 Hl :=
  first [ rewrite length_upd_lt by lia; exact Hl
        | destruct (o_gens _) as [|? [|? ?]]; cbn in *; lia ].

Lemma ostep_single st e st' :
  single st -> match e with OUpdate n => 0 < n | _ => True end ->
  ostep false st e = Some st' -> single st'.
Proof.
  intros Hs He Hst. pose proof Hs as [Hc Hl Hw Hf].
  destruct e as [n | k sd ok | k | k ok | k | k | k | k]; cbn [ostep lev_of] in Hst.
  - unfold o_update in Hst. destruct (n <=? 0) eqn:En; [apply Z.leb_le in En; lia|].
    rewrite Hc in Hst. destruct (o_cfg st =? n); [inversion Hst; subst; exact Hs|].
    destruct (lstep true (inst st 0) (EUpdate n)) as [s'|]; [|discriminate].
    inversion Hst; subst; clear Hst. constructor; cbn [o_gens o_cur o_where o_free]; try assumption; try reflexivity.
    len1 Hl.
  - destruct (getn HNone k (o_where st)) eqn:Ew; try discriminate. rewrite Hc in Hst.
    destruct (lstep true (inst st 0) (EConnect k sd ok)) as [s'|]; [|discriminate].
    inversion Hst; subst; clear Hst. constructor; cbn [o_gens o_cur o_where o_free]; try assumption; try reflexivity.
    + len1 Hl.
    + intros k'. destruct (Nat.eq_dec k k') as [->|Hne].
      * right. apply getn_upd_same.
      * rewrite getn_upd_other by exact Hne. apply Hw.
  - destruct (Hw k) as [E|E]; rewrite E in Hst; [discriminate|]. cbn [andb] in Hst.
    destruct (lstep true (inst st 0) (EStep k)) as [s'|]; [|discriminate].
    inversion Hst; subst. apply single_set_inst. exact Hs.
  - destruct (Hw k) as [E|E]; rewrite E in Hst; [discriminate|]. cbn [andb] in Hst.
    destruct (lstep true (inst st 0) (ELater k ok)) as [s'|]; [|discriminate].
    inversion Hst; subst. apply single_set_inst. exact Hs.
  - destruct (Hw k) as [E|E]; rewrite E in Hst; [discriminate|]. cbn [andb] in Hst.
    destruct (lstep true (inst st 0) (EClose k)) as [s'|]; [|discriminate].
    inversion Hst; subst. apply single_set_inst. exact Hs.
  - destruct (Hw k) as [E|E]; rewrite E in Hst; [discriminate|]. cbn [andb] in Hst.
    destruct (lstep true (inst st 0) (ERedial k)) as [s'|]; [|discriminate].
    inversion Hst; subst. apply single_set_inst. exact Hs.
  - destruct (Hw k) as [E|E]; rewrite E in Hst; [discriminate|]. cbn [andb] in Hst.
    destruct (lstep true (inst st 0) (ERetry k)) as [s'|]; [|discriminate].
    inversion Hst; subst. apply single_set_inst. exact Hs.
  - destruct (Hw k) as [E|E]; rewrite E in Hst; [discriminate|]. cbn [andb] in Hst.
    destruct (lstep true (inst st 0) (EDupDisc k)) as [s'|]; [|discriminate].
    inversion Hst; subst. apply single_set_inst. exact Hs.
Qed.

Lemma orun_single tr : forall st st', single st -> never_removed tr ->
  orun false st tr = Some st' -> single st'.
Proof.
  induction tr as [|e r IH]; intros st st' Hs Hn Hr; cbn [orun] in Hr.
  - inversion Hr; subst. exact Hs.
  - destruct (ostep false st e) as [st1|] eqn:E; [|discriminate].
    apply (IH st1 st'); [| |exact Hr].
    + eapply ostep_single; [exact Hs | | exact E]. destruct e; cbn in Hn; tauto.
    + destruct e; cbn in Hn; tauto.
Qed.

(* limit m configured at start, any history whose Updates raise or lower the limit but never
   remove it: the one limiter instance counts EVERY admitted session, so the total is at
   most its bound, and at most the configured limit whenever its holders fit under it *)
Lemma total_admitted_without_removal m tr st :
  0 < m -> never_removed tr -> orun false oempty (OUpdate m :: tr) = Some st ->
  o_cur st = Some 0%nat /\ oadmitted st = admitted (inst st 0) /\
  oadmitted st <= l_hw (inst st 0) /\
  (c_tmp (l_c (inst st 0)) <= o_cfg st -> oadmitted st <= o_cfg st).
Proof.
  intros Hm Hn Hr.
  assert (Hreach : oreach st) by (exists (OUpdate m :: tr); exact Hr).
  cbn [orun ostep] in Hr. unfold o_update in Hr.
  assert (Em : m <=? 0 = false) by (apply Z.leb_gt; exact Hm). rewrite Em in Hr. cbn [oempty o_cur] in Hr.
  assert (Hs0 : single (mkO ([] ++ [linit m]) (Some (length (@nil lstate))) m [] [])).
  { constructor; cbn; try reflexivity. intros k. left. apply getn_nil. }
  cbn [oempty o_gens o_where o_free] in Hr.
  pose proof (orun_single tr _ st Hs0 Hn Hr) as [Hc Hl Hw Hf].
  pose proof (update_history_every_instance st 0 Hreach) as Hfacts. cbn zeta in Hfacts.
  pose proof (limit_is_configured st Hreach) as Hcfg. rewrite Hc in Hcfg. destruct Hcfg as (_ & _ & Hlim).
  assert (Hadm : oadmitted st = admitted (inst st 0)).
  { unfold oadmitted, inst. rewrite Hf. destruct (o_gens st) as [|s0 [|s1 r]]; cbn in Hl; try lia.
    cbn. lia. }
  split; [exact Hc|]. split; [exact Hadm|]. rewrite Hadm. rewrite <- Hlim. tauto.
Qed.

(* ---- concrete histories ---- *)
Definition o_admit (k : nat) : list oev :=
  [OConnect k SAccept true; OStep k; OStep k; OStep k; OLater k true].
(* refused by the limit (repaired hook: the disconnect hook finds no holder, one step) *)
Definition o_refused (k : nat) : list oev :=
  [OConnect k SAccept true; OStep k; OStep k; OStep k; OStep k; OStep k].
Definition o_end (k : nat) : list oev := [OClose k; OStep k; OStep k].

(* limiter removed and re-created while a session lives: the fresh instance does not count
   it.  Limit 1: A admitted, Update(0), Update(1), B admitted: two sessions under a
   configured limit of 1, every instance within its own limit. *)
Definition witness_recreate : list oev :=
  [OUpdate 1] ++ o_admit 0 ++ [OUpdate 0; OUpdate 1] ++ o_admit 1.

Lemma total_across_recreation_refuted :
  exists st, orun false oempty witness_recreate = Some st /\
             oadmitted st = 2 /\ o_cfg st = 1 /\ o_cur st = Some 1%nat /\
             admitted (inst st 0) = 1 /\ admitted (inst st 1) = 1 /\
             c_lim (l_c (inst st 0)) = 1 /\ c_lim (l_c (inst st 1)) = 1.
Proof.
  eexists. split; [vm_compute; reflexivity|]. vm_compute. repeat split; reflexivity.
Qed.

(* release through the CURRENT limiter (the demonstration of the seeded change): limit 2,
   A and B admitted, Update(0), Update(2), A and B end (the fresh instance drops to -2),
   then C, D, E, F are ALL admitted through the fresh instance whose limit is 2. *)
Definition witness_release_to_current : list oev :=
  [OUpdate 2] ++ o_admit 0 ++ o_admit 1 ++ [OUpdate 0; OUpdate 2]
  ++ [OClose 0; OStep 0; OClose 1; OStep 1]
  ++ o_admit 2 ++ o_admit 3 ++ o_admit 4 ++ o_admit 5.

Lemma release_to_current_refuted :
  exists st, orun true oempty witness_release_to_current = Some st /\
             let s := inst st 1 in
             o_cfg st = 2 /\ c_lim (l_c s) = 2 /\ admitted s = 4 /\ oadmitted st = 4 /\
             c_now (l_c s) = 2 /\ sumz now_of (l_ss s) = 4 /\
             (* the replaced instance still books the two sessions that are gone *)
             c_now (l_c (inst st 0)) = 2 /\ admitted (inst st 0) = 0.
Proof.
  eexists. split; [vm_compute; reflexivity|]. vm_compute. repeat split; reflexivity.
Qed.

(* the same history with release on the recorded instance: E and F are refused *)
Lemma release_to_recorded_same_history :
  exists st, orun false oempty
               ([OUpdate 2] ++ o_admit 0 ++ o_admit 1 ++ [OUpdate 0; OUpdate 2]
                ++ o_end 0 ++ o_end 1 ++ o_admit 2 ++ o_admit 3 ++ o_refused 4 ++ o_refused 5) = Some st /\
             admitted (inst st 1) = 2 /\ oadmitted st = 2 /\ c_now (l_c (inst st 1)) = 2 /\
             c_now (l_c (inst st 0)) = 0 /\ c_tmp (l_c (inst st 0)) = 0.
Proof.
  eexists. split; [vm_compute; reflexivity|]. vm_compute. repeat split; reflexivity.
Qed.
