(* Lemmas about the plain codec model: round trip, totality, shape preservation. *)
From Coq Require Import Strings.String Strings.Byte.
From Coq Require Import List Arith NArith ZArith Bool Lia.
From Verif Require Import Base.Bytes Model.Strconv Model.PlainCodec Proofs.StrconvProofs.
Import ListNotations.

Lemma width_eqb_eq a b : width_eqb a b = true <-> a = b.
Proof. destruct a, b; cbn; split; intros H; try reflexivity; try discriminate. Qed.

Lemma width_eqb_refl a : width_eqb a a = true.
Proof. destruct a; reflexivity. Qed.

Lemma format_leaf_ok l : leaf_ok l = true -> exists s, format_leaf l = Some s.
Proof.
  induction l; cbn [leaf_ok scalar_ok format_leaf]; intros H; try discriminate; eauto.
Qed.

(* decoding the encoding of l into ANY settable destination of l's type yields l *)
Lemma parse_into_roundtrip l : forall d s,
  leaf_ok l = true -> same_shape l d = true -> format_leaf l = Some s ->
  parse_into s d true = Some l.
Proof.
  induction l; intros d s0 Hok Hsh Hf; destruct d; cbn [same_shape] in Hsh; try discriminate;
    cbn [leaf_ok scalar_ok] in Hok; cbn [format_leaf] in Hf; cbn [parse_into parse_core].
  - inversion Hf; reflexivity.
  - inversion Hf; subst. rewrite parse_bool_format. reflexivity.
  - inversion Hf; subst. apply width_eqb_eq in Hsh. subst w0.
    rewrite (parse_int_format 64 z (int_in_range_64 _ _ Hok)). cbn [option_map].
    rewrite (wrap_int_id _ _ Hok). reflexivity.
  - inversion Hf; subst. apply width_eqb_eq in Hsh. subst w0.
    rewrite (parse_uint_format 64 n (uint_in_range_64 _ _ Hok)). cbn [option_map].
    rewrite (wrap_uint_id _ _ Hok). reflexivity.
  - inversion Hf; reflexivity.
  - rewrite (IHl d s0 Hok Hsh Hf). reflexivity.
Qed.

Lemma same_shape_zero l : leaf_ok l = true -> same_shape l (leaf_zero l) = true.
Proof.
  induction l; cbn [leaf_ok scalar_ok leaf_zero same_shape]; intros H; try discriminate;
    try reflexivity; try apply width_eqb_refl. apply IHl. exact H.
Qed.

Lemma copy_into_same_length old data : length old = length data -> copy_into old data = data.
Proof.
  intros H. unfold copy_into. rewrite H, firstn_all, <- H, skipn_all. apply app_nil_r.
Qed.

Lemma plain_roundtrip_lemma v d r :
  plain_pair v d r -> exists s, plain_marshal v = Ok s /\ plain_unmarshal s d = Ok r.
Proof.
  intros H. unfold plain_unmarshal. destruct H; cbn [plain_marshal plain_unmarshal_gen].
  - eexists; split; reflexivity.
  - eexists; split; reflexivity.
  - eexists; split; reflexivity.
  - eexists; split; [reflexivity|]. rewrite copy_into_same_length by assumption. reflexivity.
  - destruct (format_leaf_ok l H) as (s & Hs). rewrite Hs. eexists; split; [reflexivity|].
    cbn [parse_into]. rewrite (parse_into_roundtrip l d s H H0 Hs). reflexivity.
  - destruct (format_leaf_ok l H) as (s & Hs). cbn [format_leaf]. rewrite Hs.
    eexists; split; [reflexivity|].
    cbn [parse_into]. rewrite (parse_into_roundtrip l d s H H0 Hs). reflexivity.
Qed.

Lemma plain_decode_total_lemma data d : plain_unmarshal data d <> Panic.
Proof.
  destruct d; cbn [plain_unmarshal plain_unmarshal_gen]; try discriminate.
  destruct (parse_into data l false); discriminate.
Qed.

(* the pinned code: total exactly away from nil *string / *[]byte destinations *)
Lemma plain_decode_total_prefix_lemma data d :
  dst_nonnil d = true -> plain_unmarshal_prefix data d <> Panic.
Proof.
  destruct d; cbn [dst_nonnil plain_unmarshal_prefix plain_unmarshal_gen]; intros H; try discriminate.
  destruct (parse_into data l false); discriminate.
Qed.

Lemma plain_total_refuted_lemma : exists data d, plain_unmarshal_prefix data d = Panic.
Proof. exists [], DStrNil. reflexivity. Qed.

(* whatever the bytes, a successful decode leaves a value of the destination's type, with
   every integer inside the range of its width *)
Fixpoint ints_in_range (l : leaf) : bool :=
  match l with
  | LInt w z => int_in_range w z
  | LUint w n => uint_in_range w n
  | LPtr x => ints_in_range x
  | _ => true
  end.

Lemma parse_into_shape data l : forall b l',
  parse_into data l b = Some l' -> same_shape l l' = true /\ ints_in_range l' = true.
Proof.
  induction l; intros b0 l' H; cbn [parse_into] in H;
    try (destruct b0; [|discriminate]; cbn [parse_core] in H).
  - inversion H; subst. split; reflexivity.
  - destruct (parse_bool data); inversion H; subst. split; reflexivity.
  - destruct (parse_int 64 data); inversion H; subst. cbn. rewrite width_eqb_refl, wrap_int_range. split; reflexivity.
  - destruct (parse_uint 64 data); inversion H; subst. cbn. rewrite width_eqb_refl, wrap_uint_range. split; reflexivity.
  - inversion H; subst. split; reflexivity.
  - destruct (parse_into data l true) as [x|] eqn:E; inversion H; subst.
    cbn [same_shape ints_in_range]. eapply IHl. exact E.
  - discriminate.
  - discriminate.
Qed.
