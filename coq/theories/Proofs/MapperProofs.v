From Coq Require Import Strings.String Strings.Byte.
From Coq Require Import List Arith NArith Bool Lia.
From Verif Require Import Base.Bytes Model.Mapper.
Import ListNotations.

(* ---- the indexed store a[len(a)-1] = sep in toServiceMethods never runs on an empty
   slice: a version of the loop in which that store on [] is an explicit failure never
   fails from the initial state, and computes the same result. ---- *)
Fixpoint tsm_loop_chk (sep : byte) (name : bytes) (acc : bytes) (last : byte) : option bytes :=
  match name with
  | [] => Some (rev acc)
  | r :: rest =>
      if beqb last c_us then
        if beqb r c_us then tsm_loop_chk sep rest acc x00
        else match acc with
             | [] => None                                  (* index out of range *)
             | _ :: t => tsm_loop_chk sep rest (r :: sep :: t) r
             end
      else if beqb last x00 && beqb r c_us then tsm_loop_chk sep rest acc last
      else tsm_loop_chk sep rest (r :: acc) r
  end.

Lemma tsm_loop_chk_ok sep name : forall acc last,
  (beqb last c_us = true -> acc <> []) ->
  tsm_loop_chk sep name acc last = Some (tsm_loop sep name acc last).
Proof.
  induction name as [|r rest IH]; intros acc last Hinv; cbn [tsm_loop_chk tsm_loop]; [reflexivity|].
  destruct (beqb last c_us) eqn:L.
  - destruct (beqb r c_us) eqn:R.
    + apply IH. intros H. discriminate.
    + destruct acc as [|a t]; [exfalso; apply Hinv; reflexivity|].
      apply IH. intros _. discriminate.
  - destruct (beqb last x00 && beqb r c_us) eqn:Z.
    + apply IH. intros H. rewrite H in L. discriminate.
    + apply IH. intros _. discriminate.
Qed.

Lemma tsm_no_panic sep name :
  tsm_loop_chk sep name [] x00 = Some (tsm_loop sep name [] x00).
Proof. apply tsm_loop_chk_ok. intros H. discriminate. Qed.

(* ---- a mapper is a total function of (prefix, name) ---- *)
Lemma mapper_functional k prefix name : exists! r, mapper k prefix name = r.
Proof. exists (mapper k prefix name). split; [reflexivity | auto]. Qed.

(* ---- HTTP names are rooted (in particular never empty) ---- *)
Lemma http_mapper_rooted prefix name : exists t, http_mapper prefix name = c_sl :: t.
Proof. unfold http_mapper, clean_rooted. eauto. Qed.

(* ---- clean_rooted produces a normal form: no empty, "." or ".." element ---- *)
Definition good_seg (s : bytes) : Prop := s <> [] /\ s <> [c_dot] /\ s <> [c_dot; c_dot].

Lemma clean_step_good stack seg : Forall good_seg stack -> Forall good_seg (clean_step stack seg).
Proof.
  intros H. unfold clean_step. destruct seg as [|c r]; [exact H|].
  destruct (bytes_eqb (c :: r) [c_dot]) eqn:E1; [exact H|].
  destruct (bytes_eqb (c :: r) [c_dot; c_dot]) eqn:E2.
  - destruct stack; [exact H | inversion H; assumption].
  - constructor; [|exact H]. repeat split.
    + discriminate.
    + intros E. rewrite E, bytes_eqb_refl in E1. discriminate.
    + intros E. rewrite E, bytes_eqb_refl in E2. discriminate.
Qed.

Lemma clean_fold_good segs : forall stack,
  Forall good_seg stack -> Forall good_seg (fold_left clean_step segs stack).
Proof.
  induction segs as [|s r IH]; intros stack H; cbn [fold_left]; [exact H|].
  apply IH. apply clean_step_good. exact H.
Qed.

(* the elements kept by path.Clean in an HTTP name *)
Definition http_segments (prefix name : bytes) : list bytes :=
  rev (fold_left clean_step
         (split_on c_sl (c_sl :: c_sl :: prefix ++ c_sl :: to_service_methods name c_sl true) []) []).

Lemma http_mapper_segments prefix name :
  http_mapper prefix name = c_sl :: join_with c_sl (http_segments prefix name) /\
  Forall good_seg (http_segments prefix name).
Proof.
  split; [reflexivity|]. unfold http_segments. apply Forall_rev. apply clean_fold_good. constructor.
Qed.

(* split_on never yields an element containing the separator *)
Lemma split_on_no_sep sep s : forall cur,
  ~ In sep cur -> Forall (fun seg => ~ In sep seg) (split_on sep s cur).
Proof.
  induction s as [|c r IH]; intros cur Hc; cbn [split_on].
  - constructor; [|constructor]. rewrite <- in_rev. exact Hc.
  - destruct (beqb c sep) eqn:E.
    + constructor; [rewrite <- in_rev; exact Hc|]. apply IH. intros [].
    + apply IH. intros [->|H]; [rewrite beqb_refl in E; discriminate | auto].
Qed.

Lemma clean_fold_no_sep segs : forall stack,
  Forall (fun seg => ~ In c_sl seg) segs -> Forall (fun seg => ~ In c_sl seg) stack ->
  Forall (fun seg => ~ In c_sl seg) (fold_left clean_step segs stack).
Proof.
  induction segs as [|s r IH]; intros stack Hs Hst; cbn [fold_left]; [exact Hst|].
  inversion Hs; subst. apply IH; [assumption|].
  unfold clean_step. destruct s as [|c t]; [exact Hst|].
  destruct (bytes_eqb (c :: t) [c_dot]); [exact Hst|].
  destruct (bytes_eqb (c :: t) [c_dot; c_dot]).
  - destruct stack; [exact Hst | inversion Hst; assumption].
  - constructor; assumption.
Qed.

Lemma http_segments_no_slash prefix name :
  Forall (fun seg => ~ In c_sl seg) (http_segments prefix name).
Proof.
  unfold http_segments. apply Forall_rev. apply clean_fold_no_sep; [|constructor].
  apply split_on_no_sep. intros [].
Qed.

(* ---- strings.Trim: the RPC name neither starts nor ends with '.' ---- *)
Lemma trim_left_head c s : match trim_left c s with [] => True | x :: _ => x <> c end.
Proof.
  induction s as [|x r IH]; cbn [trim_left]; [exact I|].
  destruct (beqb x c) eqn:E; [exact IH|]. apply beqb_neq. exact E.
Qed.

Lemma trim_left_suffix c s : exists p, s = p ++ trim_left c s /\ Forall (fun x => x = c) p.
Proof.
  induction s as [|x r IH]; cbn [trim_left].
  - exists []. split; [reflexivity | constructor].
  - destruct (beqb x c) eqn:E.
    + destruct IH as (p & Hp & Hf). exists (x :: p). split.
      * cbn. rewrite <- Hp. reflexivity.
      * constructor; [apply beqb_eq; exact E | exact Hf].
    + exists []. split; [reflexivity | constructor].
Qed.

Lemma rpc_mapper_no_outer_dot prefix name :
  match rpc_mapper prefix name with [] => True | x :: _ => x <> c_dot end /\
  match rev (rpc_mapper prefix name) with [] => True | x :: _ => x <> c_dot end.
Proof.
  unfold rpc_mapper, trim. set (s := prefix ++ c_dot :: to_service_methods name c_dot false).
  split.
  - (* first byte: trimming the right end of a string that does not start with '.' *)
    pose proof (trim_left_head c_dot s) as Hh.
    destruct (trim_left_suffix c_dot (rev (trim_left c_dot s))) as (p & Hp & Hf).
    set (u := trim_left c_dot (rev (trim_left c_dot s))) in *.
    apply (f_equal (@rev byte)) in Hp. rewrite rev_involutive, rev_app_distr in Hp.
    destruct (rev u) as [|x t] eqn:Eu; [exact I|].
    rewrite Hp in Hh. cbn in Hh. exact Hh.
  - rewrite rev_involutive. apply trim_left_head.
Qed.

(* ---- the documented table (README.md "Service method mapping", router.go doc comment):
   16 rows.  The domain of this claim is exactly those 16 rows; closed by computation. ---- *)
Definition readme_table : list (mapper_kind * string * string) :=
  [ (MHTTP, "AaBb", "/aa_bb"); (MHTTP, "ABcXYz", "/abc_xyz"); (MHTTP, "Aa__Bb", "/aa_bb");
    (MHTTP, "aa__bb", "/aa_bb"); (MHTTP, "ABC__XYZ", "/abc_xyz"); (MHTTP, "Aa_Bb", "/aa/bb");
    (MHTTP, "aa_bb", "/aa/bb"); (MHTTP, "ABC_XYZ", "/abc/xyz");
    (MRPC, "AaBb", "AaBb"); (MRPC, "ABcXYz", "ABcXYz"); (MRPC, "Aa__Bb", "Aa_Bb");
    (MRPC, "aa__bb", "aa_bb"); (MRPC, "ABC__XYZ", "ABC_XYZ"); (MRPC, "Aa_Bb", "Aa.Bb");
    (MRPC, "aa_bb", "aa.bb"); (MRPC, "ABC_XYZ", "ABC.XYZ") ]%string.

Definition row_ok (row : mapper_kind * string * string) : bool :=
  let '(k, name, want) := row in bytes_eqb (mapper k [] (str name)) (str want).

Lemma readme_table_holds : forallb row_ok readme_table = true.
Proof. vm_compute. reflexivity. Qed.

Lemma readme_table_rows :
  Forall (fun row => let '(k, name, want) := row in mapper k [] (str name) = str want) readme_table.
Proof.
  apply Forall_forall. intros [[k name] want] Hin.
  pose proof readme_table_holds as H. rewrite forallb_forall in H.
  apply H in Hin. cbn [row_ok] in Hin. apply bytes_eqb_eq. exact Hin.
Qed.

(* the mappers are not injective: this is why reg must detect conflicts *)
Lemma mapper_not_injective :
  http_mapper [] (str "AaBb") = http_mapper [] (str "Aa__Bb") /\
  http_mapper (str "aa") (str "Bb") = http_mapper [] (str "Aa_Bb") /\
  rpc_mapper (str "Aa") (str "Bb") = rpc_mapper [] (str "Aa_Bb").
Proof. vm_compute. repeat split. Qed.

(* ---- the restriction named in DESIGN.md: when neither the prefix nor the name contains a
   '.' byte (in particular: prefix over [A-Za-z0-9_/], name a Go identifier) no path element
   is "." or "..", and path.Join only squeezes slashes. ---- *)
Definition no_dot (s : bytes) : Prop := ~ In c_dot s.

Lemma tsm_loop_chars sep name : forall acc last c,
  In c (tsm_loop sep name acc last) -> In c name \/ In c acc \/ c = sep.
Proof.
  induction name as [|r rest IH]; intros acc last c H; cbn [tsm_loop] in H.
  - right. left. apply in_rev. exact H.
  - destruct (beqb last c_us).
    + destruct (beqb r c_us).
      * apply IH in H. cbn [In]. tauto.
      * apply IH in H. destruct acc as [|a t]; cbn [In] in *; intuition (subst; auto).
    + destruct (beqb last x00 && beqb r c_us); apply IH in H; cbn [In] in *; tauto.
Qed.

Lemma snake_loop_chars s : forall j c, In c (snake_loop s j) -> In c s \/ c = c_us.
Proof.
  induction s as [|d r IH]; intros j c H; cbn [snake_loop] in H; [destruct H|].
  destruct (is_upper d).
  - destruct j; cbn [In] in H.
    + destruct H as [H|[H|H]]; [right; auto | left; left; exact H |].
      apply IH in H. cbn [In]. tauto.
    + destruct H as [H|H]; [left; left; exact H|]. apply IH in H. cbn [In]. tauto.
  - destruct (beqb d c_us); cbn [In] in H; (destruct H as [H|H]; [left; left; exact H|]);
      apply IH in H; cbn [In]; tauto.
Qed.

Lemma to_lower_dot b : to_lower b = c_dot -> b = c_dot.
Proof. destruct b; vm_compute; intros H; try discriminate H; reflexivity. Qed.

Lemma replace2_cons2 a b new x y r' :
  replace2 a b new (x :: y :: r') =
  if beqb x a && beqb y b then new ++ replace2 a b new r' else x :: replace2 a b new (y :: r').
Proof. reflexivity. Qed.

Lemma replace2_chars a b new : forall n s, length s <= n ->
  forall c, In c (replace2 a b new s) -> In c s \/ In c new.
Proof.
  induction n as [|n IH]; intros s Hl c H.
  - destruct s; [destruct H | cbn in Hl; lia].
  - destruct s as [|x r]; [destruct H|]. destruct r as [|y r'].
    + cbn in H. left. exact H.
    + rewrite replace2_cons2 in H. destruct (beqb x a && beqb y b).
      * apply in_app_iff in H. destruct H as [H|H]; [right; exact H|].
        apply IH in H; [|cbn in Hl |- *; lia]. cbn [In]. tauto.
      * destruct H as [H|H]; [left; left; exact H|].
        apply IH in H; [|cbn in Hl |- *; lia]. cbn [In] in *. tauto.
Qed.

Lemma to_service_methods_no_dot name sep to_snake :
  no_dot name -> sep <> c_dot -> no_dot (to_service_methods name sep to_snake).
Proof.
  intros Hn Hs. unfold to_service_methods, no_dot.
  assert (H0 : ~ In c_dot (tsm_loop sep name [] x00)).
  { intros H. apply tsm_loop_chars in H. destruct H as [H|[[]|H]]; [exact (Hn H) | exact (Hs (eq_sym H))]. }
  destruct to_snake; [|exact H0]. intros H.
  apply (replace2_chars _ _ _ _ _ (le_n _)) in H. destruct H as [H|[H|[]]]; [|exact (Hs H)].
  apply (replace2_chars _ _ _ _ _ (le_n _)) in H. destruct H as [H|[H|[]]]; [|discriminate H].
  unfold snake_string in H. apply in_map_iff in H. destruct H as (d & Hd & Hin).
  apply to_lower_dot in Hd. subst d. apply snake_loop_chars in Hin.
  destruct Hin as [Hin|Hin]; [exact (H0 Hin) | discriminate Hin].
Qed.

Lemma split_on_chars sep s : forall cur seg c,
  In seg (split_on sep s cur) -> In c seg -> In c cur \/ In c s.
Proof.
  induction s as [|x r IH]; intros cur seg c Hs Hc; cbn [split_on] in Hs.
  - destruct Hs as [<-|[]]. left. apply in_rev. exact Hc.
  - destruct (beqb x sep).
    + destruct Hs as [<-|Hs]; [left; apply in_rev; exact Hc|].
      destruct (IH _ _ _ Hs Hc) as [[]|H]. right. right. exact H.
    + destruct (IH _ _ _ Hs Hc) as [[H|H]|H]; cbn [In]; subst; tauto.
Qed.

Definition nonempty (s : bytes) : bool := match s with [] => false | _ => true end.

Lemma clean_fold_plain segs : forall stack,
  Forall no_dot segs ->
  fold_left clean_step segs stack = rev (filter nonempty segs) ++ stack.
Proof.
  induction segs as [|s r IH]; intros stack H; cbn [fold_left filter]; [reflexivity|].
  inversion H as [|? ? Hs Hr]; subst. rewrite (IH _ Hr). unfold clean_step.
  destruct s as [|c t]; cbn [nonempty]; [reflexivity|].
  destruct (bytes_eqb (c :: t) [c_dot]) eqn:E1.
  { apply bytes_eqb_eq in E1. exfalso. apply Hs. rewrite E1. left. reflexivity. }
  destruct (bytes_eqb (c :: t) [c_dot; c_dot]) eqn:E2.
  { apply bytes_eqb_eq in E2. exfalso. apply Hs. rewrite E2. left. reflexivity. }
  cbn [rev]. rewrite <- app_assoc. reflexivity.
Qed.

Lemma http_mapper_plain prefix name :
  no_dot prefix -> no_dot name ->
  http_mapper prefix name =
  c_sl :: join_with c_sl
            (filter nonempty (split_on c_sl (prefix ++ c_sl :: to_service_methods name c_sl true) [])).
Proof.
  intros Hp Hn. unfold http_mapper, clean_rooted.
  set (body := prefix ++ c_sl :: to_service_methods name c_sl true).
  assert (Hb : no_dot body).
  { unfold body, no_dot. rewrite in_app_iff. cbn [In]. intros [H|[H|H]]; [exact (Hp H) | discriminate H |].
    revert H. apply to_service_methods_no_dot; [exact Hn | discriminate]. }
  assert (Hsegs : Forall no_dot (split_on c_sl (c_sl :: c_sl :: body) [])).
  { apply Forall_forall. intros seg Hs Hc.
    destruct (split_on_chars _ _ _ _ _ Hs Hc) as [[]|[H|[H|H]]]; [discriminate H | discriminate H | exact (Hb H)]. }
  rewrite (clean_fold_plain _ [] Hsegs), app_nil_r, rev_involutive.
  cbn [split_on]. rewrite !beqb_refl. cbn [rev filter nonempty]. reflexivity.
Qed.

Lemma plain_prefix_no_dot s : plain_prefix s = true -> no_dot s.
Proof.
  unfold plain_prefix, no_dot. intros H Hin. rewrite forallb_forall in H. apply H in Hin.
  vm_compute in Hin. discriminate Hin.
Qed.

Lemma is_ident_no_dot s : is_ident s = true -> no_dot s.
Proof.
  unfold is_ident, no_dot. destruct s as [|c r]; [discriminate|]. intros H Hin.
  apply andb_true_iff in H. destruct H as [_ H]. rewrite forallb_forall in H. apply H in Hin.
  vm_compute in Hin. discriminate Hin.
Qed.
