(* Invariants of Model.Redial.step over ALL event sequences, and the witness schedules. *)
From Coq Require Import Strings.String Strings.Byte.
From Coq Require Import List Arith NArith ZArith Bool Lia.
From Verif Require Import Model.Redial.
Import ListNotations.

Definition reachable (n : Z) (uid : bool) (p : list verdict) (d : verdict) (s : st) : Prop :=
  exists evs, s = run (init n uid p d) evs.

Lemma run_snoc s evs e : run s (evs ++ [e]) = step (run s evs) e.
Proof. unfold run. rewrite fold_left_app. reflexivity. Qed.

Lemma reachable_ind_inv (P : st -> Prop) n uid p d :
  P (init n uid p d) -> (forall s e, P s -> P (step s e)) ->
  forall s, reachable n uid p d s -> P s.
Proof.
  intros H0 Hs s [evs ->]. induction evs as [|e evs IH] using rev_ind.
  - exact H0.
  - rewrite run_snoc. apply Hs. exact IH.
Qed.

(* ---- the part of the state the invariants talk about ---- *)
Record view := mkView {
  v_budget : Z; v_status : status; v_conn : nat; v_id : idv; v_lock : option round;
  v_rounds : list (nat * bool); v_hooks : list (bool * verdict); v_ok : nat; v_wedged : bool }.

Definition view_of (s : st) : view :=
  mkView (budget s) (status_ s) (conn s) (id s) (lock s) (rounds s) (hooks s) (okrounds s) (wedged s).

Definition vstatus (v : view) (x : status) : view :=
  mkView (v_budget v) x (v_conn v) (v_id v) (v_lock v) (v_rounds v) (v_hooks v) (v_ok v) (v_wedged v).
Definition vlock (v : view) (l : option round) : view :=
  mkView (v_budget v) (v_status v) (v_conn v) (v_id v) l (v_rounds v) (v_hooks v) (v_ok v) (v_wedged v).

Lemma view_set_rpc s i p : view_of (set_rpc s i p) = view_of s.
Proof. unfold set_rpc. destruct (nth_error (readers s) i) as [[c q]|]; reflexivity. Qed.
Lemma view_set_cpc s k p : view_of (set_cpc s k p) = view_of s.
Proof. unfold set_cpc. destruct (nth_error (calls s) k); reflexivity. Qed.
Lemma view_set_calls s x : view_of (set_calls s x) = view_of s.
Proof. reflexivity. Qed.
Lemma view_set_index s x : view_of (set_index s x) = view_of s.
Proof. reflexivity. Qed.
Lemma view_set_lost s x : view_of (set_lost s x) = view_of s.
Proof. reflexivity. Qed.
Lemma view_set_plan s p d : view_of (set_plan s p d) = view_of s.
Proof. reflexivity. Qed.
Lemma view_set_status s x : view_of (set_status s x) = vstatus (view_of s) x.
Proof. reflexivity. Qed.
Lemma view_set_lock s l : view_of (set_lock s l) = vlock (view_of s) l.
Proof. reflexivity. Qed.
Lemma view_sock_close s : view_of (sock_close s) = view_of s.
Proof. unfold sock_close. destruct (sockclosed s); reflexivity. Qed.
Lemma view_d8 s : view_of (d8 s) = vstatus (view_of s) SPassiveClosed.
Proof. reflexivity. Qed.

Ltac vw := repeat first [ rewrite view_set_rpc | rewrite view_set_cpc | rewrite view_set_calls
                        | rewrite view_set_index | rewrite view_set_lost | rewrite view_set_plan
                        | rewrite view_set_status | rewrite view_set_lock | rewrite view_sock_close
                        | rewrite view_d8 ].

Lemma vstatus_same s : vstatus (view_of s) (status_ s) = view_of s.
Proof. reflexivity. Qed.

(* a reader changes nothing of the view but the status, and only to passive-closing/closed *)
Lemma reader_step_view s i :
  exists x, view_of (reader_step s i) = vstatus (view_of s) x /\
            (x = status_ s \/ x = SPassiveClosing \/ x = SPassiveClosed).
Proof.
  unfold reader_step. destruct (nth_error (readers s) i) as [[c p]|]; [|exists (status_ s); auto].
  destruct p as [|x| |x|x n|x|x n| | | | |].
  - destruct (mem c (lost s)); vw; exists (status_ s); auto.
  - destruct x; cbv iota; try (vw; exists (status_ s); auto; fail);
      (destruct (status_eqb (status_ s) _); vw; [exists SPassiveClosing | exists (status_ s)]; auto).
  - destruct (status_ s) eqn:E; cbv iota; vw;
      try (exists SPassiveClosing; auto; fail); exists (status_ s); auto.
  - vw. exists (status_ s); auto.
  - destruct (existsb holds_mu (firstn n (calls s))); vw; exists (status_ s); auto.
  - vw. exists (status_ s); auto.
  - destruct (existsb holds_mu (firstn n (calls s))); [exists (status_ s); auto|].
    destruct x; cbv iota; vw; exists (status_ s); auto.
  - destruct (Z.eqb (budget s) 0); vw; [exists SPassiveClosed | exists (status_ s)]; auto.
  - exists (status_ s); auto.
  - exists (status_ s); auto.
  - vw. exists SPassiveClosed; auto.
  - exists (status_ s); auto.
Qed.

Lemma caller_step_view s k w : view_of (caller_step s k w) = view_of s.
Proof.
  unfold caller_step, conn_closed_path. destruct (nth_error (calls s) k) as [cl|]; [|reflexivity].
  destruct (c_pc cl); try reflexivity.
  - destruct (status_eqb (status_ s) SOk); [|destruct (Z.eqb (budget s) 0)]; vw; reflexivity.
  - destruct (sockclosed s); [destruct (Z.eqb (budget s) 0); vw; reflexivity|].
    destruct (mem (conn s) (lost s)); [destruct w|]; vw; reflexivity.
Qed.

Lemma view_consume s k : view_of (consume s k) = view_of s.
Proof. unfold consume. destruct (nth_error (calls s) k); reflexivity. Qed.

Lemma reply_step_view s k : view_of (reply_step s k) = view_of s.
Proof.
  unfold reply_step. destruct (nth_error (calls s) k) as [cl|]; [|reflexivity].
  destruct (c_on cl) as [c|]; [|reflexivity].
  destruct (c_ready cl && negb (mem c (lost s))); [|reflexivity].
  destruct (reading_index (readers s) c 0) as [i|]; [|reflexivity].
  destruct (goon_read (status_ s)); destruct (c_pc cl); vw; rewrite ?view_consume; reflexivity.
Qed.

Lemma acquire_view s o :
  view_of (acquire s o) = view_of s \/
  (lock s = None /\ exists c, view_of (acquire s o) = vlock (view_of s) (Some (mkRound o c RdLocked IdNone false 0 0 0))).
Proof.
  unfold acquire. destruct (lock s) eqn:L; [auto|]. destruct o.
  - destruct (nth_error (readers s) i) as [[c p]|]; [|auto]. destruct p; auto.
    right. split; [reflexivity|]. exists c. vw. reflexivity.
  - destruct (nth_error (calls s) k) as [cl|]; [|auto]. destruct (c_pc cl); auto.
    right. split; [reflexivity|]. exists c. vw. reflexivity.
Qed.

Lemma cancel_view s i k : view_of (step s (EvCancel i k)) = view_of s.
Proof.
  cbn [step]. destruct (nth_error (readers s) i) as [[c p]|]; [|reflexivity].
  destruct p; try reflexivity; (destruct (nth_error (calls s) k) as [cl|]; [|reflexivity]);
    (destruct (c_pc cl); try reflexivity); (destruct (Nat.ltb k n); vw; reflexivity).
Qed.

Lemma view_round_return s o b : view_of (round_return s o b) = vlock (view_of s) None.
Proof. unfold round_return. destruct o; vw; reflexivity. Qed.


(* ------------------------------------------------------------------------------------ *)
(* The invariant, a predicate on the view.                                               *)
Definition accepts (v : verdict) : bool := match v with VJ => false | _ => true end.

Definition status_unlocked (x : status) : Prop :=
  x = SOk \/ x = SPassiveClosing \/ x = SPassiveClosed \/ x = SRedialFailed.
Definition status_dialing (x : status) : Prop :=
  x = SRedialing \/ x = SPassiveClosing \/ x = SPassiveClosed.
Definition status_hooking (x : status) : Prop :=
  x = SPreparing \/ x = SPassiveClosing \/ x = SPassiveClosed.

Definition at_reset (l : option round) : Prop := exists r v, l = Some r /\ r_pc r = RdReset v.

Definition hook_pending (l : option round) : nat :=
  match l with
  | Some r => match r_pc r with RdHook v => if accepts v then 1 else 0 | _ => 0 end
  | None => 0
  end.

Definition Inv (uid : bool) (v : view) : Prop :=
  (* closeLocked never ran inside the closure; status per phase of the round *)
  v_wedged v = false /\
  match v_lock v with
  | None => status_unlocked (v_status v)
  | Some r => match r_pc r with
              | RdLocked => status_unlocked (v_status v)
              | RdDial | RdReset _ => status_dialing (v_status v)
              | RdHook _ => status_hooking (v_status v)
              end
  end /\
  (* attempts *)
  ((0 <= v_budget v)%Z ->
   match v_lock v with
   | Some r => match r_pc r with
               | RdLocked => True
               | RdDial => (0 <= r_left r /\ Z.of_nat (r_att r) + r_left r = v_budget v)%Z
               | RdReset _ | RdHook _ => (0 <= r_left r /\ Z.of_nat (r_att r) + r_left r = v_budget v + 1)%Z
               end
   | None => True
   end /\
   Forall (fun x => (Z.of_nat (fst x) <= v_budget v + 1)%Z) (v_rounds v)) /\
  (* hooks *)
  Forall (fun h => fst h = true) (v_hooks v) /\
  length (filter (fun h => accepts (snd h)) (v_hooks v)) = v_ok v + hook_pending (v_lock v) /\
  v_ok v = length (filter (fun x => snd x) (v_rounds v)) /\
  (* id *)
  (forall r, v_lock v = Some r -> r_pc r <> RdLocked ->
             if uid then r_oid r = IdUser /\ r_ipeq r = false else r_ipeq r = true) /\
  ((if uid then v_id v = IdUser else v_id v = IdAddr (v_conn v)) \/ (v_id v = IdNone /\ at_reset (v_lock v))).

Ltac st_solve :=
  unfold status_unlocked, status_dialing, status_hooking in *;
  repeat match goal with
         | H : _ \/ _ |- _ => destruct H
         end; subst; try discriminate; try congruence; auto 6.

Lemma Inv_init n uid p d : Inv uid (view_of (init n uid p d)).
Proof.
  unfold Inv, view_of, init; cbn. repeat split; auto.
  - left; reflexivity.
  - intros r Hr; discriminate.
  - left. destruct uid; reflexivity.
Qed.

(* stable under a status change to passive-closing / passive-closed *)
Lemma Inv_status uid v x :
  Inv uid v -> (x = v_status v \/ x = SPassiveClosing \/ x = SPassiveClosed) -> Inv uid (vstatus v x).
Proof.
  intros (Hw & Hs & Ha & Hh1 & Hh2 & Hh3 & Hi1 & Hi2) Hx. unfold Inv, vstatus; cbn.
  repeat split; auto.
  - destruct (v_lock v) as [r|]; [destruct (r_pc r)|]; st_solve.
  - apply Ha; assumption.
  - apply Ha; assumption.
Qed.

Lemma Inv_acquire uid v o c :
  Inv uid v -> v_lock v = None -> Inv uid (vlock v (Some (mkRound o c RdLocked IdNone false 0 0 0))).
Proof.
  intros (Hw & Hs & Ha & Hh1 & Hh2 & Hh3 & Hi1 & Hi2) L. rewrite L in *. unfold Inv, vlock; cbn.
  repeat split; auto.
  - apply Ha; assumption.
  - intros r Hr Hp. inversion Hr; subst. cbn in Hp. congruence.
  - destruct Hi2 as [Hi2|[_ (r & v0 & Hr & _)]]; [left; exact Hi2 | discriminate].
Qed.

Ltac opn := vw; unfold Inv, vlock, vstatus, view_of, at_reset;
  cbn [v_budget v_status v_conn v_id v_lock v_rounds v_hooks v_ok v_wedged r_pc r_left r_att r_oid r_ipeq
       r_owner r_old r_occ hook_pending set_id set_status set_lost set_plan budget status_ conn id lock rounds hooks okrounds wedged fst snd accepts].
Ltac st2 := st_solve; try (match goal with H : status_ ?s = _ |- _ => rewrite H; cbn; auto 6 end).
Ltac fin := repeat split; auto;
  try (match goal with |- (_ <= _)%Z -> _ => intro; repeat split end); auto; try st2; try lia;
  try (intros; apply Forall_app; split; [auto | repeat constructor; cbn; lia]);
  try (rewrite filter_app, app_length; cbn; lia);
  try (intros; discriminate).
Ltac ffail H0 := unfold finish_fail; rewrite H0; cbn [status_ set_status]; rewrite view_round_return; opn; fin.

Definition fail_status (x : status) : status :=
  match x with SRedialing => SRedialFailed | _ => x end.

Lemma view_finish_fail s r :
  status_dialing (status_ s) ->
  view_of (finish_fail s r) =
  mkView (budget s) (fail_status (status_ s)) (conn s) (id s) None
         (rounds s ++ [(r_att r, false)]) (hooks s) (okrounds s) (wedged s).
Proof.
  intros Hd. unfold finish_fail. destruct (status_ s) eqn:E; try (exfalso; st_solve; fail);
    cbv zeta iota; rewrite ?E; cbv iota; rewrite view_round_return; cbn; rewrite ?E; reflexivity.
Qed.

Lemma Inv_round uid s : Inv uid (view_of s) -> Inv uid (view_of (round_step s)).
Proof.
  intros H. unfold round_step. destruct (lock s) as [r|] eqn:L; [|exact H].
  destruct r as [ow old pc oid ipeq occ left att]. cbn [r_pc r_owner r_old r_oid r_ipeq r_occ r_left r_att].
  unfold Inv, view_of in H. cbn [v_wedged v_status v_budget v_lock v_rounds v_hooks v_ok v_id v_conn] in H.
  rewrite L in H. cbn [r_pc r_left r_att r_oid r_ipeq hook_pending] in H.
  destruct H as (Hw & Hs & Ha & Hh1 & Hh2 & Hh3 & Hi1 & Hi2).
  assert (Hid : (if uid then id s = IdUser else id s = IdAddr (conn s)) \/ (id s = IdNone /\ exists v, pc = RdReset v)).
  { destruct Hi2 as [|[E (r & v & Hr & Hp)]]; [left; assumption|]. right. split; [assumption|].
    inversion Hr; subst. cbn in Hp. eauto. }
  clear Hi2.
  assert (Ha2 : (0 <= budget s)%Z -> Forall (fun x => (Z.of_nat (fst x) <= budget s + 1)%Z) (rounds s))
    by (intro; apply Ha; assumption).
  assert (Ha1 := fun h => proj1 (Ha h)). clear Ha.
  destruct pc.
  - (* RdLocked *)
    destruct Hid as [Hid|[_ [v Hv]]]; [|discriminate].
    destruct (negb (Nat.eqb old (conn s))).
    + rewrite view_round_return. opn. rewrite Nat.add_0_r in Hh2. fin.
    + destruct (cas_redialing (status_ s)).
      * opn. rewrite Nat.add_0_r in Hh2. fin;
          try (intros r Hr _; inversion Hr; subst; cbn; destruct uid; rewrite Hid; cbn; auto using Nat.eqb_refl).
      * rewrite view_round_return. opn. rewrite Nat.add_0_r in Hh2. fin.
  - (* RdDial *)
    destruct Hid as [Hid|[_ [v Hv]]]; [|discriminate].
    rewrite Nat.add_0_r in Hh2.
    assert (Hi : if uid then oid = IdUser /\ ipeq = false else ipeq = true).
    { apply (Hi1 _ eq_refl). discriminate. }
    assert (Hfail : forall s1, view_of s1 = view_of s ->
              Inv uid (view_of (after_failed_attempt s1 (mkRound ow old RdDial oid ipeq occ left (S att))))).
    { intros s1 E. injection E as E1 E2 E3 E4 E5 E6 E7 E8 E9.
      unfold after_failed_attempt. cbn [r_left r_owner r_old r_oid r_ipeq r_occ r_att].
      destruct (Z.eqb left 0) eqn:EZ.
      - apply Z.eqb_eq in EZ. subst left.
        rewrite view_finish_fail by (rewrite E2; assumption).
        cbn [r_att]. rewrite E1, E2, E3, E4, E6, E7, E8, E9.
        opn. unfold fail_status. fin.
      - apply Z.eqb_neq in EZ. vw. unfold view_of. rewrite E1, E2, E3, E4, E6, E7, E8, E9.
        opn. destruct (Z.ltb 0 left) eqn:EL; [apply Z.ltb_lt in EL | apply Z.ltb_ge in EL]; fin;
          try (intros r Hr _; inversion Hr; subst; cbn; assumption). }
    unfold next_verdict.
    assert (Hok : forall v pl, accepts v = accepts v ->
       Inv uid (view_of (mkSt (budget s) (status_ s) (fresh s) (S (fresh s)) false (lost s) IdNone (index s) (notified s)
                 (dischooks s) (hooks s) (okrounds s) (rounds s) (readers s) (calls s)
                 (Some (mkRound ow old (RdReset v) oid ipeq occ left (S att))) pl (pdef s) (wedged s)))).
    { intros v pl _. opn. fin; try (intros r Hr _; inversion Hr; subst; cbn; assumption).
      all: right; split; [reflexivity|]; eexists; eexists; split; reflexivity. }
    destruct (plan s) as [|v pl] eqn:PL.
    + destruct (pdef s) eqn:PD; cbn [fst snd].
      * apply Hfail. reflexivity.
      * cbn. apply (Hok VA (plan s)). reflexivity.
      * cbn. apply (Hok VJ (plan s)). reflexivity.
    + destruct v.
      * apply Hfail. reflexivity.
      * cbn. apply (Hok VA pl). reflexivity.
      * cbn. apply (Hok VJ pl). reflexivity.
  - (* RdReset *)
    rewrite Nat.add_0_r in Hh2.
    assert (Hi : if uid then oid = IdUser /\ ipeq = false else ipeq = true).
    { apply (Hi1 _ eq_refl). discriminate. }
    opn. fin.
    all: try (apply Forall_app; split; [assumption | repeat constructor]).
    all: try (rewrite filter_app, app_length; cbn [filter snd accepts]; destruct (accepts v); cbn; lia).
    all: try (intros r Hr _; inversion Hr; subst; cbn; assumption).
    all: try (left; destruct uid; [destruct Hi as [-> ->]; reflexivity | rewrite Hi; reflexivity]).
  - (* RdHook *)
    destruct Hid as [Hid|[_ [v0 Hv]]]; [|discriminate].
    assert (Hi : if uid then oid = IdUser /\ ipeq = false else ipeq = true).
    { apply (Hi1 _ eq_refl). discriminate. }
    destruct v.
    + (* accepted *)
      unfold finish_ok. rewrite view_round_return. opn. cbn [accepts] in Hh2. fin.
      all: try (rewrite filter_app, app_length; cbn; lia).
    + unfold finish_ok. rewrite view_round_return. opn. cbn [accepts] in Hh2. fin.
      all: try (rewrite filter_app, app_length; cbn; lia).
    + (* rejected *)
      cbn [accepts] in Hh2. rewrite Nat.add_0_r in Hh2.
      unfold after_failed_attempt. cbn [r_left r_owner r_old r_oid r_ipeq r_occ r_att].
      destruct (Z.eqb left 0) eqn:EZ.
      * apply Z.eqb_eq in EZ. subst left.
        rewrite view_finish_fail by (left; reflexivity).
        opn. cbn [set_status set_lost status_ budget conn id rounds hooks okrounds wedged fail_status]. fin.
      * apply Z.eqb_neq in EZ. opn.
        destruct (Z.ltb 0 left) eqn:EL; [apply Z.ltb_lt in EL | apply Z.ltb_ge in EL]; fin;
          try (intros r Hr _; inversion Hr; subst; cbn; assumption).
Qed.

Lemma Inv_step uid s e : Inv uid (view_of s) -> Inv uid (view_of (step s e)).
Proof.
  intros H. destruct e; cbn [step].
  - exact H.
  - destruct (reader_step_view s i) as (x & E & Hx). rewrite E. apply Inv_status; assumption.
  - rewrite caller_step_view. exact H.
  - destruct (acquire_view s o) as [E|[L [c E]]]; rewrite E; [exact H|].
    apply Inv_acquire; assumption.
  - apply Inv_round. exact H.
  - rewrite reply_step_view. exact H.
  - change (Inv uid (view_of (step s (EvCancel i k)))). rewrite cancel_view. exact H.
  - exact H.
  - exact H.
  - exact H.
Qed.

Lemma Inv_reachable n uid p d s : reachable n uid p d s -> Inv uid (view_of s).
Proof.
  apply (reachable_ind_inv (fun s => Inv uid (view_of s))).
  - apply Inv_init.
  - intros; apply Inv_step; assumption.
Qed.

Lemma budget_round_return s o b : budget (round_return s o b) = budget s.
Proof. exact (f_equal v_budget (view_round_return s o b)). Qed.

Lemma budget_step s e : budget (step s e) = budget s.
Proof.
  destruct e; cbn [step]; try reflexivity.
  - destruct (reader_step_view s i) as (x & E & _). apply (f_equal v_budget) in E. exact E.
  - apply (f_equal v_budget (caller_step_view s k wfail)).
  - destruct (acquire_view s o) as [E|[_ [c E]]]; apply (f_equal v_budget) in E; exact E.
  - unfold round_step. destruct (lock s) as [r|]; [|reflexivity].
    destruct (r_pc r).
    + destruct (negb _); [apply budget_round_return|].
      destruct (cas_redialing _); [reflexivity | apply budget_round_return].
    + unfold next_verdict, after_failed_attempt, finish_fail.
      destruct (plan s); [destruct (pdef s)|destruct v]; cbn;
        repeat match goal with
               | |- context [if ?c then _ else _] => destruct c
               | |- context [match status_ ?x with _ => _ end] => destruct (status_ x)
               end; cbn; rewrite ?budget_round_return; reflexivity.
    + reflexivity.
    + unfold after_failed_attempt, finish_fail, finish_ok. destruct v; cbn;
        repeat match goal with
               | |- context [if ?c then _ else _] => destruct c
               end; cbn; rewrite ?budget_round_return; reflexivity.
  - apply (f_equal v_budget (reply_step_view s k)).
  - apply (f_equal v_budget (cancel_view s i k)).
Qed.

Lemma budget_reachable n uid p d s : reachable n uid p d s -> budget s = n.
Proof.
  apply (reachable_ind_inv (fun s => budget s = n)); [reflexivity|].
  intros s0 e H. rewrite budget_step. exact H.
Qed.

(* ------------------------------------------------------------------------------------ *)
(* Consequences of the invariant, in the form the property file states them.            *)

Lemma attempts_bounded_lemma n uid p d s :
  reachable n uid p d s -> (0 <= n)%Z ->
  Forall (fun x => (Z.of_nat (fst x) <= 1 + n)%Z) (rounds s) /\
  (forall r, lock s = Some r -> (Z.of_nat (r_att r) <= 1 + n)%Z \/ r_pc r = RdLocked).
Proof.
  intros R Hn. pose proof (budget_reachable _ _ _ _ _ R) as B.
  destruct (Inv_reachable _ _ _ _ _ R) as (_ & _ & Ha & _).
  unfold view_of in Ha; cbn [v_budget v_lock v_rounds] in Ha. rewrite B in Ha. destruct (Ha Hn) as [Hl Hr]. split.
  - eapply Forall_impl; [|exact Hr]. cbn beta. intros; lia.
  - intros r L. rewrite L in Hl. destruct (r_pc r); auto; left; lia.
Qed.

Lemma hooks_lemma n uid p d s :
  reachable n uid p d s ->
  Forall (fun h => fst h = true) (hooks s) /\
  length (filter (fun h => accepts (snd h)) (hooks s)) = okrounds s + hook_pending (lock s) /\
  okrounds s = length (filter (fun x => snd x) (rounds s)).
Proof.
  intros R. destruct (Inv_reachable _ _ _ _ _ R) as (_ & _ & _ & H1 & H2 & H3 & _). auto.
Qed.

Lemma wedged_lemma n uid p d s : reachable n uid p d s -> wedged s = false.
Proof. intros R. destruct (Inv_reachable _ _ _ _ _ R) as (H & _). exact H. Qed.

Lemma status_phase_lemma n uid p d s :
  reachable n uid p d s ->
  match lock s with
  | None => status_unlocked (status_ s)
  | Some r => match r_pc r with
              | RdLocked => status_unlocked (status_ s)
              | RdDial | RdReset _ => status_dialing (status_ s)
              | RdHook _ => status_hooking (status_ s)
              end
  end.
Proof. intros R. destruct (Inv_reachable _ _ _ _ _ R) as (_ & H & _). exact H. Qed.

Lemma transient_status_owned n uid p d s :
  reachable n uid p d s -> status_ s = SRedialing \/ status_ s = SPreparing ->
  exists r, lock s = Some r /\ r_pc r <> RdLocked.
Proof.
  intros R Hs. pose proof (status_phase_lemma _ _ _ _ _ R) as H.
  destruct (lock s) as [r|].
  - exists r. split; [reflexivity|]. destruct (r_pc r); try discriminate. exfalso. st_solve.
  - exfalso. st_solve.
Qed.

Lemma id_kept_lemma n p d s :
  reachable n true p d s -> status_ s = SOk -> id s = IdUser.
Proof.
  intros R Hs. pose proof (status_phase_lemma _ _ _ _ _ R) as Hp.
  destruct (Inv_reachable _ _ _ _ _ R) as (_ & _ & _ & _ & _ & _ & _ & [H|[_ (r & v & L & P)]]); [exact H|].
  unfold view_of in L; cbn in L. rewrite L, P in Hp. exfalso. st_solve.
Qed.

Lemma id_refreshed_lemma n p d s :
  reachable n false p d s -> status_ s = SOk -> id s = IdAddr (conn s).
Proof.
  intros R Hs. pose proof (status_phase_lemma _ _ _ _ _ R) as Hp.
  destruct (Inv_reachable _ _ _ _ _ R) as (_ & _ & _ & _ & _ & _ & _ & [H|[_ (r & v & L & P)]]); [exact H|].
  unfold view_of in L; cbn in L. rewrite L, P in Hp. exfalso. st_solve.
Qed.

(* D4: when the range over the n tabled calls completes, each of them that was waiting for
   a reply has been completed with connection-closed; none is left waiting *)
Lemma calls_set_rpc s i p : calls (set_rpc s i p) = calls s.
Proof. unfold set_rpc. destruct (nth_error (readers s) i) as [[c q]|]; reflexivity. Qed.

Lemma nth_firstn {A} (l : list A) : forall n k, k < n -> nth_error (firstn n l) k = nth_error l k.
Proof.
  induction l as [|a l IH]; intros [|n] [|k] Hk; cbn; try lia; try reflexivity.
  apply IH. lia.
Qed.

Definition cancelled (cl : call) : call :=
  match c_pc cl with
  | CAwait _ => mkCall (c_hold cl) (c_ready cl) (c_on cl) (CDone RClosed)
  | _ => cl
  end.

Lemma d4_lemma s i c x n :
  nth_error (readers s) i = Some (c, RWantMu x n) ->
  existsb holds_mu (firstn n (calls s)) = false ->
  forall k cl, k < n -> nth_error (calls s) k = Some cl ->
    nth_error (calls (reader_step s i)) k = Some (cancelled cl) /\
    (forall c', c_pc (cancelled cl) <> CAwait c') /\ holds_mu cl = false.
Proof.
  intros Hr Hmu k cl Hk Hc. unfold reader_step. rewrite Hr, Hmu.
  assert (E : nth_error (cancel_all (firstn n (calls s)) ++ skipn n (calls s)) k = Some (cancelled cl)).
  { assert (Hf : nth_error (firstn n (calls s)) k = Some cl) by (rewrite nth_firstn; assumption).
    rewrite nth_error_app1.
    - unfold cancel_all. rewrite nth_error_map, Hf. reflexivity.
    - unfold cancel_all. rewrite map_length. apply nth_error_Some. congruence. }
  split; [|split].
  - destruct x; rewrite calls_set_rpc; exact E.
  - intros c'. unfold cancelled. destruct (c_pc cl) eqn:E0; cbn; rewrite ?E0; congruence.
  - assert (Hf : nth_error (firstn n (calls s)) k = Some cl) by (rewrite nth_firstn; assumption).
    apply nth_error_In in Hf. destruct (holds_mu cl) eqn:E2; [|reflexivity].
    assert (existsb holds_mu (firstn n (calls s)) = true) by (apply existsb_exists; eauto). congruence.
Qed.

(* the same for the first cancel pass, the one that runs before the wait for the handlers *)
Lemma d4_first_lemma s i c x n :
  nth_error (readers s) i = Some (c, RWantMu1 x n) ->
  existsb holds_mu (firstn n (calls s)) = false ->
  forall k cl, k < n -> nth_error (calls s) k = Some cl ->
    nth_error (calls (reader_step s i)) k = Some (cancelled cl) /\
    (forall c', c_pc (cancelled cl) <> CAwait c') /\ holds_mu cl = false.
Proof.
  intros Hr Hmu k cl Hk Hc. unfold reader_step. rewrite Hr, Hmu.
  assert (Hf : nth_error (firstn n (calls s)) k = Some cl) by (rewrite nth_firstn; assumption).
  split; [|split].
  - rewrite calls_set_rpc. cbn [calls set_calls]. rewrite nth_error_app1.
    + unfold cancel_all. rewrite nth_error_map, Hf. reflexivity.
    + unfold cancel_all. rewrite map_length. apply nth_error_Some. congruence.
  - intros c'. unfold cancelled. destruct (c_pc cl) eqn:E0; cbn; rewrite ?E0; congruence.
  - apply nth_error_In in Hf. destruct (holds_mu cl) eqn:E2; [|reflexivity].
    assert (existsb holds_mu (firstn n (calls s)) = true) by (apply existsb_exists; eauto). congruence.
Qed.

Lemma d4_both_lemma s i c x n :
  nth_error (readers s) i = Some (c, RWantMu1 x n) \/ nth_error (readers s) i = Some (c, RWantMu x n) ->
  existsb holds_mu (firstn n (calls s)) = false ->
  forall k cl, k < n -> nth_error (calls s) k = Some cl ->
    nth_error (calls (reader_step s i)) k = Some (cancelled cl) /\
    (forall c', c_pc (cancelled cl) <> CAwait c') /\ holds_mu cl = false.
Proof. intros [H|H]; [eapply d4_first_lemma | eapply d4_lemma]; exact H. Qed.

(* a reader-owned round that fails is followed by D8 *)
Lemma d8_lemma s i c :
  nth_error (readers s) i = Some (c, RAfterFail) ->
  let s' := reader_step s i in
  status_ s' = SPassiveClosed /\ notified s' = (if Nat.eqb (notified s) 0 then 1 else notified s) /\
  dischooks s' = S (dischooks s) /\ health s' = negb (Z.eqb (budget s) 0).
Proof.
  intros Hr. unfold reader_step. rewrite Hr. cbn zeta.
  unfold set_rpc, d8. cbn. rewrite Hr. cbn. auto.
Qed.

(* ------------------------------------------------------------------------------------ *)
(* Witness schedules (each was also forced on the implementation through the gates).     *)

Definition internal (e : ev) : bool :=
  match e with
  | EvReader _ | EvCaller _ _ | EvAcquire _ | EvRound | EvReply _ | EvCancel _ _ => true
  | _ => false
  end.

(* A second caller reads the connection after socket.Reset and the status before the round
   stores Ok; when it gets the lock it redials the healthy session; the replaced reader then
   runs the disconnect path on the newest connection. *)
Definition w_stuck : list ev :=
  [EvCut; EvReader 0; EvReader 0;
   EvCall false; EvCaller 0 false; EvAcquire (OwC 0); EvRound; EvRound;
   EvCall false; EvCaller 1 false;
   EvRound; EvRound; EvCaller 0 false; EvCaller 0 false; EvReply 0;
   EvAcquire (OwC 1); EvRound; EvRound; EvRound; EvRound;
   EvCaller 1 false; EvCaller 1 false; EvReply 1;
   EvReader 1; EvReader 1; EvReader 1; EvReader 1; EvReader 1; EvReader 1; EvReader 1;
   EvAcquire (OwR 1); EvRound;
   EvReader 2; EvReader 2;
   EvReader 0; EvReader 0; EvReader 0; EvReader 0; EvReader 0; EvAcquire (OwR 0); EvRound].

Lemma reader_step_out s i : length (readers s) <= i -> reader_step s i = s.
Proof. intros H. unfold reader_step. apply nth_error_None in H. rewrite H. reflexivity. Qed.
Lemma caller_step_out s k w : length (calls s) <= k -> caller_step s k w = s.
Proof. intros H. unfold caller_step. apply nth_error_None in H. rewrite H. reflexivity. Qed.
Lemma reply_step_out s k : length (calls s) <= k -> reply_step s k = s.
Proof. intros H. unfold reply_step. apply nth_error_None in H. rewrite H. reflexivity. Qed.
Lemma cancel_out_r s i k : length (readers s) <= i -> step s (EvCancel i k) = s.
Proof. intros H. cbn [step]. apply nth_error_None in H. rewrite H. reflexivity. Qed.
Lemma acquire_out_r s i : length (readers s) <= i -> acquire s (OwR i) = s.
Proof. intros H. unfold acquire. apply nth_error_None in H. rewrite H. destruct (lock s); reflexivity. Qed.
Lemma acquire_out_c s k : length (calls s) <= k -> acquire s (OwC k) = s.
Proof. intros H. unfold acquire. apply nth_error_None in H. rewrite H. destruct (lock s); reflexivity. Qed.

Definition s_stuck : st :=
  mkSt 2 SPassiveClosing 2 3 true [2; 1; 0; 0] IdUser [] 0 0 [(true, VA); (true, VA)] 2
       [(1, true); (1, true)] [(0, RDone); (1, RDone); (2, RDone)]
       [mkCall false true None (CDone ROk); mkCall false true None (CDone ROk)] None [] VA false.

Lemma w_stuck_state : run (init 2 true [] VA) w_stuck = s_stuck.
Proof. vm_compute. reflexivity. Qed.

Lemma s_stuck_no_internal_step e : internal e = true -> step s_stuck e = s_stuck.
Proof.
  intros He. destruct e; try discriminate He; cbn [step].
  - destruct i as [|[|[|i]]]; try reflexivity. apply reader_step_out. cbn. lia.
  - destruct k as [|[|k]]; try reflexivity. apply caller_step_out. cbn. lia.
  - destruct o as [i|k].
    + destruct i as [|[|[|i]]]; try reflexivity. apply acquire_out_r. cbn. lia.
    + destruct k as [|[|k]]; try reflexivity. apply acquire_out_c. cbn. lia.
  - reflexivity.
  - destruct k as [|[|k]]; try reflexivity. apply reply_step_out. cbn. lia.
  - destruct i as [|[|[|i]]]; try reflexivity.
    change (step s_stuck (EvCancel (S (S (S i))) k) = s_stuck). apply cancel_out_r. cbn. lia.
Qed.

Lemma w_stuck_lemma :
  let s := run (init 2 true [] VA) w_stuck in
  status_ s = SPassiveClosing /\ notified s = 0 /\ index s = [] /\ okrounds s = 2 /\
  plan s = [] /\ pdef s = VA /\ quiescent s = true /\
  forall e, internal e = true -> step s e = s.
Proof.
  cbv zeta. rewrite w_stuck_state. repeat split; try reflexivity.
  apply s_stuck_no_internal_step.
Qed.

(* A writer-owned round is exhausted after a rejected hook replaced the socket's connection;
   the reader's own redialForClient then returns true and D8 never runs. *)
Definition w_exhausted : list ev :=
  [EvCut; EvReader 0; EvReader 0;
   EvCall false; EvCaller 0 false; EvAcquire (OwC 0); EvRound; EvRound; EvRound; EvRound; EvRound;
   EvReader 0; EvReader 0; EvReader 0; EvReader 0; EvReader 0; EvAcquire (OwR 0); EvRound].

Lemma w_exhausted_lemma :
  let s := run (init 1 true [VJ; VU] VU) w_exhausted in
  status_ s = SRedialFailed /\ rounds s = [(2, false)] /\ notified s = 0 /\ dischooks s = 0 /\
  quiescent s = true /\ nth_error (calls s) 0 = Some (mkCall false false None (CDone RClosed)).
Proof. vm_compute. repeat split; reflexivity. Qed.

Lemma w_exhausted_indexed_lemma :
  let s := run (init 1 false [VJ; VU] VU) w_exhausted in
  status_ s = SRedialFailed /\ rounds s = [(2, false)] /\ notified s = 0 /\
  index s = [IdAddr 0] /\ id s = IdAddr 1 /\ quiescent s = true.
Proof. vm_compute. repeat split; reflexivity. Qed.

(* The writer redials while the old reader stands between D1 and D6; the old reader then
   removes the live session from the index, cancels a call sent on the new connection and
   closes the new connection. *)
Definition w_overlap : list ev :=
  [EvCut; EvReader 0; EvReader 0;
   EvCall true; EvCaller 0 false; EvAcquire (OwC 0); EvRound; EvRound; EvRound; EvRound;
   EvCaller 0 false; EvCaller 0 false;
   EvReader 0; EvReader 0; EvReader 0; EvReader 0; EvReader 0].

Lemma w_overlap_lemma :
  let s1 := run (init 2 true [] VA) (firstn 12 w_overlap) in
  let s := run (init 2 true [] VA) w_overlap in
  (status_ s1 = SOk /\ mem (conn s1) (lost s1) = false /\ index s1 = [IdUser] /\
   nth_error (calls s1) 0 = Some (mkCall true false (Some (conn s1)) (CAwait (conn s1)))) /\
  (status_ s = SOk /\ health s = true /\ conn s = conn s1 /\ mem (conn s) (lost s) = true /\
   index s = [] /\ okrounds s = 1 /\
   nth_error (calls s) 0 = Some (mkCall true false (Some (conn s1)) (CDone RClosed))).
Proof. vm_compute. repeat split; reflexivity. Qed.
