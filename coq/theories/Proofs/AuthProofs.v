(* Lemmas about Model/Auth.v: an invariant of the accept-path machine that holds after every
   input sequence (any chunking of the client's bytes, Eof or Gone at any point), and the
   characterisation of what the read loop processes behind the exchange. *)
From Coq Require Import Strings.String Strings.Byte.
From Coq Require Import List Arith NArith ZArith Bool Lia.
From Verif Require Import Base.Bytes Model.Auth.
Import ListNotations.

(* ---- generic list facts ---- *)
Lemma split_after_prefix {A} (a : list A) : forall l1 (e : A) l2 b,
  l1 ++ e :: l2 = a ++ b -> ~ In e a -> exists b1, l1 = a ++ b1 /\ b = b1 ++ e :: l2.
Proof.
  induction a as [|x a IH]; intros l1 e l2 b E Hn; cbn [app] in *.
  - exists l1. split; [reflexivity | symmetry; exact E].
  - destruct l1 as [|y l1]; cbn [app] in E; inversion E; subst.
    + exfalso. apply Hn. left. reflexivity.
    + destruct (IH l1 e l2 b H1) as (b1 & -> & ->).
      * intros Hi. apply Hn. right. exact Hi.
      * exists b1. split; reflexivity.
Qed.

Definition count (p : ev -> bool) (t : list ev) : nat := length (filter p t).

Lemma count_app p a b : count p (a ++ b) = count p a + count p b.
Proof. unfold count. rewrite filter_app, app_length. reflexivity. Qed.

Lemma count_none p t : Forall (fun e => p e = false) t -> count p t = 0.
Proof.
  unfold count. induction 1 as [|e t He _ IH]; cbn [filter]; [reflexivity|].
  rewrite He. exact IH.
Qed.

Definition is_recv (e : ev) : bool := match e with EvRecv => true | _ => false end.
Definition is_auth_reply (e : ev) : bool :=
  match e with EvAuthReply _ | EvAuthReplyFailed => true | _ => false end.
Definition is_verdict (e : ev) : bool := match e with EvAccept | EvReject => true | _ => false end.
Definition is_handler (e : ev) : bool := match e with EvHandler _ _ => true | _ => false end.
Definition is_reply (e : ev) : bool := match e with EvReply _ _ => true | _ => false end.

(* the events of the exchange that precede the auth reply *)
Definition pre_ok (pre : list ev) : Prop :=
  exists a b : bool, pre = (if a then [EvRecv] else []) ++ (if b then [EvMultiRecv] else []).

Lemma pre_ok_not_app pre : pre_ok pre -> Forall (fun e => is_app e = false) pre.
Proof. intros ([|] & [|] & ->); repeat constructor. Qed.

Lemma pre_ok_recv pre : pre_ok pre -> count is_recv pre <= 1.
Proof. intros ([|] & [|] & ->); cbn; lia. Qed.

Lemma pre_ok_no_reply pre : pre_ok pre -> Forall (fun e => is_auth_reply e = false) pre.
Proof. intros ([|] & [|] & ->); repeat constructor. Qed.

Lemma pre_ok_no_verdict pre : pre_ok pre -> Forall (fun e => is_verdict e = false) pre.
Proof. intros ([|] & [|] & ->); repeat constructor. Qed.

Lemma nonexchange_sub (p : ev -> bool) post :
  (forall e, is_exchange e = false -> p e = false) ->
  Forall (fun e => is_exchange e = false) post -> Forall (fun e => p e = false) post.
Proof. intros Hp H. eapply Forall_impl; [|exact H]. exact Hp. Qed.

Section Server.
  Variable status_code : bytes -> Z.
  Variable info_dec : byte -> bytes -> option bytes.
  Variable route_call : bytes -> bool.
  Variable route_push : bytes -> bool.
  Variable limit : N.

  Notation pump_fuel := (pump_fuel status_code info_dec route_call route_push limit).
  Notation pump := (pump status_code info_dec route_call route_push limit).
  Notation step := (step status_code info_dec route_call route_push limit).
  Notation run := (run status_code info_dec route_call route_push limit).
  Notation frame_events := (frame_events route_call route_push).
  Notation recv_of_frame := (recv_of_frame status_code info_dec).
  Notation loop_frames_fuel := (loop_frames_fuel limit).
  Notation loop_frames := (loop_frames limit).

  Definition accept3 : list ev := [EvAuthReply 0; EvNextAccept; EvAccept].

  (* What is true of the server state after any history. *)
  Inductive inv : st -> Prop :=
  | inv_prep s : ph s = Preparing -> trace s = [] -> accepted s = false -> indexed s = false -> inv s
  | inv_acc s pre post :
      ph s <> Preparing -> pre_ok pre -> trace s = pre ++ accept3 ++ post ->
      Forall (fun e => is_exchange e = false) post ->
      accepted s = true ->
      (indexed s = true <-> exists h, ph s = Running h) ->
      inv s
  | inv_rej s pre r :
      ph s = Closed -> pre_ok pre -> trace s = pre ++ [r; EvReject; EvDisconnect] ->
      (r = EvAuthReplyFailed \/ exists c, r = EvAuthReply c /\ c <> 0%Z) ->
      accepted s = false -> indexed s = false -> inv s.

  Lemma frame_events_nonexchange g f : Forall (fun e => is_exchange e = false) (frame_events g f).
  Proof.
    unfold Auth.frame_events, reply_events.
    destruct (beqb (f_mtype f) t_call); [|destruct (beqb (f_mtype f) t_push); [|destruct (beqb (f_mtype f) t_reply)]].
    - destruct (f_sm f); [destruct g; repeat constructor|].
      destruct (route_call _); destruct g; repeat constructor.
    - destruct (f_sm f); [repeat constructor|]. destruct (route_push _); repeat constructor.
    - constructor.
    - repeat constructor.
  Qed.

  Lemma inv_finish_accept ck s r rest :
    ph s = Preparing -> trace s = [] -> inv (finish_accept ck s r rest).
  Proof.
    intros Hp Ht. unfold Auth.finish_accept. rewrite Ht. cbn [app].
    set (pre := (match r with Some _ => [EvRecv] | None => [] end) ++
                (if Nat.leb 2 (ck_recvs ck) then [EvMultiRecv] else [])).
    assert (Hpre : pre_ok pre).
    { exists (match r with Some _ => true | None => false end), (Nat.leb 2 (ck_recvs ck)).
      subst pre. destruct r; reflexivity. }
    destruct (gone s).
    - eapply inv_rej with (pre := pre) (r := EvAuthReplyFailed); cbn; auto.
    - destruct (Z.eqb (verdict_code ck r) 0) eqn:E.
      + eapply inv_acc with (pre := pre) (post := []); cbn; auto.
        * discriminate.
        * split; [eauto | reflexivity].
      + eapply inv_rej with (pre := pre) (r := EvAuthReply (verdict_code ck r)); cbn; auto.
        right. eexists. split; [reflexivity|]. apply Z.eqb_neq. exact E.
  Qed.

  Lemma inv_extend s s' es :
    inv s -> accepted s = true ->
    trace s' = trace s ++ es -> Forall (fun e => is_exchange e = false) es ->
    accepted s' = true -> ph s' <> Preparing ->
    (indexed s' = true <-> exists h, ph s' = Running h) -> inv s'.
  Proof.
    intros Hi Ha Ht Hes Ha' Hp Hix. inversion Hi as [? ? ? Hacc|? pre post Hnp Hpre Htr Hpost|? ? ? ? ? ? ? Hacc]; subst.
    - congruence.
    - eapply inv_acc with (pre := pre) (post := post ++ es); auto.
      + rewrite Ht, Htr, <- !app_assoc. reflexivity.
      + apply Forall_app. split; assumption.
    - congruence.
  Qed.

  Lemma inv_running_accepted s h : inv s -> ph s = Running h -> accepted s = true.
  Proof. intros Hi Hp. inversion Hi; subst; congruence. Qed.

  Lemma inv_pump_fuel ck n : forall s, inv s -> inv (pump_fuel ck n s).
  Proof.
    induction n as [|n IH]; intros s Hi; cbn [Auth.pump_fuel]; [exact Hi|].
    destruct (ph s) eqn:Hp.
    - (* Preparing *)
      assert (Ht : trace s = []) by (inversion Hi; subst; congruence).
      destruct (ck_recvs ck).
      + apply IH. apply inv_finish_accept; assumption.
      + destruct (parse limit (buf s)).
        * destruct (eof s || gone s); [apply IH; apply inv_finish_accept; assumption | exact Hi].
        * apply IH. apply inv_finish_accept; assumption.
        * apply IH. apply inv_finish_accept; assumption.
    - (* Running *)
      pose proof (inv_running_accepted _ _ Hi Hp) as Hacc.
      set (s1 := if hdr then s
                 else mkSt (Running true) (buf s) (eof s) (gone s) (accepted s) (indexed s)
                           (trace s ++ [EvHook h_pre_read_header])).
      assert (Hi1 : inv s1 /\ accepted s1 = true /\ (exists h, ph s1 = Running h) /\ indexed s1 = indexed s).
      { subst s1. destruct hdr.
        - repeat split; eauto.
        - repeat split; cbn; eauto.
          eapply inv_extend with (s := s) (es := [EvHook h_pre_read_header]);
            cbn; auto; try discriminate; try (solve [repeat constructor]).
          inversion Hi; subst; try congruence.
          split; [eauto|]. intros _. match goal with H : _ <-> _ |- _ => apply H end. eauto. }
      destruct Hi1 as (Hi1 & Ha1 & (h1 & Hp1) & Hx1).
      assert (Hclose : forall es, Forall (fun e => is_exchange e = false) es -> inv (close_loop s1 es)).
      { intros es Hes. eapply inv_extend with (s := s1) (es := es); cbn; auto; try discriminate.
        split; [discriminate | intros (h & Hh); discriminate]. }
      destruct (parse limit (buf s)) as [| |f rest].
      + destruct (eof s || gone s); [apply Hclose; repeat constructor | exact Hi1].
      + apply Hclose. repeat constructor.
      + set (s2 := mkSt (Running false) rest (eof s) (gone s) (accepted s) (indexed s)
                        (trace s1 ++ frame_events (gone s) f)).
        assert (Hi2 : inv s2).
        { eapply inv_extend with (s := s1) (es := frame_events (gone s) f); cbn; auto; try discriminate.
          - apply frame_events_nonexchange.
          - rewrite <- Hx1. inversion Hi1; subst; try congruence.
            split; [eauto|]. intros _. match goal with H : _ <-> _ |- _ => apply H end. eauto. }
        destruct (is_app_type f); [apply IH; exact Hi2|].
        eapply inv_extend with (s := s2) (es := [EvDisconnect]);
          cbn; auto; try discriminate; try (solve [repeat constructor]).
        split; [discriminate | intros (h & Hh); discriminate].
    - exact Hi.
  Qed.

  Lemma inv_feed s i : inv s -> inv (feed s i).
  Proof.
    intros Hi. destruct i; cbn [feed]; [destruct (eof s || gone s); [exact Hi|]| |];
      (inversion Hi as [| ? pre post ? ? Htr | ? pre r ? ? Htr]; subst;
       [apply inv_prep; cbn [ph trace accepted indexed]; auto
       | eapply inv_acc with (pre := pre) (post := post); cbn [ph trace accepted indexed]; eauto
       | eapply inv_rej with (pre := pre) (r := r); cbn [ph trace accepted indexed]; eauto]).
  Qed.

  Lemma inv_init : inv init.
  Proof. apply inv_prep; reflexivity. Qed.

  Lemma inv_run ck ins : inv (run ck ins).
  Proof.
    unfold Auth.run. assert (H0 : inv (pump ck init)) by (apply inv_pump_fuel, inv_init).
    revert H0. generalize (pump ck init). induction ins as [|i ins IH]; intros s Hs; cbn [fold_left].
    - exact Hs.
    - apply IH. unfold Auth.step, Auth.pump. apply inv_pump_fuel, inv_feed, Hs.
  Qed.

  (* ---- consequences of the invariant ---- *)
  Lemma exchange_not_app e : is_app e = true -> is_exchange e = false.
  Proof. destruct e; cbn; congruence. Qed.

  Lemma inv_app_after_accept s tr1 e tr2 :
    inv s -> trace s = tr1 ++ e :: tr2 -> is_app e = true ->
    exists pre b1, pre_ok pre /\ tr1 = pre ++ accept3 ++ b1.
  Proof.
    intros Hi Ht He. inversion Hi as [? ? Hnil|? pre post Hnp Hpre Htr Hpost|? pre r ? Hpre Htr Hr]; subst.
    - rewrite Hnil in Ht. destruct tr1; discriminate.
    - rewrite Htr, app_assoc in Ht.
      destruct (split_after_prefix (pre ++ accept3) tr1 e tr2 post (eq_sym Ht)) as (b1 & -> & _).
      + intros Hin. apply in_app_or in Hin. destruct Hin as [Hin|Hin].
        * pose proof (pre_ok_not_app _ Hpre) as Hf. rewrite Forall_forall in Hf.
          rewrite (Hf _ Hin) in He. discriminate.
        * cbn in Hin. destruct Hin as [E|[E|[E|[]]]]; subst e; cbn in He; discriminate.
      + exists pre, b1. split; [exact Hpre|]. rewrite <- app_assoc. reflexivity.
    - exfalso. rewrite Htr in Ht.
      assert (Hin : In e (pre ++ [r; EvReject; EvDisconnect])) by (rewrite Ht; apply in_elt).
      apply in_app_or in Hin. destruct Hin as [Hin|Hin].
      + pose proof (pre_ok_not_app _ Hpre) as Hf. rewrite Forall_forall in Hf.
        rewrite (Hf _ Hin) in He. discriminate.
      + cbn in Hin. destruct Hin as [E|[E|[E|[]]]]; subst e; cbn in He; try discriminate.
        destruct Hr as [->|(c & -> & _)]; discriminate.
  Qed.

  Lemma no_app_before_accept ck ins tr1 e tr2 :
    trace (run ck ins) = tr1 ++ e :: tr2 -> is_app e = true ->
    In (EvAuthReply 0) tr1 /\ In EvAccept tr1 /\ accepted (run ck ins) = true.
  Proof.
    intros Ht He. pose proof (inv_run ck ins) as Hi.
    destruct (inv_app_after_accept _ _ _ _ Hi Ht He) as (pre & b1 & _ & ->).
    split; [|split].
    - apply in_or_app. right. cbn. auto.
    - apply in_or_app. right. cbn. auto.
    - inversion Hi as [? ? Hnil|? ? ? ? ? ? ? Hacc|? pre' r ? Hpre Htr Hr]; subst; auto.
      + rewrite Hnil in Ht. destruct pre; discriminate.
      + exfalso. rewrite Htr in Ht.
        assert (Hin : In e (pre' ++ [r; EvReject; EvDisconnect])) by (rewrite Ht; apply in_elt).
        apply in_app_or in Hin. destruct Hin as [Hin|Hin].
        * pose proof (pre_ok_not_app _ Hpre) as Hf. rewrite Forall_forall in Hf.
          rewrite (Hf _ Hin) in He. discriminate.
        * cbn in Hin. destruct Hin as [E|[E|[E|[]]]]; subst e; cbn in He; try discriminate.
          destruct Hr as [->|(c & -> & _)]; discriminate.
  Qed.

  Lemma not_accepted_no_app ck ins :
    accepted (run ck ins) = false -> Forall (fun e => is_app e = false) (trace (run ck ins)).
  Proof.
    intros Ha. pose proof (inv_run ck ins) as Hi.
    inversion Hi as [? ? Hnil|? ? ? ? ? ? ? Hacc|? pre r ? Hpre Htr Hr]; subst.
    - rewrite Hnil. constructor.
    - congruence.
    - rewrite Htr. apply Forall_app. split; [apply pre_ok_not_app; exact Hpre|].
      destruct Hr as [->|(c & -> & _)]; repeat constructor.
  Qed.

  Lemma exchange_once ck ins :
    let t := trace (run ck ins) in
    count is_recv t <= 1 /\ count is_auth_reply t <= 1 /\ count is_verdict t <= 1 /\
    (In EvAccept t ->
       exists pre post, t = pre ++ [EvAuthReply 0; EvNextAccept; EvAccept] ++ post /\
         Forall (fun e => is_app e = false) pre /\
         Forall (fun e => is_exchange e = false) post).
  Proof.
    cbn zeta. pose proof (inv_run ck ins) as Hi.
    inversion Hi as [? ? Hnil|? pre post Hnp Hpre Htr Hpost|? pre r ? Hpre Htr Hr]; subst.
    - rewrite Hnil. cbn. repeat split; try lia; try (intros []).
    - rewrite Htr. rewrite !count_app.
      assert (P1 : Forall (fun e => is_recv e = false) post)
        by (eapply nonexchange_sub; [|exact Hpost]; intros e; destruct e; cbn; congruence).
      assert (P2 : Forall (fun e => is_auth_reply e = false) post)
        by (eapply nonexchange_sub; [|exact Hpost]; intros e; destruct e; cbn; congruence).
      assert (P3 : Forall (fun e => is_verdict e = false) post)
        by (eapply nonexchange_sub; [|exact Hpost]; intros e; destruct e; cbn; congruence).
      rewrite (count_none is_recv post P1), (count_none is_auth_reply post P2), (count_none is_verdict post P3).
      rewrite (count_none is_auth_reply pre) by (apply pre_ok_no_reply; exact Hpre).
      rewrite (count_none is_verdict pre) by (apply pre_ok_no_verdict; exact Hpre).
      pose proof (pre_ok_recv _ Hpre). cbn. repeat split; try lia.
      intros _. exists pre, post. repeat split; auto. apply pre_ok_not_app. exact Hpre.
    - rewrite Htr. rewrite !count_app.
      rewrite (count_none is_auth_reply pre) by (apply pre_ok_no_reply; exact Hpre).
      rewrite (count_none is_verdict pre) by (apply pre_ok_no_verdict; exact Hpre).
      pose proof (pre_ok_recv _ Hpre).
      repeat split.
      + destruct Hr as [->|(c & -> & _)]; cbn; lia.
      + destruct Hr as [->|(c & -> & _)]; cbn; lia.
      + destruct Hr as [->|(c & -> & _)]; cbn; lia.
      + intros Hin. exfalso. apply in_app_or in Hin. destruct Hin as [Hin|Hin].
        * pose proof (pre_ok_no_verdict _ Hpre) as Hf. rewrite Forall_forall in Hf.
          specialize (Hf _ Hin). discriminate.
        * cbn in Hin. destruct Hin as [E|[E|[E|[]]]]; try discriminate.
          destruct Hr as [?|(c & ? & _)]; subst r; discriminate.
  Qed.

  Lemma rejected_closed_unindexed ck ins :
    In EvReject (trace (run ck ins)) ->
    ph (run ck ins) = Closed /\ indexed (run ck ins) = false /\ accepted (run ck ins) = false /\
    Forall (fun e => is_app e = false) (trace (run ck ins)).
  Proof.
    intros Hin. pose proof (inv_run ck ins) as Hi.
    inversion Hi as [? ? Hnil|? pre post Hnp Hpre Htr Hpost|? pre r Hc Hpre Htr Hr Ha Hx]; subst.
    - rewrite Hnil in Hin. destruct Hin.
    - exfalso. rewrite Htr in Hin. apply in_app_or in Hin. destruct Hin as [Hin|Hin].
      + pose proof (pre_ok_no_verdict _ Hpre) as Hf. rewrite Forall_forall in Hf.
        specialize (Hf _ Hin). discriminate.
      + apply in_app_or in Hin. destruct Hin as [Hin|Hin].
        * cbn in Hin. destruct Hin as [|[|[|[]]]]; discriminate.
        * rewrite Forall_forall in Hpost. specialize (Hpost _ Hin). discriminate.
    - repeat split; auto. apply not_accepted_no_app. exact Ha.
  Qed.

  Lemma indexed_only_running ck ins :
    indexed (run ck ins) = true ->
    accepted (run ck ins) = true /\ exists h, ph (run ck ins) = Running h.
  Proof.
    intros Hx. pose proof (inv_run ck ins) as Hi.
    inversion Hi as [|? ? ? ? ? ? ? Hacc Hiff|]; subst; try congruence.
    split; [exact Hacc | apply Hiff; exact Hx].
  Qed.

  (* ---- termination of the connection after the client's EOF ---- *)
  Lemma take_fst_length n d a r : take n d = Some (a, r) -> length r <= length d.
  Proof.
    unfold take. destruct (Nat.ltb (length d) n); [discriminate|].
    intros E; inversion E; subst. rewrite skipn_length. lia.
  Qed.

  Lemma parse_rest_shorter b f r : parse limit b = PFrame f r -> length r < length b.
  Proof.
    unfold parse. destruct (Nat.ltb (length b) 4) eqn:L; [discriminate|].
    apply Nat.ltb_ge in L.
    destruct (limit <? _)%N; [discriminate|]. destruct (_ <? 4)%N; [discriminate|].
    destruct (skipn 4 b) as [|x r5] eqn:S4; [discriminate|].
    assert (Hl : length (x :: r5) = length b - 4) by (rewrite <- S4; apply skipn_length).
    cbn [length] in Hl.
    destruct (0 <? b2n x)%N; [destruct (Nat.ltb _ _); discriminate|].
    destruct (_ =? 4)%N; [discriminate|].
    destruct (Nat.ltb _ _); [discriminate|].
    destruct (decode_frame _); [|discriminate].
    intros E; inversion E; subst. rewrite skipn_length. lia.
  Qed.

  Lemma pump_fuel_closed ck n s : ph s = Closed -> pump_fuel ck n s = s.
  Proof. intros Hp. destruct n; cbn [Auth.pump_fuel]; [reflexivity | rewrite Hp; reflexivity]. Qed.

  Lemma finish_accept_shape ck s r rest :
    let s' := finish_accept ck s r rest in
    buf s' = rest /\ eof s' = eof s /\ (ph s' = Closed \/ ph s' = Running false).
  Proof.
    cbn zeta. unfold Auth.finish_accept. destruct (gone s); [cbn; auto|].
    destruct (Z.eqb _ 0); cbn; auto.
  Qed.

  Lemma pump_fuel_eof_closes ck n : forall s,
    eof s = true ->
    (ph s = Preparing -> length (buf s) + 2 <= n) ->
    (forall h, ph s = Running h -> length (buf s) + 1 <= n) ->
    ph (pump_fuel ck n s) = Closed.
  Proof.
    induction n as [|n IH]; intros s He Hp Hr.
    - destruct (ph s) eqn:P; [specialize (Hp eq_refl); lia | specialize (Hr _ eq_refl); lia | exact P].
    - cbn [Auth.pump_fuel]. destruct (ph s) eqn:P.
      + specialize (Hp eq_refl).
        assert (Hfin : forall r rest, length rest <= length (buf s) ->
                   ph (pump_fuel ck n (finish_accept ck s r rest)) = Closed).
        { intros r rest Hl. destruct (finish_accept_shape ck s r rest) as (Hb & He' & [Hc|Hrun]).
          - rewrite pump_fuel_closed; assumption.
          - apply IH; [congruence | intros Hx; congruence |]. intros h _. rewrite Hb. lia. }
        destruct (ck_recvs ck); [apply Hfin; lia|].
        destruct (parse limit (buf s)) eqn:Pa.
        * rewrite He. cbn [orb]. apply Hfin; lia.
        * apply Hfin; lia.
        * apply Hfin. apply parse_rest_shorter in Pa. lia.
      + specialize (Hr _ eq_refl).
        destruct (parse limit (buf s)) eqn:Pa.
        * rewrite He. reflexivity.
        * reflexivity.
        * destruct (is_app_type f); [|reflexivity].
          apply parse_rest_shorter in Pa.
          apply IH; cbn; [exact He | discriminate | intros; lia].
      + exact P.
  Qed.

  Lemma pump_preserves_eof ck n : forall s, eof (pump_fuel ck n s) = eof s.
  Proof.
    induction n as [|n IH]; intros s; cbn [Auth.pump_fuel]; [reflexivity|].
    destruct (ph s); [| |reflexivity].
    - assert (Hfin : forall r rest, eof (pump_fuel ck n (finish_accept ck s r rest)) = eof s).
      { intros. rewrite IH. apply finish_accept_shape. }
      destruct (ck_recvs ck); [apply Hfin|].
      destruct (parse limit (buf s)); [destruct (eof s || gone s); [apply Hfin|reflexivity] | apply Hfin | apply Hfin].
    - destruct (parse limit (buf s)).
      + destruct (eof s || gone s); destruct hdr; reflexivity.
      + destruct hdr; reflexivity.
      + destruct (is_app_type f); [rewrite IH; reflexivity | reflexivity].
  Qed.

  Lemma step_closed_stays ck s i : ph s = Closed -> step ck s i = feed s i /\ ph (feed s i) = Closed.
  Proof.
    intros Hp. assert (Hf : ph (feed s i) = Closed).
    { destruct i; cbn [feed]; [destruct (eof s || gone s)|..]; cbn; assumption. }
    split; [|exact Hf]. unfold Auth.step, Auth.pump. apply pump_fuel_closed. exact Hf.
  Qed.

  Lemma feed_keeps_index s i : indexed (feed s i) = indexed s /\ trace (feed s i) = trace s.
  Proof. destruct i; cbn [feed]; [destruct (eof s || gone s)|..]; cbn; auto. Qed.

  Lemma eof_finishes ck ins1 ins2 :
    let s := run ck (ins1 ++ Eof :: ins2) in ph s = Closed /\ indexed s = false.
  Proof.
    cbn zeta. assert (Hc : ph (run ck (ins1 ++ Eof :: ins2)) = Closed).
    { unfold Auth.run. rewrite fold_left_app. cbn [fold_left].
      set (s1 := fold_left (step ck) ins1 (pump ck init)).
      assert (H1 : ph (step ck s1 Eof) = Closed).
      { unfold Auth.step, Auth.pump. apply pump_fuel_eof_closes; cbn; intros; lia || reflexivity. }
      revert H1. generalize (step ck s1 Eof). induction ins2 as [|i ins2 IH]; intros s Hs; cbn [fold_left].
      - exact Hs.
      - apply IH. destruct (step_closed_stays ck s i Hs) as [-> Hf]. exact Hf. }
    split; [exact Hc|].
    destruct (indexed (run ck (ins1 ++ Eof :: ins2))) eqn:Hx; [|reflexivity].
    destruct (indexed_only_running _ _ Hx) as (_ & h & Hh). congruence.
  Qed.

  (* ---- what the loop processes behind an accepted exchange ---- *)
  Lemma loop_frames_fuel_irrel n : forall m b,
    length b < n -> length b < m -> loop_frames_fuel n b = loop_frames_fuel m b.
  Proof.
    induction n as [|n IH]; intros m b Hn Hm; [lia|].
    destruct m as [|m]; [lia|]. cbn [Auth.loop_frames_fuel].
    destruct (parse limit b) eqn:Pa; try reflexivity.
    destruct (is_app_type f); [|reflexivity].
    apply parse_rest_shorter in Pa. f_equal. apply IH; lia.
  Qed.

  Definition hr (e : ev) : bool := is_handler e || is_reply e.

  Lemma loop_trace ck n : forall s h,
    ph s = Running h -> gone s = false -> length (buf s) < n ->
    let s' := pump_fuel ck n s in
    filter hr (trace s') =
      filter hr (trace s) ++ flat_map (fun f => filter hr (frame_events false f)) (loop_frames_fuel n (buf s))
    /\ accepted s' = accepted s
    /\ (ph s' = Closed \/
        (exists h', ph s' = Running h') /\ gone s' = false /\ forall m, loop_frames_fuel m (buf s') = []).
  Proof.
    induction n as [|n IH]; intros s h Hp Hg Hl; [lia|].
    cbn zeta. cbn [Auth.pump_fuel Auth.loop_frames_fuel]. rewrite Hp.
    set (s1 := if h then s
               else mkSt (Running true) (buf s) (eof s) (gone s) (accepted s) (indexed s)
                         (trace s ++ [EvHook h_pre_read_header])).
    assert (H1 : filter hr (trace s1) = filter hr (trace s) /\ accepted s1 = accepted s /\
                 (exists h', ph s1 = Running h') /\ gone s1 = false /\ buf s1 = buf s).
    { subst s1. destruct h; cbn; repeat split; eauto.
      rewrite filter_app. cbn. apply app_nil_r. }
    destruct H1 as (Hf1 & Ha1 & Hp1 & Hg1 & Hb1).
    destruct (parse limit (buf s)) as [| |f rest] eqn:Pa.
    - destruct (eof s || gone s).
      + cbn. rewrite filter_app. cbn. rewrite app_nil_r, app_nil_r. auto.
      + rewrite app_nil_r. repeat split; auto. right. repeat split; auto.
        intros m. destruct m; cbn [Auth.loop_frames_fuel]; [reflexivity|]. rewrite Hb1, Pa. reflexivity.
    - cbn. rewrite filter_app. cbn. rewrite app_nil_r, app_nil_r. auto.
    - rewrite Hg. destruct (is_app_type f).
      + pose proof (parse_rest_shorter _ _ _ Pa) as Hs.
        edestruct (IH (mkSt (Running false) rest (eof s) false (accepted s) (indexed s)
                           (trace s1 ++ frame_events false f)) false) as (Ht & Ha & Hph);
          [reflexivity | reflexivity | cbn; lia |].
        cbn [buf trace accepted] in Ht, Ha. cbn [flat_map].
        split; [|split; [rewrite Ha; reflexivity | exact Hph]].
        rewrite Ht, filter_app, Hf1, <- app_assoc. reflexivity.
      + cbn. rewrite !filter_app. cbn. rewrite Hf1, !app_nil_r. auto.
  Qed.

  Lemma pump_blocked_adds_nothing ck n : forall s h,
    ph s = Running h -> gone s = false -> loop_frames_fuel n (buf s) = [] -> 0 < n ->
    filter hr (trace (pump_fuel ck n s)) = filter hr (trace s) /\
    accepted (pump_fuel ck n s) = accepted s.
  Proof.
    intros s h Hp Hg Hl Hn. destruct n as [|n]; [lia|].
    cbn [Auth.pump_fuel Auth.loop_frames_fuel] in *. rewrite Hp.
    destruct (parse limit (buf s)) as [| |f rest] eqn:Pa.
    - destruct (eof s || gone s); destruct h; cbn; rewrite ?filter_app; cbn; rewrite ?app_nil_r; auto.
    - destruct h; cbn; rewrite ?filter_app; cbn; rewrite ?app_nil_r; auto.
    - destruct (is_app_type f); discriminate.
  Qed.

  (* One complete first frame [f], any bytes [rest] behind it, then the client's EOF. *)
  Lemma pipelined_iff ck s f rest :
    ck_recvs ck = 1%nat -> parse limit s = PFrame f rest ->
    let fin := run ck [Bytes s; Eof] in
    let ok := Z.eqb (verdict_code ck (Some (recv_of_frame f))) 0 in
    accepted fin = ok /\
    filter hr (trace fin) =
      if ok then flat_map (fun g => filter hr (frame_events false g)) (loop_frames rest) else [].
  Proof.
    intros Hr Hpa. cbn zeta.
    assert (H0 : pump ck init = init).
    { unfold Auth.pump. cbn [buf init length Auth.pump_fuel ph]. rewrite Hr. reflexivity. }
    set (s0 := mkSt Preparing s false false false false []).
    assert (Hmid : step ck init (Bytes s) =
                   pump_fuel ck (S (length s)) (Auth.finish_accept ck s0 (Some (recv_of_frame f)) rest)).
    { unfold Auth.step. cbn [feed init eof gone orb ph buf accepted indexed trace app]. fold s0.
      unfold Auth.pump. cbn [buf s0]. cbn [Auth.pump_fuel]. cbn [ph s0]. rewrite Hr.
      cbn [buf s0]. rewrite Hpa. reflexivity. }
    unfold Auth.run. cbn [fold_left]. rewrite H0, Hmid. clear Hmid.
    pose proof (parse_rest_shorter _ _ _ Hpa) as Hs.
    unfold Auth.finish_accept. cbn [gone s0 trace app eof].
    rewrite Hr. cbn [Nat.leb app].
    destruct (Z.eqb (verdict_code ck (Some (recv_of_frame f))) 0) eqn:V.
    - set (sa := mkSt (Running false) rest false false true true _).
      destruct (loop_trace ck (S (length s)) sa false) as (Ht & Ha & Hph);
        [reflexivity | reflexivity | cbn; lia |].
      change (buf sa) with rest in Ht.
      rewrite (loop_frames_fuel_irrel (S (length s)) (S (length rest)) rest) in Ht by lia.
      change (loop_frames_fuel (S (length rest)) rest) with (loop_frames rest) in Ht.
      set (sb := pump_fuel ck (S (length s)) sa) in *.
      assert (Hsa : filter hr (trace sa) = []) by reflexivity.
      rewrite Hsa in Ht. cbn [app] in Ht.
      destruct Hph as [Hc|((h' & Hh') & Hg' & Hlf)].
      + destruct (step_closed_stays ck sb Eof Hc) as [-> _]. cbn [feed accepted trace].
        split; [exact Ha | exact Ht].
      + unfold Auth.step, Auth.pump.
        set (sc := feed sb Eof).
        assert (Hbuf : buf sc = buf sb) by reflexivity.
        destruct (pump_blocked_adds_nothing ck (S (S (length (buf sc)))) sc h') as (Hf & Hac).
        * exact Hh'.
        * exact Hg'.
        * apply Hlf.
        * lia.
        * rewrite Hf, Hac. split; [exact Ha | exact Ht].
    - set (sr := mkSt Closed rest false false false false _).
      rewrite pump_fuel_closed by reflexivity.
      destruct (step_closed_stays ck sr Eof eq_refl) as [-> _]. cbn. auto.
  Qed.
End Server.

(* ---- client side ---- *)
Lemma bearer_ok_iff status_code sends propagate reply :
  fst (bearer status_code sends propagate reply) = DialOk ->
  sends = 0%nat \/
  (exists f, reply = Some f /\ status_code (f_status f) = 0%Z /\ f_mtype f = t_authreply).
Proof.
  unfold bearer. destruct sends as [|k]; [auto|]. intros H. right.
  assert (H1 : match reply with
               | None => DialFail code_conn_closed
               | Some f => if negb (Z.eqb (status_code (f_status f)) 0) then DialFail (status_code (f_status f))
                           else if negb (beqb (f_mtype f) t_authreply) then DialFail code_unauthorized
                           else DialOk
               end = DialOk).
  { destruct k; [exact H|]. cbn [fst] in H. destruct propagate; [discriminate | exact H]. }
  destruct reply as [f|]; [|discriminate]. exists f. split; [reflexivity|].
  destruct (Z.eqb (status_code (f_status f)) 0) eqn:E; [|discriminate]. cbn [negb] in H1.
  destruct (beqb (f_mtype f) t_authreply) eqn:B; [|discriminate].
  split; [apply Z.eqb_eq; exact E | apply beqb_eq; exact B].
Qed.

Lemma bearer_sends_once status_code sends propagate reply :
  (snd (bearer status_code sends propagate reply) <= 1)%nat.
Proof. unfold bearer. destruct sends as [|[|k]]; cbn; lia. Qed.
