(* Lemmas about Model/Auth.v: an invariant of the accept-path machine that holds after every
   input sequence (any chunking of the client's bytes, Eof or Gone at any point), and the
   characterisation of what the read loop processes behind the exchange. *)
From Coq Require Import Strings.String Strings.Byte.
From Coq Require Import List Arith NArith ZArith Bool Lia.
From Verif Require Import Base.Bytes Model.Auth.
Import ListNotations.

(* ---- generic list facts ---- *)
Lemma split_after_prefix {A} (a : list A) : forall l1 (e : A) l2 b,
  l1 ++ e :: l2 = a ++ b -> ~ In e a -> exists b1, l1 = a ++ b1 /\ b = b1 ++ e :: l2.
Proof.
  induction a as [|x a IH]; intros l1 e l2 b E Hn; cbn [app] in *.
  - exists l1. split; [reflexivity | symmetry; exact E].
  - destruct l1 as [|y l1]; cbn [app] in E; inversion E; subst.
    + exfalso. apply Hn. left. reflexivity.
    + destruct (IH l1 e l2 b H1) as (b1 & -> & ->).
      * intros Hi. apply Hn. right. exact Hi.
      * exists b1. split; reflexivity.
Qed.

Definition count (p : ev -> bool) (t : list ev) : nat := length (filter p t).

Lemma count_app p a b : count p (a ++ b) = count p a + count p b.
Proof. unfold count. rewrite filter_app, app_length. reflexivity. Qed.

Lemma count_none p t : Forall (fun e => p e = false) t -> count p t = 0.
Proof.
  unfold count. induction 1 as [|e t He _ IH]; cbn [filter]; [reflexivity|].
  rewrite He. exact IH.
Qed.

Definition is_recv (e : ev) : bool := match e with EvRecv => true | _ => false end.
Definition is_auth_reply (e : ev) : bool :=
  match e with EvAuthReply _ | EvAuthReplyFailed => true | _ => false end.
Definition is_verdict (e : ev) : bool := match e with EvAccept | EvReject => true | _ => false end.
Definition is_handler (e : ev) : bool := match e with EvHandler _ _ => true | _ => false end.
Definition is_reply (e : ev) : bool := match e with EvReply _ _ => true | _ => false end.

(* accept-phase events other than the verdict itself *)
Definition is_setup (e : ev) : bool := is_exchange e && negb (is_verdict e).

Lemma setup_not_app e : is_setup e = true -> is_app e = false.
Proof. destruct e; cbn; congruence. Qed.

Lemma nonexchange_sub (p : ev -> bool) post :
  (forall e, is_exchange e = false -> p e = false) ->
  Forall (fun e => is_exchange e = false) post -> Forall (fun e => p e = false) post.
Proof. intros Hp H. eapply Forall_impl; [|exact H]. exact Hp. Qed.

Lemma filter_none (p : ev -> bool) t : Forall (fun e => p e = false) t -> filter p t = [].
Proof. induction 1 as [|e t He _ IH]; cbn [filter]; [reflexivity|]. rewrite He. exact IH. Qed.

Section Server.
  Variable status_code : bytes -> Z.
  Variable info_dec : byte -> bytes -> option bytes.
  Variable route_call : bytes -> bool.
  Variable route_push : bytes -> bool.
  Variable limit : N.

  Notation pump_fuel := (pump_fuel status_code info_dec route_call route_push limit).
  Notation pump := (pump status_code info_dec route_call route_push limit).
  Notation step := (step status_code info_dec route_call route_push limit).
  Notation run := (run status_code info_dec route_call route_push limit).
  Notation frame_events := (frame_events route_call route_push).
  Notation recv_of_frame := (recv_of_frame status_code info_dec).
  Notation loop_frames_fuel := (loop_frames_fuel limit).
  Notation loop_frames := (loop_frames limit).

  (* a well-formed accept-phase prefix: only accept-phase events, at most one read, [k] auth replies *)
  Definition setup_ok (l : list ev) : Prop :=
    Forall (fun e => is_setup e = true) l /\ count is_recv l <= 1 /\ count is_auth_reply l <= 1.

  (* What is true of the server state after any history. *)
  Inductive inv : st -> Prop :=
  | inv_prep s :
      (ph s = Fresh \/ ph s = Preparing) -> Forall (fun e => is_setup e = true) (trace s) ->
      filter is_recv (trace s) = [] -> filter is_auth_reply (trace s) = [] ->
      accepted s = false -> indexed s = false -> inv s
  | inv_acc s pre post :
      (ph s = Closed \/ exists h, ph s = Running h) ->
      trace s = pre ++ EvAccept :: post -> setup_ok pre ->
      filter is_auth_reply pre = [EvAuthReply 0] ->
      Forall (fun e => is_exchange e = false) post ->
      accepted s = true ->
      (indexed s = true <-> exists h, ph s = Running h) ->
      inv s
  | inv_rej s pre :
      ph s = Closed -> trace s = pre ++ [EvReject; EvDisconnect] -> setup_ok pre ->
      accepted s = false -> indexed s = false -> inv s.

  Lemma frame_events_nonexchange g f : Forall (fun e => is_exchange e = false) (frame_events g f).
  Proof.
    unfold Auth.frame_events, reply_events.
    destruct (beqb (f_mtype f) t_call); [|destruct (beqb (f_mtype f) t_push); [|destruct (beqb (f_mtype f) t_reply)]].
    - destruct (f_sm f); [destruct g; repeat constructor|].
      destruct (route_call _); destruct g; repeat constructor.
    - destruct (f_sm f); [repeat constructor|]. destruct (route_push _); repeat constructor.
    - constructor.
    - repeat constructor.
  Qed.

  (* the events a checker run adds in front of its reply *)
  Definition pre_of (ck : checker) (r : option recv_res) : list ev :=
    (match r with Some _ => [EvRecv] | None => [] end) ++
    (if Nat.leb 2 (ck_recvs ck) then [EvMultiRecv] else []).

  Lemma pre_of_facts ck r :
    Forall (fun e => is_setup e = true) (pre_of ck r) /\ count is_recv (pre_of ck r) <= 1 /\
    filter is_auth_reply (pre_of ck r) = [].
  Proof. unfold pre_of. destruct r; destruct (Nat.leb 2 (ck_recvs ck)); cbn; repeat split; repeat constructor. Qed.

  Lemma setup_ok_build t pre mid :
    Forall (fun e => is_setup e = true) t -> filter is_recv t = [] -> filter is_auth_reply t = [] ->
    Forall (fun e => is_setup e = true) pre -> count is_recv pre <= 1 -> filter is_auth_reply pre = [] ->
    Forall (fun e => is_setup e = true) mid -> filter is_recv mid = [] -> count is_auth_reply mid <= 1 ->
    setup_ok (t ++ pre ++ mid).
  Proof.
    intros T1 T2 T3 P1 P2 P3 M1 M2 M3. unfold setup_ok. repeat split.
    - repeat (apply Forall_app; split); assumption.
    - unfold count in *. rewrite !filter_app, !app_length, T2, M2. cbn. lia.
    - unfold count in *. rewrite !filter_app, !app_length, T3, P3. cbn. lia.
  Qed.

  Lemma inv_reject_with s rest pre mid :
    (ph s = Fresh \/ ph s = Preparing) -> inv s ->
    Forall (fun e => is_setup e = true) pre -> count is_recv pre <= 1 -> filter is_auth_reply pre = [] ->
    Forall (fun e => is_setup e = true) mid -> filter is_recv mid = [] -> count is_auth_reply mid <= 1 ->
    inv (reject_with s rest (pre ++ mid)).
  Proof.
    intros Hp Hi P1 P2 P3 M1 M2 M3.
    inversion Hi as [? _ T1 T2 T3 _ _|? ? ? [Hc|(h & Hh)]|? ? Hc]; subst;
      try (destruct Hp; congruence).
    eapply inv_rej with (pre := trace s ++ pre ++ mid); cbn; auto.
    - rewrite <- !app_assoc. reflexivity.
    - apply setup_ok_build; assumption.
  Qed.

  Lemma inv_finish_accept ck s r rest :
    ph s = Preparing -> inv s -> inv (finish_accept ck s r rest).
  Proof.
    intros Hp Hi. unfold Auth.finish_accept. fold (pre_of ck r).
    destruct (pre_of_facts ck r) as (P1 & P2 & P3).
    destruct (Nat.eqb (ck_panic ck) 2).
    { rewrite <- (app_nil_r (pre_of ck r)). apply inv_reject_with; auto; constructor. }
    destruct (gone s).
    { apply inv_reject_with; auto; repeat constructor. }
    destruct (Z.eqb (verdict_code ck r) 0) eqn:E.
    - set (aft := match ck_after ck with Some _ => [EvPlugin true] | None => [] end).
      set (sid := if Nat.eqb (ck_setid ck) 2 then [EvSetID] else []).
      assert (Q : Forall (fun e => is_setup e = true) (pre_of ck r ++ sid) /\
                  count is_recv (pre_of ck r ++ sid) <= 1 /\
                  filter is_auth_reply (pre_of ck r ++ sid) = []).
      { subst sid. destruct (Nat.eqb (ck_setid ck) 2).
        - repeat split.
          + apply Forall_app. split; [exact P1 | repeat constructor].
          + rewrite count_app. cbn. lia.
          + rewrite filter_app, P3. reflexivity.
        - rewrite app_nil_r. auto. }
      destruct Q as (Q1 & Q2 & Q3).
      assert (A1 : Forall (fun e => is_setup e = true) ([EvAuthReply 0] ++ aft) /\
                   filter is_recv ([EvAuthReply 0] ++ aft) = [] /\
                   filter is_auth_reply ([EvAuthReply 0] ++ aft) = [EvAuthReply 0]).
      { subst aft. destruct (ck_after ck); cbn; repeat split; repeat constructor. }
      destruct A1 as (A1 & A2 & A3).
      destruct (hook_fails (ck_after ck)).
      + apply inv_reject_with; auto. unfold count. rewrite A3. cbn. lia.
      + inversion Hi as [? _ T1 T2 T3 _ _|? ? ? [Hc|(h & Hh)]|? ? Hc]; subst; try congruence.
        set (mid := ([EvAuthReply 0] ++ aft) ++ [EvNextAccept]).
        assert (M1 : Forall (fun e => is_setup e = true) mid)
          by (apply Forall_app; split; [exact A1 | repeat constructor]).
        assert (M2 : filter is_recv mid = []) by (unfold mid; rewrite filter_app, A2; reflexivity).
        assert (M3 : filter is_auth_reply mid = [EvAuthReply 0]) by (unfold mid; rewrite filter_app, A3; reflexivity).
        eapply inv_acc with (pre := trace s ++ (pre_of ck r ++ sid) ++ mid)
                            (post := if Nat.eqb (ck_setid ck) 0 then [] else [EvDisplace]);
          cbn [ph trace accepted indexed]; auto.
        * right. eauto.
        * unfold mid. rewrite <- !app_assoc. reflexivity.
        * apply setup_ok_build; auto. unfold count. rewrite M3. cbn. lia.
        * rewrite !filter_app, T3, P3, M3. subst sid. destruct (Nat.eqb (ck_setid ck) 2); reflexivity.
        * destruct (Nat.eqb (ck_setid ck) 0); repeat constructor.
        * split; [eauto | reflexivity].
    - apply inv_reject_with; auto; repeat constructor.
  Qed.

  Lemma inv_extend s s' es :
    inv s -> accepted s = true ->
    trace s' = trace s ++ es -> Forall (fun e => is_exchange e = false) es ->
    accepted s' = true -> (ph s' = Closed \/ exists h, ph s' = Running h) ->
    (indexed s' = true <-> exists h, ph s' = Running h) -> inv s'.
  Proof.
    intros Hi Ha Ht Hes Ha' Hp Hix.
    inversion Hi as [? ? ? ? ? Hacc|? pre post Hnp Htr Hpre Hfil Hpost|? ? ? ? ? Hacc]; subst; try congruence.
    eapply inv_acc with (pre := pre) (post := post ++ es); auto.
    - rewrite Ht, Htr, <- app_assoc. reflexivity.
    - apply Forall_app. split; assumption.
  Qed.

  Lemma inv_running_accepted s h : inv s -> ph s = Running h -> accepted s = true.
  Proof. intros Hi Hp. inversion Hi as [? [H|H]| |]; subst; congruence. Qed.

  Lemma inv_pump_fuel ck n : forall s, inv s -> inv (pump_fuel ck n s).
  Proof.
    induction n as [|n IH]; intros s Hi; cbn [Auth.pump_fuel]; [exact Hi|].
    destruct (ph s) eqn:Hp.
    - (* Fresh *)
      destruct (hook_fails (ck_before ck)).
      + rewrite <- (app_nil_r [EvPlugin false]). apply inv_reject_with; auto; repeat constructor.
      + apply IH.
        inversion Hi as [? _ T1 T2 T3 Ha Hx|? ? ? [Hc|(h & Hh)]|? ? Hc]; subst; try congruence.
        apply inv_prep; cbn [ph trace accepted indexed]; auto.
        * apply Forall_app. split; [exact T1|].
          destruct (ck_before ck); destruct (negb (Nat.eqb (ck_panic ck) 1) && Nat.eqb (ck_setid ck) 1); repeat constructor.
        * rewrite filter_app, T2.
          destruct (ck_before ck); destruct (negb (Nat.eqb (ck_panic ck) 1) && Nat.eqb (ck_setid ck) 1); reflexivity.
        * rewrite filter_app, T3.
          destruct (ck_before ck); destruct (negb (Nat.eqb (ck_panic ck) 1) && Nat.eqb (ck_setid ck) 1); reflexivity.
    - (* Preparing *)
      destruct (Nat.eqb (ck_panic ck) 1).
      { change (@nil ev) with (@nil ev ++ @nil ev). apply inv_reject_with; auto; constructor. }
      destruct (ck_recvs ck).
      + apply IH. apply inv_finish_accept; assumption.
      + destruct (parse limit (buf s)).
        * destruct (eof s || gone s); [apply IH; apply inv_finish_accept; assumption | exact Hi].
        * apply IH. apply inv_finish_accept; assumption.
        * apply IH. apply inv_finish_accept; assumption.
    - (* Running *)
      pose proof (inv_running_accepted _ _ Hi Hp) as Hacc.
      assert (Hix : indexed s = true).
      { inversion Hi as [? [H|H]|? ? ? ? ? ? ? ? ? Hiff|]; subst; try congruence. apply Hiff. eauto. }
      set (s1 := if hdr then s
                 else mkSt (Running true) (buf s) (eof s) (gone s) (accepted s) (indexed s)
                           (trace s ++ [EvHook h_pre_read_header])).
      assert (Hi1 : inv s1 /\ accepted s1 = true /\ indexed s1 = true).
      { subst s1. destruct hdr; [auto|]. repeat split; cbn; auto.
        eapply inv_extend with (s := s) (es := [EvHook h_pre_read_header]); cbn; eauto;
          try (solve [repeat constructor]).
        split; [intros _; exists true; reflexivity | intros _; exact Hix]. }
      destruct Hi1 as (Hi1 & Ha1 & Hx1).
      assert (Hclose : forall s0 es, inv s0 -> accepted s0 = true ->
                 Forall (fun e => is_exchange e = false) es -> inv (close_loop s0 es)).
      { intros s0 es H0 A0 Hes. eapply inv_extend with (s := s0) (es := es); cbn; auto.
        split; [discriminate | intros (h & Hh); discriminate]. }
      destruct (parse limit (buf s)) as [| |f rest].
      + destruct (eof s || gone s); [apply Hclose; auto; try (solve [repeat constructor]) | exact Hi1].
      + apply Hclose; auto; try (solve [repeat constructor]).
      + set (s2 := mkSt (Running false) rest (eof s) (gone s) (accepted s) (indexed s)
                        (trace s1 ++ frame_events (gone s) f)).
        assert (Hi2 : inv s2).
        { eapply inv_extend with (s := s1) (es := frame_events (gone s) f); cbn; eauto;
            try apply frame_events_nonexchange.
          split; [intros _; exists false; reflexivity | intros _; exact Hix]. }
        destruct (is_app_type f); [apply IH; exact Hi2|].
        apply Hclose; auto; try (solve [repeat constructor]).
    - exact Hi.
  Qed.

  Lemma inv_feed s i : inv s -> inv (feed s i).
  Proof.
    intros Hi. destruct i; cbn [feed]; [destruct (eof s || gone s); [exact Hi|]| |];
      (inversion Hi as [| ? pre post ? Htr | ? pre ? Htr]; subst;
       [apply inv_prep; cbn [ph trace accepted indexed]; auto
       | eapply inv_acc with (pre := pre) (post := post); cbn [ph trace accepted indexed]; eauto
       | eapply inv_rej with (pre := pre); cbn [ph trace accepted indexed]; eauto]).
  Qed.

  Lemma inv_init : inv init.
  Proof. apply inv_prep; cbn; auto. Qed.

  Lemma inv_run ck ins : inv (run ck ins).
  Proof.
    unfold Auth.run. assert (H0 : inv (pump ck init)) by (apply inv_pump_fuel, inv_init).
    revert H0. generalize (pump ck init). induction ins as [|i ins IH]; intros s Hs; cbn [fold_left].
    - exact Hs.
    - apply IH. unfold Auth.step, Auth.pump. apply inv_pump_fuel, inv_feed, Hs.
  Qed.

  (* ---- consequences of the invariant ---- *)
  Lemma setup_all_not_app l : Forall (fun e => is_setup e = true) l -> Forall (fun e => is_app e = false) l.
  Proof. intros H. eapply Forall_impl; [|exact H]. apply setup_not_app. Qed.

  Lemma not_accepted_no_app ck ins :
    accepted (run ck ins) = false -> Forall (fun e => is_app e = false) (trace (run ck ins)).
  Proof.
    intros Ha. pose proof (inv_run ck ins) as Hi.
    inversion Hi as [? ? T1|? ? ? ? ? ? ? ? Hacc|? pre ? Htr (P1 & _)]; subst.
    - apply setup_all_not_app. exact T1.
    - congruence.
    - rewrite Htr. apply Forall_app. split; [apply setup_all_not_app; exact P1 | repeat constructor].
  Qed.

  Lemma no_app_before_accept ck ins tr1 e tr2 :
    trace (run ck ins) = tr1 ++ e :: tr2 -> is_app e = true ->
    In (EvAuthReply 0) tr1 /\ In EvAccept tr1 /\ accepted (run ck ins) = true.
  Proof.
    intros Ht He. pose proof (inv_run ck ins) as Hi.
    destruct (accepted (run ck ins)) eqn:Ha.
    - inversion Hi as [|? pre post ? Htr (P1 & _) Hfil|]; subst; try congruence.
      rewrite Htr in Ht. change (pre ++ EvAccept :: post) with (pre ++ [EvAccept] ++ post) in Ht.
      rewrite app_assoc in Ht.
      destruct (split_after_prefix (pre ++ [EvAccept]) tr1 e tr2 post (eq_sym Ht)) as (b1 & -> & _).
      + intros Hin. apply in_app_or in Hin. destruct Hin as [Hin|[<-|[]]]; [|discriminate].
        pose proof (setup_all_not_app _ P1) as Hf. rewrite Forall_forall in Hf.
        rewrite (Hf _ Hin) in He. discriminate.
      + repeat split.
        * apply in_or_app. left. apply in_or_app. left.
          assert (Hin : In (EvAuthReply 0) (filter is_auth_reply pre)) by (rewrite Hfil; left; reflexivity).
          apply filter_In in Hin. apply Hin.
        * apply in_or_app. left. apply in_or_app. right. left. reflexivity.
    - exfalso. pose proof (not_accepted_no_app ck ins Ha) as Hf. rewrite Ht in Hf.
      apply Forall_app in Hf. destruct Hf as [_ Hf]. inversion Hf; subst. congruence.
  Qed.

  Lemma count_none' p t : Forall (fun e => p e = false) t -> count p t = 0.
  Proof. intros H. unfold count. rewrite filter_none by exact H. reflexivity. Qed.

  Lemma setup_no_verdict l : Forall (fun e => is_setup e = true) l -> Forall (fun e => is_verdict e = false) l.
  Proof. intros H. eapply Forall_impl; [|exact H]. intros e; destruct e; cbn; congruence. Qed.

  Lemma exchange_once ck ins :
    let t := trace (run ck ins) in
    count is_recv t <= 1 /\ count is_auth_reply t <= 1 /\ count is_verdict t <= 1 /\
    (In EvAccept t ->
       exists pre post, t = pre ++ EvAccept :: post /\
         Forall (fun e => is_app e = false) pre /\
         filter is_auth_reply pre = [EvAuthReply 0] /\
         Forall (fun e => is_exchange e = false) post).
  Proof.
    cbn zeta. pose proof (inv_run ck ins) as Hi.
    inversion Hi as [? ? T1 T2 T3|? pre post ? Htr (P1 & P2 & P3) Hfil Hpost|? pre ? Htr (P1 & P2 & P3)]; subst.
    - unfold count. rewrite T2, T3. rewrite (filter_none is_verdict) by (apply setup_no_verdict; exact T1).
      cbn. repeat split; try lia. intros Hin.
      pose proof (setup_no_verdict _ T1) as Hf. rewrite Forall_forall in Hf. specialize (Hf _ Hin). discriminate.
    - rewrite Htr. change (pre ++ EvAccept :: post) with (pre ++ [EvAccept] ++ post). rewrite !count_app.
      rewrite (count_none' is_recv post), (count_none' is_auth_reply post), (count_none' is_verdict post);
        try (eapply nonexchange_sub; [|exact Hpost]; intros e; destruct e; cbn; congruence).
      rewrite (count_none' is_verdict pre) by (apply setup_no_verdict; exact P1).
      cbn. repeat split; try lia. intros _. exists pre, post. repeat split; auto.
      apply setup_all_not_app. exact P1.
    - rewrite Htr. rewrite !count_app.
      rewrite (count_none' is_verdict pre) by (apply setup_no_verdict; exact P1).
      cbn. repeat split; try lia. intros Hin. exfalso.
      apply in_app_or in Hin. destruct Hin as [Hin|[|[|[]]]]; try discriminate.
      pose proof (setup_no_verdict _ P1) as Hf. rewrite Forall_forall in Hf. specialize (Hf _ Hin). discriminate.
  Qed.

  Lemma rejected_closed_unindexed ck ins :
    In EvReject (trace (run ck ins)) ->
    ph (run ck ins) = Closed /\ indexed (run ck ins) = false /\ accepted (run ck ins) = false /\
    Forall (fun e => is_app e = false) (trace (run ck ins)).
  Proof.
    intros Hin. pose proof (inv_run ck ins) as Hi.
    inversion Hi as [? ? T1|? pre post ? Htr (P1 & _) ? Hpost|? pre Hc Htr ? Ha Hx]; subst.
    - pose proof (setup_no_verdict _ T1) as Hf. rewrite Forall_forall in Hf. specialize (Hf _ Hin). discriminate.
    - exfalso. rewrite Htr in Hin. apply in_app_or in Hin. destruct Hin as [Hin|[|Hin]]; try discriminate.
      + pose proof (setup_no_verdict _ P1) as Hf. rewrite Forall_forall in Hf. specialize (Hf _ Hin). discriminate.
      + rewrite Forall_forall in Hpost. specialize (Hpost _ Hin). discriminate.
    - repeat split; auto. apply not_accepted_no_app. exact Ha.
  Qed.

  Lemma indexed_only_running ck ins :
    indexed (run ck ins) = true ->
    accepted (run ck ins) = true /\ exists h, ph (run ck ins) = Running h.
  Proof.
    intros Hx. pose proof (inv_run ck ins) as Hi.
    inversion Hi as [|? ? ? ? ? ? ? ? Hacc Hiff|]; subst; try congruence.
    split; [exact Hacc | apply Hiff; exact Hx].
  Qed.

  (* the session that held a claimed id is closed only by a connection that was accepted *)
  Lemma displace_only_accepted ck ins :
    In EvDisplace (trace (run ck ins)) ->
    accepted (run ck ins) = true /\ In EvAccept (trace (run ck ins)) /\ In (EvAuthReply 0) (trace (run ck ins)).
  Proof.
    intros Hin. destruct (in_split _ _ Hin) as (tr1 & tr2 & Ht).
    destruct (no_app_before_accept ck ins tr1 EvDisplace tr2 Ht eq_refl) as (A & B & C).
    repeat split; [exact C | rewrite Ht; apply in_or_app; left; exact B | rewrite Ht; apply in_or_app; left; exact A].
  Qed.

  (* a failing hook anywhere in the PostAccept chain: never accepted *)
  Definition chain_fails (ck : checker) : bool :=
    hook_fails (ck_before ck) || (Nat.eqb (ck_panic ck) 1 || Nat.eqb (ck_panic ck) 2) || hook_fails (ck_after ck).

  Lemma finish_accept_fails ck s r rest :
    chain_fails ck = true -> hook_fails (ck_before ck) = false -> Nat.eqb (ck_panic ck) 1 = false ->
    accepted (finish_accept ck s r rest) = false /\ ph (finish_accept ck s r rest) = Closed.
  Proof.
    unfold chain_fails, Auth.finish_accept. intros Hc Hb H1. rewrite Hb in Hc. cbn [orb] in Hc.
    destruct (Nat.eqb (ck_panic ck) 2) eqn:E2; [cbn; auto|].
    destruct (gone s); [cbn; auto|].
    destruct (Z.eqb _ 0); [|cbn; auto].
    destruct (hook_fails (ck_after ck)) eqn:Ha; [cbn; auto|].
    rewrite ?H1, ?E2, ?Ha in Hc. discriminate.
  Qed.

  Definition good (ck : checker) (s : st) : Prop :=
    accepted s = false /\
    (ph s = Fresh \/ (ph s = Preparing /\ hook_fails (ck_before ck) = false) \/ ph s = Closed).

  Lemma pump_fuel_closed ck n s : ph s = Closed -> pump_fuel ck n s = s.
  Proof. intros Hp. destruct n; cbn [Auth.pump_fuel]; [reflexivity | rewrite Hp; reflexivity]. Qed.

  Lemma pump_fuel_good ck n : forall s, chain_fails ck = true -> good ck s -> good ck (pump_fuel ck n s).
  Proof.
    induction n as [|n IH]; intros s Hc Hg; cbn [Auth.pump_fuel]; [exact Hg|].
    destruct Hg as [Ha Hp]. destruct (ph s) eqn:P.
    - destruct (hook_fails (ck_before ck)) eqn:Hb.
      + split; [reflexivity | right; right; reflexivity].
      + apply IH; [exact Hc|]. split; [exact Ha | right; left; split; [reflexivity | exact Hb]].
    - destruct Hp as [Hp|[[_ Hb]|Hp]]; try discriminate.
      destruct (Nat.eqb (ck_panic ck) 1) eqn:E1; [split; [reflexivity | right; right; reflexivity]|].
      assert (Hfin : forall r rest, good ck (pump_fuel ck n (finish_accept ck s r rest))).
      { intros. destruct (finish_accept_fails ck s r rest Hc Hb E1) as [A C].
        rewrite pump_fuel_closed by exact C. split; [exact A | right; right; exact C]. }
      destruct (ck_recvs ck); [apply Hfin|].
      destruct (parse limit (buf s)); [destruct (eof s || gone s); [apply Hfin|] | apply Hfin | apply Hfin].
      split; [exact Ha | right; left; split; [exact P | exact Hb]].
    - destruct Hp as [Hp|[[Hp _]|Hp]]; discriminate.
    - split; [exact Ha | right; right; exact P].
  Qed.

  Lemma feed_good ck s i : good ck s -> good ck (feed s i).
  Proof.
    intros [Ha Hp]. destruct i; cbn [feed]; [destruct (eof s || gone s); [split; assumption|]| |];
      split; cbn [accepted ph]; assumption.
  Qed.

  Lemma failing_chain_never_accepts ck ins :
    chain_fails ck = true ->
    accepted (run ck ins) = false /\ indexed (run ck ins) = false /\
    Forall (fun e => is_app e = false) (trace (run ck ins)).
  Proof.
    intros Hc.
    assert (Hg : good ck (run ck ins)).
    { unfold Auth.run.
      assert (H0 : good ck (pump ck init)).
      { apply pump_fuel_good; [exact Hc|]. split; [reflexivity | left; reflexivity]. }
      revert H0. generalize (pump ck init). induction ins as [|i ins IH]; intros s Hs; cbn [fold_left].
      - exact Hs.
      - apply IH. unfold Auth.step, Auth.pump. apply pump_fuel_good; [exact Hc|]. apply feed_good. exact Hs. }
    destruct Hg as [Ha _]. split; [exact Ha|]. split.
    - destruct (indexed (run ck ins)) eqn:Hx; [|reflexivity].
      destruct (indexed_only_running _ _ Hx) as [A _]. congruence.
    - apply not_accepted_no_app. exact Ha.
  Qed.

  (* ---- termination of the connection after the client's EOF ---- *)
  Lemma take_fst_length n d a r : take n d = Some (a, r) -> length r <= length d.
  Proof.
    unfold take. destruct (Nat.ltb (length d) n); [discriminate|].
    intros E; inversion E; subst. rewrite skipn_length. lia.
  Qed.

  Lemma parse_rest_shorter b f r : parse limit b = PFrame f r -> length r < length b.
  Proof.
    unfold parse. destruct (Nat.ltb (length b) 4) eqn:L; [discriminate|].
    apply Nat.ltb_ge in L.
    destruct (limit <? _)%N; [discriminate|]. destruct (_ <? 4)%N; [discriminate|].
    destruct (skipn 4 b) as [|x r5] eqn:S4; [discriminate|].
    assert (Hl : length (x :: r5) = length b - 4) by (rewrite <- S4; apply skipn_length).
    cbn [length] in Hl.
    destruct (0 <? b2n x)%N; [destruct (Nat.ltb _ _); discriminate|].
    destruct (_ =? 4)%N; [discriminate|].
    destruct (Nat.ltb _ _); [discriminate|].
    destruct (decode_frame _); [|discriminate].
    intros E; inversion E; subst. rewrite skipn_length. lia.
  Qed.

  Lemma finish_accept_shape ck s r rest :
    let s' := finish_accept ck s r rest in
    buf s' = rest /\ eof s' = eof s /\ (ph s' = Closed \/ ph s' = Running false).
  Proof.
    cbn zeta. unfold Auth.finish_accept, reject_with.
    destruct (Nat.eqb (ck_panic ck) 2); [cbn; auto|].
    destruct (gone s); [cbn; auto|].
    destruct (Z.eqb _ 0); [|cbn; auto].
    destruct (hook_fails (ck_after ck)); cbn; auto.
  Qed.

  Lemma pump_fuel_eof_closes ck n : forall s,
    eof s = true ->
    (ph s = Fresh -> length (buf s) + 3 <= n) ->
    (ph s = Preparing -> length (buf s) + 2 <= n) ->
    (forall h, ph s = Running h -> length (buf s) + 1 <= n) ->
    ph (pump_fuel ck n s) = Closed.
  Proof.
    induction n as [|n IH]; intros s He Hf Hp Hr.
    - destruct (ph s) eqn:P; [specialize (Hf eq_refl); lia | specialize (Hp eq_refl); lia
                              | specialize (Hr _ eq_refl); lia | exact P].
    - cbn [Auth.pump_fuel]. destruct (ph s) eqn:P.
      + specialize (Hf eq_refl). destruct (hook_fails (ck_before ck)); [reflexivity|].
        apply IH; cbn [ph buf eof]; [exact He | discriminate | intros _; lia | discriminate].
      + specialize (Hp eq_refl). destruct (Nat.eqb (ck_panic ck) 1); [reflexivity|].
        assert (Hfin : forall r rest, length rest <= length (buf s) ->
                   ph (pump_fuel ck n (finish_accept ck s r rest)) = Closed).
        { intros r rest Hl. destruct (finish_accept_shape ck s r rest) as (Hb & He' & [Hc|Hrun]).
          - rewrite pump_fuel_closed; assumption.
          - apply IH; [congruence | intros Hx; congruence | intros Hx; congruence |].
            intros h _. rewrite Hb. lia. }
        destruct (ck_recvs ck); [apply Hfin; lia|].
        destruct (parse limit (buf s)) eqn:Pa.
        * rewrite He. cbn [orb]. apply Hfin; lia.
        * apply Hfin; lia.
        * apply Hfin. apply parse_rest_shorter in Pa. lia.
      + specialize (Hr _ eq_refl).
        destruct (parse limit (buf s)) eqn:Pa.
        * rewrite He. reflexivity.
        * reflexivity.
        * destruct (is_app_type f); [|reflexivity].
          apply parse_rest_shorter in Pa.
          apply IH; cbn; [exact He | discriminate | discriminate | intros; lia].
      + exact P.
  Qed.

  Lemma step_closed_stays ck s i : ph s = Closed -> step ck s i = feed s i /\ ph (feed s i) = Closed.
  Proof.
    intros Hp. assert (Hf : ph (feed s i) = Closed).
    { destruct i; cbn [feed]; [destruct (eof s || gone s)|..]; cbn; assumption. }
    split; [|exact Hf]. unfold Auth.step, Auth.pump. apply pump_fuel_closed. exact Hf.
  Qed.

  Lemma feed_keeps_index s i : indexed (feed s i) = indexed s /\ trace (feed s i) = trace s.
  Proof. destruct i; cbn [feed]; [destruct (eof s || gone s)|..]; cbn; auto. Qed.

  Lemma eof_finishes ck ins1 ins2 :
    let s := run ck (ins1 ++ Eof :: ins2) in ph s = Closed /\ indexed s = false.
  Proof.
    cbn zeta. assert (Hc : ph (run ck (ins1 ++ Eof :: ins2)) = Closed).
    { unfold Auth.run. rewrite fold_left_app. cbn [fold_left].
      set (s1 := fold_left (step ck) ins1 (pump ck init)).
      assert (H1 : ph (step ck s1 Eof) = Closed).
      { unfold Auth.step, Auth.pump. apply pump_fuel_eof_closes; cbn; intros; lia || reflexivity. }
      revert H1. generalize (step ck s1 Eof). induction ins2 as [|i ins2 IH]; intros s Hs; cbn [fold_left].
      - exact Hs.
      - apply IH. destruct (step_closed_stays ck s i Hs) as [-> Hf]. exact Hf. }
    split; [exact Hc|].
    destruct (indexed (run ck (ins1 ++ Eof :: ins2))) eqn:Hx; [|reflexivity].
    destruct (indexed_only_running _ _ Hx) as (_ & h & Hh). congruence.
  Qed.

  (* ---- what the loop processes behind an accepted exchange ---- *)
  Lemma loop_frames_fuel_irrel n : forall m b,
    length b < n -> length b < m -> loop_frames_fuel n b = loop_frames_fuel m b.
  Proof.
    induction n as [|n IH]; intros m b Hn Hm; [lia|].
    destruct m as [|m]; [lia|]. cbn [Auth.loop_frames_fuel].
    destruct (parse limit b) eqn:Pa; try reflexivity.
    destruct (is_app_type f); [|reflexivity].
    apply parse_rest_shorter in Pa. f_equal. apply IH; lia.
  Qed.

  Definition hr (e : ev) : bool := is_handler e || is_reply e.

  Lemma loop_trace ck n : forall s h,
    ph s = Running h -> gone s = false -> length (buf s) < n ->
    let s' := pump_fuel ck n s in
    filter hr (trace s') =
      filter hr (trace s) ++ flat_map (fun f => filter hr (frame_events false f)) (loop_frames_fuel n (buf s))
    /\ accepted s' = accepted s
    /\ (ph s' = Closed \/
        (exists h', ph s' = Running h') /\ gone s' = false /\ forall m, loop_frames_fuel m (buf s') = []).
  Proof.
    induction n as [|n IH]; intros s h Hp Hg Hl; [lia|].
    cbn zeta. cbn [Auth.pump_fuel Auth.loop_frames_fuel]. rewrite Hp.
    set (s1 := if h then s
               else mkSt (Running true) (buf s) (eof s) (gone s) (accepted s) (indexed s)
                         (trace s ++ [EvHook h_pre_read_header])).
    assert (H1 : filter hr (trace s1) = filter hr (trace s) /\ accepted s1 = accepted s /\
                 (exists h', ph s1 = Running h') /\ gone s1 = false /\ buf s1 = buf s).
    { subst s1. destruct h; cbn; repeat split; eauto.
      rewrite filter_app. cbn. apply app_nil_r. }
    destruct H1 as (Hf1 & Ha1 & Hp1 & Hg1 & Hb1).
    destruct (parse limit (buf s)) as [| |f rest] eqn:Pa.
    - destruct (eof s || gone s).
      + cbn. rewrite filter_app. cbn. rewrite app_nil_r, app_nil_r. auto.
      + rewrite app_nil_r. repeat split; auto. right. repeat split; auto.
        intros m. destruct m; cbn [Auth.loop_frames_fuel]; [reflexivity|]. rewrite Hb1, Pa. reflexivity.
    - cbn. rewrite filter_app. cbn. rewrite app_nil_r, app_nil_r. auto.
    - rewrite Hg. destruct (is_app_type f).
      + pose proof (parse_rest_shorter _ _ _ Pa) as Hs.
        edestruct (IH (mkSt (Running false) rest (eof s) false (accepted s) (indexed s)
                           (trace s1 ++ frame_events false f)) false) as (Ht & Ha & Hph);
          [reflexivity | reflexivity | cbn; lia |].
        cbn [buf trace accepted] in Ht, Ha. cbn [flat_map].
        split; [|split; [rewrite Ha; reflexivity | exact Hph]].
        rewrite Ht, filter_app, Hf1, <- app_assoc. reflexivity.
      + cbn. rewrite !filter_app. cbn. rewrite Hf1, !app_nil_r. auto.
  Qed.

  Lemma pump_blocked_adds_nothing ck n : forall s h,
    ph s = Running h -> gone s = false -> loop_frames_fuel n (buf s) = [] -> 0 < n ->
    filter hr (trace (pump_fuel ck n s)) = filter hr (trace s) /\
    accepted (pump_fuel ck n s) = accepted s.
  Proof.
    intros s h Hp Hg Hl Hn. destruct n as [|n]; [lia|].
    cbn [Auth.pump_fuel Auth.loop_frames_fuel] in *. rewrite Hp.
    destruct (parse limit (buf s)) as [| |f rest] eqn:Pa.
    - destruct (eof s || gone s); destruct h; cbn; rewrite ?filter_app; cbn; rewrite ?app_nil_r; auto.
    - destruct h; cbn; rewrite ?filter_app; cbn; rewrite ?app_nil_r; auto.
    - destruct (is_app_type f); discriminate.
  Qed.

  (* One complete first frame [f], any bytes [rest] behind it, then the client's EOF; no hook
     before the checker and a checker that does not panic (those cases never accept, see
     failing_chain_never_accepts); any hook behind the checker. *)
  Lemma pipelined_iff ck s f rest :
    ck_recvs ck = 1%nat -> ck_before ck = None -> ck_panic ck = 0%nat -> ck_setid ck = 0%nat ->
    parse limit s = PFrame f rest ->
    let fin := run ck [Bytes s; Eof] in
    let ok := Z.eqb (verdict_code ck (Some (recv_of_frame f))) 0 && negb (hook_fails (ck_after ck)) in
    accepted fin = ok /\
    filter hr (trace fin) =
      if ok then flat_map (fun g => filter hr (frame_events false g)) (loop_frames rest) else [].
  Proof.
    intros Hr Hb Hpn Hsid Hpa. cbn zeta.
    set (i0 := mkSt Preparing [] false false false false []).
    assert (H0 : pump ck init = i0).
    { unfold Auth.pump. cbn [buf init length]. cbn [Auth.pump_fuel]. cbn [ph init].
      rewrite Hb, Hpn, Hsid. cbn [hook_fails Nat.eqb negb andb]. cbn [Auth.pump_fuel]. cbn [ph buf eof gone accepted indexed trace init app].
      rewrite ?Hpn. cbn [Nat.eqb]. rewrite Hr. reflexivity. }
    set (s0 := mkSt Preparing s false false false false []).
    assert (Hmid : step ck i0 (Bytes s) =
                   pump_fuel ck (S (S (length s))) (Auth.finish_accept ck s0 (Some (recv_of_frame f)) rest)).
    { unfold Auth.step. cbn [feed i0 eof gone orb ph buf accepted indexed trace app]. fold s0.
      unfold Auth.pump. cbn [buf s0]. cbn [Auth.pump_fuel]. cbn [ph s0]. rewrite Hpn. cbn [Nat.eqb]. rewrite Hr.
      cbn [buf s0]. rewrite Hpa. reflexivity. }
    unfold Auth.run. cbn [fold_left]. rewrite H0, Hmid. clear Hmid.
    pose proof (parse_rest_shorter _ _ _ Hpa) as Hs.
    unfold Auth.finish_accept, reject_with. cbn [gone s0 trace app eof].
    rewrite Hr, Hpn, Hsid. cbn [Nat.leb Nat.eqb app].
    destruct (Z.eqb (verdict_code ck (Some (recv_of_frame f))) 0) eqn:V; cbn [andb].
    - destruct (hook_fails (ck_after ck)) eqn:Haf; cbn [negb].
      + set (sr := mkSt Closed rest false false false false _).
        rewrite pump_fuel_closed by reflexivity.
        destruct (step_closed_stays ck sr Eof eq_refl) as [-> _]. cbn. split; [reflexivity|].
        rewrite filter_app. destruct (ck_after ck); reflexivity.
      + set (sa := mkSt (Running false) rest false false true true _).
        destruct (loop_trace ck (S (S (length s))) sa false) as (Ht & Ha & Hph);
          [reflexivity | reflexivity | cbn; lia |].
        change (buf sa) with rest in Ht.
        rewrite (loop_frames_fuel_irrel (S (S (length s))) (S (length rest)) rest) in Ht by lia.
        change (loop_frames_fuel (S (length rest)) rest) with (loop_frames rest) in Ht.
        set (sb := pump_fuel ck (S (S (length s))) sa) in *.
        assert (Hsa : filter hr (trace sa) = []).
        { unfold sa. cbn [trace]. destruct (ck_after ck); reflexivity. }
        rewrite Hsa in Ht. cbn [app] in Ht.
        destruct Hph as [Hc|((h' & Hh') & Hg' & Hlf)].
        * destruct (step_closed_stays ck sb Eof Hc) as [-> _]. cbn [feed accepted trace].
          split; [exact Ha | exact Ht].
        * unfold Auth.step, Auth.pump.
          set (sc := feed sb Eof).
          destruct (pump_blocked_adds_nothing ck (S (S (S (length (buf sc))))) sc h') as (Hf & Hac).
          -- exact Hh'.
          -- exact Hg'.
          -- apply Hlf.
          -- lia.
          -- rewrite Hf, Hac. split; [exact Ha | exact Ht].
    - set (sr := mkSt Closed rest false false false false _).
      rewrite pump_fuel_closed by reflexivity.
      destruct (step_closed_stays ck sr Eof eq_refl) as [-> _]. cbn. auto.
  Qed.
End Server.

(* ---- client side ---- *)
Lemma bearer_ok_iff status_code sends propagate reply :
  fst (bearer status_code sends propagate reply) = DialOk ->
  sends = 0%nat \/
  (exists f, reply = Some f /\ status_code (f_status f) = 0%Z /\ f_mtype f = t_authreply).
Proof.
  unfold bearer. destruct sends as [|k]; [auto|]. intros H. right.
  assert (H1 : match reply with
               | None => DialFail code_conn_closed
               | Some f => if negb (Z.eqb (status_code (f_status f)) 0) then DialFail (status_code (f_status f))
                           else if negb (beqb (f_mtype f) t_authreply) then DialFail code_unauthorized
                           else DialOk
               end = DialOk).
  { destruct k; [exact H|]. cbn [fst] in H. destruct propagate; [discriminate | exact H]. }
  destruct reply as [f|]; [|discriminate]. exists f. split; [reflexivity|].
  destruct (Z.eqb (status_code (f_status f)) 0) eqn:E; [|discriminate]. cbn [negb] in H1.
  destruct (beqb (f_mtype f) t_authreply) eqn:B; [|discriminate].
  split; [apply Z.eqb_eq; exact E | apply beqb_eq; exact B].
Qed.

Lemma bearer_sends_once status_code sends propagate reply :
  (snd (bearer status_code sends propagate reply) <= 1)%nat.
Proof. unfold bearer. destruct sends as [|[|k]]; cbn; lia. Qed.
