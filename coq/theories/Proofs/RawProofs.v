From Coq Require Import Strings.String Strings.Byte.
From Coq Require Import List Arith NArith ZArith Bool Lia.
From Verif Require Import Base.Bytes Base.Outcome Model.Quote Model.Args Model.Numfmt
  Model.StatusQuery Model.Xfer Model.RawProto
  Proofs.QuoteProofs Proofs.ArgsProofs Proofs.NumfmtProofs Proofs.StatusProofs Proofs.XferProofs.
Import ListNotations.
Local Open Scope N_scope.

Lemma firstn_len_app {A} (x r : list A) : firstn (length x) (x ++ r) = x.
Proof. induction x; cbn; congruence. Qed.
Lemma skipn_len_app {A} (x r : list A) : skipn (length x) (x ++ r) = r.
Proof. induction x; cbn; congruence. Qed.

Lemma blen_app (x y : bytes) : blen (x ++ y) = blen x + blen y.
Proof. unfold blen. rewrite app_length. lia. Qed.
Lemma blen_cons c (x : bytes) : blen (c :: x) = 1 + blen x.
Proof. unfold blen. cbn [length]. lia. Qed.

Lemma take_app n (x r : bytes) : blen x = n -> take n (x ++ r) = Ok (x, r).
Proof.
  intros <-. unfold take. rewrite blen_app.
  replace (blen x + blen r <? blen x) with false by (symmetry; apply N.ltb_ge; lia).
  unfold blen. rewrite Nat2N.id, firstn_len_app, skipn_len_app. reflexivity.
Qed.

Lemma cut_app n (x r : bytes) : blen x = n -> cut n (x ++ r) = Ok (x, r).
Proof.
  intros <-. unfold cut. rewrite blen_app.
  replace (blen x + blen r <? blen x) with false by (symmetry; apply N.ltb_ge; lia).
  unfold blen. rewrite Nat2N.id, firstn_len_app, skipn_len_app. reflexivity.
Qed.

Lemma be_of_N_blen w n : blen (be_of_N w n) = N.of_nat w.
Proof. unfold blen. rewrite be_of_N_length. reflexivity. Qed.

Lemma digits_fuel_length f b : forall n acc,
  (length (digits_fuel f b n acc) <= f + length acc)%nat.
Proof.
  induction f as [|f IH]; intros n acc; cbn [digits_fuel]; [lia|].
  destruct (n <? b); cbn [length]; [lia|].
  specialize (IH (n / b) (digit_char (n mod b) :: acc)). cbn [length] in IH. lia.
Qed.

Lemma format_int_blen b z : int32_ok z = true -> blen (format_int b z) < 256.
Proof.
  unfold int32_ok. intros H. apply andb_true_iff in H as [Hlo Hhi].
  apply Z.leb_le in Hlo, Hhi.
  assert (L : forall n, n <= 2147483648 -> (length (digits b n) <= 33)%nat).
  { intros n Hn. unfold digits.
    pose proof (digits_fuel_length (S (N.to_nat (N.log2 n))) b n []) as Hl. cbn [length] in Hl.
    assert (N.log2 n <= 31).
    { pose proof (N.log2_le_mono n 2147483648 Hn) as Hm.
      assert (E31 : N.log2 2147483648 = 31) by reflexivity. lia. }
    lia. }
  unfold format_int, blen. destruct (z <? 0)%Z eqn:E.
  - apply Z.ltb_lt in E. cbn [length]. specialize (L (Z.to_N (- z))). lia.
  - apply Z.ltb_ge in E. specialize (L (Z.to_N z)). lia.
Qed.

Lemma Ok_inj {A} (a b : A) : Ok a = Ok b -> a = b.
Proof. intros H. injection H. auto. Qed.

Definition wf_msg (m : msg) : Prop :=
  int32_ok (m_seq m) = true /\
  int32_ok (st_code (m_status m)) = true /\
  blen (m_method m) <= 255 /\
  blen (status_encode (m_status m)) <= 65535 /\
  blen (args_encode (m_meta m)) <= 65535 /\
  args_ok (m_meta m) = true.

Lemma raw_parse_header m h :
  wf_msg m -> raw_header m = Ok h ->
  raw_parse (h ++ m_codec m :: m_body m) = Ok m.
Proof.
  intros (Hseq & Hcode & Hmeth & Hst & Hmeta & Hok) Hh.
  unfold raw_header in Hh.
  replace (255 <? blen (m_method m)) with false in Hh by (symmetry; apply N.ltb_ge; lia).
  apply Ok_inj in Hh. subst h.
  unfold raw_parse.
  assert (Hsl : blen (format_int 36 (m_seq m)) < 256) by (apply format_int_blen; exact Hseq).
  assert (Hs36 : parse_int 36 (format_int 36 (m_seq m)) = PVal (m_seq m)) by (apply int36_roundtrip; exact Hseq).
  assert (Hsd : status_decode (status_encode (m_status m)) = Ok (m_status m)) by (apply status_roundtrip; exact Hcode).
  assert (Had : args_parse (args_encode (m_meta m)) = Ok (m_meta m)) by (apply args_roundtrip; exact Hok).
  remember (format_int 36 (m_seq m)) as seqs eqn:Eseqs.
  remember (status_encode (m_status m)) as st eqn:Est.
  remember (args_encode (m_meta m)) as meta eqn:Emeta.
  assert (Hb1 : N_of_be (be_of_N 2 (blen st)) = blen st)
    by (apply N_of_be_of_N; change (256 ^ N.of_nat 2) with 65536; lia).
  assert (Hb2 : N_of_be (be_of_N 2 (blen meta)) = blen meta)
    by (apply N_of_be_of_N; change (256 ^ N.of_nat 2) with 65536; lia).
  assert (Hl1 : blen (be_of_N 2 (blen st)) = 2) by apply (be_of_N_blen 2).
  assert (Hl2 : blen (be_of_N 2 (blen meta)) = 2) by apply (be_of_N_blen 2).
  remember (be_of_N 2 (blen st)) as bst eqn:Ebst.
  remember (be_of_N 2 (blen meta)) as bmeta eqn:Ebmeta.
  rewrite <- app_comm_cons. cbn [cut1 rbind].
  rewrite b2n_n2b by exact Hsl.
  rewrite <- app_assoc. rewrite cut_app by reflexivity. cbn [rbind].
  rewrite Hs36.
  rewrite <- !app_comm_cons. cbn [cut1 rbind].
  rewrite b2n_n2b by lia.
  rewrite <- app_assoc. rewrite cut_app by reflexivity. cbn [rbind].
  rewrite <- app_assoc. rewrite cut_app by exact Hl1. cbn [rbind].
  rewrite Hb1. rewrite <- app_assoc. rewrite cut_app by reflexivity. cbn [rbind].
  rewrite Hsd. cbn [rbind].
  rewrite <- app_assoc. rewrite cut_app by exact Hl2. cbn [rbind].
  rewrite Hb2. rewrite cut_app by reflexivity. cbn [rbind].
  rewrite Had. cbn [rbind cut1].
  destruct m; reflexivity.
Qed.

Theorem raw_roundtrip_lemma reg lim ids p m f rest :
  (forall g, In g reg -> inverts g) ->
  pipe_append reg [] ids = (p, None) ->
  wf_msg m ->
  raw_pack lim p m = Ok f ->
  blen f < 4294967296 ->
  raw_unpack reg lim (f ++ rest) = Ok (m, ids, blen f, rest).
Proof.
  intros Hinv Hp Hwf Hpack Hlen.
  destruct (append_ok_ids _ _ _ Hp) as (Hids & Hidlen & _).
  unfold raw_pack in Hpack.
  destruct (raw_header m) as [h| |] eqn:Hh; cbn [rbind] in Hpack; try discriminate.
  destruct (pipe_pack p (h ++ m_codec m :: m_body m)) as [payload|] eqn:Hpp;
    cbn [of_option rbind] in Hpack; [|discriminate].
  rewrite Hids in Hpack.
  set (size := (4 + 1 + blen ids + blen payload) mod 4294967296) in Hpack.
  destruct (lim <? size) eqn:Hlim; [discriminate|].
  apply Ok_inj in Hpack. rename Hpack into Ef.
  assert (Hflen : blen f = 4 + 1 + blen ids + blen payload).
  { rewrite <- Ef. rewrite blen_app, (be_of_N_blen 4), blen_cons, blen_app. lia. }
  assert (Hsize : size = blen f).
  { unfold size. rewrite <- Hflen. apply N.mod_small. exact Hlen. }
  assert (Hidl : blen ids <= 255) by (unfold blen; lia).
  unfold raw_unpack. rewrite <- Ef. rewrite <- app_assoc, <- app_comm_cons, <- app_assoc.
  rewrite take_app by apply (be_of_N_blen 4). cbn [rbind].
  rewrite N_of_be_of_N by (change (256 ^ N.of_nat 4) with 4294967296; rewrite Hsize; exact Hlen).
  rewrite Hlim.
  replace (size <? 4) with false by (symmetry; apply N.ltb_ge; lia).
  change (n2b (blen ids) :: ids ++ payload ++ rest) with ([n2b (blen ids)] ++ ids ++ payload ++ rest).
  rewrite take_app by reflexivity. cbn [rbind].
  rewrite b2n_n2b by lia.
  replace (size - 4 <? 1 + blen ids) with false by (symmetry; apply N.ltb_ge; lia).
  rewrite take_app by reflexivity. cbn [rbind]. rewrite Hp.
  rewrite take_app by lia. cbn [rbind].
  rewrite (registered_pipe_roundtrip reg ids p Hinv Hp _ _ Hpp). cbn [of_option rbind].
  rewrite (raw_parse_header m h Hwf Hh). cbn [rbind].
  rewrite Ef, Hsize. reflexivity.
Qed.

(* ---- streams of back-to-back frames ---- *)
Lemma raw_pack_nonnil lim p m f : raw_pack lim p m = Ok f -> f <> [].
Proof.
  unfold raw_pack. destruct (raw_header m); cbn [rbind]; try discriminate.
  destruct (pipe_pack p _); cbn [of_option rbind]; try discriminate.
  destruct (lim <? _); [discriminate|]. intros E; inversion E. discriminate.
Qed.

Definition wf_frame reg lim (x : list byte * msg * bytes) : Prop :=
  let '(ids, m, f) := x in
  exists p, pipe_append reg [] ids = (p, None) /\ wf_msg m /\
            raw_pack lim p m = Ok f /\ blen f < 4294967296.

Theorem raw_stream_lemma reg lim :
  (forall g, In g reg -> inverts g) ->
  forall (xs : list (list byte * msg * bytes)) fuel,
  Forall (wf_frame reg lim) xs ->
  (length xs < fuel)%nat ->
  raw_decode_all fuel reg lim (concat (map (fun x => snd x) xs))
  = (map (fun '(ids, m, f) => (m, ids, blen f)) xs, Ok tt).
Proof.
  intros Hinv xs. induction xs as [|[[ids m] f] xs IH]; intros fuel Hwf Hfuel.
  - destruct fuel; [lia|]. reflexivity.
  - destruct fuel as [|fuel]; [lia|]. cbn [length] in Hfuel.
    inversion Hwf as [|? ? Hx Hrest]; subst. unfold wf_frame in Hx.
    destruct Hx as (p & Hp & Hm & Hpack & Hlen).
    cbn [map concat snd raw_decode_all].
    destruct (f ++ concat (map (fun x => snd x) xs)) as [|c0 t0] eqn:E.
    { apply app_eq_nil in E as [E _]. exfalso. eapply raw_pack_nonnil; eauto. }
    rewrite <- E.
    rewrite (raw_roundtrip_lemma reg lim ids p m f _ Hinv Hp Hm Hpack Hlen).
    rewrite IH by (auto; lia). reflexivity.
Qed.

(* ---- chunking: reading n bytes through any chunk list = reading them from the
        concatenation ---- *)
Theorem read_chunks_concat cs : forall n x rest,
  read_chunks cs n = Some (x, rest) ->
  x = firstn n (concat cs) /\ concat rest = skipn n (concat cs).
Proof.
  induction cs as [|c cs IH]; intros n x rest E.
  - destruct n; cbn [read_chunks] in E; [|discriminate]. inversion E; subst. auto.
  - destruct n as [|n]; [cbn in E; inversion E; subst; auto|].
    cbn [read_chunks] in E. cbn [concat].
    destruct (Nat.ltb (length c) (S n)) eqn:Lc.
    + apply Nat.ltb_lt in Lc.
      destruct (read_chunks cs (S n - length c)) as [[x' r']|] eqn:E'; [|discriminate].
      inversion E; subst. destruct (IH _ _ _ E') as [-> Hr].
      rewrite firstn_app, skipn_app. split.
      * rewrite (firstn_all2 (n:=S n) c) by lia. reflexivity.
      * rewrite (skipn_all2 (n:=S n) c) by lia. exact Hr.
    + apply Nat.ltb_ge in Lc. inversion E; subst.
      rewrite firstn_app, skipn_app.
      replace (S n - length c)%nat with O by lia. cbn [firstn skipn concat].
      rewrite app_nil_r. auto.
Qed.

Theorem read_chunks_total cs n :
  (n <= length (concat cs))%nat -> exists x rest, read_chunks cs n = Some (x, rest).
Proof.
  revert n. induction cs as [|c cs IH]; intros n Hn.
  - cbn in Hn. assert (n = O) by lia. subst. cbn. eauto.
  - destruct n as [|n]; [cbn; eauto|]. cbn [read_chunks]. cbn [concat] in Hn.
    rewrite app_length in Hn.
    destruct (Nat.ltb (length c) (S n)) eqn:Lc; [|eauto].
    apply Nat.ltb_lt in Lc.
    destruct (IH (S n - length c)%nat) as (x & r & E); [lia|]. rewrite E. eauto.
Qed.

(* ---- allocation bound of the reader ---- *)
Theorem raw_allocs_bounded lim s : Forall (fun a => a <= N.max 4 lim) (raw_allocs lim s).
Proof.
  unfold raw_allocs. constructor; [lia|].
  destruct (take 4 s) as [[b4 s']| |]; try constructor.
  destruct ((lim <? N_of_be b4) || (N_of_be b4 <? 4)) eqn:E; [constructor|].
  apply orb_false_iff in E as [E1 E2]. apply N.ltb_ge in E1, E2.
  constructor; [lia|].
  destruct (take 1 s') as [[[|x [|? ?]] ?]| |]; try constructor.
  destruct (N_of_be b4 - 4 <? 1 + b2n x) eqn:E3; constructor; [|constructor].
  apply N.ltb_ge in E3. lia.
Qed.

(* a frame announcing more than the limit is refused after exactly its 4-byte size field *)
Theorem raw_oversize_rejected reg lim s b4 rest :
  take 4 s = Ok (b4, rest) -> lim < N_of_be b4 -> raw_unpack reg lim s = Err.
Proof.
  intros Ht Hl. unfold raw_unpack. rewrite Ht. cbn [rbind].
  apply N.ltb_lt in Hl. rewrite Hl. reflexivity.
Qed.

(* ---- on ANY stream (hostile included): a frame that unpacks consumed exactly the number of
        bytes it reports as its size, and left the rest of the stream untouched ---- *)
Lemma take_split n s x r : take n s = Ok (x, r) -> s = x ++ r /\ blen x = n.
Proof.
  unfold take. destruct (blen s <? n) eqn:E; [discriminate|]. apply N.ltb_ge in E.
  intros H. apply Ok_inj in H. inversion H; subst. split.
  - symmetry. apply firstn_skipn.
  - unfold blen in *. rewrite firstn_length. lia.
Qed.

Theorem raw_unpack_consumes_its_size reg lim s m ids size rest :
  raw_unpack reg lim s = Ok (m, ids, size, rest) ->
  exists frame, s = frame ++ rest /\ blen frame = size.
Proof.
  unfold raw_unpack.
  destruct (take 4 s) as [[b4 s1]| |] eqn:E1; cbn [rbind]; try discriminate.
  destruct (lim <? N_of_be b4); [discriminate|].
  destruct (N_of_be b4 <? 4) eqn:E4; [discriminate|]. apply N.ltb_ge in E4.
  destruct (take 1 s1) as [[xb s2]| |] eqn:E2; cbn [rbind]; try discriminate.
  set (xl := match xb with [x] => b2n x | _ => 0 end).
  destruct (N_of_be b4 - 4 <? 1 + xl) eqn:E5; [discriminate|]. apply N.ltb_ge in E5.
  destruct (take xl s2) as [[ids' s3]| |] eqn:E3; cbn [rbind]; try discriminate.
  destruct (pipe_append reg [] ids') as [p [e|]]; [discriminate|].
  destruct (take (N_of_be b4 - 4 - 1 - xl) s3) as [[payload s4]| |] eqn:E6; cbn [rbind]; try discriminate.
  destruct (pipe_unpack p payload) as [data|]; cbn [of_option rbind]; [|discriminate].
  destruct (raw_parse data) as [m'| |]; cbn [rbind]; try discriminate.
  intros H. apply Ok_inj in H. inversion H; subst.
  apply take_split in E1 as [-> L1]. apply take_split in E2 as [-> L2].
  apply take_split in E3 as [-> L3]. apply take_split in E6 as [-> L6].
  exists (b4 ++ xb ++ ids ++ payload). split.
  - rewrite <- !app_assoc. reflexivity.
  - rewrite !blen_app. lia.
Qed.
