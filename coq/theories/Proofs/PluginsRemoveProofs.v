(* PluginContainer.Remove (Model/Plugins.v: ORemove, remove_op): lemmas for property C09.
   The invariant and totality cases of the operation are in PluginsProofs.v (step_inv,
   step_total); here: what a removal does to every chain and to every later message. *)
From Coq Require Import Strings.String Strings.Byte.
From Coq Require Import List Arith NArith ZArith Bool Lia.
From Verif Require Import Base.Bytes Model.Plugins Proofs.PluginsProofs.
Import ListNotations.

(* a name that is not on the global chain: Remove returns an error and nothing changes *)
Lemma remove_not_global_noop st nm :
  has_name nm (global_flat st) = false ->
  step st (ORemove nm) = Some st /\ remove_err st nm = true.
Proof.
  unfold global_flat. intros H. cbn [step]. unfold remove_op, remove_err. cbv zeta. rewrite H. auto.
Qed.

Lemma remove_global_ok st nm :
  has_name nm (global_flat st) = true -> remove_err st nm = false.
Proof. unfold global_flat, remove_err. intros ->. reflexivity. Qed.

Lemma filter_all_id {A} (f : A -> bool) l : (forall x, In x l -> f x = true) -> filter f l = l.
Proof.
  induction l as [|a l IH]; cbn [filter]; intros H; [reflexivity|].
  rewrite (H a (or_introl eq_refl)), IH; [reflexivity|]. intros x Hx. apply H. right. exact Hx.
Qed.

(* with distinct names a removal is the filter "every other plugin, in the order it had" *)
Lemma remove_first_filter nm l :
  NoDup (map p_name l) ->
  remove_first nm l = filter (fun p => negb (N.eqb (p_name p) nm)) l.
Proof.
  induction l as [|p r IH]; cbn [remove_first filter map]; [reflexivity|]. intros Hn. inversion Hn; subst.
  destruct (N.eqb (p_name p) nm) eqn:E; cbn [negb].
  - apply N.eqb_eq in E. subst nm. symmetry. apply filter_all_id.
    intros q Hq. apply negb_true_iff, N.eqb_neq. intros Heq.
    apply H1. rewrite <- Heq. apply in_map. exact Hq.
  - rewrite IH by assumption. reflexivity.
Qed.

Lemma remove_both_gone nm (l m r : list plugin) :
  NoDup (map p_name (l ++ m ++ r)) -> In nm (map p_name (l ++ r)) ->
  ~ In nm (map p_name (remove_first nm l ++ m ++ remove_first nm r)).
Proof.
  rewrite !map_app. intros Hn Hin. rewrite !in_app_iff. rewrite in_app_iff in Hin.
  pose proof (nodup_app_l _ _ Hn) as HL. pose proof (nodup_app_r _ _ Hn) as HMR.
  pose proof (nodup_app_r _ _ HMR) as HR.
  assert (SubL : forall x, In x (map p_name (remove_first nm l)) -> In x (map p_name l))
    by (intros x; apply subl_In, subl_map, remove_first_subl).
  assert (SubR : forall x, In x (map p_name (remove_first nm r)) -> In x (map p_name r))
    by (intros x; apply subl_In, subl_map, remove_first_subl).
  destruct Hin as [Hl|Hr].
  - pose proof (nodup_app_disj _ _ nm Hn Hl) as Hd. rewrite in_app_iff in Hd.
    intros [H|[H|H]]; [exact (remove_first_gone nm l HL H) | tauto | apply SubR in H; tauto].
  - intros [H|[H|H]].
    + apply SubL in H. apply (nodup_app_disj _ _ nm Hn H). apply in_app_iff. right. exact Hr.
    + exact (nodup_app_disj _ _ nm HMR H Hr).
    + exact (remove_first_gone nm r HR H).
Qed.

(* after a successful removal the name is on NO chain: not on the global one, not on the chain
   of any router group, handler or unknown-handler registered before *)
Lemma remove_gone_everywhere st0 sp nm st :
  inv st0 sp -> has_name nm (global_flat st0) = true -> step st0 (ORemove nm) = Some st ->
  forall j, j < length (s_conts st) -> ~ In nm (map p_name (c_flat (get_cont st j))).
Proof.
  intros I Hh S j Hj. cbn [step] in S. unfold remove_op in S. cbv zeta in S.
  unfold global_flat in Hh. rewrite Hh in S. rewrite (remove_root_same _ _ nm I) in S.
  pose proof (fun Hp => refresh_tree_some _ _ Hp S) as RT. cbn [s_conts] in RT.
  destruct (RT (inv_parents _ _ I)) as (cs' & E & Hlen & Hall). clear RT.
  cbn [s_conts s_left s_right] in Hlen, Hall. subst st. cbn [with_conts s_conts] in Hj.
  unfold get_cont. cbn [with_conts s_conts]. destruct (Hall j Hj) as [Hx _]. rewrite Hx.
  unfold refreshed. cbn [c_flat].
  assert (Hj0 : j < length (s_conts st0)) by lia.
  apply remove_both_gone.
  - pose proof (inv_names _ _ I j Hj0) as Hn. rewrite (inv_fresh _ _ I j Hj0) in Hn. exact Hn.
  - apply has_name_In in Hh. rewrite (inv_fresh _ _ I 0 (inv_len _ _ I)), (inv_root _ _ I) in Hh. exact Hh.
Qed.

Lemma removed_on_no_chain ops st0 nm st :
  run ops = Some st0 -> has_name nm (global_flat st0) = true -> step st0 (ORemove nm) = Some st ->
  remove_err st0 nm = false /\
  forall j, j < length (s_conts st) -> ~ In nm (map p_name (c_flat (get_cont st j))).
Proof.
  intros R H S. split; [exact (remove_global_ok st0 nm H)|].
  exact (remove_gone_everywhere st0 (spec_of ops) nm st (run_inv ops st0 R) H S).
Qed.

(* the plans of one message only ever walk flat lists of containers of the two peers *)
Lemma srv_side_flats cli srv sp m s c :
  inv srv sp ->
  In (s, c) (r_srv_prh (exchange cli srv m) ++ r_srv (exchange cli srv m)) ->
  exists j, j < length (s_conts srv) /\ c = c_flat (get_cont srv j).
Proof.
  intros I Hin. rewrite exchange_unfold in Hin.
  assert (H : c = global_flat srv \/ exists hid hs, lookup_view srv m = Some (hid, hs, c)).
  { destruct m.
    - destruct (exchange_call_shape (global_flat cli) (global_flat srv) (lookup_view srv (MCall hid)))
        as (_ & _ & _ & F & _). cbn zeta in F. rewrite Forall_forall in F. apply (F _ Hin).
    - destruct (exchange_push_shape (global_flat cli) (global_flat srv) (lookup_view srv (MPush hid)))
        as (_ & _ & _ & F & _). cbn zeta in F. rewrite Forall_forall in F. apply (F _ Hin). }
  destruct H as [->|(hid & hs & L)].
  - exists 0. split; [apply (inv_len _ _ I) | reflexivity].
  - unfold lookup_view in L. destruct (lookup srv (msg_kind m) (msg_target m)) as [h|] eqn:E; [|discriminate].
    cbn in L. unfold view in L. inversion L; subst. exists (h_cont h). split; [|reflexivity].
    eapply lookup_range; eassumption.
Qed.

Lemma cli_side_flat cli srv m s c :
  In (s, c) (r_cli_prh (exchange cli srv m) ++ r_cli (exchange cli srv m)) -> c = global_flat cli.
Proof.
  intros Hin. rewrite exchange_unfold in Hin. destruct m.
  - destruct (exchange_call_shape (global_flat cli) (global_flat srv) (lookup_view srv (MCall hid)))
      as (_ & _ & F & _). cbn zeta in F. rewrite Forall_forall in F. apply (F _ Hin).
  - destruct (exchange_push_shape (global_flat cli) (global_flat srv) (lookup_view srv (MPush hid)))
      as (_ & _ & F & _). cbn zeta in F. rewrite Forall_forall in F. apply (F _ Hin).
Qed.

(* A removed plugin never fires again: on no later message, at no stage, on the handling side
   (global stages and the stages of every route registered before the removal) nor on the
   calling side of the peer it was removed from. *)
Lemma removed_never_fires ops st0 nm st :
  run ops = Some st0 -> has_name nm (global_flat st0) = true -> step st0 (ORemove nm) = Some st ->
  (forall other m e,
     In e (trace_of (r_srv_prh (exchange other st m) ++ r_srv (exchange other st m))) -> fst e <> nm) /\
  (forall other m e,
     In e (trace_of (r_cli_prh (exchange st other m) ++ r_cli (exchange st other m))) -> fst e <> nm).
Proof.
  intros R Hh S. pose proof (run_inv _ _ R) as I0. pose proof (step_inv _ _ _ _ I0 S) as I.
  pose proof (remove_gone_everywhere _ _ _ _ I0 Hh S) as G.
  split; intros other m e He; destruct (trace_In _ _ He) as (c & Hin & p & Hp & Hn & _); intros Heq.
  - destruct (srv_side_flats _ _ _ _ _ _ I Hin) as (j & Hj & ->).
    apply (G j Hj). rewrite <- Heq, <- Hn. apply in_map. exact Hp.
  - apply cli_side_flat in Hin. subst c.
    apply (G 0 (inv_len _ _ I)). rewrite <- Heq, <- Hn. apply in_map. exact Hp.
Qed.

(* the specification of a removal in one line: left and right lose exactly that plugin, every
   other plugin keeps its place; groups, handlers and unknown-handlers are untouched *)
Lemma remove_spec ops nm :
  let sp := spec_of ops in let sp' := spec_of (ops ++ [ORemove nm]) in
  NoDup (map p_name (sp_left sp ++ sp_right sp)) ->
  has_name nm (sp_left sp ++ sp_right sp) = true ->
  sp_left sp' = filter (fun p => negb (N.eqb (p_name p) nm)) (sp_left sp) /\
  sp_right sp' = filter (fun p => negb (N.eqb (p_name p) nm)) (sp_right sp) /\
  sp_chains sp' = sp_chains sp /\ sp_handlers sp' = sp_handlers sp /\
  sp_unk_call sp' = sp_unk_call sp /\ sp_unk_push sp' = sp_unk_push sp.
Proof.
  cbn zeta. intros Hn Hh. unfold spec_of. rewrite fold_left_app. cbn [fold_left spec_step].
  fold (spec_of ops). rewrite Hh. cbn [sp_left sp_right sp_chains sp_handlers sp_unk_call sp_unk_push].
  rewrite map_app in Hn.
  rewrite (remove_first_filter nm _ (nodup_app_l _ _ Hn)), (remove_first_filter nm _ (nodup_app_r _ _ Hn)).
  repeat split.
Qed.

(* run over an appended history *)
Lemma run_from_app a : forall b st, run_from st (a ++ b) =
  match run_from st a with Some st' => run_from st' b | None => None end.
Proof.
  induction a as [|o a IH]; intros b st; cbn [app run_from]; [reflexivity|].
  destruct (step st o); [apply IH | reflexivity].
Qed.

(* ---- the variant that refreshes the global container only: a route registered before the
        removal keeps the removed plugin on its chain ---- *)
Definition witness_remove : list op :=
  [OLeft [plug 1; plug 2]; OSub 0 [plug 3]; ORoute KCall 1 7 0%Z [plug 4]; ORemove 1].

Lemma remove_shallow_refuted :
  exists st, run_shallow witness_remove = Some st /\
    handler_flats st = [(7%N, [1%N; 2%N; 3%N; 4%N])] /\
    map p_name (global_flat st) = [2%N] /\
    spec_handler_flats (spec_of witness_remove) = [(7%N, [2%N; 3%N; 4%N])] /\
    In (1%N, PreReadCallBody) (trace_of (r_srv (exchange st st (MCall 7)))).
Proof. eexists. split; [vm_compute; reflexivity|]. vm_compute. repeat split. auto 10. Qed.

Lemma remove_deep_on_witness :
  exists st, run witness_remove = Some st /\
    handler_flats st = [(7%N, [2%N; 3%N; 4%N])] /\ map p_name (global_flat st) = [2%N] /\
    ~ In (1%N, PreReadCallBody) (trace_of (r_srv (exchange st st (MCall 7)))).
Proof.
  eexists. split; [vm_compute; reflexivity|]. split; [vm_compute; reflexivity|]. split; [vm_compute; reflexivity|].
  vm_compute. intros H. repeat (destruct H as [H|H]; [discriminate H|]). exact H.
Qed.
