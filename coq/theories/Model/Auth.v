(* Model of the accept path of a peer that carries the auth checker plugin:
     peer.go            ServeConn / serveListener (newSession, postAccept, Close on reject,
                        changeStatus(statusOk), startReadAndHandle, sessHub.set)
     session.go         PreReceive / PreSend (statusPreparing only), startReadAndHandle,
                        readDisconnected, closeLocked
     plugin/auth/auth.go authCheckerPlugin.PostAccept, authBearerPlugin.PostDial
     socket/protocol.go rawProto.readMessage / readHeader / readBody (framing only)
     context.go         binding / bindCall / bindPush / bindReply / handle*
   Definitions only.  The client is the environment: it delivers bytes in arbitrary chunks,
   half-closes (Eof) or vanishes (Gone).  The server side is a deterministic machine that is
   run as far as it can go after every input ([pump]). *)
From Coq Require Import Strings.String Strings.Byte.
From Coq Require Import List Arith NArith ZArith Bool Lia.
From Verif Require Import Base.Bytes.
Import ListNotations.
Local Open Scope N_scope.

(* ---- frames of the raw protocol (socket/protocol.go) ---- *)
Record frame := mkFrame {
  f_seq : Z; f_mtype : byte; f_sm : bytes; f_status : bytes; f_meta : bytes;
  f_codec : byte; f_body : bytes }.

(* Go: x := data[:n]; data = data[n:]  -- panics when n > len(data) *)
Definition take (n : nat) (d : bytes) : option (bytes * bytes) :=
  if Nat.ltb (length d) n then None else Some (firstn n d, skipn n d).

Definition digit36 (b : byte) : option N :=
  let n := b2n b in
  if (48 <=? n) && (n <=? 57) then Some (n - 48)
  else if (97 <=? n) && (n <=? 122) then Some (n - 87)
  else if (65 <=? n) && (n <=? 90) then Some (n - 55)
  else None.

Fixpoint uint36 (s : bytes) (acc : N) : option N :=
  match s with
  | [] => Some acc
  | b :: r => match digit36 b with None => None | Some d => uint36 r (acc * 36 + d) end
  end.

(* strconv.ParseInt(s, 36, 32); None = syntax or range error *)
Definition parse_seq (s : bytes) : option Z :=
  match s with
  | [] => None
  | c :: r =>
      let neg := beqb c "-" in
      let ds := if beqb c "+" || neg then r else s in
      match ds with
      | [] => None
      | _ => match uint36 ds 0 with
             | None => None
             | Some u => if neg then (if u <=? 2147483648 then Some (- Z.of_N u)%Z else None)
                         else (if u <? 2147483648 then Some (Z.of_N u) else None)
             end
      end
  end.

(* rawProto.readHeader + readBody on the bytes behind the transfer-pipe byte; None = the
   slicing panics or ParseInt fails (either way the read fails) *)
Definition decode_frame (d : bytes) : option frame :=
  match d with [] => None | sl :: d1 =>
  match take (N.to_nat (b2n sl)) d1 with None => None | Some (sq, d2) =>
  match parse_seq sq with None => None | Some seq =>
  match d2 with [] => None | mt :: d3 =>
  match d3 with [] => None | ml :: d4 =>
  match take (N.to_nat (b2n ml)) d4 with None => None | Some (sm, d5) =>
  match take 2 d5 with None => None | Some (l1, d6) =>
  match take (N.to_nat (N_of_be l1)) d6 with None => None | Some (stt, d7) =>
  match take 2 d7 with None => None | Some (l2, d8) =>
  match take (N.to_nat (N_of_be l2)) d8 with None => None | Some (meta, d9) =>
  match d9 with [] => None | c :: body =>
    Some (mkFrame seq mt sm stt meta c body)
  end end end end end end end end end end end.

Inductive pres := NeedMore | PErr | PFrame (f : frame) (rest : bytes).

(* rawProto.readMessage over the bytes available so far; no transfer filter is registered,
   so XferPipe.Append fails on the first id once the announced ids have arrived. *)
Definition parse (limit : N) (b : bytes) : pres :=
  if Nat.ltb (length b) 4 then NeedMore else
  let size := N_of_be (firstn 4 b) in
  if limit <? size then PErr else
  if size <? 4 then PErr else
  match skipn 4 b with
  | [] => NeedMore
  | x :: r5 =>
      let xl := b2n x in
      if 0 <? xl then (if Nat.ltb (length r5) (N.to_nat xl) then NeedMore else PErr)
      else if size =? 4 then PErr
      else
        let n := N.to_nat (size - 5) in
        if Nat.ltb (length r5) n then NeedMore else
        match decode_frame (firstn n r5) with
        | None => PErr
        | Some f => PFrame f (skipn n r5)
        end
  end.

(* ---- message types (message.go) ---- *)
Definition t_call : byte := x01.
Definition t_reply : byte := x02.
Definition t_push : byte := x03.
Definition t_authcall : byte := x04.
Definition t_authreply : byte := x05.

(* ---- events (what the server did, in order) ---- *)
Inductive ev :=
| EvRecv                      (* RecvOnce performed its PreReceive (one frame read) *)
| EvMultiRecv                 (* RecvOnce refused: MultiRecvErr, nothing read *)
| EvAuthReply (code : Z)      (* PreSend of AUTH_REPLY written, status code *)
| EvAuthReplyFailed           (* PreSend failed (peer gone) *)
| EvPlugin (after : bool)     (* PostAccept of another plugin placed before / after the checker was called *)
| EvNextAccept                (* PostAccept of the last plugin of the chain (the harness' recorder) *)
| EvSetID                     (* the checker called sess.SetID on the still unindexed session: the hub is not touched *)
| EvDisplace                  (* sessHub.set at accept found another session under this id and closed it *)
| EvAccept                    (* status -> ok, read loop started, session indexed *)
| EvReject                    (* sess.Close(): socket closed; never indexed *)
| EvHook (stage : N)          (* a per-message plugin stage *)
| EvHandler (is_call : bool) (seq : Z)
| EvReply (seq : Z) (code : Z)
| EvReplyFailed (seq : Z)
| EvBadType                   (* MtypeNotAllowed: go sess.Close() *)
| EvLoopExit                  (* read loop returned: readDisconnected *)
| EvDisconnect.               (* PostDisconnect hooks *)

Definition h_pre_read_header := 0.
Definition h_post_read_call_header := 1.
Definition h_pre_read_call_body := 2.
Definition h_post_read_call_body := 3.
Definition h_post_read_push_header := 4.
Definition h_pre_read_push_body := 5.
Definition h_post_read_push_body := 6.
Definition h_pre_write_reply := 10.
Definition h_post_write_reply := 11.

(* per-message work: plugin stages, handlers, application frames written.  EvNextAccept is a
   connection-level hook of the plugins registered behind the checker; it runs while the
   session is still preparing and only when the checker returned OK. *)
Definition is_app (e : ev) : bool :=
  match e with
  | EvHook _ | EvHandler _ _ | EvReply _ _ | EvReplyFailed _ | EvBadType | EvDisplace => true
  | _ => false
  end.

Definition is_exchange (e : ev) : bool :=
  match e with
  | EvRecv | EvMultiRecv | EvAuthReply _ | EvAuthReplyFailed | EvPlugin _ | EvNextAccept | EvSetID
  | EvAccept | EvReject => true
  | _ => false
  end.

(* ---- the user-supplied checker, as the harness' family of checkers ---- *)
(* behaviour of a PostAccept plugin other than the checker (plugin.go postAccept: the first
   non-OK status ends the chain; a panic is recovered into a 500 status) *)
Inductive hookb := HOk | HReject | HPanic.
Definition hook_fails (h : option hookb) : bool :=
  match h with None | Some HOk => false | Some _ => true end.

Record checker := mkChecker {
  ck_recvs : nat;                 (* calls of RecvOnce: 0, 1, or more *)
  ck_propagate : bool;            (* returns the status of a refused second call *)
  ck_verify : bytes -> bool;      (* verdict on the received info *)
  ck_panic : nat;                 (* 0: never; 1: the checker function panics before any RecvOnce;
                                     2: it panics after its RecvOnce calls (in its verify code) *)
  ck_before : option hookb;       (* a PostAccept plugin registered before the checker *)
  ck_after : option hookb;        (* ... and one registered behind it *)
  ck_setid : nat }.               (* 0: never; 1: the checker names the session (SetID) before it verifies
                                     anything, with an id another, authenticated session holds;
                                     2: it does so only once its verdict is OK *)

Inductive recv_res := RInfo (info : bytes) | RStat (code : Z).

Definition code_conn_closed : Z := 102.
Definition code_bad_message : Z := 400.
Definition code_unauthorized : Z := 401.
Definition code_forbidden : Z := 403.     (* the status the harness' checker returns *)
Definition code_not_found : Z := 404.
Definition code_internal : Z := 500.      (* MultiRecvErr *)

Section Server.
  (* library behaviour, no hypothesis needed by the theorems:
     goutil/status DecodeQuery+Code, and codec.Get(id).Unmarshal into a *string *)
  Variable status_code : bytes -> Z.
  Variable info_dec : byte -> bytes -> option bytes.
  (* router: which service methods have a CALL / PUSH handler *)
  Variable route_call : bytes -> bool.
  Variable route_push : bytes -> bool.
  Variable limit : N.

  (* session.PreReceive + the checks in the RecvOnce closure of auth.go PostAccept *)
  Definition recv_of_frame (f : frame) : recv_res :=
    let is_auth := beqb (f_mtype f) t_authcall in
    let body := if is_auth
                then (match f_body f with [] => Some [] | _ => info_dec (f_codec f) (f_body f) end)
                else Some [] in
    match body with
    | None => RStat code_conn_closed
    | Some info =>
        if negb (Z.eqb (status_code (f_status f)) 0) then RStat (status_code (f_status f))
        else if negb is_auth then RStat code_unauthorized
        else RInfo info
    end.

  (* checker function + authCheckerPlugin.PostAccept; [r] is the result of the one read
     (absent when the checker never calls RecvOnce) *)
  Definition verdict_code (ck : checker) (r : option recv_res) : Z :=
    if (Nat.leb 2 (ck_recvs ck)) && ck_propagate ck then code_internal else
    match r with
    | Some (RStat c) => c
    | Some (RInfo i) => if ck_verify ck i then 0%Z else code_forbidden
    | None => if ck_verify ck [] then 0%Z else code_forbidden
    end.

  Inductive phase := Fresh | Preparing | Running (hdr : bool) | Closed.

  Record st := mkSt {
    ph : phase; buf : bytes; eof : bool; gone : bool;
    accepted : bool; indexed : bool; trace : list ev }.

  Definition emit (s : st) (es : list ev) : st :=
    mkSt (ph s) (buf s) (eof s) (gone s) (accepted s) (indexed s) (trace s ++ es).

  (* a non-OK status or a recovered panic anywhere in the chain: ServeConn closes the session,
     which was never indexed *)
  Definition reject_with (s : st) (rest : bytes) (es : list ev) : st :=
    mkSt Closed rest (eof s) (gone s) false false (trace s ++ es ++ [EvReject; EvDisconnect]).

  (* the rest of the checker's PostAccept, of the chain behind it and of ServeConn once the
     read (if any) is done *)
  Definition finish_accept (ck : checker) (s : st) (r : option recv_res) (rest : bytes) : st :=
    let pre := (match r with Some _ => [EvRecv] | None => [] end)
               ++ (if Nat.leb 2 (ck_recvs ck) then [EvMultiRecv] else []) in
    let c := verdict_code ck r in
    if Nat.eqb (ck_panic ck) 2 then reject_with s rest pre          (* no reply is ever sent *)
    else if gone s then reject_with s rest (pre ++ [EvAuthReplyFailed])
    else if Z.eqb c 0 then
      let aft := match ck_after ck with Some _ => [EvPlugin true] | None => [] end in
      let sid := if Nat.eqb (ck_setid ck) 2 then [EvSetID] else [] in
      if hook_fails (ck_after ck) then reject_with s rest ((pre ++ sid) ++ [EvAuthReply 0] ++ aft)
      else mkSt (Running false) rest (eof s) false true true
                (trace s ++ (pre ++ sid) ++ [EvAuthReply 0] ++ aft ++ [EvNextAccept; EvAccept] ++
                 (* session.go SessionHub.set: the previous holder of the id is closed *)
                 (if Nat.eqb (ck_setid ck) 0 then [] else [EvDisplace]))
    else reject_with s rest (pre ++ [EvAuthReply c]).

  (* context.go: what one frame read by the loop causes *)
  Definition reply_events (g : bool) (seq code : Z) : list ev :=
    if g then [EvHook h_pre_write_reply; EvReplyFailed seq]
    else [EvHook h_pre_write_reply; EvReply seq code; EvHook h_post_write_reply].

  Definition frame_events (g : bool) (f : frame) : list ev :=
    if beqb (f_mtype f) t_call then
      EvHook h_post_read_call_header ::
      (match f_sm f with
       | [] => reply_events g (f_seq f) code_bad_message
       | _ => if route_call (f_sm f)
              then [EvHook h_pre_read_call_body; EvHook h_post_read_call_body;
                    EvHandler true (f_seq f)] ++ reply_events g (f_seq f) 0
              else reply_events g (f_seq f) code_not_found
       end)
    else if beqb (f_mtype f) t_push then
      EvHook h_post_read_push_header ::
      (match f_sm f with
       | [] => []
       | _ => if route_push (f_sm f)
              then [EvHook h_pre_read_push_body; EvHook h_post_read_push_body;
                    EvHandler false (f_seq f)]
              else []
       end)
    else if beqb (f_mtype f) t_reply then []
    else [EvBadType].

  Definition is_app_type (f : frame) : bool :=
    beqb (f_mtype f) t_call || beqb (f_mtype f) t_push || beqb (f_mtype f) t_reply.

  Definition close_loop (s : st) (es : list ev) : st :=
    mkSt Closed (buf s) (eof s) (gone s) (accepted s) false (trace s ++ es).

  (* run the server until it blocks or the connection is finished *)
  Fixpoint pump_fuel (ck : checker) (n : nat) (s : st) {struct n} : st :=
    match n with
    | O => s
    | S n' =>
        match ph s with
        | Closed => s
        | Fresh =>
            let s1 := mkSt Preparing (buf s) (eof s) (gone s) (accepted s) (indexed s)
                           (trace s ++ match ck_before ck with Some _ => [EvPlugin false] | None => [] end
                                    ++ (if negb (Nat.eqb (ck_panic ck) 1) && Nat.eqb (ck_setid ck) 1
                                        then [EvSetID] else [])) in
            if hook_fails (ck_before ck) then reject_with s (buf s) [EvPlugin false]
            else pump_fuel ck n' s1
        | Preparing =>
            if Nat.eqb (ck_panic ck) 1 then reject_with s (buf s) [] else
            match ck_recvs ck with
            | O => pump_fuel ck n' (finish_accept ck s None (buf s))
            | S _ =>
                match parse limit (buf s) with
                | PFrame f rest => pump_fuel ck n' (finish_accept ck s (Some (recv_of_frame f)) rest)
                | PErr => pump_fuel ck n' (finish_accept ck s (Some (RStat code_conn_closed)) (buf s))
                | NeedMore =>
                    if eof s || gone s
                    then pump_fuel ck n' (finish_accept ck s (Some (RStat code_conn_closed)) (buf s))
                    else s
                end
            end
        | Running hdr =>
            let s1 := if hdr then s
                      else mkSt (Running true) (buf s) (eof s) (gone s) (accepted s) (indexed s)
                                (trace s ++ [EvHook h_pre_read_header]) in
            match parse limit (buf s) with
            | PFrame f rest =>
                let s2 := mkSt (Running false) rest (eof s) (gone s) (accepted s) (indexed s)
                               (trace s1 ++ frame_events (gone s) f) in
                if is_app_type f then pump_fuel ck n' s2
                else close_loop s2 [EvDisconnect]
            | PErr => close_loop s1 [EvLoopExit; EvDisconnect]
            | NeedMore =>
                if eof s || gone s then close_loop s1 [EvLoopExit; EvDisconnect] else s1
            end
        end
    end.

  Definition pump (ck : checker) (s : st) : st := pump_fuel ck (S (S (S (length (buf s))))) s.

  Inductive input := Bytes (b : bytes) | Eof | Gone.

  Definition feed (s : st) (i : input) : st :=
    match i with
    | Bytes b => if eof s || gone s then s
                 else mkSt (ph s) (buf s ++ b) (eof s) (gone s) (accepted s) (indexed s) (trace s)
    | Eof => mkSt (ph s) (buf s) true (gone s) (accepted s) (indexed s) (trace s)
    | Gone => mkSt (ph s) (buf s) (eof s) true (accepted s) (indexed s) (trace s)
    end.

  Definition step (ck : checker) (s : st) (i : input) : st := pump ck (feed s i).

  Definition init : st := mkSt Fresh [] false false false false [].

  Definition run (ck : checker) (ins : list input) : st :=
    fold_left (step ck) ins (pump ck init).

  (* frames the read loop processes from a buffer: up to the first malformed / incomplete
     frame, and not beyond a frame of a type the loop does not allow *)
  Fixpoint loop_frames_fuel (n : nat) (b : bytes) : list frame :=
    match n with
    | O => []
    | S n' => match parse limit b with
              | PFrame f rest => if is_app_type f then f :: loop_frames_fuel n' rest else [f]
              | _ => []
              end
    end.
  Definition loop_frames (b : bytes) : list frame := loop_frames_fuel (S (length b)) b.
End Server.

(* ---- client side: authBearerPlugin.PostDial (PreSend AUTH_CALL, PreReceive one frame) ---- *)
Section Bearer.
  Variable status_code : bytes -> Z.
  Inductive dial_res := DialOk | DialFail (code : Z).

  (* [sends] = how often the bearer function calls SendOnce; [reply] = what PreReceive
     returned for the one frame read (None = read failed) *)
  Definition bearer (sends : nat) (propagate : bool) (reply : option frame) : dial_res * nat :=
    match sends with
    | O => (DialOk, 0%nat)
    | S k =>
        let first :=
          match reply with
          | None => DialFail code_conn_closed
          | Some f => if negb (Z.eqb (status_code (f_status f)) 0) then DialFail (status_code (f_status f))
                      else if negb (beqb (f_mtype f) t_authreply) then DialFail code_unauthorized
                      else DialOk
          end in
        match k with
        | O => (first, 1%nat)
        | S _ => ((if propagate then DialFail 104 else first), 1%nat)   (* MultiSendErr: CodeWriteFailed *)
        end
    end.
End Bearer.
