(* Model of codec/form_codec.go: FormCodec.Marshal / Unmarshal, setStructToForm,
   mapFormToStruct, setWithProperType and the set*Field helpers.  Definitions only.
   reflect indexing is a partial operation: out of range is the explicit outcome [Panic].
   The definitions without suffix follow the REPAIRED code (commits efb4dc4, 82ba321, 2ea78bd in /repo);
   the [_prefix] variants follow the code as pinned and document the defects.
   Not modelled: float fields (tested only) and time.Time fields (setTimeField). *)
From Coq Require Import Strings.String Strings.Byte.
From Coq Require Import List Arith NArith ZArith Bool Lia.
From Verif Require Import Base.Bytes Model.Strconv Model.UrlQuery Model.PlainCodec.
Import ListNotations.

(* A struct value seen through reflect.  A field is
     FLeaf l            any non-struct, non-slice, non-array kind
     FSlice proto es    kind Slice; proto = zero value of the element type
     FArray proto es    kind Array of length [length es]
     FStruct fs         kind Struct
   and carries its Go name, its `form:"..."` tag ([] = absent) and whether it is exported. *)
Inductive fval :=
| FLeaf (l : leaf)
| FSlice (proto : leaf) (elems : list leaf)
| FArray (proto : leaf) (elems : list leaf)
| FStruct (fs : fields)
with fields :=
| FNil
| FCons (name tag : bytes) (exported : bool) (v : fval) (rest : fields).

Definition eff_name (name tag : bytes) : bytes :=
  match tag with [] => name | _ => tag end.

(* the strings appended for a run of elements: formatProperType on each, failures skipped *)
Definition fmt_elems (es : list leaf) : list bytes :=
  flat_map (fun e => match format_leaf e with Some s => [s] | None => [] end) es.

(* what setStructToForm appends under the field's key; [rv] is the order in which the
   slice/array loop visits the elements *)
Definition fmt_field (rv : list leaf -> list leaf) (v : fval) : list bytes :=
  match v with
  | FLeaf l => fmt_elems [l]
  | FSlice _ es => fmt_elems (rv es)
  | FArray _ es => fmt_elems (rv es)
  | FStruct _ => []     (* a tagged struct: formatProperType fails, nothing appended *)
  end.

(* form_codec.go:setStructToForm *)
Fixpoint set_fields_gen (rv : list leaf -> list leaf) (q : values) (fs : fields) : values :=
  match fs with
  | FNil => q
  | FCons name tag _ v rest =>
      let q' :=
        match tag, v with
        | [], FStruct sub => set_fields_gen rv q sub
        | _, _ => vappend_all q (eff_name name tag) (fmt_field rv v)
        end in
      set_fields_gen rv q' rest
  end.

Definition set_fields := set_fields_gen (fun es => es).          (* repaired: i = 0 .. Len-1 *)
Definition set_fields_prefix := set_fields_gen (@rev leaf).      (* pinned: i = Len-1 .. 0 *)

(* the argument of FormCodec.Marshal as its type switch sees it *)
Inductive fsrc :=
| SNil                      (* nil interface *)
| SValues (q : values)      (* url.Values, map[string][]string and pointers to them *)
| SStruct (fs : fields)     (* struct or pointer(s) to struct *)
| SOther.

(* form_codec.go:FormCodec.Marshal *)
Definition form_marshal_gen (rv : list leaf -> list leaf) (v : fsrc) : outcome bytes :=
  match v with
  | SNil => Ok []
  | SValues q => Ok (values_encode q)
  | SStruct fs => Ok (values_encode (set_fields_gen rv [] fs))
  | SOther => Err
  end.

Definition form_marshal := form_marshal_gen (fun es => es).
Definition form_marshal_prefix := form_marshal_gen (@rev leaf).

Definition or_default (s dflt : bytes) : bytes := match s with [] => dflt | _ => s end.

(* form_codec.go:setWithProperType + setIntField/setUintField/setBoolField; [cur] is the
   current content of the field or element (its kind selects the branch).  The parse error of
   setBoolField is swallowed: the field keeps its content and nil is returned. *)
Definition set_with_proper_type (cur : leaf) (s : bytes) : outcome leaf :=
  match cur with
  | LInt w _ =>
      match parse_int (bits w) (or_default s (str "0")) with Some z => Ok (LInt w z) | None => Err end
  | LUint w _ =>
      match parse_uint (bits w) (or_default s (str "0")) with Some n => Ok (LUint w n) | None => Err end
  | LBool b =>
      match parse_bool (or_default s (str "false")) with Some b' => Ok (LBool b') | None => Ok (LBool b) end
  | LStr _ => Ok (LStr s)
  | _ => Err   (* "Unknown type" *)
  end.

(* the Slice branch of mapFormToStruct: a fresh slice of len(inputValue) zero elements *)
Fixpoint set_slice (proto : leaf) (vals : list bytes) : outcome (list leaf) :=
  match vals with
  | [] => Ok []
  | s :: r =>
      obind (set_with_proper_type proto s) (fun e =>
      omap (cons e) (set_slice proto r))
  end.

(* the Array branch: elements are set in place, index i for value i.
   [over] is the outcome of structField.Index(i) with i = Len (values left, no element left). *)
Fixpoint set_array_gen (over : outcome (list leaf)) (elems : list leaf) (vals : list bytes)
  : outcome (list leaf) :=
  match vals with
  | [] => Ok elems
  | s :: sr =>
      match elems with
      | [] => over
      | e :: er =>
          obind (set_with_proper_type e s) (fun e' =>
          omap (cons e') (set_array_gen over er sr))
      end
  end.

Definition set_array := set_array_gen (Ok []).         (* repaired: i < numElems && i < Len *)
Definition set_array_prefix := set_array_gen Panic.    (* pinned: reflect: array index out of range *)

(* one field of mapFormToStruct, given the values found under its key *)
Definition set_field_gen (over : outcome (list leaf)) (v : fval) (vals : list bytes) : outcome fval :=
  match vals with
  | [] => Panic                       (* inputValue[0] with numElems = 0 *)
  | s :: _ =>
      match v with
      | FArray proto elems => omap (FArray proto) (set_array_gen over elems vals)
      | FSlice proto _ => omap (FSlice proto) (set_slice proto vals)
      | FLeaf l => omap FLeaf (set_with_proper_type l s)
      | FStruct _ => Err              (* tagged struct: "Unknown type" *)
      end
  end.

(* form_codec.go:mapFormToStruct; the result is the struct's content afterwards *)
Fixpoint map_fields_gen (over : outcome (list leaf)) (form : values) (fs : fields) : outcome fields :=
  match fs with
  | FNil => Ok FNil
  | FCons name tag exported v rest =>
      let continue := fun v' => omap (FCons name tag exported v') (map_fields_gen over form rest) in
      if negb exported then continue v       (* !structField.CanSet() *)
      else
        match tag, v with
        | [], FStruct sub => obind (map_fields_gen over form sub) (fun sub' => continue (FStruct sub'))
        | _, _ =>
            match vget form (eff_name name tag) with
            | None => continue v
            | Some vals => obind (set_field_gen over v vals) continue
            end
        end
  end.

Definition map_fields := map_fields_gen (Ok []).
Definition map_fields_prefix := map_fields_gen Panic.

(* the destination of FormCodec.Unmarshal as its type switch sees it *)
Inductive fdst :=
| TNil                        (* nil interface *)
| TValues                     (* *url.Values, *map[string][]string, *interface{} *)
| TStruct (fs : fields)       (* pointer(s) to struct *)
| TIface (assignable : bool)  (* pointer(s) to an interface type other than *interface{} itself:
                                 can it hold a url.Values?  pointer to *interface{}: yes, *io.Reader: no *)
| TOther.

Inductive fres := RNil | RValues (q : values) | RStruct (fs : fields).

(* form_codec.go:FormCodec.Unmarshal; the result is the destination's content afterwards.
   [fixed] selects the repaired code (commits 82ba321, 2ea78bd) or the code as pinned: the
   pinned code called reflect.Value.Set without checking assignability (panic) and returned
   an error after a successful Set. *)
Definition form_unmarshal_gen (fixed : bool) (data : bytes) (d : fdst) : outcome fres :=
  match parse_query data with
  | None => Err
  | Some form =>
      match d with
      | TNil => Ok RNil
      | TValues => Ok (RValues form)
      | TStruct fs => omap RStruct (map_fields_gen (if fixed then Ok [] else Panic) form fs)
      | TIface assignable =>
          if fixed then (if assignable then Ok (RValues form) else Err)
          else (if assignable then Err else Panic)
      | TOther => Err
      end
  end.

Definition form_unmarshal := form_unmarshal_gen true.
Definition form_unmarshal_prefix := form_unmarshal_gen false.

(* ---- the destination's content after a FAILED decode ----
   mapFormToStruct writes field by field and returns at the first error: fields before the
   failing one keep their new content, array elements before the failing one too, a slice is
   assigned only when complete, a scalar only when it parsed.  The [_st] functions return the
   content afterwards together with the status; they agree with the functions above on the
   status and, on success, on the content (Proofs/FormCodecProofs.v: map_fields_st_agrees). *)
Fixpoint set_array_st (over : outcome (list leaf)) (elems : list leaf) (vals : list bytes)
  : list leaf * outcome unit :=
  match vals with
  | [] => (elems, Ok tt)
  | s :: sr =>
      match elems with
      | [] => ([], omap (fun _ => tt) over)
      | e :: er =>
          match set_with_proper_type e s with
          | Ok e' => let (r, st) := set_array_st over er sr in (e' :: r, st)
          | Err => (elems, Err)
          | Panic => (elems, Panic)
          end
      end
  end.

Definition set_field_st (over : outcome (list leaf)) (v : fval) (vals : list bytes)
  : fval * outcome unit :=
  match v with
  | FArray proto elems =>
      match vals with
      | [] => (v, Panic)
      | _ => let (es, st) := set_array_st over elems vals in (FArray proto es, st)
      end
  | _ =>
      match set_field_gen over v vals with
      | Ok v' => (v', Ok tt)
      | Err => (v, Err)
      | Panic => (v, Panic)
      end
  end.

Fixpoint map_fields_st (over : outcome (list leaf)) (form : values) (fs : fields)
  : fields * outcome unit :=
  match fs with
  | FNil => (FNil, Ok tt)
  | FCons name tag exported v rest =>
      let continue := fun v' =>
        let (r, st) := map_fields_st over form rest in (FCons name tag exported v' r, st) in
      let after := fun (p : fval * outcome unit) =>
        match snd p with
        | Ok _ => continue (fst p)
        | st => (FCons name tag exported (fst p) rest, st)
        end in
      if negb exported then continue v
      else
        match tag, v with
        | [], FStruct sub =>
            let (sub', st) := map_fields_st over form sub in after (FStruct sub', st)
        | _, _ =>
            match vget form (eff_name name tag) with
            | None => continue v
            | Some vals => after (set_field_st over v vals)
            end
        end
  end.

(* FormCodec.Unmarshal into a struct: content afterwards and status *)
Definition form_unmarshal_struct_st (data : bytes) (fs : fields) : fields * outcome unit :=
  match parse_query data with
  | None => (fs, Err)
  | Some form => map_fields_st (Ok []) form fs
  end.

(* ---- vocabulary of the round-trip statement ---- *)
Fixpoint zero_fields (fs : fields) : fields :=
  match fs with
  | FNil => FNil
  | FCons name tag e v rest =>
      FCons name tag e
        (match v with
         | FLeaf l => FLeaf (leaf_zero l)
         | FSlice p _ => FSlice p []
         | FArray p es => FArray p (map leaf_zero es)
         | FStruct sub => FStruct (zero_fields sub)
         end) (zero_fields rest)
  end.

(* the keys under which a struct reads and writes, after flattening untagged struct fields *)
Fixpoint flat_names (fs : fields) : list bytes :=
  match fs with
  | FNil => []
  | FCons name tag _ v rest =>
      match tag, v with
      | [], FStruct sub => flat_names sub ++ flat_names rest
      | _, _ => eff_name name tag :: flat_names rest
      end
  end.

Definition same_kind (a b : leaf) : bool :=
  match a, b with
  | LStr _, LStr _ | LBool _, LBool _ => true
  | LInt w _, LInt w' _ | LUint w _, LUint w' _ => width_eqb w w'
  | _, _ => false
  end.

(* supported kinds, values within the range of their types, every field exported *)
Fixpoint fields_ok (fs : fields) : bool :=
  match fs with
  | FNil => true
  | FCons _ tag exported v rest =>
      exported &&
      match v with
      | FLeaf l => scalar_ok l
      | FSlice p es => forallb (fun e => scalar_ok e && same_kind p e) es
      | FArray _ es => forallb scalar_ok es
      | FStruct sub => match tag with [] => fields_ok sub | _ => false end
      end && fields_ok rest
  end.

Fixpoint nodupb (l : list bytes) : bool :=
  match l with
  | [] => true
  | x :: r => negb (existsb (bytes_eqb x) r) && nodupb r
  end.

(* the round-trip domain *)
Definition wf_struct (fs : fields) : bool := fields_ok fs && nodupb (flat_names fs).

(* ---- the key of a field: how each of the two sites reads the `form` tag ----
   setStructToForm (Marshal) and mapFormToStruct (Unmarshal) each call
   typeField.Tag.Get(NAME_FORM) on their own and use the WHOLE value as the key: the codec has no
   option syntax, the tag `form:"name,omitempty"` means the key "name,omitempty" on both sides.
   A [tag_reader] is what a site makes of the value of Tag.Get before it decides "empty: recurse
   into a struct / fall back to the field name" and before it indexes the map.  [whole_tag] is the
   reader of BOTH sites of /repo; [cut_comma] is the reader of encoding/json and friends (the name
   ends at the first comma).  The functions below are setStructToForm / mapFormToStruct with the
   reader made explicit, so that "the two sites use the same key" is a statement about the model
   and not a by-product of sharing one definition. *)
Definition tag_reader := bytes -> bytes.

Definition whole_tag : tag_reader := fun t => t.

Fixpoint cut_comma (t : bytes) : bytes :=
  match t with
  | [] => []
  | b :: r => if beqb b ","%byte then [] else b :: cut_comma r
  end.

(* form_codec.go:setStructToForm, the tag read through [tr] *)
Fixpoint set_fields_k (tr : tag_reader) (q : values) (fs : fields) : values :=
  match fs with
  | FNil => q
  | FCons name tag _ v rest =>
      let q' :=
        match tr tag, v with
        | [], FStruct sub => set_fields_k tr q sub
        | t, _ => vappend_all q (eff_name name t) (fmt_field (fun es => es) v)
        end in
      set_fields_k tr q' rest
  end.

(* form_codec.go:mapFormToStruct, the tag read through [tr] *)
Fixpoint map_fields_k (tr : tag_reader) (form : values) (fs : fields) : outcome fields :=
  match fs with
  | FNil => Ok FNil
  | FCons name tag exported v rest =>
      let continue := fun v' => omap (FCons name tag exported v') (map_fields_k tr form rest) in
      if negb exported then continue v
      else
        match tr tag, v with
        | [], FStruct sub => obind (map_fields_k tr form sub) (fun sub' => continue (FStruct sub'))
        | t, _ =>
            match vget form (eff_name name t) with
            | None => continue v
            | Some vals => obind (set_field_gen (Ok []) v vals) continue
            end
        end
  end.

(* FormCodec.Marshal / Unmarshal of a struct, the sites reading the tag through [tr] *)
Definition form_marshal_struct_k (tr : tag_reader) (fs : fields) : bytes :=
  values_encode (set_fields_k tr [] fs).

Definition form_unmarshal_struct_k (tr : tag_reader) (data : bytes) (fs : fields) : outcome fields :=
  match parse_query data with
  | None => Err
  | Some form => map_fields_k tr form fs
  end.

(* the struct as a site reading through [tr] sees it: every tag replaced by what the site reads *)
Fixpoint retag (tr : tag_reader) (fs : fields) : fields :=
  match fs with
  | FNil => FNil
  | FCons name tag e v rest =>
      FCons name (tr tag) e
        (match v with FStruct sub => FStruct (retag tr sub) | _ => v end)
        (retag tr rest)
  end.

(* the two readers make the same thing of every tag that occurs in the struct *)
Fixpoint tags_agree (tr1 tr2 : tag_reader) (fs : fields) : bool :=
  match fs with
  | FNil => true
  | FCons _ tag _ v rest =>
      bytes_eqb (tr1 tag) (tr2 tag) &&
      (match v with FStruct sub => tags_agree tr1 tr2 sub | _ => true end) &&
      tags_agree tr1 tr2 rest
  end.
