(* utils/bytesconv.go: AppendQuotedArg, hexCharUpper, hex2intTable/hexbyte2int
   utils/args.go: decodeArgAppend (decodePlus = true)
   (goutil/status/query_args.go carries identical copies.) *)
From Coq Require Import Strings.String Strings.Byte.
From Coq Require Import List Arith NArith ZArith Bool Lia.
From Verif Require Import Base.Bytes Base.Outcome.
Import ListNotations.
Local Open Scope N_scope.

(* c >= 'a' && c <= 'z' || 'A'..'Z' || '0'..'9' || '*' '-' '.' '_' *)
Definition unreserved (c : byte) : bool :=
  let n := b2n c in
  ((97 <=? n) && (n <=? 122)) || ((65 <=? n) && (n <=? 90)) || ((48 <=? n) && (n <=? 57))
  || (n =? 42) || (n =? 45) || (n =? 46) || (n =? 95).

Definition hex_upper (n : N) : byte := n2b (if n <? 10 then 48 + n else 55 + n).

Fixpoint quote (s : bytes) : bytes :=
  match s with
  | [] => []
  | c :: r =>
      if unreserved c then c :: quote r
      else "%"%byte :: hex_upper (b2n c / 16) :: hex_upper (b2n c mod 16) :: quote r
  end.

(* hexbyte2int: table of 255 entries, so index 0xFF panics; -1 for non-hex. *)
Inductive hexv := HexPanic | HexNone | HexVal (n : N).
Definition hex2int (c : byte) : hexv :=
  let n := b2n c in
  if n =? 255 then HexPanic
  else if (48 <=? n) && (n <=? 57) then HexVal (n - 48)
  else if (97 <=? n) && (n <=? 102) then HexVal (n - 87)
  else if (65 <=? n) && (n <=? 70) then HexVal (n - 55)
  else HexNone.

(* decodeArgAppend(dst[:0], src, true). [Panic] = index out of range in hex2intTable.
   Go evaluates both table lookups before testing either result. *)
Fixpoint unquote (src : bytes) : res bytes :=
  match src with
  | [] => Ok []
  | c :: r =>
      if beqb c "%"%byte then
        match r with
        | x1 :: x2 :: r' =>
            match hex2int x1, hex2int x2 with
            | HexPanic, _ => Panic
            | _, HexPanic => Panic
            | HexVal a, HexVal b => rmap (cons (n2b (a * 16 + b))) (unquote r')
            | _, _ => rmap (cons c) (unquote r)
            end
        | _ => Ok src            (* i+2 >= n: the rest is appended verbatim *)
        end
      else if beqb c "+"%byte then rmap (cons " "%byte) (unquote r)
      else rmap (cons c) (unquote r)
  end.
