(* Model of the receive-side dispatch of one frame: session.go startReadAndHandle
   (one loop iteration), context.go binding / bindCall / bindPush / handle /
   handleCall / handlePush / writeReply, router.go getCall / getPush.
   Definitions only.  [dispatch] is a TOTAL function from a classification of
   the frame and of everything the environment decides while it is handled
   (plugin verdicts, handler outcome, reply-write results, context expiry,
   goroutine-pool state, session state) to the list of externally visible
   actions.  It models what the code DOES. *)
From Coq Require Import Strings.String Strings.Byte.
From Coq Require Import List Arith NArith ZArith Bool Lia.
From Verif Require Import Base.Bytes.
Import ListNotations.
Local Open Scope Z_scope.

(* ---- statuses (goutil/status.Status: code, msg, cause) ----
   The cause of a framework status is often the text of a library error
   (codec failure, write error): [CLib].  A nil cause and an empty cause text
   are identified ([CText []]). *)
Inductive cause := CText (b : bytes) | CLib.
Record status := mkStatus { st_code : Z; st_msg : bytes; st_cause : cause }.

(* a Go *Status: nil or a pointer *)
Definition ostatus := option status.

(* Status.OK(): nil or code 0 *)
Definition st_ok (s : ostatus) : bool :=
  match s with None => true | Some s => st_code s =? 0 end.

(* status.go: predefined framework statuses *)
Definition st_not_found : status := mkStatus 404 (str "Not Found") (CText []).
Definition st_bad_message (c : cause) : status := mkStatus 400 (str "Bad Message") c.
Definition st_invalid_method : status :=
  st_bad_message (CText (str "invalid service method for message")).
Definition st_internal (c : cause) : status := mkStatus 500 (str "Internal Server Error") c.
Definition st_mtype_not_allowed : status :=
  mkStatus 405 (str "Message Type Not Allowed") (CText []).
Definition code_mtype_not_allowed : Z := 405.

(* ---- the classification ---- *)

(* message.go: TypeCall = 1, TypeReply = 2, TypePush = 3; everything else
   (including TypeAuthCall = 4 / TypeAuthReply = 5) is unsupported by binding *)
Inductive mtype := TCall | TReply | TPush | TOther.
Definition classify_type (b : byte) : mtype :=
  match b with
  | x01 => TCall
  | x02 => TReply
  | x03 => TPush
  | _ => TOther
  end.

(* router.go getCall / getPush: a registered handler, else the unknown handler
   when one is set, else nothing *)
Inductive route := RKnown | RUnknownHandler | RNone.

(* outcome of a plugin hook: it returned nil, returned a (non-nil) status, or
   panicked.  [VStat s] with [st_code s = 0] is a non-nil OK status. *)
Inductive verdict := VNil | VStat (s : status) | VPanic (c : cause).

Inductive stage :=
| SPreReadHeader
| SPostReadCallHeader | SPreReadCallBody | SPostReadCallBody
| SPreWriteReply | SPostWriteReply
| SPostReadPushHeader | SPreReadPushBody | SPostReadPushBody.

(* what the handler function did: returned (result, nil-or-status) or panicked.
   [HReturn (Some s)] with code 0 is a non-nil OK status.
   [HEncodePanic c]: it returned OK with a result whose ENCODING panics with c while the reply
   is being packed (inside session.write -> socket.WriteMessage; e.g. a json.Marshaler that
   panics): session.write's deferred unlock releases the write lock, the panic reaches
   handleCall's recover with writed = false and a 500 is written instead. *)
Inductive handler_outcome := HReturn (s : ostatus) | HPanic (c : cause) | HEncodePanic (c : cause).

(* what socket.ReadMessage did with the frame.
   [RHeaderErr k]: it failed before asking for the body (binding never ran);
   [RBody None]: the body was absent/empty or decoded;
   [RBody (Some k)]: decoding the body into the handler's argument failed.
   k = "the body codec id recorded on the input message is non-zero". *)
Inductive read_outcome := RHeaderErr (codec_known : bool) | RBody (err : option bool).

(* result of session.write for a reply frame: written; refused because the
   session is no longer open (status check, EOF: CodeConnClosed); refused or
   failed for any other reason (CodeWriteFailed: the frame could not be packed -
   body marshalling, size limit, transfer filter - or, before fix bd93e2a, the
   output context had expired).  When [WRefused] stands for an I/O error the
   connection is dead and the read loop ends the session; this one-frame model
   does not show that. *)
Inductive wres := WOk | WClosed | WRefused.

Record frame := mkFrame {
  f_seq : Z;
  f_type : byte;
  f_sm_empty : bool;               (* service method is "" *)
  f_route : route;
  f_read : read_outcome;
  f_verdict : stage -> verdict;
  f_handler : handler_outcome;
  f_w_ok : wres;                   (* writing the OK reply (with the handler's result) *)
  f_w_err1 : wres;                 (* writing a body-less error frame, first attempt *)
  f_w_err2 : wres;                 (* writing the body-less fallback 500 frame *)
  f_ctx_expired : bool;            (* output context done when the reply is written *)
  f_spawn_failed : bool;           (* Go(...) returned false *)
  f_goon : bool                    (* session.goonRead() after ReadMessage *)
}.

Inductive hkind := HKnown | HUnknown.

Inductive action :=
| Invoke (h : hkind)               (* the handler function is called *)
| Reply (seq : Z) (st : ostatus)   (* a REPLY frame reaches the wire; None = OK *)
| Disconnect                       (* the session is closed / the read loop ends *)
| Drop.                            (* a CALL ends with no reply on a live session *)

(* ---- plugin container loops (plugin.go): a stage returns the first non-OK status
   of its plugins, else nil - a non-nil OK status of a plugin is NOT passed on ---- *)
Inductive hook_res := HookOk | HookVeto (s : status) | HookPanic (c : cause).
Definition hook (v : verdict) : hook_res :=
  match v with
  | VNil => HookOk
  | VStat s => if st_code s =? 0 then HookOk else HookVeto s
  | VPanic c => HookPanic c
  end.

(* A stage is a CHAIN of plugins (pluginSingleContainer.plugins, in order).  The loops of
   plugin.go call them one after the other and return at the FIRST one that does not return
   OK (or panics): the later plugins are not called.  [stage_verdict] is what the chain as a
   whole does; [f_verdict f s] of a frame built from chains is [stage_verdict (chain s)]. *)
Fixpoint stage_verdict (l : list verdict) : verdict :=
  match l with
  | [] => VNil
  | v :: r => match hook v with HookOk => stage_verdict r | _ => v end
  end.

(* NOT what the code does: every plugin runs and the last one's answer stands *)
Fixpoint stage_verdict_last_wins (l : list verdict) (acc : verdict) : verdict :=
  match l with
  | [] => acc
  | v :: r => stage_verdict_last_wins r v
  end.

(* ---- binding (runs inside ReadMessage, on the read goroutine) ---- *)
Inductive bind_res :=
| BindPanic                                   (* a hook panicked on the read goroutine *)
| Bound (stat : ostatus) (h : option hkind) (body : bool).
   (* c.stat, c.handler, "binding returned a body to decode into" *)

Definition lookup (r : route) : option hkind :=
  match r with RKnown => Some HKnown | RUnknownHandler => Some HUnknown | RNone => None end.

(* context.go bindCall / bindPush (same shape; stages differ) *)
Definition bind_with (f : frame) (s_header s_body : stage) : bind_res :=
  match hook (f_verdict f s_header) with
  | HookPanic _ => BindPanic
  | HookVeto s => Bound (Some s) None false
  | HookOk =>
      if f_sm_empty f then Bound (Some st_invalid_method) None false
      else match lookup (f_route f) with
           | None => Bound (Some st_not_found) None false
           | Some h =>
               match hook (f_verdict f s_body) with
               | HookPanic _ => BindPanic
               | HookVeto s => Bound (Some s) (Some h) false
               | HookOk => Bound None (Some h) true
               end
           end
  end.

(* context.go binding *)
Definition binding (f : frame) : bind_res :=
  match classify_type (f_type f) with
  | TCall => bind_with f SPostReadCallHeader SPreReadCallBody
  | TPush => bind_with f SPostReadPushHeader SPreReadPushBody
  | TReply => Bound None None false      (* bindReply: no pending call on this side *)
  | TOther => Bound (Some st_mtype_not_allowed) None false
  end.

(* ---- session.write as seen by writeReply ---- *)
(* the tree before fix bd93e2a: an expired output context refuses every write *)
Definition eff_write_prefix (f : frame) (w : wres) : wres :=
  match w with
  | WClosed => WClosed                 (* session status is checked first *)
  | _ => if f_ctx_expired f then WRefused else w
  end.
(* repaired writeReply replaces an expired context before writing *)
Definition eff_write (f : frame) (w : wres) : wres := w.

(* what the read loop does when no goroutine is available; text of the status *)
Definition st_no_goroutine : status :=
  st_internal (CText (str "no goroutine available to handle the message")).

Section Dispatch.
  Variable effw : frame -> wres -> wres.
  (* true: tree with the pool fix (a CALL is refused with a status on the read
     goroutine); false: before it (the context is just put back) *)
  Variable pool_fix : bool.

  (* the single reply write of the panic-recovery path of handleCall *)
  Definition first_write (f : frame) (st : ostatus) : wres :=
    effw f (if st_ok st then f_w_ok f else f_w_err1 f).

  Definition write_once (f : frame) (st : ostatus) : list action :=
    match first_write f st with
    | WOk => [Reply (f_seq f) (if st_ok st then None else st)]
    | WClosed => [Disconnect]
    | WRefused => [Drop]
    end.

  (* handleCall from "reply call" on: preWriteReply, writeReply, fallback 500 *)
  Definition reply_path (f : frame) (st : ostatus) : list action :=
    match f_verdict f SPreWriteReply with
    | VPanic c =>
        (* recovered; not yet written *)
        write_once f (if st_ok st then Some (st_internal c) else st)
    | _ =>
        match first_write f st with
        | WOk => [Reply (f_seq f) (if st_ok st then None else st)]
                 (* postWriteReply runs with writed = true: a panic there writes nothing *)
        | WClosed => [Disconnect]
        | WRefused =>
            match effw f (f_w_err2 f) with
            | WOk => [Reply (f_seq f) (Some (st_internal CLib))]
            | WClosed => [Disconnect]
            | WRefused => [Drop]
            end
        end
    end.

  (* the status written after the result's encoder panicked: preWriteReply runs first, a
     panic there is recovered before any write is attempted *)
  Definition encode_panic_status (f : frame) (c : cause) : ostatus :=
    Some (st_internal (match f_verdict f SPreWriteReply with VPanic c' => c' | _ => c end)).

  (* context.go handleCall; [stat] is c.stat on entry, [h] is c.handler,
     [has_pc] = "c.pluginContainer is non-nil" (false only when binding never ran) *)
  Definition handle_call (f : frame) (stat : ostatus) (h : option hkind) (has_pc : bool)
    : list action :=
    if negb has_pc then
      (* the first hook call dereferences the nil container; the deferred
         recover writes c.stat (500 if it was still OK) once *)
      write_once f (if st_ok stat then Some (st_internal CLib) else stat)
    else if st_ok stat then
      match hook (f_verdict f SPostReadCallBody) with
      | HookPanic c => write_once f (Some (st_internal c))
      | HookVeto s => reply_path f (Some s)
      | HookOk =>
          match h with
          | None => reply_path f None       (* unreachable: OK stat implies a handler *)
          | Some k =>
              match f_handler f with
              | HPanic c => Invoke k :: write_once f (Some (st_internal c))
              | HEncodePanic c => Invoke k :: write_once f (encode_panic_status f c)
              | HReturn hs =>
                  Invoke k :: reply_path f (if st_ok hs then None else hs)
              end
          end
      end
    else reply_path f stat.

  (* context.go handlePush: never writes *)
  Definition handle_push (f : frame) (stat : ostatus) (h : option hkind) : list action :=
    match h with
    | Some k =>
        if st_ok stat then
          match hook (f_verdict f SPostReadPushBody) with
          | HookOk => [Invoke k]
          | _ => []          (* veto; a panic is recovered by handlePush *)
          end
        else []
    | None => []
    end.

  (* context.go handle: "c.stat.Code() == CodeMtypeNotAllowed" *)
  Definition is_not_allowed (stat : ostatus) : bool :=
    match stat with Some s => st_code s =? code_mtype_not_allowed | None => false end.

  (* context.go handle *)
  Definition handle (f : frame) (stat : ostatus) (h : option hkind) (has_pc : bool)
    : list action :=
    if is_not_allowed stat then [Disconnect]
    else match classify_type (f_type f) with
         | TReply => []                       (* handleReply with no call command *)
         | TPush => handle_push f stat h
         | TCall => handle_call f stat h has_pc
         | TOther => [Disconnect]
         end.

  (* after ReadMessage returned: the early-return rule, the spawn, handle *)
  Definition after_read (f : frame) (err : option bool) (stat : ostatus)
             (h : option hkind) (has_pc : bool) : list action :=
    let early := match err with Some false => true | _ => false end in
    if early || negb (f_goon f) then [Disconnect]
    else
      let stat' := match err with Some _ => Some (st_bad_message CLib) | None => stat end in
      if f_spawn_failed f then
        if pool_fix then
          match classify_type (f_type f) with
          | TPush => []                      (* only a PUSH is skipped *)
          | _ => handle f (if st_ok stat' then Some st_no_goroutine else stat') h has_pc
          end
        else match classify_type (f_type f) with TCall => [Drop] | _ => [] end
      else handle f stat' h has_pc.

  (* one iteration of session.go startReadAndHandle *)
  Definition dispatch (f : frame) : list action :=
    match f_verdict f SPreReadHeader with
    | VNil =>
        match f_read f with
        | RHeaderErr k => after_read f (Some k) None None false
        | RBody e =>
            match binding f with
            | BindPanic => [Disconnect]   (* recovered by the read loop's defer *)
            | Bound stat h body =>
                (* a body error needs a typed argument to decode into *)
                let e' := match h, body with Some HKnown, true => e | _, _ => None end in
                after_read f e' stat h true
            end
        end
    | _ => [Disconnect]
    end.
End Dispatch.

Definition dispatch_now := dispatch eff_write true.
(* the pinned tree: neither the context fix nor the pool fix *)
Definition dispatch_prefix := dispatch eff_write_prefix false.

(* ---- observation helpers ---- *)
Definition is_invoke (a : action) : bool := match a with Invoke _ => true | _ => false end.
Definition is_reply (a : action) : bool := match a with Reply _ _ => true | _ => false end.
Definition is_reply_seq (q : Z) (a : action) : bool :=
  match a with Reply s _ => s =? q | _ => false end.
Definition is_disc (a : action) : bool := match a with Disconnect => true | _ => false end.
Definition is_drop (a : action) : bool := match a with Drop => true | _ => false end.
Definition count (p : action -> bool) (l : list action) : nat := length (filter p l).

Definition reply_statuses (l : list action) : list ostatus :=
  flat_map (fun a => match a with Reply _ s => [s] | _ => [] end) l.

(* a frame whose stage verdicts come from plugin chains *)
Definition with_chains (f : frame) (ch : stage -> list verdict) : frame :=
  mkFrame (f_seq f) (f_type f) (f_sm_empty f) (f_route f) (f_read f)
          (fun s => stage_verdict (ch s)) (f_handler f) (f_w_ok f) (f_w_err1 f) (f_w_err2 f)
          (f_ctx_expired f) (f_spawn_failed f) (f_goon f).
