(* proto/thriftproto/binary_proto.go (binaryPack, binaryUnpack, writeMessageBegin,
   readMessageBegin, BaseTTransport.Read) and struct_proto.go (structPack, structUnpack),
   with utils/rw_counter.go feeding Size(). Field exact: the THeader protocol of the thrift
   library (frame = size word, header with the info key/values, binary-protocol message
   begin, content) is the pair of section variables [th_frame] / [th_read] over the record
   [thdr] of what the repository hands to / takes from it; the framing contract is stated
   where it is used. Concrete here: the message-type mapping, which headers carry which
   field and how (Tp-Status, Tp-Meta, Tp-BodyCodec as string(rune(codec)), Tp-XferPipe), the
   pipe on the body, the struct protocol's restrictions, and the counters: the write counter
   is zeroed before a frame is written and the size set on the message is what was written
   since; the read counter is zeroed before a frame is read, the transport delivers no byte
   beyond the end of the frame (/repo 809631b), so the size is the frame's byte length. *)
From Coq Require Import Strings.String Strings.Byte.
From Coq Require Import List Arith NArith ZArith Bool Lia.
From Verif Require Import Base.Bytes Base.Outcome Model.Quote Model.Args Model.Numfmt
  Model.StatusQuery Model.Xfer Model.RawProto.
Import ListNotations.
Local Open Scope N_scope.

(* what goes through the THeader protocol for one message *)
Record thdr := mkThdr {
  th_method : bytes;
  th_type : N;                       (* thrift.TMessageType: CALL 1, REPLY 2, EXCEPTION 3, ONEWAY 4 *)
  th_seq : Z;
  th_headers : list (bytes * bytes); (* info headers (a Go map: keys distinct) *)
  th_struct : bool;                  (* content written as a struct (struct protocol) or WriteBinary *)
  th_body : bytes
}.

Definition H_status := str "Tp-Status".
Definition H_meta := str "Tp-Meta".
Definition H_codec := str "Tp-BodyCodec".
Definition H_xfer := str "Tp-XferPipe".

(* headers[key] of a Go map: the empty string when absent *)
Fixpoint hget (l : list (bytes * bytes)) (k : bytes) : bytes :=
  match l with
  | [] => []
  | (a, v) :: r => if bytes_eqb a k then v else hget r k
  end.

(* writeMessageBegin: any other message type leaves typeID at its zero value *)
Definition ttype_of (mt : byte) : N :=
  match b2n mt with 1 => 1 | 2 => 2 | 3 => 4 | _ => 0 end.

(* readMessageBegin: EXCEPTION is returned as an error, anything unknown is a PUSH *)
Definition mtype_of (t : N) : option byte :=
  match t with 1 => Some x01 | 2 => Some x02 | 4 => Some x03 | 3 => None | _ => Some x03 end.

(* string(codec): the UTF-8 encoding of the rune codec *)
Definition rune_string (c : byte) : bytes :=
  let n := b2n c in
  if n <? 128 then [c] else [n2b (192 + n / 64); n2b (128 + n mod 64)].

Definition codec_t : byte := "t"%byte.   (* codec.ID_THRIFT *)

Section Thrift.
  Variable th_frame : thdr -> bytes.
  Variable th_read : bytes -> res (thdr * bytes).

  (* ---- thrift-binary ---- *)
  Definition bin_thdr (p : list filter) (m : msg) (body : bytes) : thdr :=
    mkThdr (m_method m) (ttype_of (m_mtype m)) (m_seq m)
           [(H_status, status_encode (m_status m)); (H_meta, args_encode (m_meta m));
            (H_codec, rune_string (m_codec m)); (H_xfer, pipe_ids p)]
           false body.

  (* [PackWrote]: the frame is on the wire although Pack returns the size error *)
  Inductive packres := PackOk (f : bytes) (size : N) | PackErr | PackWrote (f : bytes).

  Definition size_check (lim : N) (f : bytes) : packres :=
    let n := blen f mod 4294967296 in
    if lim <? n then PackWrote f else PackOk f n.

  Definition bin_pack (lim : N) (p : list filter) (m : msg) : packres :=
    match pipe_pack p (m_body m) with
    | None => PackErr
    | Some body => size_check lim (th_frame (bin_thdr p m body))
    end.

  (* bytes consumed from the stream [s] when [rest] is left *)
  Definition consumed (s rest : bytes) : N := (blen s - blen rest) mod 4294967296.

  Definition bin_unpack (reg : registry) (lim : N) (s : bytes)
    : res (msg * list byte * N * bytes) :=
    '(x, rest) <- th_read s ;;
    mt <- of_option (mtype_of (th_type x)) ;;
    if th_struct x then Err
    else
      st <- status_decode (hget (th_headers x) H_status) ;;
      meta <- args_parse (hget (th_headers x) H_meta) ;;
      let codec := match hget (th_headers x) H_codec with [] => x00 | c :: _ => c end in
      match pipe_append reg [] (hget (th_headers x) H_xfer) with
      | (_, Some _) => Err
      | (p, None) =>
          body <- of_option (pipe_unpack p (th_body x)) ;;
          let size := consumed s rest in
          if lim <? size then Err
          else Ok (mkMsg (th_seq x) mt (th_method x) st meta codec body, pipe_ids p, size, rest)
      end.

  (* ---- thrift-struct: no pipe, codec thrift only (0 is replaced by it), body written as a
          struct; only Tp-Status and Tp-Meta travel ---- *)
  Definition struct_thdr (m : msg) : thdr :=
    mkThdr (m_method m) (ttype_of (m_mtype m)) (m_seq m)
           [(H_status, status_encode (m_status m)); (H_meta, args_encode (m_meta m))]
           true (m_body m).

  Definition struct_pack (lim : N) (p : list filter) (m : msg) : packres :=
    match p with
    | _ :: _ => PackErr
    | [] =>
        if beqb (m_codec m) x00 || beqb (m_codec m) codec_t
        then size_check lim (th_frame (struct_thdr m))
        else PackErr
    end.

  Definition struct_unpack (lim : N) (s : bytes) : res (msg * list byte * N * bytes) :=
    '(x, rest) <- th_read s ;;
    mt <- of_option (mtype_of (th_type x)) ;;
    if negb (th_struct x) then Err
    else
      st <- status_decode (hget (th_headers x) H_status) ;;
      meta <- args_parse (hget (th_headers x) H_meta) ;;
      let size := consumed s rest in
      if lim <? size then Err
      else Ok (mkMsg (th_seq x) mt (th_method x) st meta codec_t (th_body x), [], size, rest).
End Thrift.

(* ---- the code before 809631b: the header transport's read-ahead is counted; [ahead] is how
        many bytes beyond the frame its buffer pulled, given what follows the frame ---- *)
Section ThriftPrefix.
  Variable th_read : bytes -> res (thdr * bytes).
  Variable ahead : bytes -> N.

  Definition bin_unpack_size_prefix (s : bytes) : res N :=
    '(_, rest) <- th_read s ;; Ok (consumed s rest + ahead rest).
End ThriftPrefix.

(* ---- the code before 31634c9: Unpack zeroed the WRITE counter, so the read counter kept
        growing: the size reported for the i-th frame was the total read so far ---- *)
Fixpoint sizes_cumulative (acc : N) (frames : list bytes) : list N :=
  match frames with
  | [] => []
  | f :: r => (acc + blen f) :: sizes_cumulative (acc + blen f) r
  end.

(* ---- utils/rw_counter.go as shared state of ONE protocol object used full duplex ----
   Pack (under packLock) and Unpack (under unpackLock) run concurrently on one
   ReadWriteCounter: the events of a Pack may fall anywhere between the events of an Unpack.
   binaryPack / structPack: WriteCounter.Zero, then the frame's bytes go through Write;
   binaryUnpack / structUnpack: ReadCounter.Zero, then every Read adds what it delivered. *)
Record ctr := mkCtr { c_read : N; c_written : N }.

Inductive cev :=
| EvZeroR              (* ReadCounter.Zero  *)
| EvZeroW              (* WriteCounter.Zero *)
| EvZeroBoth           (* ReadWriteCounter.Zero: not called by the protocols *)
| EvRead (n : N)       (* ReadCounter.Read delivered n bytes *)
| EvWrite (n : N).     (* WriteCounter.Write wrote n bytes *)

Definition cstep (c : ctr) (e : cev) : ctr :=
  match e with
  | EvZeroR => mkCtr 0 (c_written c)
  | EvZeroW => mkCtr (c_read c) 0
  | EvZeroBoth => mkCtr 0 0
  | EvRead n => mkCtr (c_read c + n) (c_written c)
  | EvWrite n => mkCtr (c_read c) (c_written c + n)
  end.

Definition crun (c : ctr) (evs : list cev) : ctr := fold_left cstep evs c.

(* the events of the reading side / of the writing side *)
Definition is_rd (e : cev) : bool := match e with EvZeroR | EvRead _ => true | _ => false end.
Definition is_wr (e : cev) : bool := match e with EvZeroW | EvWrite _ => true | _ => false end.

(* Unpack of a frame delivered in reads of the given sizes; Pack of a frame *)
Definition unpack_events (reads : list N) : list cev := EvZeroR :: map EvRead reads.
Definition pack_events (len : N) : list cev := [EvZeroW; EvWrite len].

Fixpoint sumN (l : list N) : N := match l with [] => 0 | x :: r => x + sumN r end.

(* ---- both counters, both reset sites, both size sites: Pack and Unpack of ONE protocol
        object as two sequential programs over the shared ReadWriteCounter, interleaved ----
   binary_proto.go binaryPack:   t.rwCounter.WriteCounter.Zero() ... Write* ... SetSize(Writed())
   binary_proto.go binaryUnpack: t.rwCounter.ReadCounter.Zero()  ... Read*  ... SetSize(Readed())
   struct_proto.go structPack / structUnpack: the same two sites on the same counter type.
   Which counter(s) a reset site zeroes is a parameter ([sites]) so that the variants that
   share a zero (ReadWriteCounter.Zero on one side, or the other side's counter) are
   expressible and refutable. *)
Inductive zkind := ZR | ZW | ZB.   (* ReadCounter.Zero | WriteCounter.Zero | ReadWriteCounter.Zero *)

Record sites := mkSites { pack_zero : zkind; unpack_zero : zkind }.

Definition bin_sites : sites := mkSites ZW ZR.      (* binaryPack, binaryUnpack *)
Definition struct_sites : sites := mkSites ZW ZR.   (* structPack, structUnpack *)

Definition zev (k : zkind) : cev :=
  match k with ZR => EvZeroR | ZW => EvZeroW | ZB => EvZeroBoth end.

Inductive xev :=
| XPackBegin             (* Pack reaches its reset site *)
| XWrite (n : N)         (* one Write of n bytes of the frame went through the counter *)
| XPackEnd               (* Pack reads the write counter: m.SetSize(uint32(Writed())) *)
| XUnpackBegin           (* Unpack reaches its reset site *)
| XRead (n : N)          (* one Read delivered n bytes through the counter *)
| XUnpackEnd.            (* Unpack reads the read counter: m.SetSize(uint32(Readed())) *)

Inductive xobs := OPacked (size : N) | OUnpacked (size : N).

Definition u32 (n : N) : N := n mod 4294967296.

Definition xstep (s : sites) (c : ctr) (e : xev) : ctr * list xobs :=
  match e with
  | XPackBegin => (cstep c (zev (pack_zero s)), [])
  | XWrite n => (cstep c (EvWrite n), [])
  | XPackEnd => (c, [OPacked (u32 (c_written c))])
  | XUnpackBegin => (cstep c (zev (unpack_zero s)), [])
  | XRead n => (cstep c (EvRead n), [])
  | XUnpackEnd => (c, [OUnpacked (u32 (c_read c))])
  end.

Fixpoint xrun (s : sites) (c : ctr) (evs : list xev) : list xobs :=
  match evs with
  | [] => []
  | e :: r => let '(c', o) := xstep s c e in o ++ xrun s c' r
  end.

(* the events of the packing goroutine / of the unpacking goroutine *)
Definition pside (e : xev) : bool :=
  match e with XPackBegin | XWrite _ | XPackEnd => true | _ => false end.
Definition uside (e : xev) : bool := negb (pside e).

Definition is_opacked (o : xobs) : bool := match o with OPacked _ => true | _ => false end.
Definition is_ounpacked (o : xobs) : bool := negb (is_opacked o).

(* one whole Pack writing its frame in Writes of the given sizes; one whole Unpack *)
Definition pack_trace (ws : list N) : list xev := XPackBegin :: map XWrite ws ++ [XPackEnd].
Definition unpack_trace (rs : list N) : list xev := XUnpackBegin :: map XRead rs ++ [XUnpackEnd].

(* the property for one choice of reset sites: in EVERY interleaving of whole Packs with whole
   Unpacks, from every counter state, every packed / unpacked message is reported with the
   byte length of its own frame *)
Definition sizes_own (s : sites) : Prop :=
  forall evs c pf uf,
    List.filter pside evs = concat (map pack_trace pf) ->
    List.filter uside evs = concat (map unpack_trace uf) ->
    List.filter is_opacked (xrun s c evs) = map (fun ws => OPacked (u32 (sumN ws))) pf /\
    List.filter is_ounpacked (xrun s c evs) = map (fun rs => OUnpacked (u32 (sumN rs))) uf.
