(* proto/jsonproto/jsonproto.go (Pack, Unpack, escapeBody) and
   mixer/websocket/jsonSubProto/jsonSubProto.go (Pack, Unpack, escapeBody), byte exact.
   The service method is written like the body: '"' + escapeBody(name) + '"' (repaired code);
   the status query string and the metadata query string are written with strconv.Quote.
   The code before that repair (service method through strconv.Quote / %q) is kept as the
   [..._prefix] definitions.
   strconv.Quote is modelled concretely on ASCII bytes (maximal runs of non-ASCII bytes go
   through the section variable [quote_hi]: their rendering depends on UTF-8 validity and on
   the Unicode tables).  github.com/tidwall/gjson v1.2.2 (Get / parseObject / parseString /
   parseNumber / unescape / Result.String / Result.Int) is modelled concretely on the frame
   shape these protocols write; what gjson returns on any OTHER text is the section variable
   [gjson_other]. *)
From Coq Require Import Strings.String Strings.Byte.
From Coq Require Import List Arith NArith ZArith Bool Lia.
From Verif Require Import Base.Bytes Base.Val Base.Outcome Model.Quote Model.Args Model.Numfmt
  Model.StatusQuery Model.Xfer Model.RawProto.
Import ListNotations.
Local Open Scope N_scope.

Definition bsl : byte := x5c.   (* backslash *)
Definition dqt : byte := x22.   (* double quote *)

(* ---- writing ---- *)

(* strconv.Quote / appendEscapedRune for one ASCII byte (quote = double quote) *)
Definition goq_byte (c : byte) : bytes :=
  let n := b2n c in
  if n =? 34 then [bsl; dqt]
  else if n =? 92 then [bsl; bsl]
  else if n =? 7 then [bsl; "a"%byte]
  else if n =? 8 then [bsl; "b"%byte]
  else if n =? 12 then [bsl; "f"%byte]
  else if n =? 10 then [bsl; "n"%byte]
  else if n =? 13 then [bsl; "r"%byte]
  else if n =? 9 then [bsl; "t"%byte]
  else if n =? 11 then [bsl; "v"%byte]
  else if (n <? 32) || (n =? 127) then [bsl; "x"%byte; digit_char (n / 16); digit_char (n mod 16)]
  else [c].

(* escapeBody (repaired code): backslash, quote, control characters *)
Definition jesc_byte (c : byte) : bytes :=
  let n := b2n c in
  if (n =? 92) || (n =? 34) then [bsl; c]
  else if n <? 32 then [bsl; "u"%byte; "0"%byte; "0"%byte; digit_char (n / 16); digit_char (n mod 16)]
  else [c].

(* the code before the repair: bytes.Replace(body, dquote, backslash dquote) *)
Definition jesc_byte_v0 (c : byte) : bytes := if b2n c =? 34 then [bsl; c] else [c].
(* backslash and quote only (not enough either: control characters) *)
Definition jesc_byte_v1 (c : byte) : bytes :=
  if (b2n c =? 92) || (b2n c =? 34) then [bsl; c] else [c].

Definition L_seq := str "{""seq"":".
Definition L_mtype := str ",""mtype"":".
Definition L_method := str ",""serviceMethod"":".
Definition L_status := str ",""status"":".
Definition L_meta := str ",""meta"":".
Definition L_codec := str ",""bodyCodec"":".
Definition L_body := str ",""body"":".
Definition L_xfer := str ",""xferPipe"":".

Definition byte_z (c : byte) : Z := Z.of_N (b2n c).

(* json.Marshal([]int) *)
Fixpoint jints_tail (l : list byte) : bytes :=
  match l with
  | [] => []
  | c :: r => ","%byte :: format_int 10 (byte_z c) ++ jints_tail r
  end.
Definition jints (l : list byte) : bytes :=
  match l with
  | [] => str "[]"
  | c :: r => "["%byte :: format_int 10 (byte_z c) ++ jints_tail r ++ [ "]"%byte ]
  end.

(* results of the gjson.Get calls of Unpack *)
Record jraw := mkJraw {
  jr_seq : Z; jr_mtype : Z; jr_method : bytes; jr_status : bytes; jr_meta : bytes;
  jr_codec : Z; jr_body : bytes; jr_xfer : list Z
}.

Definition msg0 : msg := mkMsg 0 x00 [] status_zero [] x00 [].

(* ---- the framing jsonproto and pbproto share:
        {4-byte size}{pipe length}{pipe ids}{payload through the pipe} ---- *)

(* Pack, given the marshalled payload: frame and the size set on the message. A size above
   the limit is refused by SetSize (error ignored), Size() of the fresh message stays 0 and
   the write into the 4-byte buffer at index 4 panics. *)
Definition pfx_pack (lim : N) (p : list filter) (payload : bytes) : res (bytes * N) :=
  b <- of_option (pipe_pack p payload) ;;
  let ids := pipe_ids p in
  let size := (1 + blen ids + blen b) mod 4294967296 in
  if lim <? size then Panic
  else Ok (be_of_N 4 size ++ n2b (blen ids) :: ids ++ b, size).

(* Unpack from the head of the stream: message, pipe ids, size, rest; [parse] is what the
   protocol does with the payload. Where the code panics or fails depending on the capacity
   of a recycled buffer (pipe length beyond the frame) the model answers Err; both end the
   connection. A frame of size 0 is accepted as an empty message. *)
Definition pfx_unpack (parse : bytes -> res msg) (reg : registry) (lim : N) (s : bytes)
  : res (msg * list byte * N * bytes) :=
  '(b4, s) <- take 4 s ;;
  let size := N_of_be b4 in
  if lim <? size then Err
  else if size =? 0 then Ok (msg0, [], 0, s)
  else
    '(buf, s) <- take size s ;;
    match buf with
    | [] => Err
    | x :: d =>
        let xl := b2n x in
        payload <-
          (if xl =? 0 then Ok ([], d)
           else
             if blen d <? xl then Err
             else
               let ids := firstn (N.to_nat xl) d in
               match pipe_append reg [] ids with
               | (_, Some _) => Err
               | (p, None) =>
                   y <- of_option (pipe_unpack p (skipn (N.to_nat xl) d)) ;; Ok (pipe_ids p, y)
               end) ;;
        let '(ids, y) := payload in
        m <- parse y ;;
        Ok (m, ids, size, s)
    end.

(* XferPipe.Append called with one id at a time, stopping at the first error *)
Fixpoint append_each_err (reg : registry) (ids : list byte) (p : list filter) : option (list filter) :=
  match ids with
  | [] => Some p
  | id :: r => match pipe_append reg p [id] with
               | (p', None) => append_each_err reg r p'
               | (_, Some _) => None
               end
  end.

Section Json.
  Variable quote_hi : bytes -> bytes.
  Variable gjson_other : bytes -> jraw.

  Definition flush_hi (hi : bytes) : bytes :=
    match hi with [] => [] | _ => quote_hi (frev hi) end.

  (* [hi]: pending run of non-ASCII bytes, reversed *)
  Fixpoint goq_body (s : bytes) (hi : bytes) : bytes :=
    match s with
    | [] => flush_hi hi
    | c :: r =>
        if b2n c <? 128 then flush_hi hi ++ goq_byte c ++ goq_body r []
        else goq_body r (c :: hi)
    end.

  Definition go_quote (s : bytes) : bytes := dqt :: goq_body s [] ++ [dqt].

  (* the members shared by both JSON frames, up to and including the body string; [mq] writes
     the service method member *)
  Definition json_members_with (mq : bytes -> bytes) (esc : byte -> bytes) (m : msg) (body : bytes) : bytes :=
    L_seq ++ format_int 10 (m_seq m)
    ++ L_mtype ++ format_int 10 (byte_z (m_mtype m))
    ++ L_method ++ mq (m_method m)
    ++ L_status ++ go_quote (status_encode (m_status m))
    ++ L_meta ++ go_quote (args_encode (m_meta m))
    ++ L_codec ++ format_int 10 (byte_z (m_codec m))
    ++ L_body ++ dqt :: flat_map esc body ++ [dqt].

  (* '"' + escapeBody(s) + '"' *)
  Definition esc_str (esc : byte -> bytes) (s : bytes) : bytes := dqt :: flat_map esc s ++ [dqt].

  (* the repaired code: the service method through the same escape function as the body *)
  Definition json_members (esc : byte -> bytes) (m : msg) (body : bytes) : bytes :=
    json_members_with (esc_str esc) esc m body.

  (* before the repair: strconv.Quote(m.ServiceMethod()) / %q *)
  Definition json_members_prefix (esc : byte -> bytes) (m : msg) (body : bytes) : bytes :=
    json_members_with go_quote esc m body.
  Definition json_pack_prefix (esc : byte -> bytes) (lim : N) (p : list filter) (m : msg)
    : res (bytes * N) := pfx_pack lim p (json_members_prefix esc m (m_body m) ++ [ "}"%byte ]).

  Definition json_payload (esc : byte -> bytes) (m : msg) : bytes :=
    json_members esc m (m_body m) ++ [ "}"%byte ].

  (* jsonproto.Pack *)
  Definition json_pack (esc : byte -> bytes) (lim : N) (p : list filter) (m : msg)
    : res (bytes * N) := pfx_pack lim p (json_payload esc m).

  (* jsonSubProto.Pack: the pipe is applied to the body; SetSize's refusal is ignored *)
  Definition wsj_payload (esc : byte -> bytes) (ids : list byte) (m : msg) (body : bytes) : bytes :=
    json_members esc m body ++ L_xfer ++ jints ids ++ [ "}"%byte ].

  Definition sub_size (lim : N) (b : bytes) : N :=
    let n := blen b mod 4294967296 in if lim <? n then 0 else n.

  Definition wsj_pack (esc : byte -> bytes) (lim : N) (p : list filter) (m : msg)
    : res (bytes * N) :=
    body <- of_option (pipe_pack p (m_body m)) ;;
    let b := wsj_payload esc (pipe_ids p) m body in
    Ok (b, sub_size lim b).

  (* jsonSubProto.Pack before the repair (format with %q for the service method) *)
  Definition wsj_pack_prefix (esc : byte -> bytes) (lim : N) (p : list filter) (m : msg)
    : res (bytes * N) :=
    body <- of_option (pipe_pack p (m_body m)) ;;
    let b := json_members_prefix esc m body ++ L_xfer ++ jints (pipe_ids p) ++ [ "}"%byte ] in
    Ok (b, sub_size lim b).

  (* ---- reading: gjson on the written shape ---- *)

  Fixpoint strip (lit s : bytes) : option bytes :=
    match lit with
    | [] => Some s
    | a :: l => match s with
                | b :: r => if beqb a b then strip l r else None
                | [] => None
                end
    end.

  (* parseString: the closing quote is the first quote not consumed by a backslash.
     Returns the raw text between the quotes and what follows the closing quote. *)
  Fixpoint jstr_scan (s : bytes) (acc : bytes) : option (bytes * bytes) :=
    match s with
    | [] => None
    | c :: r =>
        if beqb c bsl then
          match r with
          | [] => None
          | d :: r' => jstr_scan r' (d :: c :: acc)
          end
        else if beqb c dqt then Some (frev acc, r)
        else jstr_scan r (c :: acc)
    end.

  Definition unesc_char (e : byte) : option byte :=
    let n := b2n e in
    if n =? 92 then Some bsl
    else if n =? 47 then Some "/"%byte
    else if n =? 98 then Some x08
    else if n =? 102 then Some x0c
    else if n =? 110 then Some x0a
    else if n =? 114 then Some x0d
    else if n =? 116 then Some x09
    else if n =? 34 then Some dqt
    else None.

  (* strconv.ParseUint(4 chars, 16, 64) with the error ignored: 0 on any non-hex char *)
  Definition hex4 (a b c d : byte) : N :=
    match hexdig a, hexdig b, hexdig c, hexdig d with
    | Some x, Some y, Some z, Some w => ((x * 16 + y) * 16 + z) * 16 + w
    | _, _, _, _ => 0
    end.

  (* unescape. A raw control character, an unknown escape or a cut \u sequence ends the
     string there. [None]: a \u escape of a rune >= 0x80 (UTF-8 encoding, surrogate pairs:
     not part of the written shape). *)
  Fixpoint junescape (s : bytes) : option bytes :=
    match s with
    | [] => Some []
    | c :: r =>
        if b2n c <? 32 then Some []
        else if beqb c bsl then
          match r with
          | [] => Some []
          | e :: r' =>
              match unesc_char e with
              | Some d => option_map (cons d) (junescape r')
              | None =>
                  if beqb e "u"%byte then
                    match r' with
                    | h1 :: h2 :: h3 :: h4 :: r'' =>
                        let n := hex4 h1 h2 h3 h4 in
                        if n <? 128 then option_map (cons (n2b n)) (junescape r'') else None
                    | _ => Some []
                    end
                  else Some []
              end
          end
        else option_map (cons c) (junescape r)
    end.

  Definition has_bsl (s : bytes) : bool := existsb (fun c => beqb c bsl) s.

  (* Result.String of a string value: unescaped only if an escape was seen *)
  Definition jstr_val (raw : bytes) : option bytes :=
    if has_bsl raw then junescape raw else Some raw.

  (* a quoted string member value *)
  Definition jstring (s : bytes) : option (bytes * bytes) :=
    match s with
    | c :: r =>
        if beqb c dqt then
          match jstr_scan r [] with
          | Some (raw, rest) =>
              match jstr_val raw with Some v => Some (v, rest) | None => None end
          | None => None
          end
        else None
    | [] => None
    end.

  (* parseNumber: up to a byte <= ' ', ',', ']' or '}' *)
  Definition num_delim (c : byte) : bool :=
    (b2n c <=? 32) || beqb c ","%byte || beqb c "]"%byte || beqb c "}"%byte.

  Fixpoint span_num (s : bytes) (acc : bytes) : bytes * bytes :=
    match s with
    | [] => (frev acc, [])
    | c :: r => if num_delim c then (frev acc, s) else span_num r (c :: acc)
    end.

  (* a number token of the written shape: an int32 in plain decimal, '-' or a digit first
     (gjson skips a leading '+'); Result.Int then yields that integer *)
  Definition num_tok (tok : bytes) : option Z :=
    match tok with
    | c :: _ =>
        if beqb c "+"%byte then None
        else match parse_int 10 tok with PVal z => Some z | _ => None end
    | [] => None
    end.

  Definition jnum (s : bytes) : option (Z * bytes) :=
    let '(tok, rest) := span_num s [] in
    match num_tok tok with Some z => Some (z, rest) | None => None end.

  (* Result.Array of [n,n,...] *)
  Fixpoint jarr_scan (s : bytes) (cur : bytes) (acc : list bytes) : option (list bytes * bytes) :=
    match s with
    | [] => None
    | c :: r =>
        if beqb c "]"%byte then Some (frev (frev cur :: acc), r)
        else if beqb c ","%byte then jarr_scan r [] (frev cur :: acc)
        else jarr_scan r (c :: cur) acc
    end.

  Fixpoint num_toks (l : list bytes) : option (list Z) :=
    match l with
    | [] => Some []
    | t :: r => match num_tok t, num_toks r with
                | Some z, Some zs => Some (z :: zs)
                | _, _ => None
                end
    end.

  Definition jarray (s : bytes) : option (list Z * bytes) :=
    match s with
    | c :: r =>
        if beqb c "["%byte then
          match jarr_scan r [] [] with
          | Some ([[]], rest) => Some ([], rest)
          | Some (toks, rest) =>
              match num_toks toks with Some zs => Some (zs, rest) | None => None end
          | None => None
          end
        else None
    | [] => None
    end.

  Definition obind {A B} (o : option A) (f : A -> option B) : option B :=
    match o with Some a => f a | None => None end.

  (* the seven members both frames start with *)
  Definition parse_members (s : bytes) : option (jraw * bytes) :=
    obind (strip L_seq s) (fun s =>
    obind (jnum s) (fun '(seq, s) =>
    obind (strip L_mtype s) (fun s =>
    obind (jnum s) (fun '(mt, s) =>
    obind (strip L_method s) (fun s =>
    obind (jstring s) (fun '(meth, s) =>
    obind (strip L_status s) (fun s =>
    obind (jstring s) (fun '(st, s) =>
    obind (strip L_meta s) (fun s =>
    obind (jstring s) (fun '(meta, s) =>
    obind (strip L_codec s) (fun s =>
    obind (jnum s) (fun '(codec, s) =>
    obind (strip L_body s) (fun s =>
    obind (jstring s) (fun '(body, s) =>
    Some (mkJraw seq mt meth st meta codec body [], s))))))))))))))).

  Definition parse_json (s : bytes) : option jraw :=
    match parse_members s with
    | Some (j, [c]) => if beqb c "}"%byte then Some j else None
    | _ => None
    end.

  Definition parse_wsj (s : bytes) : option jraw :=
    obind (parse_members s) (fun '(j, s) =>
    obind (strip L_xfer s) (fun s =>
    obind (jarray s) (fun '(zs, s) =>
    match s with
    | [c] => if beqb c "}"%byte then
               Some (mkJraw (jr_seq j) (jr_mtype j) (jr_method j) (jr_status j) (jr_meta j)
                            (jr_codec j) (jr_body j) zs)
             else None
    | _ => None
    end))).

  Definition gjson_json (s : bytes) : jraw :=
    match parse_json s with Some j => j | None => gjson_other s end.
  Definition gjson_wsj (s : bytes) : jraw :=
    match parse_wsj s with Some j => j | None => gjson_other s end.

  (* int32(x) and byte(x) of an int64 *)
  Definition wrap32 (z : Z) : Z := ((z + 2147483648) mod 4294967296 - 2147483648)%Z.
  Definition wrap8 (z : Z) : byte := n2b (Z.to_N (z mod 256)%Z).

  (* the header setters after the gjson calls; DecodeQuery / ParseBytes may panic on %FF *)
  Definition msg_of_jraw (j : jraw) (body : bytes) : res msg :=
    st <- status_decode (jr_status j) ;;
    meta <- args_parse (jr_meta j) ;;
    Ok (mkMsg (wrap32 (jr_seq j)) (wrap8 (jr_mtype j)) (jr_method j) st meta
              (wrap8 (jr_codec j)) body).

  (* jsonproto.Unpack: the gjson calls and the header setters on the payload *)
  Definition json_parse (y : bytes) : res msg :=
    let j := gjson_json y in msg_of_jraw j (jr_body j).
  Definition json_unpack (reg : registry) (lim : N) (s : bytes)
    : res (msg * list byte * N * bytes) := pfx_unpack json_parse reg lim s.

  (* jsonSubProto.Unpack of ONE websocket message [b] (ioutil.ReadAll of the message): the
     pipe ids are appended one at a time and the first Append error refuses the frame
     (/repo d626566; before, the error was ignored) *)
  Definition wsj_unpack (reg : registry) (lim : N) (b : bytes) : res (msg * list byte * N) :=
    let j := gjson_wsj b in
    p <- of_option (append_each_err reg (map wrap8 (jr_xfer j)) []) ;;
    body <- of_option (pipe_unpack p (jr_body j)) ;;
    m <- msg_of_jraw j body ;;
    Ok (m, pipe_ids p, sub_size lim b).
End Json.

(* guard of the round trip BEFORE the repair of the service method member (and what the status
   and metadata query strings, still written with strconv.Quote, consist of): bytes that
   strconv.Quote writes in a form JSON (gjson) reads back: printable ASCII and \b \f \n \r \t *)
Definition json_safe (c : byte) : bool :=
  let n := b2n c in
  ((32 <=? n) && (n <=? 126)) || (n =? 8) || (n =? 12) || (n =? 10) || (n =? 13) || (n =? 9).
