(* Model of plugin/overloader/qpslimiter.go: the token bucket with take (load, then
   add) and updateToken (load, then store / compare-and-swap) as separate atomic steps
   of any number of threads, configuration updates as environment events; and of the
   hook Overloader.PostReadCallHeader / PostReadPushHeader with what context.go does
   with its verdict.  Definitions only.  Integers are Z (Go int32). *)
From Coq Require Import Strings.String Strings.Byte.
From Coq Require Import List Arith NArith ZArith Bool Lia.
From Verif Require Import Base.Bytes Model.Threads.
Import ListNotations.
Local Open Scope Z_scope.

(* type qpsLimiter struct { limit, tokens, once int32; ... } *)
Record bucket := mkB { b_tokens : Z; b_limit : Z; b_once : Z }.

(* newQPSLimiter / update: once := maxQPS / int32(time.Second/qpsInterval); 0 -> 1.
   None = Go panics (integer divide by zero: interval 0 or longer than one second). *)
Definition once_of (maxQPS interval_ns : Z) : option Z :=
  if interval_ns <=? 0 then None
  else
    let d := 1000000000 / interval_ns in
    if d =? 0 then None
    else let o := maxQPS / d in Some (if o =? 0 then 1 else o).

(* the value updateToken computes from the loaded token count *)
Definition refill_value (b : bucket) (v : Z) : Z :=
  if v <? 0 then b_once b
  else if b_limit b <? v + b_once b then b_limit b
  else v + b_once b.

(* sequential semantics *)
Definition b_take (b : bucket) : bucket * bool :=
  if b_tokens b <=? 0 then (b, false)
  else (mkB (b_tokens b - 1) (b_limit b) (b_once b), 0 <=? b_tokens b - 1).
Definition b_tick (b : bucket) : bucket :=
  mkB (refill_value b (b_tokens b)) (b_limit b) (b_once b).

(* ---- interleaving semantics ---- *)
Inductive tpc :=
| QIdle
| QTakeLoaded                       (* take: LoadInt32(&tokens) > 0 seen *)
| QTickLoaded (v v' o g : Z).       (* updateToken: loaded v, computed v' with once = o;
                                       g (history variable): takes admitted since the load *)

(* q_adm, q_refill, q_ticks, q_slack, q_cap are history variables: takes admitted,
   sum of the refill amounts (once) of completed ticks, number of completed ticks,
   sum of g over completed ticks, largest limit configured so far. *)
Record qstate := mkQ {
  q_b : bucket; q_th : list tpc;
  q_adm : Z; q_refill : Z; q_ticks : Z; q_slack : Z; q_cap : Z }.

Inductive qev :=
| QTake (i : nat) | QTick (i : nat) | QStep (i : nat)
| QSetLimit (l : Z) | QSetOnce (o : Z).
Inductive qobs := QONone | QOTake (b : bool) | QOTick.

Definition qinit (limit once : Z) : qstate := mkQ (mkB limit limit once) [] 0 0 0 0 limit.

Definition bump (p : tpc) : tpc :=
  match p with QTickLoaded v v' o g => QTickLoaded v v' o (g + 1) | _ => p end.

(* [cas = false]: the pinned updateToken (atomic.StoreInt32 after the gate);
   [cas = true]: the repaired one (CompareAndSwapInt32; on failure load again). *)
Definition qstep (cas : bool) (s : qstate) (e : qev) : option (qstate * qobs) :=
  let b := q_b s in
  match e with
  | QTake i =>
      match getn QIdle i (q_th s) with
      | QIdle =>
          if b_tokens b <=? 0 then Some (s, QOTake false)
          else Some (mkQ b (upd QIdle i QTakeLoaded (q_th s))
                         (q_adm s) (q_refill s) (q_ticks s) (q_slack s) (q_cap s), QONone)
      | _ => None
      end
  | QTick i =>
      match getn QIdle i (q_th s) with
      | QIdle =>
          let v := b_tokens b in
          Some (mkQ b (upd QIdle i (QTickLoaded v (refill_value b v) (b_once b) 0) (q_th s))
                    (q_adm s) (q_refill s) (q_ticks s) (q_slack s) (q_cap s), QONone)
      | _ => None
      end
  | QStep i =>
      match getn QIdle i (q_th s) with
      | QIdle => None
      | QTakeLoaded =>
          (* atomic.AddInt32(&q.tokens, -1) >= 0 *)
          let t := b_tokens b - 1 in
          let ok := 0 <=? t in
          let th := upd QIdle i QIdle (q_th s) in
          Some (mkQ (mkB t (b_limit b) (b_once b))
                    (if ok then map bump th else th)
                    (q_adm s + (if ok then 1 else 0)) (q_refill s) (q_ticks s) (q_slack s) (q_cap s),
                QOTake ok)
      | QTickLoaded v v' o g =>
          if cas && negb (b_tokens b =? v) then
            (* CompareAndSwap failed: loop, load again *)
            let w := b_tokens b in
            Some (mkQ b (upd QIdle i (QTickLoaded w (refill_value b w) (b_once b) 0) (q_th s))
                      (q_adm s) (q_refill s) (q_ticks s) (q_slack s) (q_cap s), QONone)
          else
            Some (mkQ (mkB v' (b_limit b) (b_once b)) (upd QIdle i QIdle (q_th s))
                      (q_adm s) (q_refill s + o) (q_ticks s + 1) (q_slack s + g) (q_cap s), QOTick)
      end
  | QSetLimit l =>
      (* update: q.limit = maxQPS *)
      Some (mkQ (mkB (b_tokens b) l (b_once b)) (q_th s)
                (q_adm s) (q_refill s) (q_ticks s) (q_slack s) (Z.max (q_cap s) l), QONone)
  | QSetOnce o =>
      (* update: q.once = once, computed from the limit just stored: 1 <= once <= limit *)
      if (0 <? o) && (o <=? b_limit b) then
        Some (mkQ (mkB (b_tokens b) (b_limit b) o) (q_th s)
                  (q_adm s) (q_refill s) (q_ticks s) (q_slack s) (q_cap s), QONone)
      else None
  end.

Fixpoint qrun (cas : bool) (s : qstate) (tr : list qev) : option (qstate * list qobs) :=
  match tr with
  | [] => Some (s, [])
  | e :: r =>
      match qstep cas s e with
      | Some (s1, o) =>
          match qrun cas s1 r with
          | Some (s2, os) => Some (s2, o :: os)
          | None => None
          end
      | None => None
      end
  end.

Definition is_set (e : qev) : bool :=
  match e with QSetLimit _ | QSetOnce _ => true | _ => false end.

Fixpoint count_admitted (os : list qobs) : Z :=
  match os with
  | [] => 0
  | QOTake true :: r => 1 + count_admitted r
  | _ :: r => count_admitted r
  end.
Fixpoint count_ticks (os : list qobs) : Z :=
  match os with
  | [] => 0
  | QOTick :: r => 1 + count_ticks r
  | _ :: r => count_ticks r
  end.

(* ---- the hook: overloader.go PostReadCallHeader (PostReadPushHeader calls it) ----
   takeTotalQPS first; only if it passes, takeHandlerQPS for the service method.
   A limiter that is not configured (nil / no map entry) always passes. *)
Inductive verdict := VPass | VReject (code : Z).

Definition opt_take (ob : option bucket) : option bucket * bool :=
  match ob with
  | None => (None, true)
  | Some b => let '(b', ok) := b_take b in (Some b', ok)
  end.

Definition post_read_header (total handler : option bucket)
  : verdict * option bucket * option bucket :=
  let '(total', ok1) := opt_take total in
  if ok1 then
    let '(handler', ok2) := opt_take handler in
    (if ok2 then VPass else VReject 500, total', handler')
  else (VReject 500, total', handler).

(* context.go bindCall + handleCall: a non-OK status from postReadCallHeader leaves
   c.handler nil, the handler is not run and writeReply sends the status;
   bindPush + handlePush: the handler is not run and nothing is sent. *)
Inductive outcome := HandlerRuns | ErrorReply (code : Z) | Dropped.
Definition call_outcome (v : verdict) : outcome :=
  match v with VPass => HandlerRuns | VReject c => ErrorReply c end.
Definition push_outcome (v : verdict) : outcome :=
  match v with VPass => HandlerRuns | VReject _ => Dropped end.

(* ---- one ticker goroutine (the configuration of the code as long as the interval is
        not changed): a tick starts only when no updateToken is in progress ---- *)
Definition is_loaded (p : tpc) : Z := match p with QTickLoaded _ _ _ _ => 1 | _ => 0 end.

Definition one_ticker (s : qstate) (e : qev) : bool :=
  match e with
  | QTick _ => sumz is_loaded (q_th s) =? 0
  | _ => true
  end.

Fixpoint qrun1 (cas : bool) (s : qstate) (tr : list qev) : option (qstate * list qobs) :=
  match tr with
  | [] => Some (s, [])
  | e :: r =>
      if one_ticker s e then
        match qstep cas s e with
        | Some (s1, o) =>
            match qrun1 cas s1 r with
            | Some (s2, os) => Some (s2, o :: os)
            | None => None
            end
        | None => None
        end
      else None
  end.

(* ---- refill sources: the ticker goroutines of ONE limiter (qpslimiter.go
        newQPSLimiter / update / startTicker / stopTicker) ----
   Every element of k_tickers is one goroutine sitting in startTicker's
   [for range ticker.C]; the head is q.ticker.  time.Ticker.Stop does not close the
   channel, so the goroutine of a stopped ticker stays blocked for ever (a goroutine
   leak) but calls updateToken no more: only FIRING tickers refill. *)
Record ticker := mkT { t_period : Z; t_firing : bool }.
Record kstate := mkK { k_limit : Z; k_interval : Z; k_tickers : list ticker }.

Definition kinit (l iv : Z) : kstate := mkK l iv [mkT iv true].

Definition stop_head (ts : list ticker) : list ticker :=
  match ts with
  | [] => []
  | t :: r => mkT (t_period t) false :: r
  end.

(* update(maxQPS, qpsInterval): nothing when both are unchanged; limit/once stored;
   on an interval change: q.stopTicker(); q.ticker = time.NewTicker; go q.startTicker.
   [stops = false] is the variant without the stopTicker call. *)
Definition kupdate (stops : bool) (s : kstate) (l iv : Z) : kstate :=
  if (l =? k_limit s) && (iv =? k_interval s) then s
  else if iv =? k_interval s then mkK l iv (k_tickers s)
  else mkK l iv (mkT iv true :: (if stops then stop_head (k_tickers s) else k_tickers s)).

Fixpoint kupdates (stops : bool) (s : kstate) (us : list (Z * Z)) : kstate :=
  match us with
  | [] => s
  | (l, iv) :: r => kupdates stops (kupdate stops s l iv) r
  end.

Definition firing_of (t : ticker) : Z := if t_firing t then 1 else 0.
Definition firing (s : kstate) : Z := sumz firing_of (k_tickers s).
Definition goroutines (s : kstate) : Z := Z.of_nat (length (k_tickers s)).

(* upper bound on the updateToken calls in a wall-clock window of length w (same unit as
   the periods): a firing ticker of period p fires at most w / p + 1 times *)
Definition fires_of (w : Z) (t : ticker) : Z := if t_firing t then w / t_period t + 1 else 0.
Definition fires_in (w : Z) (s : kstate) : Z := sumz (fires_of w) (k_tickers s).

(* number of updates of the sequence that change the interval *)
Fixpoint interval_changes (cur_l cur_iv : Z) (us : list (Z * Z)) : Z :=
  match us with
  | [] => 0
  | (l, iv) :: r => (if iv =? cur_iv then 0 else 1) + interval_changes l iv r
  end.

(* ---- Overloader.Update on a rate limiter pointer ----
   overloader.go updateTotalQPSLimiter: MaxTotalQPS <= 0 -> totalQPSLimiter = nil;
   nil -> newQPSLimiter(max, interval) (a FRESH bucket: tokens = limit = max);
   otherwise qpsLimiter.update(max, interval): limit and once are stored, the tokens are
   NOT touched (and nothing at all happens when both values are unchanged).
   updateHandlerLimiter does the same per service method (an entry missing from the new
   configuration is deleted; maxq <= 0 stands for "missing" here).
   None = Go panics (once_of: interval 0 or above one second). *)
Definition ov_update (cur : option bucket) (maxq interval_ns : Z) : option (option bucket) :=
  if maxq <=? 0 then Some None
  else match once_of maxq interval_ns with
       | None => None
       | Some o => Some (Some (match cur with
                               | None => mkB maxq maxq o
                               | Some b => mkB (b_tokens b) maxq o
                               end))
       end.
