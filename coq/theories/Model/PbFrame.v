(* proto/pbproto/pbproto.go (Pack, Unpack) and the proto3 wire encoding of its fixed payload
   message (pb/payload.proto: int32 seq=1, int32 mtype=2, string serviceMethod=3,
   bytes status=4, bytes meta=5, int32 bodyCodec=6, bytes body=7), byte exact:
   varints (a negative int32 is sign-extended to 64 bits: 10 bytes), default-valued fields
   omitted, length-delimited strings/bytes, fields in field-number order.
   The same codec with another field table serves mixer/websocket/pbSubProto (Model/WsFrames.v).
   [strict] distinguishes the two runtimes that decode: true = golang/protobuf 1.4 over
   google.golang.org/protobuf (pbproto's payload: proto3 strings must be valid UTF-8 in both
   directions, a known field with another wire type is skipped as unknown, the tenth byte of
   a varint must be 0 or 1); false = the gogo-generated Unmarshal of pbSubProto (no UTF-8
   check, wrong wire type is an error, excess bits of the tenth byte are dropped).
   Groups (wire type 3) are skipped by library code: section variable [skip_group]. *)
From Coq Require Import Strings.String Strings.Byte.
From Coq Require Import List Arith NArith ZArith Bool Lia.
From Verif Require Import Base.Bytes Base.Outcome Model.Quote Model.Args Model.Numfmt
  Model.StatusQuery Model.Xfer Model.RawProto Model.JsonFrame.
Import ListNotations.
Local Open Scope N_scope.

(* ---- unicode/utf8.Valid ---- *)
Definition in_rng (c : byte) (lo hi : N) : bool := (lo <=? b2n c) && (b2n c <=? hi).
Definition cont (c : byte) : bool := in_rng c 128 191.

Fixpoint utf8_valid (s : bytes) : bool :=
  match s with
  | [] => true
  | c :: r =>
      let n := b2n c in
      if n <? 128 then utf8_valid r
      else if in_rng c 194 223 then
        match r with c1 :: r1 => cont c1 && utf8_valid r1 | _ => false end
      else if in_rng c 224 239 then
        match r with
        | c1 :: c2 :: r2 =>
            (if n =? 224 then in_rng c1 160 191
             else if n =? 237 then in_rng c1 128 159
             else cont c1) && cont c2 && utf8_valid r2
        | _ => false
        end
      else if in_rng c 240 244 then
        match r with
        | c1 :: c2 :: c3 :: r3 =>
            (if n =? 240 then in_rng c1 144 191
             else if n =? 244 then in_rng c1 128 143
             else cont c1) && cont c2 && cont c3 && utf8_valid r3
        | _ => false
        end
      else false
  end.

(* ---- writing ---- *)
Fixpoint varint_fuel (fuel : nat) (n : N) : bytes :=
  match fuel with
  | O => []
  | S f => if n <? 128 then [n2b n] else n2b (128 + n mod 128) :: varint_fuel f (n / 128)
  end.
Definition varint (n : N) : bytes := varint_fuel 10 n.

(* uint64(int64(int32 value)) *)
Definition u64_of_z (z : Z) : N := Z.to_N (z mod 18446744073709551616)%Z.

Definition vfield (tag : byte) (z : Z) : bytes :=
  if (z =? 0)%Z then [] else tag :: varint (u64_of_z z).
Definition bfield (tag : byte) (b : bytes) : bytes :=
  match b with [] => [] | _ => tag :: varint (blen b) ++ b end.

Definition pb_payload (m : msg) : bytes :=
  vfield x08 (m_seq m) ++ vfield x10 (byte_z (m_mtype m)) ++ bfield x1a (m_method m)
  ++ bfield x22 (status_encode (m_status m)) ++ bfield x2a (args_encode (m_meta m))
  ++ vfield x30 (byte_z (m_codec m)) ++ bfield x3a (m_body m).

(* ---- reading ---- *)
Inductive slot := SSeq | SMtype | SMethod | SStatus | SMeta | SCodec | SBody | SXfer.

Record pbraw := mkPbraw {
  pr_seq : Z; pr_mtype : Z; pr_method : bytes; pr_status : bytes; pr_meta : bytes;
  pr_codec : Z; pr_body : bytes; pr_xfer : bytes
}.
Definition pbraw0 : pbraw := mkPbraw 0 0 [] [] [] 0 [] [].

Definition is_var (s : slot) : bool :=
  match s with SSeq | SMtype | SCodec => true | _ => false end.

(* int32(uint64) *)
Definition i32_of_u64 (n : N) : Z := wrap32 (Z.of_N n).

Definition set_var (s : slot) (v : N) (r : pbraw) : pbraw :=
  let z := i32_of_u64 v in
  match s with
  | SSeq => mkPbraw z (pr_mtype r) (pr_method r) (pr_status r) (pr_meta r) (pr_codec r) (pr_body r) (pr_xfer r)
  | SMtype => mkPbraw (pr_seq r) z (pr_method r) (pr_status r) (pr_meta r) (pr_codec r) (pr_body r) (pr_xfer r)
  | SCodec => mkPbraw (pr_seq r) (pr_mtype r) (pr_method r) (pr_status r) (pr_meta r) z (pr_body r) (pr_xfer r)
  | _ => r
  end.

Definition set_len (s : slot) (b : bytes) (r : pbraw) : pbraw :=
  match s with
  | SMethod => mkPbraw (pr_seq r) (pr_mtype r) b (pr_status r) (pr_meta r) (pr_codec r) (pr_body r) (pr_xfer r)
  | SStatus => mkPbraw (pr_seq r) (pr_mtype r) (pr_method r) b (pr_meta r) (pr_codec r) (pr_body r) (pr_xfer r)
  | SMeta => mkPbraw (pr_seq r) (pr_mtype r) (pr_method r) (pr_status r) b (pr_codec r) (pr_body r) (pr_xfer r)
  | SBody => mkPbraw (pr_seq r) (pr_mtype r) (pr_method r) (pr_status r) (pr_meta r) (pr_codec r) b (pr_xfer r)
  | SXfer => mkPbraw (pr_seq r) (pr_mtype r) (pr_method r) (pr_status r) (pr_meta r) (pr_codec r) (pr_body r) b
  | _ => r
  end.

(* field table of proto/pbproto/pb/payload.proto *)
Definition schema_pb (f : N) : option slot :=
  match f with
  | 1 => Some SSeq | 2 => Some SMtype | 3 => Some SMethod | 4 => Some SStatus
  | 5 => Some SMeta | 6 => Some SCodec | 7 => Some SBody | _ => None
  end.

(* slicing with a returned error when the input is too short *)
Definition cut_err (n : N) (d : bytes) : res (bytes * bytes) :=
  if blen d <? n then Err else Ok (firstn (N.to_nat n) d, skipn (N.to_nat n) d).

Section Pb.
  Variable strict : bool.
  Variable skip_group : bytes -> res bytes.
  Variable schema : N -> option slot.

  (* [k]: index of the byte being read (0..9) *)
  Fixpoint read_varint_at (fuel : nat) (k : N) (s : bytes) (acc : N) : res (N * bytes) :=
    match fuel with
    | O => Err
    | S f =>
        match s with
        | [] => Err
        | c :: r =>
            let n := b2n c in
            let acc' := acc + (n mod 128) * 2 ^ (7 * k) in
            if n <? 128 then
              if strict && (k =? 9) && (1 <? n) then Err
              else Ok (acc' mod 18446744073709551616, r)
            else read_varint_at f (k + 1) r acc'
        end
    end.
  Definition read_varint (s : bytes) : res (N * bytes) := read_varint_at 10 0 s 0.

  (* skipping a field the message does not know (or, strict, knows with another type) *)
  Definition skip_field (wt : N) (s : bytes) : res bytes :=
    match wt with
    | 0 => '(_, r) <- read_varint s ;; Ok r
    | 1 => '(_, r) <- cut_err 8 s ;; Ok r
    | 2 => '(l, r) <- read_varint s ;; '(_, r') <- cut_err l r ;; Ok r'
    | 3 => skip_group s
    | 5 => '(_, r) <- cut_err 4 s ;; Ok r
    | _ => Err
    end.

  Fixpoint pb_fields (fuel : nat) (s : bytes) (st : pbraw) : res pbraw :=
    match fuel with
    | O => Err
    | S f =>
        match s with
        | [] => Ok st
        | _ =>
            '(wire, s1) <- read_varint s ;;
            (* strict: 1 .. 2^29-1; gogo: int32(wire >> 3) must be positive *)
            let fz := if strict then Z.of_N (wire / 8) else wrap32 (Z.of_N (wire / 8)) in
            let fnum := Z.to_N fz in
            let wt := wire mod 8 in
            if (fz <=? 0)%Z || (strict && (536870911 <? fz)%Z) then Err
            else
              let skip := (r <- skip_field wt s1 ;; pb_fields f r st) in
              match schema fnum with
              | None => skip
              | Some sl =>
                  if is_var sl then
                    if wt =? 0 then '(v, s2) <- read_varint s1 ;; pb_fields f s2 (set_var sl v st)
                    else if strict then skip else Err
                  else
                    if wt =? 2 then
                      '(l, s2) <- read_varint s1 ;;
                      '(b, s3) <- cut_err l s2 ;;
                      match sl with
                      | SMethod => if strict && negb (utf8_valid b) then Err
                                   else pb_fields f s3 (set_len sl b st)
                      | _ => pb_fields f s3 (set_len sl b st)
                      end
                    else if strict then skip else Err
              end
        end
    end.

  Definition pb_decode (s : bytes) : res pbraw := pb_fields (S (length s)) s pbraw0.
End Pb.

(* ---- pbproto ---- *)
Section PbProto.
  Variable skip_group : bytes -> res bytes.

  (* Pack (framing: pfx_pack); an invalid UTF-8 service method is a marshalling error *)
  Definition pb_pack (lim : N) (p : list filter) (m : msg) : res (bytes * N) :=
    if negb (utf8_valid (m_method m)) then Err else pfx_pack lim p (pb_payload m).

  Definition msg_of_pbraw (r : pbraw) (body : bytes) : res msg :=
    st <- status_decode (pr_status r) ;;
    meta <- args_parse (pr_meta r) ;;
    Ok (mkMsg (pr_seq r) (wrap8 (pr_mtype r)) (pr_method r) st meta (wrap8 (pr_codec r)) body).

  (* Unpack (framing: pfx_unpack) *)
  Definition pb_parse (y : bytes) : res msg :=
    r <- pb_decode true skip_group schema_pb y ;; msg_of_pbraw r (pr_body r).
  Definition pb_unpack (reg : registry) (lim : N) (s : bytes)
    : res (msg * list byte * N * bytes) := pfx_unpack pb_parse reg lim s.
End PbProto.
