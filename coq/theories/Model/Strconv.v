(* Model of the parts of Go's strconv used by codec/plain_codec.go and codec/form_codec.go,
   concretely over byte strings: FormatInt/FormatUint (base 10), ParseInt/ParseUint
   (base 10, explicit bit size), FormatBool/ParseBool.  Definitions only.
   Width-bounded Go integers are Z / N with explicit range checks.
   Decimal digits go through the standard library's [Decimal.uint] ([N.to_uint]/[N.of_uint]). *)
From Coq Require Import Strings.String Strings.Byte.
From Coq Require Import List Arith NArith ZArith Bool Lia.
From Coq Require Import Decimal.
From Verif Require Import Base.Bytes.
Import ListNotations.

(* reflect.Kind widths: Int/Uint (W0, 64 bit on the platform of the check), 8, 16, 32, 64 *)
Inductive width := W0 | W8 | W16 | W32 | W64.

Definition bits (w : width) : N :=
  match w with W0 => 64 | W8 => 8 | W16 => 16 | W32 => 32 | W64 => 64 end%N.

Definition width_eqb (a b : width) : bool :=
  match a, b with
  | W0, W0 | W8, W8 | W16, W16 | W32, W32 | W64, W64 => true
  | _, _ => false
  end.

Definition int_in_range (w : width) (z : Z) : bool :=
  ((- Z.of_N (2 ^ (bits w - 1)) <=? z) && (z <? Z.of_N (2 ^ (bits w - 1))))%Z.

Definition uint_in_range (w : width) (n : N) : bool := (n <? 2 ^ bits w)%N.

(* ---- decimal digits ---- *)
Fixpoint bytes_of_uint (d : uint) : bytes :=
  match d with
  | Nil => []
  | D0 r => "0"%byte :: bytes_of_uint r
  | D1 r => "1"%byte :: bytes_of_uint r
  | D2 r => "2"%byte :: bytes_of_uint r
  | D3 r => "3"%byte :: bytes_of_uint r
  | D4 r => "4"%byte :: bytes_of_uint r
  | D5 r => "5"%byte :: bytes_of_uint r
  | D6 r => "6"%byte :: bytes_of_uint r
  | D7 r => "7"%byte :: bytes_of_uint r
  | D8 r => "8"%byte :: bytes_of_uint r
  | D9 r => "9"%byte :: bytes_of_uint r
  end.

Definition digit_cons (b : byte) : option (uint -> uint) :=
  match b with
  | "0"%byte => Some D0 | "1"%byte => Some D1 | "2"%byte => Some D2 | "3"%byte => Some D3
  | "4"%byte => Some D4 | "5"%byte => Some D5 | "6"%byte => Some D6 | "7"%byte => Some D7
  | "8"%byte => Some D8 | "9"%byte => Some D9
  | _ => None
  end.

Fixpoint uint_of_bytes (s : bytes) : option uint :=
  match s with
  | [] => Some Nil
  | b :: r =>
      match digit_cons b, uint_of_bytes r with
      | Some c, Some d => Some (c d)
      | _, _ => None
      end
  end.

(* strconv.FormatUint(n, 10) *)
Definition format_uint (n : N) : bytes := bytes_of_uint (N.to_uint n).

(* strconv.FormatInt(z, 10) *)
Definition format_int (z : Z) : bytes :=
  if (z <? 0)%Z then "-"%byte :: format_uint (Z.to_N (- z)) else format_uint (Z.to_N z).

(* the digit loop of ParseUint for base 10: non-empty, digits only (no sign, no underscore);
   the value is the mathematical one, the range check is applied by the callers below *)
Definition parse_digits (s : bytes) : option N :=
  match s with
  | [] => None
  | _ => option_map N.of_uint (uint_of_bytes s)
  end.

(* strconv.ParseUint(s, 10, bitSize): [None] = any error (syntax or range) *)
Definition parse_uint (bitsz : N) (s : bytes) : option N :=
  match parse_digits s with
  | Some n => if (n <? 2 ^ bitsz)%N then Some n else None
  | None => None
  end.

(* strconv.ParseInt(s, 10, bitSize) *)
Definition parse_int (bitsz : N) (s : bytes) : option Z :=
  match s with
  | [] => None
  | b :: r =>
      if beqb b "-"%byte then
        match parse_digits r with
        | Some n => if (n <=? 2 ^ (bitsz - 1))%N then Some (- Z.of_N n)%Z else None
        | None => None
        end
      else
        match parse_digits (if beqb b "+"%byte then r else s) with
        | Some n => if (n <? 2 ^ (bitsz - 1))%N then Some (Z.of_N n) else None
        | None => None
        end
  end.

(* reflect.Value.SetInt / SetUint store the 64-bit value truncated to the field's width *)
Definition wrap_int (w : width) (z : Z) : Z :=
  let m := Z.of_N (2 ^ bits w) in
  let h := Z.of_N (2 ^ (bits w - 1)) in
  ((z + h) mod m - h)%Z.

Definition wrap_uint (w : width) (n : N) : N := (n mod 2 ^ bits w)%N.

(* strconv.FormatBool / ParseBool *)
Definition format_bool (b : bool) : bytes := if b then str "true" else str "false".

Definition parse_bool (s : bytes) : option bool :=
  if existsb (bytes_eqb s) [str "1"; str "t"; str "T"; str "true"; str "TRUE"; str "True"] then Some true
  else if existsb (bytes_eqb s) [str "0"; str "f"; str "F"; str "false"; str "FALSE"; str "False"] then Some false
  else None.
