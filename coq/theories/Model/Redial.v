(* Model of the client-side redial machinery, definitions only.
     session.go  : readDisconnected (D0..D8), redialForClient, write, AsyncCall retry [goto W], Health
     peer.go     : Dial, the redial closure [redialForClientLocked]
     dialer.go   : dialWithRetry / redialCounter (1+n attempts, unlimited when n<0)
     socket.go   : Reset, Close
   One client session.  Connection identities are natural numbers.  Every goroutine of the
   session is an actor with a program counter; a pc named [..At<gate>] is the state in which
   the goroutine stands at that verif gate.  [step] is total: an event that is not enabled
   leaves the state unchanged. *)
From Coq Require Import Strings.String Strings.Byte.
From Coq Require Import List Arith NArith ZArith Bool Lia.
Import ListNotations.

Inductive status :=
| SPreparing | SOk | SActiveClosing | SActiveClosed
| SPassiveClosing | SPassiveClosed | SRedialing | SRedialFailed.

Definition status_eqb (a b : status) : bool :=
  match a, b with
  | SPreparing, SPreparing | SOk, SOk | SActiveClosing, SActiveClosing
  | SActiveClosed, SActiveClosed | SPassiveClosing, SPassiveClosing
  | SPassiveClosed, SPassiveClosed | SRedialing, SRedialing
  | SRedialFailed, SRedialFailed => true
  | _, _ => false
  end.

(* socket id: user-assigned, derived from the local address of connection c, or empty
   (socket.Reset clears it; ID() then falls back to the remote address). *)
Inductive idv := IdUser | IdAddr (c : nat) | IdNone.

Definition idv_eqb (a b : idv) : bool :=
  match a, b with
  | IdUser, IdUser => true
  | IdAddr x, IdAddr y => Nat.eqb x y
  | IdNone, IdNone => true
  | _, _ => false
  end.

(* environment's answer to one dial attempt: unreachable / reachable and the PostDial hooks
   accept / reachable and a hook rejects *)
Inductive verdict := VU | VA | VJ.

Inductive result := ROk | RClosed | RWFail.

Inductive owner := OwR (i : nat) | OwC (k : nat).

Definition owner_eqb (a b : owner) : bool :=
  match a, b with
  | OwR x, OwR y => Nat.eqb x y
  | OwC x, OwC y => Nat.eqb x y
  | _, _ => false
  end.

(* reader goroutine of one connection: startReadAndHandle, then readDisconnected *)
Inductive rpc :=
| RReading                       (* blocked in ReadMessage *)
| RAtRead (st : status)          (* D0 done: status read; gate disc.read *)
| RReRead                        (* the CAS of D1 failed: loop back to D0 *)
| RAtStored (st : status)        (* D1 done; gate disc.stored *)
| RWantMu1 (st : status) (n : nat) (* D2 done; first cancelPendingCalls (before the wait for the handlers):
                                    callCmdMap.Range over the n calls tabled when it began *)
| RAtPrecancel (st : status)     (* first cancel pass and D3 done; gate disc.precancel *)
| RWantMu (st : status) (n : nat) (* D4: second cancelPendingCalls, same range discipline,
                                    taking each callCmd.mu *)
| RAtPresock                     (* D4,D5 done; gate disc.presock *)
| RWaitLock                      (* D6 done; in redialForClient, wants s.lock *)
| RInRound                       (* holds s.lock; see the round record *)
| RAfterFail                     (* redialForClient returned false; D8 pending *)
| RDone.

(* caller goroutine: AsyncCall; it holds callCmd.mu until AsyncCall returns *)
Inductive cpc :=
| CStart                         (* stored in the table; about to call write() *)
| CAtPrelock (c : nat)           (* write(): status was Ok, usedConn c; gate write.prelock *)
| CWaitLock (c : nat)            (* write() gave conn-closed with usedConn c; wants s.lock *)
| CInRound
| CAwait (c : nat)               (* written on c; AsyncCall returned; waiting for the reply *)
| CDone (r : result).

(* c_on: the connection on which the request reached the server while its reply has not been
   consumed by a reader yet (the server answers even if the client has cancelled the call) *)
Record call := mkCall { c_hold : bool; c_ready : bool; c_on : option nat; c_pc : cpc }.

Inductive rdpc :=
| RdLocked                       (* gate redial.locked: lock taken, nothing tested yet *)
| RdDial                         (* in dialWithRetry, about to dial *)
| RdReset (v : verdict)          (* socket.Reset done; gate redial.reset *)
| RdHook (v : verdict).          (* id restored, status Preparing, inside the PostDial hook *)

Record round := mkRound {
  r_owner : owner;
  r_old : nat;        (* oldConn argument of redialForClient *)
  r_pc : rdpc;
  r_oid : idv;        (* closure: oldID *)
  r_ipeq : bool;      (* closure: oldIP == oldID *)
  r_occ : nat;        (* closure: oldConn *)
  r_left : Z;         (* redialCounter *)
  r_att : nat         (* dial attempts made in this round *)
}.

Record st := mkSt {
  budget : Z;                    (* PeerConfig.RedialTimes *)
  status_ : status;
  conn : nat;                    (* socket.Conn *)
  fresh : nat;
  sockclosed : bool;             (* socket.curState == activeClose *)
  lost : list nat;               (* connections cut by the environment or closed locally *)
  id : idv;
  index : list idv;              (* keys under which the peer's hub holds this session *)
  notified : nat;                (* times closeNotifyCh was closed *)
  dischooks : nat;               (* PostDisconnect runs *)
  hooks : list (bool * verdict); (* PostDial runs after the first dial: (isRedial, verdict) *)
  okrounds : nat;
  rounds : list (nat * bool);    (* finished rounds: attempts, success *)
  readers : list (nat * rpc);
  calls : list call;
  lock : option round;           (* s.lock holder *)
  plan : list verdict;
  pdef : verdict;
  wedged : bool                  (* closeLocked ran its body inside the redial closure *)
}.

(* ---- small helpers ---- *)
Definition mem (c : nat) (l : list nat) : bool := existsb (Nat.eqb c) l.
Definition idmem (i : idv) (l : list idv) : bool := existsb (idv_eqb i) l.
Definition idremove (i : idv) (l : list idv) : list idv := filter (fun j => negb (idv_eqb i j)) l.
Definition idadd (i : idv) (l : list idv) : list idv := if idmem i l then l else l ++ [i].

Fixpoint upd {A} (l : list A) (n : nat) (x : A) : list A :=
  match l, n with
  | [], _ => []
  | _ :: r, O => x :: r
  | a :: r, S m => a :: upd r m x
  end.

Definition set_status (s : st) (x : status) : st :=
  mkSt (budget s) x (conn s) (fresh s) (sockclosed s) (lost s) (id s) (index s) (notified s)
       (dischooks s) (hooks s) (okrounds s) (rounds s) (readers s) (calls s) (lock s) (plan s) (pdef s) (wedged s).
Definition set_readers (s : st) (x : list (nat * rpc)) : st :=
  mkSt (budget s) (status_ s) (conn s) (fresh s) (sockclosed s) (lost s) (id s) (index s) (notified s)
       (dischooks s) (hooks s) (okrounds s) (rounds s) x (calls s) (lock s) (plan s) (pdef s) (wedged s).
Definition set_calls (s : st) (x : list call) : st :=
  mkSt (budget s) (status_ s) (conn s) (fresh s) (sockclosed s) (lost s) (id s) (index s) (notified s)
       (dischooks s) (hooks s) (okrounds s) (rounds s) (readers s) x (lock s) (plan s) (pdef s) (wedged s).
Definition set_lock (s : st) (x : option round) : st :=
  mkSt (budget s) (status_ s) (conn s) (fresh s) (sockclosed s) (lost s) (id s) (index s) (notified s)
       (dischooks s) (hooks s) (okrounds s) (rounds s) (readers s) (calls s) x (plan s) (pdef s) (wedged s).
Definition set_index (s : st) (x : list idv) : st :=
  mkSt (budget s) (status_ s) (conn s) (fresh s) (sockclosed s) (lost s) (id s) x (notified s)
       (dischooks s) (hooks s) (okrounds s) (rounds s) (readers s) (calls s) (lock s) (plan s) (pdef s) (wedged s).
Definition set_id (s : st) (x : idv) : st :=
  mkSt (budget s) (status_ s) (conn s) (fresh s) (sockclosed s) (lost s) x (index s) (notified s)
       (dischooks s) (hooks s) (okrounds s) (rounds s) (readers s) (calls s) (lock s) (plan s) (pdef s) (wedged s).
Definition set_lost (s : st) (x : list nat) : st :=
  mkSt (budget s) (status_ s) (conn s) (fresh s) (sockclosed s) x (id s) (index s) (notified s)
       (dischooks s) (hooks s) (okrounds s) (rounds s) (readers s) (calls s) (lock s) (plan s) (pdef s) (wedged s).
Definition set_plan (s : st) (p : list verdict) (d : verdict) : st :=
  mkSt (budget s) (status_ s) (conn s) (fresh s) (sockclosed s) (lost s) (id s) (index s) (notified s)
       (dischooks s) (hooks s) (okrounds s) (rounds s) (readers s) (calls s) (lock s) p d (wedged s).

Definition set_rpc (s : st) (i : nat) (p : rpc) : st :=
  match nth_error (readers s) i with
  | Some (c, _) => set_readers s (upd (readers s) i (c, p))
  | None => s
  end.
Definition set_cpc (s : st) (k : nat) (p : cpc) : st :=
  match nth_error (calls s) k with
  | Some cl => set_calls s (upd (calls s) k (mkCall (c_hold cl) (c_ready cl) (c_on cl) p))
  | None => s
  end.

(* a caller is inside AsyncCall (holds callCmd.mu) *)
Definition holds_mu (cl : call) : bool :=
  match c_pc cl with CStart | CAtPrelock _ | CWaitLock _ | CInRound => true | _ => false end.

(* ---- session.go Health ---- *)
Definition health (s : st) : bool :=
  match status_ s with
  | SOk => true
  | SPassiveClosed => negb (Z.eqb (budget s) 0)
  | _ => false
  end.

(* notifyClosed: CAS-guarded close of the channel *)
Definition notify (s : st) : st :=
  mkSt (budget s) (status_ s) (conn s) (fresh s) (sockclosed s) (lost s) (id s) (index s)
       (if Nat.eqb (notified s) 0 then 1 else notified s)
       (dischooks s) (hooks s) (okrounds s) (rounds s) (readers s) (calls s) (lock s) (plan s) (pdef s) (wedged s).

(* D8 of readDisconnected: plain store PassiveClosed, notifyClosed, postDisconnect *)
Definition d8 (s : st) : st :=
  let s1 := notify (set_status s SPassiveClosed) in
  mkSt (budget s1) (status_ s1) (conn s1) (fresh s1) (sockclosed s1) (lost s1) (id s1) (index s1) (notified s1)
       (S (dischooks s1)) (hooks s1) (okrounds s1) (rounds s1) (readers s1) (calls s1) (lock s1) (plan s1) (pdef s1) (wedged s1).

(* socket.Close: no-op when already closed, else closes the CURRENT connection *)
Definition sock_close (s : st) : st :=
  if sockclosed s then s
  else mkSt (budget s) (status_ s) (conn s) (fresh s) true (conn s :: lost s) (id s) (index s) (notified s)
            (dischooks s) (hooks s) (okrounds s) (rounds s) (readers s) (calls s) (lock s) (plan s) (pdef s) (wedged s).

(* D4: cancel every tabled call that has no reply and an OK status, i.e. every awaiting call *)
Definition cancel_all (l : list call) : list call :=
  map (fun cl => match c_pc cl with
                 | CAwait _ => mkCall (c_hold cl) (c_ready cl) (c_on cl) (CDone RClosed)
                 | _ => cl
                 end) l.

(* ---- reader steps (session.go startReadAndHandle / readDisconnected) ---- *)
Definition goon_read (x : status) : bool :=
  match x with SOk | SActiveClosing => true | _ => false end.

Definition reader_step (s : st) (i : nat) : st :=
  match nth_error (readers s) i with
  | None => s
  | Some (c, p) =>
    match p with
    | RReading =>
        (* ReadMessage fails once the connection is cut or closed; D0 reads the status *)
        if mem c (lost s) then set_rpc s i (RAtRead (status_ s)) else s
    | RAtRead x =>
        match x with
        | SPassiveClosed | SActiveClosed | SPassiveClosing => set_rpc s i RDone
        | SActiveClosing => set_rpc s i (RAtStored x)
        | _ =>
            (* D1: compare-and-swap from the status that was read; on failure read again *)
            if status_eqb (status_ s) x then set_rpc (set_status s SPassiveClosing) i (RAtStored x)
            else set_rpc s i RReRead
        end
    | RReRead =>
        (* D0 and D1 again, back to back *)
        match status_ s with
        | SPassiveClosed | SActiveClosed | SPassiveClosing => set_rpc s i RDone
        | SActiveClosing => set_rpc s i (RAtStored SActiveClosing)
        | x => set_rpc (set_status s SPassiveClosing) i (RAtStored x)
        end
    | RAtStored x =>
        (* D2: sessHub.deleteSession(s) with the id the socket has NOW; then the first
           cancelPendingCalls begins its range *)
        set_rpc (set_index s (idremove (id s) (index s))) i (RWantMu1 x (length (calls s)))
    | RWantMu1 x n =>
        (* blocked while a call of its range is inside AsyncCall; D3: no handlers here *)
        if existsb holds_mu (firstn n (calls s)) then s
        else set_rpc (set_calls s (cancel_all (firstn n (calls s)) ++ skipn n (calls s))) i (RAtPrecancel x)
    | RAtPrecancel x => set_rpc s i (RWantMu x (length (calls s)))
    | RWantMu x n =>
        (* D4 takes the callCmd.mu of every call in its range: blocked while one of them is
           inside AsyncCall; calls tabled after the range began are not visited *)
        if existsb holds_mu (firstn n (calls s)) then s
        else
          let s1 := set_calls s (cancel_all (firstn n (calls s)) ++ skipn n (calls s)) in
          match x with
          | SActiveClosing => set_rpc s1 i RDone                             (* D5 *)
          | _ => set_rpc s1 i RAtPresock
          end
    | RAtPresock =>
        (* D6: s.socket.Close(); D7: redialForClient(oldConn) *)
        let s1 := sock_close s in
        if Z.eqb (budget s) 0 then set_rpc (d8 s1) i RDone                   (* no redial func *)
        else set_rpc s1 i RWaitLock
    | RAfterFail => set_rpc (d8 s) i RDone
    | RWaitLock | RInRound | RDone => s
    end
  end.

(* ---- lock acquisition (session.go redialForClient: s.lock.Lock()) ---- *)
Definition acquire (s : st) (o : owner) : st :=
  match lock s with
  | Some _ => s
  | None =>
    let mk c := Some (mkRound o c RdLocked IdNone false 0 0 0) in
    match o with
    | OwR i =>
        match nth_error (readers s) i with
        | Some (c, RWaitLock) => set_lock (set_rpc s i RInRound) (mk c)
        | _ => s
        end
    | OwC k =>
        match nth_error (calls s) k with
        | Some cl => match c_pc cl with
                     | CWaitLock c => set_lock (set_cpc s k CInRound) (mk c)
                     | _ => s
                     end
        | None => s
        end
    end
  end.

(* redialForClient returns b to its caller and releases s.lock *)
Definition round_return (s : st) (o : owner) (b : bool) : st :=
  let s1 := set_lock s None in
  match o with
  | OwR i => set_rpc s1 i (if b then RDone else RAfterFail)
  | OwC k => set_cpc s1 k (if b then CStart else CDone RClosed)
  end.

Definition cas_redialing (x : status) : bool :=
  match x with SOk | SPassiveClosing | SPassiveClosed | SRedialFailed => true | _ => false end.

Definition next_verdict (s : st) : verdict * st :=
  match plan s with
  | [] => (pdef s, s)
  | v :: r => (v, set_plan s r (pdef s))
  end.

(* exhaustion: peer.go closure tail: sess.closeLocked(); tryChangeStatus(RedialFailed, Redialing) *)
Definition finish_fail (s : st) (r : round) : st :=
  let s1 :=
    match status_ s with
    | SOk | SPreparing =>
        (* closeLocked's CAS would succeed: it would delete the index entry, notify and then
           wait for the pending calls, one of which may be the redialing caller itself *)
        let s0 := notify (set_index (set_status s SActiveClosing) (idremove (id s) (index s))) in
        mkSt (budget s0) (status_ s0) (conn s0) (fresh s0) (sockclosed s0) (lost s0) (id s0) (index s0) (notified s0)
             (dischooks s0) (hooks s0) (okrounds s0) (rounds s0) (readers s0) (calls s0) (lock s0) (plan s0) (pdef s0) true
    | _ => s
    end in
  let s2 := match status_ s1 with SRedialing => set_status s1 SRedialFailed | _ => s1 end in
  let s3 := mkSt (budget s2) (status_ s2) (conn s2) (fresh s2) (sockclosed s2) (lost s2) (id s2) (index s2) (notified s2)
                 (dischooks s2) (hooks s2) (okrounds s2) (rounds s2 ++ [(r_att r, false)]) (readers s2) (calls s2)
                 (lock s2) (plan s2) (pdef s2) (wedged s2) in
  round_return s3 (r_owner r) false.

(* redialCounter.Next after a failed attempt *)
Definition after_failed_attempt (s : st) (r : round) : st :=
  if Z.eqb (r_left r) 0 then finish_fail s r
  else
    let l := if Z.ltb 0 (r_left r) then (r_left r - 1)%Z else r_left r in
    set_lock s (Some (mkRound (r_owner r) (r_old r) RdDial (r_oid r) (r_ipeq r) (r_occ r) l (r_att r))).

(* success tail of the closure: oldConn.Close(); status Ok; new reader; sessHub.set *)
Definition finish_ok (s : st) (r : round) : st :=
  let s1 := mkSt (budget s) SOk (conn s) (fresh s) (sockclosed s) (r_occ r :: lost s) (id s)
                 (idadd (id s) (index s)) (notified s) (dischooks s) (hooks s) (S (okrounds s))
                 (rounds s ++ [(r_att r, true)]) (readers s ++ [(conn s, RReading)]) (calls s)
                 (lock s) (plan s) (pdef s) (wedged s) in
  round_return s1 (r_owner r) true.

Definition round_step (s : st) : st :=
  match lock s with
  | None => s
  | Some r =>
    match r_pc r with
    | RdLocked =>
        if negb (Nat.eqb (r_old r) (conn s)) then round_return s (r_owner r) true
        else if cas_redialing (status_ s) then
          set_lock (set_status s SRedialing)
                   (Some (mkRound (r_owner r) (r_old r) RdDial (id s)
                                  (idv_eqb (id s) (IdAddr (conn s))) (conn s) (budget s) 0))
        else round_return s (r_owner r) false
    | RdDial =>
        let '(v, s1) := next_verdict s in
        let r1 := mkRound (r_owner r) (r_old r) RdDial (r_oid r) (r_ipeq r) (r_occ r) (r_left r) (S (r_att r)) in
        match v with
        | VU => after_failed_attempt s1 r1
        | _ =>
            (* dial succeeded; socket.Reset(conn): new connection, state normal, id cleared *)
            let c := fresh s1 in
            mkSt (budget s1) (status_ s1) c (S c) false (lost s1) IdNone (index s1) (notified s1)
                 (dischooks s1) (hooks s1) (okrounds s1) (rounds s1) (readers s1) (calls s1)
                 (Some (mkRound (r_owner r) (r_old r) (RdReset v) (r_oid r) (r_ipeq r) (r_occ r) (r_left r) (S (r_att r))))
                 (plan s1) (pdef s1) (wedged s1)
        end
    | RdReset v =>
        (* id restore rule; status Preparing; the hooks start with isRedial = true *)
        let nid := if r_ipeq r then IdAddr (conn s) else r_oid r in
        let s1 := set_id (set_status s SPreparing) nid in
        mkSt (budget s1) (status_ s1) (conn s1) (fresh s1) (sockclosed s1) (lost s1) (id s1) (index s1) (notified s1)
             (dischooks s1) (hooks s1 ++ [(true, v)]) (okrounds s1) (rounds s1) (readers s1) (calls s1)
             (Some (mkRound (r_owner r) (r_old r) (RdHook v) (r_oid r) (r_ipeq r) (r_occ r) (r_left r) (r_att r)))
             (plan s1) (pdef s1) (wedged s1)
    | RdHook v =>
        match v with
        | VJ => (* conn.Close(); status Redialing; the attempt failed *)
            after_failed_attempt (set_status (set_lost s (conn s :: lost s)) SRedialing) r
        | _ => finish_ok s r
        end
    end
  end.

(* ---- caller steps (session.go AsyncCall / write) ---- *)
Definition conn_closed_path (s : st) (k : nat) (c : nat) : st :=
  if Z.eqb (budget s) 0 then set_cpc s k (CDone RClosed) else set_cpc s k (CWaitLock c).

Definition caller_step (s : st) (k : nat) (wfail : bool) : st :=
  match nth_error (calls s) k with
  | None => s
  | Some cl =>
    match c_pc cl with
    | CStart =>
        (* write(): usedConn := getConn(); status := getStatus() *)
        if status_eqb (status_ s) SOk then set_cpc s k (CAtPrelock (conn s))
        else conn_closed_path s k (conn s)
    | CAtPrelock c =>
        (* WriteMessage goes to the socket's CURRENT connection *)
        if sockclosed s then conn_closed_path s k c                 (* ErrProactivelyCloseSocket *)
        else if mem (conn s) (lost s) then
          (if wfail then set_cpc s k (CDone RWFail) else set_cpc s k (CAwait (conn s)))
        else set_calls s (upd (calls s) k (mkCall (c_hold cl) (negb (c_hold cl)) (Some (conn s)) (CAwait (conn s))))
    | _ => s
    end
  end.

(* the reply of call k reaches the reader of its connection: the call completes; or the loop
   exits on !goonRead() and abortReply completes the bound call with connection-closed; a reply
   to a call the client already gave up is dropped, but it still makes the loop look at the
   status *)
Definition consume (s : st) (k : nat) : st :=
  match nth_error (calls s) k with
  | Some cl => set_calls s (upd (calls s) k (mkCall (c_hold cl) (c_ready cl) None (c_pc cl)))
  | None => s
  end.

Fixpoint reading_index (l : list (nat * rpc)) (c : nat) (i : nat) : option nat :=
  match l with
  | [] => None
  | (c', RReading) :: l' => if Nat.eqb c' c then Some i else reading_index l' c (S i)
  | _ :: l' => reading_index l' c (S i)
  end.

Definition reply_step (s : st) (k : nat) : st :=
  match nth_error (calls s) k with
  | Some cl =>
    match c_on cl with
    | Some c =>
        if c_ready cl && negb (mem c (lost s)) then
          match reading_index (readers s) c 0 with
          | Some i =>
              let awaiting := match c_pc cl with CAwait _ => true | _ => false end in
              if goon_read (status_ s) then
                (if awaiting then set_cpc (consume s k) k (CDone ROk) else consume s k)
              else
                (if awaiting then set_cpc (set_rpc (consume s k) i (RAtRead (status_ s))) k (CDone RClosed)
                 else set_rpc (consume s k) i (RAtRead (status_ s)))
          | None => s
          end
        else s
    | None => s
    end
  | None => s
  end.

(* ---- events ---- *)
Inductive ev :=
| EvCut                          (* the server side of every connection made so far is closed *)
| EvReader (i : nat)
| EvCaller (k : nat) (wfail : bool)
| EvAcquire (o : owner)
| EvRound
| EvReply (k : nat)
| EvCancel (i k : nat)           (* D4 in progress: reader i visits call k while others are still locked *)
| EvCall (hold : bool)           (* the user starts a call *)
| EvRelSrv                       (* held server handlers reply *)
| EvPlan (p : list verdict) (d : verdict).

Definition step (s : st) (e : ev) : st :=
  match e with
  | EvCut => set_lost s (seq 0 (fresh s) ++ lost s)
  | EvReader i => reader_step s i
  | EvCaller k w => caller_step s k w
  | EvAcquire o => acquire s o
  | EvRound => round_step s
  | EvReply k => reply_step s k
  | EvCancel i k =>
      match nth_error (readers s) i, nth_error (calls s) k with
      | Some (_, RWantMu _ n), Some cl
      | Some (_, RWantMu1 _ n), Some cl =>
          match c_pc cl with
          | CAwait _ => if Nat.ltb k n then set_cpc s k (CDone RClosed) else s
          | _ => s
          end
      | _, _ => s
      end
  | EvCall h => set_calls s (calls s ++ [mkCall h false None CStart])
  | EvRelSrv =>
      set_calls s (map (fun cl => match c_on cl with
                                  | Some c => if negb (mem c (lost s)) then mkCall (c_hold cl) true (c_on cl) (c_pc cl) else cl
                                  | None => cl
                                  end) (calls s))
  | EvPlan p d => set_plan s p d
  end.

Definition run (s : st) (evs : list ev) : st := fold_left step evs s.

(* state right after Peer.Dial succeeded (and an optional SetID by the user) *)
Definition init (n : Z) (uid : bool) (p : list verdict) (d : verdict) : st :=
  let i := if uid then IdUser else IdAddr 0 in
  mkSt n SOk 0 1 false [] i [i] 0 0 [] 0 [] [(0, RReading)] [] None p d false.

(* no actor of the session has anything left to do: readers read a live connection or are
   gone, callers wait for a reply or are done, nobody holds or wants the session lock *)
Definition reader_idle (s : st) (r : nat * rpc) : bool :=
  match snd r with
  | RReading => negb (mem (fst r) (lost s))
  | RDone => true
  | _ => false
  end.
Definition call_idle (cl : call) : bool :=
  match c_pc cl with CAwait _ | CDone _ => true | _ => false end.
Definition quiescent (s : st) : bool :=
  forallb (reader_idle s) (readers s) && forallb call_idle (calls s)
  && match lock s with None => true | Some _ => false end.
