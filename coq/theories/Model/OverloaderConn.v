(* Model of the connection side of plugin/overloader/overloader.go AS A WHOLE:
   Overloader.Update is ONE event carrying the new MaxConn (limit raised, lowered, removed
   = MaxConn <= 0, re-created), next to the connect / hook-step / later-verdict / close /
   redial / retry / duplicate-disconnect events of any number of sessions.

   State of the plugin: every connLimiter instance ever built (each with an identity = its
   position in o_gens), the pointer Overloader.connLimiter (o_cur), the stored
   limitConfig.MaxConn (o_cfg), and for every session the limiter pointer its accept / dial
   hook read (o_where): takeConnFor reads o.connLimiter once, takes on THAT instance and
   records connHolders[sess] = that instance; releaseConnFor releases on the recorded
   instance.  Sessions are named by one global index k (order of arrival); session k lives
   at index k of the instance it belongs to.  A session whose hook read nil (no limiter)
   is admitted without a slot (o_free).

   Each instance evolves by Model.ConnLimiter.lstep true (the three atomics of take, the
   two of release, connHolders) on its own sessions.  Definitions only. *)
From Coq Require Import Strings.String Strings.Byte.
From Coq Require Import List Arith NArith ZArith Bool Lia.
From Verif Require Import Base.Bytes Model.Threads Model.ConnLimiter.
Import ListNotations.
Local Open Scope Z_scope.

(* which limiter pointer the hook of a session read *)
Inductive hold := HNone | HInst (g : nat) | HFree.

(* a session that met no limiter: takeConnFor returns true at once, nothing is recorded *)
Inductive npc := NIdle | NPending | NLive | NOver.

Record ostate := mkO {
  o_gens : list lstate;      (* every connLimiter ever built by updateConnLimiter *)
  o_cur : option nat;        (* Overloader.connLimiter: None = nil *)
  o_cfg : Z;                 (* Overloader.limitConfig.MaxConn *)
  o_where : list hold;
  o_free : list npc }.

Inductive oev :=
| OUpdate (n : Z)                                   (* Overloader.Update, MaxConn = n *)
| OConnect (k : nat) (sd : side) (earlier_ok : bool) (* session k reaches the plugin *)
| OStep (k : nat)                                   (* next atomic step of k's hook *)
| OLater (k : nat) (ok : bool)                      (* verdict of the plugins after it *)
| OClose (k : nat)                                  (* the admitted session k ends *)
| ORedial (k : nat)
| ORetry (k : nat)
| ODup (k : nat).                                   (* PostDisconnect delivered once more *)

(* overloader.go New: an Overloader without limiter; New then calls Update(initial config) *)
Definition oempty : ostate := mkO [] None 0 [] [].

Definition inst (st : ostate) (g : nat) : lstate := getn ldef g (o_gens st).

Definition set_inst (st : ostate) (g : nat) (s : lstate) : ostate :=
  mkO (upd ldef g s (o_gens st)) (o_cur st) (o_cfg st) (o_where st) (o_free st).

Definition set_free (st : ostate) (k : nat) (p : npc) : ostate :=
  mkO (o_gens st) (o_cur st) (o_cfg st) (o_where st) (upd NIdle k p (o_free st)).

(* overloader.go updateConnLimiter(limitConfig):
     MaxConn <= 0                       -> o.connLimiter = nil
     o.connLimiter == nil               -> o.connLimiter = newConnLimiter(MaxConn)   (FRESH: tmp = now = 0)
     o.limitConfig.MaxConn != MaxConn   -> o.connLimiter.update(MaxConn)             (same instance)
   and Update stores o.limitConfig = the new config afterwards. *)
Definition o_update (st : ostate) (n : Z) : option ostate :=
  if n <=? 0 then Some (mkO (o_gens st) None n (o_where st) (o_free st))
  else match o_cur st with
       | None => Some (mkO (o_gens st ++ [linit n]) (Some (length (o_gens st))) n (o_where st) (o_free st))
       | Some g =>
           if o_cfg st =? n then Some st
           else match lstep true (inst st g) (EUpdate n) with
                | Some s' => Some (mkO (upd ldef g s' (o_gens st)) (Some g) n (o_where st) (o_free st))
                | None => None
                end
       end.

(* the event of session k as an event of the instance it belongs to *)
Definition lev_of (e : oev) : option (nat * lev) :=
  match e with
  | OStep k => Some (k, EStep k)
  | OLater k ok => Some (k, ELater k ok)
  | OClose k => Some (k, EClose k)
  | ORedial k => Some (k, ERedial k)
  | ORetry k => Some (k, ERetry k)
  | ODup k => Some (k, EDupDisc k)
  | _ => None
  end.

(* [roc = true]: the variant of releaseConnFor that releases through the plugin's CURRENT
   limiter (o.releaseConn()) instead of the recorded one: the holder's record is deleted,
   its own instance is left untouched, the instance the pointer designates NOW (if any) is
   decremented (both atomics of release at once: nothing else of this variant is studied). *)
Definition o_cross_release (st : ostate) (g k : nat) : ostate :=
  let sg := inst st g in
  let x := getn sess0 k (l_ss sg) in
  let sg' := mkL (l_c sg) (l_hw sg)
                 (upd sess0 k (mkS LDone false (s_took x) (s_rel x + 1) (s_rej x)) (l_ss sg)) in
  let st1 := set_inst st g sg' in
  match o_cur st with
  | Some c => let sc := inst st1 c in
              set_inst st1 c (mkL (c_release (l_c sc)) (l_hw sc) (l_ss sc))
  | None => st1
  end.

Definition o_free_step (st : ostate) (k : nat) (e : oev) : option ostate :=
  match e, getn NIdle k (o_free st) with
  | OLater _ ok, NPending => Some (set_free st k (if ok then NLive else NOver))
  | OClose _, NLive => Some (set_free st k NOver)
  | ORedial _, NLive => Some st
  | ODup _, NOver => Some st          (* releaseConnFor finds no holder *)
  | _, _ => None
  end.

Definition ostep (roc : bool) (st : ostate) (e : oev) : option ostate :=
  match e with
  | OUpdate n => o_update st n
  | OConnect k sd ok =>
      match getn HNone k (o_where st) with
      | HNone =>
          match o_cur st with
          | Some g =>
              (* the hook reads the pointer: the session belongs to instance g for good *)
              match lstep true (inst st g) (EConnect k sd ok) with
              | Some s' => Some (mkO (upd ldef g s' (o_gens st)) (o_cur st) (o_cfg st)
                                     (upd HNone k (HInst g) (o_where st)) (o_free st))
              | None => None
              end
          | None =>
              Some (mkO (o_gens st) (o_cur st) (o_cfg st) (upd HNone k HFree (o_where st))
                        (upd NIdle k (if ok then NPending else NOver) (o_free st)))
          end
      | _ => None
      end
  | _ =>
      match lev_of e with
      | None => None
      | Some (k, le) =>
          match getn HNone k (o_where st) with
          | HNone => None
          | HFree => o_free_step st k e
          | HInst g =>
              if roc && is_holder_closing (inst st g) le && negb (is_cur (o_cur st) g)
              then Some (o_cross_release st g k)
              else match lstep true (inst st g) le with
                   | Some s' => Some (set_inst st g s')
                   | None => None
                   end
          end
      end
  end.

Fixpoint orun (roc : bool) (st : ostate) (tr : list oev) : option ostate :=
  match tr with
  | [] => Some st
  | e :: r => match ostep roc st e with Some st' => orun roc st' r | None => None end
  end.

(* ---- observables and measures ---- *)
Definition free_live (p : npc) : Z := match p with NLive => 1 | _ => 0 end.

(* every session currently admitted: through whichever instance, or through none *)
Definition oadmitted (st : ostate) : Z := sumz admitted (o_gens st) + sumz free_live (o_free st).

(* the history never removes the limiter *)
Fixpoint never_removed (tr : list oev) : Prop :=
  match tr with
  | [] => True
  | OUpdate n :: r => 0 < n /\ never_removed r
  | _ :: r => never_removed r
  end.

Definition quiescent_inst (s : lstate) : bool :=
  forallb (fun x => quiescent_pc (s_pc x)) (l_ss s).
