(* utils/args.go: Args as an ordered multimap; AppendBytes/QueryString, argsScanner.next,
   ParseBytes (pairs whose key and value are both empty are skipped: the kv slot is reused). *)
From Coq Require Import Strings.String Strings.Byte.
From Coq Require Import List Arith NArith ZArith Bool Lia.
From Verif Require Import Base.Bytes Base.Outcome Model.Quote.
Import ListNotations.

Definition kv := (bytes * bytes)%type.

Definition is_nil {A} (l : list A) : bool := match l with [] => true | _ => false end.

Definition enc_kv (p : kv) : bytes :=
  let '(k, v) := p in
  quote k ++ (if is_nil v then [] else "="%byte :: quote v).

(* AppendBytes *)
Fixpoint args_encode (l : list kv) : bytes :=
  match l with
  | [] => []
  | [p] => enc_kv p
  | p :: r => enc_kv p ++ "&"%byte :: args_encode r
  end.

(* argsScanner: segments between '&'; nothing is produced once the input is exhausted
   (so a trailing '&' yields no extra segment). [cur] is reversed. *)
Fixpoint segments (b : bytes) (cur : bytes) : list bytes :=
  match b with
  | [] => if is_nil cur then [] else [frev cur]
  | c :: r => if beqb c "&"%byte then frev cur :: segments r [] else segments r (c :: cur)
  end.

(* first '=' splits key from value; without '=' the value is empty *)
Fixpoint split_eq (seg : bytes) (cur : bytes) : bytes * option bytes :=
  match seg with
  | [] => (frev cur, None)
  | c :: r => if beqb c "="%byte then (frev cur, Some r) else split_eq r (c :: cur)
  end.

Definition dec_seg (seg : bytes) : res kv :=
  let '(k, ov) := split_eq seg [] in
  k' <- unquote k ;;
  match ov with
  | None => Ok (k', [])
  | Some v => v' <- unquote v ;; Ok (k', v')
  end.

Fixpoint dec_segs (l : list bytes) : res (list kv) :=
  match l with
  | [] => Ok []
  | s :: r =>
      p <- dec_seg s ;;
      t <- dec_segs r ;;
      Ok (if is_nil (fst p) && is_nil (snd p) then t else p :: t)
  end.

(* ParseBytes *)
Definition args_parse (b : bytes) : res (list kv) := dec_segs (segments b []).

(* well-formedness guard of the round trip: no pair with both key and value empty *)
Definition kv_ok (p : kv) : bool := negb (is_nil (fst p) && is_nil (snd p)).
Definition args_ok (l : list kv) : bool := forallb kv_ok l.

(* Peek: first value for a key *)
Fixpoint args_peek (l : list kv) (k : bytes) : option bytes :=
  match l with
  | [] => None
  | (a, v) :: r => if bytes_eqb a k then Some v else args_peek r k
  end.
