(* socket/protocol.go: the default ("raw") wire protocol, byte exact.
   Pack / writeHeader / writeBody, Unpack / readMessage / minus / readHeader / readBody.
   The message body is a byte string (a []byte / *[]byte body is not marshalled). *)
From Coq Require Import Strings.String Strings.Byte.
From Coq Require Import List Arith NArith ZArith Bool Lia.
From Verif Require Import Base.Bytes Base.Outcome Model.Quote Model.Args Model.Numfmt
  Model.StatusQuery Model.Xfer.
Import ListNotations.
Local Open Scope N_scope.

Record msg := mkMsg {
  m_seq : Z;               (* int32 *)
  m_mtype : byte;
  m_method : bytes;
  m_status : status;       (* Status(true): a nil status is packed as the zero status *)
  m_meta : list kv;
  m_codec : byte;
  m_body : bytes
}.

(* writeHeader. byte(len) / uint16(len) truncate silently; only the service method
   length is checked. *)
Definition raw_header (m : msg) : res bytes :=
  let seqs := format_int 36 (m_seq m) in
  let st := status_encode (m_status m) in
  let meta := args_encode (m_meta m) in
  if 255 <? blen (m_method m) then Err
  else Ok (n2b (blen seqs) :: seqs ++ m_mtype m :: n2b (blen (m_method m)) :: m_method m
           ++ be_of_N 2 (blen st) ++ st ++ be_of_N 2 (blen meta) ++ meta).

(* Pack; [p] is the message's XferPipe, [lim] the message size limit. *)
Definition raw_pack (lim : N) (p : list filter) (m : msg) : res bytes :=
  h <- raw_header m ;;
  payload <- of_option (pipe_pack p (h ++ m_codec m :: m_body m)) ;;
  let ids := pipe_ids p in
  let size := (4 + 1 + blen ids + blen payload) mod 4294967296 in
  if lim <? size then Err
  else Ok (be_of_N 4 size ++ n2b (blen ids) :: ids ++ payload).

(* io.ReadFull on the rest of the stream: a short stream is an error *)
Definition take (n : N) (s : bytes) : res (bytes * bytes) :=
  if blen s <? n then Err else Ok (firstn (N.to_nat n) s, skipn (N.to_nat n) s).

(* unchecked Go slicing data[:n] / data[n:]: out of range panics *)
Definition cut (n : N) (d : bytes) : res (bytes * bytes) :=
  if blen d <? n then Panic else Ok (firstn (N.to_nat n) d, skipn (N.to_nat n) d).

Definition cut1 (d : bytes) : res (byte * bytes) :=
  match d with [] => Panic | b :: r => Ok (b, r) end.

(* readHeader + readBody on the transfer-filtered payload *)
Definition raw_parse (data : bytes) : res msg :=
  '(sl, d) <- cut1 data ;;
  '(seqs, d) <- cut (b2n sl) d ;;
  match parse_int 36 seqs with
  | PVal seq =>
      '(mt, d) <- cut1 d ;;
      '(ml, d) <- cut1 d ;;
      '(meth, d) <- cut (b2n ml) d ;;
      '(stl, d) <- cut 2 d ;;
      '(stb, d) <- cut (N_of_be stl) d ;;
      st <- status_decode stb ;;
      '(mel, d) <- cut 2 d ;;
      '(meb, d) <- cut (N_of_be mel) d ;;
      meta <- args_parse meb ;;
      '(codec, body) <- cut1 d ;;
      Ok (mkMsg seq mt meth st meta codec body)
  | _ => Err
  end.

(* Unpack from the head of a byte stream: message, its pipe ids, reported size, rest.
   Where the code either panics (slice beyond the pooled buffer's capacity) or returns
   "bad package" depending on the capacity of a recycled buffer - an announced pipe
   length that does not fit the announced size - the model answers Err; both end the
   connection. *)
Definition raw_unpack (reg : registry) (lim : N) (s : bytes)
  : res (msg * list byte * N * bytes) :=
  '(b4, s) <- take 4 s ;;
  let size := N_of_be b4 in
  if lim <? size then Err
  else if size <? 4 then Err
  else
    let last := size - 4 in
    '(xb, s) <- take 1 s ;;
    let xl := match xb with [x] => b2n x | _ => 0 end in
    if last <? 1 + xl then Err
    else
      '(ids, s) <- take xl s ;;
      match pipe_append reg [] ids with
      | (_, Some _) => Err
      | (p, None) =>
          '(payload, s) <- take (last - 1 - xl) s ;;
          data <- of_option (pipe_unpack p payload) ;;
          m <- raw_parse data ;;
          Ok (m, ids, size, s)
      end.

(* a stream of back-to-back frames, decoded until the stream is exhausted or a frame
   fails; [fuel] bounds the number of frames (every frame consumes >= 5 bytes) *)
Fixpoint raw_decode_all (fuel : nat) (reg : registry) (lim : N) (s : bytes)
  : list (msg * list byte * N) * res unit :=
  match fuel with
  | O => ([], Err)
  | S f =>
      match s with
      | [] => ([], Ok tt)
      | _ =>
          match raw_unpack reg lim s with
          | Ok (m, ids, size, rest) =>
              let '(l, e) := raw_decode_all f reg lim rest in ((m, ids, size) :: l, e)
          | Err => ([], Err)
          | Panic => ([], Panic)
          end
      end
  end.

(* the buffer lengths requested through ByteBuffer.ChangeLen while reading one frame *)
Definition raw_allocs (lim : N) (s : bytes) : list N :=
  4 ::
  match take 4 s with
  | Ok (b4, s) =>
      let size := N_of_be b4 in
      if (lim <? size) || (size <? 4) then []
      else
        let last := size - 4 in
        last ::
        match take 1 s with
        | Ok ([x], _) => if last <? 1 + b2n x then [] else [last - 1 - b2n x]
        | _ => []
        end
  | _ => []
  end.

(* ---- reading through arbitrary chunks ---- *)
Fixpoint read_chunks (cs : list bytes) (n : nat) : option (bytes * list bytes) :=
  match n with
  | O => Some ([], cs)
  | _ =>
      match cs with
      | [] => None
      | c :: r =>
          if Nat.ltb (length c) n then
            match read_chunks r (n - length c) with
            | Some (x, rest) => Some (c ++ x, rest)
            | None => None
            end
          else Some (firstn n c, skipn n c :: r)
      end
  end.
