(* Model of the parts of Go's net/url used by codec/form_codec.go, concretely over byte
   strings: QueryEscape, QueryUnescape, url.Values (a map from string to []string),
   Values.Encode (keys sorted bytewise) and ParseQuery.  Definitions only. *)
From Coq Require Import Strings.String Strings.Byte.
From Coq Require Import List Arith NArith Bool Lia.
From Verif Require Import Base.Bytes Base.Val.
Import ListNotations.
Local Open Scope N_scope.

(* url.shouldEscape(c, encodeQueryComponent) negated: alphanumerics and - _ . ~ *)
Definition is_unreserved (b : byte) : bool :=
  let n := b2n b in
  ((48 <=? n) && (n <=? 57)) || ((65 <=? n) && (n <=? 90)) || ((97 <=? n) && (n <=? 122))
  || (n =? 45) || (n =? 95) || (n =? 46) || (n =? 126).

Definition upperhex (n : N) : byte := n2b (if n <? 10 then 48 + n else 55 + n).

(* url.escape(s, encodeQueryComponent), one input byte *)
Definition escape_byte (b : byte) : bytes :=
  if is_unreserved b then [b]
  else if beqb b " "%byte then ["+"%byte]
  else ["%"%byte; upperhex (b2n b / 16); upperhex (b2n b mod 16)].

(* url.QueryEscape *)
Definition query_escape (s : bytes) : bytes := flat_map escape_byte s.

(* url.QueryUnescape: [None] = EscapeError.  The two passes of url.unescape (validate,
   then rewrite) consume the input identically, so one pass suffices. *)
Fixpoint query_unescape (s : bytes) : option bytes :=
  match s with
  | [] => Some []
  | b :: r =>
      if beqb b "%"%byte then
        match r with
        | h1 :: h2 :: r' =>
            match hexdig h1, hexdig h2 with
            | Some a, Some c => option_map (cons (n2b (16 * a + c))) (query_unescape r')
            | _, _ => None
            end
        | _ => None
        end
      else option_map (cons (if beqb b "+"%byte then " "%byte else b)) (query_unescape r)
  end.

(* ---- url.Values: association list with unique keys (Go map) ---- *)
Definition values := list (bytes * list bytes).

Fixpoint vget (q : values) (k : bytes) : option (list bytes) :=
  match q with
  | [] => None
  | (k', vs) :: r => if bytes_eqb k' k then Some vs else vget r k
  end.

(* q[k] = vs *)
Fixpoint vset (q : values) (k : bytes) (vs : list bytes) : values :=
  match q with
  | [] => [(k, vs)]
  | (k', vs') :: r => if bytes_eqb k' k then (k', vs) :: r else (k', vs') :: vset r k vs
  end.

(* q[k] = append(q[k], vs...) *)
Definition vappend_all (q : values) (k : bytes) (vs : list bytes) : values :=
  vset q k (match vget q k with Some a => a ++ vs | None => vs end).

(* Go string order (bytewise lexicographic) *)
Fixpoint bytes_leb (a b : bytes) : bool :=
  match a, b with
  | [], _ => true
  | _ :: _, [] => false
  | x :: a', y :: b' =>
      if b2n x <? b2n y then true else if b2n y <? b2n x then false else bytes_leb a' b'
  end.

Fixpoint insert_entry (e : bytes * list bytes) (l : values) : values :=
  match l with
  | [] => [e]
  | h :: t => if bytes_leb (fst e) (fst h) then e :: l else h :: insert_entry e t
  end.

(* slices.Sort(keys) of Values.Encode; also the canonical order in which a map is printed *)
Definition sort_values (q : values) : values := fold_right insert_entry [] q.

(* the key=value pairs Values.Encode writes, in order *)
Definition pairs_of (q : values) : list (bytes * bytes) :=
  flat_map (fun e => map (fun v => (fst e, v)) (snd e)) q.

Definition segment_of (kv : bytes * bytes) : bytes :=
  query_escape (fst kv) ++ "="%byte :: query_escape (snd kv).

Fixpoint join_amp (l : list bytes) : bytes :=
  match l with
  | [] => []
  | [s] => s
  | s :: r => s ++ "&"%byte :: join_amp r
  end.

(* Values.Encode *)
Definition values_encode (q : values) : bytes :=
  join_amp (map segment_of (pairs_of (sort_values q))).

(* ---- url.ParseQuery ---- *)
(* repeated strings.Cut(query, "&"); a trailing empty piece is skipped by the caller anyway *)
Fixpoint split_on (sep : byte) (s : bytes) : list bytes :=
  match s with
  | [] => [[]]
  | b :: r =>
      if beqb b sep then [] :: split_on sep r
      else match split_on sep r with
           | h :: t => (b :: h) :: t
           | [] => [[b]]
           end
  end.

(* strings.Cut(s, sep): before and after the first sep (after is empty when absent) *)
Fixpoint cut (sep : byte) (s : bytes) : bytes * bytes :=
  match s with
  | [] => ([], [])
  | b :: r => if beqb b sep then ([], r) else let (a, c) := cut sep r in (b :: a, c)
  end.

Definition contains (sep : byte) (s : bytes) : bool := existsb (beqb sep) s.

Inductive segres := SegSkip | SegErr | SegKV (k v : bytes).

(* one iteration of the loop in url.parseQuery *)
Definition parse_segment (seg : bytes) : segres :=
  if contains ";"%byte seg then SegErr
  else match seg with
       | [] => SegSkip
       | _ =>
           let (k, v) := cut "="%byte seg in
           match query_unescape k with
           | None => SegErr
           | Some k' =>
               match query_unescape v with
               | None => SegErr
               | Some v' => SegKV k' v'
               end
           end
       end.

(* the map after the loop and whether an error was recorded *)
Fixpoint parse_segments (segs : list bytes) (q : values) (err : bool) : values * bool :=
  match segs with
  | [] => (q, err)
  | s :: r =>
      match parse_segment s with
      | SegSkip => parse_segments r q err
      | SegErr => parse_segments r q true
      | SegKV k v => parse_segments r (vappend_all q k [v]) err
      end
  end.

(* url.ParseQuery as used by FormCodec.Unmarshal, which discards the map on any error *)
Definition parse_query (s : bytes) : option values :=
  let (q, err) := parse_segments (split_on "&"%byte s) [] false in
  if err then None else Some q.
