(* Model of the plugin containers and the hook call sites of the root package.
     plugin.go   PluginContainer, newPluginContainer, cloneAndAppendMiddle, AppendLeft,
                 AppendRight, Remove, refresh, pluginSingleContainer.appendLeft/appendRight,
                 the per-stage loops preWriteCall ... postReadReplyBody
     router.go   SubRouter.SubRoute, SubRouter.reg (the Route family), Router.SetUnknownCall/Push,
                 SubRouter.getCall/getPush
     context.go  handlerCtx.binding, bindCall, handleCall, bindPush, handlePush, bindReply,
                 handleReply (which container is current at which stage)
     session.go  session.AsyncCall, session.Push, session.startReadAndHandle
     peer.go     NewPeer (global container, first AppendLeft)
   Definitions only.  Part 1 models the repaired tree (commit "fix: plugin containers ...");
   part 3 keeps the pinned behaviour (non-recursive tree refresh, append onto the parent's
   middle slice with explicit Go slice aliasing) as [*_prefix] definitions. *)
From Coq Require Import Strings.String Strings.Byte.
From Coq Require Import List Arith NArith ZArith Bool Lia.
From Verif Require Import Base.Bytes.
Import ListNotations.

(* ---- stages: the sixteen per-message plugin interfaces declared in plugin.go ---- *)
Inductive stage :=
| PreWriteCall | PostWriteCall | PreWriteReply | PostWriteReply | PreWritePush | PostWritePush
| PreReadHeader
| PostReadCallHeader | PreReadCallBody | PostReadCallBody
| PostReadPushHeader | PreReadPushBody | PostReadPushBody
| PostReadReplyHeader | PreReadReplyBody | PostReadReplyBody.

Definition stage_id (s : stage) : N :=
  match s with
  | PreWriteCall => 0 | PostWriteCall => 1 | PreWriteReply => 2 | PostWriteReply => 3
  | PreWritePush => 4 | PostWritePush => 5 | PreReadHeader => 6
  | PostReadCallHeader => 7 | PreReadCallBody => 8 | PostReadCallBody => 9
  | PostReadPushHeader => 10 | PreReadPushBody => 11 | PostReadPushBody => 12
  | PostReadReplyHeader => 13 | PreReadReplyBody => 14 | PostReadReplyBody => 15
  end%N.

Definition all_stages : list stage :=
  [PreWriteCall; PostWriteCall; PreWriteReply; PostWriteReply; PreWritePush; PostWritePush;
   PreReadHeader; PostReadCallHeader; PreReadCallBody; PostReadCallBody;
   PostReadPushHeader; PreReadPushBody; PostReadPushBody;
   PostReadReplyHeader; PreReadReplyBody; PostReadReplyBody].

(* A plugin: its Name(), which stage interfaces its concrete type satisfies (the containers
   decide by type assertion), and what each hook returns: status code 0 = OK (nil *Status or
   nil error), anything else = a refusal carrying that code. *)
Record plugin := mkPlugin {
  p_name : N;
  p_impl : stage -> bool;
  p_verdict : stage -> Z
}.

Definition event := (N * stage)%type.          (* (plugin name, stage) *)

(* plugin.go, every per-stage loop: walk the flat list in order, skip plugins whose type
   does not implement the stage, stop at (and report) the first refusal. *)
Fixpoint run_stage (s : stage) (ps : list plugin) : list event * Z :=
  match ps with
  | [] => ([], 0%Z)
  | p :: r =>
      if p_impl p s then
        if Z.eqb (p_verdict p s) 0 then
          let '(t, v) := run_stage s r in ((p_name p, s) :: t, v)
        else ([(p_name p, s)], p_verdict p s)
      else run_stage s r
  end.

Definition verdict_of (s : stage) (ps : list plugin) : Z := snd (run_stage s ps).
Definition vetoes (s : stage) (ps : list plugin) : bool := negb (Z.eqb (verdict_of s ps) 0).

(* A plan lists which stage function ran on which flat list, in order; the hook trace is
   derived from it. *)
Definition plan := list (stage * list plugin).
Definition trace_of (pl : plan) : list event :=
  flat_map (fun sc => fst (run_stage (fst sc) (snd sc))) pl.

(* ====================== part 1: containers (repaired tree) ====================== *)

(* PluginContainer.  [left] and [right] are *pluginSingleContainer pointers copied from the
   parent by cloneAndAppendMiddle, and every container descends from the peer's global one,
   so there is exactly one left list and one right list per peer: they live in the state.
   [c_flat] is the embedded pluginSingleContainer.plugins (what the stage loops walk), a
   cache rewritten only by refresh.  [c_kids] is the closure chain held in refreshTree:
   the clones taken from this container, in order. *)
Record container := mkCont {
  c_middle : list plugin;
  c_flat : list plugin;
  c_kids : list nat
}.

Inductive kind := KCall | KPush.
Definition kind_eqb (a b : kind) : bool :=
  match a, b with KCall, KCall | KPush, KPush => true | _, _ => false end.

Record handler := mkHandler { h_kind : kind; h_id : N; h_stat : Z; h_cont : nat }.

Record pstate := mkSt {
  s_left : list plugin;
  s_right : list plugin;
  s_conts : list container;         (* index = container identity; 0 = the global one *)
  s_routers : list nat;             (* router -> its container; router 0 = the peer *)
  s_handlers : list handler;        (* callHandlers / pushHandlers *)
  s_unk_call : option handler;
  s_unk_push : option handler
}.

Definition dflt_cont : container := mkCont [] [] [].
Definition get_cont (st : pstate) (i : nat) : container := nth i (s_conts st) dflt_cont.

Fixpoint upd {A} (i : nat) (x : A) (l : list A) : list A :=
  match l, i with
  | [], _ => []
  | _ :: r, O => x :: r
  | a :: r, S j => a :: upd j x r
  end.

Definition with_conts (st : pstate) (cs : list container) : pstate :=
  mkSt (s_left st) (s_right st) cs (s_routers st) (s_handlers st) (s_unk_call st) (s_unk_push st).
Definition set_cont (st : pstate) (i : nat) (c : container) : pstate :=
  with_conts st (upd i c (s_conts st)).

Fixpoint nodupb (l : list N) : bool :=
  match l with
  | [] => true
  | x :: r => negb (existsb (N.eqb x) r) && nodupb r
  end.

(* PluginContainer.refresh: flat := left ++ middle ++ right; a repeated name is
   Fatalf (os.Exit) = [None]. *)
Definition refresh (st : pstate) (i : nat) : option pstate :=
  let c := get_cont st i in
  let all := s_left st ++ c_middle c ++ s_right st in
  if nodupb (map p_name all)
  then Some (set_cont st i (mkCont (c_middle c) all (c_kids c)))
  else None.

(* The closure chain of refreshTree, repaired: p.refresh(), then each clone's refreshTree()
   in clone order.  Containers only ever point at later indices, fuel = store size. *)
Fixpoint tree_order (fuel : nat) (cs : list container) (i : nat) : list nat :=
  match fuel with
  | O => [i]
  | S f => i :: flat_map (tree_order f cs) (c_kids (nth i cs dflt_cont))
  end.

Fixpoint refresh_all (st : pstate) (ids : list nat) : option pstate :=
  match ids with
  | [] => Some st
  | i :: r => match refresh st i with
              | Some st' => refresh_all st' r
              | None => None
              end
  end.

Definition refresh_tree (st : pstate) (i : nat) : option pstate :=
  refresh_all st (tree_order (length (s_conts st)) (s_conts st) i).

(* cloneAndAppendMiddle (repaired): the clone owns a fresh middle slice
   = parent's middle ++ plugins, shares left/right, is refreshed once, and is chained into
   the parent's refreshTree. *)
Definition clone (st : pstate) (parent : nat) (ps : list plugin) : option (pstate * nat) :=
  if Nat.ltb parent (length (s_conts st)) then
    let n := length (s_conts st) in
    let c := mkCont (c_middle (get_cont st parent) ++ ps) [] [] in
    match refresh (with_conts st (s_conts st ++ [c])) n with
    | None => None
    | Some st2 =>
        let p := get_cont st2 parent in
        Some (set_cont st2 parent (mkCont (c_middle p) (c_flat p) (c_kids p ++ [n])), n)
    end
  else None.

(* pluginSingleContainer.remove: the first plugin carrying the name is cut out of the list
   (append(p.plugins[:i], p.plugins[i+1:]...)); a name that is not there is an error that
   PluginContainer.Remove ignores for left/middle/right. *)
Fixpoint remove_first (nm : N) (l : list plugin) : list plugin :=
  match l with
  | [] => []
  | p :: r => if N.eqb (p_name p) nm then r else p :: remove_first nm r
  end.
Definition has_name (nm : N) (l : list plugin) : bool := existsb (fun p => N.eqb (p_name p) nm) l.

(* PluginContainer.Remove.  Only the peer's global container (index 0) is reachable from user
   code (Peer.PluginContainer()).  The embedded flat list decides: a name that is not on the
   global chain is an error and NOTHING changes (a plugin registered with a router group or a
   handler cannot be removed this way).  Otherwise the name is cut out of the shared left list,
   the container's own middle list and the shared right list, and the whole tree of derived
   containers is refreshed.  [deep = false] is the variant that rebuilds the global container
   only (p.refresh() instead of p.refreshTree()). *)
Definition remove_op (deep : bool) (st : pstate) (nm : N) : option pstate :=
  let c0 := get_cont st 0 in
  if has_name nm (c_flat c0) then
    let st1 := mkSt (remove_first nm (s_left st)) (remove_first nm (s_right st))
                    (upd 0 (mkCont (remove_first nm (c_middle c0)) (c_flat c0) (c_kids c0)) (s_conts st))
                    (s_routers st) (s_handlers st) (s_unk_call st) (s_unk_push st) in
    if deep then refresh_tree st1 0 else refresh st1 0
  else Some st.
(* the error value Remove hands back: true = an error was returned *)
Definition remove_err (st : pstate) (nm : N) : bool := negb (has_name nm (c_flat (get_cont st 0))).

Inductive op :=
| OSub (parent : nat) (ps : list plugin)                          (* SubRouter.SubRoute *)
| ORoute (k : kind) (router : nat) (hid : N) (hstat : Z) (ps : list plugin)  (* SubRouter.reg *)
| OUnknown (k : kind) (hid : N) (hstat : Z) (ps : list plugin)    (* Peer.SetUnknownCall/Push *)
| OLeft (ps : list plugin)                                        (* PluginContainer.AppendLeft *)
| ORight (ps : list plugin)                                       (* PluginContainer.AppendRight *)
| ORemove (nm : N).                                               (* PluginContainer.Remove (by name) *)

Definition handler_is (k : kind) (hid : N) (h : handler) : bool :=
  kind_eqb (h_kind h) k && N.eqb (h_id h) hid.

(* [None] = the process exits (Fatalf: repeated plugin name on a chain, handler conflict) or
   the history names a router that does not exist (impossible in Go: the receiver is a value). *)
Definition step (st : pstate) (o : op) : option pstate :=
  match o with
  | OSub parent ps =>
      match nth_error (s_routers st) parent with
      | None => None
      | Some pc =>
          match clone st pc ps with
          | None => None
          | Some (st', n) =>
              Some (mkSt (s_left st') (s_right st') (s_conts st') (s_routers st' ++ [n])
                         (s_handlers st') (s_unk_call st') (s_unk_push st'))
          end
      end
  | ORoute k r hid hs ps =>
      match nth_error (s_routers st) r with
      | None => None
      | Some pc =>
          if existsb (handler_is k hid) (s_handlers st) then None
          else match clone st pc ps with
               | None => None
               | Some (st', n) =>
                   Some (mkSt (s_left st') (s_right st') (s_conts st') (s_routers st')
                              (s_handlers st' ++ [mkHandler k hid hs n])
                              (s_unk_call st') (s_unk_push st'))
               end
      end
  | OUnknown k hid hs ps =>
      match clone st 0 ps with
      | None => None
      | Some (st', n) =>
          match k with
          | KCall => Some (mkSt (s_left st') (s_right st') (s_conts st') (s_routers st')
                                (s_handlers st') (Some (mkHandler k hid hs n)) (s_unk_push st'))
          | KPush => Some (mkSt (s_left st') (s_right st') (s_conts st') (s_routers st')
                                (s_handlers st') (s_unk_call st') (Some (mkHandler k hid hs n)))
          end
      end
  | OLeft ps =>      (* appendLeft: plugins go in front of what is there *)
      refresh_tree (mkSt (ps ++ s_left st) (s_right st) (s_conts st) (s_routers st)
                         (s_handlers st) (s_unk_call st) (s_unk_push st)) 0
  | ORight ps =>
      refresh_tree (mkSt (s_left st) (s_right st ++ ps) (s_conts st) (s_routers st)
                         (s_handlers st) (s_unk_call st) (s_unk_push st)) 0
  | ORemove nm => remove_op true st nm
  end.

(* newPluginContainer + newRouter: one empty global container, the root router on it. *)
Definition init_state : pstate := mkSt [] [] [mkCont [] [] []] [0] [] None None.

Fixpoint run_from (st : pstate) (ops : list op) : option pstate :=
  match ops with
  | [] => Some st
  | o :: r => match step st o with Some st' => run_from st' r | None => None end
  end.
Definition run (ops : list op) : option pstate := run_from init_state ops.

(* ---- histories that cannot hit a Fatalf: the routers they name exist, no handler is
        registered twice, and the plugin names used anywhere in the history are distinct ---- *)
Definition op_plugins (o : op) : list plugin :=
  match o with
  | OSub _ ps | ORoute _ _ _ _ ps | OUnknown _ _ _ ps | OLeft ps | ORight ps => ps
  | ORemove _ => []
  end.
Definition history_plugins (ops : list op) : list plugin := flat_map op_plugins ops.

Definition key_is (k : kind) (hid : N) (e : kind * N) : bool := kind_eqb (fst e) k && N.eqb (snd e) hid.

Fixpoint refs_ok (nrouters : nat) (hs : list (kind * N)) (ops : list op) : bool :=
  match ops with
  | [] => true
  | OSub p _ :: r => Nat.ltb p nrouters && refs_ok (S nrouters) hs r
  | ORoute k rt hid _ _ :: r =>
      Nat.ltb rt nrouters && negb (existsb (key_is k hid) hs) && refs_ok nrouters (hs ++ [(k, hid)]) r
  | _ :: r => refs_ok nrouters hs r
  end.

(* ---- what the property prescribes, from the configuration history alone ---- *)
Definition hview := (N * Z * list plugin)%type.   (* handler id, its status, its chain *)

Record spec := mkSpec {
  sp_left : list plugin;
  sp_right : list plugin;
  sp_chains : list (list plugin);                  (* per router: groups, outer -> inner *)
  sp_handlers : list (kind * hview);               (* chain = groups ++ handler-level *)
  sp_unk_call : option hview;
  sp_unk_push : option hview
}.

Definition spec_init : spec := mkSpec [] [] [[]] [] None None.

Definition spec_step (sp : spec) (o : op) : spec :=
  match o with
  | OSub parent ps =>
      mkSpec (sp_left sp) (sp_right sp) (sp_chains sp ++ [nth parent (sp_chains sp) [] ++ ps])
             (sp_handlers sp) (sp_unk_call sp) (sp_unk_push sp)
  | ORoute k r hid hs ps =>
      mkSpec (sp_left sp) (sp_right sp) (sp_chains sp)
             (sp_handlers sp ++ [(k, (hid, hs, nth r (sp_chains sp) [] ++ ps))])
             (sp_unk_call sp) (sp_unk_push sp)
  | OUnknown KCall hid hs ps =>
      mkSpec (sp_left sp) (sp_right sp) (sp_chains sp) (sp_handlers sp) (Some (hid, hs, ps)) (sp_unk_push sp)
  | OUnknown KPush hid hs ps =>
      mkSpec (sp_left sp) (sp_right sp) (sp_chains sp) (sp_handlers sp) (sp_unk_call sp) (Some (hid, hs, ps))
  | OLeft ps =>
      mkSpec (ps ++ sp_left sp) (sp_right sp) (sp_chains sp) (sp_handlers sp) (sp_unk_call sp) (sp_unk_push sp)
  | ORight ps =>
      mkSpec (sp_left sp) (sp_right sp ++ ps) (sp_chains sp) (sp_handlers sp) (sp_unk_call sp) (sp_unk_push sp)
  | ORemove nm =>     (* only a global plugin can be removed; everything else keeps its place *)
      if has_name nm (sp_left sp ++ sp_right sp) then
        mkSpec (remove_first nm (sp_left sp)) (remove_first nm (sp_right sp)) (sp_chains sp)
               (sp_handlers sp) (sp_unk_call sp) (sp_unk_push sp)
      else sp
  end.

Definition spec_of (ops : list op) : spec := fold_left spec_step ops spec_init.

(* ====================== part 2: the stage sequence per message ====================== *)

Inductive srv_outcome := SReplied (code : Z) | SNoReply | SDisconnect.

Record srv_result := mkSrv {
  sr_prh : plan;            (* the PreReadHeader round of the read that delivered the message *)
  sr_plan : plan;
  sr_invoked : list N;
  sr_out : srv_outcome
}.

Definition code_not_found : Z := 404.      (* status.go CodeNotFound *)
Definition code_conn_closed : Z := 102.    (* status.go CodeConnClosed *)

(* session.startReadAndHandle -> binding -> bindCall -> handle -> handleCall.
   [g] is the peer's global flat list (current container before routing), [h] the matched
   handler with ITS container's flat list (current after "reset plugin container"). *)
Definition srv_call (g : list plugin) (h : option hview) : srv_result :=
  if vetoes PreReadHeader g then mkSrv [(PreReadHeader, g)] [] [] SDisconnect
  else
    let reply cur pre inv code :=
      mkSrv [(PreReadHeader, g)] (pre ++ [(PreWriteReply, cur); (PostWriteReply, cur)]) inv (SReplied code) in
    if vetoes PostReadCallHeader g then
      reply g [(PostReadCallHeader, g)] [] (verdict_of PostReadCallHeader g)
    else match h with
    | None => reply g [(PostReadCallHeader, g)] [] code_not_found
    | Some (hid, hs, hc) =>
        if vetoes PreReadCallBody hc then
          reply hc [(PostReadCallHeader, g); (PreReadCallBody, hc)] [] (verdict_of PreReadCallBody hc)
        else if vetoes PostReadCallBody hc then
          reply hc [(PostReadCallHeader, g); (PreReadCallBody, hc); (PostReadCallBody, hc)] []
                (verdict_of PostReadCallBody hc)
        else
          reply hc [(PostReadCallHeader, g); (PreReadCallBody, hc); (PostReadCallBody, hc)] [hid] hs
    end.

(* binding -> bindPush -> handle -> handlePush: never a reply. *)
Definition srv_push (g : list plugin) (h : option hview) : srv_result :=
  if vetoes PreReadHeader g then mkSrv [(PreReadHeader, g)] [] [] SDisconnect
  else
    let fin pl inv := mkSrv [(PreReadHeader, g)] pl inv SNoReply in
    if vetoes PostReadPushHeader g then fin [(PostReadPushHeader, g)] []
    else match h with
    | None => fin [(PostReadPushHeader, g)] []
    | Some (hid, hs, hc) =>
        if vetoes PreReadPushBody hc then fin [(PostReadPushHeader, g); (PreReadPushBody, hc)] []
        else if vetoes PostReadPushBody hc then
          fin [(PostReadPushHeader, g); (PreReadPushBody, hc); (PostReadPushBody, hc)] []
        else fin [(PostReadPushHeader, g); (PreReadPushBody, hc); (PostReadPushBody, hc)] [hid]
    end.

Record msg_result := mkRes {
  r_written : bool;
  r_cli : plan;
  r_cli_prh : plan;
  r_srv_prh : plan;
  r_srv : plan;
  r_invoked : list N;
  r_status : Z              (* what Call(...).Status() / Push(...) hands the caller; 0 = OK *)
}.

(* session.AsyncCall, then the remote srv_call, then binding -> bindReply -> handleReply on
   the calling side.  [gc] = caller's global flat list, [gs] = callee's. *)
Definition exchange_call_sr (gc : list plugin) (sr : srv_result) : msg_result :=
  if vetoes PreWriteCall gc then
    mkRes false [(PreWriteCall, gc)] [] [] [] [] (verdict_of PreWriteCall gc)
  else
    let w := [(PreWriteCall, gc); (PostWriteCall, gc)] in
    match sr_out sr with
    | SReplied code =>
        let fin pl prh st := mkRes true (w ++ pl) prh (sr_prh sr) (sr_plan sr) (sr_invoked sr) st in
        if vetoes PreReadHeader gc then fin [] [(PreReadHeader, gc)] code_conn_closed
        else if vetoes PostReadReplyHeader gc then
          fin [(PostReadReplyHeader, gc)] [(PreReadHeader, gc)] (verdict_of PostReadReplyHeader gc)
        else if vetoes PreReadReplyBody gc then
          fin [(PostReadReplyHeader, gc); (PreReadReplyBody, gc)] [(PreReadHeader, gc)]
              (verdict_of PreReadReplyBody gc)
        else if Z.eqb code 0 then
          fin [(PostReadReplyHeader, gc); (PreReadReplyBody, gc); (PostReadReplyBody, gc)]
              [(PreReadHeader, gc)] (verdict_of PostReadReplyBody gc)
        else
          fin [(PostReadReplyHeader, gc); (PreReadReplyBody, gc)] [(PreReadHeader, gc)] code
    | _ => mkRes true w [] (sr_prh sr) (sr_plan sr) (sr_invoked sr) code_conn_closed
    end.

Definition exchange_call (gc gs : list plugin) (h : option hview) : msg_result :=
  exchange_call_sr gc (srv_call gs h).

(* session.Push, then the remote srv_push. *)
Definition exchange_push_sr (gc : list plugin) (sr : srv_result) : msg_result :=
  if vetoes PreWritePush gc then
    mkRes false [(PreWritePush, gc)] [] [] [] [] (verdict_of PreWritePush gc)
  else
    mkRes true [(PreWritePush, gc); (PostWritePush, gc)] [] (sr_prh sr) (sr_plan sr) (sr_invoked sr) 0.

Definition exchange_push (gc gs : list plugin) (h : option hview) : msg_result :=
  exchange_push_sr gc (srv_push gs h).

Inductive msg := MCall (hid : N) | MPush (hid : N).

Definition global_flat (st : pstate) : list plugin := c_flat (get_cont st 0).

(* SubRouter.getCall / getPush: the handler table, else the unknown handler. *)
Definition lookup (st : pstate) (k : kind) (hid : N) : option handler :=
  match find (handler_is k hid) (s_handlers st) with
  | Some h => Some h
  | None => match k with KCall => s_unk_call st | KPush => s_unk_push st end
  end.

Definition view (st : pstate) (h : handler) : hview :=
  (h_id h, h_stat h, c_flat (get_cont st (h_cont h))).

Definition exchange (cli srv : pstate) (m : msg) : msg_result :=
  match m with
  | MCall hid => exchange_call (global_flat cli) (global_flat srv) (option_map (view srv) (lookup srv KCall hid))
  | MPush hid => exchange_push (global_flat cli) (global_flat srv) (option_map (view srv) (lookup srv KPush hid))
  end.

(* The same exchange computed from the specification: global = left ++ right, a handler's
   chain = left ++ groups ++ handler-level ++ right. *)
Definition spec_global (sp : spec) : list plugin := sp_left sp ++ sp_right sp.

Definition spec_is (k : kind) (hid : N) (e : kind * hview) : bool :=
  kind_eqb (fst e) k && N.eqb (fst (fst (snd e))) hid.

Definition spec_wrap (sp : spec) (v : hview) : hview :=
  (fst (fst v), snd (fst v), sp_left sp ++ snd v ++ sp_right sp).

Definition spec_lookup (sp : spec) (k : kind) (hid : N) : option hview :=
  match find (spec_is k hid) (sp_handlers sp) with
  | Some e => Some (spec_wrap sp (snd e))
  | None => option_map (spec_wrap sp) (match k with KCall => sp_unk_call sp | KPush => sp_unk_push sp end)
  end.

Definition spec_exchange (cli srv : spec) (m : msg) : msg_result :=
  match m with
  | MCall hid => exchange_call (spec_global cli) (spec_global srv) (spec_lookup srv KCall hid)
  | MPush hid => exchange_push (spec_global cli) (spec_global srv) (spec_lookup srv KPush hid)
  end.

(* ---- two fault paths of the handling side ----
   FNoPool: session.startReadAndHandle finds no goroutine in the pool (Go returns false).
     A CALL is then handled on the read goroutine with ctx.stat preset to 500 "no goroutine
     available" UNLESS binding already left a status (hook refusal, 404): handleCall skips
     PostReadCallBody and the handler and replies.  A PUSH is skipped after binding.
   FBadReply: the handler's result cannot be written (body codec cannot encode it, size
     limit, failing filter): context.go handleCall's first writeReply fails with a
     non-connection error, a substitute 500 reply is written WITHOUT running PreWriteReply
     again, and PostWriteReply does not run. *)
Inductive fault := FNone | FNoPool | FBadReply.

Definition code_internal : Z := 500.       (* status.go CodeInternalServerError *)

Definition srv_call_nopool (g : list plugin) (h : option hview) : srv_result :=
  if vetoes PreReadHeader g then mkSrv [(PreReadHeader, g)] [] [] SDisconnect
  else
    let reply cur pre code :=
      mkSrv [(PreReadHeader, g)] (pre ++ [(PreWriteReply, cur); (PostWriteReply, cur)]) [] (SReplied code) in
    if vetoes PostReadCallHeader g then
      reply g [(PostReadCallHeader, g)] (verdict_of PostReadCallHeader g)
    else match h with
    | None => reply g [(PostReadCallHeader, g)] code_not_found
    | Some (hid, hs, hc) =>
        if vetoes PreReadCallBody hc then
          reply hc [(PostReadCallHeader, g); (PreReadCallBody, hc)] (verdict_of PreReadCallBody hc)
        else
          reply hc [(PostReadCallHeader, g); (PreReadCallBody, hc)] code_internal
    end.

Definition srv_call_badreply (g : list plugin) (h : option hview) : srv_result :=
  if vetoes PreReadHeader g then mkSrv [(PreReadHeader, g)] [] [] SDisconnect
  else
    let reply cur pre inv code :=
      mkSrv [(PreReadHeader, g)] (pre ++ [(PreWriteReply, cur); (PostWriteReply, cur)]) inv (SReplied code) in
    if vetoes PostReadCallHeader g then
      reply g [(PostReadCallHeader, g)] [] (verdict_of PostReadCallHeader g)
    else match h with
    | None => reply g [(PostReadCallHeader, g)] [] code_not_found
    | Some (hid, hs, hc) =>
        let pre3 := [(PostReadCallHeader, g); (PreReadCallBody, hc); (PostReadCallBody, hc)] in
        if vetoes PreReadCallBody hc then
          reply hc [(PostReadCallHeader, g); (PreReadCallBody, hc)] [] (verdict_of PreReadCallBody hc)
        else if vetoes PostReadCallBody hc then reply hc pre3 [] (verdict_of PostReadCallBody hc)
        else if Z.eqb hs 0 then
          (* regular reply unwritable: one PreWriteReply, substitute 500, no PostWriteReply *)
          mkSrv [(PreReadHeader, g)] (pre3 ++ [(PreWriteReply, hc)]) [hid] (SReplied code_internal)
        else reply hc pre3 [hid] hs
    end.

Definition srv_push_nopool (g : list plugin) (h : option hview) : srv_result :=
  if vetoes PreReadHeader g then mkSrv [(PreReadHeader, g)] [] [] SDisconnect
  else
    let fin pl := mkSrv [(PreReadHeader, g)] pl [] SNoReply in
    if vetoes PostReadPushHeader g then fin [(PostReadPushHeader, g)]
    else match h with
    | None => fin [(PostReadPushHeader, g)]
    | Some (hid, hs, hc) => fin [(PostReadPushHeader, g); (PreReadPushBody, hc)]
    end.

Definition srv_call_f (f : fault) (g : list plugin) (h : option hview) : srv_result :=
  match f with
  | FNone => srv_call g h
  | FNoPool => srv_call_nopool g h
  | FBadReply => srv_call_badreply g h
  end.

Definition srv_push_f (f : fault) (g : list plugin) (h : option hview) : srv_result :=
  match f with
  | FNoPool => srv_push_nopool g h
  | _ => srv_push g h
  end.

Definition exchange_f (f : fault) (cli srv : pstate) (m : msg) : msg_result :=
  match m with
  | MCall hid => exchange_call_sr (global_flat cli)
                   (srv_call_f f (global_flat srv) (option_map (view srv) (lookup srv KCall hid)))
  | MPush hid => exchange_push_sr (global_flat cli)
                   (srv_push_f f (global_flat srv) (option_map (view srv) (lookup srv KPush hid)))
  end.

Definition spec_exchange_f (f : fault) (cli srv : spec) (m : msg) : msg_result :=
  match m with
  | MCall hid => exchange_call_sr (spec_global cli) (srv_call_f f (spec_global srv) (spec_lookup srv KCall hid))
  | MPush hid => exchange_push_sr (spec_global cli) (srv_push_f f (spec_global srv) (spec_lookup srv KPush hid))
  end.

(* the two variants the fault paths must NOT be: the pool fallback overwriting a status that
   binding left, and the substitute reply going through PreWriteReply a second time *)
Definition srv_call_nopool_overwrite (g : list plugin) (h : option hview) : srv_result :=
  let sr := srv_call_nopool g h in
  match sr_out sr with
  | SReplied _ => mkSrv (sr_prh sr) (sr_plan sr) (sr_invoked sr) (SReplied code_internal)
  | _ => sr
  end.

Definition srv_call_badreply_again (g : list plugin) (h : option hview) : srv_result :=
  let sr := srv_call_badreply g h in
  match h with
  | Some (hid, hs, hc) =>
      if negb (existsb (fun sc => N.eqb (stage_id (fst sc)) (stage_id PostWriteReply)) (sr_plan sr))
         && negb (vetoes PreReadHeader g)
      then mkSrv (sr_prh sr) (sr_plan sr ++ [(PreWriteReply, hc)]) (sr_invoked sr) (sr_out sr)
      else sr
  | None => sr
  end.

(* ---- the sending side under redial: session.Push / session.AsyncCall label W ----
   After the pre-write stage the write is attempted; "write failed with statConnClosed and
   redialForClient succeeded" jumps back to label W, which sits AFTER the pre-write stage.
   [n] = how often that edge is taken before the final attempt, [final] = how the last
   attempt ends.  [reenter = true] is the variant whose label sits above the stage. *)
Inductive write_final := WOk | WRedialFail.

Record send_result := mkSend {
  sd_plan : plan;
  sd_written : bool;
  sd_status : Z
}.

Fixpoint reentries (reenter : bool) (pre : stage) (gc : list plugin) (n : nat) : plan :=
  match n with
  | O => []
  | S k => (if reenter then [(pre, gc)] else []) ++ reentries reenter pre gc k
  end.

Definition send_flow (reenter : bool) (pre post : stage) (gc : list plugin) (n : nat)
           (final : write_final) : send_result :=
  if vetoes pre gc then mkSend [(pre, gc)] false (verdict_of pre gc)
  else
    let again := reentries reenter pre gc n in
    match final with
    | WOk => mkSend ((pre, gc) :: again ++ [(post, gc)]) true 0
    | WRedialFail => mkSend ((pre, gc) :: again) false code_conn_closed
    end.

(* ---- the documented stage order (doc comments of the interfaces in plugin.go) ---- *)
Definition seq_call_caller : list stage :=
  [PreWriteCall; PostWriteCall; PostReadReplyHeader; PreReadReplyBody; PostReadReplyBody].
Definition seq_call_callee : list stage :=
  [PostReadCallHeader; PreReadCallBody; PostReadCallBody; PreWriteReply; PostWriteReply].
Definition seq_push_sender : list stage := [PreWritePush; PostWritePush].
Definition seq_push_receiver : list stage := [PostReadPushHeader; PreReadPushBody; PostReadPushBody].

Definition caller_seq (m : msg) : list stage :=
  match m with MCall _ => seq_call_caller | MPush _ => seq_push_sender end.
Definition callee_seq (m : msg) : list stage :=
  match m with MCall _ => seq_call_callee | MPush _ => seq_push_receiver end.

(* one rank consistent with all four sequences: write, then read header/body, then reply *)
Definition stage_rank (s : stage) : nat :=
  match s with
  | PreWriteCall | PreWritePush => 0
  | PostWriteCall | PostWritePush => 1
  | PreReadHeader => 2
  | PostReadCallHeader | PostReadPushHeader | PostReadReplyHeader => 3
  | PreReadCallBody | PreReadPushBody | PreReadReplyBody => 4
  | PostReadCallBody | PostReadPushBody | PostReadReplyBody => 5
  | PreWriteReply => 6
  | PostWriteReply => 7
  end.

(* stages whose hooks run before the handler and whose refusal must keep it from running *)
Definition pre_handler (s : stage) : bool :=
  match s with
  | PreWriteCall | PreWritePush | PreReadHeader
  | PostReadCallHeader | PreReadCallBody | PostReadCallBody
  | PostReadPushHeader | PreReadPushBody | PostReadPushBody => true
  | _ => false
  end.

(* the pre-handler stages on the handling side of a CALL that answer with a status *)
Definition callee_status_stage (s : stage) : bool :=
  match s with PostReadCallHeader | PreReadCallBody | PostReadCallBody => true | _ => false end.
(* the caller-side stages whose refusal becomes the status of the call *)
Definition caller_status_stage (s : stage) : bool :=
  match s with
  | PreWriteCall | PreWritePush | PostReadReplyHeader | PreReadReplyBody | PostReadReplyBody => true
  | _ => false
  end.

Definition msg_kind (m : msg) : kind := match m with MCall _ => KCall | MPush _ => KPush end.
Definition msg_target (m : msg) : N := match m with MCall h => h | MPush h => h end.

(* ====================== part 3: the pinned tree (pre-fix), with Go slices ====================== *)

(* runtime.growslice for 16-byte pointerful elements (interface values), go1.23:
   nextslicecap, then rounding to the allocator's size classes (objects above 512 bytes
   carry an 8-byte malloc header).  Exact up to 128 elements, beyond that unrounded. *)
Definition size_classes : list N :=
  [8; 16; 24; 32; 48; 64; 80; 96; 112; 128; 144; 160; 176; 192; 208; 224; 240; 256; 288; 320;
   352; 384; 416; 448; 480; 512; 576; 640; 704; 768; 896; 1024; 1152; 1280; 1408; 1536; 1792;
   2048; 2304; 2688; 3072]%N.

Fixpoint round_class (cls : list N) (b : N) : N :=
  match cls with
  | [] => b
  | c :: r => if N.leb b c then c else round_class r b
  end.

Definition go_growcap (oldcap newlen : N) : N :=
  let nc := (if N.ltb (2 * oldcap) newlen then newlen else 2 * oldcap)%N in
  let bytes := (16 * nc)%N in
  if N.eqb nc 0 then 0%N
  else if N.ltb 512 bytes then ((round_class size_classes (bytes + 8) - 8) / 16)%N
  else (round_class size_classes bytes / 16)%N.

Record pslice := mkPS { ps_arr : nat; ps_len : nat; ps_cap : nat }.
Definition heap := list (list plugin).      (* backing arrays (the cells written so far) *)

Definition slice_get (hp : heap) (s : pslice) : list plugin :=
  firstn (ps_len s) (nth (ps_arr s) hp []).

Definition overwrite_at (arr : list plugin) (at_ : nat) (x : list plugin) : list plugin :=
  firstn at_ arr ++ x ++ skipn (at_ + length x) arr.

(* Go's append(s, x...): in place when the capacity allows, visible through every slice
   that shares the array. *)
Definition go_append (hp : heap) (s : pslice) (x : list plugin) : heap * pslice :=
  match x with
  | [] => (hp, s)
  | _ =>
    if Nat.leb (ps_len s + length x) (ps_cap s) then
      (upd (ps_arr s) (overwrite_at (nth (ps_arr s) hp []) (ps_len s) x) hp,
       mkPS (ps_arr s) (ps_len s + length x) (ps_cap s))
    else
      (hp ++ [slice_get hp s ++ x],
       mkPS (length hp) (ps_len s + length x)
            (N.to_nat (go_growcap (N.of_nat (ps_cap s)) (N.of_nat (ps_len s + length x)))))
  end.

Record container_prefix := mkContP { cp_middle : pslice; cp_flat : list plugin; cp_kids : list nat }.

Record pstate_prefix := mkStP {
  sp_heap : heap;
  spx_left : list plugin;
  spx_right : list plugin;
  spx_conts : list container_prefix;
  spx_routers : list nat;
  spx_handlers : list handler
}.

Definition dflt_contp : container_prefix := mkContP (mkPS 0 0 0) [] [].

Definition refresh_prefix (st : pstate_prefix) (i : nat) : option pstate_prefix :=
  let c := nth i (spx_conts st) dflt_contp in
  let all := spx_left st ++ slice_get (sp_heap st) (cp_middle c) ++ spx_right st in
  if nodupb (map p_name all)
  then Some (mkStP (sp_heap st) (spx_left st) (spx_right st)
                   (upd i (mkContP (cp_middle c) all (cp_kids c)) (spx_conts st))
                   (spx_routers st) (spx_handlers st))
  else None.

(* [recursive = false]: the pinned closure chain, p.refresh() then each clone's refresh(). *)
Fixpoint tree_order_prefix (recursive : bool) (fuel : nat) (cs : list container_prefix) (i : nat) : list nat :=
  match fuel with
  | O => [i]
  | S f =>
      let kids := cp_kids (nth i cs dflt_contp) in
      if recursive then i :: flat_map (tree_order_prefix recursive f cs) kids else i :: kids
  end.

Fixpoint refresh_all_prefix (st : pstate_prefix) (ids : list nat) : option pstate_prefix :=
  match ids with
  | [] => Some st
  | i :: r => match refresh_prefix st i with
              | Some st' => refresh_all_prefix st' r
              | None => None
              end
  end.

(* cloneAndAppendMiddle as pinned: middle.plugins = append(p.middle.GetAll(), plugins...). *)
Definition clone_prefix (st : pstate_prefix) (parent : nat) (ps : list plugin)
  : option (pstate_prefix * nat) :=
  if Nat.ltb parent (length (spx_conts st)) then
    let n := length (spx_conts st) in
    let pc := nth parent (spx_conts st) dflt_contp in
    let '(hp', mid) := go_append (sp_heap st) (cp_middle pc) ps in
    let st1 := mkStP hp' (spx_left st) (spx_right st) (spx_conts st ++ [mkContP mid [] []])
                     (spx_routers st) (spx_handlers st) in
    match refresh_prefix st1 n with
    | None => None
    | Some st2 =>
        let p := nth parent (spx_conts st2) dflt_contp in
        Some (mkStP (sp_heap st2) (spx_left st2) (spx_right st2)
                    (upd parent (mkContP (cp_middle p) (cp_flat p) (cp_kids p ++ [n])) (spx_conts st2))
                    (spx_routers st2) (spx_handlers st2), n)
    end
  else None.

Definition step_prefix (recursive : bool) (st : pstate_prefix) (o : op) : option pstate_prefix :=
  let tree st := refresh_all_prefix st (tree_order_prefix recursive (length (spx_conts st)) (spx_conts st) 0) in
  match o with
  | OSub parent ps =>
      match nth_error (spx_routers st) parent with
      | None => None
      | Some pc => match clone_prefix st pc ps with
                   | None => None
                   | Some (st', n) => Some (mkStP (sp_heap st') (spx_left st') (spx_right st') (spx_conts st')
                                                  (spx_routers st' ++ [n]) (spx_handlers st'))
                   end
      end
  | ORoute k r hid hs ps =>
      match nth_error (spx_routers st) r with
      | None => None
      | Some pc =>
          if existsb (handler_is k hid) (spx_handlers st) then None
          else match clone_prefix st pc ps with
               | None => None
               | Some (st', n) => Some (mkStP (sp_heap st') (spx_left st') (spx_right st') (spx_conts st')
                                              (spx_routers st') (spx_handlers st' ++ [mkHandler k hid hs n]))
               end
      end
  | OUnknown _ _ _ _ => Some st      (* not needed for the counterexamples *)
  | OLeft ps => tree (mkStP (sp_heap st) (ps ++ spx_left st) (spx_right st) (spx_conts st)
                            (spx_routers st) (spx_handlers st))
  | ORight ps => tree (mkStP (sp_heap st) (spx_left st) (spx_right st ++ ps) (spx_conts st)
                             (spx_routers st) (spx_handlers st))
  | ORemove _ => Some st            (* not needed for the counterexamples *)
  end.

(* make([]Plugin, 0): an empty window with no capacity. *)
Definition init_prefix : pstate_prefix := mkStP [[]] [] [] [mkContP (mkPS 0 0 0) [] []] [0] [].

Fixpoint run_prefix_from (recursive : bool) (st : pstate_prefix) (ops : list op) : option pstate_prefix :=
  match ops with
  | [] => Some st
  | o :: r => match step_prefix recursive st o with
              | Some st' => run_prefix_from recursive st' r
              | None => None
              end
  end.
Definition run_prefix (recursive : bool) (ops : list op) : option pstate_prefix :=
  run_prefix_from recursive init_prefix ops.

(* the flat lists of the registered handlers, as names, for comparison with the spec *)
Definition handler_flats_prefix (st : pstate_prefix) : list (N * list N) :=
  map (fun h => (h_id h, map p_name (cp_flat (nth (h_cont h) (spx_conts st) dflt_contp)))) (spx_handlers st).

Definition spec_handler_flats (sp : spec) : list (N * list N) :=
  map (fun e => (fst (fst (snd e)),
                 map p_name (sp_left sp ++ snd (snd e) ++ sp_right sp))) (sp_handlers sp).

Definition handler_flats (st : pstate) : list (N * list N) :=
  map (fun h => (h_id h, map p_name (c_flat (get_cont st (h_cont h))))) (s_handlers st).

(* ====================== Remove with a shallow refresh (variant) ====================== *)
(* PluginContainer.Remove calling p.refresh() instead of p.refreshTree(): only the global
   container's list is rebuilt, the containers derived for router groups and handlers keep
   their cached copy. *)
Definition step_shallow (st : pstate) (o : op) : option pstate :=
  match o with
  | ORemove nm => remove_op false st nm
  | _ => step st o
  end.
Fixpoint run_shallow_from (st : pstate) (ops : list op) : option pstate :=
  match ops with
  | [] => Some st
  | o :: r => match step_shallow st o with Some st' => run_shallow_from st' r | None => None end
  end.
Definition run_shallow (ops : list op) : option pstate := run_shallow_from init_state ops.
