(* C10, the way from the name a caller asks for to the name the serving peer looks up.
   Definitions only.  Session.Call/Push(serviceMethod) -> Proto.Pack (sender) -> bytes ->
   Proto.Unpack (receiver) -> Message.ServiceMethod() -> context.go bindCall/bindPush ->
   router.go getCall/getPush.  [wire p s n] is what the receiver's binding sees when the
   caller asked for [n] in namespace [s] over protocol [p]:

   raw      socket/protocol.go  rawProto.Pack: the name is written after ONE length byte;
            more than 255 bytes -> Pack fails, nothing is sent.  Unpack reads that many bytes.
   json     proto/jsonproto Pack: the name between quotes, escaped by escapeBody (backslash and
            quote backslash-escaped, bytes < 0x20 as \u00XX, every other byte raw); Unpack:
            gjson.Get(..).String(), which un-escapes with gjson.unescape.
            mixer/websocket/jsonSubProto: the same pair.  Before the repair (7ef806c):
            strconv.Quote / %q, kept as [wire_json_prefix].
   pb       proto/pbproto: a protobuf [string] field; Marshal refuses invalid UTF-8.
            mixer/websocket/pbSubProto: the same message with the older generated code, no
            UTF-8 check (observed; all bytes pass).
   thrift   proto/thriftproto binary_proto.go writeMessageBegin/readMessageBegin: the thrift
            method name, length-prefixed bytes.
   http     proto/httproto packRequest: u := url.Parse(name); request line
            "POST " + u.EscapedPath() [+ "?" + u.RawQuery] + " HTTP/1.1" (before the repair
            7ef806c: u.Path, kept as [wire_http_prefix]).  Unpack: the first line is
            split at spaces into at most 3 parts, url.Parse(part 1), service method = its
            Path.  Only CALL/REPLY can be packed: a PUSH is refused by Pack.

   Byte strings.  Domain: json carries every byte string; for pb / http (and the pre-repair
   json) the functions are claimed for names whose bytes are all < 0x80 ([WOutside] otherwise:
   protobuf and strconv.Quote look at UTF-8 sequences); for http a name (or the request target made from it) with an authority part
   ("//host...") is [WOutside] as well (url.parseAuthority is not modelled).  *)
From Coq Require Import Strings.String Strings.Byte.
From Coq Require Import List Arith NArith Bool Lia.
From Verif Require Import Base.Bytes Model.Mapper Model.Router.
Import ListNotations.
Local Open Scope N_scope.

Inductive proto := PRaw | PJson | PPb | PThrift | PHttp | PWsJson | PWsPb.

Inductive wire_res :=
| WSeen (n : bytes)   (* the receiver's binding sees this service method *)
| WRefused            (* the sender's Pack fails: no frame leaves, the session lives on *)
| WBroken             (* a frame leaves, the receiver's Unpack fails: the session is closed, no lookup *)
| WOutside.           (* outside the modelled domain *)

Definition c_bsl : byte := "\"%byte.
Definition c_dq : byte := """"%byte.
Definition c_pct : byte := "%"%byte.
Definition c_qm : byte := "?"%byte.
Definition c_hash : byte := "#"%byte.
Definition c_colon : byte := ":"%byte.
Definition c_sp : byte := " "%byte.
Definition c_star : byte := "*"%byte.
Definition c_lf : byte := n2b 10.

(* ------------------------------------------------------------------ json *)

Definition hex_lower (n : N) : byte := if n <? 10 then n2b (48 + n) else n2b (87 + n).

(* strconv.Quote on one byte < 0x80 (appendEscapedRune, double-quote style) *)
Definition go_quote_byte (b : byte) : bytes :=
  let n := b2n b in
  if beqb b c_dq || beqb b c_bsl then [c_bsl; b]
  else if (32 <=? n) && (n <=? 126) then [b]
  else if n =? 7 then [c_bsl; "a"%byte]
  else if n =? 8 then [c_bsl; "b"%byte]
  else if n =? 12 then [c_bsl; "f"%byte]
  else if n =? 10 then [c_bsl; "n"%byte]
  else if n =? 13 then [c_bsl; "r"%byte]
  else if n =? 9 then [c_bsl; "t"%byte]
  else if n =? 11 then [c_bsl; "v"%byte]
  else [c_bsl; "x"%byte; hex_lower (n / 16); hex_lower (n mod 16)].

(* the text between the quotes *)
Definition go_quote (s : bytes) : bytes := flat_map go_quote_byte s.

(* jsonproto.go / jsonSubProto.go escapeBody, one byte *)
Definition escape_body_byte (b : byte) : bytes :=
  let n := b2n b in
  if beqb b c_dq || beqb b c_bsl then [c_bsl; b]
  else if n <? 32 then [c_bsl; "u"%byte; "0"%byte; "0"%byte; hex_lower (n / 16); hex_lower (n mod 16)]
  else [b].
Definition escape_body (s : bytes) : bytes := flat_map escape_body_byte s.

(* gjson v1.2.2 unescape: a raw control byte, an escape it does not know, or a backslash at
   the very end END the string there.  \uXXXX: runeit parses four hex digits (0 when they
   are not), the rune is appended in UTF-8; here only runes < 0x80 (one byte) are modelled -
   escapeBody writes no other, Quote on bytes < 0x80 writes none at all - a larger one ends
   the string in this model. *)
Definition gj_escape (e : byte) : option byte :=
  if beqb e c_bsl || beqb e c_sl || beqb e c_dq then Some e
  else if beqb e "b"%byte then Some (n2b 8)
  else if beqb e "f"%byte then Some (n2b 12)
  else if beqb e "n"%byte then Some (n2b 10)
  else if beqb e "r"%byte then Some (n2b 13)
  else if beqb e "t"%byte then Some (n2b 9)
  else None.

Definition hex_any (b : byte) : bool :=
  let n := b2n b in
  ((48 <=? n) && (n <=? 57)) || ((65 <=? n) && (n <=? 70)) || ((97 <=? n) && (n <=? 102)).
Definition hex_val (b : byte) : N :=
  let n := b2n b in
  if n <=? 57 then n - 48 else if n <=? 70 then n - 55 else n - 87.
Definition gj_rune (h1 h2 h3 h4 : byte) : N :=
  if hex_any h1 && hex_any h2 && hex_any h3 && hex_any h4
  then ((hex_val h1 * 16 + hex_val h2) * 16 + hex_val h3) * 16 + hex_val h4 else 0.

Fixpoint gjson_unescape (s : bytes) : bytes :=
  match s with
  | [] => []
  | c :: r =>
      if b2n c <? 32 then []
      else if beqb c c_bsl then
        match r with
        | [] => []
        | e :: r' => match gj_escape e with
                     | Some d => d :: gjson_unescape r'
                     | None =>
                         if beqb e "u"%byte then
                           match r' with
                           | h1 :: h2 :: h3 :: h4 :: r'' =>
                               if gj_rune h1 h2 h3 h4 <? 128
                               then n2b (gj_rune h1 h2 h3 h4) :: gjson_unescape r'' else []
                           | _ => []
                           end
                         else []
                     end
        end
      else c :: gjson_unescape r
  end.

Definition wire_json (n : bytes) : wire_res := WSeen (gjson_unescape (escape_body n)).

(* before the repair: strconv.Quote *)
Definition wire_json_prefix (n : bytes) : wire_res :=
  if ascii_only n then WSeen (gjson_unescape (go_quote n)) else WOutside.

(* the bytes < 0x80 that do not survive: Quote writes them as \a \v \xNN *)
Definition json_bad (b : byte) : bool :=
  let n := b2n b in
  ((n <? 32) && negb ((n =? 8) || (n =? 9) || (n =? 10) || (n =? 12) || (n =? 13))) || (n =? 127).

Fixpoint take_while (f : byte -> bool) (s : bytes) : bytes :=
  match s with
  | [] => []
  | c :: r => if f c then c :: take_while f r else []
  end.

(* ------------------------------------------------------------------ net/url, no authority *)

Definition is_ctl (b : byte) : bool := (b2n b <? 32) || (b2n b =? 127).
Definition has_ctl (s : bytes) : bool := existsb is_ctl s.

Definition is_letter (b : byte) : bool :=
  let n := b2n b in ((65 <=? n) && (n <=? 90)) || ((97 <=? n) && (n <=? 122)).
Definition is_scheme_tail (b : byte) : bool :=
  is_digit b || beqb b "+"%byte || beqb b "-"%byte || beqb b c_dot.

(* strings.Cut(s, c): before, after, found *)
Fixpoint cut_at (c : byte) (s : bytes) : bytes * bytes * bool :=
  match s with
  | [] => ([], [], false)
  | x :: r => if beqb x c then ([], r, true)
              else let '(a, b, f) := cut_at c r in (x :: a, b, f)
  end.

Fixpoint count_byte (c : byte) (s : bytes) : nat :=
  match s with
  | [] => O
  | x :: r => if beqb x c then S (count_byte c r) else count_byte c r
  end.

Definition starts_with (p s : bytes) : bool := bytes_eqb (firstn (length p) s) p.

(* url.getScheme *)
Inductive scheme_res :=
| SchErr                              (* "missing protocol scheme" *)
| SchOk (scheme rest : bytes).

Fixpoint get_scheme_loop (s : bytes) (first : bool) (acc : bytes) (whole : bytes) : scheme_res :=
  match s with
  | [] => SchOk [] whole
  | c :: r =>
      if is_letter c then get_scheme_loop r false (c :: acc) whole
      else if is_scheme_tail c then
        (if first then SchOk [] whole else get_scheme_loop r false (c :: acc) whole)
      else if beqb c c_colon then
        (if first then SchErr else SchOk (rev acc) r)
      else SchOk [] whole
  end.
Definition get_scheme (s : bytes) : scheme_res := get_scheme_loop s true [] s.

Definition is_hex (b : byte) : bool :=
  let n := b2n b in
  ((48 <=? n) && (n <=? 57)) || ((65 <=? n) && (n <=? 70)) || ((97 <=? n) && (n <=? 102)).
Definition unhex (b : byte) : N :=
  let n := b2n b in
  if n <=? 57 then n - 48 else if n <=? 70 then n - 55 else n - 87.

(* url.unescape in the path and fragment modes: only '%' is special; %XY needs two hex digits *)
Fixpoint url_unescape (s : bytes) : option bytes :=
  match s with
  | [] => Some []
  | c :: r =>
      if beqb c c_pct then
        match r with
        | h1 :: h2 :: r' =>
            if is_hex h1 && is_hex h2 then
              option_map (cons (n2b (unhex h1 * 16 + unhex h2))) (url_unescape r')
            else None
        | _ => None
        end
      else option_map (cons c) (url_unescape r)
  end.

Inductive url_res :=
| UErr                               (* url.Parse returns an error *)
| UAuthority                         (* the URL has an authority part: not modelled *)
| UOk (path rawquery : bytes).       (* u.Path, u.RawQuery *)

Fixpoint last_byte_is (c : byte) (s : bytes) : bool :=
  match s with
  | [] => false
  | [x] => beqb x c
  | _ :: r => last_byte_is c r
  end.

(* url.Parse (= parse(u, viaRequest=false) on the text before the first '#', then
   setFragment on the rest, which only checks the escapes) *)
Definition url_parse (raw : bytes) : url_res :=
  let '(u, frag, _) := cut_at c_hash raw in
  let frag_ok := match url_unescape frag with Some _ => true | None => false end in
  if has_ctl u then UErr
  else if bytes_eqb u [c_star] then (if frag_ok then UOk [c_star] [] else UErr)
  else
    match get_scheme u with
    | SchErr => UErr
    | SchOk scheme rest0 =>
        let '(rest, q) :=
          if last_byte_is c_qm rest0 && Nat.eqb (count_byte c_qm rest0) 1
          then (removelast rest0, [])
          else let '(a, b, _) := cut_at c_qm rest0 in (a, b) in
        let rooted := starts_with [c_sl] rest in
        if negb rooted && negb (match scheme with [] => true | _ => false end) then
          (* opaque: u.Path stays empty *)
          (if frag_ok then UOk [] q else UErr)
        else if negb rooted && existsb (beqb c_colon) (fst (fst (cut_at c_sl rest))) then UErr
        else if starts_with [c_sl; c_sl] rest
                && (negb (match scheme with [] => true | _ => false end)
                    || negb (starts_with [c_sl; c_sl; c_sl] rest)) then UAuthority
        else
          match url_unescape rest with
          | None => UErr
          | Some p => if frag_ok then UOk p q else UErr
          end
    end.

(* the same url.Parse, also giving the text handed to setPath (None: setPath is not called) *)
Inductive url_res_x :=
| XErr
| XAuthority
| XOk (path : bytes) (rawpath : option bytes) (rawquery : bytes).

Definition url_parse_x (raw : bytes) : url_res_x :=
  let '(u, frag, _) := cut_at c_hash raw in
  let frag_ok := match url_unescape frag with Some _ => true | None => false end in
  if has_ctl u then XErr
  else if bytes_eqb u [c_star] then (if frag_ok then XOk [c_star] None [] else XErr)
  else
    match get_scheme u with
    | SchErr => XErr
    | SchOk scheme rest0 =>
        let '(rest, q) :=
          if last_byte_is c_qm rest0 && Nat.eqb (count_byte c_qm rest0) 1
          then (removelast rest0, [])
          else let '(a, b, _) := cut_at c_qm rest0 in (a, b) in
        let rooted := starts_with [c_sl] rest in
        if negb rooted && negb (match scheme with [] => true | _ => false end) then
          (if frag_ok then XOk [] None q else XErr)
        else if negb rooted && existsb (beqb c_colon) (fst (fst (cut_at c_sl rest))) then XErr
        else if starts_with [c_sl; c_sl] rest
                && (negb (match scheme with [] => true | _ => false end)
                    || negb (starts_with [c_sl; c_sl; c_sl] rest)) then XAuthority
        else
          match url_unescape rest with
          | None => XErr
          | Some p => if frag_ok then XOk p (Some rest) q else XErr
          end
    end.

(* url.shouldEscape(c, encodePath) *)
Definition path_should_escape (b : byte) : bool :=
  let n := b2n b in
  if ((48 <=? n) && (n <=? 57)) || ((65 <=? n) && (n <=? 90)) || ((97 <=? n) && (n <=? 122)) then false
  else if beqb b "-"%byte || beqb b c_us || beqb b c_dot || beqb b "~"%byte then false
  else if beqb b "$"%byte || beqb b "&"%byte || beqb b "+"%byte || beqb b ","%byte || beqb b c_sl
          || beqb b c_colon || beqb b ";"%byte || beqb b "="%byte || beqb b "@"%byte then false
  else true.   (* '?' and everything else *)

Definition hex_upper (n : N) : byte := if n <? 10 then n2b (48 + n) else n2b (55 + n).
Definition path_escape_byte (b : byte) : bytes :=
  if path_should_escape b then [c_pct; hex_upper (b2n b / 16); hex_upper (b2n b mod 16)] else [b].
(* url.escape(s, encodePath) *)
Definition path_escape (s : bytes) : bytes := flat_map path_escape_byte s.

(* url.validEncoded(s, encodePath) *)
Definition valid_encoded_byte (b : byte) : bool :=
  beqb b "!"%byte || beqb b "$"%byte || beqb b "&"%byte || beqb b "'"%byte || beqb b "("%byte
  || beqb b ")"%byte || beqb b c_star || beqb b "+"%byte || beqb b ","%byte || beqb b ";"%byte
  || beqb b "="%byte || beqb b c_colon || beqb b "@"%byte || beqb b "["%byte || beqb b "]"%byte
  || beqb b c_pct || negb (path_should_escape b).
Definition valid_encoded (s : bytes) : bool := forallb valid_encoded_byte s.

(* URL.setPath then URL.EscapedPath: RawPath is kept only when it differs from the default
   escaping of Path; EscapedPath returns it when it is a valid encoding (it un-escapes to Path
   by construction), "*" for the path "*", else the default escaping of Path. *)
Definition escaped_path (path : bytes) (rawpath : option bytes) : bytes :=
  let raw_kept := match rawpath with
                  | Some p => if bytes_eqb p (path_escape path) then [] else p
                  | None => []
                  end in
  match raw_kept with
  | _ :: _ => if valid_encoded raw_kept then raw_kept
              else if bytes_eqb path [c_star] then [c_star] else path_escape path
  | [] => if bytes_eqb path [c_star] then [c_star] else path_escape path
  end.

(* the part of the request line between the first and the second blank *)
Definition first_field (s : bytes) : bytes := fst (fst (cut_at c_sp s)).

(* httproto, CALL: packRequest then Unpack.  [written path rawpath] is what packRequest puts
   into the request line for the path; [post] what Unpack does to the path it read.  A raw
   line feed in the target would change the line structure of the message (not modelled; it
   cannot occur with the escaped path). *)
Definition wire_http_gen (written : bytes -> option bytes -> bytes) (post : bytes -> bytes)
  (n : bytes) : wire_res :=
  if negb (ascii_only n) then WOutside
  else
    match url_parse_x n with
    | XErr => WRefused
    | XAuthority => WOutside
    | XOk path rawpath q =>
        let wp := written path rawpath in
        let target := match q with [] => wp | _ => wp ++ c_qm :: q end in
        if existsb (beqb c_lf) target then WOutside
        else
          match url_parse (first_field target) with
          | UErr => WBroken
          | UAuthority => WOutside
          | UOk path2 _ => WSeen (post path2)
          end
    end.

Definition wire_http : bytes -> wire_res := wire_http_gen escaped_path (fun p => p).

(* before the repair: the unescaped path went into the request line *)
Definition wire_http_prefix : bytes -> wire_res := wire_http_gen (fun path _ => path) (fun p => p).

(* ------------------------------------------------------------------ all protocols *)

Definition wire (p : proto) (s : ns) (n : bytes) : wire_res :=
  match p with
  | PRaw => if (length n <=? 255)%nat then WSeen n else WRefused
  | PJson | PWsJson => wire_json n
  | PPb => if ascii_only n then WSeen n else WOutside
  | PThrift | PWsPb => WSeen n
  | PHttp => match s with CALL => wire_http n | PUSH => WRefused end
  end.

(* what happens to a request: the lookup of Model.Router on the name that arrived *)
Inductive wire_dispatch :=
| WDispatched (d : dispatch_result)
| WNotDelivered              (* refused by the sender or lost with the session: no handler runs *)
| WUnmodelled.

Definition dispatch_wire (p : proto) (r : router) (s : ns) (n : bytes) : wire_dispatch :=
  match wire p s n with
  | WSeen n' => WDispatched (dispatch r s n')
  | WRefused | WBroken => WNotDelivered
  | WOutside => WUnmodelled
  end.

(* the two protocols as they were before the repair 7ef806c *)
Definition wire_prefix (p : proto) (s : ns) (n : bytes) : wire_res :=
  match p with
  | PJson | PWsJson => wire_json_prefix n
  | PHttp => match s with CALL => wire_http_prefix n | PUSH => WRefused end
  | _ => wire p s n
  end.
Definition dispatch_wire_prefix (p : proto) (r : router) (s : ns) (n : bytes) : wire_dispatch :=
  match wire_prefix p s n with
  | WSeen n' => WDispatched (dispatch r s n')
  | WRefused | WBroken => WNotDelivered
  | WOutside => WUnmodelled
  end.

(* ---- names every protocol carries unchanged: letters, digits, '_' '/' '.' '-', at most 255
   bytes, not starting with "//" ---- *)
Definition wire_plain_byte (b : byte) : bool :=
  is_alnum_us_sl b || beqb b c_dot || beqb b "-"%byte.
Definition wire_plain (n : bytes) : bool :=
  forallb wire_plain_byte n && (length n <=? 255)%nat && negb (starts_with [c_sl; c_sl] n).

(* ---- a receiver that normalises the path it read (path.Clean on a rooted path), the
   variant refuted in Properties/C10.v ---- *)
Definition clean_if_rooted (p : bytes) : bytes :=
  if starts_with [c_sl] p then clean_rooted p else p.
Definition wire_http_cleaning : bytes -> wire_res := wire_http_gen escaped_path clean_if_rooted.
