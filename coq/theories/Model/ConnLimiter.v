(* Model of plugin/overloader/connlimiter.go (the three atomic counters and the
   individual atomic steps of take / release / update) and of the session lifecycle
   events that call them, exactly as plugin/overloader/overloader.go and peer.go /
   session.go do.  Definitions only.

   Integers are Z (Go: int32; wrap-around at 2^31 concurrent operations is out of
   scope).  A limiter exists only for MaxConn > 0 (overloader.go updateConnLimiter
   sets connLimiter = nil otherwise), so every limit in this model is positive. *)
From Coq Require Import Strings.String Strings.Byte.
From Coq Require Import List Arith NArith ZArith Bool Lia.
From Verif Require Import Base.Bytes Model.Threads.
Import ListNotations.
Local Open Scope Z_scope.

(* ---- connlimiter.go: type connLimiter struct { lim, now, tmp int32 } ---- *)
Record climiter := mkC { c_tmp : Z; c_now : Z; c_lim : Z }.

(* newConnLimiter *)
Definition c_new (maxConn : Z) : climiter := mkC 0 0 maxConn.
(* update: atomic.StoreInt32(&c.lim, maxConn) *)
Definition c_update (c : climiter) (l : Z) : climiter := mkC (c_tmp c) (c_now c) l.
(* take, 1st atomic: x := atomic.AddInt32(&c.tmp, 1) *)
Definition c_add_tmp (c : climiter) : climiter * Z :=
  (mkC (c_tmp c + 1) (c_now c) (c_lim c), c_tmp c + 1).
(* take, 2nd atomic: x <= atomic.LoadInt32(&c.lim) *)
Definition c_check (c : climiter) (x : Z) : bool := x <=? c_lim c.
(* take, 3rd atomic on success: atomic.AddInt32(&c.now, 1) *)
Definition c_add_now (c : climiter) : climiter := mkC (c_tmp c) (c_now c + 1) (c_lim c).
(* take, 3rd atomic on failure, and release's 2nd atomic: atomic.AddInt32(&c.tmp, -1) *)
Definition c_sub_tmp (c : climiter) : climiter := mkC (c_tmp c - 1) (c_now c) (c_lim c).
(* release, 1st atomic: atomic.AddInt32(&c.now, -1) *)
Definition c_sub_now (c : climiter) : climiter := mkC (c_tmp c) (c_now c - 1) (c_lim c).

(* take / release run without interference (sequential semantics) *)
Definition c_take (c : climiter) : climiter * bool :=
  let '(c1, x) := c_add_tmp c in
  if c_check c1 x then (c_add_now c1, true) else (c_sub_tmp c1, false).
Definition c_release (c : climiter) : climiter := c_sub_tmp (c_sub_now c).

(* ---- the bare limiter driven by any number of threads (unit-level correspondence:
        VerifConn handle, gates conn.take.added / conn.take.checked / conn.release.mid) ---- *)
Inductive rpc := RIdle | RAdded (x : Z) | RPass | RFail | RRelMid.
Record rstate := mkR { r_c : climiter; r_th : list rpc }.
Inductive rev := RTake (i : nat) | RRel (i : nat) | RStep (i : nat) | RUpd (l : Z).
Inductive robs := RONone | ROTake (b : bool) | RORel.

Definition rset (s : rstate) (c : climiter) (i : nat) (p : rpc) : rstate :=
  mkR c (upd RIdle i p (r_th s)).

Definition rstep (s : rstate) (e : rev) : option (rstate * robs) :=
  let c := r_c s in
  match e with
  | RTake i =>
      match getn RIdle i (r_th s) with
      | RIdle => let '(c1, x) := c_add_tmp c in Some (rset s c1 i (RAdded x), RONone)
      | _ => None
      end
  | RRel i =>
      match getn RIdle i (r_th s) with
      | RIdle => Some (rset s (c_sub_now c) i RRelMid, RONone)
      | _ => None
      end
  | RStep i =>
      match getn RIdle i (r_th s) with
      | RIdle => None
      | RAdded x => Some (rset s c i (if c_check c x then RPass else RFail), RONone)
      | RPass => Some (rset s (c_add_now c) i RIdle, ROTake true)
      | RFail => Some (rset s (c_sub_tmp c) i RIdle, ROTake false)
      | RRelMid => Some (rset s (c_sub_tmp c) i RIdle, RORel)
      end
  | RUpd l => Some (mkR (c_update c l) (r_th s), RONone)
  end.

(* ---- session lifecycle around the limiter ----
   peer.go ServeConn / serveListener: newSession; postAccept runs the PostAccept plugins
   in order and stops at the first non-OK status; on a non-OK status the session is
   Close()d, and session.go closeLocked (status Preparing -> ActiveClosing) ends with
   pluginContainer.postDisconnect(s): EVERY PostDisconnect plugin runs for a session
   that an accept hook rejected.
   peer.go Dial: postDial(sess, false) inside dialWithRetry; on a non-OK status only
   conn.Close() - no session Close, no postDisconnect; the same session object is
   offered to postDial again on a retry.  Redial: postDial(sess, true), for which
   Overloader.PostDial returns nil at once.
   session.go closeLocked / readDisconnected: postDisconnect at the end of a live
   session. *)
Inductive side := SAccept | SDial.

Inductive lpc :=
| LIdle                        (* no connection yet *)
| LPre (sd : side)             (* plugins before the overloader passed; its hook is entered *)
| LAdded (sd : side) (x : Z)   (* take: tmp incremented, ticket x *)
| LPass (sd : side)            (* take: x <= lim observed *)
| LFail (sd : side)            (* take: x > lim observed *)
| LTaken (sd : side)           (* hook returned nil; plugins after the overloader pending *)
| LRefused (sd : side)         (* take returned false; hook returned status 500 *)
| LLive                        (* session admitted (status Ok, in the session hub) *)
| LClosing                     (* the overloader's PostDisconnect is entered *)
| LRelMid                      (* release: now decremented, tmp pending *)
| LDone                        (* connection over *)
| LLeaked.                     (* dial refused by a later plugin: connection closed, no hook *)

(* s_held is real state after the repair (an entry of Overloader.connHolders);
   s_took / s_rel / s_rej are history variables: number of successful takes, number of
   releases begun, "was refused by an earlier plugin or by the limit". *)
Record sess := mkS { s_pc : lpc; s_held : bool; s_took : Z; s_rel : Z; s_rej : bool }.
Definition sess0 : sess := mkS LIdle false 0 0 false.

(* l_hw is a history variable: the bound that currently applies (see Properties/C18.v):
   raised by a limit increase, kept by a decrease until the holders have drained
   to the new limit. No transition reads it. *)
Record lstate := mkL { l_c : climiter; l_hw : Z; l_ss : list sess }.

Inductive lev :=
| EConnect (i : nat) (sd : side) (earlier_ok : bool)
| EStep (i : nat)
| ELater (i : nat) (ok : bool)
| EClose (i : nat)
| ERedial (i : nat)
| ERetry (i : nat)
| EDupDisc (i : nat)
| EUpdate (l : Z).

Definition linit (maxConn : Z) : lstate := mkL (c_new maxConn) maxConn [].

Definition renorm (s : lstate) : lstate :=
  if c_tmp (l_c s) <=? c_lim (l_c s) then mkL (l_c s) (c_lim (l_c s)) (l_ss s) else s.

Definition lset (s : lstate) (c : climiter) (i : nat) (x : sess) : lstate :=
  renorm (mkL c (l_hw s) (upd sess0 i x (l_ss s))).

Definition with_pc (x : sess) (p : lpc) : sess := mkS p (s_held x) (s_took x) (s_rel x) (s_rej x).

(* [fixed = false]: the pinned overloader.go (PostDisconnect always releases; PostAccept
   records nothing).  [fixed = true]: the repaired one (takeConnFor / releaseConnFor). *)
Definition lstep (fixed : bool) (s : lstate) (e : lev) : option lstate :=
  let c := l_c s in
  match e with
  | EConnect i sd ok =>
      let x := getn sess0 i (l_ss s) in
      match s_pc x with
      | LIdle =>
          if ok then Some (lset s c i (with_pc x (LPre sd)))
          else
            (* an earlier plugin refused: accept side -> sess.Close() -> postDisconnect *)
            let x' := mkS (match sd with SAccept => LClosing | SDial => LDone end)
                          (s_held x) (s_took x) (s_rel x) true in
            Some (lset s c i x')
      | _ => None
      end
  | EStep i =>
      let x := getn sess0 i (l_ss s) in
      match s_pc x with
      | LPre sd => let '(c1, t) := c_add_tmp c in Some (lset s c1 i (with_pc x (LAdded sd t)))
      | LAdded sd t => Some (lset s c i (with_pc x (if c_check c t then LPass sd else LFail sd)))
      | LPass sd =>
          (* AddInt32(&now,1); return true; repaired code: connHolders[sess] = l *)
          Some (lset s (c_add_now c) i (mkS (LTaken sd) fixed (s_took x + 1) (s_rel x) (s_rej x)))
      | LFail sd => Some (lset s (c_sub_tmp c) i (with_pc x (LRefused sd)))
      | LRefused sd =>
          Some (lset s c i (mkS (match sd with SAccept => LClosing | SDial => LDone end)
                                (s_held x) (s_took x) (s_rel x) true))
      | LClosing =>
          if fixed && negb (s_held x) then Some (lset s c i (with_pc x LDone))
          else Some (lset s (c_sub_now c) i (mkS LRelMid false (s_took x) (s_rel x + 1) (s_rej x)))
      | LRelMid => Some (lset s (c_sub_tmp c) i (with_pc x LDone))
      | _ => None
      end
  | ELater i ok =>
      let x := getn sess0 i (l_ss s) in
      match s_pc x with
      | LTaken sd =>
          if ok then Some (lset s c i (with_pc x LLive))
          else Some (lset s c i (with_pc x (match sd with SAccept => LClosing | SDial => LLeaked end)))
      | _ => None
      end
  | EClose i =>
      let x := getn sess0 i (l_ss s) in
      match s_pc x with
      | LLive => Some (lset s c i (with_pc x LClosing))
      | _ => None
      end
  | ERedial i =>
      match s_pc (getn sess0 i (l_ss s)) with
      | LLive => Some s            (* PostDial(sess, isRedial = true) returns nil *)
      | _ => None
      end
  | ERetry i =>
      (* dialWithRetry offers the same session to postDial again *)
      let x := getn sess0 i (l_ss s) in
      match s_pc x with
      | LLeaked =>
          if fixed && s_held x then Some (lset s c i (with_pc x (LTaken SDial)))
          else Some (lset s c i (with_pc x (LPre SDial)))
      | _ => None
      end
  | EDupDisc i =>
      (* a second delivery of PostDisconnect for a finished session *)
      let x := getn sess0 i (l_ss s) in
      match s_pc x with
      | LDone => Some (lset s c i (with_pc x LClosing))
      | _ => None
      end
  | EUpdate l =>
      if 0 <? l then Some (renorm (mkL (c_update c l) (Z.max (l_hw s) l) (l_ss s)))
      else None
  end.

Fixpoint lrun (fixed : bool) (s : lstate) (tr : list lev) : option lstate :=
  match tr with
  | [] => Some s
  | e :: r => match lstep fixed s e with Some s' => lrun fixed s' r | None => None end
  end.

(* ---- observables and measures ---- *)
Definition is_live (x : sess) : Z := match s_pc x with LLive => 1 | _ => 0 end.
Definition is_leaked (x : sess) : Z := match s_pc x with LLeaked => 1 | _ => 0 end.
Definition admitted (s : lstate) : Z := sumz is_live (l_ss s).
Definition leaked (s : lstate) : Z := sumz is_leaked (l_ss s).

Definition b2z (b : bool) : Z := if b then 1 else 0.

(* contribution of one session to tmp / to now / to the set of slot holders that passed
   the comparison / to the tickets still waiting for the comparison with value <= k *)
Definition tmp_of (x : sess) : Z :=
  match s_pc x with
  | LAdded _ _ | LPass _ | LFail _ | LTaken _ | LLive | LLeaked | LRelMid => 1
  | LClosing => b2z (s_held x)
  | _ => 0
  end.
Definition now_of (x : sess) : Z :=
  match s_pc x with
  | LTaken _ | LLive | LLeaked => 1
  | LClosing => b2z (s_held x)
  | _ => 0
  end.
Definition pass_of (x : sess) : Z :=
  match s_pc x with
  | LPass _ | LTaken _ | LLive | LLeaked | LRelMid => 1
  | LClosing => b2z (s_held x)
  | _ => 0
  end.
Definition wait_le (k : Z) (x : sess) : Z :=
  match s_pc x with
  | LAdded _ t => if t <=? k then 1 else 0
  | _ => 0
  end.

Definition quiescent_pc (p : lpc) : bool :=
  match p with LIdle | LLive | LDone | LLeaked => true | _ => false end.
Definition quiescent (s : lstate) : Prop := Forall (fun x => quiescent_pc (s_pc x) = true) (l_ss s).

(* limit updates of a trace never lower the limit (cur = limit before the trace) *)
Fixpoint mono_updates (cur : Z) (tr : list lev) : Prop :=
  match tr with
  | [] => True
  | EUpdate l :: r => cur <= l /\ mono_updates l r
  | _ :: r => mono_updates cur r
  end.

(* ---- lifecycle events run to completion one after the other (live-history
        correspondence: no two hooks overlap) ---- *)
Fixpoint lsteps (fixed : bool) (fuel : nat) (s : lstate) (i : nat) : lstate :=
  match fuel with
  | O => s
  | S f => match lstep fixed s (EStep i) with Some s' => lsteps fixed f s' i | None => s end
  end.

(* index of the first session satisfying p *)
Fixpoint find_sess (p : sess -> bool) (l : list sess) (i : nat) : option nat :=
  match l with
  | [] => None
  | x :: r => if p x then Some i else find_sess p r (S i)
  end.

(* ---- limiter instances: Overloader.connLimiter is a POINTER that Update replaces ----
   overloader.go updateConnLimiter: MaxConn <= 0 sets o.connLimiter = nil (no limit);
   MaxConn > 0 with no limiter builds a FRESH one (newConnLimiter: tmp = now = 0);
   otherwise connLimiter.update stores the new limit into the existing instance.
   takeConnFor reads the pointer, takes on that instance and records
   connHolders[sess] = that instance; releaseConnFor releases on the RECORDED instance.
   So every connection belongs for good to the instance its hook read: the system is a
   family of instances, each evolving by [lstep true] on its own connections; connections
   that met no limiter are admitted without a slot.  A connection is named by
   (instance, index within the instance).
   Over-approximation: the code holds connLimiterLock for reading across one take() and
   for writing across an Update, so an Update cannot fall between the steps of a take;
   the model allows that too. *)
Inductive upc := UIdle | ULive | UDone.

Record mstate := mkM { m_gens : list lstate; m_cur : option nat; m_unl : list upc }.

Inductive mev :=
| MOn (l : Z)                  (* Update, MaxConn = l > 0, no limiter: newConnLimiter l *)
| MOff                         (* Update, MaxConn <= 0: connLimiter = nil *)
| MIn (g : nat) (e : lev)      (* event of a connection of instance g / EUpdate on it *)
| MUnl (i : nat) (up : bool).  (* connection i met no limiter: admitted / disconnected *)

Definition minit : mstate := mkM [] None [].
Definition ldef : lstate := linit 1.

(* new connections and limit stores go to the CURRENT instance only *)
Definition targets_current (e : lev) : bool :=
  match e with EConnect _ _ true | EUpdate _ => true | _ => false end.

Definition is_cur (cur : option nat) (g : nat) : bool :=
  match cur with Some c => Nat.eqb c g | None => false end.

(* [roc = true]: the variant in which releaseConnFor releases through the plugin's
   CURRENT limiter (o.releaseConn()) instead of the recorded one: the session leaves its
   own instance's books untouched and the current instance (if any) is decremented. *)
Definition cross_release (M : mstate) (g i : nat) : option mstate :=
  let sg := getn ldef g (m_gens M) in
  let x := getn sess0 i (l_ss sg) in
  match s_pc x with
  | LClosing =>
      if s_held x then
        let sg' := mkL (l_c sg) (l_hw sg)
                       (upd sess0 i (mkS LDone false (s_took x) (s_rel x + 1) (s_rej x)) (l_ss sg)) in
        let gens1 := upd ldef g sg' (m_gens M) in
        match m_cur M with
        | Some c =>
            let sc := getn ldef c gens1 in
            Some (mkM (upd ldef c (mkL (c_sub_tmp (c_sub_now (l_c sc))) (l_hw sc) (l_ss sc)) gens1)
                      (m_cur M) (m_unl M))
        | None => Some (mkM gens1 (m_cur M) (m_unl M))
        end
      else None
  | _ => None
  end.

Definition is_holder_closing (s : lstate) (e : lev) : bool :=
  match e with
  | EStep i => let x := getn sess0 i (l_ss s) in
               match s_pc x with LClosing => s_held x | _ => false end
  | _ => false
  end.

Definition mstep (roc : bool) (M : mstate) (ev : mev) : option mstate :=
  match ev with
  | MOn l =>
      match m_cur M with
      | None => if 0 <? l then Some (mkM (m_gens M ++ [linit l]) (Some (length (m_gens M))) (m_unl M))
                else None
      | Some _ => None
      end
  | MOff => Some (mkM (m_gens M) None (m_unl M))
  | MIn g e =>
      if Nat.ltb g (length (m_gens M)) && (negb (targets_current e) || is_cur (m_cur M) g) then
        let sg := getn ldef g (m_gens M) in
        if roc && is_holder_closing sg e && negb (is_cur (m_cur M) g) then
          match e with EStep i => cross_release M g i | _ => None end
        else
          match lstep true sg e with
          | Some sg' => Some (mkM (upd ldef g sg' (m_gens M)) (m_cur M) (m_unl M))
          | None => None
          end
      else None
  | MUnl i up =>
      match getn UIdle i (m_unl M), up, m_cur M with
      | UIdle, true, None => Some (mkM (m_gens M) (m_cur M) (upd UIdle i ULive (m_unl M)))
      | ULive, false, _ => Some (mkM (m_gens M) (m_cur M) (upd UIdle i UDone (m_unl M)))
      | _, _, _ => None
      end
  end.

Fixpoint mrun (roc : bool) (M : mstate) (tr : list mev) : option mstate :=
  match tr with
  | [] => Some M
  | e :: r => match mstep roc M e with Some M' => mrun roc M' r | None => None end
  end.

Definition unl_live (p : upc) : Z := match p with ULive => 1 | _ => 0 end.
(* all sessions currently admitted, through whichever instance or through none *)
Definition madmitted (M : mstate) : Z :=
  sumz admitted (m_gens M) + sumz unl_live (m_unl M).

(* ---- what the lifecycle must never do ----
   Every way an admitted session ends (session.go closeLocked for Session.Close /
   peer.Close / takeover by a session with the same id; readDisconnected for a lost
   connection) runs pluginContainer.postDisconnect, WHATEVER socket.Close returns: EClose is
   the only exit from LLive.  [end_without_hook] is the forbidden exit (e.g. closeLocked
   returning early on a socket close error): the session is over, no hook ran. *)
Definition end_without_hook (s : lstate) (i : nat) : option lstate :=
  let x := getn sess0 i (l_ss s) in
  match s_pc x with
  | LLive => Some (lset s (l_c s) i (with_pc x LDone))
  | _ => None
  end.
