(* Session machine, layer 2 (C02): callers (session.AsyncCall), the read loop
   (session.startReadAndHandle + handlerCtx.bindReply), readDisconnected with its cancel
   loop, and reply handlers (handlerCtx.handleReply / abortReply, callCmd.done / cancel).
   Same state record as Lifecycle.v.  Definitions only. *)
From Coq Require Import Strings.String Strings.Byte.
From Coq Require Import List Arith NArith Bool Lia.
From Verif Require Import Model.Lifecycle.
Import ListNotations.

(* callCmd.done()/cancel(): the call leaves the table, is delivered, its done channel is
   closed, and graceCallCmdWaitGroup.Done() *)
Definition done_call (s : sess) (i : nat) (c : call) : sess :=
  set_callWG (set_calls s (upd (calls s) i (call_done c))) (Nat.pred (callWG s)).

Definition fail_call (s : sess) (i : nat) (c : call) (e : cstat) : sess :=
  done_call s i (set_cstat c e).

(* ---- AsyncCall ---- *)
(* A0: seq++, graceCallCmdWaitGroup.Add(1), cmd.mu.Lock, callCmdMap.Store *)
Definition issue (s : sess) : sess :=
  set_callWG
    (set_calls s (calls s ++ [mkCall A1 HNone true false StOk 0 0 false false (closed (st s))]))
    (S (callWG s)).

Definition caller_step (s : sess) (i : nat) (veto : bool) (wr : wres) : option sess :=
  match nth_error (calls s) i with
  | None => None
  | Some c =>
      match c_a c with
      | A1 => (* preWriteCall hooks *)
          if veto then Some (fail_call s i (set_ca c A4) StVeto)
          else Some (set_calls s (upd (calls s) i (set_ca c A2)))
      | A2 => (* write: status check *)
          if admits (st s) false then Some (set_calls s (upd (calls s) i (set_ca c A2w)))
          else Some (fail_call s i (set_ca c A4) StConnClosed)
      | A2w => (* write lock, socket write *)
          if wr_ok s wr then
            let c' := set_cwrote (set_ca c A4) true in
            match wr with
            | WOk => Some (set_calls s (upd (calls s) i c'))
            | WClosed => Some (fail_call s i c' StConnClosed)
            | WOther => Some (fail_call s i c' StWriteFailed)
            end
          else None
      | A4 => Some (set_calls s (upd (calls s) i (set_ca c ADone)))   (* deferred Unlock *)
      | ADone => None
      end
  end.

(* ---- reply handler: handlerCtx.handle -> handleReply ---- *)
(* status of a completed call whose reply body did not decode although a body codec was
   named: handleReply honours the read error recorded by the read loop *)
Definition decerr_stat : cstat := StBadMsg.

Definition reply_stat (c : call) (d : dres) : cstat :=
  if cstat_ok (c_stat c) then
    match d with DOk => StOk | DRemote => StRemote | DErrC => decerr_stat | DErr0 => StBadMsg | DHook => StHook end
  else c_stat c.

Definition reply_step (s : sess) (i : nat) : option sess :=
  match nth_error (calls s) i with
  | None => None
  | Some c =>
      match c_h c with
      | H0 d => Some (set_calls s (upd (calls s) i (set_ch (set_cstat c (reply_stat c d)) H1)))
      | H1 => (* done(); mu.Unlock(); putContext *)
          Some (set_ctxWG (done_call s i (set_ch c HNone)) (Nat.pred (ctxWG s)))
      | _ => None
      end
  end.

(* handlerCtx.abortReply: error status unless one is set, done(), Unlock *)
Definition abort_call (s : sess) (i : nat) (c : call) (e : cstat) : sess :=
  done_call s i (set_ch (if cstat_ok (c_stat c) then set_cstat c e else c) HNone).

(* ---- the reader ---- *)
Definition dres_of (d : fdec) : dres :=
  match d with FOk => DOk | FRemote => DRemote | FErrC => DErrC | FErr0 => DErr0 | FHook => DHook | FPanic => DOk end.

(* the environment hands the reader (blocked in ReadMessage) a frame or a read error *)
Definition frame_step (s : sess) (f : frame) : option sess :=
  match rd s with
  | R2 =>
      match f with
      | FrErr => Some (set_rd s (R3 XErr0))
      | FrCall => Some (set_rd s (R3 (XMsg KCall)))
      | FrPush => Some (set_rd s (R3 (XMsg KPush)))
      | FrReply i d => Some (set_rd s (RLook i d))
      end
  | _ => None
  end.

(* early-exit test of the read loop:  (err != nil && codec == 0) || !goonRead() *)
Definition early (s : sess) (x : rres) : bool :=
  match x with
  | XErr0 => true
  | XBound _ DErr0 => true
  | _ => negb (goon (st s))
  end.

Definition all_visited (cs : list call) : bool :=
  forallb (fun c => negb (c_tab c) || c_vis c) cs.

Definition reader_step (g : cfg) (s : sess) (spawn_ok : bool) : option (sess * effect) :=
  match rd s with
  | RNone =>
      (* the accepting goroutine (ServeConn / Dial / serveListener) carries on after the index
         insert - where it may have been parked in the displaced session's Close - and starts
         the read loop; pre-fix order: it stores status ok only now, unconditionally *)
      if estab s then
        if fix_acc g then Some (set_rd s R0, FxNone) else Some (set_rd (set_st s Ok) R0, FxNone)
      else None
  | R2 | RDone => None
  | R0 => if goon (st s) then Some (set_rd s R2, FxNone) else Some (set_rd s D0, FxNone)
  | RLook i d => (* callCmdMap.Load(seq) *)
      match nth_error (calls s) i with
      | Some c => if c_tab c then Some (set_rd s (RLock i d), FxNone)
                  else Some (set_rd s (R3 (XMsg KUnbound)), FxNone)
      | None => Some (set_rd s (R3 (XMsg KUnbound)), FxNone)
      end
  | RLock i d => (* callCmd.mu.Lock() and the rest of bindReply, body decoding *)
      match nth_error (calls s) i with
      | None => None
      | Some c =>
          if mu_free c then
            if fix_dup g && negb (c_dones c =? 0) then
              Some (set_rd s (R3 (XMsg KUnbound)), FxNone)
            else
              let c1 := set_crep c true in
              match d with
              | FPanic => (* recovered by the read loop's defer *)
                  if fix_abort g then Some (set_rd (abort_call s i c1 StBadMsg) D0, FxNone)
                  else Some (set_rd (set_calls s (upd (calls s) i (set_ch c1 HLeak))) D0, FxNone)
              | FHook =>
                  Some (set_rd (set_calls s (upd (calls s) i (set_ch (set_cstat c1 StHook) (HBound DHook))))
                               (R3 (XBound i DHook)), FxNone)
              | _ =>
                  Some (set_rd (set_calls s (upd (calls s) i (set_ch c1 (HBound (dres_of d)))))
                               (R3 (XBound i (dres_of d))), FxNone)
              end
          else None
      end
  | R3 x =>
      if early s x then
        match x with
        | XBound i d =>
            match nth_error (calls s) i with
            | None => None
            | Some c =>
                if fix_abort g then
                  Some (set_rd (abort_call s i c (match d with DErr0 | DErrC => StBadMsg | _ => StConnClosed end)) D0, FxNone)
                else Some (set_rd (set_calls s (upd (calls s) i (set_ch c HLeak))) D0, FxNone)
            end
        | _ => Some (set_rd s D0, FxNone)
        end
      else Some (set_rd s (R4 x), FxNone)
  | R4 x => (* graceCtxWaitGroup.Add(1); Go(handle) *)
      match x with
      | XErr0 => None
      | XMsg k =>
          if spawn_ok then
            Some (set_rd (set_ctxWG (set_hctxs s (hctxs s ++ [mkHctx k K0 WrNone Preparing (negb (status_eqb (st s) Ok)) false]))
                                    (S (ctxWG s))) R0, FxNone)
          else
            match k with
            | KCall =>
                (* no goroutine: the CALL is refused on the read goroutine with an error
                   reply; the user handler does not run (context enters at the reply write) *)
                Some (set_rd (set_ctxWG (set_hctxs s (hctxs s ++ [mkHctx k K2 WrNone Preparing (negb (status_eqb (st s) Ok)) false]))
                                        (S (ctxWG s))) R0, FxNone)
            | _ => Some (set_rd s R0, FxNone)      (* Add(1) .. putContext: a PUSH is skipped *)
            end
      | XBound i d =>
          match nth_error (calls s) i with
          | None => None
          | Some c =>
              if spawn_ok then
                Some (set_rd (set_ctxWG (set_calls s (upd (calls s) i (set_ch c (H0 d)))) (S (ctxWG s))) R0, FxNone)
              else if fix_abort g then
                (* no goroutine: handleReply runs in the reader *)
                Some (set_rd (done_call s i (set_ch (set_cstat c (reply_stat c d)) HNone)) R0, FxNone)
              else Some (set_rd (set_calls s (upd (calls s) i (set_ch c HLeak))) R0, FxNone)
          end
      end
  (* readDisconnected *)
  | D0 => Some (set_rd s (D1 (st s)), FxNone)
  | D1 seen =>
      match seen with
      | PassiveClosed | ActiveClosed | PassiveClosing => Some (set_rd s RDone, FxNone)
      | ActiveClosing => Some (set_rd s (D2 seen), FxNone)
      | _ =>
          if fix_cas g then
            if status_eqb (st s) seen then Some (set_rd (set_st s PassiveClosing) (D2 seen), FxNone)
            else Some (set_rd s D0, FxNone)
          else Some (set_rd (set_st s PassiveClosing) (D2 seen), FxNone)
      end
  | D2 seen => Some (set_rd s (if fix_pre g then DC seen else D3 seen), FxDel)
  | DC seen => (* cancelPendingCalls before the wait: the loop is through *)
      if all_visited (calls s) then Some (set_rd s (D3 seen), FxNone) else None
  | D3 seen => match ctxWG s with O => Some (set_rd s (D4 seen), FxNone) | _ => None end
  | D4 seen => if all_visited (calls s) then Some (set_rd s (D5 seen), FxNone) else None
  | D5 seen =>
      match seen with
      | ActiveClosing => Some (set_rd s RDone, FxNone)
      | _ => Some (set_rd s D6, FxNone)
      end
  | D6 => Some (set_rd (set_sock s false) D8, FxNone)
  | D8 => (* redialForClient = false; changeStatus(passiveClosed); notifyClosed; postDisconnect *)
      let s1 := notify (set_st s PassiveClosed) in
      Some (set_rd (set_hooks s1 (S (hooks s1))) RDone, FxNone)
  end.

(* one iteration of cancelPendingCalls' Range (both loops of readDisconnected): lock, cancel
   iff no reply and status OK, unlock.  A visited call has left the table (a call that stays
   in it is held by its reply side until it completes), so the second loop meets only the
   calls issued since the first. *)
Definition visit_body (s : sess) (i : nat) : option sess :=
  match nth_error (calls s) i with
  | None => None
  | Some c =>
      if c_tab c && negb (c_vis c) && mu_free c then
        let c1 := set_cvis c true in
        if negb (c_rep c) && cstat_ok (c_stat c) then Some (fail_call s i c1 StConnClosed)
        else Some (set_calls s (upd (calls s) i c1))
      else None
  end.

(* the reader is inside one of its two cancel loops *)
Definition rd_cancel (r : rpc) : bool := match r with D4 _ | DC _ => true | _ => false end.

Definition visit_step (s : sess) (i : nat) : option sess :=
  if rd_cancel (rd s) then visit_body s i else None.
