(* Model of codec/plain_codec.go: PlainCodec.Marshal / Unmarshal, formatProperType,
   parseProperType.  Definitions only.  Go panics are an explicit outcome.
   Definitions without suffix follow the REPAIRED code of /repo, [_prefix] the code as pinned.
   Floats are not modelled (strconv's shortest-representation printing); they are tested only. *)
From Coq Require Import Strings.String Strings.Byte.
From Coq Require Import List Arith NArith ZArith Bool Lia.
From Verif Require Import Base.Bytes Model.Strconv.
Import ListNotations.

Inductive outcome (A : Type) := Ok (a : A) | Err | Panic.
Arguments Ok {A} a.
Arguments Err {A}.
Arguments Panic {A}.

Definition omap {A B} (f : A -> B) (o : outcome A) : outcome B :=
  match o with Ok a => Ok (f a) | Err => Err | Panic => Panic end.

Definition obind {A B} (o : outcome A) (f : A -> outcome B) : outcome B :=
  match o with Ok a => f a | Err => Err | Panic => Panic end.

(* What formatProperType / parseProperType / setWithProperType can be handed, seen through
   reflect: the kind and the content.  Named types (type S string) have the kind of their
   underlying type and behave identically.
     LBytes  : a slice whose element kind is Uint8 ([]byte, named byte slices)
     LPtr x  : a non-nil pointer to x;  LNilPtr : a nil pointer
     LOpaque : every other kind (struct, map, other slices, arrays, func, chan, interface) *)
Inductive leaf :=
| LStr (s : bytes)
| LBool (b : bool)
| LInt (w : width) (z : Z)
| LUint (w : width) (n : N)
| LBytes (b : bytes)
| LPtr (x : leaf)
| LNilPtr
| LOpaque.

(* plain_codec.go:formatProperType; [None] = (_, false).  A nil pointer dereferences to the
   zero reflect.Value, whose kind is Invalid: ("", true). *)
Fixpoint format_leaf (l : leaf) : option bytes :=
  match l with
  | LPtr x => format_leaf x
  | LNilPtr => Some []
  | LStr s => Some s
  | LBool b => Some (format_bool b)
  | LInt _ z => Some (format_int z)
  | LUint _ n => Some (format_uint n)
  | LBytes b => Some b
  | LOpaque => None
  end.

(* the argument of PlainCodec.Marshal as its type switch sees it *)
Inductive psrc :=
| PNil                            (* nil interface *)
| PStr (ptr : bool) (s : bytes)   (* string / non-nil *string *)
| PStrNil                         (* a nil pointer of type *string *)
| PBytes (ptr : bool) (b : bytes) (* []byte / non-nil *[]byte *)
| PBytesNil                       (* a nil pointer of type *[]byte *)
| PRefl (l : leaf).               (* default case: reflection *)

(* plain_codec.go:PlainCodec.Marshal *)
Definition plain_marshal (v : psrc) : outcome bytes :=
  match v with
  | PNil => Ok []
  | PStr _ s => Ok s
  | PStrNil => Panic
  | PBytes _ b => Ok b
  | PBytesNil => Panic
  | PRefl l => match format_leaf l with Some s => Ok s | None => Err end
  end.

(* the part of parseProperType after the pointer loop and the CanSet check *)
Definition parse_core (data : bytes) (l : leaf) : option leaf :=
  match l with
  | LStr _ => Some (LStr data)
  | LBool _ => option_map LBool (parse_bool data)
  | LInt w _ => option_map (fun z => LInt w (wrap_int w z)) (parse_int 64 data)
  | LUint w _ => option_map (fun n => LUint w (wrap_uint w n)) (parse_uint 64 data)
  | LBytes _ => Some (LBytes data)
  | _ => None
  end.

(* plain_codec.go:parseProperType on reflect.ValueOf(v): strip pointers, then the value must
   be settable, which it is exactly when at least one (non-nil) pointer was followed.
   Result: the new content of the destination, [None] = false. *)
Fixpoint parse_into (data : bytes) (l : leaf) (settable : bool) : option leaf :=
  match l with
  | LNilPtr => None
  | LPtr x => option_map LPtr (parse_into data x true)
  | _ => if settable then parse_core data l else None
  end.

(* copy(s, data) into an existing []byte *)
Definition copy_into (old data : bytes) : bytes :=
  firstn (length old) data ++ skipn (length data) old.

(* the destination argument of PlainCodec.Unmarshal as its type switch sees it *)
Inductive pdst :=
| DNil                   (* nil interface *)
| DStr                   (* non-nil *string *)
| DStrNil                (* a nil pointer of type *string *)
| DSlice (old : bytes)   (* a []byte value: copy(s, data) *)
| DBytes                 (* non-nil *[]byte *)
| DBytesNil              (* a nil pointer of type *[]byte *)
| DRefl (l : leaf).      (* default case: reflection *)

(* plain_codec.go:PlainCodec.Unmarshal; the result is the destination's content afterwards
   ([None] for the nil interface).  [nildst] is what happens when the destination itself is a
   nil *string / *[]byte: the repaired code (commit 18d16e2) returns an error, the pinned code
   dereferenced nil. *)
Definition plain_unmarshal_gen (nildst : outcome (option leaf)) (data : bytes) (d : pdst)
  : outcome (option leaf) :=
  match d with
  | DNil => Ok None
  | DStr => Ok (Some (LStr data))
  | DStrNil => nildst
  | DSlice old => Ok (Some (LBytes (copy_into old data)))
  | DBytes => Ok (Some (LBytes data))
  | DBytesNil => nildst
  | DRefl l => match parse_into data l false with Some l' => Ok (Some l') | None => Err end
  end.

Definition plain_unmarshal := plain_unmarshal_gen Err.
Definition plain_unmarshal_prefix := plain_unmarshal_gen Panic.

(* ---- vocabulary of the round-trip statement ---- *)
Fixpoint leaf_zero (l : leaf) : leaf :=
  match l with
  | LStr _ => LStr []
  | LBool _ => LBool false
  | LInt w _ => LInt w 0
  | LUint w _ => LUint w 0
  | LBytes _ => LBytes []
  | LPtr x => LPtr (leaf_zero x)
  | LNilPtr => LNilPtr
  | LOpaque => LOpaque
  end.

(* supported scalar content within the range of its Go type *)
Definition scalar_ok (l : leaf) : bool :=
  match l with
  | LStr _ | LBool _ => true
  | LInt w z => int_in_range w z
  | LUint w n => uint_in_range w n
  | _ => false
  end.

(* a chain of non-nil pointers ending in a supported kind *)
Fixpoint leaf_ok (l : leaf) : bool :=
  match l with
  | LPtr x => leaf_ok x
  | LBytes _ => true
  | _ => scalar_ok l
  end.

(* same Go type: same kind and width at the end of pointer chains of equal depth *)
Fixpoint same_shape (a b : leaf) : bool :=
  match a, b with
  | LStr _, LStr _ | LBool _, LBool _ | LBytes _, LBytes _ => true
  | LInt w _, LInt w' _ | LUint w _, LUint w' _ => width_eqb w w'
  | LPtr x, LPtr y => same_shape x y
  | _, _ => false
  end.

(* "value v, handed to Marshal, and destination d, handed to Unmarshal, have the same Go type;
   r is what the destination must hold afterwards" *)
Inductive plain_pair : psrc -> pdst -> option leaf -> Prop :=
| pp_nil : plain_pair PNil DNil None
| pp_str p s : plain_pair (PStr p s) DStr (Some (LStr s))
| pp_bytes p b : plain_pair (PBytes p b) DBytes (Some (LBytes b))
| pp_slice p b old : length old = length b -> plain_pair (PBytes p b) (DSlice old) (Some (LBytes b))
| pp_refl_val l d :     (* Marshal(v), Unmarshal(data, &d) *)
    leaf_ok l = true -> same_shape l d = true ->
    plain_pair (PRefl l) (DRefl (LPtr d)) (Some (LPtr l))
| pp_refl_ptr l d :     (* Marshal(&v), Unmarshal(data, &d) *)
    leaf_ok l = true -> same_shape l d = true ->
    plain_pair (PRefl (LPtr l)) (DRefl (LPtr d)) (Some (LPtr l)).

Definition dst_nonnil (d : pdst) : bool :=
  match d with DStrNil | DBytesNil => false | _ => true end.
