(* The read loop of a session over the two size-prefixed protocols jsonproto and pbproto
   (proto/jsonproto/jsonproto.go, proto/pbproto/pbproto.go: identical framing): Unpack reads a
   4-byte big-endian size, refuses it against the read limit (SetSize), returns an empty message
   for size 0, otherwise sizes ONE buffer of [size] bytes (ChangeLen), fills it (io.ReadFull)
   and hands the complete frame to the decoder (xfer pipe, gjson / protobuf, DecodeQuery,
   ParseBytes, UnmarshalBody). The decoder is library and codec code: here it is the Section
   variable [decode], of which only the CLASS of its outcome matters to the loop
   (session.go startReadAndHandle): which message type was decoded, whether Unpack returned an
   error, and if so whether the body codec had been set when it did. *)
From Coq Require Import Strings.String Strings.Byte.
From Coq Require Import List Arith NArith ZArith Bool Lia.
From Verif Require Import Base.Bytes Base.Outcome Model.ReadLoop.
Import ListNotations.
Local Open Scope N_scope.

Inductive fclass :=
| FOk (mt : byte)          (* Unpack returned nil; the message has type mt *)
| FErrCodec (mt : byte)    (* Unpack returned an error AFTER the body codec was set (body did not
                              unmarshal): the loop marks the context bad-message and goes on *)
| FErrNil                  (* Unpack returned an error with no body codec set: disconnect *)
| FPanic.                  (* Unpack panicked: recovered by the loop's deferred function, disconnect *)

(* buffers requested while reading one message: the size field, then the frame *)
Definition sized_allocs (lim : N) (s : bytes) : list N :=
  match ltake 4 s with
  | None => [4]
  | Some (b4, _) =>
      let size := N_of_be b4 in
      if lim <? size then [4] else if size =? 0 then [4] else [4; size]
  end.

Section Sized.
  Variable decode : bytes -> fclass.

  Definition sized_unpack_live (lim : N) (s : bytes) : live (fclass * bytes) :=
    match ltake 4 s with
    | None => LMore
    | Some (b4, s) =>
        let size := N_of_be b4 in
        if lim <? size then LErr
        else if size =? 0 then LOk (FOk "000"%byte, s)
        else match ltake size s with
             | None => LMore
             | Some (frame, rest) => LOk (decode frame, rest)
             end
    end.

  Fixpoint sized_reader (fuel : nat) (lim : N) (s : bytes) (pre : N) : N * loop_end :=
    match fuel with
    | O => (pre, OutOfFuel)
    | S f =>
        match sized_unpack_live lim s with
        | LOk (FOk mt, rest) | LOk (FErrCodec mt, rest) =>
            if supported mt then sized_reader f lim rest (pre + 1) else (pre + 1, Unsupported)
        | LOk (FErrNil, _) | LOk (FPanic, _) => (pre + 1, Disconnected)
        | LMore => (pre + 1, Blocked)
        | LErr | LPanic | LAmbig => (pre + 1, Disconnected)
        end
    end.

  (* the frames the loop hands to the decoder, in order (framing alone, whatever they decode to) *)
  Fixpoint sized_frames (fuel : nat) (lim : N) (s : bytes) : list bytes :=
    match fuel with
    | O => []
    | S f =>
        match ltake 4 s with
        | None => []
        | Some (b4, s1) =>
            let size := N_of_be b4 in
            if lim <? size then []
            else if size =? 0 then []   (* empty message, type 0: the loop ends here *)
            else match ltake size s1 with
                 | None => []
                 | Some (frame, rest) => frame :: sized_frames f lim rest
                 end
        end
    end.
End Sized.
